(* C13 — agreement of the three back-ends, proved for the FLAT sub-class of S: scripts without
   read-callback triggers (every action is issued before run() or from an idle phase, i.e. from the
   wake callback at quiescence), without scripted exit / shutdown, whose adds fit hints_max_fd.
   Method: each back-end's loop, run on the model's kernel function, is simulated by the
   back-end-free specification "execute all phases in order on descriptors nobody reads"; at exit
   every registered context has been offered every byte written to it and is closed iff its peer
   terminated.  The three outcomes are therefore equal. *)
From MV Require Import C13.Model C13.ProofsLife C13.ProofsIso C13.ProofsRead C13.ProofsAgree C13.ProofsFix C13.ProofsTmr.
From Coq Require Import Permutation.

Definition flat (sc : script) : bool :=
  (match s_trigs sc with [] => true | _ => false end) &&
  forallb phase_act_ok (concat (s_phases sc)) &&
  Nat.leb (count_adds (concat (s_phases sc))) (if Nat.ltb (s_hints sc) 1 then 8 else s_hints sc) && negb (s_timer sc).

(* the specification: all phases executed in order, nothing ever read or closed *)
Definition spec_state (sc : script) : st := do_acts (concat (s_phases sc)) (init BSelect sc).
Definition spec_outcome (sc : script) (x : nat) : nat * bool * bool :=
  let d := cx (spec_state sc) x in
  if cregok d then (cq d, ceof d, negb (ceof d)) else (0, false, false).

(* ------------------------------------------------------------------ per-context relation *)
Record PC (c d : cst) : Prop := mkPC {
  p_kind : ckind c = ckind d;
  p_tot : cq c + coff c = cq d;
  p_eof : ceof c = ceof d;
  p_po : cpopen c = cpopen d;
  p_add : cadded c = cadded d;
  p_reg : cregok c = cregok d;
  p_sht : csht c = false;
  p_shtd : csht d = false;
  p_cld : cclosed d = false;
  p_cl_eof : cclosed c = true -> ceof c = true;
  p_cl_q : cclosed c = true -> cq c = 0;
  p_po_eof : cpopen c = false -> ceof c = true;
  p_off : cregok c = false -> coff c = 0;
  p_rst : crst c = false       (* no connection reset in the class *)
}.

Record GC (s sg : st) : Prop := mkGC {
  g_bk : bk sg = BSelect;
  g_pc : forall x, PC (cx s x) (cx sg x);
  g_reg : forall x, cregok (cx s x) = true <-> (In x (clist s) \/ cclosed (cx s x) = true)
}.

Definition Fl (s : st) : Prop := forall x, cflag (cx s x) = true -> cclosed (cx s x) = true.
Definition Flx (x : nat) (s : st) : Prop :=
  (forall z, z <> x -> cflag (cx s z) = true -> cclosed (cx s z) = true) /\
  (cflag (cx s x) = true -> ceof (cx s x) = true).

Lemma pc_can_write : forall c d, PC c d -> can_write c = can_write d.
Proof.
  intros c d []. unfold can_write. rewrite p_po0, p_sht0, p_shtd0, p_cld0.
  destruct (cclosed c) eqn:C.
  - rewrite (p_cl_eof0 eq_refl) in *. rewrite <- p_eof0. simpl.
    destruct (cpopen d); auto.
  - rewrite p_eof0. auto.
Qed.

(* the back-end tables, the trace, wk, ... do not matter for GC / Fl *)
Lemma GC_view2 : forall s s' sg sg', cx s' = cx s -> clist s' = clist s -> trigs s' = trigs s ->
  cx sg' = cx sg -> bk sg' = bk sg -> GC s sg -> GC s' sg'.
Proof. intros s s' sg sg' A B C D E []. constructor; rewrite ?A, ?B, ?C, ?D, ?E; auto. Qed.
Lemma Fl_view : forall s s', cx s' = cx s -> Fl s -> Fl s'.
Proof. intros s s' A H x. rewrite A. apply H. Qed.

(* update of one context on both sides *)
Lemma GC_upd : forall s sg y c' d' s' sg', GC s sg -> PC c' d' ->
  cregok c' = cregok (cx s y) -> cclosed c' = cclosed (cx s y) ->
  cx s' = (fun z => if Nat.eqb z y then c' else cx s z) ->
  cx sg' = (fun z => if Nat.eqb z y then d' else cx sg z) ->
  clist s' = clist s -> bk sg' = bk sg ->
  GC s' sg'.
Proof.
  intros s sg y c' d' s' sg' G P R C E1 E2 E3 E5. destruct G.
  constructor; rewrite ?E1, ?E2, ?E3, ?E5; auto.
  - intros x. destruct (Nat.eqb x y); auto.
  - intros x. destruct (Nat.eqb x y) eqn:E; auto.
    apply Nat.eqb_eq in E. subst x. rewrite R, C. auto.
Qed.

Ltac cxeq := simpl; rewrite ?cx_edge; simpl; rewrite ?cx_edge; reflexivity.
Ltac prj := simpl; rewrite ?clist_edge, ?trigs_edge, ?bk_edge; simpl; rewrite ?clist_edge, ?trigs_edge, ?bk_edge; auto.

Lemma bk_add_ctx : forall y s, bk (fst (add_ctx y s)) = bk s.
Proof.
  intros. unfold add_ctx, backend_add. simpl. destruct (bk s) eqn:B; simpl; auto.
  - destruct (Nat.eqb _ _); simpl; auto.
  - match goal with |- context [if ?c then _ else _] => destruct c end; simpl; rewrite ?bk_edge; auto.
Qed.

(* one scripted action, executed by the loop's state and by the specification *)
Lemma lock_do_act : forall a s sg, phase_act_ok a = true -> Inv s -> GC s sg ->
  (bk s = BPoll -> is_add a = true -> length (parr s) < pcap s) ->
  GC (do_act a s) (do_act a sg).
Proof.
  intros a s sg Hok I G Hcap.
  pose proof (g_pc _ _ G) as PCx. pose proof (g_bk _ _ G) as Bsg.
  assert (SKIP : forall e e', GC (emit e s) (emit e' sg)).
  { intros. eapply GC_view2; [| | | | |apply G]; auto. }
  destruct a; try discriminate; unfold do_act.
  - (* write *)
    rewrite <- (pc_can_write _ _ (PCx y)).
    destruct (can_write (cx s y)) eqn:CW; [|apply SKIP].
    assert (NC : cclosed (cx s y) = false).
    { unfold can_write in CW. destruct (cclosed (cx s y)); auto. rewrite Bool.andb_false_r in CW. discriminate. }
    destruct (PCx y).
    destruct (Nat.eqb k 0);
      (eapply (GC_upd s sg y); [apply G| | | |cxeq|cxeq|prj|prj]);
      try (simpl; reflexivity); constructor; simpl; auto; try lia; intros; congruence.
  - (* half-close *)
    destruct (PCx y). rewrite <- p_po0, <- p_eof0.
    destruct (cpopen (cx s y) && negb (ceof (cx s y))) eqn:CW; [|apply SKIP].
    apply Bool.andb_true_iff in CW. destruct CW as [CP CE].
    eapply (GC_upd s sg y); [apply G| | | |cxeq|cxeq|prj|prj].
    all: try (simpl; reflexivity).
    constructor; simpl; auto.
    unfold is_pipe. rewrite p_kind0. auto.
  - (* close of the peer *)
    destruct (PCx y). rewrite <- p_po0.
    destruct (cpopen (cx s y)) eqn:CP; [|apply SKIP].
    assert (TE : is_tcp (cx s y) && ceof (cx s y) = is_tcp (cx sg y) && ceof (cx sg y)).
    { unfold is_tcp. rewrite p_kind0, p_eof0. auto. }
    rewrite <- TE.
    destruct (is_tcp (cx s y) && ceof (cx s y));
      (eapply (GC_upd s sg y); [apply G| | | |cxeq|cxeq|prj|prj]);
      try (simpl; reflexivity); constructor; simpl; auto.
  - (* add *)
    destruct (PCx y). rewrite <- p_add0.
    destruct (cadded (cx s y) || Nat.eqb y 0) eqn:CA; [apply SKIP|].
    apply Bool.orb_false_iff in CA. destruct CA as [CA Y0].
    set (c1 := mkC (ckind (cx s y)) _ _ _ _ _ true _ _ _ (crst (cx s y))).
    set (d1 := mkC (ckind (cx sg y)) _ _ _ _ _ true _ _ _ (crst (cx sg y))).
    destruct (add_ctx_room y (updc y c1 s)) as [O1 S1].
    { simpl. intros Bp. specialize (Hcap Bp eq_refl). lia. }
    destruct (add_ctx_room y (updc y d1 sg)) as [O2 S2].
    { simpl. rewrite Bsg. discriminate. }
    destruct (add_ctx y (updc y c1 s)) as [s1 o1]. destruct (add_ctx y (updc y d1 sg)) as [s2 o2] eqn:As2.
    simpl in O1, O2, S1, S2. subst o1 o2.
    unfold shared in S1, S2. inversion S1 as [[X1 X2 X3 X4 X5 X6 X7 X8]]. inversion S2 as [[Y1 Y2 Y3 Y4 Y5 Y6 Y7 Y8]].
    clear S1 S2.
    assert (Bs2 : bk s2 = BSelect).
    { pose proof (bk_add_ctx y (updc y d1 sg)) as E. rewrite As2 in E. simpl in E. congruence. }
    assert (NC : cclosed (cx s y) = false).
    { destruct (cclosed (cx s y)) eqn:C; auto. apply (i_cladd s I) in C. congruence. }
    constructor; simpl; rewrite ?X1, ?X2, ?X3, ?Y1; simpl; auto.
    + intros x. destruct (Nat.eqb x y) eqn:E; [|apply PCx].
      apply Nat.eqb_eq in E. subst x. rewrite !Nat.eqb_refl. simpl.
      constructor; simpl; auto. intros; discriminate.
    + intros x. pose proof (g_reg _ _ G x) as R.
      destruct (Nat.eqb x y) eqn:E.
      * apply Nat.eqb_eq in E. subst x. rewrite !Nat.eqb_refl. simpl. split; auto.
        intros _. left. apply in_or_app. right; left; auto.
      * apply Nat.eqb_neq in E. rewrite R. split.
        -- intros [H|H]; auto. left. apply in_or_app; auto.
        -- intros [H|H]; auto. apply in_app_or in H. destruct H as [H|[H|[]]]; auto; congruence.
  - (* wake *)
    eapply GC_view2; [| | | | |apply G]; prj; try cxeq.
Qed.

(* scripted actions (other than shutdown) leave the CLOSED flag and the closed state of every context
   alone, and never re-open a peer *)
Definition flagsame (s s' : st) : Prop :=
  forall z, cflag (cx s' z) = cflag (cx s z) /\ cclosed (cx s' z) = cclosed (cx s z) /\
            (ceof (cx s z) = true -> ceof (cx s' z) = true) /\ coff (cx s' z) = coff (cx s z).
Lemma flagsame_refl : forall s, flagsame s s.
Proof. intros s z. auto. Qed.
Lemma flagsame_trans : forall a b c, flagsame a b -> flagsame b c -> flagsame a c.
Proof.
  intros a b c H1 H2 z. destruct (H1 z) as (A1 & A2 & A3 & A4), (H2 z) as (B1 & B2 & B3 & B4).
  repeat split; try congruence. auto.
Qed.
Lemma flagsame_Fl : forall s s', flagsame s s' -> Fl s -> Fl s'.
Proof. intros s s' H F z. destruct (H z) as (A & B & _). rewrite A, B. apply F. Qed.
Lemma flagsame_Flx : forall x s s', flagsame s s' -> Flx x s -> Flx x s'.
Proof.
  intros x s s' H [F1 F2]. split.
  - intros z Hz. destruct (H z) as (A & B & _). rewrite A, B. apply F1; auto.
  - destruct (H x) as (A & _ & C & _). rewrite A. intros K. apply C. auto.
Qed.

Lemma flags_do_act : forall a s, phase_act_ok a = true -> flagsame s (do_act a s).
Proof.
  intros a s Hok z. destruct a; try discriminate; unfold do_act.
  - destruct (can_write (cx s y)); [|simpl; auto].
    destruct (Nat.eqb k 0); simpl; rewrite ?cx_edge; simpl;
      (destruct (Nat.eqb z y) eqn:E; auto; apply Nat.eqb_eq in E; subst; simpl; auto).
  - destruct (cpopen (cx s y) && negb (ceof (cx s y))); [|simpl; auto].
    simpl. rewrite cx_edge. simpl. destruct (Nat.eqb z y) eqn:E; auto.
    apply Nat.eqb_eq in E. subst. simpl. auto.
  - destruct (cpopen (cx s y)); [|simpl; auto].
    destruct (is_tcp (cx s y) && ceof (cx s y)); simpl; rewrite ?cx_edge; simpl;
      (destruct (Nat.eqb z y) eqn:E; auto; apply Nat.eqb_eq in E; subst; simpl; auto).
  - destruct (cadded (cx s y) || Nat.eqb y 0); [simpl; auto|].
    set (c1 := mkC _ _ _ _ _ _ true _ _ _ _).
    destruct (add_ctx_other y (updc y c1 s)) as (_ & _ & _ & D & _).
    destruct (add_ctx y (updc y c1 s)) as [s1 ok]. simpl in D. simpl. rewrite D. simpl.
    destruct (Nat.eqb z y) eqn:E; auto. apply Nat.eqb_eq in E. subst. rewrite Nat.eqb_refl. simpl. auto.
  - simpl. rewrite cx_edge. auto.
Qed.

(* ------------------------------------------------------------------ frame facts for actions *)
Lemma do_act_frame : forall a s,
  bk (do_act a s) = bk s /\ pcap (do_act a s) = pcap s /\ ecap (do_act a s) = ecap s /\
  idle (do_act a s) = idle s /\
  (phase_act_ok a = true -> toexit (do_act a s) = toexit s) /\
  length (parr (do_act a s)) <= length (parr s) + (if is_add a then 1 else 0).
Proof.
  intros a s. destruct a; unfold do_act; simpl is_add.
  - destruct (can_write (cx s y)); [destruct (Nat.eqb k 0)|]; simpl; unfold edge; simpl;
      repeat match goal with |- context [if ?c then _ else _] => destruct c; simpl end; repeat split; auto; lia.
  - destruct (cpopen (cx s y) && negb (ceof (cx s y))); simpl; unfold edge; simpl;
      repeat match goal with |- context [if ?c then _ else _] => destruct c; simpl end; repeat split; auto; lia.
  - destruct (cpopen (cx s y)); [destruct (is_tcp (cx s y) && ceof (cx s y))|]; simpl; unfold edge; simpl;
      repeat match goal with |- context [if ?c then _ else _] => destruct c; simpl end; repeat split; auto; lia.
  - destruct (cadded (cx s y) || Nat.eqb y 0); [simpl; repeat split; auto; lia|].
    set (s0 := updc y _ s).
    assert (A : bk (fst (add_ctx y s0)) = bk s0 /\ pcap (fst (add_ctx y s0)) = pcap s0 /\ ecap (fst (add_ctx y s0)) = ecap s0 /\
                idle (fst (add_ctx y s0)) = idle s0 /\ toexit (fst (add_ctx y s0)) = toexit s0 /\
                length (parr (fst (add_ctx y s0))) <= length (parr s0) + 1).
    { unfold add_ctx, backend_add. simpl. destruct (bk s) eqn:B; simpl.
      - repeat split; auto; lia.
      - destruct (Nat.eqb (length (parr s)) (pcap s)); simpl; rewrite ?app_length; simpl; repeat split; auto; lia.
      - match goal with |- context [if ?c then _ else _] => destruct c end; simpl; unfold edge; simpl;
          repeat match goal with |- context [if ?c then _ else _] => destruct c; simpl end; repeat split; auto; lia. }
    destruct (add_ctx y s0) as [s1 ok]. simpl in *. destruct A as (A1 & A2 & A3 & A4 & A5 & A6).
    repeat split; auto.
  - destruct (cclosed (cx s y)); [|destruct (negb (is_pipe (cx s y)))]; simpl; unfold edge; simpl;
      repeat match goal with |- context [if ?c then _ else _] => destruct c; simpl end; repeat split; auto; lia.
  - simpl. unfold edge; simpl. repeat match goal with |- context [if ?c then _ else _] => destruct c; simpl end; repeat split; auto; lia.
  - simpl. unfold edge; simpl. repeat match goal with |- context [if ?c then _ else _] => destruct c; simpl end;
      repeat split; auto; try lia; intros; discriminate.
  - destruct (can_reset (cx s y)); simpl; unfold edge; simpl;
      repeat match goal with |- context [if ?c then _ else _] => destruct c; simpl end;
      repeat split; auto; try lia; intros; discriminate.
Qed.

(* a whole phase, with the capacity budget K reserved for the phases still to come *)
Lemma lock_do_acts : forall l s sg K, forallb phase_act_ok l = true -> Inv s -> GC s sg ->
  (bk s = BPoll -> length (parr s) + count_adds l + K <= pcap s) ->
  Inv (do_acts l s) /\ GC (do_acts l s) (do_acts l sg) /\ flagsame s (do_acts l s) /\
  (bk s = BPoll -> length (parr (do_acts l s)) + K <= pcap s) /\
  bk (do_acts l s) = bk s /\ pcap (do_acts l s) = pcap s /\ ecap (do_acts l s) = ecap s /\
  idle (do_acts l s) = idle s /\ toexit (do_acts l s) = toexit s.
Proof.
  induction l as [|a l IH]; intros s sg K Hok I G Hcap; simpl.
  - split; [auto|]. split; [auto|]. split; [apply flagsame_refl|]. split; [|repeat split; auto].
    intros B. specialize (Hcap B). unfold count_adds in Hcap. simpl in Hcap. lia.
  - simpl in Hok. apply Bool.andb_true_iff in Hok. destruct Hok as [Ha Hl].
    rewrite count_adds_cons in Hcap.
    destruct (do_act_frame a s) as (F1 & F2 & F3 & F4 & F5 & F6).
    assert (G1 : GC (do_act a s) (do_act a sg)).
    { apply lock_do_act; auto. intros B A. specialize (Hcap B). rewrite A in Hcap. lia. }
    destruct (Inv_do_act a s I) as [I1 _].
    destruct (IH (do_act a s) (do_act a sg) K Hl I1 G1) as (A1 & A2 & A3 & A4 & A5 & A6 & A7 & A8 & A9).
    { rewrite F1, F2. intros B. specialize (Hcap B). destruct (is_add a); lia. }
    split; [auto|]. split; [auto|].
    split; [apply (flagsame_trans _ (do_act a s)); [apply flags_do_act; auto|auto]|].
    split; [rewrite <- F2; rewrite F1 in A4; auto|].
    rewrite A5, A6, A7, A8, A9, F1, F2, F3, F4, (F5 Ha). repeat split; auto.
Qed.

(* ------------------------------------------------------------------ a visit *)
Definition rd_ctx (c : cst) : cst :=
  mkC (ckind c) 0 (ceof c) (cpopen c) (csht c)
      (cflag c || (if is_pipe c then ceof c else ceof c || csht c))
      (cadded c) (cregok c) (cclosed c) (coff c + cq c) (crst c).

(* the read callback = drain and flag ([rd_mid]), then the actions of the triggers it fires *)
Definition rd_fire (x : nat) (s : st) : list trigger :=
  filter (trig_hit x (coff (cx s x) + cq (cx s x))) (trigs s).
Definition rd_mid (x : nat) (s : st) : st :=
  set_trigs (filter (fun t => negb (trig_hit x (coff (cx s x) + cq (cx s x)) t)) (trigs s))
            (emit (ERead x (cq (cx s x))) (updc x (rd_ctx (cx s x)) s)).
Lemma cb_read_split : forall x s, cb_read x s = do_acts (map tact (rd_fire x s)) (rd_mid x s).
Proof. intros. reflexivity. Qed.

Lemma Fl_clist : forall s x, Inv s -> Fl s -> In x (clist s) -> cflag (cx s x) = false.
Proof.
  intros s x I F H. destruct (cflag (cx s x)) eqn:E; auto.
  apply F in E. destruct (i_reg s I x H) as (_ & _ & C). congruence.
Qed.

Lemma Inv_rd_mid : forall x s, Inv s -> In x (clist s) -> Inv (rd_mid x s).
Proof.
  intros x s I Hin. unfold rd_mid.
  eapply Inv_view; [apply sv_set_trigs|]. apply Inv_emit_read; [simpl; auto|].
  eapply Inv_view; [apply sv_updc|apply I]; auto.
Qed.

Lemma gc_rd_mid : forall x s sg, GC s sg -> Fl s -> Inv s -> In x (clist s) ->
  GC (rd_mid x s) sg /\ Flx x (rd_mid x s) /\
  cflag (cx (rd_mid x s) x) = ceof (cx s x) /\
  (cflag (cx (rd_mid x s) x) = false -> events_c (cx (rd_mid x s) x) = 0) /\
  cx (rd_mid x s) x = rd_ctx (cx s x) /\ (forall z, z <> x -> cx (rd_mid x s) z = cx s z).
Proof.
  intros x s sg G F I Hin. unfold rd_mid.
  pose proof (g_pc _ _ G x) as P. destruct P.
  pose proof (Fl_clist s x I F Hin) as NF.
  assert (RG : cregok (cx s x) = true) by (apply (g_reg _ _ G); auto).
  assert (FE : cflag (rd_ctx (cx s x)) = ceof (cx s x)).
  { unfold rd_ctx. simpl. rewrite NF, p_sht0. simpl. destruct (is_pipe (cx s x)); auto. apply Bool.orb_false_r. }
  split; [|split; [|split; [|split; [|split]]]].
  - destruct G. constructor; simpl; auto.
    + intros z. destruct (Nat.eqb z x) eqn:E; auto. apply Nat.eqb_eq in E. subst z.
      unfold rd_ctx. constructor; simpl; auto; try lia. intros; congruence.
    + intros z. destruct (Nat.eqb z x) eqn:E; auto. apply Nat.eqb_eq in E. subst z.
      unfold rd_ctx. simpl. apply g_reg0.
  - split.
    + intros z Hz. simpl. apply Nat.eqb_neq in Hz. rewrite Hz. apply F.
    + simpl. rewrite Nat.eqb_refl. rewrite FE. unfold rd_ctx. simpl. auto.
  - simpl. rewrite Nat.eqb_refl. auto.
  - simpl. rewrite Nat.eqb_refl. rewrite FE. intros CE.
    unfold events_c, ev_in, ev_hup, ev_err, rd_ctx. simpl. rewrite CE, p_sht0, p_rst0.
    destruct (cpopen (cx s x)) eqn:PO; [|rewrite (p_po_eof0 eq_refl) in CE; discriminate].
    destruct (ckind (cx s x)); simpl; auto.
  - simpl. rewrite Nat.eqb_refl. auto.
  - intros z Hz. simpl. apply Nat.eqb_neq in Hz. rewrite Hz. auto.
Qed.

Lemma hup_eof : forall c d, PC c d -> ev_hup c = true -> ceof c = true.
Proof.
  intros c d [] H. unfold ev_hup in H. rewrite p_sht0, ?p_rst0 in H.
  destruct (ckind c); auto.
  - rewrite Bool.orb_false_r in H. apply Bool.negb_true_iff in H. auto.
  - discriminate.
Qed.

Lemma gc_set_flag : forall x s sg, GC s sg -> Flx x s -> ceof (cx s x) = true ->
  GC (set_flag x s) sg /\ Flx x (set_flag x s).
Proof.
  intros x s sg G [F1 F2] CE. unfold set_flag. split.
  - destruct G. constructor; simpl; auto.
    + intros z. destruct (Nat.eqb z x) eqn:E; auto. apply Nat.eqb_eq in E. subst z.
      destruct (g_pc0 x). constructor; simpl; auto.
    + intros z. destruct (Nat.eqb z x) eqn:E; auto. apply Nat.eqb_eq in E. subst z. simpl. apply g_reg0.
  - split.
    + intros z Hz. simpl. apply Nat.eqb_neq in Hz. rewrite Hz. apply F1; auto. apply Nat.eqb_neq; auto.
    + simpl. rewrite Nat.eqb_refl. simpl. auto.
Qed.

Lemma Flx_Fl : forall x s, Flx x s -> cflag (cx s x) = false -> Fl s.
Proof.
  intros x s [F1 F2] H z Hz. destruct (Nat.eq_dec z x) as [->|N]; [congruence|auto].
Qed.

Lemma Fl_Flx : forall x s, Fl s -> Inv s -> In x (clist s) -> Flx x s.
Proof.
  intros x s F I H. split; [intros z _; apply F|].
  intros C. rewrite (Fl_clist s x I F H) in C. discriminate.
Qed.

(* close callback + removal from ctx_list, whatever the back-end does to its tables *)
Lemma gc_close : forall x s sg s', GC s sg -> Flx x s -> cflag (cx s x) = true -> In x (clist s) ->
  cq (cx s x) = 0 ->
  cx s' = cx (cb_close x s) -> clist s' = rm x (clist s) -> trigs s' = trigs s ->
  GC s' sg /\ Fl s'.
Proof.
  intros x s sg s' G [F1 F2] CF Hin CQ E1 E2 E3. destruct G. split.
  - constructor; rewrite ?E1, ?E2, ?E3; simpl; auto.
    + intros z. destruct (Nat.eqb z x) eqn:E; auto. apply Nat.eqb_eq in E. subst z.
      destruct (g_pc0 x). constructor; simpl; auto.
    + intros z. destruct (Nat.eqb z x) eqn:E.
      * apply Nat.eqb_eq in E. subst z. simpl. split; auto. intros _. apply g_reg0. auto.
      * apply Nat.eqb_neq in E. rewrite g_reg0. split.
        -- intros [H|H]; auto. left. apply rm_In. auto.
        -- intros [H|H]; auto. apply rm_In in H. tauto.
  - intros z. rewrite E1. simpl. destruct (Nat.eqb z x) eqn:E; auto.
    apply Nat.eqb_neq in E. apply F1; auto.
Qed.

(* quiet descriptor *)
Lemma events_zero : forall c d, PC c d -> events_c c = 0 -> cq c = 0 /\ ceof c = false.
Proof.
  intros c d [] H. unfold events_c, ev_in, ev_hup in H. rewrite p_sht0 in H.
  destruct (ckind c).
  - destruct (Nat.ltb 0 (cq c)) eqn:Q; destruct (ceof c); simpl in H; try discriminate.
    apply Nat.ltb_ge in Q. split; auto; lia.
  - destruct (Nat.ltb 0 (cq c)) eqn:Q; destruct (ceof c); simpl in H; try discriminate.
    apply Nat.ltb_ge in Q. split; auto; lia.
  - destruct (Nat.ltb 0 (cq c)) eqn:Q; destruct (ceof c); simpl in H; try discriminate.
    apply Nat.ltb_ge in Q. split; auto; lia.
Qed.

(* ------------------------------------------------------------------ the invariant of a flat run *)
Definition Quiet (s : st) : Prop := forall x, In x (clist s) -> events_c (cx s x) = 0.


Lemma wk_edge : forall x s, wk (edge x s) = wk s.
Proof. intros. unfold edge. destruct (_ && _); auto. Qed.
Lemma idle_edge : forall x s, idle (edge x s) = idle s.
Proof. intros. unfold edge. destruct (_ && _); auto. Qed.
Lemma toexit_edge : forall x s, toexit (edge x s) = toexit s.
Proof. intros. unfold edge. destruct (_ && _); auto. Qed.
Lemma pcap_edge : forall x s, pcap (edge x s) = pcap s.
Proof. intros. unfold edge. destruct (_ && _); auto. Qed.

Lemma Quiet_view : forall s s', cx s' = cx s -> clist s' = clist s -> Quiet s -> Quiet s'.
Proof. intros s s' A B Q x Hx. rewrite A. apply Q. rewrite <- B. auto. Qed.

Section FlatRun.
Variable sgfin : st.     (* the specification's final ghost *)

(* The invariant of a run.  E = ghost at the start of the current epoch (all phases so far and all
   earlier epochs' triggers executed, nothing read), U = triggers not fired at the epoch's start,
   h = triggers fired in this epoch, in firing order, sg = the ghost now.  fm = Some x while
   context x is being visited (it may be flagged and not yet closed). *)
Record GT (E : st) (U : list trigger) (fm : option nat) (s sg : st) (h : list trigger) : Prop := mkGT {
  gt_inv : Inv s;
  gt_gc : GC s sg;
  gt_fl : match fm with None => Fl s | Some x => Flx x s end;
  gt_ph : forallb phase_act_ok (concat (phases s)) = true;
  gt_cap : bk s = BPoll -> length (parr s) + count_adds (concat (phases s)) <= pcap s;
  gt_fin : spec_go E U (phases s) = sgfin;
  gt_ghost : sg = do_acts (map tact h) E;
  gt_trigs : trigs s = filter (fun t => negb (memt h t)) U;
  gt_ndU : NoDup U;
  gt_ndh : NoDup h;
  gt_hU : incl h U;
  gt_w : forall t, In t U -> tact_ok (tact t) = true /\ 1 <= tbytes t;
  gt_ts : TS U;
  gt_so : noterm U \/ (sortedU U /\ ordU U h);
  gt_just : exists hb, h = concat hb /\ (forall b, In b hb -> b <> []) /\ JustB E U hb;
  gt_coff : forall t, In t (trigs s) -> coff (cx s (tctx t)) < tbytes t;
  gt_fired : forall t, In t h -> tbytes t <= coff (cx s (tctx t));
  gt_bkE : bk E = BSelect
}.
Definition GX (E : st) (U : list trigger) (s : st) : Prop := exists sg h, GT E U None s sg h.

Lemma do_acts_app : forall l1 l2 s, do_acts (l1 ++ l2) s = do_acts l2 (do_acts l1 s).
Proof. intros. unfold do_acts. apply fold_left_app. Qed.

Lemma GX_inv : forall E U s, GX E U s -> Inv s.
Proof. intros E U s (sg & h & G). apply G. Qed.

(* only cx, ctx_list, triggers, phases and the poll capacity matter *)
Lemma GT_view : forall E U fm s s' sg h, GT E U fm s sg h -> Inv s' ->
  cx s' = cx s -> clist s' = clist s -> trigs s' = trigs s -> phases s' = phases s ->
  bk s' = bk s -> pcap s' = pcap s -> length (parr s') <= length (parr s) -> GT E U fm s' sg h.
Proof.
  intros E U fm s s' sg h [] I' A B C D B' P L. constructor; rewrite ?A, ?B, ?C, ?D; auto.
  - eapply GC_view2; [| | | | |apply gt_gc0]; auto.
  - destruct fm; [destruct gt_fl0 as [F1 F2]; split; rewrite ?A; auto|intros z; rewrite A; apply gt_fl0].
  - rewrite B', P. intros Bp. specialize (gt_cap0 Bp). lia.
Qed.

Lemma GT_SOK : forall E U fm s sg h, GT E U fm s sg h -> SOK U.
Proof. intros E U fm s sg h G. destruct (gt_so _ _ _ _ _ _ G) as [N|[S _]]; [left|right]; auto. Qed.

Lemma GT_tacts : forall E U fm s sg h, GT E U fm s sg h -> all_tacts U.
Proof. intros E U fm s sg h G t Ht. apply (gt_w _ _ _ _ _ _ G). auto. Qed.

(* the fired set is closed under "earlier trigger of the same context" *)
Lemma GT_pc_sorted : forall E U fm s sg h, GT E U fm s sg h -> sortedU U -> pc (memt h) U.
Proof.
  intros E U fm s sg h G S a t B C Pt. apply memt_In in Pt.
  destruct (memt h a) eqn:M; auto. exfalso.
  destruct (before_In _ _ _ B) as [Ia It].
  assert (In a (trigs s)) as Ha.
  { rewrite (gt_trigs _ _ _ _ _ _ G). apply filter_In. split; auto. rewrite M. auto. }
  pose proof (gt_coff _ _ _ _ _ _ G a Ha). pose proof (gt_fired _ _ _ _ _ _ G t Pt).
  pose proof (S a t B C). rewrite C in *. lia.
Qed.

Lemma GT_pc : forall E U fm s sg h, GT E U fm s sg h -> PCok (memt h) U.
Proof.
  intros E U fm s sg h G. destruct (gt_so _ _ _ _ _ _ G) as [N|[S _]]; [left; auto|right].
  eapply GT_pc_sorted; eauto.
Qed.

Lemma filter_all : forall {A} (f : A -> bool) l, (forall t, In t l -> f t = true) -> filter f l = l.
Proof. induction l as [|a l IH]; intros H; simpl; auto. rewrite (H a (or_introl eq_refl)), IH; auto. intros; apply H; right; auto. Qed.

Lemma GX_view : forall E U s s', GX E U s -> Inv s' ->
  cx s' = cx s -> clist s' = clist s -> trigs s' = trigs s -> phases s' = phases s ->
  bk s' = bk s -> pcap s' = pcap s -> length (parr s') <= length (parr s) -> GX E U s'.
Proof. intros E U s s' (sg & h & G) I' A B C D B' P L. exists sg, h. eapply GT_view; eauto. Qed.

Lemma GC_cxeq : forall s sg sg', GC s sg -> (forall x, cx sg' x = cx sg x) -> bk sg' = BSelect -> GC s sg'.
Proof. intros s sg sg' [] H B. constructor; auto. intros x. rewrite H. auto. Qed.

Lemma bk_do_acts : forall l s, bk (do_acts l s) = bk s.
Proof.
  induction l as [|a l IH]; intros; simpl; auto. rewrite IH. destruct (do_act_frame a s) as (F & _). auto.
Qed.

(* facts about the ghost *)
Lemma GT_ghost_cx : forall E U fm s sg h, GT E U fm s sg h -> forall y,
  cx sg y = apply_y (yacts (filter (memt h) U) y) (cx E y) /\ bk sg = BSelect /\
  cq (cx sg y) = tot E U (memt h) y /\ cregok (cx sg y) = cregok (cx E y).
Proof.
  intros E U fm s sg h G y.
  assert (A : cx sg y = apply_y (yacts (filter (memt h) U) y) (cx E y)).
  { rewrite (gt_ghost _ _ _ _ _ _ G). apply ghost_eq; try apply G. apply (GT_tacts _ _ _ _ _ _ G).
    destruct (gt_so _ _ _ _ _ _ G) as [N|[_ O]]; auto. }
  split; auto. split.
  - rewrite (gt_ghost _ _ _ _ _ _ G), bk_do_acts. apply G.
  - rewrite A. split; [reflexivity|]. apply (sf_reg _ _ (apply_samefix _ _)).
Qed.

(* at quiescence the fired set is closed, hence the least fixpoint: the ghost is the canonical one *)
Lemma quiet_closed : forall E U s sg h, GT E U None s sg h -> Quiet s ->
  forall t, In t U -> en E U (memt h) t = true -> memt h t = true.
Proof.
  intros E U s sg h G Q t Ht EN.
  destruct (memt h t) eqn:M; auto. exfalso.
  pose proof (gt_coff _ _ _ _ _ _ G t) as CO.
  assert (In t (trigs s)) as Hts.
  { rewrite (gt_trigs _ _ _ _ _ _ G). apply filter_In. split; auto. rewrite M. auto. }
  specialize (CO Hts).
  unfold en in EN. apply Bool.andb_true_iff in EN. destruct EN as [RG LE]. apply Nat.leb_le in LE.
  set (x := tctx t) in *.
  destruct (GT_ghost_cx _ _ _ _ _ _ G x) as (_ & _ & TQ & RGg).
  pose proof (g_pc _ _ (gt_gc _ _ _ _ _ _ G) x) as P. destruct P.
  assert (cregok (cx s x) = true) as RS by (rewrite p_reg0, RGg; auto).
  assert (cq (cx s x) = 0) as Q0.
  { destruct (proj1 (g_reg _ _ (gt_gc _ _ _ _ _ _ G) x) RS) as [Hin|Hc].
    - apply (events_zero _ _ (g_pc _ _ (gt_gc _ _ _ _ _ _ G) x) (Q x Hin)).
    - auto. }
  lia.
Qed.

Lemma quiet_cxeq : forall E U s sg h, GT E U None s sg h -> Quiet s ->
  (forall t, In t U -> memt h t = LP E U t) /\ forall y, cx (settle E U) y = cx sg y.
Proof.
  intros E U s sg h G Q.
  destruct (gt_just _ _ _ _ _ _ G) as (hb & Eh & NE & J).
  assert (L : forall t, In t U -> memt h t = LP E U t).
  { rewrite Eh. apply closed_is_lfp; auto; try apply G; try (rewrite <- Eh; apply G).
    - apply (GT_SOK _ _ _ _ _ _ G).
    - rewrite <- Eh. apply (quiet_closed E U s sg h G Q). }
  split; auto. intros y.
  destruct (GT_ghost_cx _ _ _ _ _ _ G y) as (A & _).
  destruct (ghost_settle E U y) as [B _]; [apply (GT_tacts _ _ _ _ _ _ G)|].
  rewrite A, B. f_equal. f_equal. apply filter_ext_in. intros t Ht. symmetry. auto.
Qed.

Lemma filter_true : forall {A} (l : list A), filter (fun _ => true) l = l.
Proof. induction l; simpl; auto. f_equal. auto. Qed.

(* the wake callback: plain, or idle = next phase (a new epoch starts) / exit *)
Lemma hw_GT : forall E U s, GX E U s -> toexit s = false -> (idle s = true -> Quiet s) ->
  exists E' U',
    GX E' U' (handle_wakeup s) /\
    idle (handle_wakeup s) = false /\
    bk (handle_wakeup s) = bk s /\ pcap (handle_wakeup s) = pcap s /\ ecap (handle_wakeup s) = ecap s /\
    ext s (handle_wakeup s) /\
    (idle s = false -> E' = E /\ U' = U /\ toexit (handle_wakeup s) = false /\ cx (handle_wakeup s) = cx s /\
                       clist (handle_wakeup s) = clist s /\ phases (handle_wakeup s) = phases s) /\
    (toexit (handle_wakeup s) = true ->
       E' = E /\ U' = U /\ phases (handle_wakeup s) = [] /\ cx (handle_wakeup s) = cx s /\
       clist (handle_wakeup s) = clist s).
Proof.
  intros E U s (sg & h & G) EX QI.
  destruct (Inv_handle_wakeup s (gt_inv _ _ _ _ _ _ G)) as [IW EW].
  unfold handle_wakeup in *.
  set (s1 := emit EWake (set_wk 0 s)) in *.
  assert (I1 : Inv s1).
  { apply Inv_emit_quiet; [exact Logic.I|]. eapply Inv_view; [apply sv_set_wk|apply G]. }
  assert (G1 : GT E U None s1 sg h) by (eapply GT_view; eauto).
  destruct (idle s1) eqn:ID.
  - set (s2 := set_idle false s1) in *.
    assert (I2 : Inv s2) by (eapply Inv_view; [apply sv_set_idle|auto]).
    assert (G2 : GT E U None s2 sg h) by (eapply GT_view; eauto).
    assert (IDs : idle s = true) by (simpl in ID; auto).
    destruct (phases s2) as [|p rest] eqn:P; simpl in P.
    + (* after the last phase: exit *)
      exists E, U.
      destruct (do_act_frame AExit s2) as (F1 & F2 & F3 & F4 & _ & _).
      split.
      { exists sg, h. eapply GT_view; [apply G2|apply IW| | | | | | |]; simpl;
          rewrite ?cx_edge, ?clist_edge, ?trigs_edge, ?phases_edge, ?bk_edge, ?pcap_edge, ?parr_edge; simpl; auto. }
      split; [rewrite F4; simpl; auto|]. split; [rewrite F1; simpl; auto|]. split; [rewrite F2; simpl; auto|].
      split; [rewrite F3; simpl; auto|].
      split; [auto|]. split; [intros C; congruence|].
      intros _. simpl. rewrite ?cx_edge, ?clist_edge, ?phases_edge. simpl. rewrite P. auto.
    + (* the next phase: the epoch ends, the ghost becomes the canonical one *)
      pose proof (QI IDs) as Q.
      assert (Q2 : Quiet s2) by (eapply Quiet_view; [| |apply Q]; auto).
      destruct (quiet_cxeq E U s2 sg h G2 Q2) as [LL CXE].
      pose proof (GT_tacts _ _ _ _ _ _ G2) as WT.
      destruct G2 as [I2' GC2 F2 PH CAP FIN GH TR NDU NDH HU W TSU SO J CO FI BE].
      simpl in PH, CAP, FIN. rewrite P in PH, CAP, FIN. simpl in PH, CAP, FIN.
      rewrite forallb_app in PH. apply Bool.andb_true_iff in PH. destruct PH as [PH1 PH2].
      rewrite count_adds_app in CAP.
      set (C := settle E U) in *.
      assert (BC : bk C = BSelect).
      { destruct (ghost_settle E U 0) as [_ B]; [apply WT|]. unfold C. congruence. }
      assert (GCC : GC s2 C) by (eapply GC_cxeq; eauto).
      set (s3 := set_phases rest s2) in *.
      assert (I3 : Inv s3) by (eapply Inv_view; [apply sv_set_phases|auto]).
      assert (G3 : GC s3 C) by (eapply GC_view2; [| | | | |apply GCC]; auto).
      destruct (lock_do_acts p s3 C (count_adds (concat rest)) PH1 I3 G3) as (A1 & A2 & A3 & A4 & A5 & A6 & A7 & A8 & A9).
      { simpl. intros B. specialize (CAP B). lia. }
      destruct (do_acts_facts p s3) as (D1 & D2 & _ & _).
      exists (do_acts p C), (unf E U). split.
      { exists (do_acts p C), []. apply mkGT.
        - (* inv *) auto.
        - (* gc *) auto.
        - (* fl *) eapply flagsame_Fl; [apply A3|]. intros z. apply F2.
        - (* ph *) rewrite D2. simpl. auto.
        - (* cap *) rewrite D2, A6. simpl. rewrite A5. simpl. intros B. specialize (A4 B). simpl in A4. auto.
        - (* fin *) rewrite D2. simpl. auto.
        - (* ghost *) simpl. auto.
        - (* trigs *) rewrite D1. simpl. simpl in TR. rewrite TR. unfold unf. rewrite filter_true.
          apply filter_ext_in. intros t Ht. rewrite (LL t Ht). auto.
        - (* ndU *) unfold unf. apply NoDup_filter. auto.
        - (* ndh *) constructor.
        - (* hU *) intros t [].
        - (* w *) intros t Ht. unfold unf in Ht. apply filter_In in Ht. apply W. tauto.
        - (* ts *) unfold unf. apply TS_filter. auto.
        - (* so *) destruct SO as [N|[S _]].
          + left. intros t y Ht. unfold unf in Ht. apply filter_In in Ht. apply N. tauto.
          + right. split; [unfold unf; apply sortedU_filter; auto|]. intros c. simpl. rewrite filter_memt_nil. auto.
        - (* just *) exists []. split; [auto|]. split; [intros b []|]. intros pre b post Eq. destruct pre; discriminate.
        - (* coff *) rewrite D1. simpl. intros t Ht. destruct (A3 (tctx t)) as (_ & _ & _ & CF). rewrite CF. simpl.
          apply CO. simpl. auto.
        - (* fired *) intros t [].
        - (* bkE *) rewrite bk_do_acts. auto. }
      split; [rewrite A8; simpl; auto|]. split; [rewrite A5; simpl; auto|].
      split; [rewrite A6; simpl; auto|]. split; [rewrite A7; simpl; auto|].
      split; [auto|]. split; [intros C0; congruence|].
      rewrite A9. simpl. intros C0. congruence.
  - exists E, U. split; [exists sg, h; auto|]. split; [auto|]. split; [auto|]. split; [auto|]. split; [auto|].
    split; [auto|]. split.
    + intros _. simpl. repeat split; auto.
    + simpl. intros C. congruence.
Qed.

(* ------------------------------------------------------------------ generic visit steps *)
(* what a visit leaves alone (the epoll ready list may grow: writes wake their targets) *)
Record frame (s s' : st) : Prop := mkFr {
  fr_clist : clist s' = clist s; fr_phases : phases s' = phases s; fr_toexit : toexit s' = toexit s;
  fr_idle : idle s' = idle s; fr_bk : bk s' = bk s; fr_pcap : pcap s' = pcap s; fr_ecap : ecap s' = ecap s;
  fr_parr : parr s' = parr s; fr_sset : sset s' = sset s; fr_ereg : ereg s' = ereg s
}.
Lemma frame_refl : forall s, frame s s. Proof. intros; constructor; auto. Qed.
Lemma frame_trans : forall a b c, frame a b -> frame b c -> frame a c.
Proof. intros a b c [] []. constructor; congruence. Qed.

Lemma frame_do_tact : forall a s, tact_ok a = true -> frame s (do_act a s).
Proof.
  intros a s H. destruct a; try discriminate; unfold do_act;
    repeat match goal with |- context [if ?c then _ else _] => destruct c end; constructor; simpl;
    rewrite ?clist_edge, ?phases_edge, ?toexit_edge, ?idle_edge, ?bk_edge, ?pcap_edge, ?parr_edge, ?sset_edge, ?ereg_edge; auto;
    unfold edge; destruct (_ && _); auto.
Qed.

Lemma frame_do_tacts : forall l s, all_tacts l -> frame s (do_acts (map tact l) s).
Proof.
  induction l as [|t l IH]; intros s W; simpl; [apply frame_refl|].
  eapply frame_trans; [apply frame_do_tact; apply W; left; auto|apply IH]. intros u Hu. apply W. right; auto.
Qed.

Lemma NoDup_app_intro : forall {A} (a b : list A), NoDup a -> NoDup b -> (forall x, In x a -> ~ In x b) -> NoDup (a ++ b).
Proof.
  induction a as [|h a IH]; intros b Na Nb D; simpl; auto.
  inversion Na; subst. constructor.
  - intro C. apply in_app_or in C. destruct C as [C|C]; auto. apply (D h); auto. left; auto.
  - apply IH; auto. intros x Hx. apply D. right; auto.
Qed.

Lemma filter_filter : forall {A} (f g : A -> bool) l, filter f (filter g l) = filter (fun t => g t && f t) l.
Proof. induction l as [|a l IHl]; simpl; auto. destruct (g a); simpl; [destruct (f a); rewrite IHl; auto|auto]. Qed.

(* the read callback of a registered context: drain, fire the triggers whose threshold is reached *)
Lemma gt_cb_read : forall E U s sg h x, GT E U None s sg h -> In x (clist s) ->
  exists sg1 h1, GT E U (Some x) (cb_read x s) sg1 h1 /\ frame s (cb_read x s) /\ ext s (cb_read x s) /\
    cflag (cx (cb_read x s) x) = ceof (cx s x) /\
    (cflag (cx (cb_read x s) x) = true -> cq (cx (cb_read x s) x) = 0) /\
    (ceof (cx s x) = true -> ceof (cx (cb_read x s) x) = true) /\
    (cflag (cx (cb_read x s) x) = false -> events_c (cx (rd_mid x s) x) = 0).
Proof.
  intros E U s sg h x G Hin.
  pose proof (GT_pc _ _ _ _ _ _ G) as PCh.
  assert (PCS : sortedU U -> pc (memt h) U) by (apply (GT_pc_sorted _ _ _ _ _ _ G)).
  pose proof (GT_ghost_cx _ _ _ _ _ _ G x) as (_ & _ & TQ & RGg).
  destruct G as [I GCs F PH CAP FIN GH TR NDU NDH HU W TSU SO J CO FI BE].
  destruct (gc_rd_mid x s sg GCs F I Hin) as (GM & FM & FE & DR & CXM & OTH).
  pose proof (Inv_rd_mid x s I Hin) as IM.
  destruct (Inv_cb_read x s I Hin) as (I1 & E1 & _).
  rewrite cb_read_split in *.
  set (mid := rd_mid x s) in *. set (fire := rd_fire x s) in *.
  set (off := coff (cx s x) + cq (cx s x)) in *.
  assert (FS : forall t, In t fire -> In t (trigs s) /\ trig_hit x off t = true).
  { intros t Ht. unfold fire, rd_fire in Ht. apply filter_In in Ht. tauto. }
  assert (FU : forall t, In t fire -> In t U /\ memt h t = false).
  { intros t Ht. destruct (FS t Ht) as [A _]. rewrite TR in A. apply filter_In in A. destruct A as [A B].
    split; auto. apply Bool.negb_true_iff in B. auto. }
  assert (FX : forall t, In t fire -> tctx t = x /\ tbytes t <= off).
  { intros t Ht. destruct (FS t Ht) as [_ HT]. unfold trig_hit in HT. apply Bool.andb_true_iff in HT. destruct HT as [TX TB].
    apply Nat.eqb_eq in TX. apply Nat.leb_le in TB. auto. }
  assert (WF : all_tacts fire) by (intros t Ht; apply W; apply FU; auto).
  assert (OKF : forallb phase_act_ok (map tact fire) = true).
  { apply forallb_forall. intros a Ha. apply in_map_iff in Ha. destruct Ha as (t & <- & Ht).
    apply tact_ok_phase. apply WF. auto. }
  assert (NA : count_adds (map tact fire) = 0).
  { clear - WF. induction fire as [|t l IH]; auto. rewrite map_cons, count_adds_cons.
    assert (tact_ok (tact t) = true) by (apply WF; left; auto).
    rewrite IH by (intros u Hu; apply WF; right; auto). destruct (tact t); try discriminate; auto. }
  destruct (lock_do_acts (map tact fire) mid sg (count_adds (concat (phases mid))) OKF IM GM) as (A1 & A2 & A3 & A4 & A5 & A6 & A7 & A8 & A9).
  { rewrite NA. unfold mid, rd_mid. simpl. intros B. specialize (CAP B). lia. }
  pose proof (frame_do_tacts fire mid WF) as FRW.
  assert (FRM : frame s mid) by (unfold mid, rd_mid; constructor; simpl; auto).
  pose proof (frame_trans _ _ _ FRM FRW) as FR.
  destruct (do_acts_facts (map tact fire) mid) as (D1 & D2 & _ & _).
  assert (CXW : forall z, cx (do_acts (map tact fire) mid) z = apply_y (yacts fire z) (cx mid z)).
  { intros z. apply (ghost_y fire mid z WF). }
  assert (SFz : forall z, samefix (cx mid z) (cx (do_acts (map tact fire) mid) z)).
  { intros z. rewrite CXW. apply apply_samefix. }
  assert (RS : cregok (cx s x) = true) by (apply (g_reg _ _ GCs); auto).
  pose proof (g_pc _ _ GCs x) as P. destruct P.
  assert (OFFQ : off = tot E U (memt h) x) by (unfold off; lia).
  assert (RE : cregok (cx E x) = true) by (rewrite <- RGg, <- p_reg0; auto).
  assert (TRK : trigs (do_acts (map tact fire) mid) = filter (fun t => negb (memt (h ++ fire) t)) U).
  { rewrite D1. unfold mid, rd_mid. simpl. rewrite TR. rewrite filter_filter.
    apply filter_ext_in. intros t Ht. rewrite memt_app.
    destruct (memt h t) eqn:M; simpl; auto.
    fold off. destruct (trig_hit x off t) eqn:HT; simpl.
    + assert (In t fire) as Hf.
      { unfold fire, rd_fire. fold off. apply filter_In. split; auto. rewrite TR. apply filter_In. split; auto. rewrite M. auto. }
      apply memt_In in Hf. rewrite Hf. auto.
    + destruct (memt fire t) eqn:MF; auto. apply memt_In in MF. destruct (FS t MF) as [_ K]. congruence. }
  exists (do_acts (map tact fire) sg), (h ++ fire).
  split.
  { apply mkGT.
  - (* inv *) auto.
  - (* gc *) auto.
  - (* fl *) eapply flagsame_Flx; eauto.
  - (* ph *) rewrite (fr_phases _ _ FR). auto.
  - (* cap *) rewrite (fr_bk _ _ FR), (fr_parr _ _ FR), (fr_phases _ _ FR), (fr_pcap _ _ FR). auto.
  - (* fin *) rewrite (fr_phases _ _ FR). auto.
  - (* ghost *) rewrite GH, map_app, do_acts_app. auto.
  - (* trigs *) auto.
  - (* ndU *) auto.
  - (* ndh *) apply NoDup_app_intro; auto.
    + unfold fire, rd_fire. apply NoDup_filter. rewrite TR. apply NoDup_filter. auto.
    + intros t Ht Hf. destruct (FU t Hf) as [_ K]. apply memt_In in Ht. congruence.
  - (* hU *) intros t Ht. apply in_app_or in Ht. destruct Ht as [Ht|Ht]; [apply HU; auto|apply FU; auto].
  - (* w *) auto.
  - (* ts *) auto.
  - (* so *) destruct SO as [N|[S O]]; [left; auto|right; split; auto].
    (* the history still lists every context's triggers in the order of U *)
    intros c. rewrite filter_app, (O c).
    destruct (Nat.eq_dec c x) as [->|NC].
    + assert (filter (ctxf x) fire = fire) as ->.
      { apply filter_all. intros t Ht. unfold ctxf. rewrite (proj1 (FX t Ht)). apply Nat.eqb_refl. }
      set (Ux := filter (ctxf x) U).
      assert (FF : fire = filter (fun t => negb (memt h t) && Nat.leb (tbytes t) off) Ux).
      { unfold fire, rd_fire. fold off. rewrite TR, filter_filter. unfold Ux. rewrite filter_filter.
        apply filter_ext. intros t. unfold trig_hit, ctxf. destruct (Nat.eqb (tctx t) x); simpl; auto.
        rewrite Bool.andb_false_r. auto. }
      assert (DC : dcl (memt h) Ux).
      { intros a t B Pt. destruct (before_In _ _ _ B) as [Ia It].
        apply (PCS S a t); auto. eapply before_filter; eauto.
        unfold Ux in Ia, It. apply filter_In in Ia. apply filter_In in It. unfold ctxf in *.
        destruct Ia as [_ Ia], It as [_ It]. apply Nat.eqb_eq in Ia. apply Nat.eqb_eq in It. congruence. }
      rewrite FF at 1. rewrite (filter_split_dcl (memt h) (fun t => Nat.leb (tbytes t) off) Ux DC).
      apply filter_ext_in. intros t Ht. rewrite memt_app.
      destruct (memt h t) eqn:M; simpl; auto.
      destruct (Nat.leb (tbytes t) off) eqn:LB.
      * symmetry. apply memt_In. rewrite FF. apply filter_In. split; auto. rewrite M, LB. auto.
      * symmetry. apply memt_false. rewrite FF. intro K. apply filter_In in K. destruct K as [_ K]. rewrite M, LB in K. discriminate.
    + assert (filter (ctxf c) fire = []) as ->.
      { apply filter_none. intros t Ht. unfold ctxf. rewrite (proj1 (FX t Ht)). apply Nat.eqb_neq. auto. }
      rewrite app_nil_r. apply filter_ext_in. intros t Ht. rewrite memt_app.
      assert (memt fire t = false) as ->; [|rewrite Bool.orb_false_r; auto].
      apply memt_false. intro K. apply filter_In in Ht. destruct Ht as [_ Ht]. unfold ctxf in Ht.
      apply Nat.eqb_eq in Ht. rewrite (proj1 (FX t K)) in Ht. congruence.
  - (* just *) destruct J as (hb & Eh & NE & JB).
    destruct fire as [|f0 fr] eqn:FE0.
    + exists hb. rewrite app_nil_r. auto.
    + exists (hb ++ [f0 :: fr]). split; [rewrite concat_app; simpl; rewrite app_nil_r, Eh; auto|]. split.
      * intros b Hb. apply in_app_or in Hb. destruct Hb as [Hb|[<-|[]]]; [apply NE; auto|discriminate].
      * apply JustB_snoc; auto; rewrite <- Eh; auto.
        intros t Ht. unfold en. rewrite (proj1 (FX t Ht)), RE. simpl. apply Nat.leb_le.
        rewrite <- OFFQ. apply FX. auto.
  - (* coff *) intros t Ht. rewrite TRK in Ht. apply filter_In in Ht. destruct Ht as [HtU NM].
    rewrite memt_app in NM. apply Bool.negb_true_iff, Bool.orb_false_iff in NM. destruct NM as [NM1 NM2].
    assert (In t (trigs s)) as Hts by (rewrite TR; apply filter_In; split; auto; rewrite NM1; auto).
    rewrite (sf_off _ _ (SFz (tctx t))).
    destruct (Nat.eq_dec (tctx t) x) as [TX|TX].
    + rewrite TX, CXM. unfold rd_ctx. simpl. fold off.
      destruct (Nat.le_gt_cases (tbytes t) off) as [LE|GTb]; [|lia]. exfalso.
      apply memt_false in NM2. apply NM2. unfold fire, rd_fire. fold off. apply filter_In. split; auto.
      unfold trig_hit. rewrite TX, Nat.eqb_refl. simpl. apply Nat.leb_le. auto.
    + rewrite OTH by auto. apply CO. auto.
  - (* fired *) intros t Ht. rewrite (sf_off _ _ (SFz (tctx t))). apply in_app_or in Ht. destruct Ht as [Ht|Ht].
    + pose proof (FI t Ht) as K. destruct (Nat.eq_dec (tctx t) x) as [TX|TX].
      * rewrite TX in *. rewrite CXM. unfold rd_ctx. simpl. lia.
      * rewrite OTH by auto. auto.
    + destruct (FX t Ht) as [TX TB]. rewrite TX, CXM. unfold rd_ctx. simpl. auto.
  - (* bkE *) auto. }
  split; auto. split; auto.
  assert (CFx : cflag (cx (do_acts (map tact fire) mid) x) = ceof (cx s x)).
  { rewrite (sf_flag _ _ (SFz x)). auto. }
  split; auto. split; [|split].
  + intros K. rewrite CFx in K. rewrite CXW.
    assert (ceof (cx mid x) = true) as CE by (rewrite CXM; unfold rd_ctx; simpl; auto).
    destruct (apply_dead (yacts fire x) (cx mid x) CE) as [Q0 _]. rewrite Q0, CXM. unfold rd_ctx. simpl. auto.
  + intros K. apply (sf_eof _ _ (SFz x)). rewrite CXM. unfold rd_ctx. simpl. auto.
  + rewrite CFx. intros K. apply DR. rewrite FE. auto.
Qed.

Lemma visit_read : forall (rd : bool) E U s x, GX E U s -> In x (clist s) ->
  let s1 := if rd then cb_read x s else s in
  exists sg1 h1, GT E U (Some x) s1 sg1 h1 /\ frame s s1 /\ ext s s1 /\
    (rd = false -> s1 = s) /\
    (cflag (cx s1 x) = true -> cq (cx s1 x) = 0) /\
    (ceof (cx s x) = true -> ceof (cx s1 x) = true) /\
    (rd = true -> cflag (cx s1 x) = ceof (cx s x)) /\
    (rd = true -> cflag (cx s1 x) = false -> events_c (cx (rd_mid x s) x) = 0).
Proof.
  intros rd E U s x (sg & h & G) Hin. destruct rd; cbv zeta.
  - destruct (gt_cb_read E U s sg h x G Hin) as (sg1 & h1 & A1 & A2 & A3 & A4 & A5 & A6 & A7).
    exists sg1, h1. split; auto. split; auto. split; auto. split; [intros; discriminate|].
    split; auto.
  - exists sg, h. split.
    + destruct G. apply mkGT; auto. apply Fl_Flx; auto.
    + split; [apply frame_refl|]. split; [apply ext_refl|]. split; auto.
      split; [|split; [auto|split; intros; discriminate]].
      intros C. rewrite (Fl_clist s x (gt_inv _ _ _ _ _ _ G) (gt_fl _ _ _ _ _ _ G) Hin) in C. discriminate.
Qed.

Lemma visit_flag : forall (fl : bool) E U s sg h x, GT E U (Some x) s sg h ->
  (fl = true -> ceof (cx s x) = true) ->
  let s2 := if fl then set_flag x s else s in
  GT E U (Some x) s2 sg h /\ frame s s2 /\ erdl s2 = erdl s /\ tr s2 = tr s /\
  (forall z, z <> x -> cx s2 z = cx s z) /\
  (cflag (cx s2 x) = false -> s2 = s) /\ cq (cx s2 x) = cq (cx s x) /\
  (fl = true -> cflag (cx s2 x) = true) /\ (fl = false -> s2 = s) /\ wk s2 = wk s.
Proof.
  intros fl E U s sg h x G H. destruct fl; cbv zeta.
  - destruct G as [I GCs F PH CAP FIN GH TR NDU NDH HU W TSU SO J CO FI BE].
    destruct (gc_set_flag x s sg GCs F (H eq_refl)) as [A B].
    destruct (Inv_set_flag x s I) as [I2 _].
    unfold set_flag in *.
    split; [apply mkGT; auto|].
    + intros t Ht. simpl in *. destruct (Nat.eqb (tctx t) x) eqn:E0; [|apply CO; auto].
      apply Nat.eqb_eq in E0. simpl. rewrite <- E0. apply CO. auto.
    + intros t Ht. simpl in *. destruct (Nat.eqb (tctx t) x) eqn:E0; [|apply FI; auto].
      apply Nat.eqb_eq in E0. simpl. rewrite <- E0. apply FI. auto.
    + split; [constructor; simpl; auto|]. split; [auto|]. split; [auto|].
      split; [intros z Hz; simpl; apply Nat.eqb_neq in Hz; rewrite Hz; auto|].
      simpl. rewrite Nat.eqb_refl. simpl. split; [intros; discriminate|]. split; auto. split; auto. split; auto. intros; discriminate.
  - split; auto. split; [apply frame_refl|]. split; auto. split; auto. split; auto. split; auto. split; auto.
    split; [intros; discriminate|auto].
Qed.

Lemma visit_close : forall E U s sg h x s', GT E U (Some x) s sg h -> cflag (cx s x) = true ->
  In x (clist s) -> cq (cx s x) = 0 -> Inv s' ->
  cx s' = cx (cb_close x s) -> clist s' = rm x (clist s) -> trigs s' = trigs s -> phases s' = phases s ->
  bk s' = bk s -> pcap s' = pcap s -> length (parr s') <= length (parr s) ->
  GT E U None s' sg h /\
  ((forall z, In z (clist s) -> z <> x -> events_c (cx s z) = 0) -> Quiet s').
Proof.
  intros E U s sg h x s' G CF Hin CQ I' E1 E2 E3 E4 E5 E6 E7.
  destruct G as [I GCs F PH CAP FIN GH TR NDU NDH HU W TSU SO J CO FI BE].
  destruct (gc_close x s sg s' GCs F CF Hin CQ E1 E2 E3) as [A B].
  split.
  - apply mkGT; auto; rewrite ?E3, ?E4; auto.
    + rewrite E5, E6. intros Bp. specialize (CAP Bp). lia.
    + intros t Ht. rewrite E1. simpl. destruct (Nat.eqb (tctx t) x) eqn:E0; [|apply CO; auto].
      apply Nat.eqb_eq in E0. simpl. rewrite <- E0. apply CO. auto.
    + intros t Ht. rewrite E1. simpl. destruct (Nat.eqb (tctx t) x) eqn:E0; [|apply FI; auto].
      apply Nat.eqb_eq in E0. simpl. rewrite <- E0. apply FI. auto.
  - intros Q z Hz. rewrite E2 in Hz. apply rm_In in Hz. destruct Hz as [Hz Hne].
    rewrite E1. simpl. apply Nat.eqb_neq in Hne. rewrite Hne. apply Q; auto. apply Nat.eqb_neq; auto.
Qed.

Lemma GT_unflag : forall E U s sg h x, GT E U (Some x) s sg h -> cflag (cx s x) = false -> GT E U None s sg h.
Proof.
  intros E U s sg h x [I GCs F PH CAP FIN GH TR NDU NDH HU W TSU SO J CO FI BE] CF.
  apply mkGT; auto. simpl in F. eapply Flx_Fl; eauto.
Qed.

(* ------------------------------------------------------------------ select *)
Definition no_ctx_report (rep : list (nat * nat)) : Prop := forall x, x <> 0 -> lookup x rep = 0.

Lemma sel_walk_GX : forall f i rep E U s, GX E U s -> bk s = BSelect ->
  GX E U (sel_walk f i rep s) /\
  phases (sel_walk f i rep s) = phases s /\ toexit (sel_walk f i rep s) = toexit s /\
  idle (sel_walk f i rep s) = idle s /\ bk (sel_walk f i rep s) = bk s /\
  (In 0 (sset s) -> In 0 (sset (sel_walk f i rep s))) /\
  (no_ctx_report rep -> Quiet s -> Quiet (sel_walk f i rep s)).
Proof.
  induction f as [|f IH]; intros i rep E U s GXs B; simpl.
  - split; [auto|]. repeat split; auto.
  - destruct (nth_error (clist s) i) as [x|] eqn:N; [|split; [auto|]; repeat split; auto].
    pose proof (nth_error_In _ _ N) as Hin.
    pose proof (GX_inv _ _ _ GXs) as I.
    destruct (visit_read (negb (Nat.eqb (lookup x rep) 0)) E U s x GXs Hin) as (sg1 & h1 & G1 & FR & E1 & NR & CQ1 & _ & _ & _).
    set (s1 := if negb (Nat.eqb (lookup x rep) 0) then cb_read x s else s) in *.
    destruct FR.
    assert (Hin1 : In x (clist s1)) by (rewrite fr_clist0; auto).
    assert (X0 : x <> 0) by (apply (i_reg s I x Hin)).
    pose proof (gt_inv _ _ _ _ _ _ G1) as I1.
    destruct (cflag (cx s1 x)) eqn:CF.
    + set (s2 := cb_close x (set_sset (rm x (sset s1)) s1)).
      set (s3 := set_clist (rm x (clist s2)) s2).
      assert (I3 : Inv s3).
      { unfold s3, s2. eapply (Inv_close_gen x (set_sset (rm x (sset s1)) s1)); simpl; auto.
        - eapply Inv_view; [apply sv_set_sset|auto].
        - intros z. destruct (Nat.eqb z x) eqn:E0; auto. apply Nat.eqb_eq in E0; subst; auto.
        - intros z. destruct (Nat.eqb z x); auto.
        - rewrite fr_bk0, B. discriminate.
        - rewrite fr_bk0, B. discriminate. }
      destruct (visit_close E U s1 sg1 h1 x s3 G1 CF Hin1 (CQ1 eq_refl) I3) as (G3 & Q3); auto.
      destruct (IH i rep E U s3) as (A1 & A4 & A5 & A6 & A7 & A8 & A9).
      { exists sg1, h1. auto. }
      { unfold s3, s2. simpl. congruence. }
      change (set_clist (rm x (clist s1)) s2) with s3.
      split; auto.
      split; [rewrite A4; unfold s3, s2; simpl; auto|].
      split; [rewrite A5; unfold s3, s2; simpl; auto|].
      split; [rewrite A6; unfold s3, s2; simpl; auto|].
      split; [rewrite A7; unfold s3, s2; simpl; auto|].
      split.
      * intros H0. apply A8. unfold s3, s2. simpl. apply rm_In. split; [rewrite fr_sset0; auto|auto].
      * intros NC Q. apply A9; auto. apply Q3. intros z Hz Hne.
        assert (s1 = s) as ES by (apply NR; rewrite (NC x X0); auto). rewrite ES in *. apply Q. auto.
    + set (s2 := set_sset (add_set x (sset s1)) s1).
      assert (I2 : Inv s2) by (eapply Inv_view; [apply sv_set_sset|auto]).
      assert (G2 : GT E U None s2 sg1 h1).
      { eapply GT_view; [apply (GT_unflag _ _ _ _ _ _ G1 CF)|apply I2| | | | | | |]; auto. }
      destruct (IH (S i) rep E U s2) as (A1 & A4 & A5 & A6 & A7 & A8 & A9).
      { exists sg1, h1. auto. }
      { unfold s2. simpl. congruence. }
      fold s2. split; auto.
      split; [rewrite A4; unfold s2; simpl; auto|].
      split; [rewrite A5; unfold s2; simpl; auto|].
      split; [rewrite A6; unfold s2; simpl; auto|].
      split; [rewrite A7; unfold s2; simpl; auto|].
      split.
      * intros H0. apply A8. unfold s2. simpl. apply add_set_incl. rewrite fr_sset0. auto.
      * intros NC Q. apply A9; auto.
        assert (s1 = s) as ES by (apply NR; rewrite (NC x X0); auto).
        eapply Quiet_view; [| |apply Q]; unfold s2; simpl; rewrite ES; auto.
Qed.

Lemma add_set_self : forall x l, In x (add_set x l).
Proof.
  intros. unfold add_set. destruct (mem x l) eqn:E; [apply mem_In; auto|apply in_or_app; right; left; auto].
Qed.

Definition cov (i : nat) (s : st) : Prop :=
  forall k x, k < i -> nth_error (clist s) k = Some x -> In x (sset s).

Lemma cb_read_w_frame : forall x s, all_tacts (trigs s) ->
  frame s (cb_read x s) /\ all_tacts (trigs (cb_read x s)).
Proof.
  intros x s W. rewrite cb_read_split.
  assert (WF : all_tacts (rd_fire x s)).
  { intros t Ht. unfold rd_fire in Ht. apply filter_In in Ht. apply W. tauto. }
  split.
  - eapply frame_trans; [|apply frame_do_tacts; auto]. unfold rd_mid. constructor; simpl; auto.
  - destruct (do_acts_facts (map tact (rd_fire x s)) (rd_mid x s)) as (D1 & _). rewrite D1.
    unfold rd_mid. simpl. intros t Ht. apply filter_In in Ht. apply W. tauto.
Qed.

(* after a complete walk every context still in ctx_list is in the rebuilt allset *)
Lemma sel_walk_cov : forall f i rep s, Inv s -> bk s = BSelect -> all_tacts (trigs s) -> cov i s ->
  length (clist s) - i < f ->
  forall x, In x (clist (sel_walk f i rep s)) -> In x (sset (sel_walk f i rep s)).
Proof.
  induction f as [|f IH]; intros i rep s I B T C Hf; [lia|].
  simpl. destruct (nth_error (clist s) i) as [y|] eqn:N.
  - pose proof (nth_error_In _ _ N) as Hy.
    assert (Hi : i < length (clist s)) by (apply nth_error_Some; congruence).
    set (s1 := if negb (Nat.eqb (lookup y rep) 0) then cb_read y s else s).
    assert (H1 : Inv s1 /\ clist s1 = clist s /\ sset s1 = sset s /\ all_tacts (trigs s1) /\ bk s1 = BSelect).
    { unfold s1. destruct (negb _); [|auto].
      destruct (Inv_cb_read y s I Hy) as (A & _). split; auto.
      destruct (cb_read_w_frame y s T) as [FR W']. destruct FR. repeat split; auto; congruence. }
    destruct H1 as (I1 & L1 & S1 & T1 & B1).
    destruct (cflag (cx s1 y)).
    + set (s2 := cb_close y (set_sset (rm y (sset s1)) s1)).
      set (s3 := set_clist (rm y (clist s2)) s2).
      assert (I3 : Inv s3).
      { unfold s3, s2. eapply (Inv_close_gen y (set_sset (rm y (sset s1)) s1)); simpl; auto.
        - eapply Inv_view; [apply sv_set_sset|auto].
        - rewrite L1; auto.
        - intros z. destruct (Nat.eqb z y) eqn:E; auto. apply Nat.eqb_eq in E; subst; auto.
        - intros z. destruct (Nat.eqb z y); auto.
        - rewrite B1. discriminate.
        - rewrite B1. discriminate. }
      assert (N1 : nth_error (clist s1) i = Some y) by (rewrite L1; auto).
      destruct (nth_error_rm (clist s1) i y (i_nodup s1 I1) N1) as [R1 _].
      change (set_clist (rm y (clist s1)) s2) with s3.
      apply IH; auto.
      * unfold s3, s2. simpl. intros k x Hk Nk. rewrite R1 in Nk by auto.
        apply rm_In. split.
        -- rewrite S1. apply (C k x); auto. rewrite <- L1. auto.
        -- intro; subst x. assert (k = i); [|lia].
           eapply (proj1 (NoDup_nth_error _) (i_nodup s1 I1)); [apply nth_error_Some; congruence|congruence].
      * unfold s3, s2. simpl.
        pose proof (rm_perm y (clist s1) (i_nodup s1 I1) (nth_error_In _ _ N1)) as P.
        apply Permutation_length in P. simpl in P. rewrite L1 in *. lia.
    + apply IH.
      * eapply Inv_view; [apply sv_set_sset|auto].
      * simpl. auto.
      * simpl. auto.
      * intros k x Hk Nk. simpl in *. rewrite L1 in Nk.
        destruct (Nat.eq_dec k i) as [->|Hne].
        -- assert (x = y) by congruence. subst. apply add_set_self.
        -- apply add_set_incl. rewrite S1. apply (C k x); auto. lia.
      * simpl. rewrite L1. lia.
  - intros x Hx. destruct (In_nth_error _ _ Hx) as [k Nk].
    apply (C k x); auto. apply nth_error_None in N.
    assert (k < length (clist s)) by (apply nth_error_Some; congruence). lia.
Qed.


Lemma GX_inject : forall E U s, GX E U s -> GX E U (inject s).
Proof.
  intros E U s G. eapply GX_view; [apply G| | | | | | | |]; unfold inject; simpl;
    rewrite ?cx_edge, ?clist_edge, ?trigs_edge, ?phases_edge, ?bk_edge, ?pcap_edge, ?parr_edge; auto.
  eapply Inv_view; [apply sv_inject|apply (GX_inv _ _ _ G)].
Qed.

Lemma GX_writes : forall E U s, GX E U s -> all_tacts (trigs s).
Proof.
  intros E U s (sg & h & G) t Ht. rewrite (gt_trigs _ _ _ _ _ _ G) in Ht. apply filter_In in Ht.
  apply (gt_w _ _ _ _ _ _ G). tauto.
Qed.

Definition BSel (s : st) : Prop :=
  In 0 (sset s) /\ (forall x, In x (clist s) -> In x (sset s)) /\ no_stale s.

Lemma sel_dispatch_core : forall rep n E U s, GX E U s -> toexit s = false -> bk s = BSelect ->
  Nat.ltb 0 n = true -> (idle s = true -> Quiet s) ->
  exists E' U', GX E' U' (dispatch_select rep n s) /\ BSel (dispatch_select rep n s) /\
    bk (dispatch_select rep n s) = BSelect /\
    (Nat.eqb (lookup 0 rep) 0 = false -> idle (dispatch_select rep n s) = false) /\
    (idle s = false -> idle (dispatch_select rep n s) = false /\ toexit (dispatch_select rep n s) = false) /\
    (toexit (dispatch_select rep n s) = true ->
       phases (dispatch_select rep n s) = [] /\ (no_ctx_report rep -> Quiet s -> Quiet (dispatch_select rep n s))).
Proof.
  intros rep n E U s GXs EX B Hn QI.
  pose proof (iso_select_rebuild rep n s Hn) as NS.
  unfold dispatch_select in *. rewrite Hn in *.
  set (s1 := set_sset [] s) in *.
  assert (GX1 : GX E U s1).
  { eapply GX_view; [apply GXs| | | | | | | |]; simpl; auto.
    eapply Inv_view; [apply sv_set_sset|apply (GX_inv _ _ _ GXs)]. }
  assert (exists E' U' s2, s2 = (if negb (Nat.eqb (lookup 0 rep) 0) then handle_wakeup s1 else s1) /\
            GX E' U' s2 /\ bk s2 = BSelect /\
            (Nat.eqb (lookup 0 rep) 0 = false -> idle s2 = false) /\
            (idle s = false -> idle s2 = false /\ toexit s2 = false) /\
            (toexit s2 = true -> phases s2 = [] /\ (Quiet s -> Quiet s2))) as (E' & U' & s2 & E2 & GX2 & B2 & ID2 & NI2 & EX2).
  { destruct (Nat.eqb (lookup 0 rep) 0) eqn:L0; simpl.
    - exists E, U, s1. split; auto. split; auto. split; auto. split; [intros; discriminate|].
      split; [intros H; simpl; auto|]. simpl. intros C. congruence.
    - destruct (hw_GT E U s1 GX1 EX) as (E' & U' & A1 & A7 & A8 & A9 & A10 & A11 & A12 & A13).
      { intros H. eapply Quiet_view; [| |apply (QI H)]; auto. }
      exists E', U', (handle_wakeup s1). split; auto. split; auto.
      split; [rewrite A8; auto|]. split; [auto|].
      split.
      + intros H. split; auto. apply (A12 H).
      + intros C. destruct (A13 C) as (_ & _ & P & X1 & X2). split; auto.
        intros Q. eapply Quiet_view; [apply X1|apply X2|]. eapply Quiet_view; [| |apply Q]; auto. }
  rewrite <- E2 in *.
  set (s3 := set_sset (add_set 0 (sset s2)) s2) in *.
  assert (GX3 : GX E' U' s3).
  { eapply GX_view; [apply GX2| | | | | | | |]; simpl; auto.
    eapply Inv_view; [apply sv_set_sset|apply (GX_inv _ _ _ GX2)]. }
  destruct (sel_walk_GX (walk_fuel s3) 0 rep E' U' s3 GX3 B2) as (W1 & W4 & W5 & W6 & W7 & W8 & W9).
  exists E', U'. split; [auto|]. split; [|split; [|split; [|split]]].
  - split; [apply W8; simpl; apply add_set_self|]. split; [|auto].
    apply sel_walk_cov; auto.
    + apply (GX_inv _ _ _ GX3).
    + apply (GX_writes _ _ _ GX3).
    + intros k x Hk. lia.
    + rewrite walk_fuel_meas. unfold meas. lia.
  - rewrite W7. auto.
  - intros H. rewrite W6. simpl. auto.
  - intros H. rewrite W6, W5. simpl. auto.
  - rewrite W5, W4. simpl. intros C. destruct (EX2 C) as [P Q]. split; auto.
Qed.

Lemma lookup_map1 : forall x l, In x l -> lookup x (map (fun y => (y, 1)) l) = 1.
Proof.
  intros x l. unfold lookup. induction l as [|a l IH]; intros H; [destruct H|].
  simpl. destruct (Nat.eqb a x) eqn:E; auto.
  destruct H as [->|H]; [rewrite Nat.eqb_refl in E; discriminate|auto].
Qed.

Lemma lookup_map1_notin : forall x l, ~ In x l -> lookup x (map (fun y => (y, 1)) l) = 0.
Proof.
  intros x l. unfold lookup. induction l as [|a l IH]; intros H; simpl; auto.
  destruct (Nat.eqb a x) eqn:E; [apply Nat.eqb_eq in E; subst; exfalso; apply H; left; auto|].
  apply IH. intro; apply H; right; auto.
Qed.

Lemma Q_sel : forall E U s, GX E U s -> BSel s -> bk s = BSelect -> kern s = [] -> Quiet s.
Proof.
  intros E U s GXs (H0 & HC & _) B K x Hx. unfold kern in K. rewrite B in K.
  apply map_eq_nil in K.
  assert (In x (sset s)) as Hs by auto.
  destruct (nz (events s x)) eqn:Ev.
  - assert (In x (filter (fun x => nz (events s x)) (sset s))) as C by (apply filter_In; auto).
    rewrite K in C. destruct C.
  - unfold nz in Ev. apply Bool.negb_false_iff, Nat.eqb_eq in Ev.
    unfold events in Ev. assert (x <> 0) as X0 by (apply (i_reg s (GX_inv _ _ _ GXs) x Hx)).
    apply Nat.eqb_neq in X0. rewrite X0 in Ev. auto.
Qed.

(* ------------------------------------------------------------------ the whole run, any back-end *)
Definition iter_ok (BI : st -> Prop) (b : backend) : Prop :=
  forall E U s, GX E U s -> toexit s = false -> idle s = false -> bk s = b -> BI s ->
  exists E' U', GX E' U' (iter0 (kern_o0 s) s) /\ BI (iter0 (kern_o0 s) s) /\
    idle (iter0 (kern_o0 s) s) = false /\ bk (iter0 (kern_o0 s) s) = b /\
    (toexit (iter0 (kern_o0 s) s) = true -> phases (iter0 (kern_o0 s) s) = [] /\ Quiet (iter0 (kern_o0 s) s)).

Lemma sel_iter : iter_ok BSel BSelect.
Proof.
  intros E U s GXs EX ID B BS. unfold iter0, kern_o0.
  destruct (kern s) as [|p r] eqn:K.
  - (* idle: the harness wakes the loop up *)
    pose proof (Q_sel E U s GXs BS B K) as Q.
    simpl. unfold dispatch.
    assert (Bi : bk (inject s) = BSelect) by (unfold inject; simpl; rewrite bk_edge; auto).
    rewrite Bi.
    assert (SS : sset (inject s) = sset s) by (unfold inject; simpl; rewrite sset_edge; auto).
    assert (CXi : cx (inject s) = cx s) by (unfold inject; simpl; rewrite cx_edge; auto).
    assert (CLi : clist (inject s) = clist s) by (unfold inject; simpl; rewrite clist_edge; auto).
    assert (Qi : Quiet (inject s)) by (eapply Quiet_view; [apply CXi|apply CLi|auto]).
    assert (K0 : In 0 (filter (fun x => nz (events (inject s) x)) (sset (inject s)))).
    { apply filter_In. split.
      - rewrite SS. apply (proj1 BS).
      - unfold events, inject. simpl. rewrite wk_edge. simpl. auto. }
    assert (KI : kern (inject s) = map (fun x => (x, 1)) (filter (fun x => nz (events (inject s) x)) (sset (inject s)))).
    { unfold kern. rewrite Bi. auto. }
    assert (NCR : no_ctx_report (kern (inject s))).
    { intros x X0. rewrite KI. apply lookup_map1_notin. intro C. apply filter_In in C. destruct C as [C1 C2].
      rewrite SS in C1. destruct BS as (_ & _ & NS). destruct (NS x C1) as [->|Hc]; [congruence|].
      unfold nz, events in C2. apply Nat.eqb_neq in X0. rewrite X0, CXi in C2. rewrite (Q x Hc) in C2. discriminate. }
    destruct (sel_dispatch_core (kern (inject s)) (length (kern (inject s))) E U (inject s) (GX_inject E U s GXs)) as (E' & U' & A1 & A2 & A3 & A4 & A5 & A6).
    + unfold inject. simpl. rewrite toexit_edge. auto.
    + auto.
    + apply Nat.ltb_lt. rewrite KI, map_length. destruct (filter _ _); [destruct K0|simpl; lia].
    + auto.
    + exists E', U'. split; auto. split; auto. split.
      * apply A4. rewrite KI, lookup_map1; auto.
      * split; auto. intros C. destruct (A6 C) as [P Qs]. split; auto.
  - simpl. unfold dispatch. rewrite B.
    destruct (sel_dispatch_core (p :: r) (S (length r)) E U s GXs EX B eq_refl) as (E' & U' & A1 & A2 & A3 & A4 & A5 & A6).
    { intros C. congruence. }
    destruct (A5 ID) as [A51 A52].
    exists E', U'. split; auto. split; auto. split; auto. split; auto. intros C. congruence.
Qed.

Lemma runk_flat : forall BI b, iter_ok BI b ->
  forall fuel E U s s', GX E U s -> toexit s = false -> idle s = false -> bk s = b -> BI s -> tmr s = false ->
  runk fuel s = (s', true) ->
  exists s1 E1 U1, s' = finish s1 /\ GX E1 U1 s1 /\ phases s1 = [] /\ Quiet s1.
Proof.
  intros BI b OK. induction fuel as [|f IH]; intros E U s s' GXs EX ID B BIs TM R; simpl in R; [discriminate|].
  destruct (iter_notimer s TM) as [IE TM'].
  rewrite IE in R.
  destruct (OK E U s GXs EX ID B BIs) as (E' & U' & A1 & A2 & A3 & A4 & A5).
  destruct (toexit (iter0 (kern_o0 s) s)) eqn:T.
  - inversion R; subst s'. destruct (A5 eq_refl) as [P Q].
    exists (iter0 (kern_o0 s) s), E', U'. auto.
  - eapply IH; eauto.
Qed.

Lemma clear_iff : forall s x, Inv s -> existsb (is_clear_of x) (tr (finish s)) = true <-> In x (clist s).
Proof.
  intros s x I. rewrite finish_tr. simpl. rewrite existsb_app. split.
  - intros H. apply Bool.orb_true_iff in H. destruct H as [H|H].
    + apply existsb_exists in H. destruct H as (e & He & E).
      apply in_rev, in_map_iff in He. destruct He as (y & <- & Hy). simpl in E.
      apply Nat.eqb_eq in E. subst; auto.
    + apply existsb_exists in H. destruct H as (e & He & E).
      destruct e; simpl in E; try discriminate. exfalso.
      destruct (i_loop s I) as [_ NC]. eapply NC; eauto.
  - intros H. apply Bool.orb_true_iff. left. apply existsb_exists.
    exists (EClear x). split; [apply in_rev; rewrite rev_involutive; apply in_map; auto|].
    simpl. apply Nat.eqb_refl.
Qed.

Lemma finish_cx : forall s, cx (finish s) = cx s.
Proof.
  intros s. unfold finish. simpl.
  assert (forall l s0, cx (fold_left (fun s x => emit (EClear x) s) l s0) = cx s0) as F.
  { induction l as [|a l IH]; intros s0; simpl; auto. rewrite IH. auto. }
  apply F.
Qed.

(* at exit every context has the outcome the specification computes *)
Lemma final_outcome : forall E U s x, GX E U s -> phases s = [] -> Quiet s ->
  outcome (finish s) x =
  (let d := cx sgfin x in if cregok d then (cq d, ceof d, negb (ceof d)) else (0, false, false)).
Proof.
  intros E U s x (sg & h & GTs) PHN Q.
  destruct (quiet_cxeq E U s sg h GTs Q) as [_ CXE].
  assert (G : GC s sgfin).
  { pose proof (gt_fin _ _ _ _ _ _ GTs) as FIN. rewrite PHN in FIN. simpl in FIN.
    eapply GC_cxeq; [apply (gt_gc _ _ _ _ _ _ GTs)|intros y; rewrite <- FIN; apply CXE|].
    rewrite <- FIN.
    destruct (ghost_settle E U 0) as [_ B]; [intros t Ht; apply (gt_w _ _ _ _ _ _ GTs); auto|].
    rewrite B. apply (gt_bkE _ _ _ _ _ _ GTs). }
  pose proof (gt_inv _ _ _ _ _ _ GTs) as I.
  unfold outcome. rewrite finish_cx.
  pose proof (g_pc _ _ G x) as P. pose proof (g_reg _ _ G x) as R. destruct P.
  cbv zeta. rewrite <- p_reg0.
  destruct (cregok (cx s x)) eqn:RG.
  - destruct (proj1 R eq_refl) as [Hin|Hc].
    + destruct (events_zero _ _ (g_pc _ _ G x) (Q x Hin)) as [Q0 E0].
      destruct (i_reg s I x Hin) as (_ & _ & NC).
      assert (existsb (is_clear_of x) (tr (finish s)) = true) as -> by (apply clear_iff; auto).
      rewrite NC, <- p_eof0, E0. simpl. f_equal. f_equal. lia.
    + assert (~ In x (clist s)) as NI.
      { intro H. destruct (i_reg s I x H) as (_ & _ & NC). congruence. }
      assert (existsb (is_clear_of x) (tr (finish s)) = false) as ->.
      { destruct (existsb (is_clear_of x) (tr (finish s))) eqn:Ex; auto.
        apply clear_iff in Ex; auto. contradiction. }
      rewrite Hc, <- p_eof0, (p_cl_eof0 Hc). simpl. f_equal. f_equal.
      pose proof (p_cl_q0 Hc). lia.
  - assert (cclosed (cx s x) = false) as NC.
    { destruct (cclosed (cx s x)) eqn:C; auto. assert (false = true); [|discriminate]. apply R. right; auto. }
    assert (~ In x (clist s)) as NI.
    { intro H. assert (false = true); [|discriminate]. apply R. auto. }
    assert (existsb (is_clear_of x) (tr (finish s)) = false) as ->.
    { destruct (existsb (is_clear_of x) (tr (finish s))) eqn:Ex; auto.
      apply clear_iff in Ex; auto. contradiction. }
    rewrite NC, (p_off0 eq_refl). auto.
Qed.

(* ------------------------------------------------------------------ poll *)
(* what a reported revents value says about the descriptor (kernel truth, kept until the visit) *)
Definition Htc (re : nat) (c : cst) : Prop :=
  has_hup_err re = true -> ceof c = true /\ (has_in re = false -> cq c = 0).

Lemma events_c_bits_gen : forall c, has_in (events_c c) = ev_in c /\ has_hup_err (events_c c) = (ev_hup c || ev_err c).
Proof. intros c. unfold events_c. destruct (ev_in c), (ev_hup c), (ev_err c); simpl; auto. Qed.

(* without a reset the hang-up / error bits are the hang-up alone *)
Lemma events_c_bits : forall c, crst c = false -> has_in (events_c c) = ev_in c /\ has_hup_err (events_c c) = ev_hup c.
Proof.
  intros c R. destruct (events_c_bits_gen c) as [A B]. split; auto. rewrite B.
  unfold ev_err. rewrite R. destruct (ckind c); rewrite Bool.orb_false_r; auto.
Qed.

Lemma ev_in_false_q : forall c, ev_in c = false -> cq c = 0.
Proof.
  intros c H. unfold ev_in in H. destruct (ckind c).
  - apply Nat.ltb_ge in H. lia.
  - apply Bool.orb_false_iff in H. destruct H as [H _]. apply Bool.orb_false_iff in H. destruct H as [H _].
    apply Nat.ltb_ge in H. lia.
  - apply Bool.orb_false_iff in H. destruct H as [H _]. apply Bool.orb_false_iff in H. destruct H as [H _].
    apply Nat.ltb_ge in H. lia.
Qed.

Lemma Htc_events : forall c d, PC c d -> Htc (events_c c) c.
Proof.
  intros c d P H. destruct (events_c_bits c (p_rst _ _ P)) as [A B]. rewrite B in H.
  split; [eapply hup_eof; eauto|]. rewrite A. apply ev_in_false_q.
Qed.

Lemma Htc_zero : forall c, Htc 0 c.
Proof. intros c H. discriminate. Qed.

(* once the peer's write side is shut nothing more arrives *)
Lemma dead_do_act : forall a s y, ceof (cx s y) = true ->
  ceof (cx (do_act a s) y) = true /\ cq (cx (do_act a s) y) = cq (cx s y).
Proof.
  intros a s y CE. destruct a; unfold do_act.
  - destruct (can_write (cx s y0)) eqn:CW; [|simpl; auto].
    assert (y <> y0) as N.
    { intro; subst y0. unfold can_write in CW. rewrite CE in CW. simpl in CW.
      rewrite Bool.andb_false_r in CW. discriminate. }
    apply Nat.eqb_neq in N.
    destruct (Nat.eqb k 0); simpl; rewrite ?cx_edge; simpl; rewrite N; auto.
  - destruct (cpopen (cx s y0) && negb (ceof (cx s y0))); [|simpl; auto].
    simpl. rewrite cx_edge. simpl. destruct (Nat.eqb y y0) eqn:E; auto.
    apply Nat.eqb_eq in E. subst. simpl. auto.
  - destruct (cpopen (cx s y0)); [|simpl; auto].
    destruct (is_tcp (cx s y0) && ceof (cx s y0)); simpl; rewrite ?cx_edge; simpl;
      (destruct (Nat.eqb y y0) eqn:E; auto; apply Nat.eqb_eq in E; subst; simpl; auto).
  - destruct (cadded (cx s y0) || Nat.eqb y0 0); [simpl; auto|].
    set (c1 := mkC _ _ _ _ _ _ true _ _ _ _).
    destruct (add_ctx_other y0 (updc y0 c1 s)) as (_ & _ & _ & D & _).
    destruct (add_ctx y0 (updc y0 c1 s)) as [s1 ok]. simpl in D. simpl. rewrite D. simpl.
    destruct (Nat.eqb y y0) eqn:E; auto. apply Nat.eqb_eq in E. subst. rewrite Nat.eqb_refl. simpl. auto.
  - destruct (cclosed (cx s y0)); [simpl; auto|].
    destruct (negb (is_pipe (cx s y0))); simpl; rewrite ?cx_edge; simpl;
      (destruct (Nat.eqb y y0) eqn:E; auto; apply Nat.eqb_eq in E; subst; simpl; auto).
  - simpl. rewrite cx_edge. auto.
  - simpl. rewrite cx_edge. auto.
  - destruct (can_reset (cx s y0)); [|simpl; auto].
    simpl. rewrite cx_edge. simpl. destruct (Nat.eqb y y0) eqn:E; auto.
    apply Nat.eqb_eq in E. subst. simpl. auto.
Qed.

Lemma Htc_do_acts : forall l s y e, Htc e (cx s y) -> Htc e (cx (do_acts l s) y).
Proof.
  induction l as [|a l IH]; intros s y e H; simpl; auto.
  apply IH. intros HH. destruct (H HH) as [CE CQ].
  destruct (dead_do_act a s y CE) as [A B]. split; auto. intros HI. rewrite B. auto.
Qed.

Lemma Htc_handle_wakeup : forall s y e, Htc e (cx s y) -> Htc e (cx (handle_wakeup s) y).
Proof.
  intros s y e H. unfold handle_wakeup.
  set (s1 := emit EWake (set_wk 0 s)).
  assert (H1 : Htc e (cx s1 y)) by auto.
  destruct (idle s1); auto.
  destruct (phases (set_idle false s1)) as [|p r].
  - apply (Htc_do_acts [AExit] (set_idle false s1)). auto.
  - apply (Htc_do_acts p (set_phases r (set_idle false s1))). auto.
Qed.


(* the read callback of another context (its triggers may write here) keeps the kernel truth *)
Lemma Htc_cb_read : forall x s z e, z <> x -> Htc e (cx s z) -> Htc e (cx (cb_read x s) z).
Proof.
  intros x s z e Hz H. rewrite cb_read_split. apply Htc_do_acts.
  unfold rd_mid. simpl. apply Nat.eqb_neq in Hz. rewrite Hz. auto.
Qed.

Lemma lookup_kern_poll : forall s x, bk s = BPoll -> lookup x (kern s) = 0 \/ lookup x (kern s) = events s x.
Proof.
  intros s x B. unfold kern. rewrite B. unfold lookup.
  induction (parr s) as [|p l IH]; simpl; auto.
  destruct (nz (events s (fst p))); simpl; auto.
  destruct (Nat.eqb (fst p) x) eqn:E; auto. apply Nat.eqb_eq in E. subst. auto.
Qed.

Definition PHt (k : nat) (s : st) : Prop :=
  forall j x re, 1 <= j -> j < k -> nth_error (parr s) j = Some (x, re) -> Htc re (cx s x).

Lemma poll_ids_nodup : forall s, Inv s -> bk s = BPoll -> NoDup (map fst (parr s)).
Proof.
  intros s I B. destruct (i_poll s I B) as [_ HP].
  eapply Permutation_NoDup; [symmetry; apply HP|]. constructor; [|apply (i_nodup s I)].
  intro C. apply (i_reg s I) in C. destruct C; congruence.
Qed.

(* one context slot *)
Lemma poll_slot_GX : forall i n E U s, GX E U s -> bk s = BPoll -> 1 <= i -> PHt (S i) s ->
  GX E U (fst (poll_step i n s)) /\ bk (fst (poll_step i n s)) = BPoll /\
  idle (fst (poll_step i n s)) = idle s /\ toexit (fst (poll_step i n s)) = toexit s /\
  pcap (fst (poll_step i n s)) = pcap s /\ PHt i (fst (poll_step i n s)).
Proof.
  intros i n E U s GXs B Hi HT.
  pose proof (GX_inv _ _ _ GXs) as I.
  destruct (Inv_poll_step i n s I B) as [IP BP].
  unfold poll_step in *.
  assert (Nat.eqb i 0 = false) as E0 by (apply Nat.eqb_neq; lia). rewrite E0 in *.
  destruct (nth_error (parr s) i) as [[x re]|] eqn:N.
  2:{ simpl. split; [auto|]. split; [auto|]. split; [auto|]. split; [auto|]. split; [auto|].
      intros j y r H1 H2. apply HT; auto. }
  destruct (Inv_poll_step_close s x re i I B Hi N) as [Hin _].
  pose proof (HT i x re Hi ltac:(lia) N) as HTx.
  destruct (visit_read (has_in re) E U s x GXs Hin) as (sg1 & h1 & G1 & FR1 & E1 & NR1 & CQ1 & CE1 & RF1 & _).
  assert (exists s1 n1, (if has_in re then (cb_read x s, n - 1) else (s, n)) = (s1, n1) /\
            s1 = (if has_in re then cb_read x s else s)) as (s1 & n1 & EQ1 & ES1).
  { destruct (has_in re); eexists; eexists; split; reflexivity. }
  rewrite EQ1 in *. rewrite <- ES1 in *. clear EQ1.
  destruct (visit_flag (has_hup_err re) E U s1 sg1 h1 x G1) as (G2 & FR2 & RD2 & T2 & O2 & NF2 & CQ2 & FT2 & FF2 & WK2).
  { intros H. apply CE1. apply (HTx H). }
  assert (exists s2 n2, (if has_hup_err re then (set_flag x s1, n1 - 1) else (s1, n1)) = (s2, n2) /\
            s2 = (if has_hup_err re then set_flag x s1 else s1)) as (s2 & n2 & EQ2 & ES2).
  { destruct (has_hup_err re); eexists; eexists; split; reflexivity. }
  rewrite EQ2 in *. rewrite <- ES2 in *. clear EQ2.
  pose proof (frame_trans _ _ _ FR1 FR2) as FR. destruct FR.
  assert (ND : NoDup (map fst (parr s))) by (apply poll_ids_nodup; auto).
  assert (OTH : forall j y r, 1 <= j -> j < i -> nth_error (parr s) j = Some (y, r) -> y <> x).
  { intros j y r H1 H2 Nj ->.
    assert (nth_error (map fst (parr s)) i = Some x) by (rewrite nth_error_map, N; auto).
    assert (nth_error (map fst (parr s)) j = Some x) by (rewrite nth_error_map, Nj; auto).
    assert (i = j); [|lia].
    eapply (proj1 (NoDup_nth_error _) ND); [rewrite map_length; apply nth_error_Some; congruence|congruence]. }
  assert (HTO : forall z e, z <> x -> Htc e (cx s z) -> Htc e (cx s2 z)).
  { intros z e Hz H. rewrite O2 by auto. rewrite ES1. destruct (has_in re); [apply Htc_cb_read; auto|auto]. }
  pose proof (gt_inv _ _ _ _ _ _ G2) as I2.
  destruct (cflag (cx s2 x)) eqn:CF; cbv zeta; simpl fst in *.
  - (* closed and removed by swap-with-last *)
    set (s3 := cb_close x s2) in *. set (s4 := set_clist (rm x (clist s3)) s3) in *.
    set (s5 := set_parr (poll_remove i (parr s4)) s4) in *.
    assert (Hin2 : In x (clist s2)) by (rewrite fr_clist0; auto).
    assert (CQ : cq (cx s2 x) = 0).
    { rewrite CQ2. destruct (has_in re) eqn:HI.
      - apply CQ1. rewrite (RF1 eq_refl).
        destruct (has_hup_err re) eqn:HH; [apply (proj1 (HTx HH))|].
        rewrite (FF2 eq_refl) in CF. rewrite (RF1 eq_refl) in CF. auto.
      - rewrite (NR1 eq_refl). destruct (has_hup_err re) eqn:HH.
        + apply (proj2 (HTx HH)). auto.
        + exfalso. rewrite (FF2 eq_refl), (NR1 eq_refl) in CF.
          destruct GXs as (sg0 & h0 & G0).
          rewrite (Fl_clist s x I (gt_fl _ _ _ _ _ _ G0) Hin) in CF. discriminate. }
    destruct (visit_close E U s2 sg1 h1 x s5 G2 CF Hin2 CQ IP) as (G5 & _); auto.
    + unfold s5, s4, s3. simpl. 
      pose proof (poll_remove_perm _ _ _ (eq_trans (f_equal (fun l => nth_error l i) fr_parr0) N)) as P.
      apply Permutation_length in P. simpl in P. lia.
    + split; [exists sg1, h1; auto|]. split; auto. unfold s5, s4, s3. simpl.
      split; auto. split; auto. split; auto.
      intros j y r H1 H2 Nj. simpl in Nj. rewrite ?fr_parr0 in Nj.
      rewrite poll_remove_lower in Nj; [|lia|apply nth_error_Some; congruence].
      pose proof (OTH j y r H1 H2 Nj) as Hy. simpl. apply Nat.eqb_neq in Hy. rewrite Hy.
      apply Nat.eqb_neq in Hy. apply HTO; auto. apply (HT j y r); auto.
  - (* kept *)
    split; [exists sg1, h1; apply (GT_unflag _ _ _ _ _ _ G2 CF)|].
    split; auto. split; auto. split; auto. split; auto.
    intros j y r H1 H2 Nj. rewrite fr_parr0 in Nj.
    apply HTO; [eapply OTH; eauto|]. apply (HT j y r); auto.
Qed.

Lemma poll_walk_busy : forall k n E U s, GX E U s -> bk s = BPoll -> idle s = false -> toexit s = false ->
  PHt k s ->
  GX E U (poll_walk k n s) /\ bk (poll_walk k n s) = BPoll /\ idle (poll_walk k n s) = false /\
  toexit (poll_walk k n s) = false.
Proof.
  induction k as [|i IH]; intros n E U s GXs B ID EX HT; simpl; [auto|].
  destruct (Nat.eq_dec i 0) as [->|Hi].
  - (* the signal slot *)
    unfold poll_step. simpl Nat.eqb. cbv iota.
    assert (exists s', s' = (if has_in (snd (nth 0 (parr s) (0, 0))) then handle_wakeup s else s) /\
              GX E U s' /\ bk s' = BPoll /\ idle s' = false /\ toexit s' = false) as (s' & E' & A).
    { eexists; split; [reflexivity|]. destruct (has_in _); [|auto].
      destruct (hw_GT E U s GXs EX) as (E1 & U1 & A1 & A7 & A8 & A9 & A10 & A11 & A12 & A13).
      { intros C. congruence. }
      destruct (A12 ID) as (-> & -> & T & _).
      split; [auto|]. rewrite A8. auto. }
    rewrite <- E'. destruct (Nat.eqb n 0); simpl; auto.
  - destruct (poll_slot_GX i n E U s GXs B ltac:(lia) HT) as (A1 & A2 & A3 & A4 & A5 & A6).
    destruct (poll_step i n s) as [s' n']. simpl in *.
    destruct (Nat.eqb n' 0).
    + rewrite A3, A4. auto.
    + apply IH; auto; congruence.
Qed.

Lemma has_bits_zero : has_in 0 = false /\ has_hup_err 0 = false.
Proof. split; reflexivity. Qed.

(* a pass in which no context slot carries an event only serves the signal slot *)
Lemma poll_walk_quiet_slots : forall k n s, Inv s -> Fl s -> bk s = BPoll ->
  (forall j x re, 1 <= j -> j < k -> nth_error (parr s) j = Some (x, re) -> re = 0) ->
  n <> 0 -> 1 <= k -> poll_walk k n s = fst (poll_step 0 n s).
Proof.
  induction k as [|i IH]; intros n s I F B Z Hn Hk; [lia|].
  cbn [poll_walk]. destruct (Nat.eq_dec i 0) as [->|Hi].
  - destruct (poll_step 0 n s) as [s' n']. cbn [fst poll_walk]. destruct (Nat.eqb n' 0); auto.
  - assert (poll_step i n s = (s, n)) as ->.
    { unfold poll_step. assert (Nat.eqb i 0 = false) as -> by (apply Nat.eqb_neq; lia).
      destruct (nth_error (parr s) i) as [[x re]|] eqn:N; auto.
      pose proof (Z i x re ltac:(lia) ltac:(lia) N) as Zr. subst re.
      destruct has_bits_zero as [-> ->].
      destruct (Inv_poll_step_close s x 0 i I B ltac:(lia) N) as [Hin _].
      rewrite (Fl_clist s x I F Hin). auto. }
    apply Nat.eqb_neq in Hn. rewrite Hn. apply Nat.eqb_neq in Hn.
    apply IH; auto; try lia. intros j x re H1 H2. apply Z; auto.
Qed.

Lemma Q_poll : forall E U s, GX E U s -> bk s = BPoll -> kern s = [] -> Quiet s.
Proof.
  intros E U s GXs B K x Hx. unfold kern in K. rewrite B in K.
  destruct (i_poll s (GX_inv _ _ _ GXs) B) as [_ HP].
  assert (In x (map fst (parr s))) as Hs.
  { eapply Permutation_in; [symmetry; apply HP|]. right; auto. }
  apply in_map_iff in Hs. destruct Hs as (p & Ep & Hp).
  destruct (nz (events s x)) eqn:N.
  - assert (In (fst p, events s (fst p)) (filter (fun p => nz (snd p)) (map (fun p => (fst p, events s (fst p))) (parr s)))) as C.
    { apply filter_In. split; [apply in_map_iff; exists p; auto|simpl; rewrite Ep; auto]. }
    rewrite K in C. destruct C.
  - unfold nz in N. apply Bool.negb_false_iff, Nat.eqb_eq in N.
    unfold events in N. assert (x <> 0) as X0 by (apply (i_reg s (GX_inv _ _ _ GXs) x Hx)).
    apply Nat.eqb_neq in X0. rewrite X0 in N. auto.
Qed.

Lemma lookup_kern_poll_in : forall s x, bk s = BPoll -> In x (map fst (parr s)) -> nz (events s x) = true ->
  lookup x (kern s) = events s x.
Proof.
  intros s x B. unfold kern. rewrite B. unfold lookup.
  induction (parr s) as [|p l IH]; simpl; intros H N; [destruct H|].
  destruct (nz (events s (fst p))) eqn:E; simpl.
  - destruct (Nat.eqb (fst p) x) eqn:Ex; [apply Nat.eqb_eq in Ex; subst; auto|].
    apply IH; auto. destruct H as [H|H]; auto. apply Nat.eqb_neq in Ex. contradiction.
  - apply IH; auto. destruct H as [H|H]; auto. subst. congruence.
Qed.

Lemma GX_set_parr_rev : forall E U s f, GX E U s -> GX E U (set_parr (map (fun p => (fst p, f (fst p))) (parr s)) s).
Proof.
  intros E U s f G. eapply GX_view; [apply G| | | | | | | |]; simpl; auto.
  - eapply Inv_view; [|apply (GX_inv _ _ _ G)]. constructor; simpl; auto. rewrite map_map. simpl. auto.
  - rewrite map_length. auto.
Qed.

Lemma poll_step0 : forall n s,
  fst (poll_step 0 n s) = if has_in (snd (nth 0 (parr s) (0, 0))) then handle_wakeup s else s.
Proof. intros. unfold poll_step. simpl. destruct (has_in _); auto. Qed.

Lemma nth0_map : forall (f : nat -> nat) (l : list (nat * nat)), hd_error (map fst l) = Some 0 ->
  snd (nth 0 (map (fun p => (fst p, f (fst p))) l) (0, 0)) = f 0.
Proof. intros f l H. destruct l as [|q l]; simpl in *; [discriminate|]. inversion H as [H1]. rewrite H1. auto. Qed.

Lemma poll_iter : iter_ok (fun _ => True) BPoll.
Proof.
  intros E U s GXs EX ID B _. unfold iter0, kern_o0.
  destruct (kern s) as [|p r] eqn:K.
  - (* idle *)
    pose proof (Q_poll E U s GXs B K) as Q.
    simpl. unfold dispatch.
    assert (Bi : bk (inject s) = BPoll) by (unfold inject; simpl; rewrite bk_edge; auto).
    rewrite Bi. unfold dispatch_poll.
    set (s0 := inject s) in *. set (rep := kern s0).
    pose proof (GX_inject E U s GXs) as GX0. fold s0 in GX0.
    assert (P0 : parr s0 = parr s) by (unfold s0, inject; simpl; rewrite parr_edge; auto).
    assert (CX0 : cx s0 = cx s) by (unfold s0, inject; simpl; rewrite cx_edge; auto).
    assert (CL0 : clist s0 = clist s) by (unfold s0, inject; simpl; rewrite clist_edge; auto).
    assert (EV0 : events s0 0 = 1) by (unfold events, s0, inject; simpl; rewrite wk_edge; simpl; auto).
    destruct (i_poll s0 (GX_inv _ _ _ GX0) Bi) as [HD HP].
    assert (IN0 : In 0 (map fst (parr s0))) by (destruct (map fst (parr s0)); simpl in HD; [discriminate|inversion HD; left; auto]).
    assert (L0 : lookup 0 rep = 1).
    { unfold rep. rewrite lookup_kern_poll_in; auto. rewrite EV0. auto. }
    assert (LX : forall x, In x (clist s) -> lookup x rep = 0).
    { intros x Hx. destruct (lookup_kern_poll s0 x Bi) as [Eq|Eq]; auto. fold rep in Eq. rewrite Eq.
      unfold events. assert (x <> 0) as X0 by (apply (i_reg s (GX_inv _ _ _ GXs) x Hx)).
      apply Nat.eqb_neq in X0. rewrite X0, CX0. apply Q; auto. }
    assert (NR : length rep <> 0).
    { unfold rep, kern. rewrite Bi.
      assert (In (0, events s0 0) (filter (fun p => nz (snd p)) (map (fun p => (fst p, events s0 (fst p))) (parr s0)))) as C.
      { apply filter_In. split; [|simpl; rewrite EV0; auto].
        apply in_map_iff in IN0. destruct IN0 as (q & Eq & Hq). apply in_map_iff. exists q. rewrite Eq. auto. }
      destruct (filter _ _); [destruct C|simpl; lia]. }
    assert (Nat.ltb 0 (length rep) = true) as -> by (apply Nat.ltb_lt; lia).
    set (s1 := set_parr _ s0).
    pose proof (GX_set_parr_rev E U s0 (fun x => lookup x rep) GX0) as GX1. fold s1 in GX1.
    assert (B1 : bk s1 = BPoll) by auto.
    destruct GX1 as (sg1 & h1 & GT1).
    rewrite poll_walk_quiet_slots; auto; try apply GT1.
    + (* the wake callback runs the next phase or exits *)
      rewrite poll_step0.
      assert (snd (nth 0 (parr s1) (0, 0)) = 1) as ->.
      { change (parr s1) with (map (fun p => (fst p, lookup (fst p) rep)) (parr s0)).
        rewrite (nth0_map (fun x => lookup x rep)); auto. }
      change (has_in 1) with true. cbv iota.
      assert (EX1 : toexit s1 = false) by (unfold s1, s0, inject; simpl; rewrite toexit_edge; auto).
      assert (Q1 : Quiet s1) by (eapply Quiet_view; [| |apply Q]; unfold s1; simpl; auto).
      destruct (hw_GT E U s1 (ex_intro _ sg1 (ex_intro _ h1 GT1)) EX1 (fun _ => Q1)) as (E' & U' & A1 & A7 & A8 & A9 & A10 & A11 & A12 & A13).
      exists E', U'. split; auto. split; auto. split; auto.
      split; [rewrite A8; auto|].
      intros C. destruct (A13 C) as (_ & _ & PHe & X1 & X2). split; auto.
      eapply Quiet_view; [apply X1|apply X2|auto].
    + intros j x re H1 H2 Nj.
      change (parr s1) with (map (fun p => (fst p, lookup (fst p) rep)) (parr s0)) in Nj. rewrite nth_error_map in Nj.
      destruct (nth_error (parr s0) j) as [[y ry]|] eqn:Ny; [|discriminate]. simpl in Nj. inversion Nj; subst.
      apply LX. rewrite <- CL0.
      destruct (Inv_poll_step_close s0 x ry j (GX_inv _ _ _ GX0) Bi H1 Ny) as [Hin _]. auto.
    + change (parr s1) with (map (fun p => (fst p, lookup (fst p) rep)) (parr s0)). rewrite map_length.
      destruct (parr s0); [destruct IN0|simpl; lia].
  - (* busy *)
    simpl. unfold dispatch. rewrite B. unfold dispatch_poll.
    set (rep := p :: r) in *. cbv beta.
    change (Nat.ltb 0 (S (length r))) with true. cbv iota.
    set (s1 := set_parr _ s).
    pose proof (GX_set_parr_rev E U s (fun x => lookup x rep) GXs) as GX1. fold s1 in GX1.
    assert (HT : PHt (length (parr s1)) s1).
    { intros j x re H1 H2 Nj.
      change (parr s1) with (map (fun p => (fst p, lookup (fst p) rep)) (parr s)) in Nj. rewrite nth_error_map in Nj.
      destruct (nth_error (parr s) j) as [[y ry]|] eqn:Ny; [|discriminate]. simpl in Nj. inversion Nj; subst.
      destruct (Inv_poll_step_close s x ry j (GX_inv _ _ _ GXs) B H1 Ny) as [Hin _].
      assert (x <> 0) as X0 by (apply (i_reg s (GX_inv _ _ _ GXs) x Hin)).
      unfold s1. simpl.
      destruct (lookup_kern_poll s x B) as [Eq|Eq]; rewrite K in Eq; fold rep in Eq; rewrite Eq.
      - apply Htc_zero.
      - unfold events. apply Nat.eqb_neq in X0. rewrite X0.
        destruct GXs as (sg0 & h0 & G0). eapply Htc_events. apply (g_pc _ _ (gt_gc _ _ _ _ _ _ G0)). }
    destruct (poll_walk_busy (length (parr s1)) (S (length r)) E U s1 GX1) as (A1 & A2 & A3 & A4); auto.
    exists E, U. split; auto. split; auto. split; auto. split; auto. intros C. congruence.
Qed.

(* ------------------------------------------------------------------ epoll: the ready list *)
(* every registered descriptor with events is on the ready list, or among the events already
   harvested and still to be served in this batch ([pend]) *)
Record EP (pend : list nat) (s : st) : Prop := mkEP {
  ep_nd : NoDup (erdl s);
  ep_sub : forall z, In z (erdl s) -> In z (ereg s);
  ep_edge : forall z, In z (ereg s) -> events s z <> 0 -> In z (erdl s) \/ In z pend
}.

Lemma erdl_edge_cases : forall x s,
  (erdl (edge x s) = erdl s /\ (In x (ereg s) -> In x (erdl s))) \/
  (erdl (edge x s) = erdl s ++ [x] /\ In x (ereg s) /\ ~ In x (erdl s)).
Proof.
  intros x s. unfold edge. destruct (mem x (ereg s)) eqn:A; destruct (mem x (erdl s)) eqn:B; simpl.
  - left. split; auto. intros _. apply mem_In; auto.
  - right. split; auto. split; [apply mem_In; auto|]. intro C. apply mem_In in C. congruence.
  - left. split; auto. intros C. apply mem_In in C. congruence.
  - left. split; auto. intros C. apply mem_In in C. congruence.
Qed.

Lemma events_edge : forall x s z, events (edge x s) z = events s z.
Proof. intros. unfold events. rewrite wk_edge, cx_edge. auto. Qed.

(* an operation that may raise the events of y only, followed by the wake-up of y *)
Lemma EP_touch : forall pend y s s1, ereg s1 = ereg s -> erdl s1 = erdl s ->
  (forall z, z <> y -> events s1 z = events s z) -> EP pend s -> EP pend (edge y s1).
Proof.
  intros pend y s s1 E1 E2 EV [ND SUB ED].
  destruct (erdl_edge_cases y s1) as [[A B]|(A & B & C)]; constructor; rewrite ?A, ?ereg_edge, ?E1, ?E2 in *.
  - auto.
  - auto.
  - intros z Hz Hev. rewrite events_edge in Hev.
    destruct (Nat.eq_dec z y) as [->|N]; [left; apply B; auto|]. rewrite EV in Hev by auto. auto.
  - eapply Permutation_NoDup; [apply Permutation_cons_append|]. constructor; auto.
  - intros z Hz. apply in_app_or in Hz. destruct Hz as [Hz|[<-|[]]]; auto.
  - intros z Hz Hev. rewrite events_edge in Hev.
    destruct (Nat.eq_dec z y) as [->|N]; [left; apply in_or_app; right; left; auto|].
    rewrite EV in Hev by auto. destruct (ED z Hz Hev); auto. left. apply in_or_app; auto.
Qed.

Lemma EP_same : forall pend s s1, ereg s1 = ereg s -> erdl s1 = erdl s ->
  (forall z, events s1 z = events s z) -> EP pend s -> EP pend s1.
Proof.
  intros pend s s1 E1 E2 EV [ND SUB ED]. constructor; rewrite ?E1, ?E2; auto.
  intros z Hz Hev. rewrite EV in Hev. auto.
Qed.

Lemma events_updc : forall y c s z, z <> y -> events (updc y c s) z = events s z.
Proof. intros. unfold events. simpl. apply Nat.eqb_neq in H. rewrite H. auto. Qed.

Lemma events_updc_same : forall y c s, events_c c = events_c (cx s y) -> forall z, events (updc y c s) z = events s z.
Proof.
  intros y c s H z. unfold events. simpl. destruct (Nat.eqb z 0); auto.
  destruct (Nat.eqb z y) eqn:E; auto. apply Nat.eqb_eq in E. subst. auto.
Qed.

Lemma events_emit : forall e s z, events (emit e s) z = events s z.
Proof. intros. reflexivity. Qed.

Lemma EP_do_act : forall a pend s, phase_act_ok a = true -> bk s = BEpoll -> EP pend s -> EP pend (do_act a s).
Proof.
  intros a pend s Hok B E. destruct a; try discriminate; unfold do_act.
  - (* write *)
    destruct (can_write (cx s y)); [|eapply EP_same; [| | |apply E]; auto].
    destruct (Nat.eqb k 0) eqn:K.
    + apply Nat.eqb_eq in K. subst k. eapply EP_same; [| | |apply E]; simpl; auto.
      intros z. rewrite events_emit, (events_updc_same y); auto. simpl.
      unfold events_c, ev_in, ev_hup, ev_err. simpl. rewrite Nat.add_0_r. auto.
    + eapply EP_same; [| | |eapply (EP_touch pend y s); [| | |apply E]]; simpl; auto;
        try (rewrite ?ereg_edge; reflexivity); try (intros z Hz; apply events_updc; auto).
  - (* half-close *)
    destruct (cpopen (cx s y) && negb (ceof (cx s y))); [|eapply EP_same; [| | |apply E]; auto].
    eapply EP_same; [| | |eapply (EP_touch pend y s); [| | |apply E]]; simpl; auto;
        try (rewrite ?ereg_edge; reflexivity); try (intros z Hz; apply events_updc; auto).
  - (* close of the peer *)
    destruct (cpopen (cx s y)); [|eapply EP_same; [| | |apply E]; auto].
    destruct (is_tcp (cx s y) && ceof (cx s y)) eqn:TC.
    + apply Bool.andb_true_iff in TC. destruct TC as [T C].
      eapply EP_same; [| | |apply E]; simpl; auto.
      intros z. rewrite events_emit, (events_updc_same y); auto.
      unfold events_c, ev_in, ev_hup, ev_err, is_tcp in *. simpl. destruct (ckind (cx s y)); try discriminate.
      rewrite C. auto.
    + eapply EP_same; [| | |eapply (EP_touch pend y s); [| | |apply E]]; simpl; auto;
        try (rewrite ?ereg_edge; reflexivity); try (intros z Hz; apply events_updc; auto).
  - (* add *)
    destruct (cadded (cx s y) || Nat.eqb y 0); [eapply EP_same; [| | |apply E]; auto|].
    set (c1 := mkC _ _ _ _ _ _ true _ _ _ _).
    set (s0 := updc y c1 s).
    assert (E0 : EP pend s0).
    { eapply EP_same; [| | |apply E]; auto. intros z. apply events_updc_same. auto. }
    unfold add_ctx, backend_add. simpl. rewrite B.
    set (s1 := set_ereg (ereg s ++ [y]) (set_clist (clist s ++ [y]) s0)).
    assert (E1 : EP pend (if Nat.eqb (events s1 y) 0 then s1 else edge y s1)).
    { destruct E0 as [ND SUB ED].
      destruct (Nat.eqb (events s1 y) 0) eqn:EV.
      - apply Nat.eqb_eq in EV. constructor; simpl; auto.
        + intros z Hz. apply in_or_app. left. apply SUB. auto.
        + intros z Hz Hev. apply in_app_or in Hz. destruct Hz as [Hz|[<-|[]]]; [apply ED; auto|contradiction].
      - destruct (erdl_edge_cases y s1) as [[A C]|(A & C & D)]; constructor; rewrite ?A, ?ereg_edge; simpl; auto.
        + intros z Hz. apply in_or_app. left. apply SUB. auto.
        + intros z Hz Hev. rewrite events_edge in Hev. apply in_app_or in Hz.
          destruct Hz as [Hz|[<-|[]]]; [apply ED; auto|]. left. apply C. simpl. apply in_or_app. right; left; auto.
        + eapply Permutation_NoDup; [apply Permutation_cons_append|]. constructor; auto.
        + intros z Hz. apply in_app_or in Hz. destruct Hz as [Hz|[<-|[]]].
          * apply in_or_app. left. apply SUB. auto.
          * apply in_or_app. right; left; auto.
        + intros z Hz Hev. rewrite events_edge in Hev. apply in_app_or in Hz.
          destruct Hz as [Hz|[<-|[]]].
          * destruct (ED z Hz Hev); auto. left. apply in_or_app; auto.
          * left. apply in_or_app. right; left; auto. }
    destruct (Nat.eqb (events s1 y) 0); simpl;
      (eapply EP_same; [| | |apply E1]; simpl; auto; intros z; apply events_updc_same; simpl;
       rewrite ?cx_edge; simpl; rewrite Nat.eqb_refl; auto).
  - (* wake *)
    eapply EP_same; [| | |eapply (EP_touch pend 0 s); [| | |apply E]]; simpl; auto;
      try (rewrite ?ereg_edge; reflexivity).
    intros z Hz. unfold events. apply Nat.eqb_neq in Hz. rewrite Hz. auto.
Qed.

Lemma EP_do_acts : forall l pend s, forallb phase_act_ok l = true -> bk s = BEpoll -> EP pend s ->
  EP pend (do_acts l s).
Proof.
  induction l as [|a l IH]; intros pend s Hok B E; simpl; auto.
  simpl in Hok. apply Bool.andb_true_iff in Hok. destruct Hok as [Ha Hl].
  apply IH; auto.
  - destruct (do_act_frame a s) as (F1 & _). congruence.
  - apply EP_do_act; auto.
Qed.

(* the wake callback keeps the ready-list invariant: the eventfd is cleared, and every action of the
   phase wakes what it touches *)
Lemma EP_handle_wakeup : forall pend s, forallb phase_act_ok (concat (phases s)) = true -> bk s = BEpoll ->
  EP (0 :: pend) s -> EP pend (handle_wakeup s).
Proof.
  intros pend s PH B E. unfold handle_wakeup.
  set (s1 := emit EWake (set_wk 0 s)).
  assert (E1 : EP pend s1).
  { destruct E as [ND SUB ED]. constructor; simpl; auto.
    intros z Hz Hev. destruct (Nat.eq_dec z 0) as [->|N].
    - unfold events in Hev. simpl in Hev. congruence.
    - assert (events s1 z = events s z) as EQ.
      { unfold events. apply Nat.eqb_neq in N. rewrite N. auto. }
      rewrite EQ in Hev. destruct (ED z Hz Hev) as [H|[H|H]]; auto. congruence. }
  destruct (idle s1); auto.
  assert (E2 : EP pend (set_idle false s1)) by (eapply EP_same; [| | |apply E1]; auto).
  destruct (phases (set_idle false s1)) as [|p r] eqn:P; simpl in P.
  - unfold do_act.
    eapply EP_same; [| | |eapply (EP_touch pend 0 (set_idle false s1)); [| | |apply E2]]; simpl; auto;
      try (rewrite ?ereg_edge; reflexivity).
    intros z Hz. unfold events. apply Nat.eqb_neq in Hz. rewrite Hz. auto.
  - rewrite P in PH. simpl in PH. rewrite forallb_app in PH. apply Bool.andb_true_iff in PH. destruct PH as [PH1 _].
    apply EP_do_acts; auto. eapply EP_same; [| | |apply E2]; auto.
Qed.

(* ------------------------------------------------------------------ epoll: what the kernel scan reports *)
Lemma ep_scan_facts : forall rdl cap s, NoDup rdl ->
  let rp := fst (ep_scan cap rdl s) in let rest := snd (ep_scan cap rdl s) in
  (forall x e, In (x, e) rp -> In x rdl /\ e = events s x /\ e <> 0) /\
  NoDup (map fst rp) /\ NoDup rest /\ (forall z, In z rest -> In z rdl) /\
  (forall z, In z rdl -> In z (map fst rp) \/ In z rest \/ events s z = 0) /\
  (1 <= cap -> (exists z, In z rdl /\ events s z <> 0) -> rp <> []).
Proof.
  induction rdl as [|x r IH]; intros cap s ND; simpl.
  - repeat split; auto; try constructor; try (intros; contradiction). intros _ (z & [] & _).
  - inversion ND as [|? ? Hx ND']; subst.
    destruct cap as [|c].
    + simpl. repeat split; auto; try constructor; try (intros; contradiction); try lia;
        try (intros z Hz; right; left; auto).
    + destruct (Nat.eqb (events s x) 0) eqn:E.
      * apply Nat.eqb_eq in E.
        destruct (IH (S c) s ND') as (A1 & A2 & A3 & A4 & A5 & A6).
        split; [intros y e H; destruct (A1 y e H) as (P & Q); split; auto|].
        split; auto. split; auto. split; [intros z Hz; right; apply A4; auto|].
        split.
        -- intros z [<-|Hz]; auto; destruct (A5 z Hz) as [H|[H|H]]; auto.
        -- intros Hc (z & [<-|Hz] & Hev); [congruence|]. apply A6; eauto.
      * apply Nat.eqb_neq in E.
        destruct (IH c s ND') as (A1 & A2 & A3 & A4 & A5 & A6).
        destruct (ep_scan c r s) as [rp rest] eqn:SC. simpl in *.
        split.
        -- intros y e [H|H]; [inversion H; subst; auto|]. destruct (A1 y e H) as (P & Q). split; auto.
        -- split.
           ++ constructor; auto. intro C. apply in_map_iff in C. destruct C as ([y e] & <- & H).
              destruct (A1 y e H) as (P & _). simpl in Hx. contradiction.
           ++ split; auto. split; [intros z Hz; right; apply A4; auto|].
              split; [|intros; discriminate].
              intros z [<-|Hz]; auto; destruct (A5 z Hz) as [H|[H|H]]; auto.
Qed.

Lemma ep_filter_complete : forall evs seen reg x, In x (map fst evs) -> In x reg -> ~ In x seen ->
  In x (map fst (ep_filter seen reg evs)).
Proof.
  induction evs as [|[y e] r IH]; intros seen reg x Hx Hr Hs; simpl in *; [destruct Hx|].
  destruct (mem y reg && negb (mem y seen)) eqn:G.
  - simpl. destruct (Nat.eq_dec y x) as [->|N]; auto. right.
    destruct Hx as [Hx|Hx]; [contradiction|]. apply IH; auto. intros [C|C]; auto.
  - destruct Hx as [Hx|Hx].
    + subst y. exfalso. apply Bool.andb_false_iff in G. destruct G as [G|G].
      * assert (mem x reg = true) by (apply mem_In; auto). congruence.
      * apply Bool.negb_false_iff in G. apply mem_In in G. contradiction.
    + apply IH; auto.
Qed.

Lemma ep_filter_sub : forall evs seen reg x e, In (x, e) (ep_filter seen reg evs) -> In (x, e) evs.
Proof.
  induction evs as [|[y f] r IH]; intros seen reg x e H; simpl in *; auto.
  destruct (mem y reg && negb (mem y seen)); [destruct H as [H|H]; auto; right; eapply IH; eauto|right; eapply IH; eauto].
Qed.

(* ------------------------------------------------------------------ epoll: a batch *)
Definition Live (e : nat) : Prop := has_in e = true \/ has_hup_err e = true.
Definition EvOK (s : st) (evs : list (nat * nat)) : Prop :=
  forall x e, In (x, e) evs -> Live e /\ (x <> 0 -> Htc e (cx s x)) /\ (x = 0 -> has_in e = true).
Definition CReg (s : st) : Prop := In 0 (ereg s) /\ forall x, In x (clist s) -> In x (ereg s).

Lemma ep_walk_app : forall l1 l2 s, ep_walk (l1 ++ l2) s = ep_walk l2 (ep_walk l1 s).
Proof. induction l1 as [|[x e] l1 IH]; intros; simpl; auto. Qed.

(* the read callback and the ready list: the writes of its triggers wake their targets; the context
   itself is drained unless it is flagged *)
Lemma EP_cb_read : forall x pend s, bk s = BEpoll -> all_tacts (trigs s) -> EP (x :: pend) s ->
  EP (x :: pend) (cb_read x s) /\ (events_c (cx (rd_mid x s) x) = 0 -> x <> 0 -> EP pend (cb_read x s)).
Proof.
  intros x pend s B W E. rewrite cb_read_split.
  assert (OKF : forallb phase_act_ok (map tact (rd_fire x s)) = true).
  { apply forallb_forall. intros a Ha. apply in_map_iff in Ha. destruct Ha as (t & <- & Ht).
    unfold rd_fire in Ht. apply filter_In in Ht. apply tact_ok_phase. apply (W t (proj1 Ht)). }
  assert (EVO : forall z, z <> x -> events (rd_mid x s) z = events s z).
  { intros z Hz. unfold events, rd_mid. simpl. apply Nat.eqb_neq in Hz. rewrite Hz. auto. }
  split.
  - apply EP_do_acts; auto. destruct E as [ND SUB ED]. constructor; auto.
    intros z Hz Hev. destruct (Nat.eq_dec z x) as [->|N]; [right; left; auto|].
    rewrite EVO in Hev by auto. apply ED; auto.
  - intros DR X0. apply EP_do_acts; auto. destruct E as [ND SUB ED]. constructor; auto.
    intros z Hz Hev. destruct (Nat.eq_dec z x) as [->|N].
    + exfalso. apply Hev. unfold events. apply Nat.eqb_neq in X0. rewrite X0. auto.
    + rewrite EVO in Hev by auto. destruct (ED z Hz Hev) as [H|[H|H]]; auto. congruence.
Qed.

(* the events of contexts (no wake event among them) *)
Lemma ep_walk_ctx : forall evs extra E U s, GX E U s -> bk s = BEpoll -> ~ In 0 (map fst evs) ->
  NoDup (map fst evs) -> (forall x, In x (map fst evs) -> In x (ereg s)) -> EvOK s evs ->
  EP (map fst evs ++ extra) s -> CReg s ->
  GX E U (ep_walk evs s) /\ bk (ep_walk evs s) = BEpoll /\ ecap (ep_walk evs s) = ecap s /\
  toexit (ep_walk evs s) = toexit s /\ idle (ep_walk evs s) = idle s /\ phases (ep_walk evs s) = phases s /\
  EP extra (ep_walk evs s) /\ CReg (ep_walk evs s) /\
  (forall y e, ~ In y (map fst evs) -> Htc e (cx s y) -> Htc e (cx (ep_walk evs s) y)) /\
  (forall z, In z (ereg s) -> ~ In z (map fst evs) -> In z (ereg (ep_walk evs s))).
Proof.
  induction evs as [|[x e] r IH]; intros extra E U s GXs B N0 ND Hreg OK EPs CR; simpl.
  - split; [auto|]. split; [auto|]. split; [auto|]. split; [auto|]. split; [auto|]. split; [auto|].
    split; [auto|]. split; [auto|]. split; auto.
  - simpl in N0, ND, Hreg, EPs. inversion ND as [|? ? Hxr ND']; subst.
    assert (X0 : x <> 0) by (intro; apply N0; auto).
    pose proof (GX_inv _ _ _ GXs) as I.
    destruct (Inv_ep_step x e s I B (Hreg x (or_introl eq_refl))) as (IS & BS & RS).
    assert (Hin : In x (clist s)).
    { destruct (i_ereg s I B x (Hreg x (or_introl eq_refl))); auto; congruence. }
    destruct (OK x e (or_introl eq_refl)) as (LV & HT & _). specialize (HT X0).
    destruct (visit_read (has_in e) E U s x GXs Hin) as (sg1 & h1 & G1 & FR1 & E1 & NR1 & CQ1 & CE1 & RF1 & DR1).
    set (s1 := if has_in e then cb_read x s else s) in *.
    assert (EP1 : EP (x :: map fst r ++ extra) s1 /\ (has_in e = true -> cflag (cx s1 x) = false -> EP (map fst r ++ extra) s1)).
    { unfold s1. destruct (has_in e) eqn:HI.
      - destruct (EP_cb_read x (map fst r ++ extra) s B (GX_writes _ _ _ GXs) EPs) as [A C].
        split; auto; intros _ CF; apply C; auto.
      - split; auto; intros; discriminate. }
    destruct EP1 as [EP1 EP1k].
    destruct (visit_flag (negb (has_in e) && has_hup_err e) E U s1 sg1 h1 x G1) as (G2 & FR2 & RD2 & T2 & O2 & NF2 & CQ2 & FT2 & FF2 & WK2).
    { intros H. apply Bool.andb_true_iff in H. destruct H as [_ H]. apply CE1. apply (HT H). }
    set (s2 := if negb (has_in e) && has_hup_err e then set_flag x s1 else s1) in *.
    assert (ES : (if has_in e then cb_read x s else if has_hup_err e then set_flag x s else s) = s2).
    { unfold s2, s1. destruct (has_in e), (has_hup_err e); auto. }
    pose proof (frame_trans _ _ _ FR1 FR2) as FR. destruct FR.
    assert (EVO2 : forall z, z <> x -> events s2 z = events s1 z).
    { intros z Hz. unfold events. rewrite WK2, O2; auto. }
    assert (HTO : forall z f, z <> x -> Htc f (cx s z) -> Htc f (cx s2 z)).
    { intros z f Hz H. rewrite O2 by auto. unfold s1. destruct (has_in e); [apply Htc_cb_read; auto|auto]. }
    pose proof (gt_inv _ _ _ _ _ _ G2) as I2.
    assert (exists s', ep_step x e s = s' /\ GX E U s' /\ ecap s' = ecap s /\ toexit s' = toexit s /\ idle s' = idle s /\
              phases s' = phases s /\ EP (map fst r ++ extra) s' /\ CReg s' /\
              (forall y f, y <> x -> Htc f (cx s y) -> Htc f (cx s' y))) as (s' & ES' & GX' & C1 & C2 & C3 & C4 & E' & CR' & HT').
    { unfold ep_step. apply Nat.eqb_neq in X0. rewrite X0. apply Nat.eqb_neq in X0. cbv zeta. rewrite ES.
      destruct (cflag (cx s2 x)) eqn:CF.
      - (* closed: EPOLL_CTL_DEL, close callback, removal *)
        eexists; split; [reflexivity|].
        assert (Hin2 : In x (clist s2)) by (rewrite fr_clist0; auto).
        assert (CQ : cq (cx s2 x) = 0).
        { rewrite CQ2. destruct (has_in e) eqn:HI.
          - apply CQ1. rewrite (RF1 eq_refl).
            destruct (has_hup_err e) eqn:HH; [apply (proj1 (HT HH))|].
            simpl in FF2. rewrite (FF2 eq_refl) in CF. rewrite (RF1 eq_refl) in CF. auto.
          - rewrite (NR1 eq_refl). destruct LV as [LV|LV]; [congruence|]. apply (proj2 (HT LV)). auto. }
        match goal with |- GX E U ?t /\ _ => set (s5 := t) end.
        assert (I5 : Inv s5).
        { unfold ep_step in IS. apply Nat.eqb_neq in X0. rewrite X0 in IS. cbv zeta in IS. rewrite ES, CF in IS. exact IS. }
        destruct (visit_close E U s2 sg1 h1 x s5 G2 CF Hin2 CQ I5) as (G5 & _); auto.
        split; [exists sg1, h1; auto|].
        unfold s5. simpl. split; auto. split; auto. split; auto. split; auto. split; [|split].
        + destruct EP1 as [END ESUB EED]. constructor; simpl.
          * apply rm_NoDup. rewrite RD2. auto.
          * intros z Hz. apply rm_In in Hz. destruct Hz as [Hz Hne]. apply rm_In. split; auto.
            rewrite (fr_ereg _ _ FR2). apply ESUB. rewrite <- RD2. auto.
          * intros z Hz Hev. apply rm_In in Hz. destruct Hz as [Hz Hne].
            assert (events s1 z <> 0) as Hev'.
            { rewrite <- EVO2 by auto. unfold events in *. simpl in Hev.
              destruct (Nat.eqb z 0); auto. apply Nat.eqb_neq in Hne. rewrite Hne in Hev. auto. }
            rewrite (fr_ereg _ _ FR2) in Hz. destruct (EED z Hz Hev') as [H|[H|H]]; [left|congruence|right; auto].
            apply rm_In. split; auto. rewrite RD2. auto.
        + destruct CR as [CR0 CRC]. split.
          * apply rm_In. split; [rewrite fr_ereg0; auto|auto].
          * intros z Hz. apply rm_In in Hz. destruct Hz as [Hz Hne]. apply rm_In. split; auto.
            rewrite fr_ereg0. apply CRC. rewrite <- fr_clist0. auto.
        + intros y f Hy H. apply Nat.eqb_neq in Hy. rewrite Hy. apply Nat.eqb_neq in Hy. apply HTO; auto.
      - (* kept: it was read and is drained *)
        exists s2. split; auto.
        assert (RD : has_in e = true).
        { destruct (has_in e) eqn:HI; auto. destruct LV as [LV|LV]; [congruence|].
          exfalso. assert (false = true); [apply FT2; rewrite LV; auto|discriminate]. }
        assert (S21 : s2 = s1) by (apply NF2; auto).
        rewrite S21 in *.
        split; [exists sg1, h1; apply (GT_unflag _ _ _ _ _ _ G1 CF)|].
        split; [apply (fr_ecap _ _ FR1)|]. split; [apply (fr_toexit _ _ FR1)|]. split; [apply (fr_idle _ _ FR1)|].
        split; [apply (fr_phases _ _ FR1)|]. split; [apply EP1k; auto|]. split.
        + destruct CR as [CR0 CRC]. split; rewrite ?(fr_ereg _ _ FR1), ?(fr_clist _ _ FR1); auto.
        + intros y f Hy H. apply HTO; auto. }
    rewrite ES' in *.
    assert (N0' : ~ In 0 (map fst r)) by (intro; apply N0; auto).
    assert (Hreg' : forall z, In z (map fst r) -> In z (ereg s')).
    { intros z Hz. apply RS; [intro; subst; contradiction|]. auto. }
    assert (OK' : EvOK s' r).
    { intros y f Hyf. destruct (OK y f (or_intror Hyf)) as (L & H & Z). split; auto. split; auto.
      intros Y0. apply HT'; auto. intro; subst y. apply Hxr. apply in_map_iff. exists (x, f). auto. }
    destruct (IH extra E U s' GX' BS N0' ND' Hreg' OK' E' CR') as (A1 & A2 & A3 & A4 & A5 & A6 & A7 & A8 & A9 & A10).
    split; auto. split; auto. split; [congruence|]. split; [congruence|]. split; [congruence|]. split; [congruence|].
    split; auto. split; auto. split.
    + intros y f Hy H. apply A9; [intro; apply Hy; auto|]. apply HT'; auto; intro; apply Hy; auto.
    + intros z Hz Hn. apply A10; [|intro; apply Hn; auto]. apply RS; auto; intro; apply Hn; auto.
Qed.

Lemma CReg_do_act : forall a s, bk s = BEpoll -> CReg s -> CReg (do_act a s).
Proof.
  intros a s B [C0 CC].
  destruct a; try (unfold do_act;
    repeat match goal with |- context [if ?c then _ else _] => destruct c end;
    split; simpl; rewrite ?ereg_edge, ?clist_edge; simpl; rewrite ?ereg_edge, ?clist_edge; auto; fail).
  destruct (cadded (cx s y) || Nat.eqb y 0) eqn:G.
  - unfold do_act. rewrite G. split; simpl; auto.
  - apply Bool.orb_false_iff in G. destruct G as [G1 G2]. apply Nat.eqb_neq in G2.
    destruct (do_add_spec y s G1 G2) as (_ & _ & _ & _ & [(_ & L & _ & R)|(_ & L & _ & R)]).
    + rewrite B in R. change (is_epoll BEpoll) with true in R. cbv iota in R. split; rewrite ?L, ?R.
      * apply in_or_app; auto.
      * intros x Hx. apply in_app_or in Hx. apply in_or_app. destruct Hx as [Hx|Hx]; auto.
    + split; rewrite ?L, ?R; auto.
Qed.

Lemma CReg_do_acts : forall l s, bk s = BEpoll -> CReg s -> CReg (do_acts l s).
Proof.
  induction l as [|a l IH]; intros s B C; simpl; auto.
  apply IH; [destruct (do_act_frame a s) as (F1 & _); congruence|apply CReg_do_act; auto].
Qed.

Lemma CReg_handle_wakeup : forall s, bk s = BEpoll -> CReg s -> CReg (handle_wakeup s).
Proof.
  intros s B C. unfold handle_wakeup.
  set (s1 := emit EWake (set_wk 0 s)).
  assert (C1 : CReg s1) by auto.
  destruct (idle s1); auto.
  destruct (phases (set_idle false s1)) as [|p r].
  - apply (CReg_do_act AExit (set_idle false s1)); auto.
  - apply (CReg_do_acts p (set_phases r (set_idle false s1))); auto.
Qed.

Lemma NoDup_app_parts : forall (a b : list nat) x, NoDup (a ++ x :: b) ->
  NoDup a /\ NoDup b /\ ~ In x a /\ ~ In x b /\ (forall y, In y a -> ~ In y b).
Proof.
  induction a as [|h a IH]; intros b x H; simpl in *.
  - inversion H; subst. repeat split; auto. constructor.
  - inversion H as [|? ? Hh Hr]; subst. destruct (IH b x Hr) as (A & B & C & D & E).
    split; [constructor; auto; intro; apply Hh; apply in_or_app; auto|]. split; auto.
    split; [intros [->|K]; auto; apply Hh; apply in_or_app; right; left; auto|]. split; auto.
    intros y [->|Hy]; auto. intro K. apply Hh. apply in_or_app. right; right; auto.
Qed.

(* a whole batch: context events, possibly the wake event somewhere among them *)
Lemma ep_batch : forall evs E U s, GX E U s -> bk s = BEpoll -> toexit s = false ->
  NoDup (map fst evs) -> (forall x, In x (map fst evs) -> In x (ereg s)) -> EvOK s evs ->
  EP (map fst evs) s -> CReg s ->
  (idle s = true -> Quiet s /\ forall x, In x (map fst evs) -> x = 0) ->
  exists E' U', GX E' U' (ep_walk evs s) /\ bk (ep_walk evs s) = BEpoll /\ ecap (ep_walk evs s) = ecap s /\
    EP [] (ep_walk evs s) /\ CReg (ep_walk evs s) /\
    (In 0 (map fst evs) -> idle (ep_walk evs s) = false) /\
    (idle s = false -> idle (ep_walk evs s) = false /\ toexit (ep_walk evs s) = false) /\
    (toexit (ep_walk evs s) = true -> phases (ep_walk evs s) = [] /\ Quiet (ep_walk evs s)).
Proof.
  intros evs E U s GXs B EX ND Hreg OK EPs CR QI.
  destruct (in_dec Nat.eq_dec 0 (map fst evs)) as [H0|H0].
  - (* the wake event is in the batch *)
    apply in_map_iff in H0. destruct H0 as ([z e] & Z & Hze). simpl in Z. subst z.
    destruct (in_split _ _ Hze) as (pre & post & ->).
    rewrite map_app in *. simpl in *.
    assert (NDs : NoDup (map fst pre) /\ NoDup (map fst post) /\ ~ In 0 (map fst pre) /\ ~ In 0 (map fst post) /\
                  (forall y, In y (map fst pre) -> ~ In y (map fst post))).
    { apply NoDup_app_parts; auto. }
    destruct NDs as (NDa & NDb & N0a & N0b & DISJ).
    assert (OKa : EvOK s pre) by (intros y f H; apply OK; apply in_or_app; auto).
    destruct (ep_walk_ctx pre (0 :: map fst post) E U s GXs B N0a NDa) as (A1 & A2 & A3 & A4 & A5 & A6 & A7 & A8 & A9 & A10); auto.
    { intros y Hy. apply Hreg. apply in_or_app; auto. }
    set (sa := ep_walk pre s) in *.
    destruct (OK 0 e) as (_ & _ & HI); [apply in_or_app; right; left; auto|]. specialize (HI eq_refl).
    rewrite ep_walk_app. simpl. fold sa.
    assert (ep_step 0 e sa = handle_wakeup sa) as -> by (unfold ep_step; simpl; rewrite HI; auto).
    assert (EXa : toexit sa = false) by congruence.
    assert (QIa : idle sa = true -> Quiet sa).
    { intros C. rewrite A5 in C. destruct (QI C) as [Q ALL0].
      assert (pre = []) as ->.
      { destruct pre as [|[y f] pre]; auto. exfalso. apply N0a. simpl. left. apply ALL0. apply in_or_app. left. simpl. auto. }
      unfold sa. simpl. auto. }
    destruct (hw_GT E U sa A1 EXa QIa) as (E' & U' & W1 & W7 & W8 & W9 & W10 & W11 & W12 & W13).
    set (sb := handle_wakeup sa) in *.
    assert (Bb : bk sb = BEpoll) by congruence.
    assert (PHa : forallb phase_act_ok (concat (phases sa)) = true).
    { destruct A1 as (sg0 & h0 & G0). apply (gt_ph _ _ _ _ _ _ G0). }
    assert (Eb : EP (map fst post ++ []) sb).
    { rewrite app_nil_r. apply EP_handle_wakeup; auto. }
    assert (CRb : CReg sb) by (apply CReg_handle_wakeup; auto).
    assert (Hregb : forall y, In y (map fst post) -> In y (ereg sb)).
    { intros y Hy. destruct (e_ereg _ _ W11) as [l ->]. apply in_or_app. left.
      apply A10; [apply Hreg; apply in_or_app; right; right; auto|].
      intro C. apply (DISJ y C Hy). }
    assert (OKb : EvOK sb post).
    { intros y f H. destruct (OK y f) as (L & HT & Z); [apply in_or_app; right; right; auto|].
      split; auto. split; auto. intros Y0. apply Htc_handle_wakeup. apply A9; auto.
      intro C. apply (DISJ y C). apply in_map_iff. exists (y, f). auto. }
    destruct (ep_walk_ctx post [] E' U' sb W1 Bb N0b NDb Hregb OKb Eb CRb) as (P1 & P2 & P3 & P4 & P5 & P6 & P7 & P8 & P9 & P10).
    exists E', U'. split; auto. split; auto. split; [congruence|]. split; auto. split; auto.
    split; [intros _; congruence|]. split.
    + intros ID. rewrite P5, P4. split; auto. apply (W12 ltac:(congruence)).
    + rewrite P4, P6. intros C. destruct (W13 C) as (_ & _ & PHe & X1 & X2). split; auto.
      (* exit happens in the idle iteration only: the batch is the wake event alone *)
      assert (IDa : idle sa = true).
      { destruct (idle sa) eqn:K; auto. destruct (W12 eq_refl) as (_ & _ & T & _). congruence. }
      rewrite A5 in IDa. destruct (QI IDa) as [Q ALL0].
      assert (post = []) as ->.
      { destruct post as [|[y f] post]; auto. exfalso. apply N0b. simpl. left. apply ALL0. apply in_or_app. right. simpl. auto. }
      simpl. eapply Quiet_view; [apply X1|apply X2|]. apply QIa. congruence.
  - (* context events only *)
    assert (E' : EP (map fst evs ++ []) s) by (rewrite app_nil_r; auto).
    destruct (ep_walk_ctx evs [] E U s GXs B H0 ND Hreg OK E' CR) as (A1 & A2 & A3 & A4 & A5 & A6 & A7 & A8 & A9 & A10).
    exists E, U. split; auto. split; auto. split; auto. split; auto. split; auto.
    split; [intros C; contradiction|]. split; [intros ID; split; congruence|].
    intros C. congruence.
Qed.

(* ------------------------------------------------------------------ epoll: one kernel call *)
Definition BEp (s : st) : Prop := CReg s /\ 1 <= ecap s /\ EP [] s.

Lemma ep_scan_single : forall rdl cap s z, 1 <= cap -> In z rdl -> events s z <> 0 ->
  (forall y, In y rdl -> y <> z -> events s y = 0) -> In z (map fst (fst (ep_scan cap rdl s))).
Proof.
  induction rdl as [|x r IH]; intros cap s z Hc Hz Hev Hot; [destruct Hz|].
  simpl. destruct cap as [|c]; [lia|].
  destruct (Nat.eq_dec x z) as [->|N].
  - apply Nat.eqb_neq in Hev. rewrite Hev. destruct (ep_scan c r s). simpl. auto.
  - rewrite (Hot x (or_introl eq_refl) N). simpl.
    destruct Hz as [Hz|Hz]; [congruence|]. apply IH; auto. intros y Hy. apply Hot. right; auto.
Qed.

Lemma ep_scan_only : forall rdl cap s z, (forall y, In y rdl -> y <> z -> events s y = 0) ->
  forall x, In x (map fst (fst (ep_scan cap rdl s))) -> x = z.
Proof.
  induction rdl as [|a r IH]; intros cap s z Hot x Hx; simpl in Hx; [destruct Hx|].
  destruct cap as [|c]; [destruct Hx|].
  destruct (Nat.eqb (events s a) 0) eqn:Ev.
  - eapply (IH (S c)); eauto. intros y Hy. apply Hot. right; auto.
  - destruct (ep_scan c r s) as [rp rest] eqn:SC. simpl in Hx. destruct Hx as [<-|Hx].
    + destruct (Nat.eq_dec a z); auto. apply Nat.eqb_neq in Ev. exfalso. apply Ev. apply Hot; auto. left; auto.
    + apply (IH c s z) with (x := x); [intros y Hy; apply Hot; right; auto|]. rewrite SC. auto.
Qed.

Lemma live_events : forall c, events_c c <> 0 -> Live (events_c c).
Proof.
  intros c H. destruct (events_c_bits_gen c) as [A B]. unfold Live. rewrite A, B.
  unfold events_c in H. destruct (ev_in c), (ev_hup c), (ev_err c); auto.
Qed.

Lemma Q_epoll : forall E U s, GX E U s -> BEp s -> bk s = BEpoll -> kern s = [] -> Quiet s.
Proof.
  intros E U s GXs ((C0 & CC) & CAP & EPs) B K x Hx.
  unfold kern in K. rewrite B in K.
  destruct (ep_scan_facts (erdl s) (ecap s) s (ep_nd _ _ EPs)) as (_ & _ & _ & _ & _ & A6).
  assert (X0 : x <> 0) by (apply (i_reg s (GX_inv _ _ _ GXs) x Hx)).
  destruct (Nat.eq_dec (events s x) 0) as [Z|NZ].
  - unfold events in Z. apply Nat.eqb_neq in X0. rewrite X0 in Z. auto.
  - exfalso. apply (A6 CAP); auto. exists x. split; auto.
    destruct (ep_edge _ _ EPs x (CC x Hx) NZ) as [H|[]]; auto.
Qed.

Lemma ep_dispatch : forall E U s, GX E U s -> bk s = BEpoll -> toexit s = false -> BEp s ->
  (idle s = true -> Quiet s /\ forall x, In x (map fst (kern s)) -> x = 0) ->
  let s' := dispatch_epoll (kern s) s in
  exists E' U', GX E' U' s' /\ bk s' = BEpoll /\ BEp s' /\
    (In 0 (map fst (kern s)) -> idle s' = false) /\
    (idle s = false -> idle s' = false /\ toexit s' = false) /\
    (toexit s' = true -> phases s' = [] /\ Quiet s').
Proof.
  intros E U s GXs B EX (CR & CAP & EPs) QI. cbv zeta.
  assert (KS : kern s = fst (ep_scan (ecap s) (erdl s) s)) by (unfold kern; rewrite B; auto).
  unfold dispatch_epoll.
  destruct (ep_scan_facts (erdl s) (ecap s) s (ep_nd _ _ EPs)) as (S1 & S2 & S3 & S4 & S5 & _).
  rewrite <- KS in *.
  set (evs := ep_filter [] (ereg s) (kern s)).
  set (rest := snd (ep_scan (ecap s) (erdl s) s)) in *.
  set (s1 := set_erdl (filter (fun y => negb (mem y (map fst evs))) rest) s).
  destruct (ep_filter_spec (kern s) [] (ereg s)) as [NDe He]. fold evs in NDe, He.
  assert (GX1 : GX E U s1).
  { eapply GX_view; [apply GXs| | | | | | | |]; simpl; auto.
    eapply Inv_view; [apply sv_set_erdl|apply (GX_inv _ _ _ GXs)]. }
  assert (OK1 : EvOK s1 evs).
  { intros x e H. apply ep_filter_sub in H. destruct (S1 x e H) as (_ & -> & NZ).
    destruct (Nat.eq_dec x 0) as [->|X0].
    - unfold events in *. simpl in *. destruct (Nat.ltb 0 (wk s)); [|congruence].
      split; [left; auto|]. split; [congruence|auto].
    - assert (events s x = events_c (cx s x)) as EQ.
      { unfold events. apply Nat.eqb_neq in X0. rewrite X0. auto. }
      rewrite EQ in *. split; [apply live_events; auto|]. split; [|congruence].
      intros _. destruct GXs as (sg0 & h0 & G0). eapply Htc_events. apply (g_pc _ _ (gt_gc _ _ _ _ _ _ G0)). }
  assert (E1 : EP (map fst evs) s1).
  { destruct EPs as [ND SUB ED]. constructor; simpl.
    - apply NoDup_filter. auto.
    - intros z Hz. apply filter_In in Hz. destruct Hz as [Hz _]. apply SUB. apply S4. auto.
    - intros z Hz Hev. change (events s1 z) with (events s z) in Hev.
      destruct (in_dec Nat.eq_dec z (map fst evs)) as [Y|Nn]; auto. left.
      destruct (ED z Hz Hev) as [H|[]]. destruct (S5 z H) as [R|[R|R]]; [| |congruence].
      + exfalso. apply Nn. apply ep_filter_complete; auto.
      + apply filter_In. split; auto. apply Bool.negb_true_iff.
        destruct (mem z (map fst evs)) eqn:M; auto. apply mem_In in M. contradiction. }
  destruct (ep_batch evs E U s1 GX1 B EX NDe) as (E' & U' & A1 & A2 & A3 & A4 & A5 & A6 & A7 & A8); auto.
  { intros x Hx. apply He. auto. }
  { intros C. destruct (QI C) as [Q ALL0]. split; [auto|].
    intros x Hx. apply ALL0. apply in_map_iff in Hx. destruct Hx as ([y f] & <- & H). apply ep_filter_sub in H.
    apply in_map_iff. exists (y, f). auto. }
  exists E', U'. split; auto. split; auto. split; [split; auto; split; auto; rewrite A3; auto|].
  split; [|split; auto].
  intros H0. apply A6. apply ep_filter_complete; auto. apply (proj1 CR).
Qed.

Lemma epoll_iter : iter_ok BEp BEpoll.
Proof.
  intros E U s GXs EX ID B BE. unfold iter0, kern_o0.
  destruct (kern s) as [|p r] eqn:K.
  - (* idle *)
    pose proof (Q_epoll E U s GXs BE B K) as Q.
    destruct BE as (CR & CAP & EPs).
    simpl. unfold dispatch.
    set (s0 := inject s).
    assert (B0 : bk s0 = BEpoll) by (unfold s0, inject; simpl; rewrite bk_edge; auto).
    rewrite B0.
    pose proof (GX_inject E U s GXs) as GX0. fold s0 in GX0.
    assert (EX0 : toexit s0 = false) by (unfold s0, inject; simpl; rewrite toexit_edge; auto).
    assert (R0 : ereg s0 = ereg s) by (unfold s0, inject; simpl; rewrite ereg_edge; auto).
    assert (CX0 : cx s0 = cx s) by (unfold s0, inject; simpl; rewrite cx_edge; auto).
    assert (CL0 : clist s0 = clist s) by (unfold s0, inject; simpl; rewrite clist_edge; auto).
    assert (E0 : EP [] s0).
    { unfold s0, inject. eapply EP_same; [| | |eapply (EP_touch [] 0 s (set_wk (S (wk s)) s)); [| | |apply EPs]]; simpl; auto.
      intros z Hz. unfold events. apply Nat.eqb_neq in Hz. rewrite Hz. auto. }
    assert (BE0 : BEp s0).
    { destruct CR as [CR0 CRC]. split; [split; rewrite ?R0, ?CL0; auto|]. split; auto.
      unfold s0, inject. simpl. unfold edge. destruct (_ && _); auto. }
    assert (EV00 : events s0 0 = 1) by (unfold events, s0, inject; simpl; rewrite wk_edge; simpl; auto).
    assert (OTH0 : forall y, In y (erdl s0) -> y <> 0 -> events s0 y = 0).
    { intros y Hy Hne. pose proof (ep_sub _ _ E0 y Hy) as Hr. rewrite R0 in Hr.
      destruct (i_ereg s (GX_inv _ _ _ GXs) B y Hr) as [->|Hc]; [congruence|].
      unfold events. apply Nat.eqb_neq in Hne. rewrite Hne, CX0. apply Q; auto. }
    assert (IN0 : In 0 (map fst (kern s0))).
    { unfold kern. rewrite B0. apply ep_scan_single; auto; [apply BE0| |congruence].
      destruct (ep_edge _ _ E0 0) as [H|[]]; auto; [rewrite R0; apply (proj1 CR)|congruence]. }
    assert (ALL0 : forall x, In x (map fst (kern s0)) -> x = 0).
    { unfold kern. rewrite B0. apply ep_scan_only. auto. }
    assert (Q0 : Quiet s0) by (eapply Quiet_view; [apply CX0|apply CL0|auto]).
    destruct (ep_dispatch E U s0 GX0 B0 EX0 BE0 (fun _ => conj Q0 ALL0)) as (E' & U' & A1 & A2 & A3 & A4 & A5 & A6).
    exists E', U'. split; auto.
  - simpl. unfold dispatch. rewrite B. rewrite <- K.
    destruct (ep_dispatch E U s GXs B EX BE) as (E' & U' & A1 & A2 & A3 & A4 & A5 & A6).
    { intros C. congruence. }
    destruct (A5 ID) as [A51 A52].
    exists E', U'. split; [auto|]. split; [auto|]. split; [auto|]. split; [auto|]. intros C. congruence.
Qed.
End FlatRun.

(* ------------------------------------------------------------------ the start state *)
Lemma sset_do_act : forall a s z, In z (sset s) -> In z (sset (do_act a s)).
Proof.
  intros a s z H. destruct a; unfold do_act;
    repeat match goal with |- context [if ?c then _ else _] => destruct c end;
    simpl; rewrite ?sset_edge; simpl; rewrite ?sset_edge; auto.
  unfold add_ctx, backend_add. simpl. destruct (bk s); simpl;
    repeat match goal with |- context [if ?c then _ else _] => destruct c end; simpl; rewrite ?sset_edge; simpl; auto.
  apply add_set_incl. auto.
Qed.

Lemma csub_sset_do_act : forall a s, bk s = BSelect -> (forall x, In x (clist s) -> In x (sset s)) ->
  forall x, In x (clist (do_act a s)) -> In x (sset (do_act a s)).
Proof.
  intros a s B H x.
  destruct a; try (unfold do_act;
    repeat match goal with |- context [if ?c then _ else _] => destruct c end;
    simpl; rewrite ?sset_edge, ?clist_edge; simpl; rewrite ?sset_edge, ?clist_edge; auto; fail).
  unfold do_act. destruct (cadded (cx s y) || Nat.eqb y 0); [simpl; auto|].
  unfold add_ctx, backend_add. simpl. rewrite B. simpl.
  intros Hx. apply in_app_or in Hx. destruct Hx as [Hx|[<-|[]]]; [apply add_set_incl; auto|apply add_set_self].
Qed.

Lemma BSel_do_acts : forall l s, bk s = BSelect -> BSel s -> BSel (do_acts l s).
Proof.
  induction l as [|a l IH]; intros s B (H0 & HC & HS); simpl; auto. split; auto.
  apply IH.
  - destruct (do_act_frame a s) as (F1 & _). congruence.
  - split; [apply sset_do_act; auto|]. split; [apply csub_sset_do_act; auto|apply no_stale_do_act; auto].
Qed.

Lemma csub_ereg_do_acts : forall l s, bk s = BEpoll -> (forall x, In x (clist s) -> In x (ereg s)) ->
  forall x, In x (clist (do_acts l s)) -> In x (ereg (do_acts l s)).
Proof.
  induction l as [|a l IH]; intros s B H; simpl; auto.
  apply IH; [destruct (do_act_frame a s) as (F1 & _); congruence|].
  destruct a; try (unfold do_act;
    repeat match goal with |- context [if ?c then _ else _] => destruct c end;
    simpl; rewrite ?ereg_edge, ?clist_edge; simpl; rewrite ?ereg_edge, ?clist_edge; auto; fail).
  destruct (cadded (cx s y) || Nat.eqb y 0) eqn:G.
  - unfold do_act. rewrite G. simpl; auto.
  - apply Bool.orb_false_iff in G. destruct G as [G1 G2]. apply Nat.eqb_neq in G2.
    destruct (do_add_spec y s G1 G2) as (_ & _ & _ & _ & [(_ & L & _ & R)|(_ & L & _ & R)]).
    + rewrite B in R. change (is_epoll BEpoll) with true in R. cbv iota in R. rewrite ?L, ?R.
      intros x Hx. apply in_app_or in Hx. apply in_or_app. destruct Hx as [Hx|Hx]; auto.
    + rewrite ?L, ?R; auto.
Qed.

(* ------------------------------------------------------------------ the classes *)
(* SWT: every read-callback trigger writes to, half-closes or closes some context's PEER, or wakes
   the loop (threshold >= 1, no two identical trigger lines); a peer that some trigger terminates
   gets all its callback-issued writes and terminators from one context (single source), and then
   the trigger list is ordered by threshold (as the drivers order it); every other action is
   issued before run() or from an idle phase; no scripted exit / shutdown; the adds fit
   hints_max_fd.  SW (triggers that only write, in any order) and [flat] (no triggers) are special
   cases. *)
Definition noterm_b (l : list trigger) : bool :=
  forallb (fun t => match tact t with AHclose _ | APclose _ => false | _ => true end) l.
Fixpoint sorted_tb (l : list trigger) : bool :=
  match l with
  | a :: ((b :: _) as r) => Nat.leb (tbytes a) (tbytes b) && sorted_tb r
  | _ => true
  end.
Definition tsb (l : list trigger) : bool :=
  forallb (fun t => match tact t with
                    | AHclose y | APclose y =>
                        forallb (fun u => negb (targets_any y (tact u)) || Nat.eqb (tctx u) (tctx t)) l
                    | _ => true
                    end) l.

Definition swt (sc : script) : bool :=
  forallb (fun t => tact_ok (tact t) && Nat.leb 1 (tbytes t)) (s_trigs sc) && nodupb (s_trigs sc) &&
  (noterm_b (s_trigs sc) || sorted_tb (s_trigs sc)) && tsb (s_trigs sc) &&
  forallb phase_act_ok (concat (s_phases sc)) &&
  Nat.leb (count_adds (concat (s_phases sc))) (if Nat.ltb (s_hints sc) 1 then 8 else s_hints sc) && negb (s_timer sc).

Definition sw (sc : script) : bool :=
  forallb (fun t => is_write (tact t) && Nat.leb 1 (tbytes t)) (s_trigs sc) && nodupb (s_trigs sc) &&
  forallb phase_act_ok (concat (s_phases sc)) &&
  Nat.leb (count_adds (concat (s_phases sc))) (if Nat.ltb (s_hints sc) 1 then 8 else s_hints sc) && negb (s_timer sc).

Definition spec_outcome_sw (sc : script) (x : nat) : nat * bool * bool :=
  let d := cx (spec_sw sc) x in
  if cregok d then (cq d, ceof d, negb (ceof d)) else (0, false, false).

Lemma noterm_b_ok : forall l, noterm_b l = true -> noterm l.
Proof.
  intros l H t y Ht. pose proof (proj1 (forallb_forall _ _) H t Ht) as K.
  simpl in K. unfold targets_term. destruct (tact t); auto; discriminate.
Qed.

Lemma sorted_tb_ok : forall l, sorted_tb l = true -> sortedU l.
Proof.
  intros l H a t (l1 & l2 & -> & Ht) _.
  induction l1 as [|u l1 IH]; simpl in H.
  - clear - H Ht. revert a H Ht. induction l2 as [|b l2 IH]; intros a H Ht; [destruct Ht|].
    simpl in H. apply Bool.andb_true_iff in H. destruct H as [H1 H2]. apply Nat.leb_le in H1.
    destruct Ht as [<-|Ht]; auto. pose proof (IH b H2 Ht). lia.
  - apply IH. destruct (l1 ++ a :: l2) eqn:E; [destruct l1; discriminate|].
    apply Bool.andb_true_iff in H. tauto.
Qed.

Lemma tsb_ok : forall l, tsb l = true -> TS l.
Proof.
  intros l H y.
  destruct (existsb (fun t => targets_term y (tact t)) l) eqn:X.
  - right. apply existsb_exists in X. destruct X as (t0 & Ht0 & T0).
    exists (tctx t0). intros t Ht Tg.
    pose proof (proj1 (forallb_forall _ _) H t0 Ht0) as K.
    assert (forallb (fun u => negb (targets_any y (tact u)) || Nat.eqb (tctx u) (tctx t0)) l = true) as K'.
    { simpl in K. unfold targets_term in T0. destruct (tact t0); try discriminate; apply Nat.eqb_eq in T0; subst; exact K. }
    pose proof (proj1 (forallb_forall _ _) K' t Ht) as K2. simpl in K2. rewrite Tg in K2. simpl in K2. apply Nat.eqb_eq in K2. auto.
  - left. intros t Ht. destruct (targets_term y (tact t)) eqn:Tt; auto.
    assert (existsb (fun t => targets_term y (tact t)) l = true) by (apply existsb_exists; exists t; auto). congruence.
Qed.

Lemma swt_parts : forall sc, swt sc = true ->
  (forall t, In t (s_trigs sc) -> tact_ok (tact t) = true /\ 1 <= tbytes t) /\ NoDup (s_trigs sc) /\
  (noterm (s_trigs sc) \/ sortedU (s_trigs sc)) /\ TS (s_trigs sc) /\
  forallb phase_act_ok (concat (s_phases sc)) = true /\
  count_adds (concat (s_phases sc)) <= (if Nat.ltb (s_hints sc) 1 then 8 else s_hints sc) /\
  s_timer sc = false.
Proof.
  intros sc H. unfold swt in H. apply Bool.andb_true_iff in H. destruct H as [H H7].
  apply Bool.andb_true_iff in H. destruct H as [H H6].
  apply Bool.andb_true_iff in H. destruct H as [H H5]. apply Bool.andb_true_iff in H. destruct H as [H H4].
  apply Bool.andb_true_iff in H. destruct H as [H H3]. apply Bool.andb_true_iff in H. destruct H as [H1 H2].
  split.
  - intros t Ht. pose proof (proj1 (forallb_forall _ _) H1 t Ht) as K.
    apply Bool.andb_true_iff in K. destruct K as [K1 K2]. apply Nat.leb_le in K2. auto.
  - split; [apply nodupb_NoDup; auto|]. split.
    + apply Bool.orb_true_iff in H3. destruct H3 as [N|S]; [left; apply noterm_b_ok; auto|right; apply sorted_tb_ok; auto].
    + split; [apply tsb_ok; auto|]. split; auto. split; [apply Nat.leb_le; auto|].
      apply Bool.negb_true_iff. auto.
Qed.

Lemma sw_swt : forall sc, sw sc = true -> swt sc = true.
Proof.
  intros sc H. unfold sw in H. apply Bool.andb_true_iff in H. destruct H as [H H5].
  apply Bool.andb_true_iff in H. destruct H as [H H4].
  apply Bool.andb_true_iff in H. destruct H as [H H3]. apply Bool.andb_true_iff in H. destruct H as [H1 H2].
  assert (W : forall t, In t (s_trigs sc) -> is_write (tact t) = true /\ Nat.leb 1 (tbytes t) = true).
  { intros t Ht. pose proof (proj1 (forallb_forall _ _) H1 t Ht) as K. apply Bool.andb_true_iff in K. auto. }
  unfold swt. rewrite H2, H3, H4, H5.
  assert (forallb (fun t => tact_ok (tact t) && Nat.leb 1 (tbytes t)) (s_trigs sc) = true) as ->.
  { apply forallb_forall. intros t Ht. destruct (W t Ht) as [A B]. rewrite B. destruct (tact t); try discriminate; auto. }
  assert (noterm_b (s_trigs sc) = true) as ->.
  { apply forallb_forall. intros t Ht. destruct (W t Ht) as [A B]. destruct (tact t); try discriminate; auto. }
  assert (tsb (s_trigs sc) = true) as ->; auto.
  apply forallb_forall. intros t Ht. destruct (W t Ht) as [A B]. destruct (tact t); try discriminate; auto.
Qed.

Lemma flat_sw : forall sc, flat sc = true -> sw sc = true.
Proof.
  intros sc H. unfold flat in H. apply Bool.andb_true_iff in H. destruct H as [H H4].
  apply Bool.andb_true_iff in H. destruct H as [H H3].
  apply Bool.andb_true_iff in H. destruct H as [H1 H2].
  unfold sw. destruct (s_trigs sc); [|discriminate]. simpl. rewrite H2, H3, H4. auto.
Qed.

Lemma start_GX : forall b sc, swt sc = true ->
  GX (spec_sw sc) (do_acts (hd [] (s_phases sc)) (init BSelect sc)) (s_trigs sc) (start b sc) /\
  toexit (start b sc) = false /\ idle (start b sc) = false /\ bk (start b sc) = b /\
  match b with BSelect => BSel (start b sc) | BPoll => True | BEpoll => BEp (start b sc) end.
Proof.
  intros b sc SW. destruct (swt_parts sc SW) as (W & NDU & SOK0 & TS0 & PH & CAP & _).
  set (p0 := hd [] (s_phases sc)). set (rest := tl (s_phases sc)).
  assert (CC : concat (s_phases sc) = p0 ++ concat rest).
  { unfold p0, rest. destruct (s_phases sc); simpl; auto. }
  rewrite CC in PH, CAP. rewrite forallb_app in PH. apply Bool.andb_true_iff in PH. destruct PH as [PH0 PHR].
  rewrite count_adds_app in CAP.
  assert (G0 : GC (init b sc) (init BSelect sc)).
  { constructor; simpl; auto.
    - intros x. unfold c0. constructor; simpl; auto; intros; discriminate.
    - intros x. unfold c0. simpl. split; [intros; discriminate|intros [[]|H]; discriminate]. }
  assert (F0 : Fl (init b sc)) by (intros x H; unfold init, c0 in H; simpl in H; discriminate).
  destruct (lock_do_acts p0 (init b sc) (init BSelect sc) (count_adds (concat rest)) PH0 (Inv_init b sc) G0)
    as (A1 & A2 & A3 & A4 & A5 & A6 & A7 & A8 & A9).
  { simpl. intros _. lia. }
  destruct (do_acts_facts p0 (init b sc)) as (D1 & D2 & _ & _).
  set (s1 := do_acts p0 (init b sc)) in *. set (E0 := do_acts p0 (init BSelect sc)) in *.
  assert (GT1 : GT (spec_sw sc) E0 (s_trigs sc) None s1 E0 []).
  { apply mkGT.
    - auto.
    - auto.
    - eapply flagsame_Fl; eauto.
    - rewrite D2. simpl. auto.
    - rewrite D2, A6. simpl. rewrite A5. simpl. intros Bp. specialize (A4 Bp). simpl in A4. exact A4.
    - rewrite D2. simpl. reflexivity.
    - reflexivity.
    - rewrite D1. simpl. symmetry. rewrite <- (filter_true (s_trigs sc)) at 2. apply filter_ext. intros t. auto.
    - auto.
    - constructor.
    - intros t [].
    - auto.
    - auto.
    - destruct SOK0 as [N|S]; [left; auto|right; split; auto]. intros c. simpl. rewrite filter_memt_nil. auto.
    - exists []. split; [auto|]. split; [intros b0 []|]. intros pre b0 post Eq. destruct pre; discriminate.
    - rewrite D1. simpl. intros t Ht. destruct (A3 (tctx t)) as (_ & _ & _ & CF). rewrite CF. simpl.
      apply (W t Ht).
    - intros t [].
    - unfold E0. rewrite bk_do_acts. auto. }
  simpl in A5, A8, A9.
  destruct b.
  - unfold start. fold p0 s1. split; [exists E0, []; auto|]. split; auto. split; auto. split; auto.
    apply BSel_do_acts; auto. split; [simpl; auto|]. split; [intros x []|].
    intros z Hz. simpl in Hz. destruct Hz as [<-|[]]; auto.
  - unfold start. fold p0 s1. split; [exists E0, []; auto|]. auto.
  - unfold start. fold p0 s1.
    assert (CS : forall x, In x (clist s1) -> In x (ereg s1)).
    { apply csub_ereg_do_acts; auto; intros x []. }
    assert (E1 : EP [] s1).
    { apply EP_do_acts; auto. constructor; simpl; auto; try constructor; intros z []. }
    unfold backend_add. rewrite A5. simpl.
    set (s2 := set_ereg (ereg s1 ++ [0]) s1).
    destruct (Inv_start BEpoll sc) as [IS _]. unfold start in IS. fold p0 s1 in IS.
    unfold backend_add in IS. rewrite A5 in IS. simpl in IS. fold s2 in IS.
    assert (E2 : EP [] (if Nat.eqb (events s2 0) 0 then s2 else edge 0 s2)).
    { destruct E1 as [ND SUB ED].
      destruct (Nat.eqb (events s2 0) 0) eqn:EV.
      - apply Nat.eqb_eq in EV. constructor; simpl; auto.
        + intros z Hz. apply in_or_app. left. auto.
        + intros z Hz Hev. apply in_app_or in Hz. destruct Hz as [Hz|[<-|[]]]; [apply ED; auto|contradiction].
      - destruct (erdl_edge_cases 0 s2) as [[A C]|(A & C & D)]; constructor; rewrite ?A, ?ereg_edge; simpl; auto.
        + intros z Hz. apply in_or_app. left. auto.
        + intros z Hz Hev. rewrite events_edge in Hev. apply in_app_or in Hz.
          destruct Hz as [Hz|[<-|[]]]; [apply ED; auto|]. left. apply C. simpl. apply in_or_app. right; left; auto.
        + eapply Permutation_NoDup; [apply Permutation_cons_append|]. constructor; auto.
        + intros z Hz. apply in_app_or in Hz. destruct Hz as [Hz|[<-|[]]].
          * apply in_or_app. left. auto.
          * apply in_or_app. right; left; auto.
        + intros z Hz Hev. rewrite events_edge in Hev. apply in_app_or in Hz.
          destruct Hz as [Hz|[<-|[]]].
          * destruct (ED z Hz Hev) as [H|[]]. left. apply in_or_app; auto.
          * left. apply in_or_app. right; left; auto. }
    destruct (Nat.eqb (events s2 0) 0); simpl.
    + split; [exists E0, []; eapply GT_view; [apply GT1|apply IS| | | | | | |]; auto|].
      split; auto. split; auto. split; auto.
      split; [split; simpl; [apply in_or_app; right; left; auto|intros x Hx; apply in_or_app; left; auto]|].
      split; [simpl; rewrite A7; simpl; lia|auto].
    + split; [exists E0, []; eapply GT_view; [apply GT1|apply IS| | | | | | |];
              rewrite ?cx_edge, ?clist_edge, ?trigs_edge, ?phases_edge, ?bk_edge, ?pcap_edge, ?parr_edge; auto|].
      split; [rewrite toexit_edge; auto|]. split; [rewrite idle_edge; auto|]. split; [rewrite bk_edge; auto|].
      split; [split; rewrite ?ereg_edge, ?clist_edge; simpl; [apply in_or_app; right; left; auto|intros x Hx; apply in_or_app; left; auto]|].
      split; [unfold edge; destruct (_ && _); simpl; rewrite A7; simpl; lia|auto].
Qed.

(* ------------------------------------------------------------------ the theorems *)
(* every back-end, on a script of class SWT, ends with the outcome the specification computes *)
Theorem swt_outcome : forall sc, swt sc = true -> forall b fuel s',
  runks b sc fuel = (s', true) -> forall x, outcome s' x = spec_outcome_sw sc x.
Proof.
  intros sc SW b fuel s' R x. unfold runks in R.
  destruct (start_GX b sc SW) as (GX0 & EX & ID & B & BI).
  assert (TM : tmr (start b sc) = false).
  { rewrite tmr_start. destruct (swt_parts sc SW) as (_ & _ & _ & _ & _ & _ & T). auto. }
  assert (exists s1 E1 U1, s' = finish s1 /\ GX (spec_sw sc) E1 U1 s1 /\ phases s1 = [] /\ Quiet s1) as (s1 & E1 & U1 & -> & G1 & P1 & Q1).
  { destruct b.
    - eapply (runk_flat (spec_sw sc) BSel BSelect); eauto. apply sel_iter.
    - eapply (runk_flat (spec_sw sc) (fun _ => True) BPoll); eauto. apply poll_iter.
    - eapply (runk_flat (spec_sw sc) BEp BEpoll); eauto. apply epoll_iter. }
  rewrite (final_outcome (spec_sw sc) E1 U1 s1 x G1 P1 Q1). reflexivity.
Qed.

(* agreement of select, poll and epoll (each loop may need a different number of kernel calls) *)
Theorem agree_swt : forall sc, swt sc = true -> forall f1 f2 f3,
  snd (runks BSelect sc f1) = true -> snd (runks BPoll sc f2) = true -> snd (runks BEpoll sc f3) = true ->
  forall x, outcome (fst (runks BSelect sc f1)) x = outcome (fst (runks BPoll sc f2)) x /\
            outcome (fst (runks BSelect sc f1)) x = outcome (fst (runks BEpoll sc f3)) x.
Proof.
  intros sc SW f1 f2 f3 H1 H2 H3 x.
  destruct (runks BSelect sc f1) as [s1 b1] eqn:R1. destruct (runks BPoll sc f2) as [s2 b2] eqn:R2.
  destruct (runks BEpoll sc f3) as [s3 b3] eqn:R3. simpl in *. subst.
  rewrite (swt_outcome sc SW _ _ _ R1 x), (swt_outcome sc SW _ _ _ R2 x), (swt_outcome sc SW _ _ _ R3 x). auto.
Qed.

Corollary agree_swt_same_fuel : forall sc fuel, swt sc = true ->
  snd (runks BSelect sc fuel) = true -> snd (runks BPoll sc fuel) = true -> snd (runks BEpoll sc fuel) = true ->
  agree sc fuel.
Proof. intros sc fuel SW H1 H2 H3 x. apply agree_swt; auto. Qed.

(* the class SW (triggers only write, in any order) *)
Theorem sw_outcome : forall sc, sw sc = true -> forall b fuel s',
  runks b sc fuel = (s', true) -> forall x, outcome s' x = spec_outcome_sw sc x.
Proof. intros sc SW. apply swt_outcome. apply sw_swt. auto. Qed.

Theorem agree_sw : forall sc, sw sc = true -> forall f1 f2 f3,
  snd (runks BSelect sc f1) = true -> snd (runks BPoll sc f2) = true -> snd (runks BEpoll sc f3) = true ->
  forall x, outcome (fst (runks BSelect sc f1)) x = outcome (fst (runks BPoll sc f2)) x /\
            outcome (fst (runks BSelect sc f1)) x = outcome (fst (runks BEpoll sc f3)) x.
Proof. intros sc SW. apply agree_swt. apply sw_swt. auto. Qed.

(* the flat class: without triggers the specification is "all phases in order" *)
Lemma spec_go_nil : forall phs E, spec_go E [] phs = do_acts (concat phs) E.
Proof.
  induction phs as [|p r IH]; intros E; simpl; auto.
  unfold settle, unf. simpl. rewrite IH, do_acts_app. auto.
Qed.

Lemma spec_sw_flat : forall sc, s_trigs sc = [] -> spec_sw sc = spec_state sc.
Proof.
  intros sc T. unfold spec_sw, spec_state. rewrite T, spec_go_nil.
  destruct (s_phases sc) as [|p r]; simpl; auto. rewrite do_acts_app. auto.
Qed.

Theorem flat_outcome : forall sc, flat sc = true -> forall b fuel s',
  runks b sc fuel = (s', true) -> forall x, outcome s' x = spec_outcome sc x.
Proof.
  intros sc FL b fuel s' R x. rewrite (sw_outcome sc (flat_sw sc FL) b fuel s' R x).
  unfold spec_outcome_sw, spec_outcome. rewrite spec_sw_flat; auto.
  unfold flat in FL. destruct (s_trigs sc); auto. discriminate.
Qed.

Theorem agree_flat : forall sc, flat sc = true -> forall f1 f2 f3,
  snd (runks BSelect sc f1) = true -> snd (runks BPoll sc f2) = true -> snd (runks BEpoll sc f3) = true ->
  forall x, outcome (fst (runks BSelect sc f1)) x = outcome (fst (runks BPoll sc f2)) x /\
            outcome (fst (runks BSelect sc f1)) x = outcome (fst (runks BEpoll sc f3)) x.
Proof. intros sc FL. apply agree_sw. apply flat_sw. auto. Qed.

(* non-vacuity: descriptors of three kinds, late adds from an idle phase, half-close and close, and
   read-callback triggers that write - including a chain 1 -> 2 -> 3, two writers into 3, a context
   writing to itself, a trigger on a context that is registered only later, and one that never
   fires - on which the three loops exit and agree with the specification *)
Definition sw_example : script :=
  mkScr 4 [(1, KPipe); (2, KUnix); (3, KTcp); (4, KPipe)]
        [[AAdd 2; AAdd 1; AWrite 1 5; AWrite 3 9; AWake];
         [AAdd 3; AWrite 2 7; AHclose 1; AWrite 1 4];
         [APclose 2; AAdd 4; AWrite 4 6; AWrite 3 1]]
        [mkT 1 3 (AWrite 2 4); mkT 2 4 (AWrite 3 2); mkT 1 5 (AWrite 3 8); mkT 3 12 (AWrite 3 1);
         mkT 3 15 (AWrite 4 2); mkT 4 8 (AWrite 1 3); mkT 2 50 (AWrite 1 1)] false [].

Example agree_sw_nonvacuous :
  sw sw_example = true /\ in_S sw_example = true /\
  snd (runks BSelect sw_example 30) = true /\ snd (runks BPoll sw_example 30) = true /\
  snd (runks BEpoll sw_example 30) = true /\
  map (outcome (fst (runks BPoll sw_example 30))) [1; 2; 3; 4] = map (spec_outcome_sw sw_example) [1; 2; 3; 4] /\
  map (spec_outcome_sw sw_example) [1; 2; 3; 4] =
    [(5, true, false); (11, true, false); (21, false, true); (8, false, true)].
Proof. vm_compute. repeat split; reflexivity. Qed.

(* non-vacuity for SWT: triggers that half-close and close peers (single source: context 1 feeds and
   then closes context 2's peer; context 3 half-closes its own peer after 10 bytes), a write after the
   terminator that must be dropped, a wake-up from a trigger, a chain through the closed context *)
Definition swt_example : script :=
  mkScr 4 [(1, KPipe); (2, KUnix); (3, KTcp); (4, KPipe)]
        [[AAdd 2; AAdd 1; AAdd 3; AWrite 1 5; AWrite 3 9];
         [AAdd 4; AWrite 1 4; AWrite 3 2];
         [AWrite 4 6; AWrite 1 1]]
        [mkT 1 2 (AWrite 2 4); mkT 2 3 (AWrite 4 2); mkT 1 6 (APclose 2);
         mkT 4 8 AWake; mkT 1 9 (AWrite 2 8); mkT 3 10 (AHclose 3)] false [].

Example agree_swt_nonvacuous :
  swt swt_example = true /\ sw swt_example = false /\
  snd (runks BSelect swt_example 30) = true /\ snd (runks BPoll swt_example 30) = true /\
  snd (runks BEpoll swt_example 30) = true /\
  map (outcome (fst (runks BSelect swt_example 30))) [1; 2; 3; 4] = map (spec_outcome_sw swt_example) [1; 2; 3; 4] /\
  map (outcome (fst (runks BPoll swt_example 30))) [1; 2; 3; 4] = map (spec_outcome_sw swt_example) [1; 2; 3; 4] /\
  map (outcome (fst (runks BEpoll swt_example 30))) [1; 2; 3; 4] = map (spec_outcome_sw swt_example) [1; 2; 3; 4].
Proof. vm_compute. repeat split; reflexivity. Qed.

Definition flat_example : script :=
  mkScr 4 [(1, KPipe); (2, KUnix); (3, KTcp); (4, KPipe)]
        [[AAdd 2; AAdd 1; AWrite 1 5; AWrite 3 9; AWake];
         [AAdd 3; AWrite 2 7; AHclose 1; AWrite 1 4];
         [APclose 2; AAdd 4; AWrite 4 6; AWrite 3 1]] [] false [].

Example agree_flat_nonvacuous :
  flat flat_example = true /\ in_S flat_example = true /\
  snd (runks BSelect flat_example 20) = true /\ snd (runks BPoll flat_example 20) = true /\
  snd (runks BEpoll flat_example 20) = true /\
  map (outcome (fst (runks BPoll flat_example 20))) [1; 2; 3; 4] =
    [(5, true, false); (7, true, false); (10, false, true); (6, false, true)].
Proof. vm_compute. repeat split; reflexivity. Qed.
