(* C13 — agreement of the three back-ends, proved for the FLAT sub-class of S: scripts without
   read-callback triggers (every action is issued before run() or from an idle phase, i.e. from the
   wake callback at quiescence), without scripted exit / shutdown, whose adds fit hints_max_fd.
   Method: each back-end's loop, run on the model's kernel function, is simulated by the
   back-end-free specification "execute all phases in order on descriptors nobody reads"; at exit
   every registered context has been offered every byte written to it and is closed iff its peer
   terminated.  The three outcomes are therefore equal. *)
From MV Require Import C13.Model C13.ProofsLife C13.ProofsIso C13.ProofsRead C13.ProofsAgree.
From Coq Require Import Permutation.

Definition flat (sc : script) : bool :=
  (match s_trigs sc with [] => true | _ => false end) &&
  forallb phase_act_ok (concat (s_phases sc)) &&
  Nat.leb (count_adds (concat (s_phases sc))) (if Nat.ltb (s_hints sc) 1 then 8 else s_hints sc).

(* the specification: all phases executed in order, nothing ever read or closed *)
Definition spec_state (sc : script) : st := do_acts (concat (s_phases sc)) (init BSelect sc).
Definition spec_outcome (sc : script) (x : nat) : nat * bool * bool :=
  let d := cx (spec_state sc) x in
  if cregok d then (cq d, ceof d, negb (ceof d)) else (0, false, false).

(* ------------------------------------------------------------------ per-context relation *)
Record PC (c d : cst) : Prop := mkPC {
  p_kind : ckind c = ckind d;
  p_tot : cq c + coff c = cq d;
  p_eof : ceof c = ceof d;
  p_po : cpopen c = cpopen d;
  p_add : cadded c = cadded d;
  p_reg : cregok c = cregok d;
  p_sht : csht c = false;
  p_shtd : csht d = false;
  p_cld : cclosed d = false;
  p_cl_eof : cclosed c = true -> ceof c = true;
  p_cl_q : cclosed c = true -> cq c = 0;
  p_po_eof : cpopen c = false -> ceof c = true;
  p_off : cregok c = false -> coff c = 0
}.

Record GC (s sg : st) : Prop := mkGC {
  g_trigs : trigs s = [];
  g_bk : bk sg = BSelect;
  g_pc : forall x, PC (cx s x) (cx sg x);
  g_reg : forall x, cregok (cx s x) = true <-> (In x (clist s) \/ cclosed (cx s x) = true)
}.

Definition Fl (s : st) : Prop := forall x, cflag (cx s x) = true -> cclosed (cx s x) = true.
Definition Flx (x : nat) (s : st) : Prop :=
  (forall z, z <> x -> cflag (cx s z) = true -> cclosed (cx s z) = true) /\
  (cflag (cx s x) = true -> ceof (cx s x) = true).

Lemma pc_can_write : forall c d, PC c d -> can_write c = can_write d.
Proof.
  intros c d []. unfold can_write. rewrite p_po0, p_sht0, p_shtd0, p_cld0.
  destruct (cclosed c) eqn:C.
  - rewrite (p_cl_eof0 eq_refl) in *. rewrite <- p_eof0. simpl.
    destruct (cpopen d); auto.
  - rewrite p_eof0. auto.
Qed.

(* the back-end tables, the trace, wk, ... do not matter for GC / Fl *)
Lemma GC_view2 : forall s s' sg sg', cx s' = cx s -> clist s' = clist s -> trigs s' = trigs s ->
  cx sg' = cx sg -> bk sg' = bk sg -> GC s sg -> GC s' sg'.
Proof. intros s s' sg sg' A B C D E []. constructor; rewrite ?A, ?B, ?C, ?D, ?E; auto. Qed.
Lemma Fl_view : forall s s', cx s' = cx s -> Fl s -> Fl s'.
Proof. intros s s' A H x. rewrite A. apply H. Qed.

(* update of one context on both sides *)
Lemma GC_upd : forall s sg y c' d' s' sg', GC s sg -> Fl s -> PC c' d' ->
  cregok c' = cregok (cx s y) -> cclosed c' = cclosed (cx s y) -> cflag c' = cflag (cx s y) ->
  cx s' = (fun z => if Nat.eqb z y then c' else cx s z) ->
  cx sg' = (fun z => if Nat.eqb z y then d' else cx sg z) ->
  clist s' = clist s -> trigs s' = trigs s -> bk sg' = bk sg ->
  GC s' sg' /\ Fl s'.
Proof.
  intros s sg y c' d' s' sg' G F P R C L E1 E2 E3 E4 E5. destruct G. split.
  - constructor; rewrite ?E1, ?E2, ?E3, ?E4, ?E5; auto.
    + intros x. destruct (Nat.eqb x y); auto.
    + intros x. destruct (Nat.eqb x y) eqn:E; auto.
      apply Nat.eqb_eq in E. subst x. rewrite R, C. auto.
  - intros x. rewrite E1. destruct (Nat.eqb x y) eqn:E; [|apply F].
    apply Nat.eqb_eq in E. subst x. rewrite L, C. apply F.
Qed.

Ltac cxeq := simpl; rewrite ?cx_edge; simpl; rewrite ?cx_edge; reflexivity.
Ltac prj := simpl; rewrite ?clist_edge, ?trigs_edge, ?bk_edge; simpl; rewrite ?clist_edge, ?trigs_edge, ?bk_edge; auto.

Lemma bk_add_ctx : forall y s, bk (fst (add_ctx y s)) = bk s.
Proof.
  intros. unfold add_ctx, backend_add. simpl. destruct (bk s) eqn:B; simpl; auto.
  - destruct (Nat.eqb _ _); simpl; auto.
  - match goal with |- context [if ?c then _ else _] => destruct c end; simpl; rewrite ?bk_edge; auto.
Qed.

(* one scripted action, executed by the loop's state and by the specification *)
Lemma lock_do_act : forall a s sg, phase_act_ok a = true -> Inv s -> GC s sg -> Fl s ->
  (bk s = BPoll -> is_add a = true -> length (parr s) < pcap s) ->
  GC (do_act a s) (do_act a sg) /\ Fl (do_act a s).
Proof.
  intros a s sg Hok I G F Hcap.
  pose proof (g_pc _ _ G) as PCx. pose proof (g_bk _ _ G) as Bsg.
  assert (SKIP : forall e e', GC (emit e s) (emit e' sg) /\ Fl (emit e s)).
  { intros. split; [eapply GC_view2; [| | | | |apply G]; auto|apply F]. }
  destruct a; try discriminate; unfold do_act.
  - (* write *)
    rewrite <- (pc_can_write _ _ (PCx y)).
    destruct (can_write (cx s y)) eqn:CW; [|apply SKIP].
    assert (NC : cclosed (cx s y) = false).
    { unfold can_write in CW. destruct (cclosed (cx s y)); auto. rewrite Bool.andb_false_r in CW. discriminate. }
    destruct (PCx y).
    destruct (Nat.eqb k 0);
      (eapply (GC_upd s sg y); [apply G|apply F| | | | |cxeq|cxeq|prj|prj|prj]);
      try (simpl; reflexivity); constructor; simpl; auto; try lia; intros; congruence.
  - (* half-close *)
    destruct (PCx y). rewrite <- p_po0, <- p_eof0.
    destruct (cpopen (cx s y) && negb (ceof (cx s y))) eqn:CW; [|apply SKIP].
    apply Bool.andb_true_iff in CW. destruct CW as [CP CE].
    eapply (GC_upd s sg y); [apply G|apply F| | | | |cxeq|cxeq|prj|prj|prj].
    all: try (simpl; reflexivity).
    constructor; simpl; auto.
    unfold is_pipe. rewrite p_kind0. auto.
  - (* close of the peer *)
    destruct (PCx y). rewrite <- p_po0.
    destruct (cpopen (cx s y)) eqn:CP; [|apply SKIP].
    assert (TE : is_tcp (cx s y) && ceof (cx s y) = is_tcp (cx sg y) && ceof (cx sg y)).
    { unfold is_tcp. rewrite p_kind0, p_eof0. auto. }
    rewrite <- TE.
    destruct (is_tcp (cx s y) && ceof (cx s y));
      (eapply (GC_upd s sg y); [apply G|apply F| | | | |cxeq|cxeq|prj|prj|prj]);
      try (simpl; reflexivity); constructor; simpl; auto.
  - (* add *)
    destruct (PCx y). rewrite <- p_add0.
    destruct (cadded (cx s y) || Nat.eqb y 0) eqn:CA; [apply SKIP|].
    apply Bool.orb_false_iff in CA. destruct CA as [CA Y0].
    set (c1 := mkC (ckind (cx s y)) _ _ _ _ _ true _ _ _).
    set (d1 := mkC (ckind (cx sg y)) _ _ _ _ _ true _ _ _).
    destruct (add_ctx_room y (updc y c1 s)) as [O1 S1].
    { simpl. intros Bp. specialize (Hcap Bp eq_refl). lia. }
    destruct (add_ctx_room y (updc y d1 sg)) as [O2 S2].
    { simpl. rewrite Bsg. discriminate. }
    destruct (add_ctx y (updc y c1 s)) as [s1 o1]. destruct (add_ctx y (updc y d1 sg)) as [s2 o2] eqn:As2.
    simpl in O1, O2, S1, S2. subst o1 o2.
    unfold shared in S1, S2. inversion S1 as [[X1 X2 X3 X4 X5 X6 X7 X8]]. inversion S2 as [[Y1 Y2 Y3 Y4 Y5 Y6 Y7 Y8]].
    clear S1 S2.
    assert (Bs2 : bk s2 = BSelect).
    { pose proof (bk_add_ctx y (updc y d1 sg)) as E. rewrite As2 in E. simpl in E. congruence. }
    assert (NC : cclosed (cx s y) = false).
    { destruct (cclosed (cx s y)) eqn:C; auto. apply (i_cladd s I) in C. congruence. }
    split.
    + constructor; simpl; rewrite ?X1, ?X2, ?X3, ?Y1; simpl; auto.
      * apply G.
      * intros x. destruct (Nat.eqb x y) eqn:E; [|apply PCx].
        apply Nat.eqb_eq in E. subst x. rewrite !Nat.eqb_refl. simpl.
        constructor; simpl; auto. intros; discriminate.
      * intros x. pose proof (g_reg _ _ G x) as R.
        destruct (Nat.eqb x y) eqn:E.
        -- apply Nat.eqb_eq in E. subst x. rewrite !Nat.eqb_refl. simpl. split; auto.
           intros _. left. apply in_or_app. right; left; auto.
        -- apply Nat.eqb_neq in E. rewrite R. split.
           ++ intros [H|H]; auto. left. apply in_or_app; auto.
           ++ intros [H|H]; auto. apply in_app_or in H. destruct H as [H|[H|[]]]; auto; congruence.
    + intros x. simpl. rewrite X1. simpl.
      destruct (Nat.eqb x y) eqn:E; [|apply F].
      apply Nat.eqb_eq in E. subst x. rewrite !Nat.eqb_refl. simpl. apply F.
  - (* wake *)
    split; [eapply GC_view2; [| | | | |apply G]; prj; try cxeq|eapply Fl_view; [|apply F]; cxeq].
Qed.

(* ------------------------------------------------------------------ frame facts for actions *)
Lemma do_act_frame : forall a s,
  bk (do_act a s) = bk s /\ pcap (do_act a s) = pcap s /\ ecap (do_act a s) = ecap s /\
  idle (do_act a s) = idle s /\
  (phase_act_ok a = true -> toexit (do_act a s) = toexit s) /\
  length (parr (do_act a s)) <= length (parr s) + (if is_add a then 1 else 0).
Proof.
  intros a s. destruct a; unfold do_act; simpl is_add.
  - destruct (can_write (cx s y)); [destruct (Nat.eqb k 0)|]; simpl; unfold edge; simpl;
      repeat match goal with |- context [if ?c then _ else _] => destruct c; simpl end; repeat split; auto; lia.
  - destruct (cpopen (cx s y) && negb (ceof (cx s y))); simpl; unfold edge; simpl;
      repeat match goal with |- context [if ?c then _ else _] => destruct c; simpl end; repeat split; auto; lia.
  - destruct (cpopen (cx s y)); [destruct (is_tcp (cx s y) && ceof (cx s y))|]; simpl; unfold edge; simpl;
      repeat match goal with |- context [if ?c then _ else _] => destruct c; simpl end; repeat split; auto; lia.
  - destruct (cadded (cx s y) || Nat.eqb y 0); [simpl; repeat split; auto; lia|].
    set (s0 := updc y _ s).
    assert (A : bk (fst (add_ctx y s0)) = bk s0 /\ pcap (fst (add_ctx y s0)) = pcap s0 /\ ecap (fst (add_ctx y s0)) = ecap s0 /\
                idle (fst (add_ctx y s0)) = idle s0 /\ toexit (fst (add_ctx y s0)) = toexit s0 /\
                length (parr (fst (add_ctx y s0))) <= length (parr s0) + 1).
    { unfold add_ctx, backend_add. simpl. destruct (bk s) eqn:B; simpl.
      - repeat split; auto; lia.
      - destruct (Nat.eqb (length (parr s)) (pcap s)); simpl; rewrite ?app_length; simpl; repeat split; auto; lia.
      - match goal with |- context [if ?c then _ else _] => destruct c end; simpl; unfold edge; simpl;
          repeat match goal with |- context [if ?c then _ else _] => destruct c; simpl end; repeat split; auto; lia. }
    destruct (add_ctx y s0) as [s1 ok]. simpl in *. destruct A as (A1 & A2 & A3 & A4 & A5 & A6).
    repeat split; auto.
  - destruct (cclosed (cx s y)); [|destruct (negb (is_pipe (cx s y)))]; simpl; unfold edge; simpl;
      repeat match goal with |- context [if ?c then _ else _] => destruct c; simpl end; repeat split; auto; lia.
  - simpl. unfold edge; simpl. repeat match goal with |- context [if ?c then _ else _] => destruct c; simpl end; repeat split; auto; lia.
  - simpl. repeat split; auto; try lia; intros; discriminate.
Qed.

(* a whole phase, with the capacity budget K reserved for the phases still to come *)
Lemma lock_do_acts : forall l s sg K, forallb phase_act_ok l = true -> Inv s -> GC s sg -> Fl s ->
  (bk s = BPoll -> length (parr s) + count_adds l + K <= pcap s) ->
  Inv (do_acts l s) /\ GC (do_acts l s) (do_acts l sg) /\ Fl (do_acts l s) /\
  (bk s = BPoll -> length (parr (do_acts l s)) + K <= pcap s) /\
  bk (do_acts l s) = bk s /\ pcap (do_acts l s) = pcap s /\ ecap (do_acts l s) = ecap s /\
  idle (do_acts l s) = idle s /\ toexit (do_acts l s) = toexit s.
Proof.
  induction l as [|a l IH]; intros s sg K Hok I G F Hcap; simpl.
  - split; [auto|]. split; [auto|]. split; [auto|]. split; [|repeat split; auto].
    intros B. specialize (Hcap B). unfold count_adds in Hcap. simpl in Hcap. lia.
  - simpl in Hok. apply Bool.andb_true_iff in Hok. destruct Hok as [Ha Hl].
    rewrite count_adds_cons in Hcap.
    destruct (do_act_frame a s) as (F1 & F2 & F3 & F4 & F5 & F6).
    destruct (lock_do_act a s sg Ha I G F) as [G1 Fl1].
    { intros B A. specialize (Hcap B). rewrite A in Hcap. lia. }
    destruct (Inv_do_act a s I) as [I1 _].
    destruct (IH (do_act a s) (do_act a sg) K Hl I1 G1 Fl1) as (A1 & A2 & A3 & A4 & A5 & A6 & A7 & A8 & A9).
    { rewrite F1, F2. intros B. specialize (Hcap B). destruct (is_add a); lia. }
    split; [auto|]. split; [auto|]. split; [auto|]. split; [rewrite <- F2; rewrite F1 in A4; auto|].
    rewrite A5, A6, A7, A8, A9, F1, F2, F3, F4, (F5 Ha). repeat split; auto.
Qed.

(* ------------------------------------------------------------------ a visit *)

(* ------------------------------------------------------------------ a visit *)
Definition rd_ctx (c : cst) : cst :=
  mkC (ckind c) 0 (ceof c) (cpopen c) (csht c)
      (cflag c || (if is_pipe c then ceof c else ceof c || csht c))
      (cadded c) (cregok c) (cclosed c) (coff c + cq c).

(* read callback in the flat class: no trigger fires *)
Lemma cb_read_flat : forall x s, trigs s = [] ->
  cb_read x s = set_trigs [] (emit (ERead x (cq (cx s x))) (updc x (rd_ctx (cx s x)) s)).
Proof. intros x s H. unfold cb_read, rd_ctx. simpl. rewrite H. simpl. reflexivity. Qed.

Lemma Fl_clist : forall s x, Inv s -> Fl s -> In x (clist s) -> cflag (cx s x) = false.
Proof.
  intros s x I F H. destruct (cflag (cx s x)) eqn:E; auto.
  apply F in E. destruct (i_reg s I x H) as (_ & _ & C). congruence.
Qed.

Lemma gc_cb_read : forall x s sg, GC s sg -> Fl s -> Inv s -> In x (clist s) ->
  GC (cb_read x s) sg /\ Flx x (cb_read x s) /\
  cflag (cx (cb_read x s) x) = ceof (cx s x) /\
  (cflag (cx (cb_read x s) x) = false -> events_c (cx (cb_read x s) x) = 0).
Proof.
  intros x s sg G F I Hin. rewrite (cb_read_flat x s (g_trigs _ _ G)).
  pose proof (g_pc _ _ G x) as P. destruct P.
  pose proof (Fl_clist s x I F Hin) as NF.
  assert (RG : cregok (cx s x) = true) by (apply (g_reg _ _ G); auto).
  assert (FE : cflag (rd_ctx (cx s x)) = ceof (cx s x)).
  { unfold rd_ctx. simpl. rewrite NF, p_sht0. simpl. destruct (is_pipe (cx s x)); auto. apply Bool.orb_false_r. }
  split; [|split; [|split]].
  - destruct G. constructor; simpl; auto.
    + intros z. destruct (Nat.eqb z x) eqn:E; auto. apply Nat.eqb_eq in E. subst z.
      unfold rd_ctx. constructor; simpl; auto; try lia. intros; congruence.
    + intros z. destruct (Nat.eqb z x) eqn:E; auto. apply Nat.eqb_eq in E. subst z.
      unfold rd_ctx. simpl. apply g_reg0.
  - split.
    + intros z Hz. simpl. apply Nat.eqb_neq in Hz. rewrite Hz. apply F.
    + simpl. rewrite Nat.eqb_refl. rewrite FE. unfold rd_ctx. simpl. auto.
  - simpl. rewrite Nat.eqb_refl. auto.
  - simpl. rewrite Nat.eqb_refl. rewrite FE. intros CE.
    unfold events_c, ev_in, ev_hup, rd_ctx. simpl. rewrite CE, p_sht0.
    destruct (cpopen (cx s x)) eqn:PO; [|rewrite (p_po_eof0 eq_refl) in CE; discriminate].
    destruct (ckind (cx s x)); simpl; auto.
Qed.

Lemma hup_eof : forall c d, PC c d -> ev_hup c = true -> ceof c = true.
Proof.
  intros c d [] H. unfold ev_hup in H. rewrite p_sht0 in H.
  destruct (ckind c); auto.
  - rewrite Bool.orb_false_r in H. apply Bool.negb_true_iff in H. auto.
  - discriminate.
Qed.

Lemma gc_set_flag : forall x s sg, GC s sg -> Flx x s -> ceof (cx s x) = true ->
  GC (set_flag x s) sg /\ Flx x (set_flag x s).
Proof.
  intros x s sg G [F1 F2] CE. unfold set_flag. split.
  - destruct G. constructor; simpl; auto.
    + intros z. destruct (Nat.eqb z x) eqn:E; auto. apply Nat.eqb_eq in E. subst z.
      destruct (g_pc0 x). constructor; simpl; auto.
    + intros z. destruct (Nat.eqb z x) eqn:E; auto. apply Nat.eqb_eq in E. subst z. simpl. apply g_reg0.
  - split.
    + intros z Hz. simpl. apply Nat.eqb_neq in Hz. rewrite Hz. apply F1; auto. apply Nat.eqb_neq; auto.
    + simpl. rewrite Nat.eqb_refl. simpl. auto.
Qed.

Lemma Flx_Fl : forall x s, Flx x s -> cflag (cx s x) = false -> Fl s.
Proof.
  intros x s [F1 F2] H z Hz. destruct (Nat.eq_dec z x) as [->|N]; [congruence|auto].
Qed.

Lemma Fl_Flx : forall x s, Fl s -> Inv s -> In x (clist s) -> Flx x s.
Proof.
  intros x s F I H. split; [intros z _; apply F|].
  intros C. rewrite (Fl_clist s x I F H) in C. discriminate.
Qed.

(* close callback + removal from ctx_list, whatever the back-end does to its tables *)
Lemma gc_close : forall x s sg s', GC s sg -> Flx x s -> cflag (cx s x) = true -> In x (clist s) ->
  cq (cx s x) = 0 ->
  cx s' = cx (cb_close x s) -> clist s' = rm x (clist s) -> trigs s' = trigs s ->
  GC s' sg /\ Fl s'.
Proof.
  intros x s sg s' G [F1 F2] CF Hin CQ E1 E2 E3. destruct G. split.
  - constructor; rewrite ?E1, ?E2, ?E3; simpl; auto.
    + intros z. destruct (Nat.eqb z x) eqn:E; auto. apply Nat.eqb_eq in E. subst z.
      destruct (g_pc0 x). constructor; simpl; auto.
    + intros z. destruct (Nat.eqb z x) eqn:E.
      * apply Nat.eqb_eq in E. subst z. simpl. split; auto. intros _. apply g_reg0. auto.
      * apply Nat.eqb_neq in E. rewrite g_reg0. split.
        -- intros [H|H]; auto. left. apply rm_In. auto.
        -- intros [H|H]; auto. apply rm_In in H. tauto.
  - intros z. rewrite E1. simpl. destruct (Nat.eqb z x) eqn:E; auto.
    apply Nat.eqb_neq in E. apply F1; auto.
Qed.

(* quiet descriptor *)
Lemma events_zero : forall c d, PC c d -> events_c c = 0 -> cq c = 0 /\ ceof c = false.
Proof.
  intros c d [] H. unfold events_c, ev_in, ev_hup in H. rewrite p_sht0 in H.
  destruct (ckind c).
  - destruct (Nat.ltb 0 (cq c)) eqn:Q; destruct (ceof c); simpl in H; try discriminate.
    apply Nat.ltb_ge in Q. split; auto; lia.
  - destruct (Nat.ltb 0 (cq c)) eqn:Q; destruct (ceof c); simpl in H; try discriminate.
    apply Nat.ltb_ge in Q. split; auto; lia.
  - destruct (Nat.ltb 0 (cq c)) eqn:Q; destruct (ceof c); simpl in H; try discriminate.
    apply Nat.ltb_ge in Q. split; auto; lia.
Qed.

(* ------------------------------------------------------------------ the invariant of a flat run *)
Definition Quiet (s : st) : Prop := forall x, In x (clist s) -> events_c (cx s x) = 0.

Section FlatRun.
Variable sgfin : st.     (* the specification's final state *)

Record GI (s sg : st) : Prop := mkGI {
  gi_inv : Inv s;
  gi_gc : GC s sg;
  gi_fl : Fl s;
  gi_ph : forallb phase_act_ok (concat (phases s)) = true;
  gi_cap : bk s = BPoll -> length (parr s) + count_adds (concat (phases s)) <= pcap s;
  gi_fin : do_acts (concat (phases s)) sg = sgfin
}.

Lemma do_acts_app : forall l1 l2 s, do_acts (l1 ++ l2) s = do_acts l2 (do_acts l1 s).
Proof. intros. unfold do_acts. apply fold_left_app. Qed.

(* the wake callback: plain, or idle = next phase / exit *)
Lemma hw_GI : forall s sg, GI s sg -> toexit s = false ->
  exists sg',
    Inv (handle_wakeup s) /\ GC (handle_wakeup s) sg' /\ Fl (handle_wakeup s) /\
    forallb phase_act_ok (concat (phases (handle_wakeup s))) = true /\
    (bk s = BPoll -> length (parr (handle_wakeup s)) + count_adds (concat (phases (handle_wakeup s))) <= pcap s) /\
    do_acts (concat (phases (handle_wakeup s))) sg' = sgfin /\
    idle (handle_wakeup s) = false /\
    bk (handle_wakeup s) = bk s /\ pcap (handle_wakeup s) = pcap s /\ ecap (handle_wakeup s) = ecap s /\
    ext s (handle_wakeup s) /\
    (idle s = false -> sg' = sg /\ toexit (handle_wakeup s) = false /\ cx (handle_wakeup s) = cx s /\
                       clist (handle_wakeup s) = clist s /\ phases (handle_wakeup s) = phases s) /\
    (toexit (handle_wakeup s) = true ->
       sg' = sg /\ phases (handle_wakeup s) = [] /\ cx (handle_wakeup s) = cx s /\ clist (handle_wakeup s) = clist s).
Proof.
  intros s sg [I G F PH CAP FIN] EX.
  destruct (Inv_handle_wakeup s I) as [IW EW].
  unfold handle_wakeup in *.
  set (s1 := emit EWake (set_wk 0 s)) in *.
  assert (G1 : GC s1 sg) by (eapply GC_view2; [| | | | |apply G]; auto).
  assert (F1 : Fl s1) by (eapply Fl_view; [|apply F]; auto).
  destruct (idle s1) eqn:ID.
  - set (s2 := set_idle false s1) in *.
    assert (G2 : GC s2 sg) by (eapply GC_view2; [| | | | |apply G1]; auto).
    assert (F2 : Fl s2) by (eapply Fl_view; [|apply F1]; auto).
    assert (I2 : Inv s2).
    { eapply Inv_view; [apply sv_set_idle|]. apply Inv_emit_quiet; [exact Logic.I|].
      eapply Inv_view; [apply sv_set_wk|auto]. }
    assert (IDs : idle s = true) by (simpl in ID; auto).
    destruct (phases s2) as [|p rest] eqn:P; simpl in P.
    + (* after the last phase: exit *)
      exists sg. split; auto.
      split; [eapply GC_view2; [| | | | |apply G2]; auto|].
      split; [eapply Fl_view; [|apply F2]; auto|].
      split; [simpl; rewrite P; auto|].
      split; [simpl; rewrite P; intros B; specialize (CAP B); rewrite P in CAP; auto|].
      split; [simpl; rewrite P; rewrite P in FIN; auto|].
      split; [simpl; auto|]. split; [simpl; auto|]. split; [simpl; auto|]. split; [simpl; auto|].
      split; [auto|]. split; [intros C; congruence|].
      intros _. simpl. rewrite P. auto.
    + (* the next phase *)
      rewrite P in PH, CAP, FIN. simpl in PH, CAP, FIN.
      rewrite forallb_app in PH. apply Bool.andb_true_iff in PH. destruct PH as [PH1 PH2].
      rewrite count_adds_app in CAP.
      set (s3 := set_phases rest s2) in *.
      assert (I3 : Inv s3) by (eapply Inv_view; [apply sv_set_phases|auto]).
      assert (G3 : GC s3 sg) by (eapply GC_view2; [| | | | |apply G2]; auto).
      assert (F3 : Fl s3) by (eapply Fl_view; [|apply F2]; auto).
      destruct (lock_do_acts p s3 sg (count_adds (concat rest)) PH1 I3 G3 F3) as (A1 & A2 & A3 & A4 & A5 & A6 & A7 & A8 & A9).
      { simpl. intros B. specialize (CAP B). lia. }
      destruct (do_acts_facts p s3) as (_ & D2 & _ & _).
      exists (do_acts p sg). split; auto. split; auto. split; auto.
      split; [rewrite D2; simpl; auto|].
      split; [rewrite D2; simpl; intros B; specialize (A4 B); simpl in A4; auto|].
      split; [rewrite D2; simpl; rewrite <- do_acts_app; auto|].
      split; [rewrite A8; simpl; auto|]. split; [rewrite A5; simpl; auto|].
      split; [rewrite A6; simpl; auto|]. split; [rewrite A7; simpl; auto|].
      split; [auto|]. split; [intros C; congruence|].
      rewrite A9. simpl. intros C. congruence.
  - exists sg. split; auto. split; auto. split; auto. split; [simpl; auto|].
    split; [simpl; intros B; apply CAP; auto|]. split; [simpl; auto|].
    split; [auto|]. split; [auto|]. split; [auto|]. split; [auto|]. split; [auto|].
    split.
    + intros _. simpl. repeat split; auto.
    + simpl. intros C. congruence.
Qed.

(* ------------------------------------------------------------------ generic visit steps *)
Record frame (s s' : st) : Prop := mkFr {
  fr_clist : clist s' = clist s; fr_phases : phases s' = phases s; fr_toexit : toexit s' = toexit s;
  fr_idle : idle s' = idle s; fr_bk : bk s' = bk s; fr_pcap : pcap s' = pcap s; fr_ecap : ecap s' = ecap s;
  fr_parr : parr s' = parr s; fr_sset : sset s' = sset s; fr_ereg : ereg s' = ereg s;
  fr_erdl : erdl s' = erdl s; fr_wk : wk s' = wk s
}.
Lemma frame_refl : forall s, frame s s. Proof. intros; constructor; auto. Qed.
Lemma frame_trans : forall a b c, frame a b -> frame b c -> frame a c.
Proof. intros a b c [] []. constructor; congruence. Qed.

Lemma visit_read : forall (rd : bool) x s sg, Inv s -> GC s sg -> Fl s -> In x (clist s) ->
  let s1 := if rd then cb_read x s else s in
  Inv s1 /\ GC s1 sg /\ Flx x s1 /\ frame s s1 /\ (forall z, z <> x -> cx s1 z = cx s z) /\
  (events_c (cx s x) = 0 -> cflag (cx s1 x) = false -> events_c (cx s1 x) = 0) /\
  (rd = true -> cflag (cx s1 x) = false -> events_c (cx s1 x) = 0) /\
  ceof (cx s1 x) = ceof (cx s x) /\ ckind (cx s1 x) = ckind (cx s x) /\ cpopen (cx s1 x) = cpopen (cx s x) /\
  ext s s1 /\ (cflag (cx s1 x) = true -> cq (cx s1 x) = 0) /\ (rd = false -> cx s1 x = cx s x) /\
  (rd = true -> cq (cx s1 x) = 0).
Proof.
  intros rd x s sg I G F Hin. destruct rd; cbv zeta.
  - destruct (gc_cb_read x s sg G F I Hin) as (A & B & C & D).
    destruct (Inv_cb_read x s I Hin) as (I1 & E1 & _).
    split; auto. split; auto. split; auto.
    rewrite (cb_read_flat x s (g_trigs _ _ G)) in *.
    split; [constructor; simpl; auto|].
    split; [intros z Hz; simpl; apply Nat.eqb_neq in Hz; rewrite Hz; auto|].
    split; [intros _; apply D|]. split; [intros _; apply D|].
    split; [simpl; rewrite Nat.eqb_refl; auto|]. split; [simpl; rewrite Nat.eqb_refl; auto|].
    split; [simpl; rewrite Nat.eqb_refl; auto|]. split; [auto|].
    split; [simpl; rewrite Nat.eqb_refl; auto|]. split; [intros; discriminate|].
    simpl; rewrite Nat.eqb_refl; auto.
  - split; auto. split; auto. split; [apply Fl_Flx; auto|]. split; [apply frame_refl|].
    split; auto. split; auto. split; [intros; discriminate|]. split; [auto|]. split; [auto|]. split; [auto|].
    split; [apply ext_refl|]. split; [intros C; rewrite (Fl_clist s x I F Hin) in C; discriminate|].
    split; [auto|intros; discriminate].
Qed.

Lemma visit_flag : forall (fl : bool) x s sg, Inv s -> GC s sg -> Flx x s ->
  (fl = true -> ceof (cx s x) = true) ->
  let s2 := if fl then set_flag x s else s in
  Inv s2 /\ GC s2 sg /\ Flx x s2 /\ frame s s2 /\ (forall z, z <> x -> cx s2 z = cx s z) /\
  (cflag (cx s2 x) = false -> cx s2 x = cx s x) /\ tr s2 = tr s /\ cq (cx s2 x) = cq (cx s x).
Proof.
  intros fl x s sg I G F H. destruct fl; cbv zeta.
  - destruct (gc_set_flag x s sg G F (H eq_refl)) as [A B].
    destruct (Inv_set_flag x s I) as [I2 _].
    split; auto. split; auto. split; auto. unfold set_flag.
    split; [constructor; simpl; auto|].
    split; [intros z Hz; simpl; apply Nat.eqb_neq in Hz; rewrite Hz; auto|].
    simpl. rewrite Nat.eqb_refl. simpl. split; [intros; discriminate|auto].
  - split; auto. split; auto. split; auto. split; [apply frame_refl|]. split; auto.
Qed.

Lemma visit_close : forall x s sg s', Inv s -> GC s sg -> Flx x s -> cflag (cx s x) = true -> In x (clist s) ->
  cq (cx s x) = 0 ->
  cx s' = cx (cb_close x s) -> clist s' = rm x (clist s) -> trigs s' = trigs s ->
  GC s' sg /\ Fl s' /\
  ((forall z, In z (clist s) -> z <> x -> events_c (cx s z) = 0) -> Quiet s').
Proof.
  intros x s sg s' I G F CF Hin CQ E1 E2 E3.
  destruct (gc_close x s sg s' G F CF Hin CQ E1 E2 E3) as [A B]. split; auto. split; auto.
  intros Q z Hz. rewrite E2 in Hz. apply rm_In in Hz. destruct Hz as [Hz Hne].
  rewrite E1. simpl. apply Nat.eqb_neq in Hne. rewrite Hne. apply Q; auto. apply Nat.eqb_neq; auto.
Qed.

(* ------------------------------------------------------------------ select *)
Lemma sel_walk_GI : forall f i rep s sg, Inv s -> GC s sg -> Fl s -> bk s = BSelect ->
  Inv (sel_walk f i rep s) /\ GC (sel_walk f i rep s) sg /\ Fl (sel_walk f i rep s) /\
  phases (sel_walk f i rep s) = phases s /\ toexit (sel_walk f i rep s) = toexit s /\
  idle (sel_walk f i rep s) = idle s /\ bk (sel_walk f i rep s) = bk s /\
  (In 0 (sset s) -> In 0 (sset (sel_walk f i rep s))) /\
  (Quiet s -> Quiet (sel_walk f i rep s)).
Proof.
  induction f as [|f IH]; intros i rep s sg I G F B; simpl.
  - split; [auto|]. split; [auto|]. split; [auto|]. repeat split; auto.
  - destruct (nth_error (clist s) i) as [x|] eqn:N; [|split; [auto|]; split; [auto|]; split; [auto|]; repeat split; auto].
    pose proof (nth_error_In _ _ N) as Hin.
    destruct (visit_read (negb (Nat.eqb (lookup x rep) 0)) x s sg I G F Hin) as (I1 & G1 & F1 & FR & O1 & Q1 & _ & _ & _ & _ & _ & CQ1 & _ & _).
    set (s1 := if negb (Nat.eqb (lookup x rep) 0) then cb_read x s else s) in *.
    destruct FR.
    assert (Hin1 : In x (clist s1)) by (rewrite fr_clist0; auto).
    assert (X0 : x <> 0) by (apply (i_reg s I x Hin)).
    destruct (cflag (cx s1 x)) eqn:CF.
    + set (s2 := cb_close x (set_sset (rm x (sset s1)) s1)).
      set (s3 := set_clist (rm x (clist s2)) s2).
      assert (I3 : Inv s3).
      { unfold s3, s2. eapply (Inv_close_gen x (set_sset (rm x (sset s1)) s1)); simpl; auto.
        - eapply Inv_view; [apply sv_set_sset|auto].
        - intros z. destruct (Nat.eqb z x) eqn:E; auto. apply Nat.eqb_eq in E; subst; auto.
        - intros z. destruct (Nat.eqb z x); auto.
        - rewrite fr_bk0, B. discriminate.
        - rewrite fr_bk0, B. discriminate. }
      destruct (visit_close x s1 sg s3 I1 G1 F1 CF Hin1 (CQ1 eq_refl)) as (G3 & F3 & Q3); auto.
      destruct (IH i rep s3 sg I3 G3 F3) as (A1 & A2 & A3 & A4 & A5 & A6 & A7 & A8 & A9).
      { unfold s3, s2. simpl. congruence. }
      change (set_clist (rm x (clist s1)) s2) with s3.
      split; auto. split; auto. split; auto.
      split; [rewrite A4; unfold s3, s2; simpl; auto|].
      split; [rewrite A5; unfold s3, s2; simpl; auto|].
      split; [rewrite A6; unfold s3, s2; simpl; auto|].
      split; [rewrite A7; unfold s3, s2; simpl; auto|].
      split.
      * intros H0. apply A8. unfold s3, s2. simpl. apply rm_In. split; [rewrite fr_sset0; auto|auto].
      * intros Q. apply A9. apply Q3. intros z Hz Hne. rewrite O1 by auto. apply Q. rewrite <- fr_clist0. auto.
    + set (s2 := set_sset (add_set x (sset s1)) s1).
      assert (I2 : Inv s2) by (eapply Inv_view; [apply sv_set_sset|auto]).
      assert (G2 : GC s2 sg) by (eapply GC_view2; [| | | | |apply G1]; auto).
      assert (F2 : Fl s2) by (eapply Fl_view; [|eapply Flx_Fl; eauto]; auto).
      destruct (IH (S i) rep s2 sg I2 G2 F2) as (A1 & A2 & A3 & A4 & A5 & A6 & A7 & A8 & A9).
      { unfold s2. simpl. congruence. }
      fold s2. split; auto. split; auto. split; auto.
      split; [rewrite A4; unfold s2; simpl; auto|].
      split; [rewrite A5; unfold s2; simpl; auto|].
      split; [rewrite A6; unfold s2; simpl; auto|].
      split; [rewrite A7; unfold s2; simpl; auto|].
      split.
      * intros H0. apply A8. unfold s2. simpl. apply add_set_incl. rewrite fr_sset0. auto.
      * intros Q. apply A9. intros z Hz. unfold s2 in *. simpl in *. rewrite fr_clist0 in Hz.
        destruct (Nat.eq_dec z x) as [->|Hne]; [apply Q1; auto|rewrite O1; auto].
Qed.

Lemma add_set_self : forall x l, In x (add_set x l).
Proof.
  intros. unfold add_set. destruct (mem x l) eqn:E; [apply mem_In; auto|apply in_or_app; right; left; auto].
Qed.

Definition cov (i : nat) (s : st) : Prop :=
  forall k x, k < i -> nth_error (clist s) k = Some x -> In x (sset s).

(* after a complete walk every context still in ctx_list is in the rebuilt allset *)
Lemma sel_walk_cov : forall f i rep s, Inv s -> bk s = BSelect -> trigs s = [] -> cov i s ->
  length (clist s) - i < f ->
  forall x, In x (clist (sel_walk f i rep s)) -> In x (sset (sel_walk f i rep s)).
Proof.
  induction f as [|f IH]; intros i rep s I B T C Hf; [lia|].
  simpl. destruct (nth_error (clist s) i) as [y|] eqn:N.
  - pose proof (nth_error_In _ _ N) as Hy.
    assert (Hi : i < length (clist s)) by (apply nth_error_Some; congruence).
    set (s1 := if negb (Nat.eqb (lookup y rep) 0) then cb_read y s else s).
    assert (H1 : Inv s1 /\ clist s1 = clist s /\ sset s1 = sset s /\ trigs s1 = [] /\ bk s1 = BSelect).
    { unfold s1. destruct (negb _); [|auto].
      destruct (Inv_cb_read y s I Hy) as (A & _). split; auto.
      rewrite (cb_read_flat y s T). simpl. auto. }
    destruct H1 as (I1 & L1 & S1 & T1 & B1).
    destruct (cflag (cx s1 y)).
    + set (s2 := cb_close y (set_sset (rm y (sset s1)) s1)).
      set (s3 := set_clist (rm y (clist s2)) s2).
      assert (I3 : Inv s3).
      { unfold s3, s2. eapply (Inv_close_gen y (set_sset (rm y (sset s1)) s1)); simpl; auto.
        - eapply Inv_view; [apply sv_set_sset|auto].
        - rewrite L1; auto.
        - intros z. destruct (Nat.eqb z y) eqn:E; auto. apply Nat.eqb_eq in E; subst; auto.
        - intros z. destruct (Nat.eqb z y); auto.
        - rewrite B1. discriminate.
        - rewrite B1. discriminate. }
      assert (N1 : nth_error (clist s1) i = Some y) by (rewrite L1; auto).
      destruct (nth_error_rm (clist s1) i y (i_nodup s1 I1) N1) as [R1 _].
      change (set_clist (rm y (clist s1)) s2) with s3.
      apply IH; auto.
      * unfold s3, s2. simpl. intros k x Hk Nk. rewrite R1 in Nk by auto.
        apply rm_In. split.
        -- rewrite S1. apply (C k x); auto. rewrite <- L1. auto.
        -- intro; subst x. assert (k = i); [|lia].
           eapply (proj1 (NoDup_nth_error _) (i_nodup s1 I1)); [apply nth_error_Some; congruence|congruence].
      * unfold s3, s2. simpl.
        pose proof (rm_perm y (clist s1) (i_nodup s1 I1) (nth_error_In _ _ N1)) as P.
        apply Permutation_length in P. simpl in P. rewrite L1 in *. lia.
    + apply IH.
      * eapply Inv_view; [apply sv_set_sset|auto].
      * simpl. auto.
      * simpl. auto.
      * intros k x Hk Nk. simpl in *. rewrite L1 in Nk.
        destruct (Nat.eq_dec k i) as [->|Hne].
        -- assert (x = y) by congruence. subst. apply add_set_self.
        -- apply add_set_incl. rewrite S1. apply (C k x); auto. lia.
      * simpl. rewrite L1. lia.
  - intros x Hx. destruct (In_nth_error _ _ Hx) as [k Nk].
    apply (C k x); auto. apply nth_error_None in N.
    assert (k < length (clist s)) by (apply nth_error_Some; congruence). lia.
Qed.

Lemma wk_edge : forall x s, wk (edge x s) = wk s.
Proof. intros. unfold edge. destruct (_ && _); auto. Qed.
Lemma idle_edge : forall x s, idle (edge x s) = idle s.
Proof. intros. unfold edge. destruct (_ && _); auto. Qed.
Lemma toexit_edge : forall x s, toexit (edge x s) = toexit s.
Proof. intros. unfold edge. destruct (_ && _); auto. Qed.
Lemma pcap_edge : forall x s, pcap (edge x s) = pcap s.
Proof. intros. unfold edge. destruct (_ && _); auto. Qed.

Lemma GI_inject : forall s sg, GI s sg -> GI (inject s) sg.
Proof.
  intros s sg [I G F PH CAP FIN]. unfold inject. constructor.
  - eapply Inv_view; [apply sv_inject|auto].
  - eapply GC_view2; [| | | | |apply G]; simpl; rewrite ?cx_edge, ?clist_edge, ?trigs_edge; auto.
  - eapply Fl_view; [|apply F]. simpl. rewrite cx_edge. auto.
  - simpl. rewrite phases_edge. auto.
  - simpl. rewrite bk_edge, parr_edge, phases_edge, pcap_edge. auto.
  - simpl. rewrite phases_edge. auto.
Qed.

Lemma Quiet_view : forall s s', cx s' = cx s -> clist s' = clist s -> Quiet s -> Quiet s'.
Proof. intros s s' A B Q x Hx. rewrite A. apply Q. rewrite <- B. auto. Qed.

Definition BSel (s : st) : Prop :=
  In 0 (sset s) /\ (forall x, In x (clist s) -> In x (sset s)) /\ no_stale s.

Lemma sel_dispatch_core : forall rep n s sg, GI s sg -> toexit s = false -> bk s = BSelect ->
  Nat.ltb 0 n = true ->
  exists sg', GI (dispatch_select rep n s) sg' /\ BSel (dispatch_select rep n s) /\
    bk (dispatch_select rep n s) = BSelect /\
    (Nat.eqb (lookup 0 rep) 0 = false -> idle (dispatch_select rep n s) = false) /\
    (idle s = false -> idle (dispatch_select rep n s) = false /\ toexit (dispatch_select rep n s) = false) /\
    (toexit (dispatch_select rep n s) = true ->
       phases (dispatch_select rep n s) = [] /\ (Quiet s -> Quiet (dispatch_select rep n s))).
Proof.
  intros rep n s sg GIs EX B Hn.
  pose proof (iso_select_rebuild rep n s Hn) as NS.
  unfold dispatch_select in *. rewrite Hn in *.
  set (s1 := set_sset [] s) in *.
  assert (GI1 : GI s1 sg).
  { destruct GIs as [I G F PH CAP FIN]. constructor; simpl; auto.
    - eapply Inv_view; [apply sv_set_sset|auto].
    - eapply GC_view2; [| | | | |apply G]; auto. }
  assert (exists sg' s2, s2 = (if negb (Nat.eqb (lookup 0 rep) 0) then handle_wakeup s1 else s1) /\
            GI s2 sg' /\ bk s2 = BSelect /\
            (Nat.eqb (lookup 0 rep) 0 = false -> idle s2 = false) /\
            (idle s = false -> idle s2 = false /\ toexit s2 = false) /\
            (toexit s2 = true -> phases s2 = [] /\ (Quiet s -> Quiet s2))) as (sg' & s2 & E2 & GI2 & B2 & ID2 & NI2 & EX2).
  { destruct (Nat.eqb (lookup 0 rep) 0) eqn:L0; simpl.
    - exists sg, s1. split; auto. split; auto. split; auto. split; [intros; discriminate|].
      split; [intros H; simpl; auto|]. simpl. intros C. congruence.
    - destruct (hw_GI s1 sg GI1 EX) as (sg' & A1 & A2 & A3 & A4 & A5 & A6 & A7 & A8 & A9 & A10 & A11 & A12 & A13).
      exists sg', (handle_wakeup s1). split; auto.
      split; [constructor; auto; rewrite A8, A9; auto|].
      split; [rewrite A8; auto|]. split; [auto|].
      split.
      + intros H. split; auto. apply (A12 H).
      + intros C. destruct (A13 C) as (_ & P & X1 & X2). split; auto.
        intros Q. eapply Quiet_view; [apply X1|apply X2|]. eapply Quiet_view; [| |apply Q]; auto. }
  rewrite <- E2 in *.
  set (s3 := set_sset (add_set 0 (sset s2)) s2) in *.
  destruct GI2 as [I2 G2 F2 PH2 CAP2 FIN2].
  assert (I3 : Inv s3) by (eapply Inv_view; [apply sv_set_sset|auto]).
  assert (G3 : GC s3 sg') by (eapply GC_view2; [| | | | |apply G2]; auto).
  assert (F3 : Fl s3) by (eapply Fl_view; [|apply F2]; auto).
  destruct (sel_walk_GI (walk_fuel s3) 0 rep s3 sg' I3 G3 F3 B2) as (W1 & W2 & W3 & W4 & W5 & W6 & W7 & W8 & W9).
  exists sg'. split; [|split; [|split; [|split; [|split]]]].
  - constructor; auto.
    + rewrite W4. auto.
    + rewrite W7. simpl. rewrite B2. discriminate.
    + rewrite W4. auto.
  - split; [apply W8; simpl; apply add_set_self|]. split; [|auto].
    apply sel_walk_cov; auto.
    + apply G3.
    + intros k x Hk. lia.
    + rewrite walk_fuel_meas. unfold meas. lia.
  - rewrite W7. auto.
  - intros H. rewrite W6. simpl. auto.
  - intros H. rewrite W6, W5. simpl. auto.
  - rewrite W5, W4. simpl. intros C. destruct (EX2 C) as [P Q]. split; auto.
Qed.

Lemma lookup_map1 : forall x l, In x l -> lookup x (map (fun y => (y, 1)) l) = 1.
Proof.
  intros x l. unfold lookup. induction l as [|a l IH]; intros H; [destruct H|].
  simpl. destruct (Nat.eqb a x) eqn:E; auto.
  destruct H as [->|H]; [rewrite Nat.eqb_refl in E; discriminate|auto].
Qed.

Lemma Q_sel : forall s sg, GI s sg -> BSel s -> bk s = BSelect -> kern s = [] -> Quiet s.
Proof.
  intros s sg GIs (H0 & HC & _) B K x Hx. unfold kern in K. rewrite B in K.
  apply map_eq_nil in K.
  assert (In x (sset s)) as Hs by auto.
  destruct (nz (events s x)) eqn:E.
  - assert (In x (filter (fun x => nz (events s x)) (sset s))) as C by (apply filter_In; auto).
    rewrite K in C. destruct C.
  - unfold nz in E. apply Bool.negb_false_iff, Nat.eqb_eq in E.
    unfold events in E. assert (x <> 0) as X0 by (apply (i_reg s (gi_inv _ _ GIs) x Hx)).
    apply Nat.eqb_neq in X0. rewrite X0 in E. auto.
Qed.

Lemma sel_iter : forall s sg, GI s sg -> toexit s = false -> idle s = false -> bk s = BSelect -> BSel s ->
  exists sg', GI (iter (kern_o s) s) sg' /\ BSel (iter (kern_o s) s) /\
    idle (iter (kern_o s) s) = false /\ bk (iter (kern_o s) s) = BSelect /\
    (toexit (iter (kern_o s) s) = true -> phases (iter (kern_o s) s) = [] /\ Quiet (iter (kern_o s) s)).
Proof.
  intros s sg GIs EX ID B BS. unfold iter, kern_o.
  destruct (kern s) as [|p r] eqn:K.
  - (* idle: the harness wakes the loop up *)
    pose proof (Q_sel s sg GIs BS B K) as Q.
    simpl. unfold dispatch.
    assert (Bi : bk (inject s) = BSelect) by (unfold inject; simpl; rewrite bk_edge; auto).
    rewrite Bi.
    assert (K0 : In 0 (filter (fun x => nz (events (inject s) x)) (sset (inject s)))).
    { apply filter_In. split.
      - unfold inject. simpl. rewrite sset_edge. simpl. apply (proj1 BS).
      - unfold events, inject. simpl. rewrite wk_edge. simpl. auto. }
    assert (KI : kern (inject s) = map (fun x => (x, 1)) (filter (fun x => nz (events (inject s) x)) (sset (inject s)))).
    { unfold kern. rewrite Bi. auto. }
    destruct (sel_dispatch_core (kern (inject s)) (length (kern (inject s))) (inject s) sg (GI_inject s sg GIs)) as (sg' & A1 & A2 & A3 & A4 & A5 & A6).
    + unfold inject. simpl. rewrite toexit_edge. auto.
    + auto.
    + apply Nat.ltb_lt. rewrite KI, map_length. destruct (filter _ _); [destruct K0|simpl; lia].
    + exists sg'. split; auto. split; auto. split.
      * apply A4. rewrite KI, lookup_map1; auto.
      * split; auto. intros C. destruct (A6 C) as [P Qs]. split; auto. apply Qs.
        eapply Quiet_view; [| |apply Q]; unfold inject; simpl; rewrite ?cx_edge, ?clist_edge; auto.
  - simpl. unfold dispatch. rewrite B.
    destruct (sel_dispatch_core (p :: r) (S (length r)) s sg GIs EX B eq_refl) as (sg' & A1 & A2 & A3 & A4 & A5 & A6).
    destruct (A5 ID) as [A51 A52].
    exists sg'. split; auto. split; auto. split; auto. split; auto. intros C. congruence.
Qed.

(* ------------------------------------------------------------------ the whole run, any back-end *)
Definition iter_ok (BI : st -> Prop) (b : backend) : Prop :=
  forall s sg, GI s sg -> toexit s = false -> idle s = false -> bk s = b -> BI s ->
  exists sg', GI (iter (kern_o s) s) sg' /\ BI (iter (kern_o s) s) /\
    idle (iter (kern_o s) s) = false /\ bk (iter (kern_o s) s) = b /\
    (toexit (iter (kern_o s) s) = true -> phases (iter (kern_o s) s) = [] /\ Quiet (iter (kern_o s) s)).

Lemma runk_flat : forall BI b, iter_ok BI b ->
  forall fuel s sg s', GI s sg -> toexit s = false -> idle s = false -> bk s = b -> BI s ->
  runk fuel s = (s', true) ->
  exists s1, s' = finish s1 /\ GI s1 sgfin /\ Quiet s1.
Proof.
  intros BI b OK. induction fuel as [|f IH]; intros s sg s' GIs EX ID B BIs R; simpl in R; [discriminate|].
  destruct (OK s sg GIs EX ID B BIs) as (sg' & A1 & A2 & A3 & A4 & A5).
  destruct (toexit (iter (kern_o s) s)) eqn:T.
  - inversion R; subst s'. destruct (A5 eq_refl) as [P Q].
    exists (iter (kern_o s) s). split; auto. split; auto.
    pose proof (gi_fin _ _ A1) as FIN. rewrite P in FIN. simpl in FIN. subst sg'. auto.
  - eapply IH; eauto.
Qed.

Lemma clear_iff : forall s x, Inv s -> existsb (is_clear_of x) (tr (finish s)) = true <-> In x (clist s).
Proof.
  intros s x I. rewrite finish_tr. simpl. rewrite existsb_app. split.
  - intros H. apply Bool.orb_true_iff in H. destruct H as [H|H].
    + apply existsb_exists in H. destruct H as (e & He & E).
      apply in_rev, in_map_iff in He. destruct He as (y & <- & Hy). simpl in E.
      apply Nat.eqb_eq in E. subst; auto.
    + apply existsb_exists in H. destruct H as (e & He & E).
      destruct e; simpl in E; try discriminate. exfalso.
      destruct (i_loop s I) as [_ NC]. eapply NC; eauto.
  - intros H. apply Bool.orb_true_iff. left. apply existsb_exists.
    exists (EClear x). split; [apply in_rev; rewrite rev_involutive; apply in_map; auto|].
    simpl. apply Nat.eqb_refl.
Qed.

Lemma finish_cx : forall s, cx (finish s) = cx s.
Proof.
  intros s. unfold finish. simpl.
  assert (forall l s0, cx (fold_left (fun s x => emit (EClear x) s) l s0) = cx s0) as F.
  { induction l as [|a l IH]; intros s0; simpl; auto. rewrite IH. auto. }
  apply F.
Qed.

(* at exit every context has the outcome the specification computes *)
Lemma final_outcome : forall s x, GI s sgfin -> Quiet s ->
  outcome (finish s) x =
  (let d := cx sgfin x in if cregok d then (cq d, ceof d, negb (ceof d)) else (0, false, false)).
Proof.
  intros s x [I G F _ _ _] Q. unfold outcome. rewrite finish_cx.
  pose proof (g_pc _ _ G x) as P. pose proof (g_reg _ _ G x) as R. destruct P.
  cbv zeta. rewrite <- p_reg0.
  destruct (cregok (cx s x)) eqn:RG.
  - destruct (proj1 R eq_refl) as [Hin|Hc].
    + (* still registered: everything delivered, peer alive, cleared *)
      destruct (events_zero _ _ (g_pc _ _ G x) (Q x Hin)) as [Q0 E0].
      destruct (i_reg s I x Hin) as (_ & _ & NC).
      assert (existsb (is_clear_of x) (tr (finish s)) = true) as -> by (apply clear_iff; auto).
      rewrite NC, <- p_eof0, E0. simpl. f_equal. f_equal. lia.
    + (* closed: everything delivered before the close *)
      assert (~ In x (clist s)) as NI.
      { intro H. destruct (i_reg s I x H) as (_ & _ & NC). congruence. }
      assert (existsb (is_clear_of x) (tr (finish s)) = false) as ->.
      { destruct (existsb (is_clear_of x) (tr (finish s))) eqn:E; auto.
        apply clear_iff in E; auto. contradiction. }
      rewrite Hc, <- p_eof0, (p_cl_eof0 Hc). simpl. f_equal. f_equal.
      pose proof (p_cl_q0 Hc). lia.
  - assert (cclosed (cx s x) = false) as NC.
    { destruct (cclosed (cx s x)) eqn:C; auto. assert (false = true); [|discriminate]. apply R. right; auto. }
    assert (~ In x (clist s)) as NI.
    { intro H. assert (false = true); [|discriminate]. apply R. auto. }
    assert (existsb (is_clear_of x) (tr (finish s)) = false) as ->.
    { destruct (existsb (is_clear_of x) (tr (finish s))) eqn:E; auto.
      apply clear_iff in E; auto. contradiction. }
    rewrite NC, (p_off0 eq_refl). auto.
Qed.

(* ------------------------------------------------------------------ poll *)
(* what a reported revents value says about the descriptor (kernel truth, kept until the visit) *)
Definition Htc (re : nat) (c : cst) : Prop :=
  has_hup_err re = true -> ceof c = true /\ (has_in re = false -> cq c = 0).

Lemma events_c_bits : forall c, has_in (events_c c) = ev_in c /\ has_hup_err (events_c c) = ev_hup c.
Proof. intros c. unfold events_c. destruct (ev_in c), (ev_hup c); simpl; auto. Qed.

Lemma ev_in_false_q : forall c, ev_in c = false -> cq c = 0.
Proof.
  intros c H. unfold ev_in in H. destruct (ckind c).
  - apply Nat.ltb_ge in H. lia.
  - apply Bool.orb_false_iff in H. destruct H as [H _]. apply Bool.orb_false_iff in H. destruct H as [H _].
    apply Nat.ltb_ge in H. lia.
  - apply Bool.orb_false_iff in H. destruct H as [H _]. apply Bool.orb_false_iff in H. destruct H as [H _].
    apply Nat.ltb_ge in H. lia.
Qed.

Lemma Htc_events : forall c d, PC c d -> Htc (events_c c) c.
Proof.
  intros c d P H. destruct (events_c_bits c) as [A B]. rewrite B in H.
  split; [eapply hup_eof; eauto|]. rewrite A. apply ev_in_false_q.
Qed.

Lemma Htc_zero : forall c, Htc 0 c.
Proof. intros c H. discriminate. Qed.

Lemma lookup_kern_poll : forall s x, bk s = BPoll -> lookup x (kern s) = 0 \/ lookup x (kern s) = events s x.
Proof.
  intros s x B. unfold kern. rewrite B. unfold lookup.
  induction (parr s) as [|p l IH]; simpl; auto.
  destruct (nz (events s (fst p))); simpl; auto.
  destruct (Nat.eqb (fst p) x) eqn:E; auto. apply Nat.eqb_eq in E. subst. auto.
Qed.

Definition PHt (k : nat) (s : st) : Prop :=
  forall j x re, 1 <= j -> j < k -> nth_error (parr s) j = Some (x, re) -> Htc re (cx s x).

Lemma poll_ids_nodup : forall s, Inv s -> bk s = BPoll -> NoDup (map fst (parr s)).
Proof.
  intros s I B. destruct (i_poll s I B) as [_ HP].
  eapply Permutation_NoDup; [symmetry; apply HP|]. constructor; [|apply (i_nodup s I)].
  intro C. apply (i_reg s I) in C. destruct C; congruence.
Qed.

(* one context slot, busy pass *)
Lemma poll_slot_GI : forall i n s sg, GI s sg -> bk s = BPoll -> 1 <= i -> PHt (S i) s ->
  GI (fst (poll_step i n s)) sg /\ bk (fst (poll_step i n s)) = BPoll /\
  idle (fst (poll_step i n s)) = idle s /\ toexit (fst (poll_step i n s)) = toexit s /\
  pcap (fst (poll_step i n s)) = pcap s /\ PHt i (fst (poll_step i n s)) /\
  (Quiet s -> Quiet (fst (poll_step i n s))).
Proof.
  intros i n s sg GIs B Hi HT.
  destruct (Inv_poll_step i n s (gi_inv _ _ GIs) B) as [IP BP].
  destruct GIs as [I G F PH CAP FIN].
  unfold poll_step in *.
  assert (Nat.eqb i 0 = false) as E0 by (apply Nat.eqb_neq; lia). rewrite E0 in *.
  destruct (nth_error (parr s) i) as [[x re]|] eqn:N.
  2:{ simpl. split; [constructor; auto|]. split; [auto|]. split; [auto|]. split; [auto|]. split; [auto|].
      split; [|auto]. intros j y r H1 H2. apply HT; auto. }
  destruct (Inv_poll_step_close s x re i I B Hi N) as [Hin _].
  pose proof (HT i x re Hi ltac:(lia) N) as HTx.
  destruct (visit_read (has_in re) x s sg I G F Hin) as (I1 & G1 & F1 & FR1 & O1 & Q1 & _ & CE1 & _ & _ & E1 & CQ1 & NR1 & RQ1).
  assert (exists s1 n1, (if has_in re then (cb_read x s, n - 1) else (s, n)) = (s1, n1) /\
            s1 = (if has_in re then cb_read x s else s)) as (s1 & n1 & EQ1 & ES1).
  { destruct (has_in re); eexists; eexists; split; reflexivity. }
  rewrite EQ1 in *. rewrite <- ES1 in *. clear EQ1.
  destruct (visit_flag (has_hup_err re) x s1 sg I1 G1 F1) as (I2 & G2 & F2 & FR2 & O2 & NF2 & T2 & CQ2).
  { intros H. rewrite CE1. apply (HTx H). }
  assert (exists s2 n2, (if has_hup_err re then (set_flag x s1, n1 - 1) else (s1, n1)) = (s2, n2) /\
            s2 = (if has_hup_err re then set_flag x s1 else s1)) as (s2 & n2 & EQ2 & ES2).
  { destruct (has_hup_err re); eexists; eexists; split; reflexivity. }
  rewrite EQ2 in *. rewrite <- ES2 in *. clear EQ2.
  pose proof (frame_trans _ _ _ FR1 FR2) as FR. destruct FR.
  assert (ND : NoDup (map fst (parr s))) by (apply poll_ids_nodup; auto).
  assert (OTH : forall j y r, 1 <= j -> j < i -> nth_error (parr s) j = Some (y, r) -> y <> x).
  { intros j y r H1 H2 Nj ->.
    assert (nth_error (map fst (parr s)) i = Some x) by (rewrite nth_error_map, N; auto).
    assert (nth_error (map fst (parr s)) j = Some x) by (rewrite nth_error_map, Nj; auto).
    assert (i = j); [|lia].
    eapply (proj1 (NoDup_nth_error _) ND); [rewrite map_length; apply nth_error_Some; congruence|congruence]. }
  assert (CXO : forall z, z <> x -> cx s2 z = cx s z) by (intros z Hz; rewrite O2, O1; auto).
  destruct (cflag (cx s2 x)) eqn:CF; cbv zeta; simpl fst in *.
  - (* closed and removed by swap-with-last *)
    set (s3 := cb_close x s2) in *. set (s4 := set_clist (rm x (clist s3)) s3) in *.
    set (s5 := set_parr (poll_remove i (parr s4)) s4) in *.
    assert (Hin2 : In x (clist s2)) by (rewrite fr_clist0; auto).
    assert (CQ : cq (cx s2 x) = 0).
    { rewrite CQ2. destruct (has_in re) eqn:HI; [apply RQ1; auto|].
      rewrite (NR1 eq_refl). destruct (has_hup_err re) eqn:HH.
      - apply (proj2 (HTx HH)). auto.
      - (* not read, not flagged by HUP: it cannot be flagged at all *)
        exfalso. rewrite ES2, ES1 in CF. rewrite (Fl_clist s x I F Hin) in CF. discriminate. }
    destruct (visit_close x s2 sg s5 I2 G2 F2 CF Hin2 CQ) as (G5 & F5 & Q5); auto.
    split; [constructor; auto|].
    + unfold s5, s4, s3. simpl. rewrite fr_phases0. auto.
    + unfold s5, s4, s3. simpl. rewrite fr_phases0, fr_pcap0, fr_parr0. intros Bp. specialize (CAP B).
      assert (length (poll_remove i (parr s)) <= length (parr s)); [|lia].
      pose proof (poll_remove_perm _ _ _ N) as P. apply Permutation_length in P. simpl in P. lia.
    + unfold s5, s4, s3. simpl. rewrite fr_phases0. auto.
    + split; auto. unfold s5, s4, s3. simpl. split; auto. split; auto. split; auto. split.
      * intros j y r H1 H2 Nj. simpl in Nj. rewrite ?fr_parr0 in Nj.
        rewrite poll_remove_lower in Nj; [|lia|apply nth_error_Some; congruence].
        pose proof (OTH j y r H1 H2 Nj) as Hy. simpl. apply Nat.eqb_neq in Hy. rewrite Hy.
        apply Nat.eqb_neq in Hy. rewrite CXO by auto. apply (HT j y r); auto.
      * intros Q. apply Q5. intros z Hz Hne. rewrite CXO by auto. apply Q. rewrite <- fr_clist0. auto.
  - (* kept *)
    assert (F2' : Fl s2) by (eapply Flx_Fl; eauto).
    split; [constructor; auto|].
    + rewrite fr_phases0. auto.
    + rewrite fr_bk0, fr_parr0, fr_phases0, fr_pcap0. auto.
    + rewrite fr_phases0. auto.
    + split; auto. split; auto. split; auto. split; auto. split.
      * intros j y r H1 H2 Nj. rewrite fr_parr0 in Nj.
        rewrite CXO by (eapply OTH; eauto). apply (HT j y r); auto.
      * intros Q z Hz. rewrite fr_clist0 in Hz.
        destruct (Nat.eq_dec z x) as [->|Hne]; [|rewrite CXO; auto].
        rewrite (NF2 eq_refl). apply Q1; auto.
        rewrite <- (NF2 eq_refl). auto.
Qed.

Lemma poll_walk_busy : forall k n s sg, GI s sg -> bk s = BPoll -> idle s = false -> toexit s = false ->
  PHt k s ->
  GI (poll_walk k n s) sg /\ bk (poll_walk k n s) = BPoll /\ idle (poll_walk k n s) = false /\
  toexit (poll_walk k n s) = false.
Proof.
  induction k as [|i IH]; intros n s sg GIs B ID EX HT; simpl; [auto|].
  destruct (Nat.eq_dec i 0) as [->|Hi].
  - (* the signal slot *)
    unfold poll_step. simpl Nat.eqb. cbv iota.
    assert (exists s', s' = (if has_in (snd (nth 0 (parr s) (0, 0))) then handle_wakeup s else s) /\
              GI s' sg /\ bk s' = BPoll /\ idle s' = false /\ toexit s' = false) as (s' & E' & A).
    { eexists; split; [reflexivity|]. destruct (has_in _); [|auto].
      destruct (hw_GI s sg GIs EX) as (sg' & A1 & A2 & A3 & A4 & A5 & A6 & A7 & A8 & A9 & A10 & A11 & A12 & A13).
      destruct (A12 ID) as (-> & T & _).
      split; [constructor; auto; rewrite A8, A9; auto|]. rewrite A8. auto. }
    rewrite <- E'. destruct (Nat.eqb n 0); simpl; auto.
  - destruct (poll_slot_GI i n s sg GIs B ltac:(lia) HT) as (A1 & A2 & A3 & A4 & A5 & A6 & _).
    destruct (poll_step i n s) as [s' n']. simpl in *.
    destruct (Nat.eqb n' 0).
    + rewrite A3, A4. auto.
    + apply IH; auto; congruence.
Qed.

Lemma has_bits_zero : has_in 0 = false /\ has_hup_err 0 = false.
Proof. split; reflexivity. Qed.

(* a pass in which no context slot carries an event only serves the signal slot *)
Lemma poll_walk_quiet_slots : forall k n s, Inv s -> Fl s -> bk s = BPoll ->
  (forall j x re, 1 <= j -> j < k -> nth_error (parr s) j = Some (x, re) -> re = 0) ->
  n <> 0 -> 1 <= k -> poll_walk k n s = fst (poll_step 0 n s).
Proof.
  induction k as [|i IH]; intros n s I F B Z Hn Hk; [lia|].
  cbn [poll_walk]. destruct (Nat.eq_dec i 0) as [->|Hi].
  - destruct (poll_step 0 n s) as [s' n']. cbn [fst poll_walk]. destruct (Nat.eqb n' 0); auto.
  - assert (poll_step i n s = (s, n)) as ->.
    { unfold poll_step. assert (Nat.eqb i 0 = false) as -> by (apply Nat.eqb_neq; lia).
      destruct (nth_error (parr s) i) as [[x re]|] eqn:N; auto.
      pose proof (Z i x re ltac:(lia) ltac:(lia) N) as Zr. subst re.
      destruct has_bits_zero as [-> ->].
      destruct (Inv_poll_step_close s x 0 i I B ltac:(lia) N) as [Hin _].
      rewrite (Fl_clist s x I F Hin). auto. }
    apply Nat.eqb_neq in Hn. rewrite Hn. apply Nat.eqb_neq in Hn.
    apply IH; auto; try lia. intros j x re H1 H2. apply Z; auto.
Qed.

Lemma Q_poll : forall s sg, GI s sg -> bk s = BPoll -> kern s = [] -> Quiet s.
Proof.
  intros s sg GIs B K x Hx. unfold kern in K. rewrite B in K.
  destruct (i_poll s (gi_inv _ _ GIs) B) as [_ HP].
  assert (In x (map fst (parr s))) as Hs.
  { eapply Permutation_in; [symmetry; apply HP|]. right; auto. }
  apply in_map_iff in Hs. destruct Hs as (p & E & Hp).
  destruct (nz (events s x)) eqn:N.
  - assert (In (fst p, events s (fst p)) (filter (fun p => nz (snd p)) (map (fun p => (fst p, events s (fst p))) (parr s)))) as C.
    { apply filter_In. split; [apply in_map_iff; exists p; auto|simpl; rewrite E; auto]. }
    rewrite K in C. destruct C.
  - unfold nz in N. apply Bool.negb_false_iff, Nat.eqb_eq in N.
    unfold events in N. assert (x <> 0) as X0 by (apply (i_reg s (gi_inv _ _ GIs) x Hx)).
    apply Nat.eqb_neq in X0. rewrite X0 in N. auto.
Qed.

Lemma lookup_kern_poll_in : forall s x, bk s = BPoll -> In x (map fst (parr s)) -> nz (events s x) = true ->
  lookup x (kern s) = events s x.
Proof.
  intros s x B. unfold kern. rewrite B. unfold lookup.
  induction (parr s) as [|p l IH]; simpl; intros H N; [destruct H|].
  destruct (nz (events s (fst p))) eqn:E; simpl.
  - destruct (Nat.eqb (fst p) x) eqn:Ex; [apply Nat.eqb_eq in Ex; subst; auto|].
    apply IH; auto. destruct H as [H|H]; auto. apply Nat.eqb_neq in Ex. contradiction.
  - apply IH; auto. destruct H as [H|H]; auto. subst. congruence.
Qed.

Lemma GI_set_parr_rev : forall s sg f, GI s sg -> GI (set_parr (map (fun p => (fst p, f (fst p))) (parr s)) s) sg.
Proof.
  intros s sg f [I G F PH CAP FIN]. constructor; simpl; auto.
  - eapply Inv_view; [|apply I]. constructor; simpl; auto. rewrite map_map. simpl. auto.
  - eapply GC_view2; [| | | | |apply G]; auto.
  - rewrite map_length. auto.
Qed.

Lemma poll_step0 : forall n s,
  fst (poll_step 0 n s) = if has_in (snd (nth 0 (parr s) (0, 0))) then handle_wakeup s else s.
Proof. intros. unfold poll_step. simpl. destruct (has_in _); auto. Qed.

Lemma nth0_map : forall (f : nat -> nat) (l : list (nat * nat)), hd_error (map fst l) = Some 0 ->
  snd (nth 0 (map (fun p => (fst p, f (fst p))) l) (0, 0)) = f 0.
Proof. intros f l H. destruct l as [|q l]; simpl in *; [discriminate|]. inversion H as [H1]. rewrite H1. auto. Qed.

Lemma poll_iter : iter_ok (fun _ => True) BPoll.
Proof.
  intros s sg GIs EX ID B _. unfold iter, kern_o.
  destruct (kern s) as [|p r] eqn:K.
  - (* idle *)
    pose proof (Q_poll s sg GIs B K) as Q.
    simpl. unfold dispatch.
    assert (Bi : bk (inject s) = BPoll) by (unfold inject; simpl; rewrite bk_edge; auto).
    rewrite Bi. unfold dispatch_poll.
    set (s0 := inject s) in *. set (rep := kern s0).
    pose proof (GI_inject s sg GIs) as GI0. fold s0 in GI0.
    assert (P0 : parr s0 = parr s) by (unfold s0, inject; simpl; rewrite parr_edge; auto).
    assert (CX0 : cx s0 = cx s) by (unfold s0, inject; simpl; rewrite cx_edge; auto).
    assert (CL0 : clist s0 = clist s) by (unfold s0, inject; simpl; rewrite clist_edge; auto).
    assert (EV0 : events s0 0 = 1) by (unfold events, s0, inject; simpl; rewrite wk_edge; simpl; auto).
    destruct (i_poll s0 (gi_inv _ _ GI0) Bi) as [HD HP].
    assert (IN0 : In 0 (map fst (parr s0))) by (destruct (map fst (parr s0)); simpl in HD; [discriminate|inversion HD; left; auto]).
    assert (L0 : lookup 0 rep = 1).
    { unfold rep. rewrite lookup_kern_poll_in; auto. rewrite EV0. auto. }
    assert (LX : forall x, In x (clist s) -> lookup x rep = 0).
    { intros x Hx. destruct (lookup_kern_poll s0 x Bi) as [E|E]; auto. fold rep in E. rewrite E.
      unfold events. assert (x <> 0) as X0 by (apply (i_reg s (gi_inv _ _ GIs) x Hx)).
      apply Nat.eqb_neq in X0. rewrite X0, CX0. apply Q; auto. }
    assert (NR : length rep <> 0).
    { unfold rep, kern. rewrite Bi.
      assert (In (0, events s0 0) (filter (fun p => nz (snd p)) (map (fun p => (fst p, events s0 (fst p))) (parr s0)))) as C.
      { apply filter_In. split; [|simpl; rewrite EV0; auto].
        apply in_map_iff in IN0. destruct IN0 as (q & E & Hq). apply in_map_iff. exists q. rewrite E. auto. }
      destruct (filter _ _); [destruct C|simpl; lia]. }
    assert (Nat.ltb 0 (length rep) = true) as -> by (apply Nat.ltb_lt; lia).
    set (s1 := set_parr _ s0).
    pose proof (GI_set_parr_rev s0 sg (fun x => lookup x rep) GI0) as GI1. fold s1 in GI1.
    assert (B1 : bk s1 = BPoll) by auto.
    rewrite poll_walk_quiet_slots; auto; try apply GI1.
    + (* the wake callback runs the next phase or exits *)
      rewrite poll_step0.
      assert (snd (nth 0 (parr s1) (0, 0)) = 1) as ->.
      { change (parr s1) with (map (fun p => (fst p, lookup (fst p) rep)) (parr s0)).
        rewrite (nth0_map (fun x => lookup x rep)); auto. }
      change (has_in 1) with true. cbv iota.
      assert (EX1 : toexit s1 = false) by (unfold s1, s0, inject; simpl; rewrite toexit_edge; auto).
      destruct (hw_GI s1 sg GI1 EX1) as (sg' & A1 & A2 & A3 & A4 & A5 & A6 & A7 & A8 & A9 & A10 & A11 & A12 & A13).
      exists sg'. split; [constructor; auto; rewrite A8, A9; auto|]. split; auto. split; auto.
      split; [rewrite A8; auto|].
      intros C. destruct (A13 C) as (_ & PHe & X1 & X2). split; auto.
      eapply Quiet_view; [apply X1|apply X2|]. eapply Quiet_view; [| |apply Q]; unfold s1; simpl; auto.
    + intros j x re H1 H2 Nj.
      change (parr s1) with (map (fun p => (fst p, lookup (fst p) rep)) (parr s0)) in Nj. rewrite nth_error_map in Nj.
      destruct (nth_error (parr s0) j) as [[y ry]|] eqn:Ny; [|discriminate]. simpl in Nj. inversion Nj; subst.
      apply LX. rewrite <- CL0.
      destruct (Inv_poll_step_close s0 x ry j (gi_inv _ _ GI0) Bi H1 Ny) as [Hin _]. auto.
    + change (parr s1) with (map (fun p => (fst p, lookup (fst p) rep)) (parr s0)). rewrite map_length.
      destruct (parr s0); [destruct IN0|simpl; lia].
  - (* busy *)
    simpl. unfold dispatch. rewrite B. unfold dispatch_poll.
    set (rep := p :: r) in *. cbv beta.
    change (Nat.ltb 0 (S (length r))) with true. cbv iota.
    set (s1 := set_parr _ s).
    pose proof (GI_set_parr_rev s sg (fun x => lookup x rep) GIs) as GI1. fold s1 in GI1.
    assert (HT : PHt (length (parr s1)) s1).
    { intros j x re H1 H2 Nj.
      change (parr s1) with (map (fun p => (fst p, lookup (fst p) rep)) (parr s)) in Nj. rewrite nth_error_map in Nj.
      destruct (nth_error (parr s) j) as [[y ry]|] eqn:Ny; [|discriminate]. simpl in Nj. inversion Nj; subst.
      destruct (Inv_poll_step_close s x ry j (gi_inv _ _ GIs) B H1 Ny) as [Hin _].
      assert (x <> 0) as X0 by (apply (i_reg s (gi_inv _ _ GIs) x Hin)).
      unfold s1. simpl.
      destruct (lookup_kern_poll s x B) as [E|E]; rewrite K in E; fold rep in E; rewrite E.
      - apply Htc_zero.
      - unfold events. apply Nat.eqb_neq in X0. rewrite X0.
        eapply Htc_events. apply (g_pc _ _ (gi_gc _ _ GIs)). }
    destruct (poll_walk_busy (length (parr s1)) (S (length r)) s1 sg GI1) as (A1 & A2 & A3 & A4); auto.
    exists sg. split; auto. split; auto. split; auto. split; auto. intros C. congruence.
Qed.

(* ------------------------------------------------------------------ epoll: the ready list *)
(* every registered descriptor with events is on the ready list, or among the events already
   harvested and still to be served in this batch ([pend]) *)
Record EP (pend : list nat) (s : st) : Prop := mkEP {
  ep_nd : NoDup (erdl s);
  ep_sub : forall z, In z (erdl s) -> In z (ereg s);
  ep_edge : forall z, In z (ereg s) -> events s z <> 0 -> In z (erdl s) \/ In z pend
}.

Lemma erdl_edge_cases : forall x s,
  (erdl (edge x s) = erdl s /\ (In x (ereg s) -> In x (erdl s))) \/
  (erdl (edge x s) = erdl s ++ [x] /\ In x (ereg s) /\ ~ In x (erdl s)).
Proof.
  intros x s. unfold edge. destruct (mem x (ereg s)) eqn:A; destruct (mem x (erdl s)) eqn:B; simpl.
  - left. split; auto. intros _. apply mem_In; auto.
  - right. split; auto. split; [apply mem_In; auto|]. intro C. apply mem_In in C. congruence.
  - left. split; auto. intros C. apply mem_In in C. congruence.
  - left. split; auto. intros C. apply mem_In in C. congruence.
Qed.

Lemma events_edge : forall x s z, events (edge x s) z = events s z.
Proof. intros. unfold events. rewrite wk_edge, cx_edge. auto. Qed.

(* an operation that may raise the events of y only, followed by the wake-up of y *)
Lemma EP_touch : forall pend y s s1, ereg s1 = ereg s -> erdl s1 = erdl s ->
  (forall z, z <> y -> events s1 z = events s z) -> EP pend s -> EP pend (edge y s1).
Proof.
  intros pend y s s1 E1 E2 EV [ND SUB ED].
  destruct (erdl_edge_cases y s1) as [[A B]|(A & B & C)]; constructor; rewrite ?A, ?ereg_edge, ?E1, ?E2 in *.
  - auto.
  - auto.
  - intros z Hz Hev. rewrite events_edge in Hev.
    destruct (Nat.eq_dec z y) as [->|N]; [left; apply B; auto|]. rewrite EV in Hev by auto. auto.
  - eapply Permutation_NoDup; [apply Permutation_cons_append|]. constructor; auto.
  - intros z Hz. apply in_app_or in Hz. destruct Hz as [Hz|[<-|[]]]; auto.
  - intros z Hz Hev. rewrite events_edge in Hev.
    destruct (Nat.eq_dec z y) as [->|N]; [left; apply in_or_app; right; left; auto|].
    rewrite EV in Hev by auto. destruct (ED z Hz Hev); auto. left. apply in_or_app; auto.
Qed.

Lemma EP_same : forall pend s s1, ereg s1 = ereg s -> erdl s1 = erdl s ->
  (forall z, events s1 z = events s z) -> EP pend s -> EP pend s1.
Proof.
  intros pend s s1 E1 E2 EV [ND SUB ED]. constructor; rewrite ?E1, ?E2; auto.
  intros z Hz Hev. rewrite EV in Hev. auto.
Qed.

Lemma events_updc : forall y c s z, z <> y -> events (updc y c s) z = events s z.
Proof. intros. unfold events. simpl. apply Nat.eqb_neq in H. rewrite H. auto. Qed.

Lemma events_updc_same : forall y c s, events_c c = events_c (cx s y) -> forall z, events (updc y c s) z = events s z.
Proof.
  intros y c s H z. unfold events. simpl. destruct (Nat.eqb z 0); auto.
  destruct (Nat.eqb z y) eqn:E; auto. apply Nat.eqb_eq in E. subst. auto.
Qed.

Lemma events_emit : forall e s z, events (emit e s) z = events s z.
Proof. intros. reflexivity. Qed.

Lemma EP_do_act : forall a pend s, phase_act_ok a = true -> bk s = BEpoll -> EP pend s -> EP pend (do_act a s).
Proof.
  intros a pend s Hok B E. destruct a; try discriminate; unfold do_act.
  - (* write *)
    destruct (can_write (cx s y)); [|eapply EP_same; [| | |apply E]; auto].
    destruct (Nat.eqb k 0) eqn:K.
    + apply Nat.eqb_eq in K. subst k. eapply EP_same; [| | |apply E]; simpl; auto.
      intros z. rewrite events_emit, (events_updc_same y); auto. simpl.
      unfold events_c, ev_in, ev_hup. simpl. rewrite Nat.add_0_r. auto.
    + eapply EP_same; [| | |eapply (EP_touch pend y s); [| | |apply E]]; simpl; auto;
        try (rewrite ?ereg_edge; reflexivity); try (intros z Hz; apply events_updc; auto).
  - (* half-close *)
    destruct (cpopen (cx s y) && negb (ceof (cx s y))); [|eapply EP_same; [| | |apply E]; auto].
    eapply EP_same; [| | |eapply (EP_touch pend y s); [| | |apply E]]; simpl; auto;
        try (rewrite ?ereg_edge; reflexivity); try (intros z Hz; apply events_updc; auto).
  - (* close of the peer *)
    destruct (cpopen (cx s y)); [|eapply EP_same; [| | |apply E]; auto].
    destruct (is_tcp (cx s y) && ceof (cx s y)) eqn:TC.
    + apply Bool.andb_true_iff in TC. destruct TC as [T C].
      eapply EP_same; [| | |apply E]; simpl; auto.
      intros z. rewrite events_emit, (events_updc_same y); auto.
      unfold events_c, ev_in, ev_hup, is_tcp in *. simpl. destruct (ckind (cx s y)); try discriminate.
      rewrite C. auto.
    + eapply EP_same; [| | |eapply (EP_touch pend y s); [| | |apply E]]; simpl; auto;
        try (rewrite ?ereg_edge; reflexivity); try (intros z Hz; apply events_updc; auto).
  - (* add *)
    destruct (cadded (cx s y) || Nat.eqb y 0); [eapply EP_same; [| | |apply E]; auto|].
    set (c1 := mkC _ _ _ _ _ _ true _ _ _).
    set (s0 := updc y c1 s).
    assert (E0 : EP pend s0).
    { eapply EP_same; [| | |apply E]; auto. intros z. apply events_updc_same. auto. }
    unfold add_ctx, backend_add. simpl. rewrite B.
    set (s1 := set_ereg (ereg s ++ [y]) (set_clist (clist s ++ [y]) s0)).
    assert (E1 : EP pend (if Nat.eqb (events s1 y) 0 then s1 else edge y s1)).
    { destruct E0 as [ND SUB ED].
      destruct (Nat.eqb (events s1 y) 0) eqn:EV.
      - apply Nat.eqb_eq in EV. constructor; simpl; auto.
        + intros z Hz. apply in_or_app. left. apply SUB. auto.
        + intros z Hz Hev. apply in_app_or in Hz. destruct Hz as [Hz|[<-|[]]]; [apply ED; auto|contradiction].
      - destruct (erdl_edge_cases y s1) as [[A C]|(A & C & D)]; constructor; rewrite ?A, ?ereg_edge; simpl; auto.
        + intros z Hz. apply in_or_app. left. apply SUB. auto.
        + intros z Hz Hev. rewrite events_edge in Hev. apply in_app_or in Hz.
          destruct Hz as [Hz|[<-|[]]]; [apply ED; auto|]. left. apply C. simpl. apply in_or_app. right; left; auto.
        + eapply Permutation_NoDup; [apply Permutation_cons_append|]. constructor; auto.
        + intros z Hz. apply in_app_or in Hz. destruct Hz as [Hz|[<-|[]]].
          * apply in_or_app. left. apply SUB. auto.
          * apply in_or_app. right; left; auto.
        + intros z Hz Hev. rewrite events_edge in Hev. apply in_app_or in Hz.
          destruct Hz as [Hz|[<-|[]]].
          * destruct (ED z Hz Hev); auto. left. apply in_or_app; auto.
          * left. apply in_or_app. right; left; auto. }
    destruct (Nat.eqb (events s1 y) 0); simpl;
      (eapply EP_same; [| | |apply E1]; simpl; auto; intros z; apply events_updc_same; simpl;
       rewrite ?cx_edge; simpl; rewrite Nat.eqb_refl; auto).
  - (* wake *)
    eapply EP_same; [| | |eapply (EP_touch pend 0 s); [| | |apply E]]; simpl; auto;
      try (rewrite ?ereg_edge; reflexivity).
    intros z Hz. unfold events. apply Nat.eqb_neq in Hz. rewrite Hz. auto.
Qed.

Lemma EP_do_acts : forall l pend s, forallb phase_act_ok l = true -> bk s = BEpoll -> EP pend s ->
  EP pend (do_acts l s).
Proof.
  induction l as [|a l IH]; intros pend s Hok B E; simpl; auto.
  simpl in Hok. apply Bool.andb_true_iff in Hok. destruct Hok as [Ha Hl].
  apply IH; auto.
  - destruct (do_act_frame a s) as (F1 & _). congruence.
  - apply EP_do_act; auto.
Qed.

(* once the peer's write side is shut nothing more arrives *)
Lemma dead_do_act : forall a s y, ceof (cx s y) = true ->
  ceof (cx (do_act a s) y) = true /\ cq (cx (do_act a s) y) = cq (cx s y).
Proof.
  intros a s y CE. destruct a; unfold do_act.
  - destruct (can_write (cx s y0)) eqn:CW; [|simpl; auto].
    assert (y <> y0) as N.
    { intro; subst y0. unfold can_write in CW. rewrite CE in CW. simpl in CW.
      rewrite Bool.andb_false_r in CW. discriminate. }
    apply Nat.eqb_neq in N.
    destruct (Nat.eqb k 0); simpl; rewrite ?cx_edge; simpl; rewrite N; auto.
  - destruct (cpopen (cx s y0) && negb (ceof (cx s y0))); [|simpl; auto].
    simpl. rewrite cx_edge. simpl. destruct (Nat.eqb y y0) eqn:E; auto.
    apply Nat.eqb_eq in E. subst. simpl. auto.
  - destruct (cpopen (cx s y0)); [|simpl; auto].
    destruct (is_tcp (cx s y0) && ceof (cx s y0)); simpl; rewrite ?cx_edge; simpl;
      (destruct (Nat.eqb y y0) eqn:E; auto; apply Nat.eqb_eq in E; subst; simpl; auto).
  - destruct (cadded (cx s y0) || Nat.eqb y0 0); [simpl; auto|].
    set (c1 := mkC _ _ _ _ _ _ true _ _ _).
    destruct (add_ctx_other y0 (updc y0 c1 s)) as (_ & _ & _ & D & _).
    destruct (add_ctx y0 (updc y0 c1 s)) as [s1 ok]. simpl in D. simpl. rewrite D. simpl.
    destruct (Nat.eqb y y0) eqn:E; auto. apply Nat.eqb_eq in E. subst. rewrite Nat.eqb_refl. simpl. auto.
  - destruct (cclosed (cx s y0)); [simpl; auto|].
    destruct (negb (is_pipe (cx s y0))); simpl; rewrite ?cx_edge; simpl;
      (destruct (Nat.eqb y y0) eqn:E; auto; apply Nat.eqb_eq in E; subst; simpl; auto).
  - simpl. rewrite cx_edge. auto.
  - simpl. auto.
Qed.

Lemma Htc_do_acts : forall l s y e, Htc e (cx s y) -> Htc e (cx (do_acts l s) y).
Proof.
  induction l as [|a l IH]; intros s y e H; simpl; auto.
  apply IH. intros HH. destruct (H HH) as [CE CQ].
  destruct (dead_do_act a s y CE) as [A B]. split; auto. intros HI. rewrite B. auto.
Qed.

Lemma Htc_handle_wakeup : forall s y e, Htc e (cx s y) -> Htc e (cx (handle_wakeup s) y).
Proof.
  intros s y e H. unfold handle_wakeup.
  set (s1 := emit EWake (set_wk 0 s)).
  assert (H1 : Htc e (cx s1 y)) by auto.
  destruct (idle s1); auto.
  destruct (phases (set_idle false s1)) as [|p r].
  - apply (Htc_do_acts [AExit] (set_idle false s1)). auto.
  - apply (Htc_do_acts p (set_phases r (set_idle false s1))). auto.
Qed.

(* the wake callback keeps the ready-list invariant: the eventfd is cleared, and every action of the
   phase wakes what it touches *)
Lemma EP_handle_wakeup : forall pend s, forallb phase_act_ok (concat (phases s)) = true -> bk s = BEpoll ->
  EP (0 :: pend) s -> EP pend (handle_wakeup s).
Proof.
  intros pend s PH B E. unfold handle_wakeup.
  set (s1 := emit EWake (set_wk 0 s)).
  assert (E1 : EP pend s1).
  { destruct E as [ND SUB ED]. constructor; simpl; auto.
    intros z Hz Hev. destruct (Nat.eq_dec z 0) as [->|N].
    - unfold events in Hev. simpl in Hev. congruence.
    - assert (events s1 z = events s z) as EQ.
      { unfold events. apply Nat.eqb_neq in N. rewrite N. auto. }
      rewrite EQ in Hev. destruct (ED z Hz Hev) as [H|[H|H]]; auto. congruence. }
  destruct (idle s1); auto.
  assert (E2 : EP pend (set_idle false s1)) by (eapply EP_same; [| | |apply E1]; auto).
  destruct (phases (set_idle false s1)) as [|p r] eqn:P; simpl in P.
  - eapply EP_same; [| | |apply E2]; auto.
  - rewrite P in PH. simpl in PH. rewrite forallb_app in PH. apply Bool.andb_true_iff in PH. destruct PH as [PH1 _].
    apply EP_do_acts; auto. eapply EP_same; [| | |apply E2]; auto.
Qed.

(* ------------------------------------------------------------------ epoll: what the kernel scan reports *)
Lemma ep_scan_facts : forall rdl cap s, NoDup rdl ->
  let rp := fst (ep_scan cap rdl s) in let rest := snd (ep_scan cap rdl s) in
  (forall x e, In (x, e) rp -> In x rdl /\ e = events s x /\ e <> 0) /\
  NoDup (map fst rp) /\ NoDup rest /\ (forall z, In z rest -> In z rdl) /\
  (forall z, In z rdl -> In z (map fst rp) \/ In z rest \/ events s z = 0) /\
  (1 <= cap -> (exists z, In z rdl /\ events s z <> 0) -> rp <> []).
Proof.
  induction rdl as [|x r IH]; intros cap s ND; simpl.
  - repeat split; auto; try constructor; try (intros; contradiction). intros _ (z & [] & _).
  - inversion ND as [|? ? Hx ND']; subst.
    destruct cap as [|c].
    + simpl. repeat split; auto; try constructor; try (intros; contradiction); try lia;
        try (intros z Hz; right; left; auto).
    + destruct (Nat.eqb (events s x) 0) eqn:E.
      * apply Nat.eqb_eq in E.
        destruct (IH (S c) s ND') as (A1 & A2 & A3 & A4 & A5 & A6).
        split; [intros y e H; destruct (A1 y e H) as (P & Q); split; auto|].
        split; auto. split; auto. split; [intros z Hz; right; apply A4; auto|].
        split.
        -- intros z [<-|Hz]; auto; destruct (A5 z Hz) as [H|[H|H]]; auto.
        -- intros Hc (z & [<-|Hz] & Hev); [congruence|]. apply A6; eauto.
      * apply Nat.eqb_neq in E.
        destruct (IH c s ND') as (A1 & A2 & A3 & A4 & A5 & A6).
        destruct (ep_scan c r s) as [rp rest] eqn:SC. simpl in *.
        split.
        -- intros y e [H|H]; [inversion H; subst; auto|]. destruct (A1 y e H) as (P & Q). split; auto.
        -- split.
           ++ constructor; auto. intro C. apply in_map_iff in C. destruct C as ([y e] & <- & H).
              destruct (A1 y e H) as (P & _). simpl in Hx. contradiction.
           ++ split; auto. split; [intros z Hz; right; apply A4; auto|].
              split; [|intros; discriminate].
              intros z [<-|Hz]; auto; destruct (A5 z Hz) as [H|[H|H]]; auto.
Qed.

Lemma ep_filter_complete : forall evs seen reg x, In x (map fst evs) -> In x reg -> ~ In x seen ->
  In x (map fst (ep_filter seen reg evs)).
Proof.
  induction evs as [|[y e] r IH]; intros seen reg x Hx Hr Hs; simpl in *; [destruct Hx|].
  destruct (mem y reg && negb (mem y seen)) eqn:G.
  - simpl. destruct (Nat.eq_dec y x) as [->|N]; auto. right.
    destruct Hx as [Hx|Hx]; [contradiction|]. apply IH; auto. intros [C|C]; auto.
  - destruct Hx as [Hx|Hx].
    + subst y. exfalso. apply Bool.andb_false_iff in G. destruct G as [G|G].
      * assert (mem x reg = true) by (apply mem_In; auto). congruence.
      * apply Bool.negb_false_iff in G. apply mem_In in G. contradiction.
    + apply IH; auto.
Qed.

Lemma ep_filter_sub : forall evs seen reg x e, In (x, e) (ep_filter seen reg evs) -> In (x, e) evs.
Proof.
  induction evs as [|[y f] r IH]; intros seen reg x e H; simpl in *; auto.
  destruct (mem y reg && negb (mem y seen)); [destruct H as [H|H]; auto; right; eapply IH; eauto|right; eapply IH; eauto].
Qed.

(* ------------------------------------------------------------------ epoll: a batch *)
Definition Live (e : nat) : Prop := has_in e = true \/ has_hup_err e = true.
Definition EvOK (s : st) (evs : list (nat * nat)) : Prop :=
  forall x e, In (x, e) evs -> Live e /\ (x <> 0 -> Htc e (cx s x)) /\ (x = 0 -> has_in e = true).
Definition CReg (s : st) : Prop := In 0 (ereg s) /\ forall x, In x (clist s) -> In x (ereg s).

Lemma ep_walk_app : forall l1 l2 s, ep_walk (l1 ++ l2) s = ep_walk l2 (ep_walk l1 s).
Proof. induction l1 as [|[x e] l1 IH]; intros; simpl; auto. Qed.

(* the events of contexts (no wake event among them) *)
Lemma ep_walk_ctx : forall evs extra s sg, GI s sg -> bk s = BEpoll -> ~ In 0 (map fst evs) ->
  NoDup (map fst evs) -> (forall x, In x (map fst evs) -> In x (ereg s)) -> EvOK s evs ->
  EP (map fst evs ++ extra) s -> CReg s ->
  GI (ep_walk evs s) sg /\ bk (ep_walk evs s) = BEpoll /\ ecap (ep_walk evs s) = ecap s /\
  toexit (ep_walk evs s) = toexit s /\ idle (ep_walk evs s) = idle s /\ phases (ep_walk evs s) = phases s /\
  EP extra (ep_walk evs s) /\ CReg (ep_walk evs s) /\
  (forall y, ~ In y (map fst evs) -> cx (ep_walk evs s) y = cx s y) /\
  (forall z, In z (ereg s) -> ~ In z (map fst evs) -> In z (ereg (ep_walk evs s))) /\
  (Quiet s -> Quiet (ep_walk evs s)).
Proof.
  induction evs as [|[x e] r IH]; intros extra s sg GIs B N0 ND Hreg OK E CR; simpl.
  - split; [auto|]. split; [auto|]. split; [auto|]. split; [auto|]. split; [auto|]. split; [auto|].
    split; [auto|]. split; [auto|]. split; [auto|]. split; auto.
  - simpl in N0, ND, Hreg, E. inversion ND as [|? ? Hxr ND']; subst.
    assert (X0 : x <> 0) by (intro; apply N0; auto).
    destruct (Inv_ep_step x e s (gi_inv _ _ GIs) B (Hreg x (or_introl eq_refl))) as (IS & BS & RS).
    destruct GIs as [I G F PH CAP FIN].
    assert (Hin : In x (clist s)).
    { destruct (i_ereg s I B x (Hreg x (or_introl eq_refl))); auto; congruence. }
    destruct (OK x e (or_introl eq_refl)) as (LV & HT & _). specialize (HT X0).
    destruct (visit_read (has_in e) x s sg I G F Hin) as (I1 & G1 & F1 & FR1 & O1 & Q1 & D1 & CE1 & _ & _ & _ & CQ1 & NR1 & RQ1).
    set (s1 := if has_in e then cb_read x s else s) in *.
    destruct (visit_flag (negb (has_in e) && has_hup_err e) x s1 sg I1 G1 F1) as (I2 & G2 & F2 & FR2 & O2 & NF2 & T2 & CQ2).
    { intros H. apply Bool.andb_true_iff in H. destruct H as [_ H]. rewrite CE1. apply (HT H). }
    set (s2 := if negb (has_in e) && has_hup_err e then set_flag x s1 else s1) in *.
    assert (ES : (if has_in e then cb_read x s else if has_hup_err e then set_flag x s else s) = s2).
    { unfold s2, s1. destruct (has_in e), (has_hup_err e); auto. }
    pose proof (frame_trans _ _ _ FR1 FR2) as FR. destruct FR.
    assert (CXO : forall z, z <> x -> cx s2 z = cx s z) by (intros z Hz; rewrite O2, O1; auto).
    assert (EVO : forall z, z <> x -> events s2 z = events s z).
    { intros z Hz. unfold events. rewrite fr_wk0, CXO; auto. }
    assert (exists s', ep_step x e s = s' /\ GI s' sg /\ ecap s' = ecap s /\ toexit s' = toexit s /\ idle s' = idle s /\
              phases s' = phases s /\ EP (map fst r ++ extra) s' /\ CReg s' /\ (forall y, y <> x -> cx s' y = cx s y) /\
              (Quiet s -> Quiet s')) as (s' & ES' & GI' & C1 & C2 & C3 & C4 & E' & CR' & CX' & Q').
    { unfold ep_step. apply Nat.eqb_neq in X0. rewrite X0. apply Nat.eqb_neq in X0. cbv zeta. rewrite ES.
      destruct (cflag (cx s2 x)) eqn:CF.
      - (* closed: EPOLL_CTL_DEL, close callback, removal *)
        eexists; split; [reflexivity|].
        assert (Hin2 : In x (clist s2)) by (rewrite fr_clist0; auto).
        assert (CQ : cq (cx s2 x) = 0).
        { rewrite CQ2. destruct (has_in e) eqn:HI; [apply RQ1; auto|].
          unfold s1. destruct LV as [LV|LV]; [congruence|]. apply (proj2 (HT LV)). auto. }
        match goal with |- GI ?t sg /\ _ => set (s5 := t) end.
        destruct (visit_close x s2 sg s5 I2 G2 F2 CF Hin2 CQ) as (G5 & F5 & Q5); auto.
        split; [constructor; auto|].
        + unfold ep_step in IS. apply Nat.eqb_neq in X0. rewrite X0 in IS. cbv zeta in IS. rewrite ES, CF in IS. exact IS.
        + unfold s5. simpl. rewrite fr_phases0. auto.
        + unfold s5. simpl. rewrite fr_bk0, B. discriminate.
        + unfold s5. simpl. rewrite fr_phases0. auto.
        + unfold s5. simpl. split; auto. split; auto. split; auto. split; auto. split; [|split; [|split]].
          * destruct E as [END ESUB EED]. constructor; simpl.
            -- apply rm_NoDup. rewrite fr_erdl0. auto.
            -- intros z Hz. apply rm_In in Hz. destruct Hz as [Hz Hne]. apply rm_In. split; auto.
               rewrite fr_ereg0. apply ESUB. rewrite <- fr_erdl0. auto.
            -- intros z Hz Hev. apply rm_In in Hz. destruct Hz as [Hz Hne].
               assert (events s z <> 0) as Hev'.
               { unfold events in *. simpl in Hev. rewrite fr_wk0 in Hev.
                 destruct (Nat.eqb z 0); auto. apply Nat.eqb_neq in Hne. rewrite Hne in Hev.
                 apply Nat.eqb_neq in Hne. rewrite CXO in Hev; auto. }
               rewrite fr_ereg0 in Hz. destruct (EED z Hz Hev') as [H|[H|H]]; [left|congruence|right; auto].
               apply rm_In. split; auto. rewrite fr_erdl0. auto.
          * destruct CR as [CR0 CRC]. split.
            -- apply rm_In. split; [rewrite fr_ereg0; auto|auto].
            -- intros z Hz. apply rm_In in Hz. destruct Hz as [Hz Hne]. apply rm_In. split; auto.
               rewrite fr_ereg0. apply CRC. rewrite <- fr_clist0. auto.
          * intros y Hy. apply Nat.eqb_neq in Hy. rewrite Hy. apply Nat.eqb_neq in Hy. apply CXO; auto.
          * intros Q. apply Q5. intros z Hz Hne. rewrite CXO by auto. apply Q. rewrite <- fr_clist0. auto.
      - (* kept: it was read and is drained *)
        exists s2. split; auto.
        assert (RD : has_in e = true).
        { destruct (has_in e) eqn:HI; auto. destruct LV as [LV|LV]; [congruence|].
          exfalso. unfold s2 in CF. rewrite LV in CF. simpl in CF. unfold set_flag in CF. simpl in CF.
          rewrite Nat.eqb_refl in CF. simpl in CF. discriminate. }
        assert (DR : events_c (cx s2 x) = 0).
        { rewrite (NF2 eq_refl). apply D1; auto. rewrite <- (NF2 eq_refl). auto. }
        split; [constructor; auto|].
        + eapply Flx_Fl; eauto.
        + rewrite fr_phases0. auto.
        + rewrite fr_bk0, B. discriminate.
        + rewrite fr_phases0. auto.
        + split; auto. split; auto. split; auto. split; auto. split; [|split; [|split]].
          * destruct E as [END ESUB EED]. constructor; rewrite ?fr_erdl0, ?fr_ereg0; auto.
            intros z Hz Hev. destruct (Nat.eq_dec z x) as [->|Hne].
            -- exfalso. apply Hev. unfold events. apply Nat.eqb_neq in X0. rewrite X0. auto.
            -- rewrite EVO in Hev by auto. destruct (EED z Hz Hev) as [H|[H|H]]; auto. congruence.
          * destruct CR as [CR0 CRC]. split; rewrite ?fr_ereg0, ?fr_clist0; auto.
          * auto.
          * intros Q z Hz. rewrite fr_clist0 in Hz.
            destruct (Nat.eq_dec z x) as [->|Hne]; [auto|rewrite CXO; auto]. }
    rewrite ES' in *.
    assert (N0' : ~ In 0 (map fst r)) by (intro; apply N0; auto).
    assert (Hreg' : forall z, In z (map fst r) -> In z (ereg s')).
    { intros z Hz. apply RS; [intro; subst; contradiction|]. auto. }
    assert (OK' : EvOK s' r).
    { intros y f Hyf. destruct (OK y f (or_intror Hyf)) as (L & H & Z). split; auto. split; auto.
      intros Y0. rewrite CX'; auto. intro; subst y. apply Hxr. apply in_map_iff. exists (x, f). auto. }
    destruct (IH extra s' sg GI' BS N0' ND' Hreg' OK' E' CR') as (A1 & A2 & A3 & A4 & A5 & A6 & A7 & A8 & A9 & A10 & A11).
    split; auto. split; auto. split; [congruence|]. split; [congruence|]. split; [congruence|]. split; [congruence|].
    split; auto. split; auto. split; [|split].
    + intros y Hy. rewrite A9; [apply CX'|]; intro; apply Hy; auto.
    + intros z Hz Hn. apply A10; [|intro; apply Hn; auto]. apply RS; auto; intro; apply Hn; auto.
    + auto.
Qed.

Lemma CReg_do_act : forall a s, bk s = BEpoll -> CReg s -> CReg (do_act a s).
Proof.
  intros a s B [C0 CC].
  destruct a; try (unfold do_act;
    repeat match goal with |- context [if ?c then _ else _] => destruct c end;
    split; simpl; rewrite ?ereg_edge, ?clist_edge; simpl; rewrite ?ereg_edge, ?clist_edge; auto; fail).
  destruct (cadded (cx s y) || Nat.eqb y 0) eqn:G.
  - unfold do_act. rewrite G. split; simpl; auto.
  - apply Bool.orb_false_iff in G. destruct G as [G1 G2]. apply Nat.eqb_neq in G2.
    destruct (do_add_spec y s G1 G2) as (_ & _ & _ & _ & [(_ & L & _ & R)|(_ & L & _ & R)]).
    + rewrite B in R. change (is_epoll BEpoll) with true in R. cbv iota in R. split; rewrite ?L, ?R.
      * apply in_or_app; auto.
      * intros x Hx. apply in_app_or in Hx. apply in_or_app. destruct Hx as [Hx|Hx]; auto.
    + split; rewrite ?L, ?R; auto.
Qed.

Lemma CReg_do_acts : forall l s, bk s = BEpoll -> CReg s -> CReg (do_acts l s).
Proof.
  induction l as [|a l IH]; intros s B C; simpl; auto.
  apply IH; [destruct (do_act_frame a s) as (F1 & _); congruence|apply CReg_do_act; auto].
Qed.

Lemma CReg_handle_wakeup : forall s, bk s = BEpoll -> CReg s -> CReg (handle_wakeup s).
Proof.
  intros s B C. unfold handle_wakeup.
  set (s1 := emit EWake (set_wk 0 s)).
  assert (C1 : CReg s1) by auto.
  destruct (idle s1); auto.
  destruct (phases (set_idle false s1)) as [|p r].
  - apply (CReg_do_act AExit (set_idle false s1)); auto.
  - apply (CReg_do_acts p (set_phases r (set_idle false s1))); auto.
Qed.

Lemma NoDup_app_parts : forall (a b : list nat) x, NoDup (a ++ x :: b) ->
  NoDup a /\ NoDup b /\ ~ In x a /\ ~ In x b /\ (forall y, In y a -> ~ In y b).
Proof.
  induction a as [|h a IH]; intros b x H; simpl in *.
  - inversion H; subst. repeat split; auto. constructor.
  - inversion H as [|? ? Hh Hr]; subst. destruct (IH b x Hr) as (A & B & C & D & E).
    split; [constructor; auto; intro; apply Hh; apply in_or_app; auto|]. split; auto.
    split; [intros [->|K]; auto; apply Hh; apply in_or_app; right; left; auto|]. split; auto.
    intros y [->|Hy]; auto. intro K. apply Hh. apply in_or_app. right; right; auto.
Qed.

(* a whole batch: context events, possibly the wake event somewhere among them *)
Lemma ep_batch : forall evs s sg, GI s sg -> bk s = BEpoll -> toexit s = false ->
  NoDup (map fst evs) -> (forall x, In x (map fst evs) -> In x (ereg s)) -> EvOK s evs ->
  EP (map fst evs) s -> CReg s ->
  exists sg', GI (ep_walk evs s) sg' /\ bk (ep_walk evs s) = BEpoll /\ ecap (ep_walk evs s) = ecap s /\
    EP [] (ep_walk evs s) /\ CReg (ep_walk evs s) /\
    (In 0 (map fst evs) -> idle (ep_walk evs s) = false) /\
    (idle s = false -> idle (ep_walk evs s) = false /\ toexit (ep_walk evs s) = false) /\
    (toexit (ep_walk evs s) = true -> phases (ep_walk evs s) = [] /\ (Quiet s -> Quiet (ep_walk evs s))).
Proof.
  intros evs s sg GIs B EX ND Hreg OK E CR.
  destruct (in_dec Nat.eq_dec 0 (map fst evs)) as [H0|H0].
  - (* the wake event is in the batch *)
    apply in_map_iff in H0. destruct H0 as ([z e] & Z & Hze). simpl in Z. subst z.
    destruct (in_split _ _ Hze) as (pre & post & ->).
    rewrite map_app in *. simpl in *.
    assert (NDs : NoDup (map fst pre) /\ NoDup (map fst post) /\ ~ In 0 (map fst pre) /\ ~ In 0 (map fst post) /\
                  (forall y, In y (map fst pre) -> ~ In y (map fst post))).
    { apply NoDup_app_parts; auto. }
    destruct NDs as (NDa & NDb & N0a & N0b & DISJ).
    assert (OKa : EvOK s pre) by (intros y f H; apply OK; apply in_or_app; auto).
    destruct (ep_walk_ctx pre (0 :: map fst post) s sg GIs B N0a NDa) as (A1 & A2 & A3 & A4 & A5 & A6 & A7 & A8 & A9 & A10 & A11); auto.
    { intros y Hy. apply Hreg. apply in_or_app; auto. }
    set (sa := ep_walk pre s) in *.
    destruct (OK 0 e) as (_ & _ & HI); [apply in_or_app; right; left; auto|]. specialize (HI eq_refl).
    rewrite ep_walk_app. simpl. fold sa.
    assert (ep_step 0 e sa = handle_wakeup sa) as -> by (unfold ep_step; simpl; rewrite HI; auto).
    assert (EXa : toexit sa = false) by congruence.
    destruct (hw_GI sa sg A1 EXa) as (sg' & W1 & W2 & W3 & W4 & W5 & W6 & W7 & W8 & W9 & W10 & W11 & W12 & W13).
    set (sb := handle_wakeup sa) in *.
    assert (GIb : GI sb sg') by (constructor; auto; rewrite W8, W9; auto).
    assert (Bb : bk sb = BEpoll) by congruence.
    assert (Eb : EP (map fst post ++ []) sb).
    { rewrite app_nil_r. apply EP_handle_wakeup; auto. apply A1. }
    assert (CRb : CReg sb) by (apply CReg_handle_wakeup; auto).
    assert (Hregb : forall y, In y (map fst post) -> In y (ereg sb)).
    { intros y Hy. destruct (e_ereg _ _ W11) as [l ->]. apply in_or_app. left.
      apply A10; [apply Hreg; apply in_or_app; right; right; auto|].
      intro C. apply (DISJ y C Hy). }
    assert (OKb : EvOK sb post).
    { intros y f H. destruct (OK y f) as (L & HT & Z); [apply in_or_app; right; right; auto|].
      split; auto. split; auto. intros Y0. apply Htc_handle_wakeup. rewrite A9; auto.
      intro C. apply (DISJ y C). apply in_map_iff. exists (y, f). auto. }
    destruct (ep_walk_ctx post [] sb sg' GIb Bb N0b NDb Hregb OKb Eb CRb) as (P1 & P2 & P3 & P4 & P5 & P6 & P7 & P8 & P9 & P10 & P11).
    exists sg'. split; auto. split; auto. split; [congruence|]. split; auto. split; auto.
    split; [intros _; congruence|]. split.
    + intros ID. rewrite P5, P4. split; auto. apply (W12 ltac:(congruence)).
    + rewrite P4, P6. intros C. destruct (W13 C) as (_ & PHe & X1 & X2). split; auto.
      intros Q. apply P11. eapply Quiet_view; [apply X1|apply X2|]. auto.
  - (* context events only *)
    assert (E' : EP (map fst evs ++ []) s) by (rewrite app_nil_r; auto).
    destruct (ep_walk_ctx evs [] s sg GIs B H0 ND Hreg OK E' CR) as (A1 & A2 & A3 & A4 & A5 & A6 & A7 & A8 & A9 & A10 & A11).
    exists sg. split; auto. split; auto. split; auto. split; auto. split; auto.
    split; [intros C; contradiction|]. split; [intros ID; split; congruence|].
    intros C. congruence.
Qed.

(* ------------------------------------------------------------------ epoll: one kernel call *)
Definition BEp (s : st) : Prop := CReg s /\ 1 <= ecap s /\ EP [] s.

Lemma ep_scan_single : forall rdl cap s z, 1 <= cap -> In z rdl -> events s z <> 0 ->
  (forall y, In y rdl -> y <> z -> events s y = 0) -> In z (map fst (fst (ep_scan cap rdl s))).
Proof.
  induction rdl as [|x r IH]; intros cap s z Hc Hz Hev Hot; [destruct Hz|].
  simpl. destruct cap as [|c]; [lia|].
  destruct (Nat.eq_dec x z) as [->|N].
  - apply Nat.eqb_neq in Hev. rewrite Hev. destruct (ep_scan c r s). simpl. auto.
  - rewrite (Hot x (or_introl eq_refl) N). simpl.
    destruct Hz as [Hz|Hz]; [congruence|]. apply IH; auto. intros y Hy. apply Hot. right; auto.
Qed.

Lemma live_events : forall c, events_c c <> 0 -> Live (events_c c).
Proof.
  intros c H. destruct (events_c_bits c) as [A B]. unfold Live. rewrite A, B.
  unfold events_c in H. destruct (ev_in c), (ev_hup c); auto.
Qed.

Lemma Q_epoll : forall s sg, GI s sg -> BEp s -> bk s = BEpoll -> kern s = [] -> Quiet s.
Proof.
  intros s sg GIs ((C0 & CC) & CAP & E) B K x Hx.
  unfold kern in K. rewrite B in K.
  destruct (ep_scan_facts (erdl s) (ecap s) s (ep_nd _ _ E)) as (_ & _ & _ & _ & _ & A6).
  assert (X0 : x <> 0) by (apply (i_reg s (gi_inv _ _ GIs) x Hx)).
  destruct (Nat.eq_dec (events s x) 0) as [Z|NZ].
  - unfold events in Z. apply Nat.eqb_neq in X0. rewrite X0 in Z. auto.
  - exfalso. apply (A6 CAP); auto. exists x. split; auto.
    destruct (ep_edge _ _ E x (CC x Hx) NZ) as [H|[]]; auto.
Qed.

Lemma ep_dispatch : forall s sg, GI s sg -> bk s = BEpoll -> toexit s = false -> BEp s ->
  let s' := dispatch_epoll (kern s) s in
  exists sg', GI s' sg' /\ bk s' = BEpoll /\ BEp s' /\
    (In 0 (map fst (kern s)) -> idle s' = false) /\
    (idle s = false -> idle s' = false /\ toexit s' = false) /\
    (toexit s' = true -> phases s' = [] /\ (Quiet s -> Quiet s')).
Proof.
  intros s sg GIs B EX (CR & CAP & E). cbv zeta.
  assert (KS : kern s = fst (ep_scan (ecap s) (erdl s) s)) by (unfold kern; rewrite B; auto).
  unfold dispatch_epoll.
  destruct (ep_scan_facts (erdl s) (ecap s) s (ep_nd _ _ E)) as (S1 & S2 & S3 & S4 & S5 & _).
  rewrite <- KS in *.
  set (evs := ep_filter [] (ereg s) (kern s)).
  set (rest := snd (ep_scan (ecap s) (erdl s) s)) in *.
  set (s1 := set_erdl (filter (fun y => negb (mem y (map fst evs))) rest) s).
  destruct (ep_filter_spec (kern s) [] (ereg s)) as [NDe He]. fold evs in NDe, He.
  assert (GI1 : GI s1 sg).
  { destruct GIs as [I G F PH CP FIN]. constructor; simpl; auto.
    - eapply Inv_view; [apply sv_set_erdl|auto].
    - eapply GC_view2; [| | | | |apply G]; auto. }
  assert (OK1 : EvOK s1 evs).
  { intros x e H. apply ep_filter_sub in H. destruct (S1 x e H) as (_ & -> & NZ).
    destruct (Nat.eq_dec x 0) as [->|X0].
    - unfold events in *. simpl in *. destruct (Nat.ltb 0 (wk s)); [|congruence].
      split; [left; auto|]. split; [congruence|auto].
    - assert (events s x = events_c (cx s x)) as EQ.
      { unfold events. apply Nat.eqb_neq in X0. rewrite X0. auto. }
      rewrite EQ in *. split; [apply live_events; auto|]. split; [|congruence].
      intros _. eapply Htc_events. apply (g_pc _ _ (gi_gc _ _ GIs)). }
  assert (E1 : EP (map fst evs) s1).
  { destruct E as [ND SUB ED]. constructor; simpl.
    - apply NoDup_filter. auto.
    - intros z Hz. apply filter_In in Hz. destruct Hz as [Hz _]. apply SUB. apply S4. auto.
    - intros z Hz Hev. change (events s1 z) with (events s z) in Hev.
      destruct (in_dec Nat.eq_dec z (map fst evs)) as [Y|Nn]; auto. left.
      destruct (ED z Hz Hev) as [H|[]]. destruct (S5 z H) as [R|[R|R]]; [| |congruence].
      + exfalso. apply Nn. apply ep_filter_complete; auto.
      + apply filter_In. split; auto. apply Bool.negb_true_iff.
        destruct (mem z (map fst evs)) eqn:M; auto. apply mem_In in M. contradiction. }
  destruct (ep_batch evs s1 sg GI1 B EX NDe) as (sg' & A1 & A2 & A3 & A4 & A5 & A6 & A7 & A8); auto.
  { intros x Hx. apply He. auto. }
  exists sg'. split; auto. split; auto. split; [split; auto; split; auto; rewrite A3; auto|].
  split; [|split; auto].
  intros H0. apply A6. apply ep_filter_complete; auto. apply (proj1 CR).
Qed.

Lemma epoll_iter : iter_ok BEp BEpoll.
Proof.
  intros s sg GIs EX ID B BE. unfold iter, kern_o.
  destruct (kern s) as [|p r] eqn:K.
  - (* idle *)
    pose proof (Q_epoll s sg GIs BE B K) as Q.
    destruct BE as (CR & CAP & E).
    simpl. unfold dispatch.
    set (s0 := inject s).
    assert (B0 : bk s0 = BEpoll) by (unfold s0, inject; simpl; rewrite bk_edge; auto).
    rewrite B0.
    pose proof (GI_inject s sg GIs) as GI0. fold s0 in GI0.
    assert (EX0 : toexit s0 = false) by (unfold s0, inject; simpl; rewrite toexit_edge; auto).
    assert (R0 : ereg s0 = ereg s) by (unfold s0, inject; simpl; rewrite ereg_edge; auto).
    assert (CX0 : cx s0 = cx s) by (unfold s0, inject; simpl; rewrite cx_edge; auto).
    assert (CL0 : clist s0 = clist s) by (unfold s0, inject; simpl; rewrite clist_edge; auto).
    assert (E0 : EP [] s0).
    { unfold s0, inject. eapply EP_same; [| | |eapply (EP_touch [] 0 s (set_wk (S (wk s)) s)); [| | |apply E]]; simpl; auto.
      intros z Hz. unfold events. apply Nat.eqb_neq in Hz. rewrite Hz. auto. }
    assert (BE0 : BEp s0).
    { destruct CR as [CR0 CRC]. split; [split; rewrite ?R0, ?CL0; auto|]. split; auto.
      unfold s0, inject. simpl. unfold edge. destruct (_ && _); auto. }
    assert (EV00 : events s0 0 = 1) by (unfold events, s0, inject; simpl; rewrite wk_edge; simpl; auto).
    assert (IN0 : In 0 (map fst (kern s0))).
    { unfold kern. rewrite B0. apply ep_scan_single; auto; [apply BE0| | |].
      - destruct (ep_edge _ _ E0 0) as [H|[]]; auto; [rewrite R0; apply (proj1 CR)|congruence].
      - congruence.
      - intros y Hy Hne. pose proof (ep_sub _ _ E0 y Hy) as Hr. rewrite R0 in Hr.
        destruct (i_ereg s (gi_inv _ _ GIs) B y Hr) as [->|Hc]; [congruence|].
        unfold events. apply Nat.eqb_neq in Hne. rewrite Hne, CX0. apply Q; auto. }
    destruct (ep_dispatch s0 sg GI0 B0 EX0 BE0) as (sg' & A1 & A2 & A3 & A4 & A5 & A6).
    exists sg'. split; auto. split; auto. split; auto. split; auto.
    intros C. destruct (A6 C) as [P Qs]. split; auto. apply Qs.
    eapply Quiet_view; [apply CX0|apply CL0|auto].
  - simpl. unfold dispatch. rewrite B. rewrite <- K.
    destruct (ep_dispatch s sg GIs B EX BE) as (sg' & A1 & A2 & A3 & A4 & A5 & A6).
    destruct (A5 ID) as [A51 A52].
    exists sg'. split; auto. split; auto. split; auto. split; auto. intros C. congruence.
Qed.
End FlatRun.

(* ------------------------------------------------------------------ the start state *)
Lemma sset_do_act : forall a s z, In z (sset s) -> In z (sset (do_act a s)).
Proof.
  intros a s z H. destruct a; unfold do_act;
    repeat match goal with |- context [if ?c then _ else _] => destruct c end;
    simpl; rewrite ?sset_edge; simpl; rewrite ?sset_edge; auto.
  unfold add_ctx, backend_add. simpl. destruct (bk s); simpl;
    repeat match goal with |- context [if ?c then _ else _] => destruct c end; simpl; rewrite ?sset_edge; simpl; auto.
  apply add_set_incl. auto.
Qed.

Lemma csub_sset_do_act : forall a s, bk s = BSelect -> (forall x, In x (clist s) -> In x (sset s)) ->
  forall x, In x (clist (do_act a s)) -> In x (sset (do_act a s)).
Proof.
  intros a s B H x.
  destruct a; try (unfold do_act;
    repeat match goal with |- context [if ?c then _ else _] => destruct c end;
    simpl; rewrite ?sset_edge, ?clist_edge; simpl; rewrite ?sset_edge, ?clist_edge; auto; fail).
  unfold do_act. destruct (cadded (cx s y) || Nat.eqb y 0); [simpl; auto|].
  unfold add_ctx, backend_add. simpl. rewrite B. simpl.
  intros Hx. apply in_app_or in Hx. destruct Hx as [Hx|[<-|[]]]; [apply add_set_incl; auto|apply add_set_self].
Qed.

Lemma BSel_do_acts : forall l s, bk s = BSelect -> BSel s -> BSel (do_acts l s).
Proof.
  induction l as [|a l IH]; intros s B (H0 & HC & HS); simpl; auto. split; auto.
  apply IH.
  - destruct (do_act_frame a s) as (F1 & _). congruence.
  - split; [apply sset_do_act; auto|]. split; [apply csub_sset_do_act; auto|apply no_stale_do_act; auto].
Qed.

Lemma csub_ereg_do_acts : forall l s, bk s = BEpoll -> (forall x, In x (clist s) -> In x (ereg s)) ->
  forall x, In x (clist (do_acts l s)) -> In x (ereg (do_acts l s)).
Proof.
  induction l as [|a l IH]; intros s B H; simpl; auto.
  apply IH; [destruct (do_act_frame a s) as (F1 & _); congruence|].
  destruct a; try (unfold do_act;
    repeat match goal with |- context [if ?c then _ else _] => destruct c end;
    simpl; rewrite ?ereg_edge, ?clist_edge; simpl; rewrite ?ereg_edge, ?clist_edge; auto; fail).
  destruct (cadded (cx s y) || Nat.eqb y 0) eqn:G.
  - unfold do_act. rewrite G. simpl; auto.
  - apply Bool.orb_false_iff in G. destruct G as [G1 G2]. apply Nat.eqb_neq in G2.
    destruct (do_add_spec y s G1 G2) as (_ & _ & _ & _ & [(_ & L & _ & R)|(_ & L & _ & R)]).
    + rewrite B in R. change (is_epoll BEpoll) with true in R. cbv iota in R. rewrite ?L, ?R.
      intros x Hx. apply in_app_or in Hx. apply in_or_app. destruct Hx as [Hx|Hx]; auto.
    + rewrite ?L, ?R; auto.
Qed.

Lemma flat_parts : forall sc, flat sc = true ->
  s_trigs sc = [] /\ forallb phase_act_ok (concat (s_phases sc)) = true /\
  count_adds (concat (s_phases sc)) <= (if Nat.ltb (s_hints sc) 1 then 8 else s_hints sc).
Proof.
  intros sc H. unfold flat in H. apply Bool.andb_true_iff in H. destruct H as [H H3].
  apply Bool.andb_true_iff in H. destruct H as [H1 H2].
  split; [destruct (s_trigs sc); auto; discriminate|]. split; auto. apply Nat.leb_le. auto.
Qed.

Lemma start_GI : forall b sc, flat sc = true ->
  exists sg0, GI (spec_state sc) (start b sc) sg0 /\ toexit (start b sc) = false /\ idle (start b sc) = false /\
    bk (start b sc) = b /\
    match b with BSelect => BSel (start b sc) | BPoll => True | BEpoll => BEp (start b sc) end.
Proof.
  intros b sc FL. destruct (flat_parts sc FL) as (T & PH & CAP).
  set (p0 := hd [] (s_phases sc)). set (rest := tl (s_phases sc)).
  assert (CC : concat (s_phases sc) = p0 ++ concat rest).
  { unfold p0, rest. destruct (s_phases sc); simpl; auto. }
  rewrite CC in PH, CAP. rewrite forallb_app in PH. apply Bool.andb_true_iff in PH. destruct PH as [PH0 PHR].
  rewrite count_adds_app in CAP.
  assert (G0 : GC (init b sc) (init BSelect sc)).
  { constructor; simpl; auto.
    - intros x. unfold c0. constructor; simpl; auto; intros; discriminate.
    - intros x. unfold c0. simpl. split; [intros; discriminate|intros [[]|H]; discriminate]. }
  assert (F0 : Fl (init b sc)) by (intros x H; unfold init, c0 in H; simpl in H; discriminate).
  destruct (lock_do_acts p0 (init b sc) (init BSelect sc) (count_adds (concat rest)) PH0 (Inv_init b sc) G0 F0)
    as (A1 & A2 & A3 & A4 & A5 & A6 & A7 & A8 & A9).
  { simpl. intros _. lia. }
  destruct (do_acts_facts p0 (init b sc)) as (_ & D2 & _ & _).
  set (s1 := do_acts p0 (init b sc)) in *. set (sg0 := do_acts p0 (init BSelect sc)) in *.
  assert (GI1 : GI (spec_state sc) s1 sg0).
  { constructor; auto.
    - rewrite D2. simpl. auto.
    - rewrite D2, A6. simpl. rewrite A5. simpl. intros Bp. specialize (A4 Bp). simpl in A4. exact A4.
    - rewrite D2. simpl. fold rest. unfold sg0, spec_state. rewrite CC, do_acts_app. auto. }
  simpl in A5, A8, A9.
  destruct b.
  - exists sg0. unfold start. fold p0 s1. split; auto. split; auto. split; auto. split; auto.
    apply BSel_do_acts; auto. split; [simpl; auto|]. split; [intros x []|].
    intros z Hz. simpl in Hz. destruct Hz as [<-|[]]; auto.
  - exists sg0. unfold start. fold p0 s1. auto.
  - exists sg0. unfold start. fold p0 s1.
    assert (CS : forall x, In x (clist s1) -> In x (ereg s1)).
    { apply csub_ereg_do_acts; auto; intros x []. }
    assert (E1 : EP [] s1).
    { apply EP_do_acts; auto. constructor; simpl; auto; try constructor; intros z []. }
    unfold backend_add. rewrite A5. simpl.
    set (s2 := set_ereg (ereg s1 ++ [0]) s1).
    assert (GI2 : forall s3, cx s3 = cx s2 -> clist s3 = clist s2 -> trigs s3 = trigs s2 -> phases s3 = phases s2 ->
              bk s3 = bk s2 -> Inv s3 -> GI (spec_state sc) s3 sg0).
    { intros s3 X1 X2 X3 X4 X5 X6. destruct GI1 as [I G F PHH CP FIN]. constructor; auto.
      - eapply GC_view2; [| | | | |apply G]; auto.
      - eapply Fl_view; [|apply F]; auto.
      - rewrite X4. auto.
      - rewrite X5. simpl. rewrite A5. discriminate.
      - rewrite X4. auto. }
    destruct (Inv_start BEpoll sc) as [IS _]. unfold start in IS. fold p0 s1 in IS.
    unfold backend_add in IS. rewrite A5 in IS. simpl in IS. fold s2 in IS.
    assert (E2 : EP [] (if Nat.eqb (events s2 0) 0 then s2 else edge 0 s2)).
    { destruct E1 as [ND SUB ED].
      destruct (Nat.eqb (events s2 0) 0) eqn:EV.
      - apply Nat.eqb_eq in EV. constructor; simpl; auto.
        + intros z Hz. apply in_or_app. left. auto.
        + intros z Hz Hev. apply in_app_or in Hz. destruct Hz as [Hz|[<-|[]]]; [apply ED; auto|contradiction].
      - destruct (erdl_edge_cases 0 s2) as [[A C]|(A & C & D)]; constructor; rewrite ?A, ?ereg_edge; simpl; auto.
        + intros z Hz. apply in_or_app. left. auto.
        + intros z Hz Hev. rewrite events_edge in Hev. apply in_app_or in Hz.
          destruct Hz as [Hz|[<-|[]]]; [apply ED; auto|]. left. apply C. simpl. apply in_or_app. right; left; auto.
        + eapply Permutation_NoDup; [apply Permutation_cons_append|]. constructor; auto.
        + intros z Hz. apply in_app_or in Hz. destruct Hz as [Hz|[<-|[]]].
          * apply in_or_app. left. auto.
          * apply in_or_app. right; left; auto.
        + intros z Hz Hev. rewrite events_edge in Hev. apply in_app_or in Hz.
          destruct Hz as [Hz|[<-|[]]].
          * destruct (ED z Hz Hev) as [H|[]]. left. apply in_or_app; auto.
          * left. apply in_or_app. right; left; auto. }
    destruct (Nat.eqb (events s2 0) 0); simpl.
    + split; [apply GI2; auto|]. split; auto. split; auto. split; auto.
      split; [split; simpl; [apply in_or_app; right; left; auto|intros x Hx; apply in_or_app; left; auto]|].
      split; [simpl; rewrite A7; simpl; lia|auto].
    + split; [apply GI2; rewrite ?cx_edge, ?clist_edge, ?trigs_edge, ?phases_edge, ?bk_edge; auto|].
      split; [rewrite toexit_edge; auto|]. split; [rewrite idle_edge; auto|]. split; [rewrite bk_edge; auto|].
      split; [split; rewrite ?ereg_edge, ?clist_edge; simpl; [apply in_or_app; right; left; auto|intros x Hx; apply in_or_app; left; auto]|].
      split; [unfold edge; destruct (_ && _); simpl; rewrite A7; simpl; lia|auto].
Qed.

(* ------------------------------------------------------------------ the theorems *)
(* every back-end, on a flat script, ends with the outcome the specification computes *)
Theorem flat_outcome : forall sc, flat sc = true -> forall b fuel s',
  runks b sc fuel = (s', true) -> forall x, outcome s' x = spec_outcome sc x.
Proof.
  intros sc FL b fuel s' R x. unfold runks in R.
  destruct (start_GI b sc FL) as (sg0 & GI0 & EX & ID & B & BI).
  assert (exists s1, s' = finish s1 /\ GI (spec_state sc) s1 (spec_state sc) /\ Quiet s1) as (s1 & -> & G1 & Q1).
  { destruct b.
    - eapply (runk_flat (spec_state sc) BSel BSelect); eauto. intros s sg. apply sel_iter.
    - eapply (runk_flat (spec_state sc) (fun _ => True) BPoll); eauto. apply poll_iter.
    - eapply (runk_flat (spec_state sc) BEp BEpoll); eauto. apply epoll_iter. }
  rewrite (final_outcome (spec_state sc) s1 x G1 Q1). reflexivity.
Qed.

(* agreement of select, poll and epoll on flat scripts (each loop may need a different number of
   kernel calls) *)
Theorem agree_flat : forall sc, flat sc = true -> forall f1 f2 f3,
  snd (runks BSelect sc f1) = true -> snd (runks BPoll sc f2) = true -> snd (runks BEpoll sc f3) = true ->
  forall x, outcome (fst (runks BSelect sc f1)) x = outcome (fst (runks BPoll sc f2)) x /\
            outcome (fst (runks BSelect sc f1)) x = outcome (fst (runks BEpoll sc f3)) x.
Proof.
  intros sc FL f1 f2 f3 H1 H2 H3 x.
  destruct (runks BSelect sc f1) as [s1 b1] eqn:R1. destruct (runks BPoll sc f2) as [s2 b2] eqn:R2.
  destruct (runks BEpoll sc f3) as [s3 b3] eqn:R3. simpl in *. subst.
  rewrite (flat_outcome sc FL _ _ _ R1 x), (flat_outcome sc FL _ _ _ R2 x), (flat_outcome sc FL _ _ _ R3 x). auto.
Qed.

Corollary agree_flat_same_fuel : forall sc fuel, flat sc = true ->
  snd (runks BSelect sc fuel) = true -> snd (runks BPoll sc fuel) = true -> snd (runks BEpoll sc fuel) = true ->
  agree sc fuel.
Proof. intros sc fuel FL H1 H2 H3 x. apply agree_flat; auto. Qed.

(* non-vacuity: a flat script with three kinds of descriptors, late adds from an idle phase, half-close
   and close, on which the three loops exit and agree *)
Definition flat_example : script :=
  mkScr 4 [(1, KPipe); (2, KUnix); (3, KTcp); (4, KPipe)]
        [[AAdd 2; AAdd 1; AWrite 1 5; AWrite 3 9; AWake];
         [AAdd 3; AWrite 2 7; AHclose 1; AWrite 1 4];
         [APclose 2; AAdd 4; AWrite 4 6; AWrite 3 1]] [].

Example agree_flat_nonvacuous :
  flat flat_example = true /\ in_S flat_example = true /\
  snd (runks BSelect flat_example 20) = true /\ snd (runks BPoll flat_example 20) = true /\
  snd (runks BEpoll flat_example 20) = true /\
  map (outcome (fst (runks BPoll flat_example 20))) [1; 2; 3; 4] =
    [(5, true, false); (7, true, false); (10, false, true); (6, false, true)].
Proof. vm_compute. repeat split; reflexivity. Qed.
