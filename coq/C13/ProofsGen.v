(* C13 — second tie (DESIGN.md 4.4): the functions of coq/gen/Params_C13.v (sliced out of the C text of
   this run by lib/props/c13_slice.py) equal the reference functions of C13/Decide.v, and the per-visit
   decisions the references are built from are the decisions of the model's step functions.
   The gen = ref proofs do not depend on the SHAPE of the generated terms: everything is unfolded,
   every `if` is split (closed conditions are computed, contradictory arithmetic is pruned by
   time-limited lia, bit tests are compared as opaque atoms after normalising x & (y | c) forms), and
   the leaves are compared component by component.  A behaviour-preserving rewrite of the C text keeps
   the obligations; a change of a callback, of its position, of a table cell or of a count anywhere
   breaks them. *)
From MV Require Import Lib.Leaf C13.Decide gen.Params_C13.
From Coq Require Import ZifyBool Lia.
Local Open Scope Z_scope.
Ltac Zify.zify_post_hook ::= Z.to_euclidean_division_equations.

(* x & c is c when every bit of c was set by an earlier | c (set_flag followed by the CLOSED test) *)
Lemma land_lor_absorb : forall x c, Z.land (Z.lor x c) c = c.
Proof.
  intros. apply Z.bits_inj'. intros i Hi. rewrite Z.land_spec, Z.lor_spec.
  destruct (Z.testbit x i), (Z.testbit c i); reflexivity.
Qed.

Ltac nocond c := lazymatch c with context [if _ then _ else _] => fail | _ => idtac end.
Ltac closed_term c := tryif (match c with context [?x] => is_var x end) then fail else idtac.

Local Arguments Z.add : simpl never.
Local Arguments Z.sub : simpl never.
Local Arguments Z.mul : simpl never.
Local Arguments Z.leb : simpl never.
Local Arguments Z.ltb : simpl never.
Local Arguments Z.gtb : simpl never.
Local Arguments Z.geb : simpl never.
Local Arguments Z.eqb : simpl never.
Local Arguments Z.land : simpl never.
Local Arguments Z.lor : simpl never.
Local Arguments Z.modulo : simpl never.
Local Arguments Z.pow : simpl never.

(* delta only on the definitions of this development and on list / bool plumbing: integer operations on
   symbolic arguments stay as they are *)
Ltac ev_norm := cbv beta iota zeta delta
                    [fst snd app map concat fold_left nth_error length removelast last Nat.eqb Nat.sub
                     negb andb orb b2z z2b Z.of_nat Pos.of_succ_nat Pos.succ
                     set_nth_g slot_remove dec_poll dec_epoll dec_select
                     ref_poll_slot ref_poll_walk ref_wakeup ref_epoll_ev ref_select_node ref_timer cb_tok tmo0 usecs
                     hr hc hw hx he all_cbs no_cbs te_val term_of is_closed
                     k_pollin k_pollhup k_pollerr k_epin k_ephup k_eperr k_epet k_ctl_add k_ctl_del k_closed k_exit
                     k_wake k_eintr k_ewouldblock k_invalid_fd k_fd_setsize k_sz_pollfd k_sz_ptr k_sz_epev k_sz_list k_sz_signal
                     default_hints
                     T_READ T_SETFLAG T_FLAGVAL T_CLOSE T_LREM T_WAKECLR T_WAKECB T_EPDEL T_FDCLR T_FDSET T_FDZERO
                     T_KPOLL T_KSEL T_KEPOLL T_EXITREQ T_CLEARCB T_EXITCB T_EPADD T_EPMASK T_LAPPEND T_NONBLOCK T_BADD
                     T_BRUN T_MALLOC T_EPCREATE T_KWATCH T_TIMERCB T_KTMO T_LINIT T_SIGINIT].

(* tuples and lists are compared component by component; integers by arithmetic *)
Ltac ev_leaf :=
  first [ reflexivity
        | solve [ exfalso; timeout 20 lia ]
        | solve [ repeat (first [ reflexivity | apply f_equal2 | apply (f_equal2 (@cons Z)) ]);
                  unfold wrapu; timeout 30 lia ] ].

Ltac ev_split :=
  repeat match goal with
  | |- context [if ?c then _ else _] =>
    nocond c;
    first [ closed_term c;
            let v := eval vm_compute in c in
            lazymatch v with
            | true => change c with true
            | false => change c with false
            end; ev_norm
          | let H := fresh "C" in destruct c eqn:H; [ | ]; ev_norm; try solve [exfalso; timeout 10 lia] ]
  end.

(* masks built from the constants (POLLHUP | POLLERR, EPOLLIN | EPOLLET ...) are computed once *)
Ltac ev_closed :=
  repeat match goal with
  | |- context [Z.lor ?a ?b] =>
    closed_term a; closed_term b; let v := eval vm_compute in (Z.lor a b) in change (Z.lor a b) with v
  end.

Ltac ev_decide K :=
  cbv [K]; ev_norm; ev_closed; rewrite ?land_lor_absorb; ev_split; ev_leaf.

(* ------------------------------------------------------------------ the constants *)
Lemma code_consts_ok : consts_ok code_consts = true.
Proof. vm_compute. reflexivity. Qed.

(* ------------------------------------------------------------------ generated = reference: small functions *)
Lemma gen_add_ctx_poll_ref : forall fdof nfd cap c,
  gen_add_ctx_poll fdof nfd cap c = ref_add_ctx_poll code_consts fdof nfd cap c.
Proof. intros. unfold gen_add_ctx_poll, ref_add_ctx_poll. ev_decide code_consts. Qed.

Lemma gen_init_poll_ref : forall evfd hints,
  gen_init_poll evfd hints = ref_init_poll code_consts evfd hints.
Proof. intros. unfold gen_init_poll, ref_init_poll, ref_capacity. ev_decide code_consts. Qed.

Lemma gen_init_epoll_ref : forall hints, gen_init_epoll hints = ref_init_epoll code_consts hints.
Proof. intros. unfold gen_init_epoll, ref_init_epoll, ref_capacity. ev_decide code_consts. Qed.

Lemma gen_add_ctx_epoll_ref : forall fdof epfd c ctlret,
  gen_add_ctx_epoll fdof epfd c ctlret = ref_add_ctx_epoll code_consts fdof c ctlret.
Proof. intros. unfold gen_add_ctx_epoll, ref_add_ctx_epoll. ev_decide code_consts. Qed.

Lemma gen_add_ctx_select_ref : forall fdof evfd nf0 c,
  gen_add_ctx_select fdof evfd nf0 c = ref_add_ctx_select fdof nf0 c.
Proof. intros. unfold gen_add_ctx_select, ref_add_ctx_select. ev_decide code_consts. Qed.

Lemma gen_init_select_ref : forall evfd hints garbage, gen_init_select evfd hints garbage = ref_init_select evfd.
Proof. intros. unfold gen_init_select, ref_init_select. ev_decide code_consts. Qed.

Lemma gen_loop_add_ctx_ref : forall fdof ty tid cur nbret c0 c bret,
  gen_loop_add_ctx fdof ty tid cur nbret c0 c bret = ref_loop_add_ctx fdof tid cur nbret c0 c bret.
Proof. intros. unfold gen_loop_add_ctx, ref_loop_add_ctx. ev_decide code_consts. Qed.

Lemma gen_loop_run_2_ref : forall FL TE ty c1 c2, gen_loop_run_2 FL TE ty c1 c2 = ref_loop_run all_cbs [c1; c2].
Proof. intros. unfold gen_loop_run_2, ref_loop_run. ev_decide code_consts. Qed.

Lemma gen_loop_run_nocb_ref : forall FL TE ty c1 c2, gen_loop_run_nocb FL TE ty c1 c2 = ref_loop_run no_cbs [c1; c2].
Proof. intros. unfold gen_loop_run_nocb, ref_loop_run. ev_decide code_consts. Qed.

Lemma gen_loop_init_ref : forall hints pool garbage, gen_loop_init hints pool garbage = ref_loop_init code_consts hints pool.
Proof. intros. unfold gen_loop_init, ref_loop_init. ev_decide code_consts. Qed.

Lemma gen_ctx_read_ref : forall FL fdof c len n err, gen_ctx_read FL fdof c len n err = ref_ctx_read code_consts FL c n err.
Proof. intros. unfold gen_ctx_read, ref_ctx_read. ev_decide code_consts. Qed.

(* ------------------------------------------------------------------ generated = reference: epoll *)
Lemma gen_epoll_run_none_ref : forall FL TE fdof evfd epfd cap p1 p2 e1 e2 err,
  gen_epoll_run_none FL TE fdof evfd epfd cap p1 p2 e1 e2 err =
  ref_epoll_run code_consts FL TE all_cbs None fdof evfd cap (Some []) err.
Proof. intros. unfold gen_epoll_run_none, ref_epoll_run. ev_decide code_consts. Qed.

Lemma gen_epoll_run_err_ref : forall FL TE fdof evfd epfd cap p1 p2 e1 e2 err,
  gen_epoll_run_err FL TE fdof evfd epfd cap p1 p2 e1 e2 err =
  ref_epoll_run code_consts FL TE all_cbs None fdof evfd cap (None) err.
Proof. intros. unfold gen_epoll_run_err, ref_epoll_run. ev_decide code_consts. Qed.

Lemma gen_epoll_run_c_ref : forall FL TE fdof evfd epfd cap p1 p2 e1 e2 err,
  gen_epoll_run_c FL TE fdof evfd epfd cap p1 p2 e1 e2 err =
  ref_epoll_run code_consts FL TE all_cbs None fdof evfd cap (Some [EvCtx p1 e1]) err.
Proof. intros. unfold gen_epoll_run_c, ref_epoll_run. ev_decide code_consts. Qed.

Lemma gen_epoll_run_s_ref : forall FL TE fdof evfd epfd cap p1 p2 e1 e2 err,
  gen_epoll_run_s FL TE fdof evfd epfd cap p1 p2 e1 e2 err =
  ref_epoll_run code_consts FL TE all_cbs None fdof evfd cap (Some [EvSig e1]) err.
Proof. intros. unfold gen_epoll_run_s, ref_epoll_run. ev_decide code_consts. Qed.

Lemma gen_epoll_run_cs_ref : forall FL TE fdof evfd epfd cap p1 p2 e1 e2 err,
  gen_epoll_run_cs FL TE fdof evfd epfd cap p1 p2 e1 e2 err =
  ref_epoll_run code_consts FL TE all_cbs None fdof evfd cap (Some [EvCtx p1 e1; EvSig e2]) err.
Proof. intros. unfold gen_epoll_run_cs, ref_epoll_run. ev_decide code_consts. Qed.

Lemma gen_epoll_run_sc_ref : forall FL TE fdof evfd epfd cap p1 p2 e1 e2 err,
  gen_epoll_run_sc FL TE fdof evfd epfd cap p1 p2 e1 e2 err =
  ref_epoll_run code_consts FL TE all_cbs None fdof evfd cap (Some [EvSig e1; EvCtx p2 e2]) err.
Proof. intros. unfold gen_epoll_run_sc, ref_epoll_run. ev_decide code_consts. Qed.

Lemma gen_epoll_run_cc_ref : forall FL TE fdof evfd epfd cap p1 p2 e1 e2 err,
  gen_epoll_run_cc FL TE fdof evfd epfd cap p1 p2 e1 e2 err =
  ref_epoll_run code_consts FL TE all_cbs None fdof evfd cap (Some [EvCtx p1 e1; EvCtx p2 e2]) err.
Proof. intros. unfold gen_epoll_run_cc, ref_epoll_run. ev_decide code_consts. Qed.

Lemma gen_epoll_run_timer_ref : forall FL TE fdof evfd epfd cap p1 p2 e1 e2 err tmo elapsed,
  gen_epoll_run_timer FL TE fdof evfd epfd cap p1 p2 e1 e2 err tmo elapsed =
  ref_epoll_run code_consts FL TE all_cbs (Some (tmo, elapsed)) fdof evfd cap (Some []) err.
Proof. intros. unfold gen_epoll_run_timer, ref_epoll_run. ev_decide code_consts. Qed.

Lemma gen_epoll_run_nocb_ref : forall FL TE fdof evfd epfd cap p1 p2 e1 e2 err,
  gen_epoll_run_nocb FL TE fdof evfd epfd cap p1 p2 e1 e2 err =
  ref_epoll_run code_consts FL TE no_cbs None fdof evfd cap (Some [EvCtx p1 e1; EvSig e2]) err.
Proof. intros. unfold gen_epoll_run_nocb, ref_epoll_run. ev_decide code_consts. Qed.

(* ------------------------------------------------------------------ generated = reference: select *)
Lemma gen_select_run_1_ref : forall FL TE RS fdof evfd nf0 c1 n err ks ku,
  gen_select_run_1 FL TE RS fdof evfd nf0 c1 n err =
  ref_select_run code_consts FL TE all_cbs None RS fdof evfd nf0 [c1] n err ks ku.
Proof. intros. unfold gen_select_run_1, ref_select_run. ev_decide code_consts. Qed.

Lemma gen_select_run_2_ref : forall FL TE RS fdof evfd nf0 c1 c2 n err ks ku,
  gen_select_run_2 FL TE RS fdof evfd nf0 c1 c2 n err =
  ref_select_run code_consts FL TE all_cbs None RS fdof evfd nf0 [c1; c2] n err ks ku.
Proof. intros. unfold gen_select_run_2, ref_select_run. ev_decide code_consts. Qed.

Lemma gen_select_run_timer_ref : forall FL TE RS fdof evfd nf0 n err tmo elapsed ktv_sec ktv_usec,
  gen_select_run_timer FL TE RS fdof evfd nf0 n err tmo elapsed ktv_sec ktv_usec =
  ref_select_run code_consts FL TE all_cbs (Some (tmo, elapsed)) RS fdof evfd nf0 [] n err ktv_sec ktv_usec.
Proof. intros. unfold gen_select_run_timer, ref_select_run. ev_decide code_consts. Qed.

Lemma gen_select_run_nocb_ref : forall FL TE RS fdof evfd nf0 c1 n err ks ku,
  gen_select_run_nocb FL TE RS fdof evfd nf0 c1 n err =
  ref_select_run code_consts FL TE no_cbs None RS fdof evfd nf0 [c1] n err ks ku.
Proof. intros. unfold gen_select_run_nocb, ref_select_run. ev_decide code_consts. Qed.

(* ------------------------------------------------------------------ generated = reference: poll *)
Lemma gen_poll_run_2_ref : forall FL TE AD NW NS fdof evfd a1 d1 r0 r1 r2 n err,
  gen_poll_run_2 FL TE AD NW NS fdof evfd a1 d1 r0 r1 r2 n err =
  ref_poll_run code_consts FL TE all_cbs None AD NW NS fdof false [(0, evfd, r0); (a1, d1, r1)] n err.
Proof. intros. unfold gen_poll_run_2, ref_poll_run. ev_decide code_consts. Qed.

Lemma gen_poll_run_3_ref : forall FL TE AD NW NS fdof evfd a1 a2 d1 d2 r0 r1 r2 n err,
  gen_poll_run_3 FL TE AD NW NS fdof evfd a1 a2 d1 d2 r0 r1 r2 n err =
  ref_poll_run code_consts FL TE all_cbs None AD NW NS fdof true [(0, evfd, r0); (a1, d1, r1); (a2, d2, r2)] n err.
Proof. intros. unfold gen_poll_run_3, ref_poll_run. ev_decide code_consts. Qed.

Lemma gen_poll_run_timer_ref : forall FL TE AD NW NS fdof evfd r0 n err tmo elapsed,
  gen_poll_run_timer FL TE AD NW NS fdof evfd r0 n err tmo elapsed =
  ref_poll_run code_consts FL TE all_cbs (Some (tmo, elapsed)) AD NW NS fdof true [(0, evfd, r0)] n err.
Proof. intros. unfold gen_poll_run_timer, ref_poll_run. ev_decide code_consts. Qed.

Lemma gen_poll_run_nocb_ref : forall FL TE AD NW NS fdof evfd a1 d1 r0 r1 n err,
  gen_poll_run_nocb FL TE AD NW NS fdof evfd a1 d1 r0 r1 n err =
  ref_poll_run code_consts FL TE no_cbs None AD NW NS fdof true [(0, evfd, r0); (a1, d1, r1)] n err.
Proof. intros. unfold gen_poll_run_nocb, ref_poll_run. ev_decide code_consts. Qed.
