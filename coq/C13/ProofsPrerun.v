(* C13 — exit requested BEFORE muggle_evloop_run (by the creating thread, from phase 0 of the script).
   muggle_evloop_exit sets to_exit = EXIT and wakes the loop up; every back-end tests to_exit only
   after a pass, so the pending wake-up makes the first kernel call return and the loop performs
   EXACTLY ONE pass before the clear / exit epilogue (prerun_one_pass, for every script).
   For scripts without read-callback triggers and without a scripted shutdown that pass is
   characterised exactly (pass_post): every registered context is offered everything that is pending
   for it, is closed iff its peer has terminated and cleared otherwise - in select, poll and epoll
   alike, provided poll's count n is not used up early, i.e. at most one descriptor reports input and
   hang-up together (the documented double decrement; with two or more the walk can stop above a
   ready slot and poll then differs: prerun_double_refuted).  Hence the three back-ends agree on
   the class [prx] (prerun_agree). *)
From MV Require Import C13.Model C13.ProofsLife C13.ProofsIso C13.ProofsAgree C13.ProofsRead C13.ProofsFix C13.ProofsTmr C13.ProofsFlat.
From Coq Require Import Permutation.

(* ------------------------------------------------------------------ to_exit is never reset *)
Lemma toexit_do_act : forall a s, toexit s = true -> toexit (do_act a s) = true.
Proof.
  intros a s H. destruct (do_act_frame a s) as (_ & _ & _ & _ & F & _).
  destruct a; try (rewrite F; auto; reflexivity).
  - unfold do_act. destruct (cclosed (cx s y)); [|destruct (negb (is_pipe (cx s y)))]; simpl; rewrite ?toexit_edge; auto.
  - unfold do_act. simpl. rewrite toexit_edge. reflexivity.
  - unfold do_act. destruct (can_reset (cx s y)); simpl; rewrite ?toexit_edge; auto.
Qed.

Lemma toexit_do_acts : forall l s, toexit s = true -> toexit (do_acts l s) = true.
Proof. induction l as [|a l IH]; intros s H; simpl; auto. apply IH. apply toexit_do_act. auto. Qed.

Lemma toexit_cb_read : forall x s, toexit s = true -> toexit (cb_read x s) = true.
Proof. intros x s H. unfold cb_read. apply toexit_do_acts. simpl. auto. Qed.

Lemma toexit_handle_wakeup : forall s, toexit s = true -> toexit (handle_wakeup s) = true.
Proof.
  intros s H. unfold handle_wakeup.
  set (s1 := emit EWake (set_wk 0 s)).
  assert (H1 : toexit s1 = true) by (simpl; auto).
  destruct (idle s1); auto.
  destruct (phases (set_idle false s1)); [apply toexit_do_act|apply toexit_do_acts]; simpl; auto.
Qed.

Lemma toexit_sel_walk : forall f i rep s, toexit s = true -> toexit (sel_walk f i rep s) = true.
Proof.
  induction f as [|f IH]; intros i rep s H; simpl; auto.
  destruct (nth_error (clist s) i) as [x|]; auto.
  assert (H1 : toexit (if negb (Nat.eqb (lookup x rep) 0) then cb_read x s else s) = true).
  { destruct (negb _); auto. apply toexit_cb_read. auto. }
  destruct (cflag _); apply IH; simpl; auto.
Qed.

Lemma toexit_poll_step : forall i n s, toexit s = true -> toexit (fst (poll_step i n s)) = true.
Proof.
  intros i n s H. unfold poll_step. destruct (Nat.eqb i 0).
  - simpl. destruct (has_in _); auto. apply toexit_handle_wakeup. auto.
  - destruct (nth_error (parr s) i) as [[x re]|]; auto.
    destruct (has_in re); destruct (has_hup_err re); simpl;
      repeat match goal with |- context [if ?c then _ else _] => destruct c end; simpl; auto;
      try apply toexit_cb_read; auto.
Qed.

Lemma toexit_poll_walk : forall k n s, toexit s = true -> toexit (poll_walk k n s) = true.
Proof.
  induction k as [|k IH]; intros n s H; simpl; auto.
  pose proof (toexit_poll_step k n s H) as P.
  destruct (poll_step k n s) as [s' n']. simpl in P.
  destruct (Nat.eqb n' 0); auto.
Qed.

Lemma toexit_ep_step : forall x e s, toexit s = true -> toexit (ep_step x e s) = true.
Proof.
  intros x e s H. unfold ep_step. destruct (Nat.eqb x 0).
  - destruct (has_in e); auto. apply toexit_handle_wakeup. auto.
  - destruct (has_in e); [|destruct (has_hup_err e)];
      repeat match goal with |- context [if ?c then _ else _] => destruct c end; simpl; auto;
      try apply toexit_cb_read; auto.
Qed.

Lemma toexit_ep_walk : forall evs s, toexit s = true -> toexit (ep_walk evs s) = true.
Proof.
  induction evs as [|[x e] r IH]; intros s H; simpl; auto. apply IH. apply toexit_ep_step. auto.
Qed.

Lemma toexit_cb_timer : forall s, toexit s = true -> toexit (cb_timer s) = true.
Proof.
  intros s H. unfold cb_timer.
  set (s1 := emit ETimer s). assert (H1 : toexit s1 = true) by (simpl; auto).
  destruct (tphases s1); [apply toexit_do_act|apply toexit_do_acts]; simpl; auto.
Qed.

Lemma toexit_iter : forall o s, toexit s = true -> toexit (iter o s) = true.
Proof.
  intros o s H. unfold iter.
  assert (H1 : toexit (if oidle o then inject s else s) = true).
  { destruct (oidle o); auto. unfold inject. simpl. rewrite toexit_edge. auto. }
  set (s1 := if oidle o then inject s else s) in *.
  assert (D : toexit (dispatch (orep o) (on o) s1) = true).
  { unfold dispatch. destruct (bk s1).
    - unfold dispatch_select. destruct (Nat.ltb 0 (on o)); auto.
      apply toexit_sel_walk. simpl.
      destruct (negb _); simpl; auto. apply toexit_handle_wakeup. auto.
    - unfold dispatch_poll. destruct (Nat.ltb 0 (on o)); simpl; auto. apply toexit_poll_walk. auto.
    - unfold dispatch_epoll. apply toexit_ep_walk. auto. }
  destruct (tmr _); auto. apply toexit_cb_timer. auto.
Qed.

(* exit requested before run: exactly one pass, whatever the script, the back-end and the kernel *)
Theorem prerun_one_pass_oracle : forall b sc o os, toexit (start b sc) = true ->
  runs b sc (o :: os) = (finish (iter o (start b sc)), true).
Proof. intros b sc o os H. unfold runs. simpl. rewrite (toexit_iter o _ H). reflexivity. Qed.

Theorem prerun_one_pass : forall b sc fuel, toexit (start b sc) = true ->
  runks b sc (S fuel) = (finish (iter (kern_o (start b sc)) (start b sc)), true).
Proof. intros b sc fuel H. unfold runks. simpl. rewrite (toexit_iter _ _ H). reflexivity. Qed.

(* ------------------------------------------------------------------ one visit without triggers *)
(* the context after the harness' read callback (drain; EOF sets CLOSED), after the close callback, after
   muggle_ev_ctx_set_flag *)
Definition rdc (c : cst) : cst :=
  mkC (ckind c) 0 (ceof c) (cpopen c) (csht c)
      (cflag c || (if is_pipe c then ceof c else ceof c || csht c))
      (cadded c) (cregok c) (cclosed c) (coff c + cq c) (crst c).
Definition clo (c : cst) : cst :=
  mkC (ckind c) (cq c) (ceof c) (cpopen c) (csht c) (cflag c) (cadded c) (cregok c) true (coff c) (crst c).
Definition flg (c : cst) : cst :=
  mkC (ckind c) (cq c) (ceof c) (cpopen c) (csht c) true (cadded c) (cregok c) (cclosed c) (coff c) (crst c).

Lemma cb_read_tf : forall x s, trigs s = [] ->
  cb_read x s = set_trigs [] (emit (ERead x (cq (cx s x))) (updc x (rdc (cx s x)) s)).
Proof. intros x s T. unfold cb_read. simpl. rewrite T. simpl. reflexivity. Qed.

(* a context before the pass: never flagged or shut down, and a closed peer has shut its write side *)
Definition ok0 (c : cst) : Prop :=
  cflag c = false /\ csht c = false /\ (cpopen c = false -> ceof c = true) /\ crst c = false.

(* what one pass makes of it: offered everything pending; closed iff the peer's write side is shut *)
Definition vis (c : cst) : cst := if ceof c then clo (rdc c) else rdc c.
Definition fin (c : cst) : cst := if nz (events_c c) then vis c else c.

Lemma ok0_flag : forall c, ok0 c -> cflag (rdc c) = ceof c.
Proof.
  intros c (F & S & _ & _). unfold rdc. simpl. rewrite F, S. simpl.
  destruct (is_pipe c); auto. rewrite Bool.orb_false_r. auto.
Qed.

Lemma ok0_noerr : forall c, ok0 c -> ev_err c = false.
Proof. intros c (_ & _ & _ & R). unfold ev_err. rewrite R. destruct (ckind c); auto. Qed.

Lemma ok0_hup : forall c, ok0 c -> ev_hup c = true -> ceof c = true.
Proof.
  intros c (F & S & P & R) H. unfold ev_hup in H. rewrite S, ?R in H. destruct (ckind c); auto.
  - rewrite Bool.orb_false_r in H. apply Bool.negb_true_iff in H. auto.
  - discriminate.
Qed.

Lemma ok0_noin : forall c, ok0 c -> ev_in c = false -> cq c = 0 /\ (ev_hup c = true -> is_pipe c = true).
Proof.
  intros c (F & S & P & R) H. unfold ev_in, ev_hup, is_pipe in *. rewrite S, ?R in *.
  destruct (ckind c).
  - apply Nat.ltb_ge in H. split; [lia|auto].
  - apply Bool.orb_false_iff in H. destruct H as [H _]. apply Bool.orb_false_iff in H. destruct H as [H1 H2].
    apply Nat.ltb_ge in H1. split; [lia|]. rewrite Bool.orb_false_r. intros C. apply Bool.negb_true_iff in C.
    rewrite (P C) in H2. discriminate.
  - apply Bool.orb_false_iff in H. destruct H as [H _]. apply Bool.orb_false_iff in H. destruct H as [H1 H2].
    apply Nat.ltb_ge in H1. split; [lia|]. intros; discriminate.
Qed.

Lemma ok0_quiet : forall c, ok0 c -> events_c c = 0 -> cq c = 0 /\ ceof c = false.
Proof.
  intros c O E. unfold events_c in E. rewrite (ok0_noerr c O) in E.
  destruct (ev_in c) eqn:I; [destruct (ev_hup c); simpl in E; lia|].
  destruct (ev_hup c) eqn:H; [simpl in E; lia|].
  destruct (ok0_noin c O I) as [Q _]. split; auto.
  destruct O as (F & S & P & R). unfold ev_in, ev_hup in *. rewrite S, ?R in *.
  destruct (ckind c); auto.
  - apply Bool.orb_false_iff in I. destruct I as [I _]. apply Bool.orb_false_iff in I. tauto.
  - apply Bool.orb_false_iff in I. destruct I as [I _]. apply Bool.orb_false_iff in I. tauto.
Qed.

(* a hang-up without input: flagged and closed without a read callback; the same context as after a read of
   nothing *)
Lemma ok0_huponly : forall c, ok0 c -> ev_in c = false -> ev_hup c = true -> clo (flg c) = vis c.
Proof.
  intros c O I H. destruct (ok0_noin c O I) as [Q PI]. pose proof (ok0_hup c O H) as E.
  pose proof (PI H) as IP. unfold vis. rewrite E. unfold clo, flg, rdc. simpl. rewrite IP, E, Q.
  rewrite Nat.add_0_r, Bool.orb_true_r. reflexivity.
Qed.

Lemma fin_coff : forall c, ok0 c -> coff (fin c) = coff c + cq c /\ cclosed (fin c) = (cclosed c || ceof c).
Proof.
  intros c O. unfold fin. destruct (nz (events_c c)) eqn:N.
  - unfold vis. destruct (ceof c); simpl; rewrite ?Bool.orb_true_r, ?Bool.orb_false_r; auto.
  - unfold nz in N. apply Bool.negb_false_iff, Nat.eqb_eq in N.
    destruct (ok0_quiet c O N) as [Q E]. rewrite Q, E, Nat.add_0_r, Bool.orb_false_r. auto.
Qed.

(* ------------------------------------------------------------------ the pass, abstractly *)
(* s: the state when the kernel is called; t: the state after the pass *)
Definition keepx (s : st) (x : nat) : bool := negb (cclosed (fin (cx s x))).
Record pass_post (s t : st) : Prop := mkPP {
  pp_cx : forall x, cx t x = if mem x (clist s) then fin (cx s x) else cx s x;
  pp_clist : clist t = filter (keepx s) (clist s);
  pp_toexit : toexit t = toexit s
}.

(* the state in which the pass starts (exit requested before run, no triggers) *)
Record pre (s : st) : Prop := mkPre {
  pr_tf : trigs s = [];
  pr_idle : idle s = false;
  pr_inv : Inv s;
  pr_ok : forall x, ok0 (cx s x);
  pr_wk : 0 < wk s;
  pr_tmr : tmr s = false
}.

Lemma mem_false : forall x l, mem x l = false <-> ~ In x l.
Proof.
  intros x l. split.
  - intros H C. apply mem_In in C. congruence.
  - intros H. destruct (mem x l) eqn:E; auto. apply mem_In in E. contradiction.
Qed.

Lemma rm_mid : forall x (a b : list nat), ~ In x a -> ~ In x b -> rm x (a ++ x :: b) = a ++ b.
Proof.
  intros x a b Ha Hb. unfold rm. rewrite filter_app. simpl. rewrite Nat.eqb_refl. simpl.
  f_equal; apply filter_all; intros t Ht; apply Bool.negb_true_iff, Nat.eqb_neq; intro; subst; contradiction.
Qed.

Lemma filter_sub_notin : forall (f : nat -> bool) x l, ~ In x l -> ~ In x (filter f l).
Proof. intros f x l H C. apply filter_In in C. tauto. Qed.

(* ------------------------------------------------------------------ select *)
Lemma sel_walk_post : forall s0 rep post f t done,
  clist s0 = done ++ post -> NoDup (clist s0) ->
  clist t = filter (keepx s0) done ++ post ->
  trigs t = [] ->
  (forall x, In x post -> cx t x = cx s0 x) ->
  (forall x, In x done -> cx t x = fin (cx s0 x)) ->
  (forall x, ~ In x (clist s0) -> cx t x = cx s0 x) ->
  (forall x, In x (clist s0) -> ok0 (cx s0 x) /\ cclosed (cx s0 x) = false) ->
  (forall x, In x (clist s0) -> Nat.eqb (lookup x rep) 0 = negb (nz (events_c (cx s0 x)))) ->
  length post < f ->
  let t' := sel_walk f (length (filter (keepx s0) done)) rep t in
  clist t' = filter (keepx s0) (clist s0) /\
  (forall x, cx t' x = if mem x (clist s0) then fin (cx s0 x) else cx s0 x) /\
  toexit t' = toexit t.
Proof.
  intros s0 rep. induction post as [|x r IH]; intros f t done CL ND CT TF UP DN OUT OK REP LF; cbv zeta.
  - rewrite app_nil_r in *. destruct f; [lia|]. simpl.
    assert (nth_error (clist t) (length (filter (keepx s0) done)) = None) as ->.
    { apply nth_error_None. rewrite CT. lia. }
    split; [rewrite CT, CL; auto|]. split; auto.
    intros y. destruct (mem y (clist s0)) eqn:M.
    + apply mem_In in M. rewrite CL in M. auto.
    + apply mem_false in M. auto.
  - destruct f as [|f]; [simpl in LF; lia|]. simpl in LF.
    assert (Hx : In x (clist s0)) by (rewrite CL; apply in_or_app; right; left; auto).
    assert (NDx : ~ In x done /\ ~ In x r).
    { rewrite CL in ND. apply NoDup_remove_2 in ND. split; intro C; apply ND; apply in_or_app; auto. }
    destruct NDx as [NX1 NX2].
    destruct (OK x Hx) as [O NC].
    assert (CXx : cx t x = cx s0 x) by (apply UP; left; auto).
    cbn [sel_walk].
    assert (nth_error (clist t) (length (filter (keepx s0) done)) = Some x) as ->.
    { rewrite CT, nth_error_app2 by lia. rewrite Nat.sub_diag. reflexivity. }
    rewrite (REP x Hx).
    destruct (nz (events_c (cx s0 x))) eqn:NZ; cbn [negb].
    + (* reported: read callback *)
      rewrite (cb_read_tf x t TF). simpl. rewrite Nat.eqb_refl, CXx. rewrite (ok0_flag _ O).
      destruct (ceof (cx s0 x)) eqn:EF.
      * (* EOF: closed and removed *)
        match goal with |- context [sel_walk f _ rep ?t2] => set (t' := t2) end.
        assert (K : keepx s0 x = false).
        { unfold keepx, fin. rewrite NZ. unfold vis. rewrite EF. reflexivity. }
        assert (FD : filter (keepx s0) (done ++ [x]) = filter (keepx s0) done).
        { rewrite filter_app. simpl. rewrite K, app_nil_r. auto. }
        rewrite <- FD.
        assert (P1 : clist s0 = (done ++ [x]) ++ r) by (rewrite <- app_assoc; auto).
        assert (P3 : clist t' = filter (keepx s0) (done ++ [x]) ++ r).
        { unfold t'. simpl. rewrite CT, FD. apply rm_mid; auto. apply filter_sub_notin; auto. }
        assert (P4 : trigs t' = []) by reflexivity.
        assert (P5 : forall y, In y r -> cx t' y = cx s0 y).
        { intros y Hy. unfold t'. simpl. assert (y <> x) by (intro; subst; contradiction).
          apply Nat.eqb_neq in H. rewrite H. apply UP. right; auto. }
        assert (P6 : forall y, In y (done ++ [x]) -> cx t' y = fin (cx s0 y)).
        { intros y Hy. unfold t'. simpl. apply in_app_or in Hy. destruct Hy as [Hy|[<-|[]]].
          - assert (y <> x) by (intro; subst; contradiction). apply Nat.eqb_neq in H. rewrite H. auto.
          - rewrite Nat.eqb_refl. unfold fin. rewrite NZ. unfold vis. rewrite EF. reflexivity. }
        assert (P7 : forall y, ~ In y (clist s0) -> cx t' y = cx s0 y).
        { intros y Hy. unfold t'. simpl. assert (y <> x) by (intro; subst; contradiction).
          apply Nat.eqb_neq in H. rewrite H. auto. }
        destruct (IH f t' (done ++ [x]) P1 ND P3 P4 P5 P6 P7 OK REP ltac:(lia)) as (A & B & C).
        repeat split; auto; try (rewrite C; reflexivity).
      * (* data only: stays registered *)
        match goal with |- context [sel_walk f _ rep ?t2] => set (t' := t2) end.
        assert (K : keepx s0 x = true).
        { unfold keepx, fin. rewrite NZ. unfold vis. rewrite EF. simpl. rewrite NC. reflexivity. }
        assert (FD : filter (keepx s0) (done ++ [x]) = filter (keepx s0) done ++ [x]).
        { rewrite filter_app. simpl. rewrite K. auto. }
        replace (S (length (filter (keepx s0) done))) with (length (filter (keepx s0) (done ++ [x])))
          by (rewrite FD, app_length; simpl; lia).
        assert (P1 : clist s0 = (done ++ [x]) ++ r) by (rewrite <- app_assoc; auto).
        assert (P3 : clist t' = filter (keepx s0) (done ++ [x]) ++ r).
        { unfold t'. simpl. rewrite CT, FD, <- app_assoc. auto. }
        assert (P4 : trigs t' = []) by reflexivity.
        assert (P5 : forall y, In y r -> cx t' y = cx s0 y).
        { intros y Hy. unfold t'. simpl. assert (y <> x) by (intro; subst; contradiction).
          apply Nat.eqb_neq in H. rewrite H. apply UP. right; auto. }
        assert (P6 : forall y, In y (done ++ [x]) -> cx t' y = fin (cx s0 y)).
        { intros y Hy. unfold t'. simpl. apply in_app_or in Hy. destruct Hy as [Hy|[<-|[]]].
          - assert (y <> x) by (intro; subst; contradiction). apply Nat.eqb_neq in H. rewrite H. auto.
          - rewrite Nat.eqb_refl. unfold fin. rewrite NZ. unfold vis. rewrite EF. reflexivity. }
        assert (P7 : forall y, ~ In y (clist s0) -> cx t' y = cx s0 y).
        { intros y Hy. unfold t'. simpl. assert (y <> x) by (intro; subst; contradiction).
          apply Nat.eqb_neq in H. rewrite H. auto. }
        destruct (IH f t' (done ++ [x]) P1 ND P3 P4 P5 P6 P7 OK REP ltac:(lia)) as (A & B & C).
        repeat split; auto; try (rewrite C; reflexivity).
    + (* not reported: untouched, stays registered *)
      destruct O as (F0 & S0 & P0). rewrite CXx, F0.
      match goal with |- context [sel_walk f _ rep ?t2] => set (t' := t2) end.
      assert (K : keepx s0 x = true).
      { unfold keepx, fin. rewrite NZ. rewrite NC. reflexivity. }
      assert (FD : filter (keepx s0) (done ++ [x]) = filter (keepx s0) done ++ [x]).
      { rewrite filter_app. simpl. rewrite K. auto. }
      replace (S (length (filter (keepx s0) done))) with (length (filter (keepx s0) (done ++ [x])))
        by (rewrite FD, app_length; simpl; lia).
      assert (P1 : clist s0 = (done ++ [x]) ++ r) by (rewrite <- app_assoc; auto).
      assert (P3 : clist t' = filter (keepx s0) (done ++ [x]) ++ r).
      { unfold t'. simpl. rewrite CT, FD, <- app_assoc. auto. }
      assert (P4 : trigs t' = []) by (unfold t'; simpl; auto).
      assert (P5 : forall y, In y r -> cx t' y = cx s0 y).
      { intros y Hy. unfold t'. simpl. apply UP. right; auto. }
      assert (P6 : forall y, In y (done ++ [x]) -> cx t' y = fin (cx s0 y)).
      { intros y Hy. unfold t'. simpl. apply in_app_or in Hy. destruct Hy as [Hy|[<-|[]]]; auto.
        rewrite CXx. unfold fin. rewrite NZ. auto. }
      assert (P7 : forall y, ~ In y (clist s0) -> cx t' y = cx s0 y) by (intros y Hy; unfold t'; simpl; auto).
      destruct (IH f t' (done ++ [x]) P1 ND P3 P4 P5 P6 P7 OK REP ltac:(lia)) as (A & B & C).
      repeat split; auto; try (rewrite C; reflexivity).
Qed.

Lemma pre_listed : forall s, pre s -> forall x, In x (clist s) -> ok0 (cx s x) /\ cclosed (cx s x) = false.
Proof. intros s P x Hx. split; [apply (pr_ok s P)|]. apply (i_reg s (pr_inv s P) x Hx). Qed.

Lemma events_listed : forall s x, Inv s -> In x (clist s) -> events s x = events_c (cx s x).
Proof.
  intros s x I Hx. unfold events. assert (x <> 0) by (apply (i_reg s I x Hx)).
  apply Nat.eqb_neq in H. rewrite H. reflexivity.
Qed.

Lemma sel_pass : forall s, pre s -> bk s = BSelect -> BSel s -> pass_post s (iter (kern_o s) s).
Proof.
  intros s P B (S0 & SC & _).
  pose proof (pr_inv s P) as I.
  set (L := filter (fun x => nz (events s x)) (sset s)).
  assert (K : kern s = map (fun x => (x, 1)) L) by (unfold kern; rewrite B; reflexivity).
  assert (L0 : In 0 L).
  { apply filter_In. split; auto. unfold events. simpl. pose proof (pr_wk s P).
    destruct (Nat.ltb 0 (wk s)) eqn:W; auto. apply Nat.ltb_ge in W. lia. }
  assert (KN : exists p r, kern s = p :: r).
  { rewrite K. destruct L as [|a l]; [destruct L0|]. simpl. eauto. }
  destruct KN as (p & r & KE).
  rewrite (proj1 (iter_notimer s (pr_tmr s P))). unfold iter0, kern_o0. rewrite KE. cbn [oidle orep on].
  unfold dispatch. rewrite B. unfold dispatch_select.
  assert (Nat.ltb 0 (length (p :: r)) = true) as -> by reflexivity.
  assert (negb (Nat.eqb (lookup 0 (p :: r)) 0) = true) as ->.
  { rewrite <- KE, K, lookup_map1; auto. }
  unfold handle_wakeup. cbn [idle set_sset set_wk emit set_tr]. rewrite (pr_idle s P).
  match goal with |- pass_post s (sel_walk _ 0 _ ?t3) => set (s3 := t3) end.
  assert (F : length (clist s) < walk_fuel s3) by (unfold walk_fuel, s3; simpl; lia).
  assert (P4 : trigs s3 = []) by (unfold s3; simpl; apply (pr_tf s P)).
  assert (P9 : forall x, In x (clist s) -> Nat.eqb (lookup x (p :: r)) 0 = negb (nz (events_c (cx s x)))).
  { intros x Hx. rewrite <- KE, K. rewrite <- (events_listed s x I Hx).
    destruct (nz (events s x)) eqn:NZ.
    + rewrite lookup_map1; auto. apply filter_In. split; auto.
    + rewrite lookup_map1_notin; auto. intro C. apply filter_In in C. destruct C as [_ C]. congruence. }
  destruct (sel_walk_post s (p :: r) (clist s) (walk_fuel s3) s3 [] eq_refl (i_nodup s I) eq_refl P4
              (fun x _ => eq_refl) (fun x (H : In x []) => match H with end) (fun x _ => eq_refl)
              (pre_listed s P) P9 F) as (A1 & A2 & A3).
  constructor; auto.
Qed.

(* ------------------------------------------------------------------ epoll *)
Lemma ep_scan_all : forall rdl cap s, length rdl <= cap -> snd (ep_scan cap rdl s) = [].
Proof.
  induction rdl as [|x r IH]; intros cap s H; simpl; auto.
  destruct cap as [|c]; [simpl in H; lia|]. simpl in H.
  destruct (Nat.eqb (events s x) 0).
  - apply IH. lia.
  - specialize (IH c s ltac:(lia)). destruct (ep_scan c r s) as [rep rest]. simpl in *. auto.
Qed.

Lemma ep_filter_id : forall evs seen reg,
  NoDup (map fst evs) -> (forall x, In x (map fst evs) -> In x reg /\ ~ In x seen) ->
  ep_filter seen reg evs = evs.
Proof.
  induction evs as [|[x e] r IH]; intros seen reg ND H; simpl; auto.
  inversion ND as [|? ? Hx ND']; subst.
  destruct (H x (or_introl eq_refl)) as [Hr Hs].
  assert (mem x reg = true) as -> by (apply mem_In; auto).
  assert (mem x seen = false) as -> by (apply mem_false; auto). simpl.
  f_equal. apply IH; auto. intros y Hy. destruct (H y (or_intror Hy)) as [A B]. split; auto.
  intros [C|C]; [subst; contradiction|contradiction].
Qed.

Lemma rm_filter : forall x (g : nat -> bool) l,
  rm x (filter g l) = filter (fun y => negb (Nat.eqb y x) && g y) l.
Proof.
  intros x g l. unfold rm. induction l as [|a l IH]; simpl; auto.
  destruct (g a) eqn:G; simpl.
  - rewrite Bool.andb_true_r. destruct (Nat.eqb a x); simpl; rewrite IH; auto.
  - rewrite Bool.andb_false_r. auto.
Qed.

Definition gk (s0 : st) (vd : list nat) (y : nat) : bool := negb (mem y vd) || keepx s0 y.

Lemma ep_walk_post : forall s0 evs t vd,
  NoDup (map fst evs) ->
  (forall x e, In (x, e) evs -> (x = 0 \/ In x (clist s0)) /\ e = events s0 x /\ e <> 0 /\ ~ In x vd) ->
  (forall x, In x (clist s0) -> ok0 (cx s0 x) /\ cclosed (cx s0 x) = false) ->
  (forall x, In x (clist s0) -> x <> 0) ->
  0 < wk s0 ->
  trigs t = [] -> idle t = false ->
  (forall x, In x vd -> cx t x = fin (cx s0 x)) ->
  (forall x, ~ In x vd -> cx t x = cx s0 x) ->
  clist t = filter (gk s0 vd) (clist s0) ->
  ~ In 0 vd ->
  let t' := ep_walk evs t in
  let V := rev (filter (fun x => negb (Nat.eqb x 0)) (map fst evs)) ++ vd in
  (forall x, In x V -> cx t' x = fin (cx s0 x)) /\ (forall x, ~ In x V -> cx t' x = cx s0 x) /\
  clist t' = filter (gk s0 V) (clist s0) /\ toexit t' = toexit t.
Proof.
  intros s0. induction evs as [|[x e] r IH]; intros t vd ND EV OK NZ0 WK TF ID VD NVD CL N0; cbv zeta.
  - simpl. repeat split; auto.
  - inversion ND as [|? ? Hx ND']; subst.
    destruct (EV x e (or_introl eq_refl)) as (XC & Ee & En & Xv).
    assert (EV' : forall y e', In (y, e') r -> (y = 0 \/ In y (clist s0)) /\ e' = events s0 y /\ e' <> 0 /\ ~ In y (x :: vd)).
    { intros y e' Hy. destruct (EV y e' (or_intror Hy)) as (A & B & C & D). repeat split; auto.
      intros [<-|F]; [|contradiction]. apply Hx. apply in_map_iff. exists (x, e'). auto. }
    cbn [ep_walk map fst filter].
    destruct (Nat.eqb x 0) eqn:X0.
    + (* the signal descriptor: wake callback, not the idle one *)
      apply Nat.eqb_eq in X0. subst x. unfold ep_step. simpl Nat.eqb. cbv iota.
      assert (HI : has_in e = true).
      { rewrite Ee. unfold events. simpl. destruct (Nat.ltb 0 (wk s0)) eqn:W; auto. apply Nat.ltb_ge in W. lia. }
      rewrite HI. unfold handle_wakeup. cbn [idle set_wk emit set_tr]. rewrite ID.
      simpl negb. cbv iota.
      assert (EV0 : forall y e', In (y, e') r -> (y = 0 \/ In y (clist s0)) /\ e' = events s0 y /\ e' <> 0 /\ ~ In y vd).
      { intros y e' Hy. destruct (EV' y e' Hy) as (A & B & C & D). repeat split; auto. intro F; apply D; right; auto. }
      destruct (IH (emit EWake (set_wk 0 t)) vd ND' EV0 OK NZ0 WK TF ID VD NVD CL N0) as (A & B & C & D).
      repeat split; auto.
    + (* a context *)
      apply Nat.eqb_neq in X0. destruct XC as [XC|XC]; [contradiction|].
      destruct (OK x XC) as [O NC].
      assert (CXx : cx t x = cx s0 x) by (apply NVD; auto).
      assert (Ec : e = events_c (cx s0 x)).
      { rewrite Ee. unfold events. apply Nat.eqb_neq in X0. rewrite X0. reflexivity. }
      destruct (events_c_bits (cx s0 x) (proj2 (proj2 (proj2 O)))) as [BI BH]. rewrite <- Ec in BI, BH.
      assert (NZ : nz (events_c (cx s0 x)) = true).
      { unfold nz. rewrite <- Ec. apply Bool.negb_true_iff, Nat.eqb_neq. auto. }
      simpl negb. cbv iota. cbn [rev]. rewrite <- app_assoc. cbn [app].
      (* the context after the visit is fin; closed iff its peer's write side is shut *)
      assert (STEP : exists t2, ep_step x e t = t2 /\
                trigs t2 = [] /\ idle t2 = false /\ toexit t2 = toexit t /\
                (forall y, cx t2 y = if Nat.eqb y x then fin (cx s0 x) else cx t y) /\
                clist t2 = if keepx s0 x then clist t else rm x (clist t)).
      { unfold ep_step. apply Nat.eqb_neq in X0. rewrite X0. apply Nat.eqb_neq in X0.
        rewrite BI, BH. unfold keepx, fin. rewrite NZ. unfold vis.
        destruct (ev_in (cx s0 x)) eqn:EI.
        - rewrite (cb_read_tf x t TF). simpl. rewrite Nat.eqb_refl, CXx, (ok0_flag _ O).
          destruct (ceof (cx s0 x)) eqn:EF; simpl; rewrite ?NC; simpl;
            (eexists; split; [reflexivity|]; simpl; rewrite ?Nat.eqb_refl; repeat split; auto;
             intros y; destruct (Nat.eqb y x); reflexivity).
        - destruct (ev_hup (cx s0 x)) eqn:EH.
          + pose proof (ok0_hup _ O EH) as EF. pose proof (ok0_huponly _ O EI EH) as HO. unfold vis in HO. rewrite EF in HO.
            rewrite EF. simpl. rewrite Nat.eqb_refl. simpl.
            eexists; split; [reflexivity|]. simpl. rewrite ?Nat.eqb_refl, CXx. repeat split; auto.
            intros y. destruct (Nat.eqb y x); [rewrite <- HO; reflexivity|reflexivity].
          + exfalso. unfold events_c in Ec. rewrite EI, EH, (ok0_noerr _ O) in Ec. simpl in Ec. congruence. }
      destruct STEP as (t2 & E2 & TF2 & ID2 & TX2 & CX2 & CL2). rewrite E2.
      assert (Q1 : forall y, In y (x :: vd) -> cx t2 y = fin (cx s0 y)).
      { intros y [<-|Hy]; rewrite CX2.
        - rewrite Nat.eqb_refl. auto.
        - destruct (Nat.eqb y x) eqn:E; [apply Nat.eqb_eq in E; subst; auto|]. auto. }
      assert (Q2 : forall y, ~ In y (x :: vd) -> cx t2 y = cx s0 y).
      { intros y Hy. rewrite CX2. destruct (Nat.eqb y x) eqn:E.
        - apply Nat.eqb_eq in E. subst. exfalso. apply Hy. left; auto.
        - apply NVD. intro; apply Hy; right; auto. }
      assert (Q3 : clist t2 = filter (gk s0 (x :: vd)) (clist s0)).
      { rewrite CL2, CL. destruct (keepx s0 x) eqn:K.
        - apply filter_ext. intros y. unfold gk. simpl. destruct (Nat.eqb y x) eqn:E; auto.
          apply Nat.eqb_eq in E. subst y. rewrite K. simpl. rewrite ?Bool.orb_true_r. reflexivity.
        - rewrite rm_filter. apply filter_ext. intros y. unfold gk. simpl. destruct (Nat.eqb y x) eqn:E; simpl; auto.
          apply Nat.eqb_eq in E. subst y. rewrite K. reflexivity. }
      assert (Q4 : ~ In 0 (x :: vd)) by (intros [F|F]; [congruence|contradiction]).
      destruct (IH t2 (x :: vd) ND' EV' OK NZ0 WK TF2 ID2 Q1 Q2 Q3 Q4) as (A & B & C & D).
      split; [|split; [|split]]; auto. rewrite D. auto.
Qed.

Lemma ep_pass : forall s, pre s -> bk s = BEpoll -> BEp s -> length (erdl s) <= ecap s ->
  pass_post s (iter (kern_o s) s).
Proof.
  intros s P B ((R0 & RC) & CAP1 & [ND SUB ED]) CAP.
  pose proof (pr_inv s P) as I.
  destruct (ep_scan_facts (erdl s) (ecap s) s ND) as (F1 & F2 & _ & _ & F5 & F6).
  pose proof (ep_scan_all (erdl s) (ecap s) s CAP) as RE.
  set (rp := fst (ep_scan (ecap s) (erdl s) s)) in *.
  assert (E0 : events s 0 <> 0).
  { unfold events. simpl. pose proof (pr_wk s P). destruct (Nat.ltb 0 (wk s)) eqn:W; [discriminate|]. apply Nat.ltb_ge in W. lia. }
  assert (RN : rp <> []).
  { apply F6; auto. exists 0. split; auto. destruct (ED 0 R0 E0) as [H|[]]; auto. }
  assert (K : kern s = rp) by (unfold kern; rewrite B; reflexivity).
  destruct rp as [|p r] eqn:RP; [congruence|]. rewrite <- RP in *.
  rewrite (proj1 (iter_notimer s (pr_tmr s P))). unfold iter0, kern_o0. rewrite K, RP. cbn [oidle orep on]. rewrite <- RP.
  unfold dispatch. rewrite B. unfold dispatch_epoll. fold rp. rewrite RE.
  assert (FI : ep_filter [] (ereg s) rp = rp).
  { apply ep_filter_id; auto. intros x Hx. apply in_map_iff in Hx. destruct Hx as ([y e] & <- & Hy). simpl.
    destruct (F1 y e Hy) as (A & _). split; auto. }
  rewrite FI. cbn [filter].
  set (s1 := set_erdl [] s).
  assert (EV : forall x e, In (x, e) rp -> (x = 0 \/ In x (clist s)) /\ e = events s x /\ e <> 0 /\ ~ In x []).
  { intros x e Hx. destruct (F1 x e Hx) as (A & A2 & A3). repeat split; auto. apply (i_ereg s I B). auto. }
  destruct (ep_walk_post s rp s1 [] F2 EV (pre_listed s P) (fun x Hx => proj1 (i_reg s I x Hx)) (pr_wk s P)
              (pr_tf s P) (pr_idle s P) (fun x (H : In x []) => match H with end) (fun x _ => eq_refl))
    as (A & A' & C & D).
  { unfold s1. simpl. rewrite <- (filter_true (clist s)) at 1. apply filter_ext. intros y. reflexivity. }
  { intros []. }
  rewrite app_nil_r in *.
  set (V := rev (filter (fun x => negb (Nat.eqb x 0)) (map fst rp))) in *.
  assert (VC : forall x, In x V -> In x (clist s)).
  { intros x Hx. unfold V in Hx. apply in_rev, filter_In in Hx. destruct Hx as [Hx N0].
    apply in_map_iff in Hx. destruct Hx as ([y e] & <- & Hy). simpl in *.
    destruct (EV y e Hy) as ([->|H] & _); auto. discriminate. }
  assert (NV : forall x, In x (clist s) -> ~ In x V -> events_c (cx s x) = 0).
  { intros x Hx NVx. destruct (Nat.eq_dec (events s x) 0) as [Z|NZ]; [rewrite <- (events_listed s x I Hx); auto|].
    exfalso. apply NVx. unfold V. apply in_rev. rewrite rev_involutive. apply filter_In. split.
    - destruct (ED x (RC x Hx) NZ) as [H|[]]. destruct (F5 x H) as [G|[G|G]]; auto.
      + unfold rp in RE. rewrite RE in G. destruct G.
      + congruence.
    - apply Bool.negb_true_iff, Nat.eqb_neq. apply (i_reg s I x Hx). }
  constructor.
  - intros x. destruct (mem x (clist s)) eqn:M.
    + apply mem_In in M. destruct (in_dec Nat.eq_dec x V) as [Hv|Hv]; [auto|].
      rewrite (A' x Hv). unfold fin, nz. rewrite (NV x M Hv). reflexivity.
    + apply mem_false in M. apply A'. intro Hv. apply M. auto.
  - rewrite C. apply filter_ext_in. intros x Hx. unfold gk.
    destruct (in_dec Nat.eq_dec x V) as [Hv|Hv].
    + assert (mem x V = true) as -> by (apply mem_In; auto). reflexivity.
    + assert (mem x V = false) as -> by (apply mem_false; auto). simpl.
      unfold keepx, fin, nz. rewrite (NV x Hx Hv). simpl. rewrite (proj2 (pre_listed s P x Hx)). reflexivity.
  - rewrite D. reflexivity.
Qed.

(* ------------------------------------------------------------------ poll *)
Definition rdyc (s : st) (x : nat) : bool := nz (events_c (cx s x)).
Definition dblc (s : st) (x : nat) : bool := ev_in (cx s x) && ev_hup (cx s x).
Definition cnt (f : nat -> bool) (l : list nat) : nat := length (filter f l).
Definition dflag (s : st) (l : list nat) : nat := if Nat.eqb (cnt (dblc s) l) 0 then 0 else 1.

Lemma cnt_app1 : forall f l x, cnt f (l ++ [x]) = cnt f l + (if f x then 1 else 0).
Proof. intros. unfold cnt. rewrite filter_app, app_length. simpl. destruct (f x); simpl; lia. Qed.

Lemma cnt_zero : forall f l, cnt f l = 0 -> forall y, In y l -> f y = false.
Proof.
  intros f l H y Hy. destruct (f y) eqn:E; auto.
  assert (In y (filter f l)) by (apply filter_In; auto).
  unfold cnt in H. destruct (filter f l); [destruct H0|discriminate].
Qed.

Lemma mem_app1 : forall y l x, mem y (l ++ [x]) = mem y l || Nat.eqb y x.
Proof. intros. unfold mem. rewrite existsb_app. simpl. rewrite Bool.orb_false_r. reflexivity. Qed.

Lemma nz_events_c : forall c, ok0 c -> nz (events_c c) = ev_in c || ev_hup c.
Proof. intros c O. unfold nz, events_c. rewrite (ok0_noerr c O). destruct (ev_in c), (ev_hup c); reflexivity. Qed.

Lemma flg_rdc : forall c, ok0 c -> ceof c = true -> flg (rdc c) = rdc c.
Proof.
  intros c O E. pose proof (ok0_flag c O) as F. unfold flg, rdc in *. simpl in *. rewrite F, E. reflexivity.
Qed.

(* one context slot of the walk, without triggers: the context becomes [fin], is removed iff closed, and n is
   decremented once for input and once for hang-up *)
Lemma poll_slot_tf : forall s0 i n t x re, i <> 0 -> nth_error (parr t) i = Some (x, re) ->
  trigs t = [] -> cx t x = cx s0 x -> re = events_c (cx s0 x) -> ok0 (cx s0 x) -> cclosed (cx s0 x) = false ->
  exists t2,
    poll_step i n t = (t2, n - (if ev_in (cx s0 x) then 1 else 0) - (if ev_hup (cx s0 x) then 1 else 0)) /\
    trigs t2 = [] /\ idle t2 = idle t /\ toexit t2 = toexit t /\
    (forall y, cx t2 y = if Nat.eqb y x then fin (cx s0 x) else cx t y) /\
    clist t2 = (if keepx s0 x then clist t else rm x (clist t)) /\
    parr t2 = (if keepx s0 x then parr t else poll_remove i (parr t)).
Proof.
  intros s0 i n t x re Hi Hn TF CXx Ere O NC.
  unfold poll_step. apply Nat.eqb_neq in Hi. rewrite Hi, Hn.
  destruct (events_c_bits (cx s0 x) (proj2 (proj2 (proj2 O)))) as [BI BH]. rewrite <- Ere in BI, BH. rewrite BI, BH.
  unfold keepx, fin. rewrite (nz_events_c _ O). unfold vis.
  destruct (ev_in (cx s0 x)) eqn:EI; destruct (ev_hup (cx s0 x)) eqn:EH; cbn [orb].
  - (* input and hang-up: read, flagged, closed; counted twice *)
    pose proof (ok0_hup _ O EH) as EF. rewrite EF.
    rewrite (cb_read_tf x t TF). simpl. rewrite !Nat.eqb_refl. simpl.
    eexists; split; [reflexivity|]. simpl. rewrite ?Nat.eqb_refl, CXx. repeat split; auto.
    intros y. destruct (Nat.eqb y x); [|reflexivity].
    change (clo (flg (rdc (cx s0 x))) = clo (rdc (cx s0 x))). rewrite (flg_rdc _ O EF). reflexivity.
  - (* input only *)
    rewrite (cb_read_tf x t TF). simpl. rewrite !Nat.eqb_refl, CXx, (ok0_flag _ O).
    destruct (ceof (cx s0 x)) eqn:EF; simpl; rewrite ?NC; simpl;
      (eexists; split; [rewrite ?Nat.sub_0_r; reflexivity|]; simpl; rewrite ?Nat.eqb_refl; repeat split; auto;
       intros y; destruct (Nat.eqb y x); reflexivity).
  - (* hang-up only: flagged and closed without a read callback *)
    pose proof (ok0_hup _ O EH) as EF. pose proof (ok0_huponly _ O EI EH) as HO. unfold vis in HO. rewrite EF in HO.
    rewrite EF. simpl. rewrite !Nat.eqb_refl. simpl.
    eexists; split; [rewrite ?Nat.sub_0_r; reflexivity|]. simpl. rewrite ?Nat.eqb_refl, CXx. repeat split; auto.
    intros y. destruct (Nat.eqb y x); [rewrite <- HO; reflexivity|reflexivity].
  - (* nothing reported *)
    destruct O as (F0 & _). rewrite CXx, F0, NC. simpl.
    eexists; split; [rewrite !Nat.sub_0_r; reflexivity|]. repeat split; auto.
    intros y. destruct (Nat.eqb y x) eqn:E; auto. apply Nat.eqb_eq in E. subst. auto.
Qed.

(* the walk has nothing left to do: every slot still to be visited is quiet *)
Lemma poll_post_quiet : forall s0 t ids,
  cnt (rdyc s0) ids = 0 ->
  (forall x, In x (clist s0) -> ok0 (cx s0 x) /\ cclosed (cx s0 x) = false) ->
  (forall y, In y ids -> cx t y = cx s0 y) ->
  (forall y, In y (clist s0) -> ~ In y ids -> cx t y = fin (cx s0 y)) ->
  (forall y, ~ In y (clist s0) -> cx t y = cx s0 y) ->
  clist t = filter (fun y => mem y ids || keepx s0 y) (clist s0) ->
  (forall y, cx t y = if mem y (clist s0) then fin (cx s0 y) else cx s0 y) /\
  clist t = filter (keepx s0) (clist s0).
Proof.
  intros s0 t ids Z OK C1 C2 C3 C4.
  pose proof (cnt_zero _ _ Z) as Q.
  split.
  - intros y. destruct (mem y (clist s0)) eqn:M.
    + apply mem_In in M. destruct (in_dec Nat.eq_dec y ids) as [H|H]; [|auto].
      rewrite (C1 y H). unfold fin. specialize (Q y H). unfold rdyc in Q. rewrite Q. reflexivity.
    + apply mem_false in M. auto.
  - rewrite C4. apply filter_ext_in. intros y Hy.
    destruct (in_dec Nat.eq_dec y ids) as [H|H].
    + assert (mem y ids = true) as -> by (apply mem_In; auto). simpl.
      unfold keepx, fin. specialize (Q y H). unfold rdyc in Q. rewrite Q.
      rewrite (proj2 (OK y Hy)). reflexivity.
    + assert (mem y ids = false) as -> by (apply mem_false; auto). reflexivity.
Qed.

Lemma nth_error_nth0 : forall {A} (l : list A) (d a : A), nth_error l 0 = Some a -> nth 0 l d = a.
Proof. intros A [|b l] d a H; simpl in *; congruence. Qed.

(* the count n: every ready slot still to be visited is covered, one more while a double slot is to come *)
Lemma cnt_arith_stop : forall (bi bh : bool) R D n,
  D + (if bi && bh then 1 else 0) <= 1 ->
  R + (if bi || bh then 1 else 0) + (if Nat.eqb (D + (if bi && bh then 1 else 0)) 0 then 0 else 1) <= n ->
  n - (if bi then 1 else 0) - (if bh then 1 else 0) = 0 -> R = 0.
Proof. intros [] [] R D n; simpl; destruct D as [|[|D]]; simpl; lia. Qed.

Lemma cnt_arith_go : forall (bi bh : bool) R D n,
  D + (if bi && bh then 1 else 0) <= 1 ->
  R + (if bi || bh then 1 else 0) + (if Nat.eqb (D + (if bi && bh then 1 else 0)) 0 then 0 else 1) <= n ->
  D <= 1 /\ R + (if Nat.eqb D 0 then 0 else 1) <= n - (if bi then 1 else 0) - (if bh then 1 else 0).
Proof. intros [] [] R D n; simpl; destruct D as [|[|D]]; simpl; lia. Qed.

Lemma poll_walk_post : forall s0 e0, has_in e0 = true ->
  forall lo n t,
  (forall j, j <= length lo -> nth_error (parr t) j = nth_error ((0, e0) :: lo) j) ->
  trigs t = [] -> idle t = false ->
  NoDup (map fst lo) ->
  (forall x re, In (x, re) lo -> In x (clist s0) /\ x <> 0 /\ re = events_c (cx s0 x)) ->
  (forall x, In x (clist s0) -> ok0 (cx s0 x) /\ cclosed (cx s0 x) = false) ->
  (forall y, In y (map fst lo) -> cx t y = cx s0 y) ->
  (forall y, In y (clist s0) -> ~ In y (map fst lo) -> cx t y = fin (cx s0 y)) ->
  (forall y, ~ In y (clist s0) -> cx t y = cx s0 y) ->
  clist t = filter (fun y => mem y (map fst lo) || keepx s0 y) (clist s0) ->
  cnt (dblc s0) (map fst lo) <= 1 ->
  cnt (rdyc s0) (map fst lo) + dflag s0 (map fst lo) <= n ->
  let t' := poll_walk (S (length lo)) n t in
  (forall y, cx t' y = if mem y (clist s0) then fin (cx s0 y) else cx s0 y) /\
  clist t' = filter (keepx s0) (clist s0) /\ toexit t' = toexit t.
Proof.
  intros s0 e0 HI0. induction lo as [|[x re] lo' IH] using rev_ind;
    intros n t PF TF ID ND EN OK C1 C2 C3 C4 DB CN; cbv zeta.
  - (* only the signal slot is left *)
    cbn [length poll_walk]. unfold poll_step. cbn [Nat.eqb].
    pose proof (PF 0 (Nat.le_refl 0)) as P0. cbn [nth_error] in P0.
    rewrite (nth_error_nth0 _ (0, 0) _ P0). cbn [snd]. rewrite HI0.
    unfold handle_wakeup. cbn [idle set_wk emit set_tr]. rewrite ID.
    destruct (Nat.eqb n 0); cbn [poll_walk];
      (destruct (poll_post_quiet s0 t [] eq_refl OK C1 C2 C3 C4) as [A B]; repeat split; auto).
  - rewrite app_length. cbn [length]. rewrite Nat.add_1_r. cbn [poll_walk].
    assert (Hin : In (x, re) (lo' ++ [(x, re)])) by (apply in_or_app; right; left; auto).
    destruct (EN x re Hin) as (XC & X0 & Ere).
    destruct (OK x XC) as [O NC].
    rewrite map_app in *. cbn [map fst] in *.
    assert (NX : ~ In x (map fst lo')).
    { apply NoDup_remove_2 in ND. rewrite app_nil_r in ND. auto. }
    assert (ND' : NoDup (map fst lo')).
    { apply NoDup_remove_1 in ND. rewrite app_nil_r in ND. auto. }
    assert (CXx : cx t x = cx s0 x) by (apply C1; apply in_or_app; right; left; auto).
    assert (NTH : nth_error (parr t) (S (length lo')) = Some (x, re)).
    { rewrite PF by (rewrite app_length; simpl; lia). cbn [nth_error].
      rewrite nth_error_app2 by lia. rewrite Nat.sub_diag. reflexivity. }
    destruct (poll_slot_tf s0 (S (length lo')) n t x re ltac:(lia) NTH TF CXx Ere O NC)
      as (t2 & ST & TF2 & ID2 & TX2 & CX2 & CL2 & PA2).
    rewrite ST.
    rewrite !cnt_app1 in *. unfold dflag in CN. rewrite cnt_app1 in CN.
    set (R' := cnt (rdyc s0) (map fst lo')) in *. set (D' := cnt (dblc s0) (map fst lo')) in *.
    assert (RD : rdyc s0 x = ev_in (cx s0 x) || ev_hup (cx s0 x)) by (unfold rdyc; apply nz_events_c; auto).
    unfold dblc in DB, CN at 1. fold (dblc s0) in *.
    (* invariants for the slots below *)
    assert (Q1 : forall y, In y (map fst lo') -> cx t2 y = cx s0 y).
    { intros y Hy. rewrite CX2. assert (y <> x) by (intro; subst; contradiction).
      apply Nat.eqb_neq in H. rewrite H. apply C1. apply in_or_app; auto. }
    assert (Q2 : forall y, In y (clist s0) -> ~ In y (map fst lo') -> cx t2 y = fin (cx s0 y)).
    { intros y Hy Ny. rewrite CX2. destruct (Nat.eqb y x) eqn:E; [apply Nat.eqb_eq in E; subst; auto|].
      apply C2; auto. intro F. apply in_app_or in F. destruct F as [F|[F|[]]]; [contradiction|].
      apply Nat.eqb_neq in E. congruence. }
    assert (Q3 : forall y, ~ In y (clist s0) -> cx t2 y = cx s0 y).
    { intros y Ny. rewrite CX2. assert (y <> x) by (intro; subst; contradiction).
      apply Nat.eqb_neq in H. rewrite H. auto. }
    assert (Q4 : clist t2 = filter (fun y => mem y (map fst lo') || keepx s0 y) (clist s0)).
    { rewrite CL2, C4. destruct (keepx s0 x) eqn:K.
      - apply filter_ext. intros y. rewrite mem_app1. destruct (Nat.eqb y x) eqn:E; [|rewrite Bool.orb_false_r; auto].
        apply Nat.eqb_eq in E. subst y. rewrite K, !Bool.orb_true_r. reflexivity.
      - rewrite rm_filter. apply filter_ext. intros y. rewrite mem_app1.
        destruct (Nat.eqb y x) eqn:E; simpl; [|rewrite Bool.orb_false_r; auto].
        apply Nat.eqb_eq in E. subst y. rewrite K. assert (mem x (map fst lo') = false) as -> by (apply mem_false; auto).
        reflexivity. }
    assert (PF2 : forall j, j <= length lo' -> nth_error (parr t2) j = nth_error ((0, e0) :: lo') j).
    { intros j Hj.
      assert (E1 : nth_error (parr t) j = nth_error ((0, e0) :: lo') j).
      { rewrite PF by (rewrite app_length; simpl; lia).
        change ((0, e0) :: lo' ++ [(x, re)]) with (((0, e0) :: lo') ++ [(x, re)]).
        apply nth_error_app1. simpl. lia. }
      rewrite PA2. destruct (keepx s0 x); auto.
      rewrite poll_remove_lower; auto; [lia|]. apply nth_error_Some. congruence. }
    assert (EN2 : forall y r0, In (y, r0) lo' -> In y (clist s0) /\ y <> 0 /\ r0 = events_c (cx s0 y)).
    { intros y r0 Hy. apply EN. apply in_or_app; auto. }
    destruct (Nat.eqb (n - (if ev_in (cx s0 x) then 1 else 0) - (if ev_hup (cx s0 x) then 1 else 0)) 0) eqn:N2.
    + (* n is used up: the slots below are quiet *)
      apply Nat.eqb_eq in N2.
      assert (RZ : R' = 0).
      { unfold dblc in *. rewrite RD in CN. eapply cnt_arith_stop; eauto. }
      destruct (poll_post_quiet s0 t2 (map fst lo') RZ OK Q1 Q2 Q3 Q4) as [A B].
      repeat split; auto.
    + apply Nat.eqb_neq in N2.
      unfold dblc in DB, CN. rewrite RD in CN.
      destruct (cnt_arith_go _ _ _ _ _ DB CN) as [DB' CN'].
      destruct (IH _ t2 PF2 TF2 (eq_trans ID2 ID) ND' EN2 OK Q1 Q2 Q3 Q4 DB' CN') as (A & B & C).
      split; [exact A|]. split; [exact B|]. exact (eq_trans C TX2).
Qed.

Lemma cnt_perm : forall f l l', Permutation l l' -> cnt f l = cnt f l'.
Proof.
  intros f l l' P. unfold cnt. apply Permutation_length.
  induction P; simpl; auto.
  - destruct (f x); auto.
  - destruct (f x), (f y); auto. apply perm_swap.
  - eapply perm_trans; eauto.
Qed.

Lemma cnt_reported : forall s lo, (forall x re, In (x, re) lo -> re = events_c (cx s x)) ->
  length (filter (fun p : nat * nat => nz (snd p)) lo) = cnt (rdyc s) (map fst lo).
Proof.
  intros s. induction lo as [|[x re] lo IH]; intros H; simpl; auto.
  unfold cnt in *. simpl. unfold rdyc at 1. rewrite <- (H x re (or_introl eq_refl)).
  destruct (nz re); simpl; rewrite IH; auto; intros; apply H; right; auto.
Qed.

Lemma lookup_kern_poll_all : forall s x, bk s = BPoll -> In x (map fst (parr s)) -> lookup x (kern s) = events s x.
Proof.
  intros s x B Hx. destruct (nz (events s x)) eqn:N.
  - apply lookup_kern_poll_in; auto.
  - destruct (lookup_kern_poll s x B) as [H|H]; auto. rewrite H.
    unfold nz in N. apply Bool.negb_false_iff, Nat.eqb_eq in N. auto.
Qed.

Lemma poll_pass : forall s, pre s -> bk s = BPoll -> cnt (dblc s) (clist s) <= 1 ->
  pass_post s (iter (kern_o s) s).
Proof.
  intros s P B DB.
  pose proof (pr_inv s P) as I.
  destruct (i_poll s I B) as [HD PM].
  pose proof (poll_ids_nodup s I B) as NDI.
  destruct (parr s) as [|[z0 r0] body] eqn:PA; [discriminate|]. simpl in HD. inversion HD; subst z0. clear HD.
  simpl in PM, NDI. apply Permutation_cons_inv in PM.
  inversion NDI as [|? ? N0 NDB]; subst.
  assert (E0 : events s 0 = 1).
  { unfold events. simpl. pose proof (pr_wk s P). destruct (Nat.ltb 0 (wk s)) eqn:W; auto. apply Nat.ltb_ge in W. lia. }
  set (lo := map (fun p : nat * nat => (fst p, events s (fst p))) body).
  assert (ML : map fst lo = map fst body).
  { unfold lo. rewrite map_map. apply map_ext. auto. }
  assert (KS : kern s = filter (fun p : nat * nat => nz (snd p)) ((0, 1) :: lo)).
  { unfold kern. rewrite B, PA. simpl. rewrite E0. reflexivity. }
  assert (EN : forall x re, In (x, re) lo -> In x (clist s) /\ x <> 0 /\ re = events_c (cx s x)).
  { intros x re Hx. unfold lo in Hx. apply in_map_iff in Hx. destruct Hx as ([y r1] & E & Hy). simpl in E. inversion E; subst.
    assert (In x (map fst body)) as Hb by (apply in_map_iff; exists (x, r1); auto).
    assert (In x (clist s)) as Hc by (eapply Permutation_in; eauto).
    split; auto. split; [apply (i_reg s I x Hc)|]. apply events_listed; auto. }
  assert (KL : length (kern s) = S (cnt (rdyc s) (map fst lo))).
  { rewrite KS. simpl. f_equal. apply cnt_reported. intros x re Hx. apply EN. auto. }
  assert (PS : map (fun q : nat * nat => (fst q, lookup (fst q) (kern s))) (parr s) = (0, 1) :: lo).
  { rewrite PA. simpl. rewrite lookup_kern_poll_all, E0 by (auto; rewrite PA; left; auto). f_equal.
    unfold lo. apply map_ext_in. intros [y r1] Hy. simpl. rewrite lookup_kern_poll_all; auto.
    rewrite PA. right. apply in_map_iff. exists (y, r1). auto. }
  assert (KN : exists p r, kern s = p :: r) by (destruct (kern s); [simpl in KL; discriminate|eauto]).
  destruct KN as (p & r & KE).
  rewrite (proj1 (iter_notimer s (pr_tmr s P))). unfold iter0, kern_o0. rewrite KE. cbn [oidle orep on].
  unfold dispatch. rewrite B. unfold dispatch_poll.
  assert (Nat.ltb 0 (length (p :: r)) = true) as -> by reflexivity.
  rewrite <- KE.
  rewrite PS. cbn [parr set_parr length].
  assert (LL : length lo = length body) by (unfold lo; apply map_length).
  set (s1 := set_parr ((0, 1) :: lo) s).
  destruct (poll_walk_post s 1 eq_refl lo (length (kern s)) s1) as (A & A2 & A3).
  - intros j Hj. reflexivity.
  - apply (pr_tf s P).
  - apply (pr_idle s P).
  - rewrite ML. auto.
  - exact EN.
  - apply (pre_listed s P).
  - intros y Hy. reflexivity.
  - intros y Hy Ny. exfalso. apply Ny. rewrite ML. eapply Permutation_in; [symmetry; eauto|auto].
  - intros y Hy. reflexivity.
  - unfold s1. simpl. rewrite <- (filter_true (clist s)) at 1. apply filter_ext_in. intros y Hy.
    assert (mem y (map fst lo) = true) as ->; auto.
    apply mem_In. rewrite ML. eapply Permutation_in; [symmetry; eauto|auto].
  - rewrite ML, (cnt_perm _ _ _ PM). auto.
  - rewrite KL. unfold dflag. destruct (Nat.eqb _ 0); lia.
  - constructor; auto.
Qed.

(* ------------------------------------------------------------------ the class and the start state *)
Definition is_exit (a : action) : bool := match a with AExit => true | _ => false end.
Definition pre_act_ok (a : action) : bool := match a with AShut _ | AReset _ => false | _ => true end.
Definition hints_of (sc : script) : nat := if Nat.ltb (s_hints sc) 1 then 8 else s_hints sc.
Definition prx_state (sc : script) : st := do_acts (hd [] (s_phases sc)) (init BSelect sc).

(* PRX: a single phase (everything happens before run), no read-callback triggers, no scripted shutdown, exit
   requested in that phase, the adds fit hints_max_fd, and at most one registered descriptor reports input and
   hang-up together when the loop starts *)
Definition prx (sc : script) : bool :=
  (match s_trigs sc with [] => true | _ => false end) &&
  (match s_phases sc with [_] => true | _ => false end) &&
  forallb pre_act_ok (hd [] (s_phases sc)) && existsb is_exit (hd [] (s_phases sc)) &&
  Nat.leb (count_adds (hd [] (s_phases sc))) (hints_of sc) &&
  Nat.leb (cnt (dblc (prx_state sc)) (clist (prx_state sc))) 1 && negb (s_timer sc).

Lemma ok0_do_act : forall a s, pre_act_ok a = true -> (forall x, ok0 (cx s x)) -> forall x, ok0 (cx (do_act a s) x).
Proof.
  intros a s Hok H x. destruct a; try discriminate; unfold do_act.
  - destruct (can_write (cx s y)); [|simpl; auto].
    destruct (Nat.eqb k 0); simpl; rewrite ?cx_edge; simpl;
      (destruct (Nat.eqb x y) eqn:E; auto; apply Nat.eqb_eq in E; subst; destruct (H y) as (A & B & C & D);
       unfold ok0; simpl; repeat split; auto).
  - destruct (cpopen (cx s y) && negb (ceof (cx s y))); [|simpl; auto].
    simpl. rewrite cx_edge. simpl. destruct (Nat.eqb x y) eqn:E; auto.
    apply Nat.eqb_eq in E. subst. destruct (H y) as (A & B & C & D). unfold ok0; simpl; repeat split; auto.
  - destruct (cpopen (cx s y)); [|simpl; auto].
    destruct (is_tcp (cx s y) && ceof (cx s y)); simpl; rewrite ?cx_edge; simpl;
      (destruct (Nat.eqb x y) eqn:E; auto; apply Nat.eqb_eq in E; subst; destruct (H y) as (A & B & C & D);
       unfold ok0; simpl; repeat split; auto).
  - destruct (cadded (cx s y) || Nat.eqb y 0); [simpl; auto|].
    set (c1 := mkC _ _ _ _ _ _ true _ _ _ _).
    destruct (add_ctx_other y (updc y c1 s)) as (_ & _ & _ & D & _).
    destruct (add_ctx y (updc y c1 s)) as [s1 ok]. simpl in D. simpl. rewrite D. simpl.
    destruct (Nat.eqb x y) eqn:E; auto. apply Nat.eqb_eq in E. subst. rewrite Nat.eqb_refl.
    destruct (H y) as (A & B & C & D'). unfold ok0, c1; simpl; repeat split; auto.
  - simpl. rewrite cx_edge. simpl. apply H.
  - simpl. rewrite cx_edge. simpl. apply H.
Qed.

Lemma ok0_do_acts : forall l s, forallb pre_act_ok l = true -> (forall x, ok0 (cx s x)) ->
  forall x, ok0 (cx (do_acts l s) x).
Proof.
  induction l as [|a l IH]; intros s Hok H; simpl; auto.
  simpl in Hok. apply Bool.andb_true_iff in Hok. destruct Hok as [Ha Hl].
  apply IH; auto. apply ok0_do_act; auto.
Qed.

Lemma wk_do_act : forall a s, wk s <= wk (do_act a s) /\ (is_exit a = true -> 0 < wk (do_act a s)).
Proof.
  intros a s. destruct a; unfold do_act; simpl is_exit.
  - destruct (can_write (cx s y)); [destruct (Nat.eqb k 0)|]; simpl; rewrite ?wk_edge; simpl; split; auto; discriminate.
  - destruct (cpopen (cx s y) && negb (ceof (cx s y))); simpl; rewrite ?wk_edge; simpl; split; auto; discriminate.
  - destruct (cpopen (cx s y)); [destruct (is_tcp (cx s y) && ceof (cx s y))|]; simpl; rewrite ?wk_edge; simpl;
      split; auto; discriminate.
  - destruct (cadded (cx s y) || Nat.eqb y 0); [simpl; split; auto; discriminate|].
    set (s0 := updc y _ s).
    assert (W : wk (fst (add_ctx y s0)) = wk s0).
    { unfold add_ctx, backend_add. simpl. destruct (bk s); simpl; auto.
      - destruct (Nat.eqb _ _); simpl; auto.
      - match goal with |- context [if ?c then _ else _] => destruct c end; simpl; rewrite ?wk_edge; auto. }
    destruct (add_ctx y s0) as [s1 ok]. simpl in *. rewrite W. simpl. split; auto; discriminate.
  - destruct (cclosed (cx s y)); [|destruct (negb (is_pipe (cx s y)))]; simpl; rewrite ?wk_edge; simpl;
      split; auto; discriminate.
  - simpl. rewrite wk_edge. simpl. split; [lia|discriminate].
  - simpl. rewrite wk_edge. simpl. split; [lia|intros; lia].
  - destruct (can_reset (cx s y)); simpl; rewrite ?wk_edge; simpl; split; auto; discriminate.
Qed.

Lemma exit_do_acts : forall l s, existsb is_exit l = true ->
  toexit (do_acts l s) = true /\ 0 < wk (do_acts l s).
Proof.
  induction l as [|a l IH]; intros s H; simpl in *; [discriminate|].
  assert (MONO : forall l s, wk s <= wk (do_acts l s)).
  { clear. induction l as [|a l IH]; intros s; simpl; auto.
    eapply Nat.le_trans; [apply (wk_do_act a s)|apply IH]. }
  destruct (is_exit a) eqn:E.
  - split.
    + apply toexit_do_acts. destruct a; try discriminate. unfold do_act. simpl. rewrite toexit_edge. reflexivity.
    + eapply Nat.lt_le_trans; [apply (proj2 (wk_do_act a s) E)|apply MONO].
  - simpl in H. apply IH. auto.
Qed.

Lemma room_all_cap : forall l s, (bk s = BPoll -> length (parr s) + count_adds l <= pcap s) -> room_all l s.
Proof.
  induction l as [|a l IH]; intros s H; simpl; auto.
  rewrite count_adds_cons in H.
  destruct (do_act_frame a s) as (F1 & F2 & _ & _ & _ & F6).
  split.
  - destruct a; simpl; auto. intros B. specialize (H B). simpl in H. lia.
  - apply IH. rewrite F1, F2. intros B. specialize (H B). destruct (is_add a); lia.
Qed.

Lemma shared_backend_add0 : forall s, shared (fst (backend_add 0 s)) = shared s \/ bk s = BPoll.
Proof.
  intros s. unfold backend_add. destruct (bk s); simpl; auto.
  left. match goal with |- context [if ?c then _ else _] => destruct c end; rewrite ?shared_edge; reflexivity.
Qed.

Lemma shared_eqs : forall a b, shared a = shared b ->
  cx a = cx b /\ clist a = clist b /\ trigs a = trigs b /\ phases a = phases b /\ idle a = idle b /\
  wk a = wk b /\ toexit a = toexit b /\ tr a = tr b.
Proof. intros a b H. unfold shared in H. inversion H. repeat split; auto. Qed.

Lemma lock_idle : forall l s, idle (do_acts l s) = idle s.
Proof.
  induction l as [|a l IH]; intros s; simpl; auto. rewrite IH.
  destruct (do_act_frame a s) as (_ & _ & _ & F4 & _). auto.
Qed.

(* before run the three back-ends hold the same contexts in the same states *)
Lemma start_shared : forall b sc, count_adds (hd [] (s_phases sc)) <= hints_of sc ->
  cx (start b sc) = cx (prx_state sc) /\ clist (start b sc) = clist (prx_state sc) /\
  trigs (start b sc) = s_trigs sc /\ idle (start b sc) = false /\
  toexit (start b sc) = toexit (prx_state sc) /\ wk (start b sc) = wk (prx_state sc).
Proof.
  intros b sc CAP. unfold prx_state. set (p0 := hd [] (s_phases sc)) in *.
  assert (SH : shared (do_acts p0 (init b sc)) = shared (do_acts p0 (init BSelect sc))).
  { apply do_acts_shared; [reflexivity| |]; apply room_all_cap; simpl; intros B; try discriminate.
    unfold hints_of in CAP. lia. }
  assert (SS : shared (start b sc) = shared (do_acts p0 (init BSelect sc))).
  { unfold start. fold p0. destruct b; auto.
    rewrite <- SH. destruct (shared_backend_add0 (do_acts p0 (init BEpoll sc))) as [H|H]; auto.
    rewrite bk_do_acts in H. discriminate. }
  destruct (shared_eqs _ _ SS) as (E1 & E2 & E3 & _ & E5 & E6 & E7 & _).
  destruct (do_acts_facts p0 (init BSelect sc)) as (D1 & _).
  pose proof (lock_idle p0 (init BSelect sc)) as D5.
  repeat split; auto.
  - rewrite E3, D1. reflexivity.
  - rewrite E5, D5. reflexivity.
Qed.

Lemma prx_parts : forall sc, prx sc = true ->
  s_trigs sc = [] /\ (exists p0, s_phases sc = [p0]) /\
  forallb pre_act_ok (hd [] (s_phases sc)) = true /\ existsb is_exit (hd [] (s_phases sc)) = true /\
  count_adds (hd [] (s_phases sc)) <= hints_of sc /\
  cnt (dblc (prx_state sc)) (clist (prx_state sc)) <= 1 /\ s_timer sc = false.
Proof.
  intros sc H. unfold prx in H.
  repeat (apply Bool.andb_true_iff in H; destruct H as [H ?]).
  split; [destruct (s_trigs sc); [auto|discriminate]|].
  split; [destruct (s_phases sc) as [|p0 [|? ?]]; try discriminate; eauto|].
  repeat split; auto; try (apply Nat.leb_le; auto). apply Bool.negb_true_iff. auto.
Qed.

Lemma pre_start : forall b sc, prx sc = true -> pre (start b sc) /\ toexit (start b sc) = true.
Proof.
  intros b sc H. destruct (prx_parts sc H) as (T & _ & OKA & EX & CAP & _ & TMF).
  destruct (start_shared b sc CAP) as (E1 & E2 & E3 & E4 & E5 & E6).
  destruct (exit_do_acts (hd [] (s_phases sc)) (init BSelect sc) EX) as [TX WK]. fold (prx_state sc) in TX, WK.
  split; [|rewrite E5; auto].
  constructor.
  - rewrite E3. auto.
  - auto.
  - apply Inv_start.
  - intros x. rewrite E1. unfold prx_state. apply ok0_do_acts; auto;
      try (intros y; unfold init, c0, ok0; simpl; repeat split; auto; intros; discriminate).
  - rewrite E6. auto.
  - rewrite tmr_start. auto.
Qed.

Lemma BSel_start : forall sc, BSel (start BSelect sc).
Proof.
  intros sc. unfold start. apply BSel_do_acts; auto.
  split; [simpl; auto|]. split; [intros x []|].
  intros z Hz. simpl in Hz. destruct Hz as [<-|[]]; auto.
Qed.

(* epoll: the ready-list invariant survives an exit request (a wake-up of the signal descriptor) *)
Lemma EP_do_act_x : forall a pend s, pre_act_ok a = true -> bk s = BEpoll -> EP pend s -> EP pend (do_act a s).
Proof.
  intros a pend s Hok B E. destruct a; try discriminate; try (apply EP_do_act; auto; reflexivity).
  unfold do_act.
  eapply EP_same; [| | |eapply (EP_touch pend 0 (set_toexit true s)); [| | |eapply EP_same; [| | |apply E]]]; simpl; auto;
    try (rewrite ?ereg_edge; reflexivity).
  intros z Hz. unfold events. apply Nat.eqb_neq in Hz. rewrite Hz. auto.
Qed.

Lemma EP_do_acts_x : forall l pend s, forallb pre_act_ok l = true -> bk s = BEpoll -> EP pend s ->
  EP pend (do_acts l s).
Proof.
  induction l as [|a l IH]; intros pend s Hok B E; simpl; auto.
  simpl in Hok. apply Bool.andb_true_iff in Hok. destruct Hok as [Ha Hl].
  apply IH; auto.
  - destruct (do_act_frame a s) as (F1 & _). congruence.
  - apply EP_do_act_x; auto.
Qed.

Lemma ereg_len_do_act : forall a s, length (ereg (do_act a s)) <= length (ereg s) + (if is_add a then 1 else 0).
Proof.
  intros a s. destruct a; unfold do_act; simpl is_add.
  - destruct (can_write (cx s y)); [destruct (Nat.eqb k 0)|]; simpl; rewrite ?ereg_edge; simpl; lia.
  - destruct (cpopen (cx s y) && negb (ceof (cx s y))); simpl; rewrite ?ereg_edge; simpl; lia.
  - destruct (cpopen (cx s y)); [destruct (is_tcp (cx s y) && ceof (cx s y))|]; simpl; rewrite ?ereg_edge; simpl; lia.
  - destruct (cadded (cx s y) || Nat.eqb y 0); [simpl; lia|].
    set (s0 := updc y _ s).
    assert (A : length (ereg (fst (add_ctx y s0))) <= length (ereg s0) + 1).
    { unfold add_ctx, backend_add. simpl. destruct (bk s); simpl; try lia.
      - destruct (Nat.eqb _ _); simpl; lia.
      - match goal with |- context [if ?c then _ else _] => destruct c end; simpl; rewrite ?ereg_edge; simpl;
          rewrite app_length; simpl; lia. }
    destruct (add_ctx y s0) as [s1 ok]. simpl in *. lia.
  - destruct (cclosed (cx s y)); [|destruct (negb (is_pipe (cx s y)))]; simpl; rewrite ?ereg_edge; simpl; lia.
  - simpl. rewrite ereg_edge. simpl. lia.
  - simpl. rewrite ereg_edge. simpl. lia.
  - destruct (can_reset (cx s y)); simpl; rewrite ?ereg_edge; simpl; lia.
Qed.

Lemma ereg_len_do_acts : forall l s, length (ereg (do_acts l s)) <= length (ereg s) + count_adds l.
Proof.
  induction l as [|a l IH]; intros s; simpl.
  - unfold count_adds. simpl. lia.
  - rewrite count_adds_cons. pose proof (ereg_len_do_act a s). pose proof (IH (do_act a s)). lia.
Qed.

Lemma ecap_do_acts : forall l s, ecap (do_acts l s) = ecap s.
Proof.
  induction l as [|a l IH]; intros s; simpl; auto. rewrite IH.
  destruct (do_act_frame a s) as (_ & _ & F3 & _). auto.
Qed.

Lemma BEp_start : forall sc, prx sc = true ->
  BEp (start BEpoll sc) /\ length (erdl (start BEpoll sc)) <= ecap (start BEpoll sc).
Proof.
  intros sc H. destruct (prx_parts sc H) as (_ & _ & OKA & EX & CAP & _ & _).
  unfold start. set (p0 := hd [] (s_phases sc)) in *. set (s1 := do_acts p0 (init BEpoll sc)).
  assert (B1 : bk s1 = BEpoll) by (unfold s1; rewrite bk_do_acts; reflexivity).
  assert (CS : forall x, In x (clist s1) -> In x (ereg s1)).
  { apply csub_ereg_do_acts; auto; intros x []. }
  assert (E1 : EP [] s1).
  { apply EP_do_acts_x; auto. constructor; simpl; auto; try constructor; intros z []. }
  assert (EC : ecap s1 = S (hints_of sc)) by (unfold s1; rewrite ecap_do_acts; reflexivity).
  assert (RL : length (ereg s1) <= hints_of sc).
  { pose proof (ereg_len_do_acts p0 (init BEpoll sc)) as L. fold s1 in L. simpl in L. lia. }
  unfold backend_add. rewrite B1.
  set (s2 := set_ereg (ereg s1 ++ [0]) s1).
  assert (E2 : EP [] (if Nat.eqb (events s2 0) 0 then s2 else edge 0 s2)).
  { destruct E1 as [ND SUB ED].
    destruct (Nat.eqb (events s2 0) 0) eqn:EV.
    - apply Nat.eqb_eq in EV. constructor; simpl; auto.
      + intros z Hz. apply in_or_app. left. auto.
      + intros z Hz Hev. apply in_app_or in Hz. destruct Hz as [Hz|[<-|[]]]; [apply ED; auto|contradiction].
    - destruct (erdl_edge_cases 0 s2) as [[A C]|(A & C & D)]; constructor; rewrite ?A, ?ereg_edge; simpl; auto.
      + intros z Hz. apply in_or_app. left. auto.
      + intros z Hz Hev. rewrite events_edge in Hev. apply in_app_or in Hz.
        destruct Hz as [Hz|[<-|[]]]; [apply ED; auto|]. left. apply C. simpl. apply in_or_app. right; left; auto.
      + eapply Permutation_NoDup; [apply Permutation_cons_append|]. constructor; auto.
      + intros z Hz. apply in_app_or in Hz. destruct Hz as [Hz|[<-|[]]].
        * apply in_or_app. left. auto.
        * apply in_or_app. right; left; auto.
      + intros z Hz Hev. rewrite events_edge in Hev. apply in_app_or in Hz.
        destruct Hz as [Hz|[<-|[]]].
        * destruct (ED z Hz Hev) as [H0|[]]. left. apply in_or_app; auto.
        * left. apply in_or_app. right; left; auto. }
  simpl fst.
  set (s3 := if Nat.eqb (events s2 0) 0 then s2 else edge 0 s2) in *.
  assert (R3 : ereg s3 = ereg s1 ++ [0]) by (unfold s3; destruct (Nat.eqb _ _); rewrite ?ereg_edge; reflexivity).
  assert (C3 : clist s3 = clist s1) by (unfold s3; destruct (Nat.eqb _ _); rewrite ?clist_edge; reflexivity).
  assert (K3 : ecap s3 = ecap s1).
  { unfold s3. destruct (Nat.eqb _ _); auto. unfold edge. destruct (_ && _); reflexivity. }
  split.
  - split; [split|split]; auto.
    + rewrite R3. apply in_or_app. right; left; auto.
    + intros x Hx. rewrite R3. apply in_or_app. left. apply CS. rewrite <- C3. auto.
    + rewrite K3, EC. lia.
  - destruct E2 as [ND SUB _].
    pose proof (NoDup_incl_length ND SUB) as L. rewrite R3, app_length in L. simpl in L.
    rewrite K3, EC. lia.
Qed.

(* ------------------------------------------------------------------ the theorems *)
Lemma fresh_do_act : forall a s, (forall x, coff (cx s x) = 0 /\ cclosed (cx s x) = false) ->
  forall x, coff (cx (do_act a s) x) = 0 /\ cclosed (cx (do_act a s) x) = false.
Proof.
  intros a s H x. destruct a; unfold do_act.
  - destruct (can_write (cx s y)); [|simpl; auto].
    destruct (Nat.eqb k 0); simpl; rewrite ?cx_edge; simpl;
      (destruct (Nat.eqb x y) eqn:E; auto; apply Nat.eqb_eq in E; subst; simpl; auto).
  - destruct (cpopen (cx s y) && negb (ceof (cx s y))); [|simpl; auto].
    simpl. rewrite cx_edge. simpl. destruct (Nat.eqb x y) eqn:E; auto. apply Nat.eqb_eq in E. subst. simpl. auto.
  - destruct (cpopen (cx s y)); [|simpl; auto].
    destruct (is_tcp (cx s y) && ceof (cx s y)); simpl; rewrite ?cx_edge; simpl;
      (destruct (Nat.eqb x y) eqn:E; auto; apply Nat.eqb_eq in E; subst; simpl; auto).
  - destruct (cadded (cx s y) || Nat.eqb y 0); [simpl; auto|].
    set (c1 := mkC _ _ _ _ _ _ true _ _ _ _).
    destruct (add_ctx_other y (updc y c1 s)) as (_ & _ & _ & D & _).
    destruct (add_ctx y (updc y c1 s)) as [s1 ok]. simpl in D. simpl. rewrite D. simpl.
    destruct (Nat.eqb x y) eqn:E; auto. apply Nat.eqb_eq in E. subst. rewrite Nat.eqb_refl. simpl. auto.
  - destruct (cclosed (cx s y)) eqn:CC; [simpl; auto|].
    destruct (negb (is_pipe (cx s y))); simpl; rewrite ?cx_edge; simpl;
      (destruct (Nat.eqb x y) eqn:E; auto; apply Nat.eqb_eq in E; subst; simpl; split; [apply H|auto]).
  - simpl. rewrite cx_edge. simpl. apply H.
  - simpl. rewrite cx_edge. simpl. apply H.
  - destruct (can_reset (cx s y)); [|simpl; auto].
    simpl. rewrite cx_edge. simpl. destruct (Nat.eqb x y) eqn:E; auto. apply Nat.eqb_eq in E. subst. simpl. auto.
Qed.

Lemma fresh_do_acts : forall l s, (forall x, coff (cx s x) = 0 /\ cclosed (cx s x) = false) ->
  forall x, coff (cx (do_acts l s) x) = 0 /\ cclosed (cx (do_acts l s) x) = false.
Proof. induction l as [|a l IH]; intros s H; simpl; auto. apply IH. apply fresh_do_act. auto. Qed.

(* what every back-end makes of a PRX script: a registered context is offered what was pending when the loop
   started, is closed iff its peer's write side was shut, cleared otherwise *)
Definition prx_outcome (sc : script) (x : nat) : nat * bool * bool :=
  let d := cx (prx_state sc) x in
  if mem x (clist (prx_state sc)) then (cq d, ceof d, negb (ceof d)) else (0, false, false).

Lemma pass_outcome : forall s t, pre s -> pass_post s t -> Inv t ->
  (forall x, coff (cx s x) = 0 /\ cclosed (cx s x) = false) ->
  forall x, outcome (finish t) x =
    (if mem x (clist s) then (cq (cx s x), ceof (cx s x), negb (ceof (cx s x))) else (0, false, false)).
Proof.
  intros s t P [PX PL PT] IT FR x. unfold outcome. rewrite finish_cx, PX.
  pose proof (clear_iff t x IT) as CL.
  set (cl := existsb (is_clear_of x) (tr (finish t))) in *. clearbody cl.
  destruct (FR x) as [F1 F2].
  destruct (mem x (clist s)) eqn:M.
  - apply mem_In in M. destruct (fin_coff (cx s x) (pr_ok s P x)) as [A B]. rewrite A, B, F1, F2. simpl.
    f_equal.
    destruct cl.
    + pose proof (proj1 CL eq_refl) as K. rewrite PL in K. apply filter_In in K. destruct K as [_ K].
      unfold keepx in K. rewrite B, F2 in K. simpl in K. auto.
    + destruct (ceof (cx s x)) eqn:EF; auto. exfalso.
      assert (In x (clist t)) as HI.
      { rewrite PL. apply filter_In. split; auto. unfold keepx. rewrite B, F2. reflexivity. }
      apply CL in HI. congruence.
  - apply mem_false in M. rewrite F1, F2. f_equal.
    destruct cl; auto.
    pose proof (proj1 CL eq_refl) as K. rewrite PL in K. apply filter_In in K. tauto.
Qed.

Theorem prx_outcome_all : forall sc, prx sc = true -> forall b fuel,
  snd (runks b sc (S fuel)) = true /\
  forall x, outcome (fst (runks b sc (S fuel))) x = prx_outcome sc x.
Proof.
  intros sc H b fuel. destruct (pre_start b sc H) as [P TX].
  destruct (prx_parts sc H) as (_ & _ & _ & _ & CAP & DB & _).
  destruct (start_shared b sc CAP) as (E1 & E2 & _).
  rewrite (prerun_one_pass b sc fuel TX). split; [reflexivity|]. cbn [fst].
  destruct (Inv_start b sc) as [I0 B0].
  assert (PP : pass_post (start b sc) (iter (kern_o (start b sc)) (start b sc))).
  { destruct b.
    - apply sel_pass; auto. apply BSel_start.
    - apply poll_pass; auto. unfold dblc. rewrite E1, E2. exact DB.
    - destruct (BEp_start sc H) as [BE CL]. apply ep_pass; auto. }
  destruct (Inv_iter (kern_o (start b sc)) (start b sc) I0) as [IT _].
  intros x. rewrite (pass_outcome _ _ P PP IT).
  - unfold prx_outcome. rewrite E1, E2. reflexivity.
  - intros y. rewrite E1. unfold prx_state. apply fresh_do_acts. intros z. unfold init, c0. simpl. auto.
Qed.

(* exit requested before run: select, poll and epoll agree on every PRX script (whatever fuel >= 1) *)
Theorem prerun_agree : forall sc, prx sc = true -> forall f1 f2 f3,
  snd (runks BSelect sc (S f1)) = true /\ snd (runks BPoll sc (S f2)) = true /\ snd (runks BEpoll sc (S f3)) = true /\
  forall x, outcome (fst (runks BSelect sc (S f1))) x = outcome (fst (runks BPoll sc (S f2))) x /\
            outcome (fst (runks BSelect sc (S f1))) x = outcome (fst (runks BEpoll sc (S f3))) x.
Proof.
  intros sc H f1 f2 f3.
  destruct (prx_outcome_all sc H BSelect f1) as [A1 O1].
  destruct (prx_outcome_all sc H BPoll f2) as [A2 O2].
  destruct (prx_outcome_all sc H BEpoll f3) as [A3 O3].
  repeat split; auto; rewrite O1; auto.
Qed.

(* non-vacuity: pending input on a pipe, input and a closed peer on a unix socket (the one descriptor that
   reports input and hang-up together), an idle TCP context *)
Definition prx_example : script :=
  mkScr 4 [(1, KPipe); (2, KUnix); (3, KTcp)]
        [[AAdd 1; AAdd 2; AAdd 3; AWrite 1 5; AWrite 2 3; APclose 2; AExit]] [] false [].

Example prerun_agree_nonvacuous :
  prx prx_example = true /\ in_S prx_example = false /\
  map (prx_outcome prx_example) [1; 2; 3] = [(5, false, true); (3, true, false); (0, false, true)] /\
  map (outcome (fst (runks BPoll prx_example 1))) [1; 2; 3] = map (prx_outcome prx_example) [1; 2; 3] /\
  tr (fst (runks BPoll prx_example 1)) =
    [EExit; EClear 3; EClear 1; ERead 1 5; EClose 2; ERead 2 3; EAct AExit 0; EAct (APclose 2) 0; EAct (AWrite 2 3) 0;
     EAct (AWrite 1 5) 0; EAct (AAdd 3) 0; EAct (AAdd 2) 0; EAct (AAdd 1) 0].
Proof. vm_compute. repeat split; reflexivity. Qed.

(* the boundary of PRX is sharp in its last condition: with TWO descriptors reporting input and hang-up
   together above a ready slot, poll's count n is used up before that slot is reached and the single pass
   leaves its input undelivered - select and epoll deliver it *)
Definition prx_double_witness : script :=
  mkScr 4 [(1, KUnix); (2, KUnix); (3, KUnix)]
        [[AAdd 1; AAdd 2; AAdd 3; AWrite 1 5; AWrite 2 3; APclose 2; AWrite 3 4; APclose 3; AExit]] [] false [].

Theorem prerun_double_refuted :
  prx prx_double_witness = false /\
  cnt (dblc (prx_state prx_double_witness)) (clist (prx_state prx_double_witness)) = 2 /\
  outcome (fst (runks BSelect prx_double_witness 1)) 1 = (5, false, true) /\
  outcome (fst (runks BEpoll prx_double_witness 1)) 1 = (5, false, true) /\
  outcome (fst (runks BPoll prx_double_witness 1)) 1 = (0, false, true).
Proof. vm_compute. repeat split; reflexivity. Qed.
