(* C13 — the boundary of the class SWT for which evl_backends_agree is proved (evl_backends_agree_partial),
   in both directions.
   (1) [swt_boundary]: a script is in SWT iff it has NONE of fifteen named features (each is one way of leaving
       the class; boolean identity, no case is forgotten).
   (2) For ten of the features the back-ends can really differ: a witness script that has ONLY that feature,
       on which the three loops exit and give some context different outcomes ([boundary_witnesses]); these are
       the known finding (cross-context shutdown / exit racing with undelivered input), its order-sensitive
       relatives (a terminator racing with writes from another context or listed before an earlier write), the
       0-threshold trigger (select offers an EOF-only pipe to the read callback, poll and epoll flag it without
       one) and the capacity rejection of poll.
   (3) For the remaining five features - a trigger that ADDS a context, a trigger that shuts its OWN context
       down once everything the script can send has been read, two identical trigger lines, a connection reset
       issued from a trigger or from a phase (it acts like a close of the peer) - no disagreement is
       known; they stay inside class S of the checks (monitor: agreement required on every generated script) and
       outside the proved class.  They are stated here as what is open, not as theorems.
   Together with PRX (C13/ProofsPrerun.v: exit requested before run) this is the proved extent of agreement. *)
From MV Require Import C13.Model C13.ProofsLife C13.ProofsAgree C13.ProofsRead C13.ProofsFix C13.ProofsFlat C13.ProofsPrerun.

Definition is_shut (a : action) : bool := match a with AShut _ => true | _ => false end.
Definition is_reset (a : action) : bool := match a with AReset _ => true | _ => false end.
Definition hints_eff (sc : script) : nat := if Nat.ltb (s_hints sc) 1 then 8 else s_hints sc.

(* a trigger that shuts a context down: another context's / its own before everything was read / its own afterwards *)
Definition shut_cross (t : trigger) : bool := match tact t with AShut y => negb (Nat.eqb y (tctx t)) | _ => false end.
Definition shut_early (sc : script) (t : trigger) : bool :=
  match tact t with AShut y => Nat.eqb y (tctx t) && Nat.ltb (tbytes t) (total_w sc y) | _ => false end.
Definition shut_late (sc : script) (t : trigger) : bool :=
  match tact t with AShut y => Nat.eqb y (tctx t) && Nat.leb (total_w sc y) (tbytes t) | _ => false end.

Definition f_trig_exit (sc : script) : bool := existsb (fun t => is_exit (tact t)) (s_trigs sc).
Definition f_shut_cross (sc : script) : bool := existsb shut_cross (s_trigs sc).
Definition f_shut_early (sc : script) : bool := existsb (shut_early sc) (s_trigs sc).
Definition f_shut_late (sc : script) : bool := existsb (shut_late sc) (s_trigs sc).
Definition f_trig_add (sc : script) : bool := existsb (fun t => is_add (tact t)) (s_trigs sc).
Definition f_thr0 (sc : script) : bool := existsb (fun t => Nat.ltb (tbytes t) 1) (s_trigs sc).
Definition f_dup (sc : script) : bool := negb (nodupb (s_trigs sc)).
Definition f_unsorted (sc : script) : bool := negb (noterm_b (s_trigs sc) || sorted_tb (s_trigs sc)).
Definition f_multi (sc : script) : bool := negb (tsb (s_trigs sc)).
Definition f_ph_exit (sc : script) : bool := existsb is_exit (concat (s_phases sc)).
Definition f_ph_shut (sc : script) : bool := existsb is_shut (concat (s_phases sc)).
Definition f_cap (sc : script) : bool := negb (Nat.leb (count_adds (concat (s_phases sc))) (hints_eff sc)).
Definition f_trig_reset (sc : script) : bool := existsb (fun t => is_reset (tact t)) (s_trigs sc).
Definition f_ph_reset (sc : script) : bool := existsb is_reset (concat (s_phases sc)).
Definition f_timer (sc : script) : bool := s_timer sc.

Definition features (sc : script) : list bool :=
  [f_trig_exit sc; f_shut_cross sc; f_shut_early sc; f_shut_late sc; f_trig_add sc; f_thr0 sc; f_dup sc;
   f_unsorted sc; f_multi sc; f_ph_exit sc; f_ph_shut sc; f_cap sc; f_trig_reset sc; f_ph_reset sc; f_timer sc].

Lemma forallb_negb_existsb : forall {A} (f : A -> bool) l, forallb f l = negb (existsb (fun x => negb (f x)) l).
Proof. induction l as [|a l IH]; simpl; auto. rewrite IH. destruct (f a); reflexivity. Qed.

Lemma existsb_orb : forall {A} (f g : A -> bool) l, existsb (fun x => f x || g x) l = existsb f l || existsb g l.
Proof.
  induction l as [|a l IH]; simpl; auto. rewrite IH.
  destruct (f a), (g a), (existsb f l), (existsb g l); reflexivity.
Qed.

Lemma existsb_ext' : forall {A} (f g : A -> bool) l, (forall x, f x = g x) -> existsb f l = existsb g l.
Proof. induction l as [|a l IH]; intros H; simpl; auto. rewrite H, IH; auto. Qed.

Lemma shut_split : forall sc t, is_shut (tact t) = shut_cross t || shut_early sc t || shut_late sc t.
Proof.
  intros sc t. unfold shut_cross, shut_early, shut_late. destruct (tact t); simpl; auto.
  destruct (Nat.eqb y (tctx t)); simpl; auto.
  destruct (Nat.ltb (tbytes t) (total_w sc y)) eqn:E.
  - reflexivity.
  - apply Nat.ltb_ge in E. apply Nat.leb_le in E. rewrite E. reflexivity.
Qed.

(* SWT is exactly "none of the twelve features" *)
Theorem swt_boundary : forall sc, swt sc = negb (existsb (fun b => b) (features sc)).
Proof.
  intros sc. unfold swt, features. cbn [existsb].
  assert (T : forallb (fun t => tact_ok (tact t) && Nat.leb 1 (tbytes t)) (s_trigs sc) =
              negb (f_trig_exit sc || f_shut_cross sc || f_shut_early sc || f_shut_late sc || f_trig_add sc || f_thr0 sc ||
                    f_trig_reset sc)).
  { unfold f_trig_exit, f_shut_cross, f_shut_early, f_shut_late, f_trig_add, f_thr0, f_trig_reset.
    rewrite forallb_negb_existsb. f_equal.
    rewrite <- !existsb_orb. apply existsb_ext'. intros t.
    rewrite <- !Bool.orb_assoc. rewrite (Bool.orb_assoc (shut_cross t)), (Bool.orb_assoc (shut_cross t || shut_early sc t)).
    rewrite <- (shut_split sc t).
    destruct (tact t); simpl; destruct (tbytes t) as [|n]; reflexivity. }
  rewrite T.
  assert (P : forallb phase_act_ok (concat (s_phases sc)) = negb (f_ph_exit sc || f_ph_shut sc || f_ph_reset sc)).
  { unfold f_ph_exit, f_ph_shut, f_ph_reset. rewrite forallb_negb_existsb. f_equal. rewrite <- !existsb_orb.
    apply existsb_ext'. intros a. destruct a; reflexivity. }
  rewrite P. unfold f_dup, f_unsorted, f_multi, f_cap, f_timer, hints_eff.
  destruct (f_trig_exit sc), (f_shut_cross sc), (f_shut_early sc), (f_shut_late sc), (f_trig_add sc), (f_thr0 sc),
    (nodupb (s_trigs sc)), (noterm_b (s_trigs sc) || sorted_tb (s_trigs sc)), (tsb (s_trigs sc)),
    (f_ph_exit sc), (f_ph_shut sc), (Nat.leb _ _), (f_trig_reset sc), (f_ph_reset sc), (s_timer sc); reflexivity.
Qed.

Corollary swt_iff_no_feature : forall sc, swt sc = true <-> forall b, In b (features sc) -> b = false.
Proof.
  intros sc. rewrite swt_boundary. split.
  - intros H b Hb. destruct b; auto. exfalso.
    assert (existsb (fun b => b) (features sc) = true) by (apply existsb_exists; exists true; auto).
    rewrite H0 in H. discriminate.
  - intros H. destruct (existsb (fun b => b) (features sc)) eqn:E; auto.
    apply existsb_exists in E. destruct E as (b & Hb & Bt). rewrite (H b Hb) in Bt. discriminate.
Qed.

(* ------------------------------------------------------------------ the witnesses *)
Definition disagree (sc : script) (fuel x : nat) : Prop :=
  snd (runks BSelect sc fuel) = true /\ snd (runks BPoll sc fuel) = true /\ snd (runks BEpoll sc fuel) = true /\
  (outcome (fst (runks BSelect sc fuel)) x <> outcome (fst (runks BPoll sc fuel)) x \/
   outcome (fst (runks BSelect sc fuel)) x <> outcome (fst (runks BEpoll sc fuel)) x).

Definition only (i : nat) : list bool := map (fun j => Nat.eqb i j) (seq 0 15).

(* exit requested from a read callback while another context has undelivered input: select reaches context 2
   after the write, poll before it *)
Definition w_trig_exit := mkScr 4 [(1, KUnix); (2, KUnix)] [[AAdd 1; AAdd 2; AWrite 1 5; AWrite 2 5]]
  [mkT 1 5 (AWrite 2 7); mkT 1 5 AExit] false [].
(* the known finding: context 2 shut down from context 1's callback (Model.witness_cross_shutdown) *)
(* a context shuts itself down before everything the script sends it has arrived: the write of context 1's
   trigger comes before (select) or after (poll) the shutdown *)
Definition w_shut_early := mkScr 4 [(1, KUnix); (2, KUnix)] [[AAdd 1; AAdd 2; AWrite 1 5; AWrite 2 5]]
  [mkT 1 5 (AWrite 2 7); mkT 2 5 (AShut 2)] false [].
(* threshold 0 fires at the first read callback, even one of 0 bytes: select gives an EOF-only pipe a read
   callback, poll and epoll flag it without one *)
Definition w_thr0 := mkScr 4 [(1, KPipe); (2, KUnix)] [[AAdd 1; AAdd 2; AHclose 1]] [mkT 1 0 (AWrite 2 7)] false [].
(* a terminator listed AFTER a later-threshold write of the same context: whether the write or the close of the
   peer comes first depends on how the input of context 1 is batched *)
Definition w_unsorted := mkScr 4 [(1, KUnix); (2, KUnix); (3, KUnix)]
  [[AAdd 1; AAdd 2; AAdd 3; AWrite 1 6; AWrite 3 5]]
  [mkT 1 9 (AWrite 2 8); mkT 1 6 (APclose 2); mkT 3 5 (AWrite 1 3)] false [].
(* a peer terminated by one context and written to by another *)
Definition w_multi := mkScr 4 [(1, KUnix); (2, KUnix); (3, KUnix)]
  [[AAdd 1; AAdd 2; AAdd 3; AWrite 1 5; AWrite 2 5]] [mkT 1 5 (AWrite 3 7); mkT 2 5 (APclose 3)] false [].
(* exit requested before run together with a trigger (the trigger-free case agrees: evl_prerun_exit_agree) *)
Definition w_ph_exit := mkScr 4 [(1, KUnix); (2, KUnix)] [[AAdd 1; AAdd 2; AWrite 1 5; AWrite 2 5; AExit]]
  [mkT 1 5 (AWrite 2 7)] false [].
(* a pipe context flagged from the wake callback: select closes it in that pass, epoll never hears of it *)
Definition w_ph_shut := mkScr 4 [(1, KPipe)] [[AAdd 1]; [AShut 1]] [] false [].
(* more contexts than hints_max_fd: only poll refuses *)
Definition w_cap := mkScr 1 [(1, KUnix); (2, KUnix)] [[AAdd 1; AAdd 2; AWrite 2 5]] [] false [].

(* a timer (interval 0) ticks after every pass and its phases run at different points of progress in the three
   back-ends; here the first tick exits: the loops leave after their first pass *)
Definition w_timer := mkScr 4 [(1, KUnix); (2, KUnix)] [[AAdd 1; AAdd 2; AWrite 1 5; AWrite 2 5]]
  [mkT 1 5 (AWrite 2 7)] true [].

Theorem boundary_witnesses :
  (features w_trig_exit = only 0 /\ disagree w_trig_exit 12 2) /\
  (features witness_cross_shutdown = only 1 /\ disagree witness_cross_shutdown 12 2) /\
  (features w_shut_early = only 2 /\ disagree w_shut_early 12 2) /\
  (features w_thr0 = only 5 /\ disagree w_thr0 12 2) /\
  (features w_unsorted = only 7 /\ disagree w_unsorted 12 2) /\
  (features w_multi = only 8 /\ disagree w_multi 12 3) /\
  (features w_ph_exit = only 9 /\ disagree w_ph_exit 12 2) /\
  (features w_ph_shut = only 10 /\ disagree w_ph_shut 12 1) /\
  (features w_cap = only 11 /\ disagree w_cap 12 2) /\
  (features w_timer = only 14 /\ disagree w_timer 12 2).
Proof.
  repeat split; try (vm_compute; reflexivity);
    try (left; vm_compute; intro H; discriminate H); try (right; vm_compute; intro H; discriminate H).
Qed.

(* the three features without a witness: scripts having only one of them, on which the model's back-ends agree
   (examples, not theorems about the class) *)
Definition g_add := mkScr 4 [(1, KUnix); (2, KUnix)] [[AAdd 1; AWrite 1 5; AWrite 2 5]] [mkT 1 5 (AAdd 2)] false [].
Definition g_shut_late := mkScr 4 [(1, KUnix); (2, KUnix)] [[AAdd 1; AAdd 2; AWrite 1 5; AWrite 2 5]]
  [mkT 1 5 (AWrite 2 7); mkT 2 12 (AShut 2)] false [].
Definition g_dup := mkScr 4 [(1, KUnix); (2, KUnix)] [[AAdd 1; AAdd 2; AWrite 1 5]]
  [mkT 1 5 (AWrite 2 7); mkT 1 5 (AWrite 2 7)] false [].

Example open_features_agree_on_examples :
  features g_add = only 4 /\ features g_shut_late = only 3 /\ features g_dup = only 6 /\
  agree g_add 12 /\ agree g_shut_late 12 /\ agree g_dup 12.
Proof.
  split; [vm_compute; reflexivity|]. split; [vm_compute; reflexivity|]. split; [vm_compute; reflexivity|].
  split; [|split]; intros x; (destruct x as [|[|[|x']]]; vm_compute; split; reflexivity).
Qed.
