(* C13 — event loop: executable model transcribing
     muggle/c/event/event_loop.c            (add_ctx, run: clear + exit callbacks)
     muggle/c/event/internal/event_loop_select.c / _poll.c / _epoll.c   (loop bodies)
     muggle/c/event/event_context.c         (read: EOF sets CLOSED; shutdown: flag + shutdown(RDWR))
     muggle/c/event/event_signal.c          (eventfd counter)
   together with the scripted callbacks of harness/drivers/c13_driver.c.
   Definitions only (no proofs).

   Identifiers: a context is a natural number >= 1; 0 stands for the loop's own
   event-signal fd in the back-end tables and in kernel reports.
   What the kernel reports at each poll/select/epoll_wait is an ORACLE argument
   ([oent]); [kern_*] is the model's own kernel function, used for the back-end
   agreement statements and checked separately against the logged reports. *)
From Coq Require Export List Arith Bool Lia.
Export ListNotations.

Inductive kind := KPipe | KUnix | KTcp.
Inductive backend := BSelect | BPoll | BEpoll.

(* one context = muggle_event_context_t + the state of its descriptor + harness flags *)
Record cst := mkC {
  ckind : kind;
  cq : nat;        (* bytes pending in the context's descriptor *)
  ceof : bool;     (* the peer's write side is shut (half-close or close) *)
  cpopen : bool;   (* the peer descriptor is still open *)
  csht : bool;     (* shutdown(fd, RDWR) took effect on the context's descriptor (sockets only) *)
  cflag : bool;    (* ctx->flags & MUGGLE_EV_CTX_FLAG_CLOSED *)
  cadded : bool;   (* harness: add_ctx has been attempted *)
  cregok : bool;   (* harness: that add_ctx returned 0 *)
  cclosed : bool;  (* the close callback ran (the harness closes the descriptor there) *)
  coff : nat;      (* bytes offered to the read callback so far *)
  crst : bool      (* sockets: the peer has RESET the connection (closed with SO_LINGER 0 / with unread data): the
                      kernel reports ERR and HUP as well, and the read behind the pending data fails with
                      ECONNRESET instead of returning 0 *)
}.

Definition c0 (k : kind) : cst := mkC k 0 false true false false false false false 0 false.

Inductive action :=
| AWrite (y k : nat) | AHclose (y : nat) | APclose (y : nat) | AAdd (y : nat)
| AShut (y : nat) | AWake | AExit | AReset (y : nat).

Record trigger := mkT { tctx : nat; tbytes : nat; tact : action }.

(* callback trace; EAct res: 0 = ok, 1 = skip, 2 = rejected *)
Inductive ev :=
| ERead (x n : nat) | EClose (x : nat) | EWake | EClear (x : nat) | EExit
| EAct (a : action) (res : nat) | ETimer.

Record st := mkS {
  bk : backend;
  cx : nat -> cst;
  clist : list nat;               (* evloop->ctx_list, in list order *)
  trigs : list trigger;           (* triggers not fired yet, in firing order *)
  phases : list (list action);    (* phases not run yet *)
  idle : bool;                    (* harness: the next wake callback is the idle one *)
  wk : nat;                       (* eventfd counter *)
  toexit : bool;                  (* evloop->to_exit == EXIT (status WAKE needs a second thread: C14) *)
  tr : list ev;                   (* trace, newest first *)
  parr : list (nat * nat);        (* poll: fds[]/nodes[] as (id, revents), slot 0 = signal; nfd = length *)
  pcap : nat;                     (* poll: capcity *)
  sset : list nat;                (* select: allset *)
  ereg : list nat;                (* epoll: interest list, in registration order *)
  erdl : list nat;                (* epoll: ready list (pending edges), in order *)
  ecap : nat;                     (* epoll: capacity = maxevents *)
  tmr : bool;                     (* muggle_evloop_set_timer_interval(0) + a timer callback: a tick after every pass *)
  tphases : list (list action)    (* harness: timer phases not run yet (the k-th tick runs the k-th one) *)
}.

Definition set_cx f s := mkS (bk s) f (clist s) (trigs s) (phases s) (idle s) (wk s) (toexit s) (tr s) (parr s) (pcap s) (sset s) (ereg s) (erdl s) (ecap s) (tmr s) (tphases s).
Definition set_clist l s := mkS (bk s) (cx s) l (trigs s) (phases s) (idle s) (wk s) (toexit s) (tr s) (parr s) (pcap s) (sset s) (ereg s) (erdl s) (ecap s) (tmr s) (tphases s).
Definition set_trigs l s := mkS (bk s) (cx s) (clist s) l (phases s) (idle s) (wk s) (toexit s) (tr s) (parr s) (pcap s) (sset s) (ereg s) (erdl s) (ecap s) (tmr s) (tphases s).
Definition set_phases l s := mkS (bk s) (cx s) (clist s) (trigs s) l (idle s) (wk s) (toexit s) (tr s) (parr s) (pcap s) (sset s) (ereg s) (erdl s) (ecap s) (tmr s) (tphases s).
Definition set_idle b s := mkS (bk s) (cx s) (clist s) (trigs s) (phases s) b (wk s) (toexit s) (tr s) (parr s) (pcap s) (sset s) (ereg s) (erdl s) (ecap s) (tmr s) (tphases s).
Definition set_wk n s := mkS (bk s) (cx s) (clist s) (trigs s) (phases s) (idle s) n (toexit s) (tr s) (parr s) (pcap s) (sset s) (ereg s) (erdl s) (ecap s) (tmr s) (tphases s).
Definition set_toexit b s := mkS (bk s) (cx s) (clist s) (trigs s) (phases s) (idle s) (wk s) b (tr s) (parr s) (pcap s) (sset s) (ereg s) (erdl s) (ecap s) (tmr s) (tphases s).
Definition set_tr l s := mkS (bk s) (cx s) (clist s) (trigs s) (phases s) (idle s) (wk s) (toexit s) l (parr s) (pcap s) (sset s) (ereg s) (erdl s) (ecap s) (tmr s) (tphases s).
Definition set_parr l s := mkS (bk s) (cx s) (clist s) (trigs s) (phases s) (idle s) (wk s) (toexit s) (tr s) l (pcap s) (sset s) (ereg s) (erdl s) (ecap s) (tmr s) (tphases s).
Definition set_sset l s := mkS (bk s) (cx s) (clist s) (trigs s) (phases s) (idle s) (wk s) (toexit s) (tr s) (parr s) (pcap s) l (ereg s) (erdl s) (ecap s) (tmr s) (tphases s).
Definition set_ereg l s := mkS (bk s) (cx s) (clist s) (trigs s) (phases s) (idle s) (wk s) (toexit s) (tr s) (parr s) (pcap s) (sset s) l (erdl s) (ecap s) (tmr s) (tphases s).
Definition set_erdl l s := mkS (bk s) (cx s) (clist s) (trigs s) (phases s) (idle s) (wk s) (toexit s) (tr s) (parr s) (pcap s) (sset s) (ereg s) l (ecap s) (tmr s) (tphases s).

Definition set_tphases l s := mkS (bk s) (cx s) (clist s) (trigs s) (phases s) (idle s) (wk s) (toexit s) (tr s) (parr s) (pcap s) (sset s) (ereg s) (erdl s) (ecap s) (tmr s) l.

Definition emit (e : ev) (s : st) : st := set_tr (e :: tr s) s.
Definition updc (x : nat) (c : cst) (s : st) : st :=
  set_cx (fun y => if Nat.eqb y x then c else cx s y) s.

Definition mem (x : nat) (l : list nat) : bool := existsb (Nat.eqb x) l.
Definition rm (x : nat) (l : list nat) : list nat := filter (fun y => negb (Nat.eqb y x)) l.
Definition add_set (x : nat) (l : list nat) : list nat := if mem x l then l else l ++ [x].

(* ---------------------------------------------------------------- kernel view of a descriptor *)
Definition EV_IN := 1.
Definition EV_HUP := 2.
Definition EV_ERR := 4.
Definition has_in (e : nat) : bool := Nat.odd e.
Definition has_hup_err (e : nat) : bool := negb (Nat.eqb (Nat.modulo (Nat.div e 2) 4) 0).

Definition ev_in (c : cst) : bool :=
  match ckind c with
  | KPipe => Nat.ltb 0 (cq c)
  | _ => Nat.ltb 0 (cq c) || ceof c || csht c
  end.
Definition ev_hup (c : cst) : bool :=
  match ckind c with
  | KPipe => ceof c
  | KUnix => negb (cpopen c) || csht c
  | KTcp => csht c || crst c
  end.
Definition ev_err (c : cst) : bool := match ckind c with KPipe => false | _ => crst c end.
Definition events_c (c : cst) : nat :=
  (if ev_in c then 1 else 0) + (if ev_hup c then 2 else 0) + (if ev_err c then 4 else 0).
Definition events (s : st) (x : nat) : nat :=
  if Nat.eqb x 0 then (if Nat.ltb 0 (wk s) then 1 else 0) else events_c (cx s x).

(* epoll: a wake-up on a registered descriptor queues it on the ready list once *)
Definition edge (x : nat) (s : st) : st :=
  if mem x (ereg s) && negb (mem x (erdl s)) then set_erdl (erdl s ++ [x]) s else s.

(* ---------------------------------------------------------------- muggle_evloop_add_ctx *)
Definition backend_add (x : nat) (s : st) : st * bool :=
  match bk s with
  | BSelect => (set_sset (add_set x (sset s)) s, true)            (* FD_SET; never refuses *)
  | BPoll => if Nat.eqb (length (parr s)) (pcap s) then (s, false)
             else (set_parr (parr s ++ [(x, 0)]) s, true)          (* idx = nfd++ *)
  | BEpoll => let s1 := set_ereg (ereg s ++ [x]) s in              (* EPOLL_CTL_ADD, EPOLLIN|EPOLLET *)
              ((if Nat.eqb (events s1 x) 0 then s1 else edge x s1), true)
  end.

Definition add_ctx (x : nat) (s : st) : st * bool :=
  let s1 := set_clist (clist s ++ [x]) s in                        (* muggle_linked_list_append *)
  let (s2, ok) := backend_add x s1 in
  if ok then (s2, true) else (set_clist (clist s) s2, false).       (* muggle_linked_list_remove(node) *)

(* ---------------------------------------------------------------- scripted actions (harness rules) *)
Definition can_write (c : cst) : bool := cpopen c && negb (ceof c) && negb (csht c) && negb (cclosed c).
Definition is_pipe (c : cst) : bool := match ckind c with KPipe => true | _ => false end.
(* harness rule: a reset is provoked only on a socket whose peer is open and which was not shut down / closed *)
Definition can_reset (c : cst) : bool := cpopen c && negb (is_pipe c) && negb (csht c) && negb (cclosed c).
Definition is_tcp (c : cst) : bool := match ckind c with KTcp => true | _ => false end.

Definition do_act (a : action) (s : st) : st :=
  match a with
  | AWrite y k =>
      let c := cx s y in
      if can_write c then
        let s1 := updc y (mkC (ckind c) (cq c + k) (ceof c) (cpopen c) (csht c) (cflag c) (cadded c) (cregok c) (cclosed c) (coff c) (crst c)) s in
        emit (EAct a 0) (if Nat.eqb k 0 then s1 else edge y s1)      (* a 0-byte write is no system call *)
      else emit (EAct a 1) s
  | AHclose y =>
      let c := cx s y in
      if cpopen c && negb (ceof c) then
        emit (EAct a 0) (edge y (updc y (mkC (ckind c) (cq c) true (negb (is_pipe c)) (csht c) (cflag c) (cadded c) (cregok c) (cclosed c) (coff c) (crst c)) s))
      else emit (EAct a 1) s
  | APclose y =>
      let c := cx s y in
      if cpopen c then
        let s1 := updc y (mkC (ckind c) (cq c) true false (csht c) (cflag c) (cadded c) (cregok c) (cclosed c) (coff c) (crst c)) s in
        emit (EAct a 0) (if is_tcp c && ceof c then s1 else edge y s1)
      else emit (EAct a 1) s
  | AAdd y =>
      let c := cx s y in
      if cadded c || Nat.eqb y 0 then emit (EAct a 1) s
      else
        let (s1, ok) := add_ctx y (updc y (mkC (ckind c) (cq c) (ceof c) (cpopen c) (csht c) (cflag c) true (cregok c) (cclosed c) (coff c) (crst c)) s) in
        let c1 := cx s1 y in
        emit (EAct a (if ok then 0 else 2))
             (updc y (mkC (ckind c1) (cq c1) (ceof c1) (cpopen c1) (csht c1) (cflag c1) (cadded c1) ok (cclosed c1) (coff c1) (crst c1)) s1)
  | AShut y =>                                   (* muggle_ev_ctx_shutdown *)
      let c := cx s y in
      if cclosed c then emit (EAct a 1) s
      else
        let sock := negb (is_pipe c) in
        let s1 := updc y (mkC (ckind c) (cq c) (ceof c) (cpopen c) (csht c || sock) true (cadded c) (cregok c) (cclosed c) (coff c) (crst c)) s in
        emit (EAct a 0) (if sock then edge y s1 else s1)
  | AWake => emit (EAct a 0) (edge 0 (set_wk (S (wk s)) s))      (* muggle_evloop_wakeup *)
  (* muggle_evloop_exit on the loop's (or, before run, the creating) thread: to_exit = EXIT and, in
     both branches of the code, muggle_evloop_wakeup - so that an exit requested before run() lets the
     first kernel call return and the loop performs exactly one pass *)
  | AExit => emit (EAct a 0) (edge 0 (set_wk (S (wk s)) (set_toexit true s)))
  (* the peer resets the connection (sockets only): like a close of the peer, but the kernel reports ERR and HUP
     too and the read behind the pending data returns ECONNRESET - muggle_ev_ctx_read flags the context CLOSED on
     that error exactly as on end of file (Properties: gen_loop_matches_model, muggle_ev_ctx_read) *)
  | AReset y =>
      let c := cx s y in
      if can_reset c then
        emit (EAct a 0) (edge y (updc y (mkC (ckind c) (cq c) true false (csht c) (cflag c) (cadded c) (cregok c) (cclosed c) (coff c) true) s))
      else emit (EAct a 1) s
  end.

Definition do_acts (l : list action) (s : st) : st := fold_left (fun s a => do_act a s) l s.

(* ---------------------------------------------------------------- callbacks *)
(* read callback of the harness: drain with muggle_ev_ctx_read until <= 0 (EOF sets CLOSED),
   then fire every not-yet-fired trigger of x whose threshold is reached, in order *)
Definition trig_hit (x off : nat) (t : trigger) : bool := Nat.eqb (tctx t) x && Nat.leb (tbytes t) off.

Definition cb_read (x : nat) (s : st) : st :=
  let c := cx s x in
  let n := cq c in
  let eofnow := if is_pipe c then ceof c else ceof c || csht c in
  let off := coff c + n in
  let s1 := updc x (mkC (ckind c) 0 (ceof c) (cpopen c) (csht c) (cflag c || eofnow) (cadded c) (cregok c) (cclosed c) off (crst c)) s in
  let s2 := emit (ERead x n) s1 in
  let fire := filter (trig_hit x off) (trigs s2) in
  let keep := filter (fun t => negb (trig_hit x off t)) (trigs s2) in
  do_acts (map tact fire) (set_trigs keep s2).

Definition set_flag (x : nat) (s : st) : st :=      (* muggle_ev_ctx_set_flag(ctx, CLOSED) *)
  let c := cx s x in
  updc x (mkC (ckind c) (cq c) (ceof c) (cpopen c) (csht c) true (cadded c) (cregok c) (cclosed c) (coff c) (crst c)) s.

(* close callback of the harness (closes the descriptor) *)
Definition cb_close (x : nat) (s : st) : st :=
  let c := cx s x in
  emit (EClose x) (updc x (mkC (ckind c) (cq c) (ceof c) (cpopen c) (csht c) (cflag c) (cadded c) (cregok c) true (coff c) (crst c)) s).

(* muggle_evloop_*_handle_wakeup when the signal fd is readable: clearup, wake callback
   (harness: the idle wake callback runs the next phase, or exits after the last one) *)
Definition handle_wakeup (s : st) : st :=
  let s1 := emit EWake (set_wk 0 s) in
  if idle s1 then
    let s2 := set_idle false s1 in
    match phases s2 with
    | p :: rest => do_acts p (set_phases rest s2)
    | [] => do_act AExit s2
    end
  else s1.

(* ---------------------------------------------------------------- select loop body *)
Definition lookup (x : nat) (rep : list (nat * nat)) : nat :=
  match find (fun p => Nat.eqb (fst p) x) rep with Some p => snd p | None => 0 end.

Fixpoint sel_walk (fuel i : nat) (rep : list (nat * nat)) (s : st) : st :=
  match fuel with
  | 0 => s
  | S f =>
    match nth_error (clist s) i with
    | None => s
    | Some x =>
      let s1 := if negb (Nat.eqb (lookup x rep) 0) then cb_read x s else s in     (* FD_ISSET(ctx->fd, &rset) *)
      if cflag (cx s1 x) then
        (* repaired code (fixes/C13-select-stale-fd.patch): FD_CLR(ctx->fd, &allset) first *)
        let s2 := cb_close x (set_sset (rm x (sset s1)) s1) in
        sel_walk f i rep (set_clist (rm x (clist s2)) s2)                          (* remove returns next *)
      else
        sel_walk f (S i) rep (set_sset (add_set x (sset s1)) s1)                   (* select_set_fd *)
    end
  end.

Definition count_adds (l : list action) : nat :=
  length (filter (fun a => match a with AAdd _ => true | _ => false end) l).
Definition walk_fuel (s : st) : nat :=
  S (length (clist s) + count_adds (map tact (trigs s)) + count_adds (concat (phases s))).

Definition dispatch_select (rep : list (nat * nat)) (n : nat) (s : st) : st :=
  if Nat.ltb 0 n then
    let s1 := set_sset [] s in                                                      (* FD_ZERO(&allset) *)
    let s2 := if negb (Nat.eqb (lookup 0 rep) 0) then handle_wakeup s1 else s1 in
    let s3 := set_sset (add_set 0 (sset s2)) s2 in                                  (* FD_SET(evfd) *)
    sel_walk (walk_fuel s3) 0 rep s3
  else s.

(* ---------------------------------------------------------------- poll loop body *)
Fixpoint set_nth {A} (i : nat) (v : A) (l : list A) : list A :=
  match l, i with
  | [], _ => []
  | _ :: r, 0 => v :: r
  | a :: r, S j => a :: set_nth j v r
  end.

(* removal of slot i: move the last slot into i unless i is the last, then --nfd *)
Definition poll_remove (i : nat) (l : list (nat * nat)) : list (nat * nat) :=
  match l with
  | [] => []
  | _ => if Nat.eqb i (length l - 1) then removelast l
         else set_nth i (last l (0, 0)) (removelast l)
  end.

(* n is a C int that only ever decreases and is tested with n <= 0: truncated subtraction on nat
   gives the same tests *)
Definition poll_step (i n : nat) (s : st) : st * nat :=
  if Nat.eqb i 0 then
    ((if has_in (snd (nth 0 (parr s) (0, 0))) then handle_wakeup s else s), n)
  else
    match nth_error (parr s) i with
    | None => (s, n)
    | Some (x, re) =>
      let '(s1, n1) := if has_in re then (cb_read x s, n - 1) else (s, n) in
      let '(s2, n2) := if has_hup_err re then (set_flag x s1, n1 - 1) else (s1, n1) in
      if cflag (cx s2 x) then
        let s3 := cb_close x s2 in
        let s4 := set_clist (rm x (clist s3)) s3 in
        (set_parr (poll_remove i (parr s4)) s4, n2)
      else (s2, n2)
    end.

Fixpoint poll_walk (k n : nat) (s : st) : st :=
  match k with
  | 0 => s
  | S i => let '(s', n') := poll_step i n s in
           if Nat.eqb n' 0 then s' else poll_walk i n' s'
  end.

Definition dispatch_poll (rep : list (nat * nat)) (n : nat) (s : st) : st :=
  let s1 := set_parr (map (fun p => (fst p, lookup (fst p) rep)) (parr s)) s in   (* the kernel fills revents *)
  if Nat.ltb 0 n then poll_walk (length (parr s1)) n s1 else s1.

(* ---------------------------------------------------------------- epoll loop body *)
(* kernel guarantee (modelled, not verified): epoll_wait reports registered descriptors only,
   each at most once per call *)
Fixpoint ep_filter (seen reg : list nat) (evs : list (nat * nat)) : list (nat * nat) :=
  match evs with
  | [] => []
  | (x, e) :: r => if mem x reg && negb (mem x seen) then (x, e) :: ep_filter (x :: seen) reg r
                   else ep_filter seen reg r
  end.

Definition ep_step (x e : nat) (s : st) : st :=
  if Nat.eqb x 0 then (if has_in e then handle_wakeup s else s)
  else
    let s1 := if has_in e then cb_read x s
              else if has_hup_err e then set_flag x s else s in
    if cflag (cx s1 x) then
      let s2 := set_erdl (rm x (erdl s1)) (set_ereg (rm x (ereg s1)) s1) in       (* EPOLL_CTL_DEL *)
      let s3 := cb_close x s2 in
      set_clist (rm x (clist s3)) s3
    else s1.

Fixpoint ep_walk (evs : list (nat * nat)) (s : st) : st :=
  match evs with
  | [] => s
  | (x, e) :: r => ep_walk r (ep_step x e s)
  end.

(* the kernel scans the ready list in order: an entry with events is reported (edge-triggered: it
   leaves the list), an entry without events is dropped, until maxevents are reported *)
Fixpoint ep_scan (cap : nat) (rdl : list nat) (s : st) : list (nat * nat) * list nat :=
  match rdl with
  | [] => ([], [])
  | x :: r =>
    match cap with
    | 0 => ([], rdl)
    | S c =>
      if Nat.eqb (events s x) 0 then ep_scan cap r s
      else let (rep, rest) := ep_scan c r s in ((x, events s x) :: rep, rest)
    end
  end.

Definition dispatch_epoll (rep : list (nat * nat)) (s : st) : st :=
  let evs := ep_filter [] (ereg s) rep in
  let rest := snd (ep_scan (ecap s) (erdl s) s) in
  let s1 := set_erdl (filter (fun y => negb (mem y (map fst evs))) rest) s in
  ep_walk evs s1.

(* ---------------------------------------------------------------- the loop *)
Record oent := mkO { oidle : bool; orep : list (nat * nat); on : nat }.

(* harness: nothing ready -> muggle_evloop_wakeup, the next wake callback is the idle one *)
Definition inject (s : st) : st := set_idle true (edge 0 (set_wk (S (wk s)) s)).

Definition dispatch (rep : list (nat * nat)) (n : nat) (s : st) : st :=
  match bk s with
  | BSelect => dispatch_select rep n s
  | BPoll => dispatch_poll rep n s
  | BEpoll => dispatch_epoll rep s
  end.

(* timer callback of the harness: the k-th tick runs the k-th timer phase, the tick after the last one exits *)
Definition cb_timer (s : st) : st :=
  let s1 := emit ETimer s in
  match tphases s1 with
  | p :: rest => do_acts p (set_tphases rest s1)
  | [] => do_act AExit s1
  end.

(* one iteration of the back-end loop: the kernel call, the pass, then (interval 0: after EVERY pass, also one
   in which the kernel had nothing to report) the timer tick; to_exit is tested afterwards ([run]) *)
Definition iter (o : oent) (s : st) : st :=
  let s1 := dispatch (orep o) (on o) (if oidle o then inject s else s) in
  if tmr s1 then cb_timer s1 else s1.

(* muggle_evloop_run after the back-end loop returned: clear callbacks in list order, exit callback *)
Definition finish (s : st) : st :=
  emit EExit (fold_left (fun s x => emit (EClear x) s) (clist s) s).

Fixpoint run (os : list oent) (s : st) : st * bool :=
  match os with
  | [] => (s, false)
  | o :: r => let s1 := iter o s in
              if toexit s1 then (finish s1, true) else run r s1
  end.

(* ---------------------------------------------------------------- the model's own kernel *)
Definition nz (e : nat) : bool := negb (Nat.eqb e 0).

Definition kern (s : st) : list (nat * nat) :=
  match bk s with
  | BSelect => map (fun x => (x, 1)) (filter (fun x => nz (events s x)) (sset s))
  | BPoll => filter (fun p => nz (snd p)) (map (fun p => (fst p, events s (fst p))) (parr s))
  | BEpoll => fst (ep_scan (ecap s) (erdl s) s)
  end.

(* one kernel call as the wrapped harness sees it: idle detection, then the report *)
Definition kern_o (s : st) : oent :=
  match kern s with
  | [] => if tmr s then mkO false [] 0       (* a timer is running: the kernel call times out (n = 0), no idle wake-up *)
          else let s1 := inject s in mkO true (kern s1) (length (kern s1))
  | r => mkO false r (length r)
  end.

(* the loop on the model's kernel, at most [fuel] kernel calls *)
Fixpoint runk (fuel : nat) (s : st) : st * bool :=
  match fuel with
  | 0 => (s, false)
  | S f => let s1 := iter (kern_o s) s in
           if toexit s1 then (finish s1, true) else runk f s1
  end.

(* what the loop hands to the kernel (bookkeeping made visible in the log) *)
Definition in_tbl (s : st) : list nat :=
  match bk s with
  | BSelect => sset s
  | BPoll => map fst (parr s)
  | BEpoll => ereg s
  end.

(* ---------------------------------------------------------------- initial state *)
Record script := mkScr {
  s_hints : nat;
  s_kinds : list (nat * kind);        (* declared contexts *)
  s_phases : list (list action);      (* phase 0 first *)
  s_trigs : list trigger;             (* sorted by (threshold, line) *)
  s_timer : bool;                     (* a timer (interval 0) is installed *)
  s_tphases : list (list action)      (* timer phases *)
}.

Definition kind_of (ks : list (nat * kind)) (x : nat) : kind :=
  match find (fun p => Nat.eqb (fst p) x) ks with Some p => snd p | None => KPipe end.

(* muggle_evloop_new: poll capacity = hints + 1 with the signal fd in slot 0 (nfd = 1);
   select: allset = {evfd}; epoll: capacity = hints + 1, the signal fd is registered by run() *)
Definition init (b : backend) (sc : script) : st :=
  let h := if Nat.ltb (s_hints sc) 1 then 8 else s_hints sc in
  mkS b (fun x => c0 (kind_of (s_kinds sc) x)) [] (s_trigs sc) (tl (s_phases sc)) false 0 false []
      [(0, 0)] (S h) [0] [] [] (S h) (s_timer sc) (s_tphases sc).

(* phase 0 runs before muggle_evloop_run; epoll's run() then registers the signal fd *)
Definition start (b : backend) (sc : script) : st :=
  let s1 := do_acts (hd [] (s_phases sc)) (init b sc) in
  match b with
  | BEpoll => fst (backend_add 0 s1)
  | _ => s1
  end.

Definition runs (b : backend) (sc : script) (os : list oent) : st * bool := run os (start b sc).

Definition runks (b : backend) (sc : script) (fuel : nat) : st * bool := runk fuel (start b sc).

(* ---------------------------------------------------------------- outcomes and the class S *)
(* a context's outcome: bytes offered, closed?, cleared? *)
Definition is_clear_of (x : nat) (e : ev) : bool := match e with EClear y => Nat.eqb y x | _ => false end.
Definition outcome (s : st) (x : nat) : nat * bool * bool :=
  (coff (cx s x), cclosed (cx s x), existsb (is_clear_of x) (tr s)).

Definition all_actions (sc : script) : list action := concat (s_phases sc) ++ map tact (s_trigs sc) ++ concat (s_tphases sc).
Definition act_writes_to (y : nat) (a : action) : nat :=
  match a with AWrite z k => if Nat.eqb z y then k else 0 | _ => 0 end.
Definition total_w (sc : script) (y : nat) : nat :=
  fold_right (fun a acc => act_writes_to y a + acc) 0 (all_actions sc).

(* S: no scripted exit (the loop exits at quiescence after the last phase); a context is shut down
   only from its own read callback and only once it has read everything the script can send it;
   a peer terminated from a read callback has all its callback-issued writes/terminations issued by
   that same context; no more contexts than hints_max_fd *)
Definition trig_ok (sc : script) (t : trigger) : bool :=
  match tact t with
  | AExit | AReset _ => false
  | AShut y => Nat.eqb y (tctx t) && Nat.leb (total_w sc y) (tbytes t)
  | _ => true
  end.
Definition phase_act_ok (a : action) : bool := match a with AExit | AShut _ | AReset _ => false | _ => true end.
Definition targets_term (y : nat) (a : action) : bool :=
  match a with AHclose z | APclose z => Nat.eqb z y | _ => false end.
Definition targets_any (y : nat) (a : action) : bool :=
  targets_term y a || match a with AWrite z _ => Nat.eqb z y | _ => false end.
Definition term_ok (sc : script) (y : nat) : bool :=
  match map tctx (filter (fun t => targets_term y (tact t)) (s_trigs sc)) with
  | [] => true
  | c :: _ => forallb (Nat.eqb c) (map tctx (filter (fun t => targets_any y (tact t)) (s_trigs sc)))
  end.
Definition in_S (sc : script) : bool :=
  forallb (trig_ok sc) (s_trigs sc) && forallb phase_act_ok (concat (s_phases sc)) &&
  forallb (fun p => term_ok sc (fst p)) (s_kinds sc) &&
  Nat.leb (length (s_kinds sc)) (if Nat.ltb (s_hints sc) 1 then 8 else s_hints sc) && negb (s_timer sc).

(* the replay findings/C13-cross-shutdown.case *)
Definition witness_cross_shutdown : script :=
  mkScr 8 [(1, KUnix); (2, KUnix); (3, KUnix)]
        [[AAdd 3; AAdd 2; AAdd 1; AWrite 1 5; AWrite 3 5]]
        [mkT 1 5 (AWrite 2 7); mkT 1 5 (AShut 2)] false [].
