(* C13 — read errors: a peer that RESETS the connection.  From the reset until the context's next read callback
   the kernel reports IN | HUP | ERR for the descriptor, and that read callback (which offers the pending bytes
   first) leaves the context flagged CLOSED: muggle_ev_ctx_read flags on the error exactly as on end of file.
   With the per-event decisions of the three back-ends (ProofsGenModel: a context flagged after its read callback
   is closed in that very step) the context is closed in the pass that reads it. *)
From MV Require Import C13.Model C13.ProofsLife C13.ProofsRead.
Require Import List Arith Lia Bool.
Import ListNotations.

(* the CLOSED flag is never taken back *)
Definition flm (c c' : cst) : Prop := cflag c = true -> cflag c' = true.
Definition flm_all (s s' : st) : Prop := forall z, flm (cx s z) (cx s' z).

Lemma flm_all_refl : forall s, flm_all s s.
Proof. intros s z H. exact H. Qed.
Lemma flm_all_trans : forall a b c, flm_all a b -> flm_all b c -> flm_all a c.
Proof. intros a b c H1 H2 z H. apply H2, H1, H. Qed.
Lemma flm_updc : forall y c s, flm (cx s y) c -> flm_all s (updc y c s).
Proof.
  intros y c s H z. simpl. destruct (Nat.eqb z y) eqn:E; [|intros G; exact G].
  apply Nat.eqb_eq in E. subst z. exact H.
Qed.
Lemma flm_cx_eq : forall s s', cx s' = cx s -> flm_all s s'.
Proof. intros s s' H z G. rewrite H. exact G. Qed.

Lemma flm_do_act : forall a s, flm_all s (do_act a s).
Proof.
  intros a s. destruct a; unfold do_act.
  - destruct (can_write (cx s y)); [|apply flm_cx_eq; auto].
    eapply flm_all_trans; [apply (flm_updc y (mkC (ckind (cx s y)) (cq (cx s y) + k) (ceof (cx s y)) (cpopen (cx s y)) (csht (cx s y)) (cflag (cx s y)) (cadded (cx s y)) (cregok (cx s y)) (cclosed (cx s y)) (coff (cx s y)) (crst (cx s y))))|].
    + intros G; exact G.
    + apply flm_cx_eq. destruct (Nat.eqb k 0); simpl; rewrite ?cx_edge; auto.
  - destruct (cpopen (cx s y) && negb (ceof (cx s y))) eqn:G; [|apply flm_cx_eq; auto].
    eapply flm_all_trans; [apply (flm_updc y (mkC (ckind (cx s y)) (cq (cx s y)) true (negb (is_pipe (cx s y))) (csht (cx s y)) (cflag (cx s y)) (cadded (cx s y)) (cregok (cx s y)) (cclosed (cx s y)) (coff (cx s y)) (crst (cx s y))))|].
    + intros F; exact F.
    + apply flm_cx_eq. simpl. rewrite ?cx_edge; auto.
  - destruct (cpopen (cx s y)) eqn:P; [|apply flm_cx_eq; auto].
    eapply flm_all_trans; [apply (flm_updc y (mkC (ckind (cx s y)) (cq (cx s y)) true false (csht (cx s y)) (cflag (cx s y)) (cadded (cx s y)) (cregok (cx s y)) (cclosed (cx s y)) (coff (cx s y)) (crst (cx s y))))|].
    + intros F; exact F.
    + apply flm_cx_eq. destruct (is_tcp (cx s y) && ceof (cx s y)); simpl; rewrite ?cx_edge; auto.
  - destruct (cadded (cx s y) || Nat.eqb y 0); [apply flm_cx_eq; auto|].
    set (c1 := mkC _ _ _ _ _ _ true _ _ _ _).
    destruct (add_ctx_other y (updc y c1 s)) as (_ & _ & _ & D & _).
    destruct (add_ctx y (updc y c1 s)) as [s1 ok]. simpl in D.
    intros z. simpl. rewrite D. simpl.
    destruct (Nat.eqb z y) eqn:E; [|intros F; exact F].
    apply Nat.eqb_eq in E. subst z. rewrite Nat.eqb_refl. unfold c1. intros F. simpl. exact F.
  - destruct (cclosed (cx s y)); [apply flm_cx_eq; auto|].
    eapply flm_all_trans; [apply (flm_updc y (mkC (ckind (cx s y)) (cq (cx s y)) (ceof (cx s y)) (cpopen (cx s y)) (csht (cx s y) || negb (is_pipe (cx s y))) true (cadded (cx s y)) (cregok (cx s y)) false (coff (cx s y)) (crst (cx s y))))|].
    + intros _. reflexivity.
    + apply flm_cx_eq. destruct (negb (is_pipe (cx s y))); simpl; rewrite ?cx_edge; auto.
  - apply flm_cx_eq. simpl. rewrite cx_edge. auto.
  - apply flm_cx_eq. simpl. rewrite cx_edge. auto.
  - destruct (can_reset (cx s y)) eqn:G; [|apply flm_cx_eq; auto].
    eapply flm_all_trans; [apply (flm_updc y (mkC (ckind (cx s y)) (cq (cx s y)) true false (csht (cx s y)) (cflag (cx s y)) (cadded (cx s y)) (cregok (cx s y)) (cclosed (cx s y)) (coff (cx s y)) true))|].
    + intros F; exact F.
    + apply flm_cx_eq. simpl. rewrite ?cx_edge; auto.
Qed.

Lemma flm_do_acts : forall l s, flm_all s (do_acts l s).
Proof.
  induction l as [|a l IH]; intros s; simpl; [apply flm_all_refl|].
  eapply flm_all_trans; [apply flm_do_act|apply IH].
Qed.

(* the state of a context right after an accepted reset *)
Lemma reset_state : forall y s, can_reset (cx s y) = true ->
  let c := cx (do_act (AReset y) s) y in
  ceof c = true /\ cpopen c = false /\ crst c = true /\ is_pipe c = false /\ cq c = cq (cx s y) /\ ckind c = ckind (cx s y).
Proof.
  intros y s G. unfold do_act. rewrite G. simpl. rewrite cx_edge. simpl. rewrite Nat.eqb_refl. simpl.
  unfold can_reset in G. apply andb_true_iff in G. destruct G as [G _].
  apply andb_true_iff in G. destruct G as [G _]. apply andb_true_iff in G. destruct G as [_ G].
  apply negb_true_iff in G. unfold is_pipe in *. simpl. repeat split; auto.
Qed.

(* a reset is a read error behind the pending data: reported as IN | HUP | ERR until the context is read, and
   the read callback leaves the context flagged *)
Theorem read_error_flags : forall y s s2,
  can_reset (cx s y) = true -> fdm_all (do_act (AReset y) s) s2 ->
  events_c (cx s2 y) = 7 /\ cflag (cx (cb_read y s2) y) = true.
Proof.
  intros y s s2 G M.
  destruct (reset_state y s G) as (E & P & R & K & _ & _).
  destruct (M y) as (Mk & _ & Me & Mp & _ & Mr).
  assert (E2 : ceof (cx s2 y) = true) by (apply Me; exact E).
  assert (R2 : crst (cx s2 y) = true) by (apply Mr; exact R).
  assert (P2 : cpopen (cx s2 y) = false).
  { destruct (cpopen (cx s2 y)) eqn:Q; [|reflexivity]. rewrite (Mp eq_refl) in P. discriminate. }
  assert (K2 : is_pipe (cx s2 y) = false) by (unfold is_pipe in *; rewrite Mk; exact K).
  split.
  - unfold events_c, ev_in, ev_hup, ev_err. unfold is_pipe in K2.
    destruct (ckind (cx s2 y)); [discriminate| |]; rewrite ?E2, ?R2, ?P2, ?orb_true_r; simpl; reflexivity.
  - unfold cb_read.
    match goal with |- cflag (cx (do_acts ?l ?s0) y) = true => apply (flm_do_acts l s0 y) end.
    simpl. rewrite Nat.eqb_refl. simpl. rewrite K2, E2. simpl. apply orb_true_r.
Qed.

(* non-vacuity: a TCP context with 5 pending bytes whose peer resets *)
Example read_error_flags_example :
  let s := start BEpoll (mkScr 4 [(1, KTcp)] [[AAdd 1; AWrite 1 5]] [] false []) in
  can_reset (cx s 1) = true /\
  events_c (cx (do_act (AReset 1) s) 1) = 7 /\
  cflag (cx (cb_read 1 (do_act (AReset 1) s)) 1) = true /\
  coff (cx (cb_read 1 (do_act (AReset 1) s)) 1) = 5.
Proof. vm_compute. repeat split; reflexivity. Qed.
