From MV Require Import Lib.ExtractBase C13.Model.
From Coq Require Import ExtrOcamlBasic.
Extraction Language OCaml.
Extraction "c13_model" force_types init start iter finish run runk runs runks kern kern_o in_tbl inject dispatch events.
