From MV Require Import C13.Model.
Lemma stub_true : True. Proof. exact I. Qed.
