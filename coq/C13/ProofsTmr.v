(* C13 — the timer flag is a constant of the run; without a timer one iteration is the kernel call and the pass
   alone, and the model kernel wakes an idle loop as before (used by the agreement proofs, whose classes have no
   timer). *)
From MV Require Import C13.Model C13.ProofsLife C13.ProofsRead.

Lemma tmr_edge : forall x s, tmr (edge x s) = tmr s.
Proof. intros. unfold edge. destruct (_ && _); auto. Qed.

Lemma tmr_do_act : forall a s, tmr (do_act a s) = tmr s.
Proof.
  intros a s. destruct a; unfold do_act.
  - destruct (can_write (cx s y)); [destruct (Nat.eqb k 0)|]; simpl; rewrite ?tmr_edge; auto.
  - destruct (cpopen (cx s y) && negb (ceof (cx s y))); simpl; rewrite ?tmr_edge; auto.
  - destruct (cpopen (cx s y)); [destruct (is_tcp (cx s y) && ceof (cx s y))|]; simpl; rewrite ?tmr_edge; auto.
  - destruct (cadded (cx s y) || Nat.eqb y 0); [simpl; auto|].
    set (s0 := updc y _ s).
    assert (W : tmr (fst (add_ctx y s0)) = tmr s0).
    { unfold add_ctx, backend_add. simpl. destruct (bk s); simpl; auto.
      - destruct (Nat.eqb _ _); simpl; auto.
      - match goal with |- context [if ?c then _ else _] => destruct c end; simpl; rewrite ?tmr_edge; auto. }
    destruct (add_ctx y s0) as [s1 ok]. simpl in *. auto.
  - destruct (cclosed (cx s y)); [|destruct (negb (is_pipe (cx s y)))]; simpl; rewrite ?tmr_edge; auto.
  - simpl. rewrite tmr_edge. auto.
  - simpl. rewrite tmr_edge. auto.
  - destruct (can_reset (cx s y)); simpl; rewrite ?tmr_edge; auto.
Qed.

Lemma tmr_do_acts : forall l s, tmr (do_acts l s) = tmr s.
Proof. induction l as [|a l IH]; intros s; simpl; auto. rewrite IH. apply tmr_do_act. Qed.

Lemma tmr_cb_read : forall x s, tmr (cb_read x s) = tmr s.
Proof. intros. unfold cb_read. rewrite tmr_do_acts. reflexivity. Qed.

Lemma tmr_handle_wakeup : forall s, tmr (handle_wakeup s) = tmr s.
Proof.
  intros s. unfold handle_wakeup.
  set (s1 := emit EWake (set_wk 0 s)).
  destruct (idle s1); auto.
  destruct (phases (set_idle false s1)); [rewrite tmr_do_act|rewrite tmr_do_acts]; reflexivity.
Qed.

Lemma tmr_sel_walk : forall f i rep s, tmr (sel_walk f i rep s) = tmr s.
Proof.
  induction f as [|f IH]; intros i rep s; simpl; auto.
  destruct (nth_error (clist s) i) as [x|]; auto.
  assert (H1 : tmr (if negb (Nat.eqb (lookup x rep) 0) then cb_read x s else s) = tmr s).
  { destruct (negb _); auto. apply tmr_cb_read. }
  destruct (cflag _); rewrite IH; simpl; auto.
Qed.

Lemma tmr_poll_step : forall i n s, tmr (fst (poll_step i n s)) = tmr s.
Proof.
  intros i n s. unfold poll_step. destruct (Nat.eqb i 0).
  - simpl. destruct (has_in _); auto. apply tmr_handle_wakeup.
  - destruct (nth_error (parr s) i) as [[x re]|]; auto.
    destruct (has_in re); destruct (has_hup_err re); simpl;
      repeat match goal with |- context [if ?c then _ else _] => destruct c end; simpl; auto;
      try apply tmr_cb_read.
Qed.

Lemma tmr_poll_walk : forall k n s, tmr (poll_walk k n s) = tmr s.
Proof.
  induction k as [|k IH]; intros n s; simpl; auto.
  pose proof (tmr_poll_step k n s) as P.
  destruct (poll_step k n s) as [s' n']. simpl in P.
  destruct (Nat.eqb n' 0); auto. rewrite IH. auto.
Qed.

Lemma tmr_ep_step : forall x e s, tmr (ep_step x e s) = tmr s.
Proof.
  intros x e s. unfold ep_step. destruct (Nat.eqb x 0).
  - destruct (has_in e); auto. apply tmr_handle_wakeup.
  - destruct (has_in e); [|destruct (has_hup_err e)];
      repeat match goal with |- context [if ?c then _ else _] => destruct c end; simpl; auto;
      try apply tmr_cb_read.
Qed.

Lemma tmr_ep_walk : forall evs s, tmr (ep_walk evs s) = tmr s.
Proof. induction evs as [|[x e] r IH]; intros s; simpl; auto. rewrite IH. apply tmr_ep_step. Qed.

Lemma tmr_dispatch : forall rep n s, tmr (dispatch rep n s) = tmr s.
Proof.
  intros rep n s. unfold dispatch. destruct (bk s).
  - unfold dispatch_select. destruct (Nat.ltb 0 n); auto.
    rewrite tmr_sel_walk. simpl. destruct (negb _); simpl; auto. rewrite tmr_handle_wakeup. auto.
  - unfold dispatch_poll. destruct (Nat.ltb 0 n); simpl; auto. rewrite tmr_poll_walk. auto.
  - unfold dispatch_epoll. rewrite tmr_ep_walk. auto.
Qed.

Lemma tmr_inject : forall s, tmr (inject s) = tmr s.
Proof. intros. unfold inject. simpl. rewrite tmr_edge. auto. Qed.

(* the iteration and the model kernel of a loop without a timer *)
Definition iter0 (o : oent) (s : st) : st := dispatch (orep o) (on o) (if oidle o then inject s else s).
Definition kern_o0 (s : st) : oent :=
  match kern s with
  | [] => let s1 := inject s in mkO true (kern s1) (length (kern s1))
  | r => mkO false r (length r)
  end.

Lemma tmr_iter0 : forall o s, tmr (iter0 o s) = tmr s.
Proof. intros. unfold iter0. rewrite tmr_dispatch. destruct (oidle o); auto. apply tmr_inject. Qed.

Lemma iter_notimer : forall s, tmr s = false ->
  iter (kern_o s) s = iter0 (kern_o0 s) s /\ tmr (iter0 (kern_o0 s) s) = false.
Proof.
  intros s T.
  assert (K : kern_o s = kern_o0 s) by (unfold kern_o, kern_o0; rewrite T; reflexivity).
  rewrite K. pose proof (tmr_iter0 (kern_o0 s) s) as T0. rewrite T in T0.
  split; auto. unfold iter. fold (iter0 (kern_o0 s) s). rewrite T0. reflexivity.
Qed.

Lemma tmr_backend_add : forall x s, tmr (fst (backend_add x s)) = tmr s.
Proof.
  intros. unfold backend_add. destruct (bk s); simpl; auto.
  - destruct (Nat.eqb _ _); auto.
  - match goal with |- context [if ?c then _ else _] => destruct c end; rewrite ?tmr_edge; auto.
Qed.

Lemma tmr_start : forall b sc, tmr (start b sc) = s_timer sc.
Proof.
  intros b sc. unfold start.
  assert (H : tmr (do_acts (hd [] (s_phases sc)) (init b sc)) = s_timer sc) by (rewrite tmr_do_acts; reflexivity).
  destruct b; auto. rewrite tmr_backend_add. auto.
Qed.

(* with a timer every iteration ends with a tick: the timer callback runs after the pass, also one in which the
   kernel had nothing to report, and before to_exit is tested *)
Lemma timer_tick_each_pass : forall o s, tmr s = true ->
  exists t, tr (iter o s) = t ++ ETimer :: tr (iter0 o s).
Proof.
  intros o s T. unfold iter. fold (iter0 o s). rewrite (tmr_iter0 o s), T.
  unfold cb_timer. set (s1 := emit ETimer (iter0 o s)).
  destruct (tphases s1) as [|p rest].
  - destruct (do_act_facts AExit s1) as (_ & _ & [r C] & _). exists [EAct AExit r]. rewrite C. reflexivity.
  - destruct (do_acts_facts p (set_tphases rest s1)) as (_ & _ & [t C] & _). exists t. rewrite C. reflexivity.
Qed.

(* non-vacuity: a timer with two timer phases and two connection resets (a TCP peer resetting with 5 bytes
   pending: the bytes are offered, then the context is closed; a unix peer reset from a timer phase); the
   kernel view of the reset descriptor is IN | HUP | ERR *)
Definition timer_reset_example : script :=
  mkScr 4 [(1, KTcp); (2, KUnix)] [[AAdd 1; AAdd 2; AWrite 1 5; AReset 1]] [] true [[AWrite 2 3]; [AReset 2]].

Example timer_reset_run :
  events_c (cx (start BPoll timer_reset_example) 1) = 7 /\
  forall b, In b [BSelect; BPoll; BEpoll] ->
    snd (runks b timer_reset_example 8) = true /\
    rev (tr (fst (runks b timer_reset_example 8))) =
      [EAct (AAdd 1) 0; EAct (AAdd 2) 0; EAct (AWrite 1 5) 0; EAct (AReset 1) 0; ERead 1 5; EClose 1; ETimer;
       EAct (AWrite 2 3) 0; ERead 2 3; ETimer; EAct (AReset 2) 0; ERead 2 0; EClose 2; ETimer; EAct AExit 0; EExit] /\
    map (outcome (fst (runks b timer_reset_example 8))) [1; 2] = [(5, true, false); (3, true, false)].
Proof.
  split; [vm_compute; reflexivity|].
  intros b [<-|[<-|[<-|[]]]]; vm_compute; repeat split; reflexivity.
Qed.
