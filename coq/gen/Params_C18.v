(* GENERATED on every run by lib/props/c18_trans.py from the C sources of the repository: the
   resource-protocol skeleton of each init / grow / destroy function.  Do not edit. *)
From MV Require Import C18.Model.

(* scenario 0: muggle_channel_init, muggle_channel_destroy
     0 = ->write_mutex
     1 = blocks
     2 = read_cv
     3 = read_mutex
     note: muggle_channel_init: undecided scalar condition `capacity <= 0` guards no resource statement: skipped
*)
Definition g0_pre : list stmt :=
  [].
Definition g0_op : list stmt :=
  [ SetNull 0;
  SetNull 1;
  SetNull 2;
  SetNull 3;
  Alloc 0;
  IfNull [0] [ SetRet Fail;
    Call [ IfSet 1 [ Free 1;
        SetNull 1 ];
      IfSet 2 [ Free 2;
        SetNull 2 ];
      IfSet 3 [ Free 3;
        SetNull 3 ];
      IfSet 0 [ Free 0;
        SetNull 0 ] ] false [];
    Ret (Some Fail) ];
  Alloc 3;
  IfNull [3] [ SetRet Fail;
    Call [ IfSet 1 [ Free 1;
        SetNull 1 ];
      IfSet 2 [ Free 2;
        SetNull 2 ];
      IfSet 3 [ Free 3;
        SetNull 3 ];
      IfSet 0 [ Free 0;
        SetNull 0 ] ] false [];
    Ret (Some Fail) ];
  Alloc 2;
  IfNull [2] [ SetRet Fail;
    Call [ IfSet 1 [ Free 1;
        SetNull 1 ];
      IfSet 2 [ Free 2;
        SetNull 2 ];
      IfSet 3 [ Free 3;
        SetNull 3 ];
      IfSet 0 [ Free 0;
        SetNull 0 ] ] false [];
    Ret (Some Fail) ];
  Alloc 1;
  IfNull [1] [ SetRet Fail;
    Call [ IfSet 1 [ Free 1;
        SetNull 1 ];
      IfSet 2 [ Free 2;
        SetNull 2 ];
      IfSet 3 [ Free 3;
        SetNull 3 ];
      IfSet 0 [ Free 0;
        SetNull 0 ] ] false [];
    Ret (Some Fail) ];
  Ret (Some Ok) ].
Definition g0_destroy : list stmt :=
  [ IfSet 1 [ Free 1;
    SetNull 1 ];
  IfSet 2 [ Free 2;
    SetNull 2 ];
  IfSet 3 [ Free 3;
    SetNull 3 ];
  IfSet 0 [ Free 0;
    SetNull 0 ] ].

(* scenario 1: muggle_channel_init, muggle_channel_destroy
     0 = blocks
     1 = read_cv
     2 = read_mutex
     3 = ->write_mutex
     note: muggle_channel_init: undecided scalar condition `capacity <= 0` guards no resource statement: skipped
*)
Definition g1_pre : list stmt :=
  [].
Definition g1_op : list stmt :=
  [ SetNull 0;
  SetNull 1;
  SetNull 2;
  SetNull 3;
  Alloc 0;
  IfNull [0] [ SetRet Fail;
    Call [ IfSet 0 [ Free 0;
        SetNull 0 ];
      IfSet 1 [ Free 1;
        SetNull 1 ];
      IfSet 2 [ Free 2;
        SetNull 2 ];
      IfSet 3 [ Free 3;
        SetNull 3 ] ] false [];
    Ret (Some Fail) ];
  Ret (Some Ok) ].
Definition g1_destroy : list stmt :=
  [ IfSet 0 [ Free 0;
    SetNull 0 ];
  IfSet 1 [ Free 1;
    SetNull 1 ];
  IfSet 2 [ Free 2;
    SetNull 2 ];
  IfSet 3 [ Free 3;
    SetNull 3 ] ].

(* scenario 2: muggle_ring_buffer_init, muggle_ring_buffer_destroy
     0 = blocks
     note: muggle_ring_buffer_init: undecided scalar condition `r->..capacity <= 0` guards no resource statement: skipped
*)
Definition g2_pre : list stmt :=
  [].
Definition g2_op : list stmt :=
  [ SetNull 0;
  Alloc 0;
  IfNull [0] [ Ret (Some Fail) ];
  Ret (Some Ok) ].
Definition g2_destroy : list stmt :=
  [ Free 0;
  Ret (Some Ok) ].

(* scenario 4: muggle_double_buffer_init, muggle_double_buffer_destroy
     0 = buf->[0]->datas
     1 = buf->[1]->datas
*)
Definition g4_pre : list stmt :=
  [].
Definition g4_op : list stmt :=
  [ SetNull 0;
  SetNull 1;
  Alloc 0;
  IfNull [0] [ Ret (Some Fail) ];
  Alloc 1;
  IfNull [1] [ Free 0;
    SetNull 0;
    Ret (Some Fail) ];
  Ret (Some Ok) ].
Definition g4_destroy : list stmt :=
  [ Free 0;
  Free 1;
  Ret (Some Ok) ].

(* scenario 5: muggle_array_blocking_queue_init, muggle_array_blocking_queue_destroy
     0 = datas
*)
Definition g5_pre : list stmt :=
  [].
Definition g5_op : list stmt :=
  [ SetNull 0;
  Alloc 0;
  IfNull [0] [ Ret (Some Fail) ];
  Ret (Some Ok) ].
Definition g5_destroy : list stmt :=
  [ Free 0;
  Ret (Some Ok) ].

(* scenario 6: muggle_memory_pool_init, muggle_memory_pool_destroy
     0 = memory_pool_data_bufs
     1 = memory_pool_ptr_buf
     2 = memory_pool_data_bufs->[0]
     note: muggle_memory_pool_destroy: loop releasing every element of self/memory_pool_data_bufs
*)
Definition g6_pre : list stmt :=
  [].
Definition g6_op : list stmt :=
  [ SetNull 0;
  SetNull 1;
  SetNull 2;
  Alloc 0;
  IfNull [0] [ Ret (Some Fail) ];
  Alloc 1;
  IfNull [1] [ Free 0;
    SetNull 0;
    Ret (Some Fail) ];
  Alloc 2;
  IfNull [2] [ Free 0;
    SetNull 0;
    Free 1;
    SetNull 1;
    Ret (Some Fail) ];
  Ret (Some Ok) ].
Definition g6_destroy : list stmt :=
  [ Free 2;
  Free 0;
  Free 1;
  SetNull 0;
  SetNull 1;
  SetNull 2 ].

(* scenario 9: muggle_sowr_memory_pool_init, muggle_sowr_memory_pool_destroy
     0 = ->->blocks
     note: muggle_sowr_memory_pool_init: undecided scalar condition `block_size64 > 4294967295 / capacity` guards no resource statement: skipped
     note: muggle_sowr_memory_pool_init: undecided scalar condition `capacity <= 0` guards no resource statement: skipped
*)
Definition g9_pre : list stmt :=
  [].
Definition g9_op : list stmt :=
  [ SetNull 0;
  Alloc 0;
  IfNull [0] [ Ret (Some Fail) ];
  Ret (Some Ok) ].
Definition g9_destroy : list stmt :=
  [ IfSet 0 [ Free 0;
    SetNull 0 ] ].

(* scenario 10: muggle_ts_memory_pool_init, muggle_ts_memory_pool_destroy
     0 = ->->data
     1 = ->->ptrs
     note: muggle_ts_memory_pool_init: undecided scalar condition `block_size64 > 4294967295 / capacity` guards no resource statement: skipped
     note: muggle_ts_memory_pool_init: undecided scalar condition `capacity <= 0` guards no resource statement: skipped
*)
Definition g10_pre : list stmt :=
  [].
Definition g10_op : list stmt :=
  [ Alloc 0;
  Alloc 1;
  IfNull [0; 1] [ IfSet 0 [ Free 0;
      SetNull 0 ];
    IfSet 1 [ Free 1;
      SetNull 1 ];
    Ret (Some Fail) ];
  Ret (Some Ok) ].
Definition g10_destroy : list stmt :=
  [ IfSet 0 [ Free 0;
    SetNull 0 ];
  IfSet 1 [ Free 1;
    SetNull 1 ] ].

(* scenario 11: muggle_ring_memory_pool_init, muggle_ring_memory_pool_destroy
     0 = blocks
     note: muggle_ring_memory_pool_init: undecided scalar condition `block_size64 > 4294967295 / capacity` guards no resource statement: skipped
     note: muggle_ring_memory_pool_init: undecided scalar condition `capacity < 2` guards no resource statement: skipped
*)
Definition g11_pre : list stmt :=
  [].
Definition g11_op : list stmt :=
  [ SetNull 0;
  Alloc 0;
  IfNull [0] [ Ret (Some Fail) ];
  Ret (Some Ok) ].
Definition g11_destroy : list stmt :=
  [ Free 0 ].

(* scenario 12: muggle_pointer_slot_init, muggle_pointer_slot_destroy
     0 = slots
     1 = pp_slots
*)
Definition g12_pre : list stmt :=
  [].
Definition g12_op : list stmt :=
  [ SetNull 0;
  SetNull 1;
  Alloc 0;
  Alloc 1;
  IfNull [0; 1] [ IfSet 0 [ Free 0;
      SetNull 0 ];
    IfSet 1 [ Free 1;
      SetNull 1 ];
    Ret (Some Fail) ];
  Ret (Some Ok) ].
Definition g12_destroy : list stmt :=
  [ IfSet 0 [ Free 0;
    SetNull 0 ];
  IfSet 1 [ Free 1;
    SetNull 1 ] ].

(* scenario 13: muggle_bytes_buffer_init, muggle_bytes_buffer_destroy
     0 = buffer
*)
Definition g13_pre : list stmt :=
  [].
Definition g13_op : list stmt :=
  [ SetNull 0;
  Alloc 0;
  IfNull [0] [ Ret (Some Fail) ];
  Ret (Some Ok) ].
Definition g13_destroy : list stmt :=
  [ IfSet 0 [ Free 0;
    SetNull 0 ] ].

(* scenario 14: muggle_flow_ctl_init, muggle_flow_ctl_destroy
     0 = arr
*)
Definition g14_pre : list stmt :=
  [].
Definition g14_op : list stmt :=
  [ SetNull 0;
  Alloc 0;
  IfNull [0] [ Ret (Some Fail) ];
  Ret (Some Ok) ].
Definition g14_destroy : list stmt :=
  [ IfSet 0 [ Free 0;
    SetNull 0 ] ].

(* scenario 15: muggle_array_list_init, muggle_array_list_destroy
     0 = nodes
     assumed to touch no resource here (container is empty): muggle_array_list_clear
*)
Definition g15_pre : list stmt :=
  [].
Definition g15_op : list stmt :=
  [ SetNull 0;
  Alloc 0;
  IfNull [0] [ Ret (Some Fail) ];
  Ret (Some Ok) ].
Definition g15_destroy : list stmt :=
  [ Free 0 ].

(* scenario 16: muggle_array_list_init, muggle_array_list_ensure_capacity, muggle_array_list_destroy
     0 = nodes
     1 = $muggle_array_list_ensure_capacity->new_nodes
     note: muggle_array_list_ensure_capacity: condition `p_array_list->capacity >= capacity` taken as False (scenario hint)
     assumed to touch no resource here (container is empty): muggle_array_list_clear
*)
Definition g16_pre : list stmt :=
  [ Call [ SetNull 0;
    Alloc 0;
    IfNull [0] [ Ret (Some Fail) ];
    Ret (Some Ok) ] false [] ].
Definition g16_op : list stmt :=
  [ Alloc 1;
  IfNull [1] [ Ret (Some Fail) ];
  Free 0;
  Move 0 1;
  Ret (Some Ok) ].
Definition g16_destroy : list stmt :=
  [ Free 0 ].

(* scenario 18: muggle_avl_tree_init, muggle_avl_tree_destroy
     0 = pool
     1 = pool->memory_pool_data_bufs
     2 = pool->memory_pool_ptr_buf
     3 = pool->memory_pool_data_bufs->[0]
     note: muggle_avl_tree_init: undecided scalar condition `cmp == 0` guards no resource statement: skipped
     note: muggle_memory_pool_destroy: loop releasing every element of self/pool/memory_pool_data_bufs
     note: muggle_memory_pool_init: undecided scalar condition `block_size == 0` guards no resource statement: skipped
     note: muggle_memory_pool_init: undecided scalar condition `block_size > 8 * 1024` guards no resource statement: skipped
     assumed to touch no resource here (container is empty): muggle_avl_tree_clear
*)
Definition g18_pre : list stmt :=
  [].
Definition g18_op : list stmt :=
  [ SetNull 0;
  SetNull 1;
  SetNull 2;
  SetNull 3;
  Alloc 0;
  IfNull [0] [ Ret (Some Fail) ];
  Call [ SetNull 1;
    SetNull 2;
    SetNull 3;
    Alloc 1;
    IfNull [1] [ Ret (Some Fail) ];
    Alloc 2;
    IfNull [2] [ Free 1;
      SetNull 1;
      Ret (Some Fail) ];
    Alloc 3;
    IfNull [3] [ Free 1;
      SetNull 1;
      Free 2;
      SetNull 2;
      Ret (Some Fail) ];
    Ret (Some Ok) ] false [ Free 0;
    SetNull 0;
    Ret (Some Fail) ];
  Ret (Some Ok) ].
Definition g18_destroy : list stmt :=
  [ IfSet 0 [ Call [ Free 3;
      Free 1;
      Free 2;
      SetNull 1;
      SetNull 2;
      SetNull 3 ] false [];
    Free 0 ] ].

(* scenario 21: muggle_hash_table_init, muggle_hash_table_destroy
     0 = pool
     1 = pool->memory_pool_data_bufs
     2 = pool->memory_pool_ptr_buf
     3 = pool->memory_pool_data_bufs->[0]
     4 = nodes
     note: muggle_hash_table_init: undecided scalar condition `cmp == 0` guards no resource statement: skipped
     note: muggle_hash_table_init: undecided scalar condition `hash == 0` guards no resource statement: skipped
     note: muggle_memory_pool_destroy: loop releasing every element of self/pool/memory_pool_data_bufs
     note: muggle_memory_pool_init: undecided scalar condition `block_size == 0` guards no resource statement: skipped
     note: muggle_memory_pool_init: undecided scalar condition `block_size > 8 * 1024` guards no resource statement: skipped
     assumed to touch no resource here (container is empty): muggle_hash_table_clear
*)
Definition g21_pre : list stmt :=
  [].
Definition g21_op : list stmt :=
  [ SetNull 0;
  SetNull 1;
  SetNull 2;
  SetNull 3;
  SetNull 4;
  Alloc 0;
  IfNull [0] [ Ret (Some Fail) ];
  Call [ SetNull 1;
    SetNull 2;
    SetNull 3;
    Alloc 1;
    IfNull [1] [ Ret (Some Fail) ];
    Alloc 2;
    IfNull [2] [ Free 1;
      SetNull 1;
      Ret (Some Fail) ];
    Alloc 3;
    IfNull [3] [ Free 1;
      SetNull 1;
      Free 2;
      SetNull 2;
      Ret (Some Fail) ];
    Ret (Some Ok) ] false [ Free 0;
    SetNull 0;
    Ret (Some Fail) ];
  Alloc 4;
  IfNull [4] [ IfSet 0 [ Call [ Free 3;
        Free 1;
        Free 2;
        SetNull 1;
        SetNull 2;
        SetNull 3 ] false [];
      Free 0;
      SetNull 0 ];
    Ret (Some Fail) ];
  Ret (Some Ok) ].
Definition g21_destroy : list stmt :=
  [ IfSet 0 [ Call [ Free 3;
      Free 1;
      Free 2;
      SetNull 1;
      SetNull 2;
      SetNull 3 ] false [];
    Free 0 ];
  Free 4 ].

(* scenario 23: muggle_heap_init, muggle_heap_destroy
     0 = nodes
     note: muggle_heap_init: undecided scalar condition `cmp == 0` guards no resource statement: skipped
     assumed to touch no resource here (container is empty): muggle_heap_clear
*)
Definition g23_pre : list stmt :=
  [].
Definition g23_op : list stmt :=
  [ SetNull 0;
  Alloc 0;
  IfNull [0] [ Ret (Some Fail) ];
  Ret (Some Ok) ].
Definition g23_destroy : list stmt :=
  [ IfSet 0 [ Free 0;
    SetNull 0 ] ].

(* scenario 24: muggle_heap_init, muggle_heap_ensure_capacity, muggle_heap_destroy
     0 = nodes
     1 = $muggle_heap_ensure_capacity->new_nodes
     note: muggle_heap_ensure_capacity: condition `p_heap->capacity >= capacity` taken as False (scenario hint)
     note: muggle_heap_init: undecided scalar condition `cmp == 0` guards no resource statement: skipped
     assumed to touch no resource here (container is empty): muggle_heap_clear
*)
Definition g24_pre : list stmt :=
  [ Call [ SetNull 0;
    Alloc 0;
    IfNull [0] [ Ret (Some Fail) ];
    Ret (Some Ok) ] false [] ].
Definition g24_op : list stmt :=
  [ Alloc 1;
  IfNull [1] [ Ret (Some Fail) ];
  Free 0;
  Move 0 1;
  Ret (Some Ok) ].
Definition g24_destroy : list stmt :=
  [ IfSet 0 [ Free 0;
    SetNull 0 ] ].

(* scenario 26: muggle_linked_list_init, muggle_linked_list_destroy
     0 = pool
     1 = pool->memory_pool_data_bufs
     2 = pool->memory_pool_ptr_buf
     3 = pool->memory_pool_data_bufs->[0]
     note: muggle_memory_pool_destroy: loop releasing every element of self/pool/memory_pool_data_bufs
     note: muggle_memory_pool_init: undecided scalar condition `block_size == 0` guards no resource statement: skipped
     note: muggle_memory_pool_init: undecided scalar condition `block_size > 8 * 1024` guards no resource statement: skipped
     assumed to touch no resource here (container is empty): muggle_linked_list_clear
*)
Definition g26_pre : list stmt :=
  [].
Definition g26_op : list stmt :=
  [ SetNull 0;
  SetNull 1;
  SetNull 2;
  SetNull 3;
  Alloc 0;
  IfNull [0] [ Ret (Some Fail) ];
  Call [ SetNull 1;
    SetNull 2;
    SetNull 3;
    Alloc 1;
    IfNull [1] [ Ret (Some Fail) ];
    Alloc 2;
    IfNull [2] [ Free 1;
      SetNull 1;
      Ret (Some Fail) ];
    Alloc 3;
    IfNull [3] [ Free 1;
      SetNull 1;
      Free 2;
      SetNull 2;
      Ret (Some Fail) ];
    Ret (Some Ok) ] false [ Free 0;
    SetNull 0;
    Ret (Some Fail) ];
  Ret (Some Ok) ].
Definition g26_destroy : list stmt :=
  [ IfSet 0 [ Call [ Free 3;
      Free 1;
      Free 2;
      SetNull 1;
      SetNull 2;
      SetNull 3 ] false [];
    Free 0 ] ].

(* scenario 28: muggle_queue_init, muggle_queue_destroy
     0 = pool
     1 = pool->memory_pool_data_bufs
     2 = pool->memory_pool_ptr_buf
     3 = pool->memory_pool_data_bufs->[0]
     note: muggle_memory_pool_destroy: loop releasing every element of self/pool/memory_pool_data_bufs
     note: muggle_memory_pool_init: undecided scalar condition `block_size == 0` guards no resource statement: skipped
     note: muggle_memory_pool_init: undecided scalar condition `block_size > 8 * 1024` guards no resource statement: skipped
     assumed to touch no resource here (container is empty): muggle_queue_clear
*)
Definition g28_pre : list stmt :=
  [].
Definition g28_op : list stmt :=
  [ SetNull 0;
  SetNull 1;
  SetNull 2;
  SetNull 3;
  Alloc 0;
  IfNull [0] [ Ret (Some Fail) ];
  Call [ SetNull 1;
    SetNull 2;
    SetNull 3;
    Alloc 1;
    IfNull [1] [ Ret (Some Fail) ];
    Alloc 2;
    IfNull [2] [ Free 1;
      SetNull 1;
      Ret (Some Fail) ];
    Alloc 3;
    IfNull [3] [ Free 1;
      SetNull 1;
      Free 2;
      SetNull 2;
      Ret (Some Fail) ];
    Ret (Some Ok) ] false [ Free 0;
    SetNull 0;
    Ret (Some Fail) ];
  Ret (Some Ok) ].
Definition g28_destroy : list stmt :=
  [ IfSet 0 [ Call [ Free 3;
      Free 1;
      Free 2;
      SetNull 1;
      SetNull 2;
      SetNull 3 ] false [];
    Free 0 ] ].

(* scenario 30: muggle_stack_init, muggle_stack_destroy
     0 = nodes
     assumed to touch no resource here (container is empty): muggle_stack_clear
*)
Definition g30_pre : list stmt :=
  [].
Definition g30_op : list stmt :=
  [ SetNull 0;
  Alloc 0;
  IfNull [0] [ Ret (Some Fail) ];
  Ret (Some Ok) ].
Definition g30_destroy : list stmt :=
  [ Free 0 ].

(* scenario 31: muggle_stack_init, muggle_stack_ensure_capacity, muggle_stack_destroy
     0 = nodes
     1 = $muggle_stack_ensure_capacity->new_nodes
     note: muggle_stack_ensure_capacity: condition `p_stack->capacity >= capacity` taken as False (scenario hint)
     assumed to touch no resource here (container is empty): muggle_stack_clear
*)
Definition g31_pre : list stmt :=
  [ Call [ SetNull 0;
    Alloc 0;
    IfNull [0] [ Ret (Some Fail) ];
    Ret (Some Ok) ] false [] ].
Definition g31_op : list stmt :=
  [ Alloc 1;
  IfNull [1] [ Ret (Some Fail) ];
  Free 0;
  Move 0 1;
  Ret (Some Ok) ].
Definition g31_destroy : list stmt :=
  [ Free 0 ].

(* scenario 33: muggle_trie_init, muggle_trie_destroy
     0 = pool
     1 = pool->memory_pool_data_bufs
     2 = pool->memory_pool_ptr_buf
     3 = pool->memory_pool_data_bufs->[0]
     note: muggle_memory_pool_destroy: loop releasing every element of self/pool/memory_pool_data_bufs
     note: muggle_memory_pool_init: undecided scalar condition `block_size == 0` guards no resource statement: skipped
     note: muggle_memory_pool_init: undecided scalar condition `block_size > 8 * 1024` guards no resource statement: skipped
     assumed to touch no resource here (container is empty): muggle_trie_erase_node
*)
Definition g33_pre : list stmt :=
  [].
Definition g33_op : list stmt :=
  [ SetNull 0;
  SetNull 1;
  SetNull 2;
  SetNull 3;
  Alloc 0;
  IfNull [0] [ Ret (Some Fail) ];
  Call [ SetNull 1;
    SetNull 2;
    SetNull 3;
    Alloc 1;
    IfNull [1] [ Ret (Some Fail) ];
    Alloc 2;
    IfNull [2] [ Free 1;
      SetNull 1;
      Ret (Some Fail) ];
    Alloc 3;
    IfNull [3] [ Free 1;
      SetNull 1;
      Free 2;
      SetNull 2;
      Ret (Some Fail) ];
    Ret (Some Ok) ] false [ Free 0;
    SetNull 0;
    Ret (Some Fail) ];
  Ret (Some Ok) ].
Definition g33_destroy : list stmt :=
  [ IfSet 0 [ Call [ Free 3;
      Free 1;
      Free 2;
      SetNull 1;
      SetNull 2;
      SetNull 3 ] false [];
    Free 0 ] ].

(* scenario 37: muggle_ev_signal_init, muggle_ev_signal_destroy
     0 = evfd
*)
Definition g37_pre : list stmt :=
  [].
Definition g37_op : list stmt :=
  [ SetNull 0;
  SetNull 0;
  Alloc 0;
  IfNull [0] [ Ret (Some Fail) ];
  Ret (Some Ok) ].
Definition g37_destroy : list stmt :=
  [ IfSet 0 [ Free 0;
    SetNull 0 ] ].

(* scenario 43: muggle_socket_evloop_handle_init, muggle_socket_evloop_handle_destroy
     0 = ctx_queue
     1 = mtx
     2 = ctx_queue->pool
     3 = ctx_queue->pool->memory_pool_data_bufs
     4 = ctx_queue->pool->memory_pool_ptr_buf
     note: muggle_memory_pool_destroy: loop releasing every element of self/ctx_queue/pool/memory_pool_data_bufs
     assumed to touch no resource here (container is empty): muggle_queue_clear
*)
Definition g43_pre : list stmt :=
  [].
Definition g43_op : list stmt :=
  [ SetNull 0;
  SetNull 1;
  SetNull 2;
  SetNull 3;
  SetNull 4;
  Alloc 0;
  IfNull [0] [ Call [ IfSet 1 [ Free 1;
        SetNull 1 ];
      IfSet 0 [ Call [ IfSet 2 [ Call [ Free 3;
              Free 4;
              SetNull 3;
              SetNull 4 ] false [];
            Free 2 ] ] false [];
        Free 0;
        SetNull 0 ] ] false [];
    Ret (Some Fail) ];
  Call [ SetNull 2;
    SetNull 3;
    SetNull 4;
    Ret (Some Ok) ] false [ Free 0;
    SetNull 0;
    Call [ IfSet 1 [ Free 1;
        SetNull 1 ];
      IfSet 0 [ Call [ IfSet 2 [ Call [ Free 3;
              Free 4;
              SetNull 3;
              SetNull 4 ] false [];
            Free 2 ] ] false [];
        Free 0;
        SetNull 0 ] ] false [];
    Ret (Some Fail) ];
  Alloc 1;
  IfNull [1] [ Call [ IfSet 1 [ Free 1;
        SetNull 1 ];
      IfSet 0 [ Call [ IfSet 2 [ Call [ Free 3;
              Free 4;
              SetNull 3;
              SetNull 4 ] false [];
            Free 2 ] ] false [];
        Free 0;
        SetNull 0 ] ] false [];
    Ret (Some Fail) ];
  Ret (Some Ok) ].
Definition g43_destroy : list stmt :=
  [ IfSet 1 [ Free 1;
    SetNull 1 ];
  IfSet 0 [ Call [ IfSet 2 [ Call [ Free 3;
          Free 4;
          SetNull 3;
          SetNull 4 ] false [];
        Free 2 ] ] false [];
    Free 0;
    SetNull 0 ] ].

(* scenario 47: muggle_channel_init, muggle_channel_destroy
     0 = ->write_mutex
     1 = blocks
     2 = read_cv
     3 = read_mutex
     note: muggle_channel_init: undecided scalar condition `capacity <= 0` guards no resource statement: skipped
*)
Definition g47_pre : list stmt :=
  [].
Definition g47_op : list stmt :=
  [ SetNull 0;
  SetNull 1;
  SetNull 2;
  SetNull 3;
  Alloc 0;
  IfNull [0] [ SetRet Fail;
    Call [ IfSet 1 [ Free 1;
        SetNull 1 ];
      IfSet 2 [ Free 2;
        SetNull 2 ];
      IfSet 3 [ Free 3;
        SetNull 3 ];
      IfSet 0 [ Free 0;
        SetNull 0 ] ] false [];
    Ret (Some Fail) ];
  Alloc 1;
  IfNull [1] [ SetRet Fail;
    Call [ IfSet 1 [ Free 1;
        SetNull 1 ];
      IfSet 2 [ Free 2;
        SetNull 2 ];
      IfSet 3 [ Free 3;
        SetNull 3 ];
      IfSet 0 [ Free 0;
        SetNull 0 ] ] false [];
    Ret (Some Fail) ];
  Ret (Some Ok) ].
Definition g47_destroy : list stmt :=
  [ IfSet 1 [ Free 1;
    SetNull 1 ];
  IfSet 2 [ Free 2;
    SetNull 2 ];
  IfSet 3 [ Free 3;
    SetNull 3 ];
  IfSet 0 [ Free 0;
    SetNull 0 ] ].

(* scenario 61: muggle_channel_init, muggle_channel_destroy
     0 = read_mutex
     1 = blocks
     2 = read_cv
     3 = ->write_mutex
     note: muggle_channel_init: undecided scalar condition `capacity <= 0` guards no resource statement: skipped
*)
Definition g61_pre : list stmt :=
  [].
Definition g61_op : list stmt :=
  [ SetNull 0;
  SetNull 1;
  SetNull 2;
  SetNull 3;
  Alloc 0;
  IfNull [0] [ SetRet Fail;
    Call [ IfSet 1 [ Free 1;
        SetNull 1 ];
      IfSet 2 [ Free 2;
        SetNull 2 ];
      IfSet 0 [ Free 0;
        SetNull 0 ];
      IfSet 3 [ Free 3;
        SetNull 3 ] ] false [];
    Ret (Some Fail) ];
  Alloc 2;
  IfNull [2] [ SetRet Fail;
    Call [ IfSet 1 [ Free 1;
        SetNull 1 ];
      IfSet 2 [ Free 2;
        SetNull 2 ];
      IfSet 0 [ Free 0;
        SetNull 0 ];
      IfSet 3 [ Free 3;
        SetNull 3 ] ] false [];
    Ret (Some Fail) ];
  Alloc 1;
  IfNull [1] [ SetRet Fail;
    Call [ IfSet 1 [ Free 1;
        SetNull 1 ];
      IfSet 2 [ Free 2;
        SetNull 2 ];
      IfSet 0 [ Free 0;
        SetNull 0 ];
      IfSet 3 [ Free 3;
        SetNull 3 ] ] false [];
    Ret (Some Fail) ];
  Ret (Some Ok) ].
Definition g61_destroy : list stmt :=
  [ IfSet 1 [ Free 1;
    SetNull 1 ];
  IfSet 2 [ Free 2;
    SetNull 2 ];
  IfSet 0 [ Free 0;
    SetNull 0 ];
  IfSet 3 [ Free 3;
    SetNull 3 ] ].

(* scenario 77: muggle_log_file_handler_init, muggle_log_file_handler_destroy
     0 = fp
*)
Definition g77_pre : list stmt :=
  [].
Definition g77_op : list stmt :=
  [ SetNull 0;
  Alloc 0;
  IfNull [0] [ Ret (Some Fail) ];
  Ret (Some Ok) ].
Definition g77_destroy : list stmt :=
  [ IfSet 0 [ Free 0;
    SetNull 0 ];
  Ret (Some Ok) ].

(* scenario 78: muggle_log_file_rotate_handler_init, muggle_log_file_rotate_handler_destroy
     0 = fp
     note: muggle_log_file_rotate_handler_init: condition `handler->offset >= handler->max_bytes` taken as False (scenario hint)
*)
Definition g78_pre : list stmt :=
  [].
Definition g78_op : list stmt :=
  [ SetNull 0;
  Alloc 0;
  IfNull [0] [ Ret (Some Fail) ];
  Ret (Some Ok) ].
Definition g78_destroy : list stmt :=
  [ IfSet 0 [ Free 0;
    SetNull 0 ];
  Ret (Some Ok) ].

(* scenario 201: muggle_evloop_init_epoll, muggle_evloop_destroy_epoll
     0 = epfd
     1 = events
     note: muggle_evloop_init_epoll: undecided scalar condition `capacity < 1` guards no resource statement: skipped
*)
Definition g201_pre : list stmt :=
  [].
Definition g201_op : list stmt :=
  [ SetNull 0;
  Alloc 0;
  IfNull [0] [ Call [ IfSet 1 [ Free 1;
        SetNull 1 ];
      IfSet 0 [ Free 0;
        SetNull 0 ] ] false [];
    Ret (Some Fail) ];
  Alloc 1;
  IfNull [1] [ Call [ IfSet 1 [ Free 1;
        SetNull 1 ];
      IfSet 0 [ Free 0;
        SetNull 0 ] ] false [];
    Ret (Some Fail) ];
  Ret (Some Ok) ].
Definition g201_destroy : list stmt :=
  [ IfSet 1 [ Free 1;
    SetNull 1 ];
  IfSet 0 [ Free 0;
    SetNull 0 ] ].

(* scenario 202: muggle_evloop_init_poll, muggle_evloop_destroy_poll
     0 = fds
     1 = nodes
     note: muggle_evloop_init_poll: undecided scalar condition `capacity < 1` guards no resource statement: skipped
*)
Definition g202_pre : list stmt :=
  [].
Definition g202_op : list stmt :=
  [ Alloc 0;
  IfNull [0] [ Call [ IfSet 0 [ Free 0;
        SetNull 0 ];
      IfSet 1 [ Free 1;
        SetNull 1 ] ] false [];
    Ret (Some Fail) ];
  Alloc 1;
  IfNull [1] [ Call [ IfSet 0 [ Free 0;
        SetNull 0 ];
      IfSet 1 [ Free 1;
        SetNull 1 ] ] false [];
    Ret (Some Fail) ];
  Ret (Some Ok) ].
Definition g202_destroy : list stmt :=
  [ IfSet 0 [ Free 0;
    SetNull 0 ];
  IfSet 1 [ Free 1;
    SetNull 1 ] ].

(* scenario 203: muggle_evloop_init, muggle_evloop_destroy
     0 = ctx_list
     1 = ev_signal
     2 = ev_signal->evfd
     3 = ctx_list->pool
     4 = ctx_list->pool->memory_pool_data_bufs
     5 = ctx_list->pool->memory_pool_ptr_buf
     note: muggle_evloop_init: condition `args->use_mem_pool` taken as False (scenario hint)
     note: muggle_evloop_init: undecided scalar condition `args->hints_max_fd < 1` guards no resource statement: skipped
     note: muggle_memory_pool_destroy: loop releasing every element of self/ctx_list/pool/memory_pool_data_bufs
     assumed to touch no resource here (container is empty): muggle_linked_list_clear
*)
Definition g203_pre : list stmt :=
  [].
Definition g203_op : list stmt :=
  [ Alloc 0;
  IfNull [0] [ Call [ IfSet 1 [ Call [ IfSet 2 [ Free 2;
            SetNull 2 ] ] false [];
        Free 1;
        SetNull 1 ];
      IfSet 0 [ Call [ IfSet 3 [ Call [ Free 4;
              Free 5;
              SetNull 4;
              SetNull 5 ] false [];
            Free 3 ] ] false [];
        Free 0;
        SetNull 0 ] ] false [];
    Ret (Some Fail) ];
  Call [ SetNull 3;
    SetNull 4;
    SetNull 5;
    Ret (Some Ok) ] false [ Free 0;
    SetNull 0;
    Call [ IfSet 1 [ Call [ IfSet 2 [ Free 2;
            SetNull 2 ] ] false [];
        Free 1;
        SetNull 1 ];
      IfSet 0 [ Call [ IfSet 3 [ Call [ Free 4;
              Free 5;
              SetNull 4;
              SetNull 5 ] false [];
            Free 3 ] ] false [];
        Free 0;
        SetNull 0 ] ] false [];
    Ret (Some Fail) ];
  Alloc 1;
  IfNull [1] [ Call [ IfSet 1 [ Call [ IfSet 2 [ Free 2;
            SetNull 2 ] ] false [];
        Free 1;
        SetNull 1 ];
      IfSet 0 [ Call [ IfSet 3 [ Call [ Free 4;
              Free 5;
              SetNull 4;
              SetNull 5 ] false [];
            Free 3 ] ] false [];
        Free 0;
        SetNull 0 ] ] false [];
    Ret (Some Fail) ];
  Call [ SetNull 2;
    SetNull 2;
    Alloc 2;
    IfNull [2] [ Ret (Some Fail) ];
    Ret (Some Ok) ] false [ Free 1;
    SetNull 1;
    Call [ IfSet 1 [ Call [ IfSet 2 [ Free 2;
            SetNull 2 ] ] false [];
        Free 1;
        SetNull 1 ];
      IfSet 0 [ Call [ IfSet 3 [ Call [ Free 4;
              Free 5;
              SetNull 4;
              SetNull 5 ] false [];
            Free 3 ] ] false [];
        Free 0;
        SetNull 0 ] ] false [];
    Ret (Some Fail) ];
  Ret (Some Ok) ].
Definition g203_destroy : list stmt :=
  [ IfSet 1 [ Call [ IfSet 2 [ Free 2;
        SetNull 2 ] ] false [];
    Free 1;
    SetNull 1 ];
  IfSet 0 [ Call [ IfSet 3 [ Call [ Free 4;
          Free 5;
          SetNull 4;
          SetNull 5 ] false [];
        Free 3 ] ] false [];
    Free 0;
    SetNull 0 ] ].

(* scenario 300: muggle_fast_flow_ctl_init, muggle_fast_flow_ctl_destroy
     0 = arr
*)
Definition g300_pre : list stmt :=
  [].
Definition g300_op : list stmt :=
  [ SetNull 0;
  Alloc 0;
  IfNull [0] [ Ret (Some Fail) ];
  Ret (Some Ok) ].
Definition g300_destroy : list stmt :=
  [ IfSet 0 [ Free 0;
    SetNull 0 ] ].

(* scenario 301: muggle_log_file_time_rot_handler_init, muggle_log_file_time_rot_handler_destroy
     0 = fp
     note: muggle_log_file_time_rot_handler_rotate: undecided scalar condition `ret < 0` guards no resource statement: skipped
*)
Definition g301_pre : list stmt :=
  [].
Definition g301_op : list stmt :=
  [ SetNull 0;
  Call [ IfSet 0 [ Free 0;
      SetNull 0 ];
    Alloc 0;
    IfNull [0] [ Ret (Some Fail) ];
    Ret (Some Ok) ] true [ Ret None ];
  Ret (Some Ok) ].
Definition g301_destroy : list stmt :=
  [ IfSet 0 [ Free 0;
    SetNull 0 ];
  Ret (Some Ok) ].

Definition gen_table : list (nat * (list stmt * list stmt * list stmt)) :=
  [ (0, (g0_pre, g0_op, g0_destroy));
    (1, (g1_pre, g1_op, g1_destroy));
    (2, (g2_pre, g2_op, g2_destroy));
    (4, (g4_pre, g4_op, g4_destroy));
    (5, (g5_pre, g5_op, g5_destroy));
    (6, (g6_pre, g6_op, g6_destroy));
    (9, (g9_pre, g9_op, g9_destroy));
    (10, (g10_pre, g10_op, g10_destroy));
    (11, (g11_pre, g11_op, g11_destroy));
    (12, (g12_pre, g12_op, g12_destroy));
    (13, (g13_pre, g13_op, g13_destroy));
    (14, (g14_pre, g14_op, g14_destroy));
    (15, (g15_pre, g15_op, g15_destroy));
    (16, (g16_pre, g16_op, g16_destroy));
    (18, (g18_pre, g18_op, g18_destroy));
    (21, (g21_pre, g21_op, g21_destroy));
    (23, (g23_pre, g23_op, g23_destroy));
    (24, (g24_pre, g24_op, g24_destroy));
    (26, (g26_pre, g26_op, g26_destroy));
    (28, (g28_pre, g28_op, g28_destroy));
    (30, (g30_pre, g30_op, g30_destroy));
    (31, (g31_pre, g31_op, g31_destroy));
    (33, (g33_pre, g33_op, g33_destroy));
    (37, (g37_pre, g37_op, g37_destroy));
    (43, (g43_pre, g43_op, g43_destroy));
    (47, (g47_pre, g47_op, g47_destroy));
    (61, (g61_pre, g61_op, g61_destroy));
    (77, (g77_pre, g77_op, g77_destroy));
    (78, (g78_pre, g78_op, g78_destroy));
    (201, (g201_pre, g201_op, g201_destroy));
    (202, (g202_pre, g202_op, g202_destroy));
    (203, (g203_pre, g203_op, g203_destroy));
    (300, (g300_pre, g300_op, g300_destroy));
    (301, (g301_pre, g301_op, g301_destroy)) ].
Definition gen_errors : list nat := [].

(* ---- coverage: allocating entry points of the library, from the clang AST of all 86 .c files under muggle/c ----
   acquisition primitives: malloc calloc realloc aligned_alloc posix_memalign strdup fopen fdopen socket socketpair pipe pipe2 eventfd epoll_create epoll_create1 open openat creat shm_open shmget shmat mmap opendir dup dup2 accept accept4 dlopen popen timerfd_create signalfd inotify_init inotify_init1 kqueue *)
From Coq Require Import String.
Open Scope string_scope.
Definition cov_errors : list string := [].
Definition cov_files : nat := 86.
(* (function with external linkage, file: call path to the primitive) *)
Definition alloc_entry_points : list (string * string) :=
  [ ("muggle_array_blocking_queue_init", "sync/array_blocking_queue.c: malloc");
    ("muggle_array_list_append", "dsaa/array_list.c: muggle_array_list_ensure_capacity > malloc");
    ("muggle_array_list_ensure_capacity", "dsaa/array_list.c: malloc");
    ("muggle_array_list_init", "dsaa/array_list.c: malloc");
    ("muggle_array_list_insert", "dsaa/array_list.c: muggle_array_list_ensure_capacity > malloc");
    ("muggle_async_logger_init", "log/log_async_logger.c: muggle_channel_init > aligned_alloc");
    ("muggle_async_logger_log", "log/log_async_logger.c: malloc");
    ("muggle_avl_tree_init", "dsaa/avl_tree.c: malloc");
    ("muggle_avl_tree_insert", "dsaa/avl_tree.c: muggle_avl_tree_allocate_node > malloc");
    ("muggle_bytes_buffer_init", "memory/bytes_buffer.c: malloc");
    ("muggle_channel_init", "sync/channel.c: aligned_alloc");
    ("muggle_dl_load", "os/dl.c: dlopen");
    ("muggle_double_buffer_init", "sync/double_buffer.c: malloc");
    ("muggle_ev_signal_init", "event/event_signal.c: eventfd");
    ("muggle_evloop_add_ctx", "event/event_loop.c: muggle_linked_list_append > muggle_linked_list_allocate_node > malloc");
    ("muggle_evloop_init_epoll", "event/internal/event_loop_epoll.c: epoll_create");
    ("muggle_evloop_init_poll", "event/internal/event_loop_poll.c: malloc");
    ("muggle_evloop_new", "event/event_loop.c: malloc");
    ("muggle_fast_flow_ctl_init", "time/fast_flow_controller.c: malloc");
    ("muggle_flow_ctl_init", "time/flow_controller.c: malloc");
    ("muggle_hash_table_init", "dsaa/hash_table.c: malloc");
    ("muggle_hash_table_put", "dsaa/hash_table.c: malloc");
    ("muggle_heap_ensure_capacity", "dsaa/heap.c: malloc");
    ("muggle_heap_init", "dsaa/heap.c: malloc");
    ("muggle_heap_insert", "dsaa/heap.c: muggle_heap_ensure_capacity > malloc");
    ("muggle_heap_sort", "dsaa/sort.c: muggle_heap_init > malloc");
    ("muggle_linked_list_append", "dsaa/linked_list.c: muggle_linked_list_allocate_node > malloc");
    ("muggle_linked_list_init", "dsaa/linked_list.c: malloc");
    ("muggle_linked_list_insert", "dsaa/linked_list.c: muggle_linked_list_allocate_node > malloc");
    ("muggle_log_complicated_init", "log/log.c: muggle_log_file_time_rot_handler_init > muggle_log_file_time_rot_handler_rotate > muggle_os_fopen > fopen");
    ("muggle_log_file_handler_init", "log/log_file_handler.c: muggle_os_fopen > fopen");
    ("muggle_log_file_rotate_handler_init", "log/log_file_rotate_handler.c: muggle_log_file_rotate_handler_rotate > fopen");
    ("muggle_log_file_time_rot_handler_init", "log/log_file_time_rot_handler.c: muggle_log_file_time_rot_handler_rotate > muggle_os_fopen > fopen");
    ("muggle_log_simple_init", "log/log.c: muggle_log_file_rotate_handler_init > muggle_log_file_rotate_handler_rotate > fopen");
    ("muggle_ma_ring_thread_ctx_get", "sync/ma_ring.c: muggle_ma_ring_thread_ctx_init > aligned_alloc");
    ("muggle_ma_ring_thread_ctx_init", "sync/ma_ring.c: aligned_alloc");
    ("muggle_mcast_join", "net/socket_utils.c: muggle_socket_create > socket");
    ("muggle_memory_pool_alloc", "memory/memory_pool.c: muggle_memory_pool_ensure_space > malloc");
    ("muggle_memory_pool_ensure_space", "memory/memory_pool.c: malloc");
    ("muggle_memory_pool_init", "memory/memory_pool.c: malloc");
    ("muggle_merge_sort", "dsaa/sort.c: malloc");
    ("muggle_os_fopen", "os/os.c: fopen");
    ("muggle_os_listdir", "os/os.c: malloc");
    ("muggle_pointer_slot_init", "memory/pointer_slot.c: malloc");
    ("muggle_queue_enqueue", "dsaa/queue.c: malloc");
    ("muggle_queue_init", "dsaa/queue.c: malloc");
    ("muggle_ring_buffer_init", "sync/ring_buffer.c: aligned_alloc");
    ("muggle_ring_memory_pool_init", "memory/ring_memory_pool.c: malloc");
    ("muggle_shm_open", "sync/shm.c: shmat");
    ("muggle_shm_ringbuf_open", "sync/shm_ring_buffer.c: muggle_shm_open > shmat");
    ("muggle_socket_create", "net/socket.c: socket");
    ("muggle_socket_evloop_add_ctx", "net/socket_evloop_handle.c: muggle_queue_enqueue > malloc");
    ("muggle_socket_evloop_handle_alloc", "net/socket_evloop_handle.c: malloc");
    ("muggle_socket_evloop_handle_init", "net/socket_evloop_handle.c: malloc");
    ("muggle_socket_evloop_pipe_init", "net/socket_evloop_pipe.c: pipe");
    ("muggle_socketpair", "net/socket_utils.c: socketpair");
    ("muggle_sowr_memory_pool_init", "memory/sowr_memory_pool.c: aligned_alloc");
    ("muggle_stack_ensure_capacity", "dsaa/stack.c: malloc");
    ("muggle_stack_init", "dsaa/stack.c: malloc");
    ("muggle_stack_push", "dsaa/stack.c: muggle_stack_ensure_capacity > malloc");
    ("muggle_stacktrace_get", "os/stacktrace.c: malloc");
    ("muggle_tcp_bind", "net/socket_utils.c: muggle_socket_create > socket");
    ("muggle_tcp_bind_connect", "net/socket_utils.c: muggle_tcp_bind > muggle_socket_create > socket");
    ("muggle_tcp_connect", "net/socket_utils.c: muggle_socket_create > socket");
    ("muggle_tcp_listen", "net/socket_utils.c: muggle_socket_create > socket");
    ("muggle_trie_init", "dsaa/trie.c: malloc");
    ("muggle_trie_insert", "dsaa/trie.c: muggle_trie_allocate_node > malloc");
    ("muggle_ts_memory_pool_init", "memory/threadsafe_memory_pool.c: aligned_alloc");
    ("muggle_udp_bind", "net/socket_utils.c: muggle_socket_create > socket");
    ("muggle_udp_connect", "net/socket_utils.c: muggle_socket_create > socket") ].
(* static functions entered only through a function pointer *)
Definition alloc_callbacks : list (string * string) :=
  [ ("muggle_log_file_rotate_handler_write", "log/log_file_rotate_handler.c: muggle_log_file_rotate_handler_rotate > fopen");
    ("muggle_log_file_time_rot_handler_write", "log/log_file_time_rot_handler.c: muggle_log_file_time_rot_handler_rotate > muggle_os_fopen > fopen");
    ("muggle_socket_evloop_on_read", "net/socket_evloop_handle.c: muggle_socket_evloop_on_accept > accept") ].
(* library functions called by the driver functions that run with the faults armed (the .op column of g_inst) *)
Definition driven_under_faults : list string :=
  [ "muggle_array_blocking_queue_init";
    "muggle_array_list_append";
    "muggle_array_list_ensure_capacity";
    "muggle_array_list_init";
    "muggle_array_list_insert";
    "muggle_async_logger_init";
    "muggle_async_logger_log";
    "muggle_avl_tree_init";
    "muggle_avl_tree_insert";
    "muggle_bytes_buffer_init";
    "muggle_channel_init";
    "muggle_double_buffer_init";
    "muggle_ev_ctx_init";
    "muggle_ev_signal_init";
    "muggle_evloop_add_ctx";
    "muggle_evloop_new";
    "muggle_fast_flow_ctl_init";
    "muggle_flow_ctl_init";
    "muggle_hash_table_init";
    "muggle_hash_table_put";
    "muggle_heap_ensure_capacity";
    "muggle_heap_init";
    "muggle_heap_insert";
    "muggle_heap_sort";
    "muggle_linked_list_append";
    "muggle_linked_list_init";
    "muggle_linked_list_insert";
    "muggle_log_complicated_init";
    "muggle_log_console_handler_init";
    "muggle_log_file_handler_init";
    "muggle_log_file_rotate_handler_init";
    "muggle_log_file_time_rot_handler_init";
    "muggle_log_simple_init";
    "muggle_logger_default";
    "muggle_ma_ring_thread_ctx_get";
    "muggle_ma_ring_thread_ctx_init";
    "muggle_mcast_join";
    "muggle_memory_pool_alloc";
    "muggle_memory_pool_ensure_space";
    "muggle_memory_pool_init";
    "muggle_merge_sort";
    "muggle_os_fopen";
    "muggle_pointer_slot_init";
    "muggle_queue_enqueue";
    "muggle_queue_init";
    "muggle_ring_buffer_init";
    "muggle_ring_memory_pool_init";
    "muggle_socket_create";
    "muggle_socket_evloop_add_ctx";
    "muggle_socket_evloop_handle_init";
    "muggle_socket_evloop_pipe_init";
    "muggle_socketpair";
    "muggle_sowr_memory_pool_init";
    "muggle_stack_ensure_capacity";
    "muggle_stack_init";
    "muggle_stack_push";
    "muggle_tcp_bind";
    "muggle_tcp_bind_connect";
    "muggle_tcp_connect";
    "muggle_tcp_listen";
    "muggle_trie_init";
    "muggle_trie_insert";
    "muggle_ts_memory_pool_init";
    "muggle_udp_bind";
    "muggle_udp_connect" ].
(* (allocating entry point, driven function from which it is reachable through direct calls) *)
Definition driven_reach : list (string * string) :=
  [ ("muggle_array_list_ensure_capacity", "muggle_array_list_append");
    ("muggle_array_list_ensure_capacity", "muggle_array_list_insert");
    ("muggle_channel_init", "muggle_async_logger_init");
    ("muggle_memory_pool_init", "muggle_avl_tree_init");
    ("muggle_memory_pool_alloc", "muggle_avl_tree_insert");
    ("muggle_memory_pool_ensure_space", "muggle_avl_tree_insert");
    ("muggle_linked_list_append", "muggle_evloop_add_ctx");
    ("muggle_memory_pool_alloc", "muggle_evloop_add_ctx");
    ("muggle_memory_pool_ensure_space", "muggle_evloop_add_ctx");
    ("muggle_ev_signal_init", "muggle_evloop_new");
    ("muggle_linked_list_init", "muggle_evloop_new");
    ("muggle_memory_pool_init", "muggle_evloop_new");
    ("muggle_memory_pool_init", "muggle_hash_table_init");
    ("muggle_memory_pool_alloc", "muggle_hash_table_put");
    ("muggle_memory_pool_ensure_space", "muggle_hash_table_put");
    ("muggle_heap_ensure_capacity", "muggle_heap_insert");
    ("muggle_heap_ensure_capacity", "muggle_heap_sort");
    ("muggle_heap_init", "muggle_heap_sort");
    ("muggle_heap_insert", "muggle_heap_sort");
    ("muggle_memory_pool_alloc", "muggle_linked_list_append");
    ("muggle_memory_pool_ensure_space", "muggle_linked_list_append");
    ("muggle_memory_pool_init", "muggle_linked_list_init");
    ("muggle_memory_pool_alloc", "muggle_linked_list_insert");
    ("muggle_memory_pool_ensure_space", "muggle_linked_list_insert");
    ("muggle_log_file_time_rot_handler_init", "muggle_log_complicated_init");
    ("muggle_os_fopen", "muggle_log_complicated_init");
    ("muggle_os_fopen", "muggle_log_file_handler_init");
    ("muggle_os_fopen", "muggle_log_file_rotate_handler_init");
    ("muggle_os_fopen", "muggle_log_file_time_rot_handler_init");
    ("muggle_log_file_rotate_handler_init", "muggle_log_simple_init");
    ("muggle_os_fopen", "muggle_log_simple_init");
    ("muggle_ma_ring_thread_ctx_init", "muggle_ma_ring_thread_ctx_get");
    ("muggle_socket_create", "muggle_mcast_join");
    ("muggle_memory_pool_ensure_space", "muggle_memory_pool_alloc");
    ("muggle_memory_pool_alloc", "muggle_queue_enqueue");
    ("muggle_memory_pool_ensure_space", "muggle_queue_enqueue");
    ("muggle_memory_pool_init", "muggle_queue_init");
    ("muggle_memory_pool_alloc", "muggle_socket_evloop_add_ctx");
    ("muggle_memory_pool_ensure_space", "muggle_socket_evloop_add_ctx");
    ("muggle_queue_enqueue", "muggle_socket_evloop_add_ctx");
    ("muggle_memory_pool_init", "muggle_socket_evloop_handle_init");
    ("muggle_queue_init", "muggle_socket_evloop_handle_init");
    ("muggle_stack_ensure_capacity", "muggle_stack_push");
    ("muggle_socket_create", "muggle_tcp_bind");
    ("muggle_socket_create", "muggle_tcp_bind_connect");
    ("muggle_tcp_bind", "muggle_tcp_bind_connect");
    ("muggle_socket_create", "muggle_tcp_connect");
    ("muggle_socket_create", "muggle_tcp_listen");
    ("muggle_memory_pool_init", "muggle_trie_init");
    ("muggle_memory_pool_alloc", "muggle_trie_insert");
    ("muggle_memory_pool_ensure_space", "muggle_trie_insert");
    ("muggle_socket_create", "muggle_udp_bind");
    ("muggle_socket_create", "muggle_udp_connect") ].
Close Scope string_scope.
