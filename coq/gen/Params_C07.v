(* GENERATED on every run by lib/props/c07.py from muggle/c/memory/bytes_buffer.c — do not edit. *)
From Coq Require Import ZArith Bool.
Local Open Scope Z_scope.

Definition gen_contiguous_writable (c w r t : Z) : Z :=
  (if (w >=? r) then (if negb (r =? 0) then (c - w) else (c - w - 1)) else (r - w - 1)).

Definition gen_jump_writable (c w r t : Z) : Z :=
  (if (w >=? r) then (if negb (r =? 0) then (r - 1) else (0)) else (0)).

Definition gen_jump_readable (c w r t : Z) : Z :=
  (if (w >=? r) then (0) else (w)).

Definition gen_contiguous_readable (c w r t : Z) : Z :=
  (if (w >=? r) then (w - r) else (t - r)).
