(* C06 — proofs, part 3: growth, counters, constant size, growth step, init,
   failure, and the refutations of the code as found (fx = false). *)
From MV Require Import C06.Model C06.Proofs C06.Proofs2.
From Coq Require Import Permutation.
Local Open Scope Z_scope.

(* ---------- failure changes nothing (both code variants) ---------- *)
Lemma ensure_space_fail_unchanged : forall fx mo s n s',
  ensure_space fx mo s n = (s', false) -> s' = s.
Proof.
  intros fx mo s n s'. unfold ensure_space.
  destruct (n <=? capacity s); [congruence|].
  destruct (negb (Z.land (flag s) 1 =? 0)); [congruence|].
  destruct (negb (mo 0%nat _)); [congruence|].
  destruct (negb (mo 1%nat _)); [congruence|].
  destruct (negb (mo 2%nat _)); [congruence|].
  destruct (relink _ _). congruence.
Qed.

Lemma alloc_fail_unchanged : forall fx mo s s', alloc fx mo s = (s', None) -> s' = s.
Proof.
  intros fx mo s s'. unfold alloc.
  destruct (used s =? capacity s); [|unfold take; congruence].
  destruct (fx && _); [congruence|].
  destruct (ensure_space fx mo s _) as [s1 ok] eqn:E. destruct ok; [unfold take; congruence|].
  apply ensure_space_fail_unchanged in E. congruence.
Qed.

Lemma NoDup_app_not_l : forall A (l1 l2 : list A) x, NoDup (l1 ++ l2) -> In x l2 -> ~ In x l1.
Proof.
  induction l1; intros l2 x N H2 H1; cbn in *; [contradiction|]. inversion N; subst.
  destruct H1 as [->|H1]; [apply H3; apply in_or_app; auto|]. eapply IHl1; eauto.
Qed.

(* ---------- growth keeps slabs, live set and free part ---------- *)
Lemma growth_preserves_live : forall mo s live n s', Inv s live -> uint32 n ->
  ensure_space true mo s n = (s', true) ->
  Inv s' live /\
  (exists extra, slabs s' = slabs s ++ extra) /\
  (forall k x, nth_error (slabs s) k = Some x -> nth_error (slabs s') k = Some x) /\
  block_size s' = block_size s /\ used s' = used s /\
  (exists nb, free_part s' = free_part s ++ nb) /\
  (forall b, In b live -> ~ In b (free_part s') /\ inside s' b).
Proof.
  intros mo s live n s' I Hn E.
  assert (H : Inv s' live /\ (exists extra, slabs s' = slabs s ++ extra) /\ block_size s' = block_size s /\
              used s' = used s /\ exists nb, free_part s' = free_part s ++ nb).
  { destruct (ensure_space_spec mo s live n I Hn) as [[E' _]|[[E' _]|(s1 & E' & G & I')]]; rewrite E' in E.
    - inversion E; subst. split; auto. split; [exists []; rewrite app_nil_r; auto|].
      repeat split; auto. exists []. rewrite app_nil_r. auto.
    - discriminate.
    - inversion E; subst. destruct G as (_ & _ & _ & Gu & Gb & _ & _ & Gs & Gf).
      split; auto. split; [eauto|]. repeat split; auto. eauto. }
  destruct H as (I' & (extra & Hs) & Hb & Hu & Hf). split; auto. split; [eauto|]. split.
  - intros k x Hk. rewrite Hs. rewrite nth_error_app1; auto. apply nth_error_Some. congruence.
  - repeat split; auto.
    + destruct (ring_partition _ _ I') as (N & _). apply (NoDup_app_not_l _ _ _ _ N H).
    + apply (live_disjoint_inside _ _ I'); auto.
Qed.

(* ---------- counters refine a reference counter model ---------- *)
Record cnt := { r_cap : Z; r_used : Z; r_nslab : Z; r_bs : Z; r_flag : Z; r_mdc : Z }.

Definition abs (s : pool) : cnt :=
  {| r_cap := capacity s; r_used := used s; r_nslab := zlen (slabs s); r_bs := block_size s;
     r_flag := flag s; r_mdc := max_delta_cap s |}.

(* growth to n > r_cap: refused by the constant-size flag or by malloc *)
Definition ref_grow (mo : nat -> Z -> bool) (r : cnt) (n : Z) : cnt * bool :=
  if Z.land (r_flag r) 1 =? 0 then
    if mo 0%nat (8 * (r_nslab r + 1)) && mo 1%nat (r_bs r * (n - r_cap r)) && mo 2%nat (8 * n) then
      ({| r_cap := n; r_used := r_used r; r_nslab := r_nslab r + 1; r_bs := r_bs r;
          r_flag := r_flag r; r_mdc := r_mdc r |}, true)
    else (r, false)
  else (r, false).

Definition ref_ensure (mo : nat -> Z -> bool) (r : cnt) (n : Z) : cnt * bool :=
  if n <=? r_cap r then (r, true) else ref_grow mo r n.

Definition bump (r : cnt) (d : Z) : cnt :=
  {| r_cap := r_cap r; r_used := r_used r + d; r_nslab := r_nslab r; r_bs := r_bs r;
     r_flag := r_flag r; r_mdc := r_mdc r |}.

Definition ref_alloc (mo : nat -> Z -> bool) (r : cnt) : cnt * bool :=
  if r_used r <? r_cap r then (bump r 1, true)
  else
    let d := if (0 <? r_mdc r) && (r_mdc r <? r_cap r) then r_mdc r else r_cap r in
    if two32 <=? r_cap r + d then (r, false)
    else let '(r1, ok) := ref_grow mo r (r_cap r + d) in
         if ok then (bump r1 1, true) else (r, false).

Definition ref_step (r : cnt) (o : op) : cnt :=
  match o with
  | OAlloc mo => fst (ref_alloc mo r)
  | OFree k => if Z.of_nat k <? r_used r then bump r (-1) else r
  | OEnsure mo n => fst (ref_ensure mo r n)
  | OSetFlag v => {| r_cap := r_cap r; r_used := r_used r; r_nslab := r_nslab r; r_bs := r_bs r;
                     r_flag := v; r_mdc := r_mdc r |}
  | OSetMax v => {| r_cap := r_cap r; r_used := r_used r; r_nslab := r_nslab r; r_bs := r_bs r;
                    r_flag := r_flag r; r_mdc := v |}
  end.

Lemma ensure_refines : forall mo s live n, Inv s live -> uint32 n ->
  abs (fst (ensure_space true mo s n)) = fst (ref_ensure mo (abs s) n) /\
  snd (ensure_space true mo s n) = snd (ref_ensure mo (abs s) n).
Proof.
  intros mo s live n I Hn. destruct I as [i_bs0 i_cap0 i_len0 i_a0 i_used0 i_f0 i_live0 i_slabs0 i_perm0].
  unfold ensure_space, ref_ensure, ref_grow.
  change (r_cap (abs s)) with (capacity s). change (r_flag (abs s)) with (flag s).
  change (r_nslab (abs s)) with (zlen (slabs s)). change (r_bs (abs s)) with (block_size s).
  destruct (Z.leb_spec n (capacity s)); [split; reflexivity|].
  destruct (Z.land (flag s) 1 =? 0); cbn [negb]; [|split; reflexivity].
  unfold ptr_size. unfold uint32 in Hn. cbv zeta.
  rewrite (mulsz_small (block_size s) (n - capacity s)) by lia.
  destruct (mo 0%nat _); cbn [negb andb]; [|split; reflexivity].
  destruct (mo 1%nat _); cbn [negb andb]; [|split; reflexivity].
  destruct (mo 2%nat _); cbn [negb andb]; [|split; reflexivity].
  destruct (relink _ _) as [buf na]. cbn [fst snd]. split; [|reflexivity].
  unfold abs. cbn [capacity used slabs block_size flag max_delta_cap r_used r_mdc].
  rewrite zlen_app. reflexivity.
Qed.

Lemma alloc_refines : forall mo s live, Inv s live ->
  abs (fst (alloc true mo s)) = fst (ref_alloc mo (abs s)) /\
  (if snd (alloc true mo s) then true else false) = snd (ref_alloc mo (abs s)).
Proof.
  intros mo s live I. pose proof I as I0.
  destruct I as [i_bs0 i_cap0 i_len0 i_a0 i_used0 i_f0 i_live0 i_slabs0 i_perm0].
  unfold alloc, ref_alloc.
  change (r_used (abs s)) with (used s). change (r_cap (abs s)) with (capacity s).
  change (r_mdc (abs s)) with (max_delta_cap s).
  destruct (Z.eqb_spec (used s) (capacity s)) as [Hf|Hf].
  - destruct (Z.ltb_spec (used s) (capacity s)); [lia|].
    fold (delta_of s). destruct (delta_of_bounds s) as [Hd _]; [lia|].
    rewrite (mod_wrap (capacity s + delta_of s) two32) by lia. cbn [andb].
    destruct (Z.ltb_spec (capacity s + delta_of s) two32) as [Hlt|Hge];
      destruct (Z.leb_spec two32 (capacity s + delta_of s)); try lia.
    + destruct (Z.leb_spec (capacity s + delta_of s) (capacity s)); [lia|].
      destruct (ensure_refines mo s live (capacity s + delta_of s) I0) as [Ea Eb]; [unfold uint32; lia|].
      unfold ref_ensure in Ea, Eb. cbn [abs r_cap] in Ea, Eb.
      destruct (Z.leb_spec (capacity s + delta_of s) (capacity s)); [lia|].
      destruct (ensure_space true mo s (capacity s + delta_of s)) as [s1 ok] eqn:EE.
      destruct (ref_grow mo (abs s) (capacity s + delta_of s)) as [r1 ok']. cbn [fst snd] in *. subst ok' r1.
      destruct ok; cbn [fst snd].
      * split; reflexivity.
      * apply ensure_space_fail_unchanged in EE. subst s1. split; reflexivity.
    + destruct (Z.leb_spec (capacity s + delta_of s - two32) (capacity s)); [|lia]. cbn [fst snd]. auto.
  - destruct (Z.ltb_spec (used s) (capacity s)); [|lia]. cbn [take fst snd]. auto.
Qed.

Lemma step_refines : forall s live o, Inv s live -> op_ok o ->
  abs (fst (step true (s, live) o)) = ref_step (abs s) o.
Proof.
  intros s live o I Ho. destruct o as [mo|k|mo n|v|v]; cbn [step ref_step].
  - destruct (alloc_refines mo s live I) as [A _].
    destruct (alloc true mo s) as [s' [b|]]; exact A.
  - change (r_used (abs s)) with (used s).
    destruct I as [i_bs0 i_cap0 i_len0 i_a0 i_used0 i_f0 i_live0 i_slabs0 i_perm0].
    destruct (nth_error live k) as [b|] eqn:Hk; cbn [fst].
    + assert (k < length live)%nat by (apply nth_error_Some; congruence).
      destruct (Z.ltb_spec (Z.of_nat k) (used s)); [reflexivity|unfold zlen in *; lia].
    + apply nth_error_None in Hk.
      destruct (Z.ltb_spec (Z.of_nat k) (used s)); [unfold zlen in *; lia|reflexivity].
  - cbn [fst]. apply (ensure_refines mo s live n I Ho).
  - reflexivity.
  - reflexivity.
Qed.

Lemma counters_refine : forall ops s live, Inv s live -> Forall op_ok ops ->
  abs (fst (run true (s, live) ops)) = fold_left ref_step ops (abs s) /\
  used (fst (run true (s, live) ops)) = zlen (snd (run true (s, live) ops)).
Proof.
  induction ops as [|o ops IH]; intros s live I H.
  - split; [reflexivity|]. apply I.
  - inversion H; subst. unfold run in *. cbn [fold_left].
    pose proof (step_inv s live o I H2) as I1. pose proof (step_refines s live o I H2) as R.
    destruct (step true (s, live) o) as [s1 l1]. cbn [fst snd] in *. rewrite <- R. apply IH; auto.
Qed.

(* ---------- constant-size pools never grow and report exhaustion ---------- *)
Lemma ensure_space_constant : forall fx mo s n, Z.land (flag s) 1 <> 0 ->
  ensure_space fx mo s n = (s, n <=? capacity s).
Proof.
  intros fx mo s n Hf. unfold ensure_space. destruct (n <=? capacity s); [reflexivity|].
  destruct (Z.eqb_spec (Z.land (flag s) 1) 0); [contradiction|reflexivity].
Qed.

Lemma constant_alloc_exhausted : forall mo s, Z.land (flag s) 1 <> 0 -> used s = capacity s ->
  alloc true mo s = (s, None).
Proof.
  intros mo s Hf Hu. unfold alloc. rewrite Hu, Z.eqb_refl. cbn [andb].
  match goal with |- (if ?c <=? _ then _ else _) = _ => destruct (Z.leb_spec c (capacity s)) as [|Hlt] end;
    [reflexivity|].
  rewrite ensure_space_constant by assumption.
  apply Z.leb_gt in Hlt. rewrite Hlt. reflexivity.
Qed.

Definition not_set_flag (o : op) : Prop := match o with OSetFlag _ => False | _ => True end.

Lemma constant_step : forall s live o, Z.land (flag s) 1 <> 0 -> not_set_flag o ->
  capacity (fst (step true (s, live) o)) = capacity s /\
  slabs (fst (step true (s, live) o)) = slabs s /\
  flag (fst (step true (s, live) o)) = flag s.
Proof.
  intros s live o Hf Ho. destruct o as [mo|k|mo n|v|v]; cbn [step]; try contradiction.
  - unfold alloc. destruct (used s =? capacity s) eqn:Hu.
    + apply Z.eqb_eq in Hu. rewrite (constant_alloc_exhausted mo s Hf Hu) || idtac.
      pose proof (constant_alloc_exhausted mo s Hf Hu) as E. unfold alloc in E.
      rewrite Hu, Z.eqb_refl in E. rewrite <- Hu at 1. rewrite Hu. rewrite E. cbn [fst]. auto.
    + cbn [take fst]. auto.
  - destruct (nth_error live k); cbn [fst free capacity slabs flag]; auto.
  - rewrite ensure_space_constant by assumption. cbn [fst]. auto.
  - cbn [fst set_max_delta_cap capacity slabs flag]. auto.
Qed.

Lemma constant_never_grows : forall ops s live, Z.land (flag s) 1 <> 0 -> Forall not_set_flag ops ->
  capacity (fst (run true (s, live) ops)) = capacity s /\ slabs (fst (run true (s, live) ops)) = slabs s.
Proof.
  induction ops as [|o ops IH]; intros s live Hf H; [split; reflexivity|].
  inversion H; subst. unfold run in *. cbn [fold_left].
  destruct (constant_step s live o Hf H2) as (Hc & Hs & Hfl).
  destruct (step true (s, live) o) as [s1 l1]. cbn [fst] in *.
  rewrite <- Hc, <- Hs. apply IH; auto. rewrite Hfl. assumption.
Qed.

(* ---------- automatic growth is bounded by max_delta_cap ---------- *)
Lemma delta_bounded : forall mo s live s' r, Inv s live -> alloc true mo s = (s', r) ->
  capacity s <= capacity s' <= 2 * capacity s /\
  (0 < max_delta_cap s -> capacity s' - capacity s <= max_delta_cap s) /\
  (capacity s' <> capacity s -> used s = capacity s /\ Z.land (flag s) 1 = 0).
Proof.
  intros mo s live s' r I E. pose proof (i_cap _ _ I) as Hc.
  destruct (delta_of_bounds s) as [Hd Hm]; [lia|].
  destruct (alloc_spec mo s live I) as [[E' _]|(s1 & b & _ & C & E' & _)]; rewrite E' in E; inversion E; subst.
  - split; [lia|]. split; [intros; lia|]. intros Hne; exfalso; lia.
  - unfold take; cbn [fst capacity].
    destruct C as [[-> _]|(Hu & _ & G)].
    + split; [lia|]. split; [intros; lia|]. intros Hne; exfalso; lia.
    + destruct G as (_ & Gf & Gc & _). rewrite Gc.
      split; [lia|]. split; [intros H0; specialize (Hm H0); lia|]. intros _. split; assumption.
Qed.

(* ---------- while blocks remain, alloc succeeds without growing ---------- *)
Lemma allocs_succeed : forall k mo s live, Inv s live -> used s + Z.of_nat k <= capacity s ->
  capacity (fst (run true (s, live) (repeat (OAlloc mo) k))) = capacity s /\
  slabs (fst (run true (s, live) (repeat (OAlloc mo) k))) = slabs s /\
  zlen (snd (run true (s, live) (repeat (OAlloc mo) k))) = zlen live + Z.of_nat k /\
  Inv (fst (run true (s, live) (repeat (OAlloc mo) k))) (snd (run true (s, live) (repeat (OAlloc mo) k))) /\
  block_size (fst (run true (s, live) (repeat (OAlloc mo) k))) = block_size s.
Proof.
  induction k; intros mo s live I H.
  - cbn. split; [reflexivity|]. split; [reflexivity|]. split; [lia|]. split; [exact I|reflexivity].
  - cbn [repeat]. unfold run in *. cbn [fold_left step].
    destruct (alloc_spec mo s live I) as [[_ Hu]|(s1 & b & _ & C & E & _ & I')]; [lia|].
    rewrite E. destruct C as [[-> Hu]|(Hu & _)]; [|lia].
    destruct (IHk mo (fst (take s)) (live ++ [b]) I') as (A1 & A2 & A3 & A4 & A5).
    { unfold take; cbn [fst used capacity]. lia. }
    rewrite A1, A2, A3, A5. rewrite zlen_app. unfold take; cbn [fst capacity slabs block_size].
    change (zlen [b]) with 1.
    split; [reflexivity|]. split; [reflexivity|]. split; [lia|]. split; [exact A4|reflexivity].
Qed.

(* ---------- init is total: it fails or yields eff_cap distinct usable blocks ---------- *)
Lemma init_total : forall mo c bs, uint32 c -> uint32 bs ->
  init true mo c bs = None \/
  exists s, init true mo c bs = Some s /\ Inv s [] /\ capacity s = eff_cap c /\ used s = 0 /\
    zlen (free_part s) = eff_cap c /\ NoDup (free_part s) /\
    (forall b, In b (free_part s) -> inside s b) /\
    (forall b1 b2, In b1 (free_part s) -> In b2 (free_part s) -> b1 <> b2 -> disjoint (block_size s) b1 b2) /\
    (* and eff_cap successive allocs hand them out without growth *)
    (forall mo', let st := run true (s, []) (repeat (OAlloc mo') (Z.to_nat (eff_cap c))) in
       zlen (snd st) = eff_cap c /\ NoDup (snd st) /\ slabs (fst st) = slabs s /\
       forall b, In b (snd st) -> inside s b).
Proof.
  intros mo c bs Hc Hb. destruct (init true mo c bs) as [s|] eqn:E; [right|left; reflexivity].
  exists s. split; [reflexivity|].
  destruct (init_spec mo c bs s Hc Hb E) as (I & Hcap & Hu & _).
  destruct (ring_partition _ _ I) as (N & _ & P & L & _).
  rewrite app_nil_r in N. pose proof (i_cap _ _ I) as Hcp.
  assert (HA : used s + Z.of_nat (Z.to_nat (eff_cap c)) <= capacity s) by lia.
  split; [exact I|]. split; [exact Hcap|]. split; [exact Hu|]. split; [lia|]. split; [exact N|].
  split; [|split].
  - intros b H. apply (all_inside s []); auto. apply P; auto.
  - intros b1 b2 H1 H2. apply (all_disjoint s []); auto; apply P; auto.
  - intros mo' st. unfold st.
    destruct (allocs_succeed (Z.to_nat (eff_cap c)) mo' s [] I HA) as (_ & S & A & I' & B).
    split; [rewrite A; change (zlen (@nil blk)) with 0; lia|]. split; [|split; [exact S|]].
    + destruct (ring_partition _ _ I') as (N' & _). apply NoDup_app_r in N'. exact N'.
    + intros b Hin. destruct (live_disjoint_inside _ _ I') as [Hi _]. specialize (Hi b Hin).
      unfold inside in *. rewrite S, B in Hi. exact Hi.
Qed.

(* ---------- destroy frees every slab exactly once ---------- *)
Lemma destroy_each_slab_once : forall s,
  NoDup (destroy s) /\ (forall k, In k (destroy s) <-> 0 <= k < zlen (slabs s)).
Proof. intros s. unfold destroy. split; [apply NoDup_zseq|]. intros k. apply in_zseq. Qed.

(* ---------- the code as found (fx = false) violates the property ---------- *)
Definition ok_oracle : nat -> Z -> bool := fun _ _ => true.

(* growth of a completely free pool: init 1; ensure_space 4; 4 x alloc; free the
   block of the first slab; alloc  -->  block (1,0) is live twice *)
Definition grow_empty_history : list op :=
  [OEnsure ok_oracle 4; OAlloc ok_oracle; OAlloc ok_oracle; OAlloc ok_oracle; OAlloc ok_oracle;
   OFree 3; OAlloc ok_oracle].

Lemma orig_inv_refuted : exists s0,
  init false ok_oracle 1 16 = Some s0 /\ Forall op_ok grow_empty_history /\
  ~ NoDup (snd (run false (s0, []) grow_empty_history)) /\
  (* the very same history is fine on the repaired code *)
  (forall s1, init true ok_oracle 1 16 = Some s1 -> NoDup (snd (run true (s1, []) grow_empty_history))).
Proof.
  eexists. split; [reflexivity|]. split.
  - unfold grow_empty_history.
    repeat (apply Forall_cons; [cbn [op_ok]; try exact I; unfold uint32; rewrite two32_val; lia|]). apply Forall_nil.
  - split.
    + vm_compute. intro N. inversion N as [|? ? Hn _]; subst. apply Hn. cbn. auto.
    + intros s1 E. vm_compute in E. inversion E; subst. vm_compute.
      repeat constructor; cbn; intuition discriminate.
Qed.

(* uint32 product: init(2, 2^31) asks malloc for 0 bytes, succeeds, and its
   second block lies outside the slab *)
Lemma orig_init_refuted : exists s,
  uint32 2 /\ uint32 (2 ^ 31) /\ init false ok_oracle 2 (2 ^ 31) = Some s /\
  slabs s = [(0, 2)] /\ In (0, 2 ^ 31) (ring s) /\ ~ inside s (0, 2 ^ 31) /\
  (* the repaired code asks for the real size *)
  (forall s1, init true ok_oracle 2 (2 ^ 31) = Some s1 -> slabs s1 = [(2 ^ 32, 2)]).
Proof.
  eexists. split; [unfold uint32; rewrite two32_val; lia|]. split; [unfold uint32; rewrite two32_val; lia|].
  split; [reflexivity|]. split; [reflexivity|]. split; [vm_compute; auto|]. split.
  - intros (sz & c & E & _ & _ & H). vm_compute in E. inversion E; subst. vm_compute in H. apply H. reflexivity.
  - intros s1 E. vm_compute in E. inversion E; subst. reflexivity.
Qed.

(* capacity + delta wrapping in uint32: the unrepaired alloc on a full pool
   "succeeds" without growing and leaves used = capacity + 1 *)
Lemma orig_alloc_cap_wrap_refuted : forall mo s,
  0 < capacity s < two32 -> used s = capacity s -> two32 <= capacity s + delta_of s ->
  alloc false mo s = take s /\ used (fst (alloc false mo s)) = capacity (fst (alloc false mo s)) + 1.
Proof.
  intros mo s Hc Hu Hw. destruct (delta_of_bounds s) as [Hd _]; [lia|].
  assert (E : alloc false mo s = take s).
  { unfold alloc. rewrite Hu, Z.eqb_refl. fold (delta_of s). cbn [andb].
    rewrite (mod_wrap (capacity s + delta_of s) two32) by lia.
    destruct (Z.ltb_spec (capacity s + delta_of s) two32); [lia|].
    unfold ensure_space.
    destruct (Z.leb_spec (capacity s + delta_of s - two32) (capacity s)); [reflexivity|lia]. }
  split; [exact E|]. rewrite E. unfold take; cbn [fst used capacity]. lia.
Qed.

(* ---------- non-vacuity ---------- *)
Definition demo_history : list op :=
  [OAlloc ok_oracle; OAlloc ok_oracle; OFree 0; OAlloc ok_oracle; OAlloc ok_oracle;
   OEnsure ok_oracle 9; OSetMax 1; OFree 1; OAlloc ok_oracle].

(* init 2 x 16 bytes; fill; free; refill; alloc grows 2 -> 4; ensure 9; ... *)
Example demo_reaches_growth : exists s0,
  init true ok_oracle 2 16 = Some s0 /\ Forall op_ok demo_history /\
  let st := run true (s0, []) demo_history in
  capacity (fst st) = 9 /\ used (fst st) = 3 /\ slabs (fst st) = [(32, 2); (32, 2); (80, 5)] /\
  snd st = [(0, 16); (1, 0); (1, 16)].
Proof.
  eexists. split; [reflexivity|]. split.
  - unfold demo_history.
    repeat (apply Forall_cons; [cbn [op_ok]; try exact I; unfold uint32; rewrite two32_val; lia|]). apply Forall_nil.
  - vm_compute. auto.
Qed.

(* a malloc oracle that refuses > 1 GiB: init 65536 x 65536 fails on the repaired code *)
Example demo_init_refused :
  init true (fun _ sz => sz <=? 2 ^ 30) 65536 65536 = None /\
  exists s, init false (fun _ sz => sz <=? 2 ^ 30) 65536 65536 = Some s /\ slabs s = [(0, 65536)].
Proof. split; [reflexivity|]. eexists. split; reflexivity. Qed.

(* constant-size: a full pool reports exhaustion, state unchanged *)
Example demo_constant : exists s0 s,
  init true ok_oracle 1 8 = Some s0 /\ s = fst (run true (s0, []) [OSetFlag 1; OAlloc ok_oracle]) /\
  Z.land (flag s) 1 <> 0 /\ used s = capacity s /\ alloc true ok_oracle s = (s, None).
Proof. eexists. eexists. split; [reflexivity|]. split; [reflexivity|]. vm_compute. repeat split; discriminate. Qed.
