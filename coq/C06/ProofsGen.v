(* C06 — second tie (DESIGN.md 4.4): what muggle_memory_pool_free / _alloc / _init /
   _ensure_space compute — the scalar fields, the pointer ring cell by cell, the slab table, the
   sizes asked from malloc — sliced out of the C text of this run (gen_ definitions of
   gen/Params_C06.v, produced by lib/props/c06_slice.py) equals hand-written reference
   functions (ref_ below) on the whole domain (every capacity < 2^32, every cursor position,
   every malloc outcome, every content of the ring), and the model's functions (C06/Model.v,
   repaired code) equal the same references.

   The gen = ref proofs do not depend on the SHAPE of the generated terms: they unfold, decide
   every `if`, compare tuples component by component, integers by time-limited lia / nia and
   arrays cell by cell through the laws of C06/GenLib.v.  A behaviour-preserving rewrite of the
   C text keeps the obligations; a change of a value anywhere in the domain breaks them. *)
From MV Require Import Lib.Leaf C06.GenLib C06.Model C06.Proofs gen.Params_C06.
From Coq Require Import ZifyBool.
Local Open Scope Z_scope.

(* ---------- the common result tuple ---------- *)
Definition out (ret ai bs cap fl fi mdc nb us : Z) (rc : list Z) (ra : Z) (bc : list Z) (ba : Z)
               (z1 z2 z3 oa : Z) :=
  (ret, ai, bs, cap, fl, fi, mdc, nb, us, rc, ra, bc, ba, z1, z2, z3, oa).

(* ---------- decision tactic ---------- *)
Lemma wrapu32_small x : 0 <= x < 4294967296 -> wrapu 32 x = x.
Proof. intros. unfold wrapu. change (2 ^ 32) with 4294967296. apply Z.mod_small; lia. Qed.
Lemma wrapu64_small x : 0 <= x < 18446744073709551616 -> wrapu 64 x = x.
Proof. intros. unfold wrapu. change (2 ^ 64) with 18446744073709551616. apply Z.mod_small; lia. Qed.
Lemma mul32_lt64 a b : 0 <= a < 4294967296 -> 0 <= b < 4294967296 -> 0 <= a * b < 18446744073709551616.
Proof.
  intros. split; [apply Z.mul_nonneg_nonneg; lia|].
  assert (a * b <= 4294967295 * 4294967295) by (apply Z.mul_le_mono_nonneg; lia). lia.
Qed.
Lemma cdiv8 x : 0 <= x -> cdiv (8 * x) 8 = x.
Proof. intros. unfold cdiv. rewrite Z.mul_comm. apply Z.quot_mul. lia. Qed.

Ltac nocond c := lazymatch c with context [if _ then _ else _] => fail | _ => idtac end.
(* plain lia first; division / modulo (wrapu, cdiv) are turned into equations only when needed *)
Ltac lia_mod := timeout 40 (Z.to_euclidean_division_equations; lia).
Ltac arith := first [ reflexivity | timeout 20 lia | lia_mod | timeout 40 nia ].

(* wraps that provably do not wrap are removed first (shape independent: any occurrence) *)
Ltac wrap_small :=
  repeat match goal with
  | |- context [wrapu 32 ?x] => rewrite (wrapu32_small x) by (timeout 10 lia)
  | |- context [wrapu 64 (?a * ?b)] => rewrite (wrapu64_small (a * b)) by (apply mul32_lt64; timeout 10 lia)
  | |- context [wrapu 64 ?x] => rewrite (wrapu64_small x) by (timeout 10 lia)
  | |- context [cdiv (8 * ?x) 8] => rewrite (cdiv8 x) by (timeout 10 lia)
  end.

Ltac norm_consts :=
  unfold b2z, z2b in *;
  change (2 ^ 32) with 4294967296 in *; change (2 ^ 64) with 18446744073709551616 in *.

Ltac closed_term c := tryif (match c with context [?x] => is_var x end) then fail else idtac.
Ltac split_if :=
  match goal with
  | |- context [if ?c then _ else _] =>
    nocond c;
    lazymatch c with
    | context [lget _ _] => fail
    | _ => idtac
    end;
    first [ closed_term c;
            let v := eval vm_compute in c in
            lazymatch v with
            | true => change c with true; cbv iota
            | false => change c with false; cbv iota
            end
          | destruct c eqn:? ]
  end.

Ltac lens :=
  repeat first [ rewrite zlen_lblit | rewrite zlen_lfill | rewrite zlen_lset | rewrite GenLib.zlen_app
               | rewrite zlen_single | rewrite zlen_nil
               | rewrite zlen_ltab by (timeout 20 lia)
               | rewrite zlen_pslice by (timeout 20 lia) ].

(* one cell of an array term *)
Ltac lget_step :=
  match goal with
  | |- context [lget (lblit ?d ?o ?s ?so ?n) ?j] =>
    rewrite (lget_lblit d o s so n j) by (lens; timeout 20 lia)
  | |- context [lget (lset ?l ?i ?v) ?j] =>
    rewrite (lget_lset l i v j) by (lens; timeout 20 lia)
  | |- context [lfill ?l ?n (fun i => wrapu 32 (@?g i)) ?fv] =>
    rewrite (lfill_idx_small l n g fv) by (intros; cbv beta; timeout 20 lia); cbv beta
  | |- context [lget (lfill ?l ?n ?fi ?fv) ?j] =>
    rewrite (lget_lfill_affine l n fi fv (fi 0) j)
      by (first [ lens; timeout 20 lia
                | intros; cbv beta; first [ timeout 20 lia | unfold wrapu; norm_consts; lia_mod ] ]);
    cbv beta
  | |- context [lget (?a ++ ?b) ?j] => rewrite (lget_app a b j) by (timeout 20 lia); lens
  | |- context [lget (pslice ?st ?n ?l) ?j] => rewrite (lget_pslice l st n j) by (timeout 20 lia)
  | |- context [lget (ltab ?n ?g) ?j] => rewrite (lget_ltab n g j) by (timeout 20 lia); cbv beta
  | |- context [lget (?x :: nil) ?e] =>
    lazymatch e with 0 => fail | _ => idtac end;
    replace e with 0 by (timeout 20 lia)
  | |- context [lget (?x :: nil) 0] => rewrite (lget_single x)
  end.

Ltac cell_leaf :=
  first [ reflexivity
        | solve [exfalso; timeout 20 lia]
        | solve [wrap_small; first [ reflexivity | timeout 20 lia | f_equal; timeout 20 lia ]]
        | solve [wrap_small; repeat (f_equal; try (timeout 20 lia)); unfold wrapu; norm_consts; arith]
        | solve [unfold wrapu; norm_consts; arith] ].

Ltac cells := repeat first [ lget_step | split_if ]; cell_leaf.

Ltac list_decide :=
  first [ reflexivity
        | apply list_ext; [ lens; unfold wrapu; norm_consts; arith
                          | let j := fresh "j" in let Hj := fresh "Hj" in
                            intros j Hj; revert Hj; lens; intros Hj; cells ] ].

Ltac component :=
  lazymatch goal with
  | |- @eq (list Z) _ _ => list_decide
  | |- _ => first [ reflexivity | unfold wrapu; norm_consts; arith ]
  end.

Ltac split_tuple :=
  repeat match goal with
  | |- (_, _) = (_, _) => apply f_equal2
  end.

Ltac pool_decide :=
  cbv zeta; norm_consts;
  repeat first [ split_if | lget_step ];
  wrap_small;
  first [ solve [exfalso; first [ timeout 20 lia | unfold wrapu in *; norm_consts; lia_mod ]]
        | unfold out; split_tuple; component ].

(* ---------- domain ---------- *)
Definition u32 (x : Z) : Prop := 0 <= x < 4294967296.
Definition dom (ai cap fi us : Z) : Prop :=
  0 < cap < 4294967296 /\ 0 <= ai < cap /\ 0 <= fi < cap /\ 0 <= us <= cap.

(* ---------- free ---------- *)
Definition step_idx (i cap : Z) : Z := if i + 1 =? cap then 0 else i + 1.

Definition ref_free (ai bs cap fl fi mdc nb us : Z) (ring0 : list Z) (a_ring0 : Z) (bufs0 : list Z) (a_bufs0 p : Z) :=
  out 0 ai bs cap fl (step_idx fi cap) mdc nb (us - 1) (lset ring0 fi p) a_ring0 bufs0 a_bufs0 (-1) (-1) (-1) 0.

Lemma gen_free_ref ai bs cap fl fi mdc nb us ring0 a_ring0 bufs0 a_bufs0 h1 m1 h2 m2 h3 m3 p :
  dom ai cap fi us -> 1 <= us ->
  gen_free ai bs cap fl fi mdc nb us ring0 a_ring0 bufs0 a_bufs0 h1 m1 h2 m2 h3 m3 p =
  ref_free ai bs cap fl fi mdc nb us ring0 a_ring0 bufs0 a_bufs0 p.
Proof.
  intros (Hc & Ha & Hf & Hu) Hu1. unfold gen_free, ref_free, step_idx. pool_decide.
Qed.

(* ---------- alloc (ensure_space is opaque: it answers ores and leaves the havocked fields h_x) ---------- *)
Definition ref_delta (cap mdc : Z) : Z := if (0 <? mdc) && (mdc <? cap) then mdc else cap.

Definition ref_alloc (ai bs cap fl fi mdc nb us : Z) (ring0 : list Z) (a_ring0 : Z) (bufs0 : list Z) (a_bufs0 : Z)
                     (ores h_ai h_cap h_fi h_nb : Z) (hring : list Z) (a_hring : Z) :=
  if us =? cap then
    let nc := (cap + ref_delta cap mdc) mod 4294967296 in
    if nc <=? cap then out 0 ai bs cap fl fi mdc nb us ring0 a_ring0 bufs0 a_bufs0 (-1) (-1) (-1) (-1)
    else if ores =? 0 then out 0 h_ai bs h_cap fl h_fi mdc h_nb us hring a_hring bufs0 a_bufs0 (-1) (-1) (-1) nc
    else out (lget hring h_ai) (step_idx h_ai h_cap) bs h_cap fl h_fi mdc h_nb (us + 1) hring a_hring bufs0 a_bufs0 (-1) (-1) (-1) nc
  else out (lget ring0 ai) (step_idx ai cap) bs cap fl fi mdc nb (us + 1) ring0 a_ring0 bufs0 a_bufs0 (-1) (-1) (-1) (-1).

Lemma gen_alloc_ref ai bs cap fl fi mdc nb us ring0 a_ring0 bufs0 a_bufs0 h1 m1 h2 m2 h3 m3
                    ores h_ai h_cap h_fi h_nb hring a_hring :
  dom ai cap fi us -> u32 mdc -> 0 <= h_ai < h_cap -> h_cap < 4294967296 ->
  gen_alloc ai bs cap fl fi mdc nb us ring0 a_ring0 bufs0 a_bufs0 h1 m1 h2 m2 h3 m3 ores h_ai h_cap h_fi h_nb hring a_hring =
  ref_alloc ai bs cap fl fi mdc nb us ring0 a_ring0 bufs0 a_bufs0 ores h_ai h_cap h_fi h_nb hring a_hring.
Proof.
  intros (Hc & Ha & Hf & Hu) Hm Hh Hhc. unfold u32 in *.
  unfold gen_alloc, ref_alloc, ref_delta, step_idx. pool_decide.
Qed.

(* ---------- init ---------- *)
(* contents of an array whose address is NULL are not observable *)
Definition obs (t : Z * Z * Z * Z * Z * Z * Z * Z * Z * list Z * Z * list Z * Z * Z * Z * Z * Z) :=
  let '(ret, ai, bs, cap, fl, fi, mdc, nb, us, rc, ra, bc, ba, z1, z2, z3, oa) := t in
  (ret, ai, bs, cap, fl, fi, mdc, nb, us, (if ra =? 0 then [] else rc), ra, (if ba =? 0 then [] else bc), ba, z1, z2, z3, oa).

Definition init_fail (z1 z2 z3 : Z) := out 0 0 0 0 0 0 0 0 0 [] 0 [] 0 z1 z2 z3 0.

Definition ref_init (heap_1 : list Z) (m1 m2 m3 c0 bs0 : Z) :=
  let cap := if c0 =? 0 then 8 else c0 in
  if bs0 =? 0 then init_fail (-1) (-1) (-1)
  else if m1 =? 0 then init_fail 8 (-1) (-1)
  else if m2 =? 0 then init_fail 8 (8 * cap) (-1)
  else if m3 =? 0 then init_fail 8 (8 * cap) (bs0 * cap)
  else out 1 0 bs0 cap 0 0 (if 8192 <? bs0 then cap else 524288) 1 0
           (ltab cap (fun i => m3 + i * bs0)) m2 (lset heap_1 0 m3) m1 8 (8 * cap) (bs0 * cap) 0.

Lemma gen_init_ref ai bs cap fl fi mdc nb us ring0 a_ring0 bufs0 a_bufs0 h1 m1 h2 m2 h3 m3 c0 bs0 :
  u32 c0 -> u32 bs0 -> zlenZ h1 = 1 -> zlenZ h2 = (if c0 =? 0 then 8 else c0) ->
  obs (gen_init ai bs cap fl fi mdc nb us ring0 a_ring0 bufs0 a_bufs0 h1 m1 h2 m2 h3 m3 c0 bs0) =
  obs (ref_init h1 m1 m2 m3 c0 bs0).
Proof.
  intros Hc Hb L1 L2. unfold u32 in *. unfold gen_init, ref_init, init_fail, out, obs.
  pool_decide.
Qed.

(* ---------- ensure_space ---------- *)
(* the re-linearised ring: four runs of the old ring (start, count) followed by the new blocks *)
Definition ring_of (r : list Z) (s1 n1 s2 n2 s3 n3 s4 n4 : Z) (newb : list Z) : list Z :=
  pslice s1 n1 r ++ pslice s2 n2 r ++ pslice s3 n3 r ++ pslice s4 n4 r ++ newb.

Definition ref_ensure (ai bs cap fl fi mdc nb us : Z) (ring0 : list Z) (a_ring0 : Z) (bufs0 : list Z) (a_bufs0 : Z)
                      (heap_1 : list Z) (m1 m2 m3 n : Z) :=
  let same := fun ret z1 z2 z3 => out ret ai bs cap fl fi mdc nb us ring0 a_ring0 bufs0 a_bufs0 z1 z2 z3 0 in
  if n <=? cap then same 1 (-1) (-1) (-1)
  else if negb (Z.land fl 1 =? 0) then same 0 (-1) (-1) (-1)
  else
    let d := n - cap in
    let z1 := 8 * (nb + 1) in let z2 := bs * d in let z3 := 8 * n in
    if m1 =? 0 then same 0 z1 (-1) (-1)
    else if m2 =? 0 then same 0 z1 z2 (-1)
    else if m3 =? 0 then same 0 z1 z2 z3
    else
      let newb := ltab d (fun i => m2 + i * bs) in
      let grown := fun na rc => out 1 na bs n fl 0 mdc (nb + 1) us rc m3
                                   (lset (lblit heap_1 0 bufs0 0 nb) nb m2) m1 z1 z2 z3 0 in
      if us =? cap then
        (* every block handed out: the whole ring is empty slots, rotated to start at free_index *)
        grown cap (ring_of ring0 fi (cap - fi) 0 fi 0 0 0 0 newb)
      else if fi <=? ai then
        (* empty slots [fi, ai), available blocks [ai, cap) ++ [0, fi) *)
        grown (ai - fi) (ring_of ring0 fi (ai - fi) 0 0 ai (cap - ai) 0 fi newb)
      else
        (* empty slots [fi, cap) ++ [0, ai), available blocks [ai, fi) *)
        grown (cap - fi + ai) (ring_of ring0 fi (cap - fi) 0 ai ai (fi - ai) 0 0 newb).

Lemma gen_ensure_ref ai bs cap fl fi mdc nb us ring0 a_ring0 bufs0 a_bufs0 h1 m1 h2 m2 h3 m3 n :
  dom ai cap fi us -> 0 < bs < 4294967296 -> u32 n -> 0 <= nb < 4294967295 ->
  zlenZ ring0 = cap -> zlenZ bufs0 = nb -> zlenZ h1 = nb + 1 -> zlenZ h3 = n ->
  gen_ensure_space ai bs cap fl fi mdc nb us ring0 a_ring0 bufs0 a_bufs0 h1 m1 h2 m2 h3 m3 n =
  ref_ensure ai bs cap fl fi mdc nb us ring0 a_ring0 bufs0 a_bufs0 h1 m1 m2 m3 n.
Proof.
  intros (Hc & Ha & Hf & Hu) Hb Hn Hnb L0 Lb L1 L3. unfold u32 in *.
  unfold gen_ensure_space, ref_ensure, ring_of. pool_decide.
Qed.

(* ====================== model = reference ====================== *)
(* The model's ring holds block ids; [code] maps a block id to the integer the C cell holds. *)
Definition core (t : Z * Z * Z * Z * Z * Z * Z * Z * Z * list Z * Z * list Z * Z * Z * Z * Z * Z) :=
  let '(ret, ai, bs, cap, fl, fi, mdc, nb, us, rc, ra, bc, ba, z1, z2, z3, oa) := t in
  (ret, ai, bs, cap, fl, fi, mdc, nb, us, rc, oa).
Definition menc (code : blk -> Z) (ret : Z) (s : pool) (oa : Z) :=
  (ret, alloc_index s, block_size s, capacity s, flag s, free_index s, max_delta_cap s,
   zlen (slabs s), used s, map code (ring s), oa).

Lemma zlenZ_map : forall (code : blk -> Z) r, zlenZ (map code r) = zlen r.
Proof. intros. unfold zlenZ, zlen. rewrite map_length. reflexivity. Qed.

Lemma map_upd_nth : forall (code : blk -> Z) r i b,
  map code (upd_nth i b r) = lset_nat (map code r) i (code b).
Proof. induction r; destruct i; intros; cbn; auto. f_equal. apply IHr. Qed.

Lemma lget_map_code : forall (code : blk -> Z) r i, 0 <= i < zlen r -> lget (map code r) i = code (znth i r).
Proof.
  intros code r i H. unfold lget, znth, zlen in *.
  rewrite (nth_indep _ 0 (code dflt)) by (rewrite map_length; lia). apply map_nth.
Qed.

Lemma pslice_map : forall (code : blk -> Z) st n r, pslice st n (map code r) = map code (zslice st n r).
Proof. intros. unfold pslice, zslice. rewrite <- firstn_map, <- skipn_map. reflexivity. Qed.

Lemma pos_from_zseq : forall k s, pos_from s k = zseq_from s k.
Proof. induction k; intros; cbn; [reflexivity|]. rewrite IHk. reflexivity. Qed.
Lemma ltab_zseq : forall n g, ltab n g = map g (zseq n).
Proof. intros. unfold ltab, zseq. rewrite pos_from_zseq. reflexivity. Qed.

(* ---------- free ---------- *)
Lemma model_free_ref : forall code s live b a_r bc a_b, Inv s live ->
  core (ref_free (alloc_index s) (block_size s) (capacity s) (flag s) (free_index s) (max_delta_cap s)
                 (zlen (slabs s)) (used s) (map code (ring s)) a_r bc a_b (code b)) =
  menc code 0 (free s b) 0.
Proof.
  intros code s live b a_r bc a_b I. unfold ref_free, out, core, menc, free, step_idx.
  cbn [alloc_index block_size capacity flag free_index max_delta_cap slabs used ring].
  unfold zupd, lset. rewrite map_upd_nth. reflexivity.
Qed.

(* ---------- alloc ---------- *)
Lemma delta_of_ref : forall s, delta_of s = ref_delta (capacity s) (max_delta_cap s).
Proof. reflexivity. Qed.

Lemma model_alloc_ref : forall code mo s live a_r bc a_b a_h, Inv s live ->
  let nc := (capacity s + delta_of s) mod two32 in
  let s1 := fst (ensure_space true mo s nc) in
  let ok := snd (ensure_space true mo s nc) in
  core (ref_alloc (alloc_index s) (block_size s) (capacity s) (flag s) (free_index s) (max_delta_cap s)
                  (zlen (slabs s)) (used s) (map code (ring s)) a_r bc a_b
                  (if ok then 1 else 0) (alloc_index s1) (capacity s1) (free_index s1) (zlen (slabs s1))
                  (map code (ring s1)) a_h) =
  menc code (match snd (alloc true mo s) with Some b => code b | None => 0 end) (fst (alloc true mo s))
       (if used s =? capacity s then (if nc <=? capacity s then -1 else nc) else -1).
Proof.
  intros code mo s live a_r bc a_b a_h I nc s1 ok. pose proof I as I0.
  destruct I as [i_bs0 i_cap0 i_len0 i_a0 i_used0 i_f0 i_live0 i_slabs0 i_perm0].
  unfold ref_alloc, alloc. rewrite <- delta_of_ref. fold (delta_of s). change 4294967296 with two32. fold nc.
  destruct (Z.eqb_spec (used s) (capacity s)) as [Hfull|Hnf].
  - cbn [andb]. destruct (Z.leb_spec nc (capacity s)) as [Hle|Hgt]; [reflexivity|].
    assert (Hnc : uint32 nc) by (unfold uint32, nc; apply Z.mod_pos_bound; reflexivity).
    unfold ok, s1.
    destruct (ensure_space_spec mo s live nc I0 Hnc) as [[E Hle]|[[E _]|(s2 & E & G & I2)]]; [lia| |]; rewrite E; cbn [fst snd].
    + reflexivity.
    + destruct G as (_ & _ & Gc & Gu & Gb & Gf & Gm & _).
      pose proof (i_a _ _ I2) as Ha2. pose proof (i_len _ _ I2) as Hl2.
      unfold take, out, core, menc, step_idx.
      cbn [fst snd alloc_index block_size capacity flag free_index max_delta_cap slabs used ring].
      rewrite lget_map_code by lia. rewrite Gb, Gf, Gm, Gu. reflexivity.
  - unfold take, out, core, menc, step_idx.
    cbn [fst snd alloc_index block_size capacity flag free_index max_delta_cap slabs used ring].
    rewrite lget_map_code by lia. reflexivity.
Qed.

(* ---------- init ---------- *)
(* the malloc oracle of the model answers at exactly the sizes the code asks for (z1 z2 z3 of ref_init) *)
Lemma model_init_ref : forall mo c bs m1 m2 m3 h1, uint32 c -> uint32 bs ->
  let cap := eff_cap c in
  (m1 =? 0) = negb (mo 0%nat 8) -> (m2 =? 0) = negb (mo 1%nat (8 * cap)) -> (m3 =? 0) = negb (mo 2%nat (bs * cap)) ->
  core (ref_init h1 m1 m2 m3 c bs) =
  match init true mo c bs with
  | Some s => menc (fun b => m3 + snd b) 1 s 0
  | None => (0, 0, 0, 0, 0, 0, 0, 0, 0, [], 0)
  end.
Proof.
  intros mo c bs m1 m2 m3 h1 Hc Hb cap E1 E2 E3. unfold ref_init, init, init_fail, out, core.
  fold (eff_cap c). fold cap. unfold ptr_size.
  assert (Hcap : 0 < cap < two32).
  { unfold cap, eff_cap, uint32 in *. rewrite two32_val in *. destruct (Z.eqb_spec c 0); lia. }
  unfold uint32 in *. rewrite (mulsz_small bs cap) by lia.
  destruct (Z.eqb_spec bs 0); [reflexivity|].
  rewrite E1. destruct (mo 0%nat 8); cbn [negb]; [|reflexivity].
  rewrite E2. destruct (mo 1%nat (8 * cap)); cbn [negb]; [|reflexivity].
  rewrite E3. destruct (mo 2%nat (bs * cap)); cbn [negb]; [|reflexivity].
  unfold menc. cbn [alloc_index block_size capacity flag free_index max_delta_cap slabs used ring].
  unfold new_blocks. rewrite map_map, ltab_zseq. cbn [snd].
  replace (map (fun i => m3 + i * bs) (zseq cap)) with (map (fun x => m3 + mulsz true x bs) (zseq cap)).
  - reflexivity.
  - apply map_ext_in. intros i Hi. apply in_zseq in Hi. rewrite mulsz_small by lia. reflexivity.
Qed.

(* ---------- ensure_space ---------- *)
Lemma model_ensure_ref : forall (code : blk -> Z) mo s live m1 m2 m3 n a_r bc a_b h1, Inv s live -> uint32 n ->
  let nb := zlen (slabs s) in
  (forall off, code (nb, off) = m2 + off) ->
  (m1 =? 0) = negb (mo 0%nat (8 * (nb + 1))) ->
  (m2 =? 0) = negb (mo 1%nat (block_size s * (n - capacity s))) ->
  (m3 =? 0) = negb (mo 2%nat (8 * n)) ->
  core (ref_ensure (alloc_index s) (block_size s) (capacity s) (flag s) (free_index s) (max_delta_cap s)
                   nb (used s) (map code (ring s)) a_r bc a_b h1 m1 m2 m3 n) =
  menc code (if snd (ensure_space true mo s n) then 1 else 0) (fst (ensure_space true mo s n)) 0.
Proof.
  intros code mo s live m1 m2 m3 n a_r bc a_b h1 I Hn nb Hcode E1 E2 E3. subst nb. pose proof I as I0.
  destruct I as [i_bs0 i_cap0 i_len0 i_a0 i_used0 i_f0 i_live0 i_slabs0 i_perm0].
  assert (Hfb : 0 <= free_index s < capacity s) by (rewrite i_f0; apply Z.mod_pos_bound; lia).
  unfold ref_ensure, ensure_space. unfold ptr_size.
  destruct (Z.leb_spec n (capacity s)); [reflexivity|].
  destruct (Z.land (flag s) 1 =? 0); cbn [negb]; [|reflexivity].
  unfold uint32 in *. cbv zeta. rewrite (mulsz_small (block_size s) (n - capacity s)) by lia.
  rewrite E1. destruct (mo 0%nat _); cbn [negb]; [|reflexivity].
  rewrite E2. destruct (mo 1%nat _); cbn [negb]; [|reflexivity].
  rewrite E3. destruct (mo 2%nat _); cbn [negb]; [|reflexivity].
  (* the sections *)
  assert (Hnew : map code (new_blocks true (zlen (slabs s)) (block_size s) (n - capacity s)) =
                 ltab (n - capacity s) (fun i => m2 + i * block_size s)).
  { unfold new_blocks. rewrite map_map, ltab_zseq. apply map_ext_in. intros i Hi. apply in_zseq in Hi.
    rewrite Hcode, mulsz_small by lia. reflexivity. }
  unfold choose_sects.
  destruct (Z.eqb_spec (used s) (capacity s)) as [Hu|Hu].
  - rewrite relink_nf by (cbn [fs1 fs2 as1 as2 fst snd]; lia).
    cbn [fs1 fs2 as1 as2 fst snd]. unfold out, core, menc, ring_of, sl. cbn [fst snd].
    cbn [alloc_index block_size capacity flag free_index max_delta_cap slabs used ring].
    rewrite !map_app, Hnew, !pslice_map, zlen_app. change (zlen [(block_size s * (n - capacity s), n - capacity s)]) with 1.
    rewrite <- !app_assoc. repeat (f_equal; try lia).
  - destruct (Z.leb_spec (free_index s) (alloc_index s)).
    + rewrite relink_nf by (cbn [fs1 fs2 as1 as2 fst snd]; lia).
      cbn [fs1 fs2 as1 as2 fst snd]. unfold out, core, menc, ring_of, sl. cbn [fst snd].
      cbn [alloc_index block_size capacity flag free_index max_delta_cap slabs used ring].
      rewrite !map_app, Hnew, !pslice_map, zlen_app. change (zlen [(block_size s * (n - capacity s), n - capacity s)]) with 1.
      rewrite <- !app_assoc. repeat (f_equal; try lia).
    + rewrite relink_nf by (cbn [fs1 fs2 as1 as2 fst snd]; lia).
      cbn [fs1 fs2 as1 as2 fst snd]. unfold out, core, menc, ring_of, sl. cbn [fst snd].
      cbn [alloc_index block_size capacity flag free_index max_delta_cap slabs used ring].
      rewrite !map_app, Hnew, !pslice_map, zlen_app. change (zlen [(block_size s * (n - capacity s), n - capacity s)]) with 1.
      rewrite <- !app_assoc. repeat (f_equal; try lia).
Qed.

(* ====================== generated = model ====================== *)
(* The function generated from the C text of this run, applied to the fields of a model state
   (any state satisfying the ring invariant, i.e. every reachable one), to the ring cell
   contents [map code (ring s)], and to arbitrary addresses / slab table / fresh heap objects of
   the right length, yields exactly the fields, ring cells and result of the model's function. *)
Lemma inv_dom : forall s live, Inv s live -> dom (alloc_index s) (capacity s) (free_index s) (used s).
Proof.
  intros s live I. destruct I as [i_bs0 i_cap0 i_len0 i_a0 i_used0 i_f0 i_live0 i_slabs0 i_perm0].
  rewrite two32_val in *. unfold dom. repeat split; try lia; rewrite i_f0; apply Z.mod_pos_bound; lia.
Qed.

Lemma gen_free_model : forall (code : blk -> Z) s live b a_r bc a_b h1 m1 h2 m2 h3 m3,
  Inv s live -> 1 <= used s ->
  core (gen_free (alloc_index s) (block_size s) (capacity s) (flag s) (free_index s) (max_delta_cap s)
                 (zlen (slabs s)) (used s) (map code (ring s)) a_r bc a_b h1 m1 h2 m2 h3 m3 (code b)) =
  menc code 0 (free s b) 0.
Proof.
  intros. rewrite gen_free_ref by (eauto using inv_dom). eapply model_free_ref; eauto.
Qed.

Lemma gen_alloc_model : forall (code : blk -> Z) mo s live a_r bc a_b a_h h1 m1 h2 m2 h3 m3,
  Inv s live -> u32 (max_delta_cap s) ->
  let nc := (capacity s + delta_of s) mod two32 in
  let s1 := fst (ensure_space true mo s nc) in
  let ok := snd (ensure_space true mo s nc) in
  core (gen_alloc (alloc_index s) (block_size s) (capacity s) (flag s) (free_index s) (max_delta_cap s)
                  (zlen (slabs s)) (used s) (map code (ring s)) a_r bc a_b h1 m1 h2 m2 h3 m3
                  (if ok then 1 else 0) (alloc_index s1) (capacity s1) (free_index s1) (zlen (slabs s1))
                  (map code (ring s1)) a_h) =
  menc code (match snd (alloc true mo s) with Some b => code b | None => 0 end) (fst (alloc true mo s))
       (if used s =? capacity s then (if nc <=? capacity s then -1 else nc) else -1).
Proof.
  intros code mo s live a_r bc a_b a_h h1 m1 h2 m2 h3 m3 I Hm nc s1 ok.
  assert (I1 : Inv s1 live).
  { unfold s1. assert (Hnc : uint32 nc) by (unfold uint32, nc; apply Z.mod_pos_bound; reflexivity).
    destruct (ensure_space_spec mo s live nc I Hnc) as [[E _]|[[E _]|(s2 & E & _ & I2)]]; rewrite E; auto. }
  rewrite gen_alloc_ref.
  - eapply model_alloc_ref; eauto.
  - eapply inv_dom; eauto.
  - assumption.
  - apply (i_a _ _ I1).
  - pose proof (i_cap _ _ I1). rewrite two32_val in *. lia.
Qed.

Lemma core_obs_ref_init : forall h1 m1 m2 m3 c bs,
  core (obs (ref_init h1 m1 m2 m3 c bs)) = core (ref_init h1 m1 m2 m3 c bs).
Proof.
  intros. unfold ref_init, init_fail, out, obs, core.
  destruct (bs =? 0); [reflexivity|]. destruct (m1 =? 0); [reflexivity|].
  destruct (m2 =? 0) eqn:E2; [reflexivity|]. destruct (m3 =? 0); [reflexivity|].
  rewrite E2. reflexivity.
Qed.

Lemma core_obs : forall t u, obs t = obs u -> core (obs t) = core (obs u).
Proof. intros t u H. rewrite H. reflexivity. Qed.

Lemma gen_init_model : forall mo c bs ai bs0 cap0 fl fi mdc nb us ring0 a_ring0 bufs0 a_bufs0 h1 m1 h2 m2 h3 m3,
  uint32 c -> uint32 bs ->
  zlenZ h1 = 1 -> zlenZ h2 = eff_cap c ->
  (m1 =? 0) = negb (mo 0%nat 8) -> (m2 =? 0) = negb (mo 1%nat (8 * eff_cap c)) ->
  (m3 =? 0) = negb (mo 2%nat (bs * eff_cap c)) ->
  core (obs (gen_init ai bs0 cap0 fl fi mdc nb us ring0 a_ring0 bufs0 a_bufs0 h1 m1 h2 m2 h3 m3 c bs)) =
  match init true mo c bs with
  | Some s => menc (fun b => m3 + snd b) 1 s 0
  | None => (0, 0, 0, 0, 0, 0, 0, 0, 0, [], 0)
  end.
Proof.
  intros mo c bs ai bs0 cap0 fl fi mdc nb us ring0 a_ring0 bufs0 a_bufs0 h1 m1 h2 m2 h3 m3 Hc Hb L1 L2 E1 E2 E3.
  rewrite (core_obs _ (ref_init h1 m1 m2 m3 c bs)).
  - rewrite core_obs_ref_init. apply model_init_ref; auto.
  - apply gen_init_ref; auto.
Qed.

Lemma gen_ensure_model : forall (code : blk -> Z) mo s live m1 m2 m3 n a_r bc a_b h1 h2 h3,
  Inv s live -> uint32 n ->
  let nb := zlen (slabs s) in
  nb < 4294967295 -> zlenZ bc = nb -> zlenZ h1 = nb + 1 -> zlenZ h3 = n ->
  (forall off, code (nb, off) = m2 + off) ->
  (m1 =? 0) = negb (mo 0%nat (8 * (nb + 1))) ->
  (m2 =? 0) = negb (mo 1%nat (block_size s * (n - capacity s))) ->
  (m3 =? 0) = negb (mo 2%nat (8 * n)) ->
  core (gen_ensure_space (alloc_index s) (block_size s) (capacity s) (flag s) (free_index s) (max_delta_cap s)
                         nb (used s) (map code (ring s)) a_r bc a_b h1 m1 h2 m2 h3 m3 n) =
  menc code (if snd (ensure_space true mo s n) then 1 else 0) (fst (ensure_space true mo s n)) 0.
Proof.
  intros code mo s live m1 m2 m3 n a_r bc a_b h1 h2 h3 I Hn nb Hnb Lb L1 L3 Hcode E1 E2 E3.
  rewrite gen_ensure_ref.
  - eapply model_ensure_ref; eauto.
  - eapply inv_dom; eauto.
  - pose proof (i_bs _ _ I). rewrite two32_val in *. lia.
  - assumption.
  - unfold nb, zlen in *. lia.
  - rewrite zlenZ_map. apply (i_len _ _ I).
  - assumption.
  - assumption.
  - assumption.
Qed.
