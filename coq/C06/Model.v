(* C06 — growable memory pool: executable model transcribing
   muggle/c/memory/memory_pool.c (definitions only, no proofs).

   State = the struct's fields.  The pointer ring memory_pool_ptr_buf[] is a
   list of block ids; a block id is (slab index, byte offset inside the slab)
   where the byte offset is the product the C code computes (i * block_size).
   memory_pool_data_bufs[] is the list [slabs]: one entry per slab holding
   (bytes requested from malloc, number of blocks); num_buf = length slabs.
   All scalar fields are Z; uint32 arithmetic is written [mod 2^32] exactly
   where the C code computes in 32 bits and the value can wrap.

   [fx : bool] selects the code variant:
     fx = false : the code as found in the repository (before the repairs);
     fx = true  : the code with the three repairs of /verif/fixes/C06-*.patch
       (a) size products block_size * count and i * block_size computed in
           size_t (64 bit) instead of uint32_t            [C06-size-overflow]
       (b) ensure_space: second case tests alloc_index >= free_index, so that a
           completely free pool (alloc_index == free_index, used == 0) is
           re-linearised as "whole ring is free pointers"   [C06-grow-empty]
       (c) alloc: refuses to grow when capacity + delta_cap wraps in uint32
                                                            [C06-alloc-cap-wrap]
   The theorems are about fx = true; fx = false is kept so that the
   refutations of the unrepaired code are theorems too.

   malloc is an oracle [mo : nat -> Z -> bool]: k-th malloc call inside the
   operation (0-based), requested size in bytes -> success.
   sizeof(void* ) = 8 (LP64). *)
From Coq Require Export List ZArith Lia Bool.
Export ListNotations.
Local Open Scope Z_scope.

Definition blk := (Z * Z)%type.

Record pool := {
  ring : list blk;           (* memory_pool_ptr_buf, length = capacity *)
  alloc_index : Z;
  free_index : Z;
  capacity : Z;
  used : Z;
  block_size : Z;
  slabs : list (Z * Z);      (* memory_pool_data_bufs: (bytes requested, blocks) *)
  flag : Z;
  max_delta_cap : Z }.

Definition two32 : Z := 2 ^ 32.
Definition two64 : Z := 2 ^ 64.
Definition ptr_size : Z := 8.

(* block_size * count and i * block_size: uint32_t product in the code as
   found, size_t product after repair (a) *)
Definition mulsz (fx : bool) (a b : Z) : Z :=
  if fx then (a * b) mod two64 else (a * b) mod two32.

Definition dflt : blk := (0, 0).
Definition znth (i : Z) (l : list blk) : blk := nth (Z.to_nat i) l dflt.
Fixpoint upd_nth (i : nat) (x : blk) (l : list blk) : list blk :=
  match l, i with
  | [], _ => []
  | _ :: r, O => x :: r
  | a :: r, S j => a :: upd_nth j x r
  end.
Definition zupd (i : Z) (x : blk) (l : list blk) : list blk := upd_nth (Z.to_nat i) x l.
(* memcpy(dst, &buf[start], sizeof(void* ) * n) *)
Definition zslice (start n : Z) (l : list blk) : list blk :=
  firstn (Z.to_nat n) (skipn (Z.to_nat start) l).
(* [0; 1; ...; n-1] *)
Fixpoint zseq_from (start : Z) (k : nat) : list Z :=
  match k with O => [] | S k' => start :: zseq_from (start + 1) k' end.
Definition zseq (n : Z) : list Z := zseq_from 0 (Z.to_nat n).
Definition zlen {A} (l : list A) : Z := Z.of_nat (length l).

(* for (i = 0; i < n; ++i) ptr_buf[..+i] = (char* )slab_k + i * block_size *)
Definition new_blocks (fx : bool) (k bs n : Z) : list blk :=
  map (fun i => (k, mulsz fx i bs)) (zseq n).

Definition default_max_delta : Z := 512 * 1024.

(* muggle_memory_pool_init *)
Definition init (fx : bool) (mo : nat -> Z -> bool) (init_capacity bs : Z) : option pool :=
  let cap := if init_capacity =? 0 then 8 else init_capacity in
  if bs =? 0 then None
  else if negb (mo 0%nat ptr_size) then None
  else if negb (mo 1%nat (ptr_size * cap)) then None
  else if negb (mo 2%nat (mulsz fx bs cap)) then None
  else Some {|
    ring := new_blocks fx 0 bs cap;
    alloc_index := 0; free_index := 0;
    capacity := cap; used := 0;
    block_size := bs;
    slabs := [(mulsz fx bs cap, cap)];
    flag := 0;
    max_delta_cap := if 8 * 1024 <? bs then cap else default_max_delta |}.

(* muggle_memory_pool_destroy: frees every slab once, then the two arrays;
   returns the indices of the slabs freed *)
Definition destroy (s : pool) : list Z := zseq (zlen (slabs s)).

(* the four sections chosen by muggle_memory_pool_ensure_space, each as
   (start index, count); "free" sections are the slots that hold no pointer
   (their blocks are handed out), "alloc" sections hold the available blocks *)
Record sects := { fs1 : Z * Z; fs2 : Z * Z; as1 : Z * Z; as2 : Z * Z }.

Definition choose_sects (fx : bool) (s : pool) : sects :=
  let a := alloc_index s in let f := free_index s in let c := capacity s in
  if used s =? c then
    {| fs1 := (f, c - f); fs2 := (0, f); as1 := (0, 0); as2 := (0, 0) |}
  else if (if fx then f <=? a else f <? a) then
    {| fs1 := (f, a - f); fs2 := (0, 0); as1 := (a, c - a); as2 := (0, f) |}
  else
    {| fs1 := (f, c - f); fs2 := (0, a); as1 := (a, f - a); as2 := (0, 0) |}.

(* the copies into new_ptr_buf; returns the copied prefix and the new alloc_index *)
Definition relink (x : sects) (r : list blk) : list blk * Z :=
  let buf := zslice (fst (fs1 x)) (snd (fs1 x)) r in
  let offset := snd (fs1 x) in
  let '(buf, offset) :=
    if 0 <? snd (fs2 x) then (buf ++ zslice (fst (fs2 x)) (snd (fs2 x)) r, offset + snd (fs2 x))
    else (buf, offset) in
  let new_alloc := offset in
  let buf :=
    if 0 <? snd (as1 x) then
      let buf := buf ++ zslice (fst (as1 x)) (snd (as1 x)) r in
      if 0 <? snd (as2 x) then buf ++ zslice (fst (as2 x)) (snd (as2 x)) r else buf
    else buf in
  (buf, new_alloc).

(* muggle_memory_pool_ensure_space *)
Definition ensure_space (fx : bool) (mo : nat -> Z -> bool) (s : pool) (cap : Z) : pool * bool :=
  if cap <=? capacity s then (s, true)
  else if negb (Z.land (flag s) 1 =? 0) then (s, false)
  else
    let delta_size := cap - capacity s in
    let num_buf := zlen (slabs s) in
    if negb (mo 0%nat (ptr_size * (num_buf + 1))) then (s, false)
    else
      let slab_bytes := mulsz fx (block_size s) delta_size in
      if negb (mo 1%nat slab_bytes) then (s, false)
      else if negb (mo 2%nat (ptr_size * cap)) then (s, false)
      else
        let '(buf, new_alloc) := relink (choose_sects fx s) (ring s) in
        ({| ring := buf ++ new_blocks fx num_buf (block_size s) delta_size;
            alloc_index := new_alloc; free_index := 0;
            capacity := cap; used := used s;
            block_size := block_size s;
            slabs := slabs s ++ [(slab_bytes, delta_size)];
            flag := flag s; max_delta_cap := max_delta_cap s |}, true).

(* the tail of muggle_memory_pool_alloc: ++used; ret = ptr_buf[alloc_index]; advance *)
Definition take (s : pool) : pool * option blk :=
  let ret := znth (alloc_index s) (ring s) in
  let a := alloc_index s + 1 in
  let a := if a =? capacity s then 0 else a in
  ({| ring := ring s; alloc_index := a; free_index := free_index s;
      capacity := capacity s; used := used s + 1;
      block_size := block_size s; slabs := slabs s;
      flag := flag s; max_delta_cap := max_delta_cap s |}, Some ret).

(* muggle_memory_pool_alloc *)
Definition alloc (fx : bool) (mo : nat -> Z -> bool) (s : pool) : pool * option blk :=
  if used s =? capacity s then
    let delta_cap := capacity s in
    let delta_cap :=
      if (0 <? max_delta_cap s) && (max_delta_cap s <? delta_cap) then max_delta_cap s else delta_cap in
    let new_cap := (capacity s + delta_cap) mod two32 in
    if fx && (new_cap <=? capacity s) then (s, None)
    else
      let '(s1, ok) := ensure_space fx mo s new_cap in
      if ok then take s1 else (s1, None)
  else take s.

(* muggle_memory_pool_free *)
Definition free (s : pool) (b : blk) : pool :=
  let f := free_index s + 1 in
  let f := if f =? capacity s then 0 else f in
  {| ring := zupd (free_index s) b (ring s);
     alloc_index := alloc_index s; free_index := f;
     capacity := capacity s; used := used s - 1;
     block_size := block_size s; slabs := slabs s;
     flag := flag s; max_delta_cap := max_delta_cap s |}.

Definition set_flag (s : pool) (v : Z) : pool :=
  {| ring := ring s; alloc_index := alloc_index s; free_index := free_index s;
     capacity := capacity s; used := used s; block_size := block_size s; slabs := slabs s;
     flag := v; max_delta_cap := max_delta_cap s |}.
Definition get_flag (s : pool) : Z := flag s.
Definition set_max_delta_cap (s : pool) (v : Z) : pool :=
  {| ring := ring s; alloc_index := alloc_index s; free_index := free_index s;
     capacity := capacity s; used := used s; block_size := block_size s; slabs := slabs s;
     flag := flag s; max_delta_cap := v |}.

(* ---- histories: the pool together with the caller's set of live blocks ---- *)
Inductive op :=
| OAlloc (mo : nat -> Z -> bool)
| OFree (k : nat)                       (* frees the k-th live block; Appendix B: free is given a live block *)
| OEnsure (mo : nat -> Z -> bool) (n : Z)
| OSetFlag (v : Z)
| OSetMax (v : Z).

Fixpoint remove_nth {A} (k : nat) (l : list A) : list A :=
  match l, k with
  | [], _ => []
  | _ :: r, O => r
  | a :: r, S j => a :: remove_nth j r
  end.

Definition step (fx : bool) (st : pool * list blk) (o : op) : pool * list blk :=
  let '(s, live) := st in
  match o with
  | OAlloc mo =>
    match alloc fx mo s with
    | (s', Some b) => (s', live ++ [b])
    | (s', None) => (s', live)
    end
  | OFree k =>
    match nth_error live k with
    | Some b => (free s b, remove_nth k live)
    | None => (s, live)
    end
  | OEnsure mo n => (fst (ensure_space fx mo s n), live)
  | OSetFlag v => (set_flag s v, live)
  | OSetMax v => (set_max_delta_cap s v, live)
  end.

Definition run (fx : bool) (st : pool * list blk) (ops : list op) : pool * list blk :=
  fold_left (step fx) ops st.
