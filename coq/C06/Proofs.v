(* C06 — proofs, part 1: list/arith toolkit, the ring invariant (DESIGN.md A.2)
   with a ghost live set, and its preservation by every operation of the
   repaired code (fx = true). *)
From MV Require Import C06.Model.
From Coq Require Import Permutation.
Local Open Scope Z_scope.

(* ---------- arithmetic ---------- *)
Lemma mod_wrap : forall x c, 0 < c -> 0 <= x < 2 * c ->
  x mod c = if x <? c then x else x - c.
Proof.
  intros x c Hc Hx. destruct (Z.ltb_spec x c).
  - apply Z.mod_small; lia.
  - symmetry. apply Z.mod_unique with (q := 1); lia.
Qed.

Lemma mod_add_inj : forall a i j c, 0 < c -> 0 <= a < c -> 0 <= i < c -> 0 <= j < c ->
  (a + i) mod c = (a + j) mod c -> i = j.
Proof.
  intros a i j c Hc Ha Hi Hj. rewrite !mod_wrap by lia.
  destruct (Z.ltb_spec (a + i) c), (Z.ltb_spec (a + j) c); lia.
Qed.

Lemma wrap_inc : forall a c, 0 < c -> 0 <= a < c ->
  (if a + 1 =? c then 0 else a + 1) = (a + 1) mod c.
Proof.
  intros a c Hc Ha. rewrite mod_wrap by lia.
  destruct (Z.eqb_spec (a + 1) c), (Z.ltb_spec (a + 1) c); lia.
Qed.

Lemma two32_val : two32 = 4294967296. Proof. reflexivity. Qed.
Lemma two64_val : two64 = 18446744073709551616. Proof. reflexivity. Qed.

Lemma mulsz_small : forall a b, 0 <= a < two32 -> 0 <= b < two32 -> mulsz true a b = a * b.
Proof.
  intros a b Ha Hb. unfold mulsz. apply Z.mod_small. rewrite two32_val in *. rewrite two64_val.
  split; [apply Z.mul_nonneg_nonneg; lia|].
  assert (a * b <= 4294967295 * 4294967295) by (apply Z.mul_le_mono_nonneg; lia). lia.
Qed.

(* ---------- zseq ---------- *)
Lemma zseq_from_eq : forall k start, zseq_from start k = map (fun i => start + Z.of_nat i) (seq 0 k).
Proof.
  induction k; intros start; [reflexivity|]. cbn [zseq_from]. rewrite <- cons_seq. cbn [map].
  rewrite Z.add_0_r. f_equal. rewrite IHk, <- seq_shift, map_map. apply map_ext. intros. lia.
Qed.
Lemma zseq_eq : forall n, zseq n = map Z.of_nat (seq 0 (Z.to_nat n)).
Proof. intros. unfold zseq. rewrite zseq_from_eq. apply map_ext. intros. lia. Qed.
Lemma zseq_nil : forall n, n <= 0 -> zseq n = [].
Proof. intros n H. rewrite zseq_eq. replace (Z.to_nat n) with 0%nat by lia. reflexivity. Qed.

Lemma in_zseq : forall n j, In j (zseq n) <-> 0 <= j < n.
Proof.
  intros n j. rewrite zseq_eq. rewrite in_map_iff. split.
  - intros (k & <- & H). apply in_seq in H. lia.
  - intros H. exists (Z.to_nat j). split; [lia|]. apply in_seq. lia.
Qed.

Lemma zlen_zseq : forall n, 0 <= n -> zlen (zseq n) = n.
Proof. intros n H. unfold zlen. rewrite zseq_eq, map_length, seq_length. lia. Qed.

Lemma seq_add_map : forall n m, seq n m = map (Nat.add n) (seq 0 m).
Proof.
  induction n; intros m.
  - cbn. rewrite map_id. reflexivity.
  - rewrite <- seq_shift, IHn, map_map. reflexivity.
Qed.

Lemma zseq_app : forall n m, 0 <= n -> 0 <= m -> zseq (n + m) = zseq n ++ map (Z.add n) (zseq m).
Proof.
  intros n m Hn Hm. rewrite !zseq_eq. rewrite Z2Nat.inj_add by lia. rewrite seq_app, map_app. f_equal.
  rewrite map_map. cbn [Nat.add]. rewrite seq_add_map, map_map. apply map_ext. intros. lia.
Qed.

Lemma zseq_S : forall n, 0 < n -> zseq n = 0 :: map (Z.add 1) (zseq (n - 1)).
Proof.
  intros n H. replace n with (1 + (n - 1)) at 1 by lia. rewrite zseq_app by lia. reflexivity.
Qed.

Lemma zseq_snoc : forall n, 0 <= n -> zseq (n + 1) = zseq n ++ [n].
Proof.
  intros n H. rewrite zseq_app by lia. replace (zseq 1) with [0] by reflexivity.
  cbn [map]. rewrite Z.add_0_r. reflexivity.
Qed.

Lemma NoDup_zseq : forall n, NoDup (zseq n).
Proof.
  intros n. rewrite zseq_eq. apply FinFun.Injective_map_NoDup.
  - intros x y. apply Nat2Z.inj.
  - apply seq_NoDup.
Qed.

(* ---------- znth / zupd / zslice ---------- *)
Lemma zlen_app : forall A (l1 l2 : list A), zlen (l1 ++ l2) = zlen l1 + zlen l2.
Proof. intros. unfold zlen. rewrite app_length. lia. Qed.
Lemma zlen_nonneg : forall A (l : list A), 0 <= zlen l.
Proof. intros. unfold zlen. lia. Qed.
Lemma zlen_map : forall A B (f : A -> B) l, zlen (map f l) = zlen l.
Proof. intros. unfold zlen. rewrite map_length. reflexivity. Qed.

Lemma upd_nth_length : forall l i x, length (upd_nth i x l) = length l.
Proof. induction l; destruct i; cbn; intros; auto. Qed.
Lemma nth_upd_nth_same : forall l i x d, (i < length l)%nat -> nth i (upd_nth i x l) d = x.
Proof. induction l; destruct i; cbn; intros; try lia; auto. apply IHl. lia. Qed.
Lemma nth_upd_nth_other : forall l i j x d, i <> j -> nth i (upd_nth j x l) d = nth i l d.
Proof. induction l; destruct i, j; cbn; intros; try lia; auto. Qed.

Lemma zlen_zupd : forall i x l, zlen (zupd i x l) = zlen l.
Proof. intros. unfold zlen, zupd. rewrite upd_nth_length. reflexivity. Qed.
Lemma znth_zupd_same : forall i x l, 0 <= i < zlen l -> znth i (zupd i x l) = x.
Proof. intros. unfold znth, zupd, zlen in *. apply nth_upd_nth_same. lia. Qed.
Lemma znth_zupd_other : forall i j x l, 0 <= i -> 0 <= j -> i <> j -> znth i (zupd j x l) = znth i l.
Proof. intros. unfold znth, zupd. apply nth_upd_nth_other. lia. Qed.

Lemma znth_app_r : forall l1 l2 u j, zlen l1 = u -> 0 <= j -> znth (u + j) (l1 ++ l2) = znth j l2.
Proof.
  intros l1 l2 u j Hu Hj. unfold znth, zlen in *. rewrite app_nth2 by lia. f_equal. lia.
Qed.

Lemma map_nth_seq : forall (l : list blk) d, map (fun j => nth j l d) (seq 0 (length l)) = l.
Proof.
  induction l; intros d; [reflexivity|]. cbn [length]. rewrite <- cons_seq. cbn [map nth]. f_equal.
  rewrite <- seq_shift, map_map. apply IHl.
Qed.

Lemma map_znth_zseq : forall l, map (fun j => znth j l) (zseq (zlen l)) = l.
Proof.
  intros l. rewrite zseq_eq. unfold zlen, znth. rewrite Nat2Z.id, map_map.
  rewrite <- (map_nth_seq l dflt) at 2. apply map_ext. intros. rewrite Nat2Z.id. reflexivity.
Qed.

Lemma slice_map_nat : forall n st (l : list blk) d, (st + n <= length l)%nat ->
  firstn n (skipn st l) = map (fun j => nth (st + j) l d) (seq 0 n).
Proof.
  induction n; intros st l d H; [reflexivity|].
  assert (Hs : skipn st l = nth st l d :: skipn (S st) l).
  { clear IHn. revert st H. induction l; intros st H; cbn in H; [lia|].
    destruct st; [reflexivity|]. cbn. apply IHl. lia. }
  rewrite Hs. cbn [firstn]. rewrite (IHn (S st) l d) by lia.
  rewrite <- cons_seq. cbn [map]. rewrite Nat.add_0_r. f_equal.
  rewrite <- seq_shift, map_map. apply map_ext. intros. f_equal. lia.
Qed.

Lemma zslice_map : forall st n l, 0 <= st -> 0 <= n -> st + n <= zlen l ->
  zslice st n l = map (fun j => znth (st + j) l) (zseq n).
Proof.
  intros st n l Hs Hn H. rewrite zseq_eq. unfold zslice, znth, zlen in *.
  rewrite (slice_map_nat _ _ _ dflt) by lia. rewrite map_map. apply map_ext. intros. f_equal. lia.
Qed.

Lemma zslice_0 : forall st l, zslice st 0 l = [].
Proof. reflexivity. Qed.

Lemma zlen_zslice : forall st n l, 0 <= st -> 0 <= n -> st + n <= zlen l -> zlen (zslice st n l) = n.
Proof. intros. rewrite zslice_map by lia. rewrite zlen_map, zlen_zseq; lia. Qed.


(* ---------- the invariant (DESIGN.md Appendix A.2) ---------- *)
(* the F = capacity - used ring entries at (alloc_index + j) mod capacity, j < F *)
Definition free_part (s : pool) : list blk :=
  map (fun j => znth ((alloc_index s + j) mod capacity s) (ring s)) (zseq (capacity s - used s)).

(* all blocks of all slabs; slab k holds the blocks (k, i * block_size), i < count *)
Fixpoint all_from (bs k : Z) (sl : list (Z * Z)) : list blk :=
  match sl with
  | [] => []
  | x :: r => new_blocks true k bs (snd x) ++ all_from bs (k + 1) r
  end.
Definition all_blocks (s : pool) : list blk := all_from (block_size s) 0 (slabs s).

Definition slab_ok (bs : Z) (x : Z * Z) : Prop := 0 < snd x < two32 /\ fst x = bs * snd x.

Record Inv (s : pool) (live : list blk) : Prop := {
  i_bs : 0 < block_size s < two32;
  i_cap : 0 < capacity s < two32;
  i_len : zlen (ring s) = capacity s;
  i_a : 0 <= alloc_index s < capacity s;
  i_used : 0 <= used s <= capacity s;
  i_f : free_index s = (alloc_index s + (capacity s - used s)) mod capacity s;
  i_live : used s = zlen live;
  i_slabs : Forall (slab_ok (block_size s)) (slabs s);
  i_perm : Permutation (free_part s ++ live) (all_blocks s) }.

Lemma free_part_len : forall s, 0 <= used s <= capacity s -> zlen (free_part s) = capacity s - used s.
Proof. intros. unfold free_part. rewrite zlen_map, zlen_zseq; lia. Qed.

(* ---------- take (the tail of alloc) ---------- *)
Lemma take_spec : forall s live, Inv s live -> used s < capacity s ->
  exists b, take s = (fst (take s), Some b) /\
    free_part s = b :: free_part (fst (take s)) /\
    Inv (fst (take s)) (live ++ [b]).
Proof.
  intros s live I Hu. destruct I.
  set (b := znth (alloc_index s) (ring s)). exists b.
  assert (Hfp : free_part s = b :: free_part (fst (take s))).
  { unfold free_part at 1. rewrite zseq_S by lia. cbn [map].
    rewrite Z.add_0_r, Z.mod_small by lia. fold b. f_equal.
    unfold free_part, take. cbn [fst ring alloc_index capacity used].
    rewrite map_map. replace (capacity s - (used s + 1)) with (capacity s - used s - 1) by lia.
    apply map_ext. intros j. f_equal.
    rewrite wrap_inc by lia. rewrite Z.add_mod_idemp_l by lia. f_equal. lia. }
  split; [reflexivity|]. split; [exact Hfp|].
  constructor; unfold take; cbn [fst ring alloc_index free_index capacity used block_size slabs flag max_delta_cap]; auto.
  - rewrite wrap_inc by lia. apply Z.mod_pos_bound. lia.
  - lia.
  - rewrite wrap_inc by lia. rewrite Z.add_mod_idemp_l by lia. rewrite i_f0. f_equal. lia.
  - rewrite zlen_app. unfold zlen at 2. cbn. lia.
  - fold (take s). unfold all_blocks in *. 
    change (block_size s) with (block_size (fst (take s))) in i_perm0.
    eapply Permutation_trans; [|exact i_perm0]. rewrite Hfp.
    rewrite app_assoc. eapply Permutation_trans; [apply Permutation_app_comm|]. cbn. apply perm_skip.
    reflexivity.
Qed.

(* ---------- free ---------- *)
Lemma remove_nth_perm : forall (l : list blk) k b, nth_error l k = Some b ->
  Permutation l (b :: remove_nth k l) /\ zlen (remove_nth k l) = zlen l - 1.
Proof.
  induction l; intros k b H; destruct k; cbn in H; try discriminate.
  - inversion H; subst. split; [reflexivity|]. unfold zlen; cbn [length remove_nth]. lia.
  - destruct (IHl _ _ H) as [P L]. split.
    + cbn [remove_nth]. eapply Permutation_trans; [apply perm_skip, P|]. apply perm_swap.
    + unfold zlen in *. cbn [length remove_nth]. lia.
Qed.

Lemma free_spec : forall s live k b, Inv s live -> nth_error live k = Some b ->
  free_part (free s b) = free_part s ++ [b] /\ Inv (free s b) (remove_nth k live).
Proof.
  intros s live k b I Hk. destruct (remove_nth_perm _ _ _ Hk) as [HP HL]. destruct I.
  assert (Hlive : 0 < zlen live).
  { destruct live; [destruct k; discriminate|]. unfold zlen. cbn. lia. }
  set (F := capacity s - used s).
  assert (HF : 0 <= F < capacity s) by (unfold F; lia).
  assert (Hfi : 0 <= free_index s < capacity s) by (rewrite i_f0; apply Z.mod_pos_bound; lia).
  assert (Hfp : free_part (free s b) = free_part s ++ [b]).
  { unfold free_part, free. cbn [ring alloc_index capacity used].
    replace (capacity s - (used s - 1)) with (F + 1) by (unfold F; lia).
    rewrite zseq_snoc, map_app by lia. cbn [map]. f_equal.
    - apply map_ext_in. intros j Hj. apply in_zseq in Hj. fold F in Hj.
      apply znth_zupd_other; try (apply Z.mod_pos_bound; lia); try lia.
      rewrite i_f0. fold F. intro E. apply mod_add_inj in E; lia.
    - f_equal. rewrite i_f0. fold F. apply znth_zupd_same. rewrite i_len0. apply Z.mod_pos_bound. lia. }
  split; [exact Hfp|].
  constructor; unfold free; cbn [ring alloc_index free_index capacity used block_size slabs flag max_delta_cap]; auto.
  - rewrite zlen_zupd. assumption.
  - lia.
  - rewrite wrap_inc by lia. rewrite i_f0. rewrite Z.add_mod_idemp_l by lia. f_equal. lia.
  - lia.
  - fold (free s b). unfold all_blocks in *. change (block_size s) with (block_size (free s b)) in i_perm0.
    eapply Permutation_trans; [|exact i_perm0]. rewrite Hfp. rewrite <- app_assoc. apply Permutation_app_head.
    cbn. symmetry. exact HP.
Qed.

(* ---------- ensure_space: the re-linearisation ---------- *)
Definition sl (p : Z * Z) (r : list blk) : list blk := zslice (fst p) (snd p) r.

Lemma relink_nf : forall x r,
  0 <= snd (fs2 x) -> 0 <= snd (as1 x) -> 0 <= snd (as2 x) -> (snd (as1 x) = 0 -> snd (as2 x) = 0) ->
  relink x r = (sl (fs1 x) r ++ sl (fs2 x) r ++ sl (as1 x) r ++ sl (as2 x) r, snd (fs1 x) + snd (fs2 x)).
Proof.
  intros x r H2 H3 H4 H34. unfold relink, sl.
  destruct (Z.ltb_spec 0 (snd (fs2 x))) as [L2|L2].
  - destruct (Z.ltb_spec 0 (snd (as1 x))) as [L3|L3].
    + destruct (Z.ltb_spec 0 (snd (as2 x))) as [L4|L4].
      * rewrite <- !app_assoc. reflexivity.
      * replace (snd (as2 x)) with 0 by lia. rewrite zslice_0, app_nil_r, <- !app_assoc. reflexivity.
    + replace (snd (as1 x)) with 0 by lia. replace (snd (as2 x)) with 0 by lia.
      rewrite !zslice_0, !app_nil_r. reflexivity.
  - replace (snd (fs2 x)) with 0 by lia. rewrite zslice_0, Z.add_0_r. cbn [app].
    destruct (Z.ltb_spec 0 (snd (as1 x))) as [L3|L3].
    + destruct (Z.ltb_spec 0 (snd (as2 x))) as [L4|L4].
      * rewrite <- !app_assoc. reflexivity.
      * replace (snd (as2 x)) with 0 by lia. rewrite zslice_0, app_nil_r. reflexivity.
    + replace (snd (as1 x)) with 0 by lia. replace (snd (as2 x)) with 0 by lia.
      rewrite !zslice_0, !app_nil_r. reflexivity.
Qed.

Lemma relink_spec : forall s live, Inv s live ->
  exists junk, relink (choose_sects true s) (ring s) = (junk ++ free_part s, used s) /\ zlen junk = used s.
Proof.
  intros s live I. destruct I.
  set (a := alloc_index s) in *. set (f := free_index s) in *. set (c := capacity s) in *.
  set (r := ring s) in *. set (u := used s) in *.
  assert (Hf : f = if a + (c - u) <? c then a + (c - u) else a + (c - u) - c).
  { rewrite i_f0. apply mod_wrap; lia. }
  assert (Hfb : 0 <= f < c) by (rewrite i_f0; apply Z.mod_pos_bound; lia).
  unfold choose_sects. fold a f c u.
  destruct (Z.eqb_spec u c) as [Huc|Huc].
  - (* every block handed out *)
    assert (f = a) by (destruct (Z.ltb_spec (a + (c - u)) c); lia).
    rewrite relink_nf; cbn [fs1 fs2 as1 as2 fst snd]; try lia.
    exists (zslice f (c - f) r ++ zslice 0 f r). unfold sl; cbn [fst snd]. split.
    + unfold free_part. fold u c. rewrite (zseq_nil (c - u)) by lia. cbn [map].
      rewrite !zslice_0, !app_nil_r. f_equal. lia.
    + rewrite zlen_app, !zlen_zslice by (fold r c in i_len0; lia). lia.
  - destruct (Z.leb_spec f a) as [Hfa|Hfa].
    + (* f <= a : available part wraps (or is the whole ring) *)
      assert (HF : c - u = (c - a) + f) by (destruct (Z.ltb_spec (a + (c - u)) c); lia).
      rewrite relink_nf; cbn [fs1 fs2 as1 as2 fst snd]; try lia.
      exists (zslice f (a - f) r). unfold sl; cbn [fst snd]. split.
      * rewrite zslice_0. cbn [app]. f_equal; [|lia]. f_equal.
        unfold free_part. fold a c u r. rewrite HF, zseq_app, map_app by lia. f_equal.
        -- rewrite zslice_map by (fold r c in i_len0; lia). apply map_ext_in. intros j Hj.
           apply in_zseq in Hj. rewrite Z.mod_small by lia. reflexivity.
        -- rewrite zslice_map by (fold r c in i_len0; lia). rewrite map_map. apply map_ext_in. intros j Hj.
           apply in_zseq in Hj. rewrite mod_wrap by lia.
           destruct (Z.ltb_spec (a + (c - a + j)) c); [lia|]. f_equal. lia.
      * rewrite zlen_zslice by (fold r c in i_len0; lia). lia.
    + (* a < f : available part is contiguous *)
      assert (HF : c - u = f - a) by (destruct (Z.ltb_spec (a + (c - u)) c); lia).
      rewrite relink_nf; cbn [fs1 fs2 as1 as2 fst snd]; try lia.
      exists (zslice f (c - f) r ++ zslice 0 a r). unfold sl; cbn [fst snd]. split.
      * rewrite zslice_0, app_nil_r, <- app_assoc. f_equal; [|lia]. do 2 f_equal.
        unfold free_part. fold a c u r. rewrite HF.
        rewrite zslice_map by (fold r c in i_len0; lia). apply map_ext_in. intros j Hj.
        apply in_zseq in Hj. rewrite Z.mod_small by lia. reflexivity.
      * rewrite zlen_app, !zlen_zslice by (fold r c in i_len0; lia). lia.
Qed.

Lemma all_from_app : forall bs ss k x,
  all_from bs k (ss ++ [x]) = all_from bs k ss ++ new_blocks true (k + zlen ss) bs (snd x).
Proof.
  intros bs ss. induction ss; intros k x; cbn [all_from app].
  - rewrite app_nil_r. unfold zlen; cbn [length]. rewrite Z.add_0_r. reflexivity.
  - rewrite IHss, <- app_assoc. do 3 f_equal. unfold zlen; cbn [length]. lia.
Qed.

Lemma zlen_new_blocks : forall fx k bs n, 0 <= n -> zlen (new_blocks fx k bs n) = n.
Proof. intros. unfold new_blocks. rewrite zlen_map, zlen_zseq; lia. Qed.

Definition grown_ok (s s' : pool) (n : Z) : Prop :=
  capacity s < n /\ Z.land (flag s) 1 = 0 /\ capacity s' = n /\ used s' = used s /\
  block_size s' = block_size s /\ flag s' = flag s /\ max_delta_cap s' = max_delta_cap s /\
  slabs s' = slabs s ++ [(block_size s * (n - capacity s), n - capacity s)] /\
  free_part s' = free_part s ++ new_blocks true (zlen (slabs s)) (block_size s) (n - capacity s).

Lemma ensure_space_spec : forall mo s live n, Inv s live -> 0 <= n < two32 ->
  (ensure_space true mo s n = (s, true) /\ n <= capacity s) \/
  (ensure_space true mo s n = (s, false) /\ capacity s < n) \/
  (exists s', ensure_space true mo s n = (s', true) /\ grown_ok s s' n /\ Inv s' live).
Proof.
  intros mo s live n I Hn. unfold ensure_space.
  destruct (Z.leb_spec n (capacity s)) as [Hle|Hlt]; [left; auto|right].
  destruct (Z.eqb_spec (Z.land (flag s) 1) 0) as [Hfl|Hfl]; cbn [negb]; [|left; auto].
  destruct (mo 0%nat _); cbn [negb]; [|left; auto].
  destruct (mo 1%nat _); cbn [negb]; [|left; auto].
  destruct (mo 2%nat _); cbn [negb]; [|left; auto].
  right. destruct (relink_spec _ _ I) as (junk & E & L). rewrite E.
  eexists. split; [reflexivity|].
  pose proof I as I0. destruct I.
  set (d := n - capacity s). assert (Hd : 0 < d < two32) by (unfold d; lia).
  rewrite (mulsz_small (block_size s) d) by lia.
  set (nb := new_blocks true (zlen (slabs s)) (block_size s) d).
  assert (Hnb : zlen nb = d) by (apply zlen_new_blocks; lia).
  assert (Hfl0 : zlen (free_part s) = capacity s - used s) by (apply free_part_len; lia).
  match goal with |- grown_ok s ?S n /\ _ => set (s' := S) end.
  assert (Hfp : free_part s' = free_part s ++ nb).
  { unfold free_part at 1. unfold s'. cbn [ring alloc_index capacity used].
    rewrite <- app_assoc. set (rest := free_part s ++ nb).
    replace (n - used s) with (zlen rest) by (unfold rest; rewrite zlen_app; lia).
    rewrite <- (map_znth_zseq rest) at 2. apply map_ext_in. intros j Hj. apply in_zseq in Hj.
    assert (zlen rest = n - used s) by (unfold rest; rewrite zlen_app; lia).
    rewrite Z.mod_small by lia. apply znth_app_r; lia. }
  split.
  - unfold grown_ok. unfold s' at 1 2 3 4 5 6. cbn [capacity used block_size flag max_delta_cap slabs].
    repeat split; auto.
  - constructor; try (unfold s'; cbn [ring alloc_index free_index capacity used block_size slabs flag max_delta_cap]; auto; fail).
    + unfold s'; cbn [capacity]. lia.
    + unfold s'; cbn [ring capacity]. rewrite !zlen_app. fold nb. lia.
    + unfold s'; cbn [alloc_index capacity]. lia.
    + unfold s'; cbn [used capacity]. lia.
    + unfold s'; cbn [alloc_index free_index used capacity].
      replace (used s + (n - used s)) with n by lia. rewrite Z_mod_same_full. reflexivity.
    + unfold s'; cbn [slabs block_size]. apply Forall_app. split; [assumption|].
      constructor; [|constructor]. unfold slab_ok; cbn [fst snd]. split; [lia|reflexivity].
    + rewrite Hfp. unfold all_blocks, s'; cbn [slabs block_size].
      rewrite all_from_app. cbn [snd]. rewrite Z.add_0_l. fold nb.
      eapply Permutation_trans with ((free_part s ++ live) ++ nb).
      * rewrite <- !app_assoc. apply Permutation_app_head. apply Permutation_app_comm.
      * apply Permutation_app_tail. exact i_perm0.
Qed.

(* ---------- alloc ---------- *)
Definition delta_of (s : pool) : Z :=
  if (0 <? max_delta_cap s) && (max_delta_cap s <? capacity s) then max_delta_cap s else capacity s.

Lemma delta_of_bounds : forall s, 0 < capacity s ->
  0 < delta_of s <= capacity s /\ (0 < max_delta_cap s -> delta_of s <= max_delta_cap s).
Proof.
  intros s Hc. unfold delta_of.
  destruct (Z.ltb_spec 0 (max_delta_cap s)), (Z.ltb_spec (max_delta_cap s) (capacity s)); cbn [andb]; lia.
Qed.

Lemma alloc_spec : forall mo s live, Inv s live ->
  (alloc true mo s = (s, None) /\ used s = capacity s) \/
  (exists s1 b,
     Inv s1 live /\
     ((s1 = s /\ used s < capacity s) \/
      (used s = capacity s /\ capacity s + delta_of s < two32 /\ grown_ok s s1 (capacity s + delta_of s))) /\
     alloc true mo s = (fst (take s1), Some b) /\
     free_part s1 = b :: free_part (fst (take s1)) /\
     Inv (fst (take s1)) (live ++ [b])).
Proof.
  intros mo s live I. pose proof I as I0. destruct I. unfold alloc.
  destruct (Z.eqb_spec (used s) (capacity s)) as [Hfull|Hnf].
  - fold (delta_of s). destruct (delta_of_bounds s) as [Hd _]; [lia|].
    assert (Hm : (capacity s + delta_of s) mod two32 =
                 if capacity s + delta_of s <? two32 then capacity s + delta_of s
                 else capacity s + delta_of s - two32) by (apply mod_wrap; lia).
    cbn [andb]. destruct (Z.leb_spec ((capacity s + delta_of s) mod two32) (capacity s)) as [Hw|Hw];
      [left; auto|].
    destruct (Z.ltb_spec (capacity s + delta_of s) two32) as [Hlt|Hge]; [|lia].
    rewrite Hm in *.
    destruct (ensure_space_spec mo s live (capacity s + delta_of s) I0) as [[E Hle]|[[E Hlt']|(s' & E & G & I')]];
      try lia; rewrite E.
    + left; auto.
    + right. destruct G as (G1 & G2 & G3 & G4 & G').
      destruct (take_spec s' live I') as (b & T & Hfp & I''); [lia|].
      exists s', b. split; [exact I'|]. split.
      * right. split; [assumption|]. split; [lia|]. unfold grown_ok. tauto.
      * split; [rewrite T; reflexivity|]. split; assumption.
  - right. destruct (take_spec s live I0) as (b & T & Hfp & I''); [lia|].
    exists s, b. split; [exact I0|]. split; [left; split; [reflexivity|lia]|].
    split; [rewrite T; reflexivity|]. split; assumption.
Qed.

(* ---------- init, setters, histories ---------- *)
Definition uint32 (z : Z) : Prop := 0 <= z < two32.
Definition eff_cap (c : Z) : Z := if c =? 0 then 8 else c.

Lemma init_spec : forall mo c bs s, uint32 c -> uint32 bs -> init true mo c bs = Some s ->
  Inv s [] /\ capacity s = eff_cap c /\ used s = 0 /\ flag s = 0 /\ block_size s = bs /\ 0 < bs /\
  slabs s = [(bs * eff_cap c, eff_cap c)] /\ free_part s = new_blocks true 0 bs (eff_cap c) /\
  max_delta_cap s = (if 8 * 1024 <? bs then eff_cap c else default_max_delta).
Proof.
  intros mo c bs s Hc Hb. unfold init. fold (eff_cap c).
  assert (He : 0 < eff_cap c < two32).
  { unfold eff_cap, uint32 in *. rewrite two32_val in *. destruct (Z.eqb_spec c 0); lia. }
  destruct (Z.eqb_spec bs 0) as [|Hb0]; [discriminate|].
  destruct (mo 0%nat _); cbn [negb]; [|discriminate].
  destruct (mo 1%nat _); cbn [negb]; [|discriminate].
  destruct (mo 2%nat _); cbn [negb]; [|discriminate].
  intros E. injection E as <-. unfold uint32 in *.
  pose proof (mulsz_small bs (eff_cap c)) as M. unfold mulsz in M. rewrite M by lia. clear M.
  match goal with |- Inv ?S _ /\ _ => set (s := S) end.
  assert (Hl : zlen (ring s) = eff_cap c) by (unfold s; cbn [ring]; apply zlen_new_blocks; lia).
  assert (Hfp : free_part s = new_blocks true 0 bs (eff_cap c)).
  { unfold free_part.
    replace (alloc_index s) with 0 by reflexivity. replace (capacity s) with (eff_cap c) by reflexivity.
    replace (used s) with 0 by reflexivity.
    rewrite Z.sub_0_r. transitivity (ring s); [|reflexivity].
    etransitivity; [|apply map_znth_zseq]. rewrite Hl.
    apply map_ext_in. intros j Hj. apply in_zseq in Hj. rewrite Z.add_0_l, Z.mod_small by lia. reflexivity. }
  split; [|unfold s; cbn [capacity used flag block_size slabs max_delta_cap]; repeat split; auto; lia].
  constructor; try (unfold s; cbn [ring alloc_index free_index capacity used block_size slabs]; auto; lia).
  - unfold s; cbn [alloc_index free_index capacity used]. rewrite Z.sub_0_r, Z.add_0_l, Z_mod_same_full. reflexivity.
  - unfold s; cbn [slabs block_size]. constructor; [|constructor]. unfold slab_ok; cbn [fst snd]. split; [lia|reflexivity].
  - rewrite Hfp, app_nil_r. unfold all_blocks, s; cbn [slabs block_size all_from snd]. rewrite app_nil_r. reflexivity.
Qed.

Lemma set_flag_inv : forall s live v, Inv s live -> Inv (set_flag s v) live.
Proof. intros s live v I. destruct I. constructor; auto. Qed.
Lemma set_max_inv : forall s live v, Inv s live -> Inv (set_max_delta_cap s v) live.
Proof. intros s live v I. destruct I. constructor; auto. Qed.

Definition op_ok (o : op) : Prop :=
  match o with OEnsure _ n => uint32 n | _ => True end.

Lemma step_inv : forall s live o, Inv s live -> op_ok o ->
  Inv (fst (step true (s, live) o)) (snd (step true (s, live) o)).
Proof.
  intros s live o I Ho. destruct o as [mo|k|mo n|v|v]; cbn [step].
  - destruct (alloc_spec mo s live I) as [[E _]|(s1 & b & _ & _ & E & _ & I')]; rewrite E; cbn [fst snd]; auto.
  - destruct (nth_error live k) as [b|] eqn:Hk; cbn [fst snd]; auto.
    apply (free_spec s live k b I Hk).
  - cbn [fst snd]. cbn in Ho.
    destruct (ensure_space_spec mo s live n I Ho) as [[E _]|[[E _]|(s' & E & _ & I')]]; rewrite E; auto.
  - cbn [fst snd]. apply set_flag_inv; auto.
  - cbn [fst snd]. apply set_max_inv; auto.
Qed.

Lemma run_inv : forall ops s live, Inv s live -> Forall op_ok ops ->
  Inv (fst (run true (s, live) ops)) (snd (run true (s, live) ops)).
Proof.
  induction ops as [|o ops IH]; intros s live I H; [exact I|].
  inversion H; subst. unfold run in *. cbn [fold_left].
  destruct (step true (s, live) o) as [s1 l1] eqn:E.
  apply IH; auto. pose proof (step_inv s live o I H2) as I1. rewrite E in I1. exact I1.
Qed.

Lemma inv_reachable : forall mo c bs s0 ops, uint32 c -> uint32 bs ->
  init true mo c bs = Some s0 -> Forall op_ok ops ->
  Inv (fst (run true (s0, []) ops)) (snd (run true (s0, []) ops)).
Proof.
  intros mo c bs s0 ops Hc Hb E H. apply run_inv; auto. apply (init_spec mo c bs s0 Hc Hb E).
Qed.
