From MV Require Import C06.Model.
Local Open Scope Z_scope.

Lemma ensure_space_fail_unchanged : forall fx mo s n s',
  ensure_space fx mo s n = (s', false) -> s' = s.
Proof.
  intros fx mo s n s'. unfold ensure_space.
  destruct (n <=? capacity s); [congruence|].
  destruct (negb (Z.land (flag s) 1 =? 0)); [congruence|].
  destruct (negb (mo 0%nat _)); [congruence|].
  destruct (negb (mo 1%nat _)); [congruence|].
  destruct (negb (mo 2%nat _)); [congruence|].
  destruct (relink _ _). congruence.
Qed.
