(* C06 — proofs, part 2: consequences of the invariant. *)
From MV Require Import C06.Model C06.Proofs.
From Coq Require Import Permutation.
Local Open Scope Z_scope.

(* ---------- list helpers ---------- *)
Lemma NoDup_map_in : forall A B (f : A -> B) l, NoDup l ->
  (forall x y, In x l -> In y l -> f x = f y -> x = y) -> NoDup (map f l).
Proof.
  induction l; intros N H; cbn; constructor; inversion N; subst.
  - intro Hin. apply in_map_iff in Hin. destruct Hin as (y & E & Hy).
    assert (y = a) by (apply H; cbn; auto). subst. contradiction.
  - apply IHl; auto. intros; apply H; cbn; auto.
Qed.

Lemma NoDup_app_intro : forall A (l1 l2 : list A), NoDup l1 -> NoDup l2 ->
  (forall x, In x l1 -> ~ In x l2) -> NoDup (l1 ++ l2).
Proof.
  induction l1; intros l2 N1 N2 H; cbn; auto. inversion N1; subst. constructor.
  - intro Hin. apply in_app_or in Hin. destruct Hin; [contradiction|]. apply (H a); cbn; auto.
  - apply IHl1; auto. intros; apply H; cbn; auto.
Qed.

Lemma NoDup_app_r : forall A (l1 l2 : list A), NoDup (l1 ++ l2) -> NoDup l2.
Proof. induction l1; intros l2 H; cbn in H; auto. inversion H; auto. Qed.

(* ---------- the blocks of the slabs ---------- *)
Lemma in_new_blocks : forall k bs n b,
  In b (new_blocks true k bs n) <-> exists i, 0 <= i < n /\ b = (k, mulsz true i bs).
Proof.
  intros. unfold new_blocks. rewrite in_map_iff. split.
  - intros (i & E & Hi). apply in_zseq in Hi. eauto.
  - intros (i & Hi & E). exists i. split; auto. apply in_zseq; auto.
Qed.

Lemma in_all_from : forall bs ss k b, In b (all_from bs k ss) ->
  exists x i, nth_error ss (Z.to_nat (fst b - k)) = Some x /\ k <= fst b /\
              0 <= i < snd x /\ snd b = mulsz true i bs.
Proof.
  intros bs ss. induction ss as [|x ss IH]; intros k b H; cbn [all_from] in H; [contradiction|].
  apply in_app_or in H. destruct H as [H|H].
  - apply in_new_blocks in H. destruct H as (i & Hi & ->). cbn [fst snd].
    exists x, i. rewrite Z.sub_diag. cbn. repeat split; auto; lia.
  - destruct (IH _ _ H) as (y & i & E & Hk & Hi & Hs). exists y, i.
    replace (Z.to_nat (fst b - k)) with (S (Z.to_nat (fst b - (k + 1)))) by lia.
    cbn [nth_error]. repeat split; auto; lia.
Qed.

Lemma NoDup_new_blocks : forall k bs n, 0 < bs < two32 -> n <= two32 -> NoDup (new_blocks true k bs n).
Proof.
  intros k bs n Hb Hn. unfold new_blocks. apply NoDup_map_in; [apply NoDup_zseq|].
  intros x y Hx Hy E. apply in_zseq in Hx. apply in_zseq in Hy. assert (E' : mulsz true x bs = mulsz true y bs) by congruence.
  rewrite !mulsz_small in E' by lia. nia.
Qed.

Lemma NoDup_all_from : forall bs ss k, 0 < bs < two32 -> Forall (slab_ok bs) ss -> NoDup (all_from bs k ss).
Proof.
  intros bs ss. induction ss as [|x ss IH]; intros k Hb F; cbn [all_from]; [constructor|].
  inversion F as [|? ? [Hx _] F']; subst. apply NoDup_app_intro.
  - apply NoDup_new_blocks; lia.
  - apply IH; auto.
  - intros b H1 H2. apply in_new_blocks in H1. destruct H1 as (i & _ & ->).
    apply in_all_from in H2. destruct H2 as (_ & _ & _ & H2 & _). cbn in H2. lia.
Qed.

Lemma NoDup_all_blocks : forall s live, Inv s live -> NoDup (all_blocks s).
Proof. intros s live I. destruct I as [i_bs0 i_cap0 i_len0 i_a0 i_used0 i_f0 i_live0 i_slabs0 i_perm0]. apply NoDup_all_from; auto. Qed.

(* the statement of A.2 (3)/(4) in one piece *)
Lemma ring_partition : forall s live, Inv s live ->
  NoDup (free_part s ++ live) /\ NoDup (all_blocks s) /\
  (forall b, In b (all_blocks s) <-> In b (free_part s) \/ In b live) /\
  zlen (free_part s) + used s = capacity s /\ zlen (all_blocks s) = capacity s /\ used s = zlen live.
Proof.
  intros s live I. pose proof (NoDup_all_blocks _ _ I) as N. destruct I as [i_bs0 i_cap0 i_len0 i_a0 i_used0 i_f0 i_live0 i_slabs0 i_perm0].
  assert (L : zlen (free_part s) = capacity s - used s) by (apply free_part_len; lia).
  split; [eapply Permutation_NoDup; [symmetry; exact i_perm0|exact N]|].
  split; [exact N|]. split.
  - intros b. rewrite <- in_app_iff. split; apply Permutation_in; [symmetry|]; auto.
  - split; [lia|]. split; [|assumption].
    apply Permutation_length in i_perm0. rewrite app_length in i_perm0. unfold zlen in *. lia.
Qed.

(* ---------- no block is handed out while it is live ---------- *)
Lemma alloc_fresh : forall mo s live s' b, Inv s live -> alloc true mo s = (s', Some b) ->
  ~ In b live /\ In b (all_blocks s') /\ Inv s' (live ++ [b]) /\ (exists extra, slabs s' = slabs s ++ extra).
Proof.
  intros mo s live s' b I E.
  destruct (alloc_spec mo s live I) as [[E' _]|(s1 & b0 & I1 & C & E' & Hfp & I')]; rewrite E' in E; [discriminate|].
  inversion E; subst s' b0; clear E.
  destruct (ring_partition _ _ I1) as (N & _). rewrite Hfp in N. cbn in N. inversion N as [|? ? Hn _]; subst.
  split; [intro Hin; apply Hn; apply in_or_app; auto|]. split.
  - destruct (ring_partition _ _ I') as (_ & _ & P & _). apply P. right. apply in_or_app. right. cbn; auto.
  - split; [exact I'|]. unfold take; cbn [fst slabs].
    destruct C as [[-> _]|(_ & _ & G)].
    + exists []. rewrite app_nil_r. reflexivity.
    + destruct G as (_ & _ & _ & _ & _ & _ & _ & Gs & _). rewrite Gs. eauto.
Qed.

(* ---------- live blocks: inside their slab, pairwise disjoint ---------- *)
Definition inside (s : pool) (b : blk) : Prop :=
  exists sz c, nth_error (slabs s) (Z.to_nat (fst b)) = Some (sz, c) /\ 0 <= fst b /\
               0 <= snd b /\ snd b + block_size s <= sz.
Definition disjoint (bs : Z) (b1 b2 : blk) : Prop :=
  fst b1 <> fst b2 \/ snd b1 + bs <= snd b2 \/ snd b2 + bs <= snd b1.

Lemma block_shape : forall s live b, Inv s live -> In b (all_blocks s) ->
  exists sz c i, nth_error (slabs s) (Z.to_nat (fst b)) = Some (sz, c) /\ 0 <= fst b /\
                 0 <= i < c /\ c < two32 /\ sz = block_size s * c /\ snd b = i * block_size s.
Proof.
  intros s live b I H. destruct I as [i_bs0 i_cap0 i_len0 i_a0 i_used0 i_f0 i_live0 i_slabs0 i_perm0]. unfold all_blocks in H.
  apply in_all_from in H. destruct H as ([sz c] & i & E & Hk & Hi & Hs). rewrite Z.sub_0_r in E.
  pose proof E as E0. apply nth_error_In in E0.
  rewrite Forall_forall in i_slabs0. destruct (i_slabs0 _ E0) as [Hc Hsz]. cbn [fst snd] in *.
  exists sz, c, i. rewrite mulsz_small in Hs by lia. repeat split; auto; lia.
Qed.

Lemma all_inside : forall s live b, Inv s live -> In b (all_blocks s) -> inside s b.
Proof.
  intros s live b I H. destruct (block_shape _ _ _ I H) as (sz & c & i & E & Hk & Hi & Hc & Hsz & Hs).
  destruct I as [i_bs0 i_cap0 i_len0 i_a0 i_used0 i_f0 i_live0 i_slabs0 i_perm0]. exists sz, c. repeat split; auto; nia.
Qed.

Lemma all_disjoint : forall s live b1 b2, Inv s live -> In b1 (all_blocks s) -> In b2 (all_blocks s) ->
  b1 <> b2 -> disjoint (block_size s) b1 b2.
Proof.
  intros s live b1 b2 I H1 H2 Hne.
  destruct (block_shape _ _ _ I H1) as (sz1 & c1 & i1 & E1 & _ & Hi1 & _ & _ & Hs1).
  destruct (block_shape _ _ _ I H2) as (sz2 & c2 & i2 & E2 & _ & Hi2 & _ & _ & Hs2).
  destruct I as [i_bs0 i_cap0 i_len0 i_a0 i_used0 i_f0 i_live0 i_slabs0 i_perm0]. unfold disjoint.
  destruct (Z.eq_dec (fst b1) (fst b2)) as [Ef|]; [right|left; auto].
  assert (i1 <> i2).
  { intro; subst i2. apply Hne. destruct b1, b2; cbn [fst snd] in *. congruence. }
  rewrite Hs1, Hs2. nia.
Qed.

Lemma live_disjoint_inside : forall s live, Inv s live ->
  (forall b, In b live -> inside s b) /\
  (forall i j b1 b2, i <> j -> nth_error live i = Some b1 -> nth_error live j = Some b2 ->
     disjoint (block_size s) b1 b2).
Proof.
  intros s live I. destruct (ring_partition _ _ I) as (N & _ & P & _). split.
  - intros b H. apply (all_inside s live); auto. apply P; auto.
  - intros i j b1 b2 Hij H1 H2. apply (all_disjoint s live); auto.
    + apply P. right. eapply nth_error_In; eauto.
    + apply P. right. eapply nth_error_In; eauto.
    + apply NoDup_app_r in N. intro; subst b2. apply Hij.
      apply (proj1 (NoDup_nth_error live) N); auto.
      * apply nth_error_Some. congruence.
      * congruence.
Qed.
