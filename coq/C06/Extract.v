From MV Require Import Lib.ExtractBase C06.Model.
From Coq Require Import ExtrOcamlBasic.
Extraction Language OCaml.
Extraction "c06_model" force_types init destroy ensure_space alloc free set_flag get_flag set_max_delta_cap step run.
