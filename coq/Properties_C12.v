(* C12 — property theorems only (preliminary). *)
From MV Require Import C12.Modes C12.Proofs_Modes.
Local Open Scope N_scope.

Theorem ecb_dec_enc : forall bs (E D : list N -> list N),
  (forall b, wfb bs b -> wfb bs (E b)) -> (forall b, wfb bs b -> D (E b) = b) ->
  forall n m, length m = (n * bs)%nat -> bytes m -> ecb_loop bs D n (ecb_loop bs E n m) = m.
Proof. exact ecb_dec_enc_gen. Qed.
Print Assumptions ecb_dec_enc.
