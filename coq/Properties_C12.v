(* C12 — property theorems only.  Each is closed by [exact] of a lemma proved under
   C12/ and followed by Print Assumptions.

   Reading guide.  "Equals the standard": the block primitives of the model are the
   specification layer (C12/Spec_AES.v = FIPS-197, C12/Spec_DES.v = FIPS 46-3), a
   transcription validated against the standards' own vectors in C12/KAT_*.v; the
   library's mode loops are transcribed in C12/Modes.v and run SP 800-38A F.1-F.5 in
   C12/KAT_Modes.v.  Implementation = model is the differential run of bin/check.
   The theorems below are the parts of the property that quantify over all keys, IVs,
   messages, lengths and partitions.  Non-vacuity Examples: aes_hyps_nonvacuous,
   des_hyps_nonvacuous, reject_nonvacuous (C12/Proofs_API.v) and the KAT files. *)
From MV Require Import C12.Modes C12.Proofs_Modes C12.Proofs_DES C12.Proofs_AES C12.Proofs_AES_Key C12.Proofs_API.
From MV Require Import C12.Proofs_SP80038A C12.KAT_AES C12.KAT_DES C12.KAT_Modes.
From MV Require Import C12.Impl_DES C12.Impl_AES C12.Proofs_Impl_DES C12.Proofs_Impl_AES C12.Proofs_Impl_AES2 C12.Proofs_Impl_AES3 C12.Proofs_Keys C12.Impl_Ctx.
From Coq Require Import ZArith String.
From MV Require Import Lib.Leaf gen.Params_C12 C12.Proofs_SetKey.
Local Open Scope N_scope.

(* ===== 1. the mode loops, generic over ANY block primitive E with inverse D on bs-byte blocks ===== *)

Theorem ecb_dec_enc : forall bs (E D : list N -> list N),
  (forall b, wfb bs b -> wfb bs (E b)) -> (forall b, wfb bs b -> D (E b) = b) ->
  forall n m, length m = (n * bs)%nat -> bytes m -> ecb_loop bs D n (ecb_loop bs E n m) = m.
Proof. exact ecb_dec_enc_gen. Qed.
Print Assumptions ecb_dec_enc.

(* decryption returns the message AND leaves the same iv behind as encryption did *)
Theorem cbc_dec_enc : forall bs (E D : list N -> list N),
  (forall b, wfb bs b -> wfb bs (E b)) -> (forall b, wfb bs b -> D (E b) = b) ->
  forall n iv m, wfb bs iv -> length m = (n * bs)%nat -> bytes m ->
  cbc_dec_loop bs D n iv (snd (cbc_enc_loop bs E n iv m)) = (fst (cbc_enc_loop bs E n iv m), m).
Proof. exact cbc_dec_enc_gen. Qed.
Print Assumptions cbc_dec_enc.

(* stream modes: any E (not even a permutation is needed), any iv, any starting offset, any length *)
Theorem cfb_dec_enc : forall bs (E : list N -> list N) m iv off,
  let '(iv', off', c) := cfb_loop bs E true iv off m in cfb_loop bs E false iv off c = (iv', off', m).
Proof. exact cfb_dec_enc_gen. Qed.
Print Assumptions cfb_dec_enc.

Theorem ofb_dec_enc : forall bs (E : list N -> list N) m iv off,
  let '(iv', off', c) := ofb_loop bs E iv off m in ofb_loop bs E iv off c = (iv', off', m).
Proof. exact ofb_dec_enc_gen. Qed.
Print Assumptions ofb_dec_enc.

Theorem ctr_dec_enc : forall bs (E : list N -> list N) incr m w off sb,
  let '(w', off', sb', c) := ctr_loop bs E incr w off sb m in ctr_loop bs E incr w off sb c = (w', off', sb', m).
Proof. exact ctr_dec_enc_gen. Qed.
Print Assumptions ctr_dec_enc.

(* chunking: m1 ++ m2 in two calls carrying (iv, offset[, stream block, nonce]) = one call *)
Theorem cfb_chunking : forall bs (E : list N -> list N) enc m1 m2 iv off,
  cfb_loop bs E enc iv off (m1 ++ m2) =
  let '(iv1, off1, o1) := cfb_loop bs E enc iv off m1 in
  let '(iv2, off2, o2) := cfb_loop bs E enc iv1 off1 m2 in (iv2, off2, o1 ++ o2).
Proof. exact cfb_chunking_gen. Qed.
Print Assumptions cfb_chunking.

Theorem ofb_chunking : forall bs (E : list N -> list N) m1 m2 iv off,
  ofb_loop bs E iv off (m1 ++ m2) =
  let '(iv1, off1, o1) := ofb_loop bs E iv off m1 in
  let '(iv2, off2, o2) := ofb_loop bs E iv1 off1 m2 in (iv2, off2, o1 ++ o2).
Proof. exact ofb_chunking_gen. Qed.
Print Assumptions ofb_chunking.

Theorem ctr_chunking : forall bs (E : list N -> list N) incr m1 m2 w off sb,
  ctr_loop bs E incr w off sb (m1 ++ m2) =
  let '(w1, off1, sb1, o1) := ctr_loop bs E incr w off sb m1 in
  let '(w2, off2, sb2, o2) := ctr_loop bs E incr w1 off1 sb1 m2 in (w2, off2, sb2, o1 ++ o2).
Proof. exact ctr_chunking_gen. Qed.
Print Assumptions ctr_chunking.

(* hence any partition (induction on the list of chunks) *)
Theorem cfb_any_partition : forall bs (E : list N -> list N) enc chunks iv off,
  cfb_calls bs E enc iv off chunks = cfb_loop bs E enc iv off (concat chunks).
Proof. exact cfb_any_partition_gen. Qed.
Print Assumptions cfb_any_partition.

Theorem ofb_any_partition : forall bs (E : list N -> list N) chunks iv off,
  ofb_calls bs E iv off chunks = ofb_loop bs E iv off (concat chunks).
Proof. exact ofb_any_partition_gen. Qed.
Print Assumptions ofb_any_partition.

Theorem ctr_any_partition : forall bs (E : list N -> list N) incr chunks w off sb,
  ctr_calls bs E incr w off sb chunks = ctr_loop bs E incr w off sb (concat chunks).
Proof. exact ctr_any_partition_gen. Qed.
Print Assumptions ctr_any_partition.

(* CBC chains through iv as well: whole blocks in two calls = one call, both directions *)
Theorem cbc_enc_chunking : forall bs (E : list N -> list N) n1 n2 m1 m2 iv, length m1 = (n1 * bs)%nat ->
  cbc_enc_loop bs E (n1 + n2) iv (m1 ++ m2) =
  let '(iv1, o1) := cbc_enc_loop bs E n1 iv m1 in
  let '(iv2, o2) := cbc_enc_loop bs E n2 iv1 m2 in (iv2, o1 ++ o2).
Proof. exact cbc_enc_chunking_gen. Qed.
Print Assumptions cbc_enc_chunking.

Theorem cbc_dec_chunking : forall bs (D : list N -> list N) n1 n2 m1 m2 iv, length m1 = (n1 * bs)%nat ->
  cbc_dec_loop bs D (n1 + n2) iv (m1 ++ m2) =
  let '(iv1, o1) := cbc_dec_loop bs D n1 iv m1 in
  let '(iv2, o2) := cbc_dec_loop bs D n2 iv1 m2 in (iv2, o1 ++ o2).
Proof. exact cbc_dec_chunking_gen. Qed.
Print Assumptions cbc_dec_chunking.

(* the library's counter (nonce[0] += 1, carry into nonce[1] when it wrapped to 0) is the
   little-endian 128-bit counter n0 + 2^64 n1 incremented modulo 2^128; DES: modulo 2^64 *)
Theorem ctr_counter_carry : forall n0 n1, n0 < two64 -> n1 < two64 ->
  let v := (n0 + two64 * n1 + 1) mod (two64 * two64) in
  incr_aes [n0; n1] = [v mod two64; v / two64].
Proof. exact ctr_counter_carry_aes. Qed.
Print Assumptions ctr_counter_carry.

Theorem ctr_counter_des64 : forall n, incr_des [n] = [(n + 1) mod two64].
Proof. exact ctr_counter_des. Qed.
Print Assumptions ctr_counter_des64.

(* the library's byte-at-a-time stream loops ARE the block-wise definitions of SP 800-38A (6.3 CFB with
   s = b, 6.4 OFB, 6.5 CTR over the library's counter), for every block primitive E with bs-byte output,
   every IV / counter and every message length (last segment truncated); ECB and CBC are block-wise in the
   code already (ecb_loop, cbc_enc_loop, cbc_dec_loop are 6.1 / 6.2 verbatim).
     ofb_keystream E n iv = E(iv) || E(E(iv)) || ...            (n blocks)
     ctr_keystream E incr n w = E(T_1) || E(T_2) || ...,  T_j = bytes of incr^j(w)
     sp_cfb bs E enc n prev m : C_j = P_j xor E(C_(j-1)), C_0 = prev (enc = false: P_j = C_j xor E(C_(j-1))) *)
Theorem ofb_equals_sp80038a : forall bs (E : list N -> list N), (bs = 16 \/ bs = 8)%nat ->
  (forall b, length (E b) = bs) -> forall m iv, length iv = bs ->
  snd (ofb_loop bs E iv 0 m) = xorl m (ofb_keystream E (length m) iv).
Proof. exact ofb_sp80038a_blocksize. Qed.
Print Assumptions ofb_equals_sp80038a.

Theorem ctr_equals_sp80038a : forall bs (E incr : list N -> list N), (bs = 16 \/ bs = 8)%nat ->
  (forall b, length (E b) = bs) -> forall m w sb, length sb = bs ->
  snd (ctr_loop bs E incr w 0 sb m) = xorl m (ctr_keystream E incr (length m) w).
Proof. exact ctr_sp80038a_blocksize. Qed.
Print Assumptions ctr_equals_sp80038a.

Theorem cfb_equals_sp80038a : forall bs (E : list N -> list N), (bs = 16 \/ bs = 8)%nat ->
  (forall b, length (E b) = bs) -> forall enc n m iv, length iv = bs -> (length m <= n * bs)%nat ->
  snd (cfb_loop bs E enc iv 0 m) = sp_cfb bs E enc n iv m.
Proof. exact cfb_sp80038a_blocksize. Qed.
Print Assumptions cfb_equals_sp80038a.

(* resumed at an offset inside a block (state carried from an earlier call): the rest of the current
   keystream block is consumed first, then the block-wise definition continues *)
Theorem ofb_resumed_equals_sp80038a : forall bs (E : list N -> list N), (bs = 16 \/ bs = 8)%nat ->
  (forall b, length (E b) = bs) -> forall m iv off n, length iv = bs -> (N.to_nat off < bs)%nat -> (length m <= n)%nat ->
  snd (ofb_loop bs E iv off m) = xorl m (tail_of iv off ++ ofb_keystream E n iv).
Proof. exact ofb_sp80038a_resumed. Qed.
Print Assumptions ofb_resumed_equals_sp80038a.

Theorem ctr_resumed_equals_sp80038a : forall bs (E incr : list N -> list N), (bs = 16 \/ bs = 8)%nat ->
  (forall b, length (E b) = bs) -> forall m w off sb n, length sb = bs -> (N.to_nat off < bs)%nat -> (length m <= n)%nat ->
  snd (ctr_loop bs E incr w off sb m) = xorl m (tail_of sb off ++ ctr_keystream E incr n w).
Proof. exact ctr_sp80038a_resumed. Qed.
Print Assumptions ctr_resumed_equals_sp80038a.

(* ===== 2. the block ciphers of the specification layer ===== *)

(* FIPS-197: InvCipher(Cipher(block)) = block for every key of 128/192/256 bits and every block *)
Theorem aes_dec_enc : forall bits key rk blk, aes_round_keys bits key = Some rk ->
  length key = key_bytes bits -> bytes key -> wfb 16 blk ->
  inv_cipher rk (cipher rk blk) = blk.
Proof. exact aes_dec_enc_blk. Qed.
Print Assumptions aes_dec_enc.

(* generic Feistel lemma: the same network with the sub-keys reversed, applied to the swapped
   output, undoes it - any round function of fixed output width, any number of rounds *)
Theorem feistel_inverts : forall (f : list bool -> list bool -> list bool) n,
  (forall r k, length (f r k) = n) ->
  forall ks lr, halves n lr -> swap (feistel f (rev ks) (swap (feistel f ks lr))) = lr.
Proof. exact feistel_inverse. Qed.
Print Assumptions feistel_inverts.

(* FIPS 46-3: deciphering (K16..K1) inverts enciphering (K1..K16), every key schedule, every block *)
Theorem des_dec_enc : forall ks blk, wfb 8 blk -> des_crypt (rev ks) (des_crypt ks blk) = blk.
Proof. exact des_crypt_inverse. Qed.
Print Assumptions des_dec_enc.

(* Triple-DES with the library's EDE key arrangement (muggle_tdes_set_key, both directions) *)
Theorem tdes_dec_enc : forall m k1 k2 k3 ce cd blk, (m = ECB \/ m = CBC) ->
  tdes_set_key true true true true OpEnc m k1 k2 k3 = (OK, Some ce) ->
  tdes_set_key true true true true OpDec m k1 k2 k3 = (OK, Some cd) ->
  wfb 8 blk -> tdes_blk cd (tdes_blk ce blk) = blk.
Proof. exact tdes_dec_enc_blk. Qed.
Print Assumptions tdes_dec_enc.

(* ===== 3. the library's API functions (parameter checks included) ===== *)

(* decrypt(encrypt(x)) = x through the API, every mode, every key/IV/message/offset; the decrypting
   call also ends in the same chaining state *)
Theorem aes_modes_dec_enc : forall fn bits key ce cd s m,
  aes_set_key true true OpEnc fn bits key = (OK, Some ce) ->
  aes_set_key true true OpDec fn bits key = (OK, Some cd) ->
  length key = key_bytes bits -> bytes key -> st_ok 16 s -> msg_ok 16 fn m ->
  exists c, r_err (aes_call fn all_ptrs ce s m) = OK /\ r_out (aes_call fn all_ptrs ce s m) = Some c /\
            aes_call fn all_ptrs cd s c =
            {| r_err := OK; r_out := Some m; r_st := r_st (aes_call fn all_ptrs ce s m) |}.
Proof. exact aes_modes_dec_enc_api. Qed.
Print Assumptions aes_modes_dec_enc.

Theorem des_modes_dec_enc : forall fn key ce cd s m,
  des_set_key true true OpEnc fn key = (OK, Some ce) ->
  des_set_key true true OpDec fn key = (OK, Some cd) ->
  st_ok 8 s -> msg_ok 8 fn m ->
  exists c, r_err (des_call fn all_ptrs ce s m) = OK /\ r_out (des_call fn all_ptrs ce s m) = Some c /\
            des_call fn all_ptrs cd s c =
            {| r_err := OK; r_out := Some m; r_st := r_st (des_call fn all_ptrs ce s m) |}.
Proof. exact des_modes_dec_enc_api. Qed.
Print Assumptions des_modes_dec_enc.

Theorem tdes_modes_dec_enc : forall fn k1 k2 k3 ce cd s m,
  tdes_set_key true true true true OpEnc fn k1 k2 k3 = (OK, Some ce) ->
  tdes_set_key true true true true OpDec fn k1 k2 k3 = (OK, Some cd) ->
  st_ok 8 s -> msg_ok 8 fn m ->
  exists c, r_err (tdes_call fn all_ptrs ce s m) = OK /\ r_out (tdes_call fn all_ptrs ce s m) = Some c /\
            tdes_call fn all_ptrs cd s c =
            {| r_err := OK; r_out := Some m; r_st := r_st (tdes_call fn all_ptrs ce s m) |}.
Proof. exact tdes_modes_dec_enc_api. Qed.
Print Assumptions tdes_modes_dec_enc.

(* CFB / OFB / CTR: any sequence of one or more calls carrying the state is accepted and gives the
   bytes and the final state of a single call over the concatenation *)
Theorem aes_stream_any_partition : forall fn c s c0 chunks,
  stream_mode fn = true -> a_mode c = fn -> op_valid (a_op c) = true -> st_ok 16 s ->
  run_calls (aes_call fn all_ptrs c) s (c0 :: chunks) = one_call (aes_call fn all_ptrs c) s (concat (c0 :: chunks))
  /\ accepted (one_call (aes_call fn all_ptrs c) s (concat (c0 :: chunks))).
Proof. exact aes_stream_any_partition_api. Qed.
Print Assumptions aes_stream_any_partition.

Theorem des_stream_any_partition : forall c fn s c0 chunks,
  stream_mode fn = true -> d_mode c = fn -> op_valid (d_op c) = true -> st_ok 8 s ->
  run_calls (des_call fn all_ptrs c) s (c0 :: chunks) = one_call (des_call fn all_ptrs c) s (concat (c0 :: chunks))
  /\ accepted (one_call (des_call fn all_ptrs c) s (concat (c0 :: chunks))).
Proof. exact des_stream_any_partition_api. Qed.
Print Assumptions des_stream_any_partition.

Theorem tdes_stream_any_partition : forall c fn s c0 chunks,
  stream_mode fn = true -> t_mode c = fn -> op_valid (t_op c) = true -> st_ok 8 s ->
  run_calls (tdes_call fn all_ptrs c) s (c0 :: chunks) = one_call (tdes_call fn all_ptrs c) s (concat (c0 :: chunks))
  /\ accepted (one_call (tdes_call fn all_ptrs c) s (concat (c0 :: chunks))).
Proof. exact tdes_stream_any_partition_api. Qed.
Print Assumptions tdes_stream_any_partition.

(* ECB / CBC: a length that is not a block multiple is refused and nothing is written *)
Theorem aes_ecb_cbc_reject_partial_len : forall fn p c s m, block_mode fn = true -> len_ok 16 m = false ->
  r_err (aes_call fn p c s m) <> OK /\ r_out (aes_call fn p c s m) = None /\ r_st (aes_call fn p c s m) = s.
Proof. exact aes_ecb_cbc_reject_partial. Qed.
Print Assumptions aes_ecb_cbc_reject_partial_len.

Theorem des_tdes_ecb_cbc_reject_partial_len : forall blk o cm fn p s m, block_mode fn = true -> len_ok 8 m = false ->
  r_err (d_call blk o cm fn p s m) <> OK /\ r_out (d_call blk o cm fn p s m) = None /\ r_st (d_call blk o cm fn p s m) = s.
Proof. exact d_ecb_cbc_reject_partial. Qed.
Print Assumptions des_tdes_ecb_cbc_reject_partial_len.

(* other invalid parameters: NULL pointer, mode function that does not match the context, offset >=
   block size -> rejected; rejected -> output untouched, chaining state unchanged; valid -> accepted *)
Theorem aes_invalid_params_rejected : forall fn p c s m,
  call_valid 16 fn (a_mode c) p s m = false -> r_err (aes_call fn p c s m) <> OK.
Proof. exact aes_invalid_rejected. Qed.
Print Assumptions aes_invalid_params_rejected.

Theorem des_tdes_invalid_params_rejected : forall blk o cm fn p s m,
  call_valid 8 fn cm p s m = false -> r_err (d_call blk o cm fn p s m) <> OK.
Proof. exact d_invalid_rejected. Qed.
Print Assumptions des_tdes_invalid_params_rejected.

Theorem aes_rejected_writes_nothing : forall fn p c s m,
  r_err (aes_call fn p c s m) <> OK -> r_out (aes_call fn p c s m) = None /\ r_st (aes_call fn p c s m) = s.
Proof. exact aes_reject_writes_nothing. Qed.
Print Assumptions aes_rejected_writes_nothing.

Theorem des_tdes_rejected_writes_nothing : forall blk o cm fn p s m,
  r_err (d_call blk o cm fn p s m) <> OK -> r_out (d_call blk o cm fn p s m) = None /\ r_st (d_call blk o cm fn p s m) = s.
Proof. exact d_reject_writes_nothing. Qed.
Print Assumptions des_tdes_rejected_writes_nothing.

Theorem aes_valid_params_accepted : forall fn p c s m,
  call_valid 16 fn (a_mode c) p s m = true -> op_valid (a_op c) = true -> r_err (aes_call fn p c s m) = OK.
Proof. exact aes_valid_accepted. Qed.
Print Assumptions aes_valid_params_accepted.

Theorem des_tdes_valid_params_accepted : forall blk o cm fn p s m,
  call_valid 8 fn cm p s m = true -> op_valid o = true -> r_err (d_call blk o cm fn p s m) = OK.
Proof. exact d_valid_accepted. Qed.
Print Assumptions des_tdes_valid_params_accepted.

(* set_key: bad op / mode / key size / NULL key or context are refused *)
Theorem set_key_rejects_invalid : forall pk pc p2 p3 o fn bits key k2 k3,
  (op_valid o = false \/ mode_valid fn = false \/ pk = false \/ pc = false -> fst (aes_set_key pk pc o fn bits key) <> OK) /\
  (aes_params bits = None -> fst (aes_set_key pk pc o fn bits key) <> OK) /\
  (op_valid o = false \/ mode_valid fn = false \/ pk = false \/ pc = false -> fst (des_set_key pk pc o fn key) <> OK) /\
  (op_valid o = false \/ mode_valid fn = false \/ pk = false \/ p2 = false \/ p3 = false \/ pc = false ->
   fst (tdes_set_key pk p2 p3 pc o fn key k2 k3) <> OK).
Proof. exact set_key_rejects. Qed.
Print Assumptions set_key_rejects_invalid.

(* ===== 4. validation of the transcription against the standards' own vectors (vm_compute) ===== *)

(* FIPS-197 Appendix A (key expansion 128/192/256), B (cipher example with round-1 intermediate
   values), C.1-C.3 (example vectors, both directions) *)
Theorem aes_spec_reproduces_fips197_vectors : fips197_vectors_hold.
Proof. exact fips197_vectors_ok. Qed.
Print Assumptions aes_spec_reproduces_fips197_vectors.

(* DES known answers (worked example with K1, FIPS 81, NBS/SP 800-17 variable plaintext / key /
   permutation / substitution samples), TDEA SP 800-67 B.1 *)
Theorem des_spec_reproduces_known_answers : des_vectors_hold.
Proof. exact des_vectors_ok. Qed.
Print Assumptions des_spec_reproduces_known_answers.

(* SP 800-38A F.1 (ECB), F.2 (CBC), F.3.13-18 (CFB128), F.4 (OFB), F.5 (CTR, one counter block per
   vector) for AES-128/192/256, both directions, run through the transcribed mode loops and API checks *)
Theorem modes_reproduce_sp80038a_vectors : sp80038a_vectors_hold.
Proof. exact sp80038a_vectors_ok. Qed.
Print Assumptions modes_reproduce_sp80038a_vectors.

(* ===== 5. the code that actually runs (MUGGLE_CRYPT_OPTIMIZATION = 1): crypt/openssl/openssl_des.c and the
   S-box circuits of crypt/openssl/openssl_aes.c, as coded, equal the specification layer on ALL inputs =====
   C12/Impl_DES.v writes openssl_des.c in a small word-level language (C12/Bitvec.v): C2L loads, the PERM_OP /
   HPERM_OP / ROTATE macros, IP and FP as PERM_OP sequences, D_ENCRYPT with the SP tables, DES_set_key_unchecked
   with the skb tables, encrypt1 / encrypt2, the sub-key swap for decryption, the EDE chain of
   muggle_openssl_tdes_crypt.  Tables, PERM_OP argument lists, lookup order, shift schedules and the bitsliced
   S-box circuits are re-extracted from the source into coq/gen/Params_C12.v on every run, so a changed table
   entry or mask breaks these obligations.  Proof: symbolic evaluation over GF(2)-affine forms of the input bits
   (proved sound) for every bit permutation / selection, a 512-entry sweep for the SP tables, linearity sweeps for
   the skb tables; for the AES circuits a dependency analysis (proved sound) showing that they work byte lane by
   byte lane, then a 256-value sweep per lane. *)

(* muggle_openssl_des_gen_subkeys + muggle_openssl_des_crypt = FIPS 46-3, every key, every block, both directions *)
Theorem des_impl_equals_spec : forall o key blk, wfb 8 key -> wfb 8 blk ->
  impl_des_crypt (impl_gen_subkeys (op_is_dec o) key) blk = des_crypt (des_gen_subkeys o key) blk.
Proof. exact des_impl_equals_spec_thm. Qed.
Print Assumptions des_impl_equals_spec.

(* DES_set_key_unchecked (PC-1 by PERM_OP/HPERM_OP, the rotations, PC-2 through the skb tables, the packing into
   two rotated words per round) = the 16 sub-keys K1..K16 of the standard in the implementation's word layout *)
Theorem des_key_schedule_impl_equals_spec : forall key, wfb 8 key ->
  impl_set_key key = map kwpair (des_subkeys key).
Proof. exact set_key_spec_bytes. Qed.
Print Assumptions des_key_schedule_impl_equals_spec.

(* one D_ENCRYPT (eight SP-table lookups) = one Feistel round  L xor f(R, K)  of the standard *)
Theorem des_round_impl_equals_spec : forall L R K, length L = 32%nat -> length R = 32%nat -> length K = 48%nat ->
  d_enc_lr (word_of L, word_of R) (kwpair K) = (word_of (xorbl L (des_f R K)), word_of R).
Proof. exact d_enc_lr_spec. Qed.
Print Assumptions des_round_impl_equals_spec.

(* muggle_openssl_tdes_crypt (IP once, three DES_encrypt2 passes, FP once) = DES o DES o DES of the standard with
   the three key schedules as muggle_tdes_set_key arranges them *)
Theorem tdes_impl_equals_spec : forall o1 o2 o3 k1 k2 k3 blk, wfb 8 k1 -> wfb 8 k2 -> wfb 8 k3 -> wfb 8 blk ->
  impl_tdes_crypt (impl_gen_subkeys (op_is_dec o1) k1) (impl_gen_subkeys (op_is_dec o2) k2) (impl_gen_subkeys (op_is_dec o3) k3) blk =
  des_crypt (des_gen_subkeys o3 k3) (des_crypt (des_gen_subkeys o2 k2) (des_crypt (des_gen_subkeys o1 k1) blk)).
Proof. exact tdes_impl_equals_spec_thm. Qed.
Print Assumptions tdes_impl_equals_spec.

(* the constant-time bitsliced S-box circuits: openssl_sub_u64 (SubBytes on 8 state bytes at once), openssl_inv_sub_u64
   (InvSubBytes), openssl_sub_u32 (SubWord of the key expansion) = the FIPS-197 S-box / inverse S-box on every byte,
   for all 2^64 (2^32) words *)
Theorem aes_sbox_impl_equals_spec : forall bs, length bs = 8%nat -> bytes bs ->
  impl_sub_u64 (of_le bs) = of_le (map sbox bs).
Proof. exact sub_u64_bytes. Qed.
Print Assumptions aes_sbox_impl_equals_spec.

Theorem aes_inv_sbox_impl_equals_spec : forall bs, length bs = 8%nat -> bytes bs ->
  impl_inv_sub_u64 (of_le bs) = of_le (map inv_sbox bs).
Proof. exact inv_sub_u64_bytes. Qed.
Print Assumptions aes_inv_sbox_impl_equals_spec.

Theorem aes_subword_impl_equals_spec : forall bs, length bs = 4%nat -> bytes bs ->
  impl_sub_u32 (of_le bs) = of_le (map sbox bs).
Proof. exact sub_u32_bytes. Qed.
Print Assumptions aes_subword_impl_equals_spec.

(* ===== 6. all of crypt/openssl/openssl_aes.c as coded = FIPS-197 =====
   C12/Impl_AES.v: the straight-line circuits (S-boxes, openssl_xtime_u64 / _u32, one iteration of the column loops of
   openssl_mix_columns / openssl_inv_mix_columns with the union byte views and the xtime calls expanded) are translated
   from the C source on every run; the control structure around them (two-word state, byte loops of shift_row, round
   loops, key expansion loop) is transcribed by hand and compared with the code through the round-key bytes left in the
   context and the cipher output.  xtime and (Inv)MixColumns on the packed words are decided by the affine evaluator
   (extended by the "b -= b >> 7" idiom, proved sound) against the bit-level form of the specification. *)

(* muggle_openssl_aes_set_key + muggle_openssl_aes_encrypt = KeyExpansion + Cipher of FIPS-197, 128/192/256-bit keys *)
Theorem aes_impl_equals_spec : forall bits key sk rk blk,
  impl_aes_set_key bits key = Some sk -> aes_round_keys bits key = Some rk ->
  length key = key_bytes bits -> bytes key -> wfb 16 blk -> impl_aes_encrypt sk blk = cipher rk blk.
Proof. exact aes_enc_impl_spec. Qed.
Print Assumptions aes_impl_equals_spec.

(* ... + muggle_openssl_aes_decrypt = InvCipher *)
Theorem aes_inv_impl_equals_spec : forall bits key sk rk blk,
  impl_aes_set_key bits key = Some sk -> aes_round_keys bits key = Some rk ->
  length key = key_bytes bits -> bytes key -> wfb 16 blk -> impl_aes_decrypt sk blk = inv_cipher rk blk.
Proof. exact aes_dec_impl_spec. Qed.
Print Assumptions aes_inv_impl_equals_spec.

(* openssl_key_expansion (two 32-bit words per iteration, rot_word / SubWord circuit / rcon by xtime) = the round keys of
   the standard, stored as two uint64_t per round key *)
Theorem aes_key_expansion_impl_equals_spec : forall bits key sk rk,
  impl_aes_set_key bits key = Some sk -> aes_round_keys bits key = Some rk ->
  length key = key_bytes bits -> bytes key -> fst sk = rk_words rk.
Proof. exact aes_key_expansion_impl_spec. Qed.
Print Assumptions aes_key_expansion_impl_equals_spec.

(* the round loops of openssl_cipher / openssl_inv_cipher for ANY well-formed round keys *)
Theorem aes_cipher_loop_impl_equals_spec : forall nr rks blk, (1 <= nr)%nat -> length rks = S nr -> Forall (wfb 16) rks -> wfb 16 blk ->
  impl_cipher (rk_words rks) nr blk = cipher rks blk.
Proof. exact impl_cipher_spec. Qed.
Print Assumptions aes_cipher_loop_impl_equals_spec.

Theorem aes_inv_cipher_loop_impl_equals_spec : forall nr rks blk, (1 <= nr)%nat -> length rks = S nr -> Forall (wfb 16) rks -> wfb 16 blk ->
  impl_inv_cipher (rk_words rks) nr blk = inv_cipher rks blk.
Proof. exact impl_inv_cipher_spec. Qed.
Print Assumptions aes_inv_cipher_loop_impl_equals_spec.

(* the transformations on the packed state uint64_t[2] (load16 = the 16 state bytes viewed as two words) *)
Theorem aes_mix_columns_impl_equals_spec : forall s, wfb 16 s -> impl_mix_columns (load16 s) = load16 (mix_columns s).
Proof. exact mix_columns_spec. Qed.
Print Assumptions aes_mix_columns_impl_equals_spec.

Theorem aes_inv_mix_columns_impl_equals_spec : forall s, wfb 16 s -> impl_inv_mix_columns (load16 s) = load16 (inv_mix_columns s).
Proof. exact inv_mix_columns_spec. Qed.
Print Assumptions aes_inv_mix_columns_impl_equals_spec.

Theorem aes_shift_row_impl_equals_spec : forall s, wfb 16 s ->
  impl_shift_row (load16 s) = load16 (shift_rows s) /\ impl_inv_shift_row (load16 s) = load16 (inv_shift_rows s).
Proof. exact (fun s H => conj (shift_row_spec s H) (inv_shift_row_spec s H)). Qed.
Print Assumptions aes_shift_row_impl_equals_spec.

Theorem aes_add_round_key_impl_equals_spec : forall k s, wfb 16 k -> wfb 16 s ->
  impl_add_round_key (load16 s) (load16 k) = load16 (add_round_key k s).
Proof. exact add_round_key_spec. Qed.
Print Assumptions aes_add_round_key_impl_equals_spec.

(* openssl_xtime_u32 (with its "b -= b >> 7" idiom) = xtime of FIPS-197 4.2.1 on each of the 4 bytes *)
Theorem aes_xtime_impl_equals_spec : forall w, word4 w -> impl_xtime_u32 (of_le w) = of_le (map xtime w).
Proof. exact xtime_u32_spec. Qed.
Print Assumptions aes_xtime_impl_equals_spec.

(* ---------- key handling: parity bits, independent Triple-DES schedules ---------- *)
(* the DES key schedule ignores the least significant (parity) bit of every key byte ... *)
Theorem des_key_schedule_ignores_parity : forall key key', wfb 8 key -> wfb 8 key' ->
  map (fun b => N.land b 254) key = map (fun b => N.land b 254) key' -> des_subkeys key = des_subkeys key'.
Proof. exact des_subkeys_ignore_parity. Qed.
Print Assumptions des_key_schedule_ignores_parity.

(* ... and exactly those: on the 64 key bits, positions 7, 15, .., 63 are ignored, every other position is used *)
Theorem des_key_schedule_ignores_exactly_parity : forall kb kb', length kb = 64%nat -> length kb' = 64%nat ->
  ((forall p, (p < 64)%nat -> parity_pos p = false -> nth p kb false = nth p kb' false) ->
   des_subkeys_bits kb = des_subkeys_bits kb') /\
  (forall p, (p < 64)%nat -> parity_pos p = false -> nth p kb false <> nth p kb' false ->
   des_subkeys_bits kb <> des_subkeys_bits kb').
Proof. exact (fun kb kb' H H' => conj (subkeys_ignore_parity_bits kb kb' H H') (fun p => subkeys_use_every_other_bit kb kb' p H H')). Qed.
Print Assumptions des_key_schedule_ignores_exactly_parity.

Theorem des_key_schedule_impl_ignores_parity : forall key key', wfb 8 key -> wfb 8 key' ->
  map (fun b => N.land b 254) key = map (fun b => N.land b 254) key' -> impl_set_key key = impl_set_key key'.
Proof. exact impl_key_schedule_ignores_parity. Qed.
Print Assumptions des_key_schedule_impl_ignores_parity.

(* for every key triple, ctx1, ctx2, ctx3 of a Triple-DES context are the DES key schedules of one key each
   (tdes_slots: which key and direction), so ctx_i does not change when the other two keys change *)
Theorem tdes_key_schedules_independent : forall o m k1 k2 k3 c,
  tdes_set_key true true true true o m k1 k2 k3 = (OK, Some c) ->
  [t_ks1 c; t_ks2 c; t_ks3 c] = map (fun s => des_gen_subkeys (fst s) (snd s)) (tdes_slots o m k1 k2 k3) /\
  forall k1' k2' k3' c', tdes_set_key true true true true o m k1' k2' k3' = (OK, Some c') ->
    (k2 = k2' -> t_ks2 c = t_ks2 c') /\
    (block_mode m && negb (is_enc o) = false -> (k1 = k1' -> t_ks1 c = t_ks1 c') /\ (k3 = k3' -> t_ks3 c = t_ks3 c')) /\
    (block_mode m && negb (is_enc o) = true -> (k3 = k3' -> t_ks1 c = t_ks1 c') /\ (k1 = k1' -> t_ks3 c = t_ks3 c')).
Proof. exact (fun o m k1 k2 k3 c H => conj (tdes_slots_schedules o m k1 k2 k3 c H)
  (fun k1' k2' k3' c' H' => tdes_schedule_depends_on_one_key o m k1 k2 k3 k1' k2' k3' c c' H H')). Qed.
Print Assumptions tdes_key_schedules_independent.

(* the same for the bytes the translated openssl_des.c leaves in the three contexts *)
Theorem tdes_key_schedules_impl_independent : forall o m k1 k2 k3, op_valid o = true -> wfb 8 k1 -> wfb 8 k2 -> wfb 8 k3 ->
  impl_tdes_ctx_bytes o m k1 k2 k3 =
  flat_map (fun s => ks_bytes (map kwpair (des_gen_subkeys (fst s) (snd s)))) (tdes_slots o m k1 k2 k3).
Proof. exact tdes_ctx_impl_schedules. Qed.
Print Assumptions tdes_key_schedules_impl_independent.

(* the text of muggle_tdes_set_key (source scan on every run): only argument checks and the key-schedule calls
   on ctx1, ctx2, ctx3; a shortcut that copies or compares schedules / keys breaks this obligation *)
Theorem tdes_set_key_text_is_three_schedule_calls : tdes_set_key_foreign = [] /\ tdes_set_key_targets = [1; 2; 3]%nat.
Proof. exact tdes_set_key_text_ok. Qed.
Print Assumptions tdes_set_key_text_is_three_schedule_calls.

(* ===== parameter validation of the set_key entry points (C12/Proofs_SetKey.v) =====
   "... and other invalid parameters are rejected": the key size of muggle_aes_set_key is a C int, and the model has it as
   an integer (aes_set_key_int, bits : Z); the theorems below quantify over EVERY integer - negative, zero, the Rijndael
   sizes 160 / 224 that FIPS-197 did not adopt, every other multiple of 8 or 32, neighbours of the valid sizes, large values.
   Non-vacuity: aes_set_key_sizes_example, set_key_text_examples (C12/Proofs_SetKey.v). *)
Local Open Scope Z_scope.

(* the int entry point is the entry point of the API theorems above at Z.to_N bits (no integer is confused with a size) *)
Theorem aes_set_key_int_is_aes_set_key : forall pk pc o m (bits : Z) key,
  aes_set_key_int pk pc o m bits key = aes_set_key pk pc o m (Z.to_N bits) key.
Proof. exact aes_set_key_int_eq. Qed.
Print Assumptions aes_set_key_int_is_aes_set_key.

(* set_key accepts EXACTLY the valid sizes, for every bit count in Z (and exactly valid op / mode / non-NULL pointers) *)
Theorem aes_set_key_accepts_exactly_128_192_256 : forall pk pc o m (bits : Z) key,
  fst (aes_set_key_int pk pc o m bits key) = OK <->
  (op_valid o = true /\ mode_valid m = true /\ pk = true /\ pc = true /\ (bits = 128 \/ bits = 192 \/ bits = 256)).
Proof. exact aes_set_key_accepts_exactly. Qed.
Print Assumptions aes_set_key_accepts_exactly_128_192_256.

(* the error code: the argument checks in the order of the C code, the key size last *)
Theorem aes_set_key_error_code_order : forall pk pc o m (bits : Z) key,
  fst (aes_set_key_int pk pc o m bits key) =
  first_err [(op_valid o, E_INVALID); (mode_valid m, E_INVALID); (pk, E_NULL); (pc, E_NULL); (aes_bits_valid bits, E_KEYSIZE)].
Proof. exact aes_set_key_error_code. Qed.
Print Assumptions aes_set_key_error_code_order.

Theorem aes_set_key_other_sizes_rejected : forall o m (bits : Z) key,
  op_valid o = true -> mode_valid m = true -> bits <> 128 -> bits <> 192 -> bits <> 256 ->
  aes_set_key_int true true o m bits key = (E_KEYSIZE, None).
Proof. exact aes_set_key_rejects_other_sizes. Qed.
Print Assumptions aes_set_key_other_sizes_rejected.

(* a refused set_key yields no context (the driver observes: key-schedule area untouched, later calls have nothing to run
   on); an accepted one the stored op / mode and the schedule of the announced size *)
Theorem aes_set_key_context_iff_accepted : forall pk pc o m (bits : Z) key,
  match aes_set_key_int pk pc o m bits key with
  | (OK, Some c) => a_op c = o /\ a_mode c = m /\ aes_round_keys (Z.to_N bits) key = Some (a_rk c)
  | (OK, None) => False
  | (_, Some _) => False
  | (_, None) => True
  end.
Proof. exact aes_set_key_context. Qed.
Print Assumptions aes_set_key_context_iff_accepted.

Theorem des_tdes_set_key_accept_exactly : forall pk p2 p3 pc o m key k2 k3,
  (fst (des_set_key pk pc o m key) = OK <-> (op_valid o = true /\ mode_valid m = true /\ pk = true /\ pc = true)) /\
  (fst (tdes_set_key pk p2 p3 pc o m key k2 k3) = OK <->
   (op_valid o = true /\ mode_valid m = true /\ pk = true /\ p2 = true /\ p3 = true /\ pc = true)).
Proof. exact (fun pk p2 p3 pc o m key k2 k3 => conj (des_set_key_accepts_exactly pk pc o m key)
                                                    (tdes_set_key_accepts_exactly pk p2 p3 pc o m key k2 k3)). Qed.
Print Assumptions des_tdes_set_key_accept_exactly.

Theorem des_tdes_set_key_context_iff_accepted : forall pk p2 p3 pc o m key k2 k3,
  match des_set_key pk pc o m key with
  | (OK, Some c) => d_op c = o /\ d_mode c = m /\ d_ks c = des_gen_subkeys (des_schedule_op o m) key
  | (OK, None) => False
  | (_, Some _) => False
  | (_, None) => True
  end /\
  match tdes_set_key pk p2 p3 pc o m key k2 k3 with
  | (OK, Some c) => t_op c = o /\ t_mode c = m
  | (OK, None) => False
  | (_, Some _) => False
  | (_, None) => True
  end.
Proof. exact des_tdes_set_key_context. Qed.
Print Assumptions des_tdes_set_key_context_iff_accepted.

(* ---- the C TEXT of the three functions (gen/Params_C12.v: re-translated from the working tree on every run by
   lib/props/c12_slice.py) equals reference functions in the vocabulary of the model, on every integer argument; the
   key-schedule calls receive the caller's key and the schedule area of the caller's context; the enumeration values are
   usable as codes.  Shape-independent proofs: a harmless rewrite keeps them, a changed accepted set breaks them. ---- *)
Theorem set_key_text_matches_reference :
  (forall f_rounds nn_key nn_sk bits ores,
     lenient3 (gen_muggle_openssl_aes_set_key f_rounds nn_key nn_sk bits ores) =
     lenient3 (ref_openssl_aes_set_key f_rounds nn_key nn_sk bits ores)) /\
  (forall f_mode f_op nn_key nn_ctx op mode bits ores,
     lenient4 (gen_muggle_aes_set_key f_mode f_op nn_key nn_ctx op mode bits ores) =
     lenient4 (ref_aes_set_key f_mode f_op nn_key nn_ctx op mode bits ores)) /\
  (forall f_mode f_op nn_key nn_ctx op mode ores,
     lenient4 (gen_muggle_des_set_key f_mode f_op nn_key nn_ctx op mode ores) =
     lenient4 (ref_des_set_key f_mode f_op nn_key nn_ctx op mode ores)) /\
  (gen_muggle_openssl_aes_set_key_ptrargs = ["openssl_key_expansion($1,$3->rd_key)"%string] /\
   gen_muggle_aes_set_key_ptrargs = ["muggle_openssl_aes_set_key($3,$5->sk)"%string] /\
   gen_muggle_des_set_key_ptrargs = ["muggle_des_set_key_inner($3,$4->sk)"%string]) /\
  enums_ok = true.
Proof. exact (conj gen_openssl_aes_set_key_eq (conj gen_aes_set_key_eq (conj gen_des_set_key_eq (conj set_key_ptrargs_ok enums_are_ok)))). Qed.
Print Assumptions set_key_text_matches_reference.

(* the text of muggle_openssl_aes_set_key returns 0 for EXACTLY 128 / 192 / 256 over all integers, the key-size error code
   and no key-expansion call otherwise; on success one expansion call with (Nr, Nk) of the specification's table *)
Theorem openssl_aes_set_key_text_accepts_exactly_128_192_256 : forall f_rounds nn_key nn_sk bits ores,
  let r := gen_muggle_openssl_aes_set_key f_rounds nn_key nn_sk bits ores in
  (ret3 r = 0 <-> (bits = 128 \/ bits = 192 \/ bits = 256)) /\
  (ret3 r <> 0 -> ret3 r = err_code E_KEYSIZE /\ fid (slot3 r) = 0) /\
  (ret3 r = 0 -> fid (slot3 r) = 1 /\
     aes_params (Z.to_N bits) = Some (Z.to_nat (arg2 (slot3 r)), Z.to_nat (arg1 (slot3 r)))).
Proof. exact openssl_aes_set_key_text_accepts_exactly. Qed.
Print Assumptions openssl_aes_set_key_text_accepts_exactly_128_192_256.

(* muggle_aes_set_key composed with muggle_openssl_aes_set_key, both as in the C text: the return value is the model's error
   code for every int op, mode, bits and NULL / non-NULL key, ctx; bits reaches the key-size chain unchanged *)
Theorem aes_set_key_text_returns_model_error_code : forall f_mode f_op f_rounds nn_key nn_ctx op mode bits key,
  let outer ores := gen_muggle_aes_set_key f_mode f_op nn_key nn_ctx op mode bits ores in
  (forall ores, fid (slot4 (outer ores)) = 0 \/ (fid (slot4 (outer ores)) = 1 /\ arg1 (slot4 (outer ores)) = bits)) /\
  (forall ores ores', fid (slot4 (outer ores)) = fid (slot4 (outer ores'))) /\
  forall nn_sk ores_inner,
  let inner := gen_muggle_openssl_aes_set_key f_rounds nn_key nn_sk bits ores_inner in
  ret4 (outer (ret3 inner)) =
  err_code (fst (aes_set_key_int (negb (nn_key =? 0)) (negb (nn_ctx =? 0)) (int_op op) (int_mode mode) bits key)).
Proof. exact aes_set_key_text_equals_model. Qed.
Print Assumptions aes_set_key_text_returns_model_error_code.

Theorem des_set_key_text_returns_model_error_code : forall f_mode f_op nn_key nn_ctx op mode ores key,
  let r := gen_muggle_des_set_key f_mode f_op nn_key nn_ctx op mode ores in
  let m := des_set_key (negb (nn_key =? 0)) (negb (nn_ctx =? 0)) (int_op op) (int_mode mode) key in
  (fst m <> OK -> ret4 r = err_code (fst m) /\ fid (slot4 r) = 0) /\
  (fst m = OK -> ret4 r = ores /\ fid (slot4 r) = 1 /\
     int_op (arg1 (slot4 r)) = des_schedule_op (int_op op) (int_mode mode)).
Proof. exact des_set_key_text_equals_model. Qed.
Print Assumptions des_set_key_text_returns_model_error_code.
