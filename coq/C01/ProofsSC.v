(* C01 — channel, sequentially consistent data path (DESIGN.md Appendix A.5): invariants of every
   reachable state for every schedule, any number of writers, any capacity, all 4 x 3 modes.
   Ghost absolute counters: W = number of accepted messages (length of c_acc), R = number of
   committed reads (c_R), cR = the value of R the cached read cursor stands for. *)
From MV Require Import C01.Model C01.ProofsArith.
Local Open Scope Z_scope.

Definition Wz (s : csys) : Z := Z.of_nat (length (c_acc s)).
Definition Rz (s : csys) : Z := Z.of_nat (c_R s).
Definition cRz (s : csys) : Z := Z.of_nat (c_cR s).
Definition dmsg : msg := (0%nat, 0%nat).

Definition cfg_ok (g : cfg) : Prop := 0 < g_cap g /\ (g_wk g = WSingle -> (g_nw g <= 1)%nat).

(* program points at which a writer is inside the region serialised by the writer lock *)
Definition hold (p : pc) : bool :=
  match p with
  | WBody | WLoadR | WChk | WPub _ | WRmLock | WRmChk | WRmUnlock _ | WUnlock _ | WUnlockOp _ => true
  | _ => false
  end.
Definition is_reader_pc (p : pc) : bool :=
  match p with
  | R0 | RChk | RLoop | RRet | RMChk | RLoadW | RStoreR | RWait | RBlocked | RMLock | RMUnlock
  | RCvWait | RCvBlocked | RCvWoken | RFin | RDone => true
  | _ => false
  end.
Definition role_ok (g : cfg) (t : nat) (p : pc) : Prop :=
  if is_reader_pc p then t = 0%nat else (p = WDone \/ (1 <= t <= g_nw g)%nat).

(* the reader has copied the slot but not yet published read_cursor *)
Definition pend (s : csys) : nat := match t_pc (c_thr s 0%nat) with RStoreR => 1%nat | _ => 0%nat end.

(* what a thread knows at its program point *)
Definition know (g : cfg) (s : csys) (t : nat) (x : cthread) : Prop :=
  let cap := g_cap g in
  match t_pc x with
  | WChk => Z.of_nat (t_gW x) = Wz s /\ (t_gR x <= c_R s)%nat /\ t_r x = (Z.of_nat (t_gR x) - 1) mod cap
            /\ Wz s - Z.of_nat (t_gR x) <= usable cap
            /\ (g_rm g = RBusy -> t_w x = (c_wcur s + 1) mod cap)
  | WPub _ => t_w x = (c_wcur s + 1) mod cap /\ Wz s + 1 - Rz s <= usable cap
              /\ c_slot s (c_wcur s) = Some (t, t_seq x)
              /\ (g_rm g = RBusy -> Wz s + 1 - cRz s <= usable cap)
  | WLoadR => g_rm g = RBusy -> t_w x = (c_wcur s + 1) mod cap
  | WRmLock | WRmChk => g_rm g = RMutex
  | RLoadW | RWait | RBlocked | RLoop => t_r x = Rz s mod cap
  | RChk => t_r x = Rz s mod cap /\ (t_w x <> t_r x -> Rz s < Wz s)
  | RStoreR => t_r x = Rz s mod cap /\ Rz s < Wz s /\ c_live s (t_r x) = false
  | _ => True
  end.

Record SInv (g : cfg) (s : csys) : Prop := {
  i_wcur : c_wcur s = Wz s mod g_cap g;
  i_rcur : c_rcur s = (Rz s - 1) mod g_cap g;
  i_RW : Rz s <= Wz s /\ Wz s - Rz s <= usable (g_cap g);
  i_slots : forall i : nat, (c_R s <= i < length (c_acc s))%nat ->
            c_slot s (Z.of_nat i mod g_cap g) = Some (nth i (c_acc s) dmsg);
  i_live : forall j, c_live s j = true ->
           exists i : nat, (c_R s <= i < length (c_acc s))%nat /\ j = Z.of_nat i mod g_cap g;
  i_dlen : length (c_del s) = (c_R s + pend s)%nat;
  i_del : c_uncov s = 0%nat -> c_del s = map Some (firstn (length (c_del s)) (c_acc s));
  i_cached : g_rm g = RBusy ->
             c_cached s = (cRz s - 1) mod g_cap g /\ (c_cR s <= c_R s)%nat /\ Wz s - cRz s <= usable (g_cap g);
  i_lock01 : c_lock s = 0 \/ c_lock s = 1;
  i_excl : forall t u, hold (t_pc (c_thr s t)) = true -> hold (t_pc (c_thr s u)) = true -> t = u;
  i_free : g_wk g <> WSingle -> c_lock s = 0 -> forall t, hold (t_pc (c_thr s t)) = false;
  i_role : forall t, role_ok g t (t_pc (c_thr s t));
  i_overw : c_overw s = 0%nat;
  i_badfull : c_badfull s = 0%nat;
  i_know : forall t, know g s t (c_thr s t);
}.

Lemma hold_writer p : hold p = true -> is_reader_pc p = false /\ p <> WDone.
Proof. destruct p; simpl; intros H; try discriminate; split; try reflexivity; discriminate. Qed.

Lemma hold_tid g s t : SInv g s -> hold (t_pc (c_thr s t)) = true -> (1 <= t <= g_nw g)%nat.
Proof.
  intros I H. pose proof (i_role _ _ I t) as R. unfold role_ok in R.
  destruct (hold_writer _ H) as [A B]. rewrite A in R. destruct R; [contradiction|assumption].
Qed.

Ltac upd_cases := simpl in *; repeat (match goal with
  | H : context [upd _ ?t _ ?a] |- _ => unfold upd in H; destruct (Nat.eqb_spec a t); subst
  | |- context [upd _ ?t _ ?a] => unfold upd; destruct (Nat.eqb_spec a t); subst
  end; simpl in * ).

(* ---------------- initial state ---------------- *)
Lemma cinit_inv g nread ks : cfg_ok g -> SInv g (cinit g nread ks).
Proof.
  intros [Hc Hs].
  constructor; unfold Wz, Rz, cRz, pend, know; simpl.
  - now rewrite Z.mod_0_l by lia.
  - replace (0 - 1) with (-1) by lia.
    rewrite <- (Z_mod_plus_full (-1) 1 (g_cap g)). rewrite Z.mod_small by lia. lia.
  - pose proof (usable_nonneg (g_cap g)). lia.
  - intros i Hi. lia.
  - discriminate.
  - reflexivity.
  - reflexivity.
  - intros _. split; [|split].
    + replace (0 - 1) with (-1) by lia.
      rewrite <- (Z_mod_plus_full (-1) 1 (g_cap g)). rewrite Z.mod_small by lia. lia.
    + lia.
    + pose proof (usable_nonneg (g_cap g)). lia.
  - auto.
  - intros t u. destruct (Nat.eqb t 0); [simpl; discriminate|]. destruct (Nat.leb t (g_nw g)); simpl; discriminate.
  - intros _ _ t. destruct (Nat.eqb t 0); [reflexivity|]. destruct (Nat.leb t (g_nw g)); reflexivity.
  - intros t. unfold role_ok. destruct (Nat.eqb_spec t 0); [subst; reflexivity|].
    destruct (Nat.leb_spec t (g_nw g)); simpl; [right; lia|left; reflexivity].
  - reflexivity.
  - reflexivity.
  - intros t. destruct (Nat.eqb t 0); [exact I|]. destruct (Nat.leb t (g_nw g)); exact I.
Qed.

(* ---------------- a step that changes only the stepping thread's own record ---------------- *)
Lemma sinv_thr g s t x' : cfg_ok g -> SInv g s ->
  role_ok g t (t_pc x') ->
  (hold (t_pc x') = true -> hold (t_pc (c_thr s t)) = true \/ g_wk g = WSingle) ->
  (t = 0%nat -> (t_pc x' = RStoreR <-> t_pc (c_thr s t) = RStoreR)) ->
  know g s t x' ->
  SInv g (put_thr t x' s).
Proof.
  intros [Hc Hsg] I Hrole Hhold Hpend Hknow.
  pose proof I as I0.
  destruct I as [Iw Ir IRW Isl Ili Idl Ide Ica Il01 Iex Ifr Iro Iov Ibf Ikn].
  constructor; unfold Wz, Rz, cRz in *; simpl; try assumption.
  - (* dlen *)
    rewrite Idl. f_equal. unfold pend, put_thr; simpl. unfold upd.
    destruct (Nat.eqb_spec 0 t) as [E|E]; [|reflexivity].
    subst t. specialize (Hpend eq_refl).
    destruct (t_pc x') eqn:E1; destruct (t_pc (c_thr s 0%nat)) eqn:E2; try reflexivity;
      exfalso; destruct Hpend as [A B]; first [ specialize (A eq_refl); discriminate | specialize (B eq_refl); discriminate ].
  - (* excl *)
    intros a b Ha Hb. upd_cases; try reflexivity; try (now apply Iex);
      match goal with
      | Hx : hold (t_pc x') = true, Hy : hold (t_pc (c_thr s ?o)) = true |- _ =>
        destruct (Hhold Hx) as [H1|H1]; [first [now apply Iex | symmetry; now apply Iex]|];
        pose proof (hold_tid g s o I0 Hy); destruct (hold_writer _ Hx) as [A B];
        unfold role_ok in Hrole; rewrite A in Hrole; destruct Hrole; [contradiction|]; specialize (Hsg H1); lia
      end.
  - (* free *)
    intros Hk Hl a. upd_cases; [|now apply Ifr].
    destruct (hold (t_pc x')) eqn:E; [|reflexivity].
    destruct (Hhold eq_refl) as [H1|H1]; [|contradiction].
    rewrite (Ifr Hk Hl t) in H1. discriminate.
  - (* role *)
    intros a. upd_cases; [assumption|apply Iro].
  - (* know *)
    intros a. upd_cases; [assumption|]. apply Ikn.
Qed.

Ltac inv_some H := inversion H; subst; clear H.

(* fields outside the SC data path (views, stamps, payload cells, read mutex word) do not matter *)
Ltac frame_from I :=
  let J := fresh "J" in
  pose proof I as J; destruct J;
  constructor; unfold Wz, Rz, cRz, pend, know in *; simpl in *; assumption.

Lemma role_not0 g t p : role_ok g t p -> is_reader_pc p = false -> p <> WDone -> (1 <= t <= g_nw g)%nat.
Proof. unfold role_ok. intros H A B. rewrite A in H. destruct H; [contradiction|assumption]. Qed.

(* ---------------- writer lock operations ---------------- *)
Lemma sinv_lockop g s t x' v st : cfg_ok g -> SInv g s ->
  (v = 0 \/ v = 1) ->
  role_ok g t (t_pc x') ->
  (t = 0%nat -> (t_pc x' = RStoreR <-> t_pc (c_thr s t) = RStoreR)) ->
  know g s t x' ->
  (hold (t_pc x') = true -> hold (t_pc (c_thr s t)) = true \/ (g_wk g <> WSingle /\ c_lock s = 0)) ->
  (v = 0 -> hold (t_pc x') = false /\ (hold (t_pc (c_thr s t)) = true \/ c_lock s = 0)) ->
  SInv g (put_thr t x' (w_lock v (w_lst st s))).
Proof.
  intros [Hc Hsg] I Hv Hrole Hpend Hknow Hacq Hrel.
  pose proof I as I0.
  destruct I as [Iw Ir IRW Isl Ili Idl Ide Ica Il01 Iex Ifr Iro Iov Ibf Ikn].
  constructor; unfold Wz, Rz, cRz in *; simpl; try assumption.
  - rewrite Idl. f_equal. unfold pend, put_thr; simpl. unfold upd.
    destruct (Nat.eqb_spec 0 t) as [E|E]; [|reflexivity].
    subst t. specialize (Hpend eq_refl).
    destruct (t_pc x') eqn:E1; destruct (t_pc (c_thr s 0%nat)) eqn:E2; try reflexivity;
      exfalso; destruct Hpend as [A B]; first [ specialize (A eq_refl); discriminate | specialize (B eq_refl); discriminate ].
  - intros a b Ha Hb. upd_cases; try reflexivity; try (now apply Iex);
      match goal with
      | Hx : hold (t_pc x') = true, Hy : hold (t_pc (c_thr s ?o)) = true |- _ =>
        destruct (Hacq Hx) as [H1|[H1 H2]]; [first [now apply Iex | symmetry; now apply Iex]|];
        rewrite (Ifr H1 H2 o) in Hy; discriminate
      end.
  - intros Hk Hl a. destruct (Hrel Hl) as [R1 R2]. upd_cases; [assumption|].
    destruct R2 as [R2|R2]; [|now apply Ifr].
    destruct (hold (t_pc (c_thr s a))) eqn:E; [|reflexivity]. exfalso. apply n. now apply Iex.
  - intros a. upd_cases; [assumption|apply Iro].
  - intros a. upd_cases; [assumption|]. apply Ikn.
Qed.

(* ---------------- chan->blocks[write_cursor].data = data ---------------- *)
Lemma sinv_slot_write g s t m : cfg_ok g -> SInv g s ->
  hold (t_pc (c_thr s t)) = true ->
  (match t_pc (c_thr s t) with WPub _ => False | _ => True end) ->
  SInv g (slot_write t m s) /\ c_slot (slot_write t m s) (c_wcur s) = Some m.
Proof.
  intros [Hc Hsg] I Hh Hnp. pose proof I as I0.
  destruct I as [Iw Ir IRW Isl Ili Idl Ide Ica Il01 Iex Ifr Iro Iov Ibf Ikn].
  pose proof (usable_lt _ Hc) as Hu.
  assert (Hfar : forall i : nat, (c_R s <= i < length (c_acc s))%nat -> Z.of_nat i mod g_cap g <> c_wcur s).
  { intros i Hi E. rewrite Iw in E. unfold Wz, Rz in *. symmetry in E.
    apply mod_neq_window in E; [assumption|assumption|lia]. }
  split.
  2:{ unfold slot_write, put_thr; simpl. unfold zupd. now rewrite Z.eqb_refl. }
  unfold slot_write. constructor; unfold Wz, Rz, cRz in *; simpl; try assumption.
  - intros i Hi. unfold zupd. destruct (Z.eqb_spec (Z.of_nat i mod g_cap g) (c_wcur s)) as [E|E].
    + exfalso. now apply (Hfar i Hi).
    + now apply Isl.
  - rewrite Idl. f_equal. unfold pend; simpl. unfold upd.
    destruct (Nat.eqb_spec 0 t) as [E|E]; [subst; simpl|]; reflexivity.
  - intros a b Ha Hb. upd_cases; try reflexivity; now apply Iex.
  - intros Hk Hl a. upd_cases; [rewrite (Ifr Hk Hl t) in Hh; discriminate|now apply Ifr].
  - intros a. upd_cases; apply Iro.
  - destruct (c_live s (c_wcur s)) eqn:El; [|assumption].
    exfalso. destruct (Ili _ El) as (i & Hi & E). symmetry in E. now apply (Hfar i Hi).
  - intros a. pose proof (Ikn a) as K. upd_cases.
    + unfold know in *; simpl in *. destruct (t_pc (c_thr s t)); try exact I; try assumption; contradiction.
    + unfold know in *; simpl in *.
      destruct (t_pc (c_thr s a)) eqn:Ea; try exact I; try assumption.
      exfalso. apply n. apply Iex; [rewrite Ea; reflexivity|assumption].
Qed.

(* ---------------- publication of a message (write_cursor := wpos) ---------------- *)
Lemma sinv_publish g s t x' wpos m : cfg_ok g -> SInv g s ->
  hold (t_pc (c_thr s t)) = true -> hold (t_pc x') = true -> role_ok g t (t_pc x') ->
  (forall s0, know g s0 t x') ->
  wpos = (c_wcur s + 1) mod g_cap g ->
  Wz s + 1 - Rz s <= usable (g_cap g) ->
  c_slot s (c_wcur s) = Some m ->
  (g_rm g = RBusy -> Wz s + 1 - cRz s <= usable (g_cap g)) ->
  SInv g (put_thr t x' (w_wcur wpos (w_acc (c_acc s ++ [m]) (w_live (zupd (c_live s) (c_wcur s) true) s)))).
Proof.
  intros [Hc Hsg] I Hh Hh' Hrole Hknow Hwpos Hroom Hslot Hbusy. pose proof I as I0.
  destruct I as [Iw Ir IRW Isl Ili Idl Ide Ica Il01 Iex Ifr Iro Iov Ibf Ikn].
  pose proof (hold_tid g s t I0 Hh) as Ht.
  assert (HW : Z.of_nat (length (c_acc s ++ [m])) = Z.of_nat (length (c_acc s)) + 1).
  { rewrite app_length. simpl. lia. }
  assert (Hdl : (length (c_del s) <= length (c_acc s))%nat).
  { rewrite Idl. unfold pend. pose proof (Ikn 0%nat) as K. unfold know in K.
    destruct (t_pc (c_thr s 0%nat)); unfold Wz, Rz in *; try lia. }
  constructor; unfold Wz, Rz, cRz in *; simpl; rewrite ?HW; try assumption.
  - subst wpos. rewrite Iw. now rewrite Zplus_mod_idemp_l.
  - lia.
  - intros i Hi. rewrite app_length in Hi. simpl in Hi.
    destruct (Nat.eq_dec i (length (c_acc s))) as [E|E].
    + subst i. rewrite <- Iw. rewrite Hslot. rewrite app_nth2 by lia. now rewrite Nat.sub_diag.
    + rewrite app_nth1 by lia. apply Isl. lia.
  - intros j Hj. unfold zupd in Hj. rewrite app_length. simpl.
    destruct (Z.eqb_spec j (c_wcur s)) as [E|E].
    + exists (length (c_acc s)). split; [lia|]. now rewrite <- Iw.
    + destruct (Ili j Hj) as (i & Hi & Ei). exists i. split; [lia|assumption].
  - rewrite Idl. f_equal. unfold pend; simpl. unfold upd.
    destruct (Nat.eqb_spec 0 t) as [E|E]; [lia|reflexivity].
  - intros Hu. rewrite firstn_app. replace (length (c_del s) - length (c_acc s))%nat with 0%nat by lia.
    simpl. rewrite app_nil_r. now apply Ide.
  - intros Hb. destruct (Ica Hb) as (A & B & C). repeat split; try assumption. now apply Hbusy.
  - intros a b Ha Hb. upd_cases; try reflexivity; try (now apply Iex);
      first [ apply Iex; assumption | symmetry; apply Iex; assumption ].
  - intros Hk Hl a. upd_cases; [rewrite (Ifr Hk Hl t) in Hh; discriminate|now apply Ifr].
  - intros a. upd_cases; [assumption|apply Iro].
  - intros a. pose proof (Ikn a) as K. upd_cases; [apply Hknow|].
    unfold know in *; simpl in *. unfold Wz, Rz, cRz in *; simpl. rewrite ?HW.
    destruct (t_pc (c_thr s a)) eqn:Ea; try exact I; try assumption;
      try (exfalso; apply n; apply Iex; [rewrite Ea; reflexivity|assumption]).
    + destruct K as [K1 K2]. split; [assumption|]. intros Hne. specialize (K2 Hne). lia.
    + destruct K as (K1 & K2 & K3). split; [assumption|]. split; [lia|].
      unfold zupd. destruct (Z.eqb_spec (t_r (c_thr s a)) (c_wcur s)) as [E|E]; [|assumption].
      exfalso. rewrite K1, Iw in E. symmetry in E. apply mod_neq_window in E; [assumption|assumption|].
      pose proof (usable_lt _ Hc). lia.
Qed.

(* ---------------- reader ---------------- *)
Lemma rnext_R g s : cfg_ok g -> SInv g s -> rnext g s = Rz s mod g_cap g.
Proof.
  intros [Hc _] I. unfold rnext. rewrite (i_rcur _ _ I). rewrite Zplus_mod_idemp_l. f_equal. lia.
Qed.

Lemma sinv_uncov g s n : SInv g s -> (n = 0%nat -> c_uncov s = 0%nat) -> SInv g (w_uncov n s).
Proof.
  intros I Hn. pose proof I as J; destruct J.
  constructor; unfold Wz, Rz, cRz, pend, know in *; simpl in *; try assumption.
  intros E. auto.
Qed.

Lemma slot_read_cov s v i ch d cov : slot_read s v i ch = (d, cov) -> cov = true -> d = c_slot s i.
Proof. unfold slot_read. intros H C. injection H as Hd Hc. rewrite Hc in Hd. rewrite C in Hd. now symmetry. Qed.

(* the reader copies the slot: void *data = chan->blocks[rpos].data (sync / busy modes) *)
Lemma sinv_read g s x d cov : cfg_ok g -> SInv g s ->
  x = c_thr s 0%nat -> t_pc x = RChk -> t_w x <> t_r x ->
  (cov = true -> d = c_slot s (t_r x)) ->
  SInv g (put_thr 0%nat (set_pc (set_d x d) RStoreR)
            (w_del (c_del s ++ [d]) (w_live (zupd (c_live s) (t_r x) false)
            (w_uncov (if cov then c_uncov s else S (c_uncov s)) s)))).
Proof.
  intros [Hc Hsg] I Hx Hpc Hne Hd. pose proof I as I0.
  destruct I as [Iw Ir IRW Isl Ili Idl Ide Ica Il01 Iex Ifr Iro Iov Ibf Ikn].
  pose proof (Ikn 0%nat) as K0. rewrite <- Hx in K0. unfold know in K0. rewrite Hpc in K0.
  destruct K0 as [K1 K2]. specialize (K2 Hne).
  assert (Hp0 : pend s = 0%nat) by (unfold pend; rewrite <- Hx, Hpc; reflexivity).
  constructor; unfold Wz, Rz, cRz in *; simpl; try assumption.
  - intros j Hj. unfold zupd in Hj. destruct (Z.eqb j (t_r x)); [discriminate|]. now apply Ili.
  - rewrite app_length, Idl, Hp0. unfold pend; simpl. lia.
  - intros Hu. destruct cov; [|discriminate]. specialize (Ide Hu). specialize (Hd eq_refl).
    rewrite app_length. simpl. rewrite Idl, Hp0, Nat.add_0_r in *.
    replace (c_R s + 1)%nat with (S (c_R s)) by lia.
    rewrite (firstn_S_nth _ _ dmsg) by lia. rewrite map_app. simpl. rewrite <- Ide.
    f_equal. rewrite Hd, K1. rewrite Isl by lia. reflexivity.
  - intros a b Ha Hb. upd_cases; try reflexivity; try discriminate. now apply Iex.
  - intros Hk Hl a. upd_cases; [reflexivity|now apply Ifr].
  - intros a. upd_cases; [reflexivity|apply Iro].
  - intros a. pose proof (Ikn a) as K. upd_cases.
    + unfold know; simpl. unfold Wz, Rz. split; [assumption|]. split; [assumption|].
      unfold zupd. now rewrite Z.eqb_refl.
    + unfold know in *; simpl in *.
      destruct (t_pc (c_thr s a)) eqn:Ea; try exact I; try assumption.
      exfalso. pose proof (Iro a) as Ra. rewrite Ea in Ra. simpl in Ra. contradiction.
Qed.

(* the reader publishes read_cursor := rpos *)
Lemma sinv_commit g s x : cfg_ok g -> SInv g s ->
  x = c_thr s 0%nat -> t_pc x = RStoreR ->
  SInv g (put_thr 0%nat (set_pc x RRet) (w_rcur (t_r x) (w_R (S (c_R s)) s))).
Proof.
  intros [Hc Hsg] I Hx Hpc. pose proof I as I0.
  destruct I as [Iw Ir IRW Isl Ili Idl Ide Ica Il01 Iex Ifr Iro Iov Ibf Ikn].
  pose proof (Ikn 0%nat) as K0. rewrite <- Hx in K0. unfold know in K0. rewrite Hpc in K0.
  destruct K0 as (K1 & K2 & K3).
  assert (Hp1 : pend s = 1%nat) by (unfold pend; rewrite <- Hx, Hpc; reflexivity).
  remember (S (c_R s)) as R1 eqn:ER1.
  assert (HR : Z.of_nat R1 = Z.of_nat (c_R s) + 1) by lia.
  constructor; unfold Wz, Rz, cRz in *; simpl; rewrite ?HR; try assumption.
  - rewrite K1. f_equal. lia.
  - lia.
  - intros i Hi. apply Isl. lia.
  - intros j Hj. destruct (Ili j Hj) as (i & Hi & Ei).
    destruct (Nat.eq_dec i (c_R s)) as [E|E].
    + exfalso. subst i. rewrite <- K1 in Ei. subst j. rewrite K3 in Hj. discriminate.
    + exists i. split; [lia|assumption].
  - rewrite Idl, Hp1. unfold pend; simpl. lia.
  - intros Hb. destruct (Ica Hb) as (A & B & C). repeat split; try assumption. lia.
  - intros a b Ha Hb. upd_cases; try reflexivity; try discriminate. now apply Iex.
  - intros Hk Hl a. upd_cases; [reflexivity|now apply Ifr].
  - intros a. upd_cases; [reflexivity|apply Iro].
  - intros a. pose proof (Ikn a) as K. upd_cases; [exact I|].
    unfold know in *; simpl in *. unfold Wz, Rz, cRz in *; simpl. rewrite ?HR.
    destruct (t_pc (c_thr s a)) eqn:Ea; try exact I; try assumption;
      try (exfalso; pose proof (Iro a) as Ra; rewrite Ea in Ra; simpl in Ra; contradiction).
    + destruct K as (A & B & C & D & E). repeat split; try assumption. lia.
    + destruct K as (A & B & C & D). repeat split; try assumption. lia.
Qed.

(* the ghost check at a refused write *)
Lemma sinv_full_check g s nw nr : SInv g s ->
  Z.of_nat nw - Z.of_nat nr = usable (g_cap g) -> SInv g (full_check g nw nr s).
Proof.
  intros I H. unfold full_check. rewrite H, Z.eqb_refl.
  pose proof I as J; destruct J.
  constructor; unfold Wz, Rz, cRz, pend, know in *; simpl in *; assumption.
Qed.

(* busy mode: chan->cached_r_cur = value loaded from read_cursor *)
Lemma sinv_cached g s t v (r : nat) : SInv g s ->
  t_pc (c_thr s t) = WChk ->
  v = (Z.of_nat r - 1) mod g_cap g -> (r <= c_R s)%nat -> Wz s - Z.of_nat r <= usable (g_cap g) ->
  SInv g (w_cached v (w_cR r s)).
Proof.
  intros I Hh Hv Hr Hw. pose proof I as J.
  destruct J as [Iw Ir IRW Isl Ili Idl Ide Ica Il01 Iex Ifr Iro Iov Ibf Ikn].
  constructor; unfold Wz, Rz, cRz, pend in *; simpl in *; try assumption.
  - intros _. repeat split; assumption.
  - intros a. pose proof (Ikn a) as K. unfold know in *; simpl in *. unfold Wz, Rz, cRz in *; simpl.
    destruct (t_pc (c_thr s a)) eqn:Ea; try exact I; try assumption.
    destruct (Nat.eq_dec a t) as [E|E].
    + subst a. rewrite Ea in Hh. discriminate.
    + exfalso. apply E. apply Iex; [rewrite Ea; reflexivity|rewrite Hh; reflexivity].
Qed.

(* mutex mode: the reader takes a message under read_mutex (copy + read_cursor in one segment) *)
Lemma sinv_mread g s x d cov : cfg_ok g -> SInv g s ->
  x = c_thr s 0%nat -> t_pc x = RMChk -> rnext g s <> c_wcur s ->
  (cov = true -> d = c_slot s (rnext g s)) ->
  SInv g (put_thr 0%nat (set_pc (set_d x d) RMUnlock)
            (w_rcur (rnext g s) (w_R (S (c_R s)) (w_del (c_del s ++ [d])
            (w_live (zupd (c_live s) (rnext g s) false)
            (w_uncov (if cov then c_uncov s else S (c_uncov s)) s)))))).
Proof.
  intros Hg I Hx Hpc Hne Hd. pose proof I as I0. pose proof (rnext_R g s Hg I) as HrR.
  destruct Hg as [Hc Hsg].
  destruct I as [Iw Ir IRW Isl Ili Idl Ide Ica Il01 Iex Ifr Iro Iov Ibf Ikn].
  rewrite HrR in *.
  assert (Hp0 : pend s = 0%nat) by (unfold pend; rewrite <- Hx, Hpc; reflexivity).
  assert (HRW : Rz s < Wz s).
  { destruct (Z.eq_dec (Rz s) (Wz s)) as [E|E]; [|lia]. exfalso. apply Hne. rewrite Iw, E. reflexivity. }
  remember (S (c_R s)) as R1 eqn:ER1.
  assert (HR : Z.of_nat R1 = Z.of_nat (c_R s) + 1) by lia.
  constructor; unfold Wz, Rz, cRz in *; simpl; rewrite ?HR; try assumption.
  - f_equal. lia.
  - lia.
  - intros i Hi. apply Isl. lia.
  - intros j Hj. unfold zupd in Hj.
    destruct (Z.eqb_spec j (Z.of_nat (c_R s) mod g_cap g)) as [E|E]; [discriminate|].
    destruct (Ili j Hj) as (i & Hi & Ei).
    destruct (Nat.eq_dec i (c_R s)) as [E2|E2]; [subst i; contradiction|].
    exists i. split; [lia|assumption].
  - rewrite app_length, Idl, Hp0. unfold pend; simpl. lia.
  - intros Hu. destruct cov; [|discriminate]. specialize (Ide Hu). specialize (Hd eq_refl).
    rewrite app_length. simpl. rewrite Idl, Hp0, Nat.add_0_r in *.
    replace (c_R s + 1)%nat with (S (c_R s)) by lia.
    rewrite (firstn_S_nth _ _ dmsg) by lia. rewrite map_app. simpl. rewrite <- Ide.
    f_equal. rewrite Hd. rewrite Isl by lia. reflexivity.
  - intros Hb. destruct (Ica Hb) as (A & B & C). repeat split; try assumption. lia.
  - intros a b Ha Hb. upd_cases; try reflexivity; try discriminate. now apply Iex.
  - intros Hk Hl a. upd_cases; [reflexivity|now apply Ifr].
  - intros a. upd_cases; [reflexivity|apply Iro].
  - intros a. pose proof (Ikn a) as K. upd_cases; [exact I|].
    unfold know in *; simpl in *. unfold Wz, Rz, cRz in *; simpl. rewrite ?HR.
    destruct (t_pc (c_thr s a)) eqn:Ea; try exact I; try assumption;
      try (exfalso; pose proof (Iro a) as Ra; rewrite Ea in Ra; simpl in Ra; contradiction).
    + destruct K as (A & B & C & D & E). repeat split; try assumption. lia.
    + destruct K as (A & B & C & D). repeat split; try assumption. lia.
Qed.

(* ---------------- every small step preserves the invariant ---------------- *)
Lemma first_blocked_spec thr n u : first_blocked thr n = Some u -> t_pc (thr u) = WBlocked.
Proof.
  induction n as [|m IH]; simpl; [discriminate|].
  destruct (first_blocked thr m) as [v|] eqn:E.
  - intros H; inversion H; subst. now apply IH.
  - destruct (t_pc (thr m)) eqn:Ep; try discriminate. intros H; inversion H; subst. exact Ep.
Qed.

Ltac solve_role Rt :=
  unfold role_ok in *; simpl in *;
  first [ assumption | left; reflexivity | destruct Rt as [Rt|Rt]; [discriminate Rt|right; assumption] ].
Ltac solve_hold Epc :=
  simpl; rewrite ?Epc; simpl; intros;
  first [ discriminate | left; reflexivity | right; assumption ].
Ltac solve_pend Epc Rt :=
  let E0 := fresh "E0" in
  intros E0; simpl; rewrite ?Epc; simpl;
  first [ split; intro; discriminate
        | exfalso; unfold role_ok in Rt; simpl in Rt; destruct Rt as [Rt|Rt]; [discriminate Rt|lia] ].
(* the step changed only the stepping thread's record (possibly after a frame) *)
Ltac thr_only Hg I Epc Rt :=
  apply sinv_thr; [exact Hg | first [exact I | frame_from I] | solve_role Rt | solve_hold Epc | solve_pend Epc Rt | ].

Lemma upd_self_pc {A} (f : nat -> A) t x : upd f t x t = x.
Proof. apply upd_same. Qed.

Lemma cmicro_sinv g s t ch s' ns : cfg_ok g -> SInv g s -> cmicro g s t ch = Some (s', ns) -> SInv g s'.
Proof.
  intros Hg I Hs. pose proof Hg as [Hc Hsg].
  pose proof (i_role _ _ I t) as Rt. pose proof (i_know _ _ I t) as Kt.
  pose proof (usable_nonneg (g_cap g)) as Hu0.
  unfold cmicro in Hs. unfold know in Kt.
  destruct (t_pc (c_thr s t)) eqn:Epc; try discriminate Hs.
  - (* W0 *)
    destruct (t_todo (c_thr s t)); inv_some Hs.
    + thr_only Hg I Epc Rt. exact Logic.I.
    + thr_only Hg I Epc Rt. exact Logic.I.
  - (* WCall *)
    inv_some Hs. destruct (g_wk g) eqn:Ek; thr_only Hg I Epc Rt; exact Logic.I.
  - inv_some Hs. thr_only Hg I Epc Rt. exact Logic.I.
  - inv_some Hs. thr_only Hg I Epc Rt. exact Logic.I.
  - inv_some Hs. thr_only Hg I Epc Rt. exact Logic.I.
  - (* WBody *)
    destruct (g_rm g) eqn:Erm.
    + inv_some Hs. thr_only Hg I Epc Rt. unfold know; simpl. intros Hb; rewrite Erm in Hb; discriminate Hb.
    + inv_some Hs. thr_only Hg I Epc Rt. unfold know; simpl. assumption.
    + destruct (Z.eqb_spec (wnext g s) (c_cached s)) as [Ef|Ef]; inv_some Hs.
      * thr_only Hg I Epc Rt. unfold know; simpl. intros _. reflexivity.
      * destruct (sinv_slot_write g s t (t, t_seq (c_thr s t)) Hg I) as [I1 Hsl];
          [rewrite Epc; reflexivity|rewrite Epc; exact Logic.I|].
        set (s1 := slot_write t (t, t_seq (c_thr s t)) s) in *.
        assert (Et : c_thr s1 t = set_view (c_thr s t) (vupd (t_view (c_thr s t)) (CSlot (c_wcur s)) (S (c_sver s (c_wcur s))))).
        { unfold s1, slot_write, put_thr; simpl. apply upd_same. }
        rewrite upd_same.
        apply sinv_thr; [exact Hg|exact I1| solve_role Rt | rewrite Et; simpl; rewrite Epc; intros; left; reflexivity
                        | rewrite Et; solve_pend Epc Rt | ].
        destruct (i_cached _ _ I Erm) as (C1 & C2 & C3). destruct (i_RW _ _ I) as [RW1 RW2].
        assert (Hroom : Wz s + 1 - cRz s <= usable (g_cap g)).
        { apply not_full_room; [assumption|unfold Wz, Rz, cRz in *; lia|].
          rewrite <- (i_wcur _ _ I), <- C1. exact Ef. }
        unfold know; simpl. unfold Wz, Rz, cRz in *. subst s1; simpl. repeat split.
        -- lia.
        -- exact Hsl.
        -- intros _. exact Hroom.
  - (* WChk *)
    destruct (i_RW _ _ I) as [RW1 RW2].
    destruct Kt as (K1 & K2 & K3 & K4 & K5).
    destruct (g_rm g) eqn:Erm; [| discriminate Hs |].
    + (* sync *)
      destruct (Z.eqb_spec (wnext g s) (t_r (c_thr s t))) as [Ef|Ef]; inv_some Hs.
      * apply sinv_thr; [exact Hg| | solve_role Rt | solve_hold Epc | solve_pend Epc Rt | exact Logic.I].
        apply sinv_full_check; [exact I|]. rewrite K1.
        apply full_is_full; [assumption|unfold Wz, Rz in *; lia|].
        rewrite <- (i_wcur _ _ I), <- K3. exact Ef.
      * destruct (sinv_slot_write g s t (t, t_seq (c_thr s t)) Hg I) as [I1 Hsl];
          [rewrite Epc; reflexivity|rewrite Epc; exact Logic.I|].
        set (s1 := slot_write t (t, t_seq (c_thr s t)) s) in *.
        assert (Et : c_thr s1 t = set_view (c_thr s t) (vupd (t_view (c_thr s t)) (CSlot (c_wcur s)) (S (c_sver s (c_wcur s))))).
        { unfold s1, slot_write, put_thr; simpl. apply upd_same. }
        rewrite upd_same.
        apply sinv_thr; [exact Hg|exact I1| solve_role Rt | rewrite Et; simpl; rewrite Epc; intros; left; reflexivity
                        | rewrite Et; solve_pend Epc Rt | ].
        assert (Hroom : Wz s + 1 - Z.of_nat (t_gR (c_thr s t)) <= usable (g_cap g)).
        { apply not_full_room; [assumption|unfold Wz, Rz in *; lia|].
          rewrite <- (i_wcur _ _ I), <- K3. exact Ef. }
        unfold know; simpl. unfold Wz, Rz, cRz in *. subst s1; simpl. repeat split.
        -- lia.
        -- exact Hsl.
        -- intros Hb; rewrite Erm in Hb; discriminate Hb.
    + (* busy *)
      specialize (K5 eq_refl).
      assert (I0 : SInv g (w_cached (t_r (c_thr s t)) (w_cR (t_gR (c_thr s t)) s))).
      { apply (sinv_cached g s t); [exact I|exact Epc|exact K3|exact K2|exact K4]. }
      destruct (Z.eqb_spec (t_w (c_thr s t)) (t_r (c_thr s t))) as [Ef|Ef]; inv_some Hs.
      * apply sinv_thr; [exact Hg| | solve_role Rt | solve_hold Epc | solve_pend Epc Rt | exact Logic.I].
        apply sinv_full_check; [exact I0|]. rewrite K1.
        apply full_is_full; [assumption|unfold Wz, Rz in *; lia|].
        rewrite <- (i_wcur _ _ I), <- K3, <- K5. exact Ef.
      * set (s0 := w_cached (t_r (c_thr s t)) (w_cR (t_gR (c_thr s t)) s)) in *.
        destruct (sinv_slot_write g s0 t (t, t_seq (c_thr s t)) Hg I0) as [I1 Hsl];
          [simpl; rewrite Epc; reflexivity|simpl; rewrite Epc; exact Logic.I|].
        set (s1 := slot_write t (t, t_seq (c_thr s t)) s0) in *.
        assert (Et : c_thr s1 t = set_view (c_thr s t) (vupd (t_view (c_thr s t)) (CSlot (c_wcur s)) (S (c_sver s (c_wcur s))))).
        { unfold s1, slot_write, put_thr; simpl. apply upd_same. }
        rewrite upd_same.
        apply sinv_thr; [exact Hg|exact I1| solve_role Rt | rewrite Et; simpl; rewrite Epc; intros; left; reflexivity
                        | rewrite Et; solve_pend Epc Rt | ].
        assert (Hroom : Wz s + 1 - Z.of_nat (t_gR (c_thr s t)) <= usable (g_cap g)).
        { apply not_full_room; [assumption|unfold Wz, Rz in *; lia|].
          rewrite <- (i_wcur _ _ I), <- K3, <- K5. exact Ef. }
        unfold know; simpl. unfold Wz, Rz, cRz in *; simpl. subst s1 s0; simpl. repeat split.
        -- exact K5.
        -- lia.
        -- exact Hsl.
        -- intros _. exact Hroom.
  - (* WRmChk *)
    destruct (i_RW _ _ I) as [RW1 RW2].
    destruct (Z.eqb_spec (wnext g s) (c_rcur s)) as [Ef|Ef]; inv_some Hs.
    + apply sinv_thr; [exact Hg| | solve_role Rt | solve_hold Epc | solve_pend Epc Rt | exact Logic.I].
      apply sinv_full_check; [exact I|]. unfold nacc.
      apply full_is_full; [assumption|unfold Wz, Rz in *; lia|].
      fold (Wz s). fold (Rz s). rewrite <- (i_wcur _ _ I), <- (i_rcur _ _ I). exact Ef.
    + destruct (sinv_slot_write g s t (t, t_seq (c_thr s t)) Hg I) as [I1 Hsl];
        [rewrite Epc; reflexivity|rewrite Epc; exact Logic.I|].
      set (s1 := slot_write t (t, t_seq (c_thr s t)) s) in *.
      assert (Et : c_thr s1 t = set_view (c_thr s t) (vupd (t_view (c_thr s t)) (CSlot (c_wcur s)) (S (c_sver s (c_wcur s))))).
      { unfold s1, slot_write, put_thr; simpl. apply upd_same. }
      assert (Hroom : Wz s + 1 - Rz s <= usable (g_cap g)).
      { apply not_full_room; [assumption|unfold Wz, Rz in *; lia|].
        rewrite <- (i_wcur _ _ I), <- (i_rcur _ _ I). exact Ef. }
      rewrite upd_same.
      apply (sinv_publish g s1 t _ (wnext g s) (t, t_seq (c_thr s t)) Hg I1).
      * rewrite Et; simpl; rewrite Epc; reflexivity.
      * reflexivity.
      * solve_role Rt.
      * intros s0. exact Logic.I.
      * reflexivity.
      * exact Hroom.
      * exact Hsl.
      * intros Hb. rewrite Kt in Hb. discriminate.
  - (* WUnlock *)
    inv_some Hs. destruct (g_wk g) eqn:Ek; thr_only Hg I Epc Rt; exact Logic.I.
  - inv_some Hs. thr_only Hg I Epc Rt. exact Logic.I.
  - (* WAfterUnlock *)
    inv_some Hs. destruct ok; [destruct (g_rm g)|]; thr_only Hg I Epc Rt; exact Logic.I.
  - (* WRet *)
    destruct ok.
    + inv_some Hs. thr_only Hg I Epc Rt. exact Logic.I.
    + destruct (negb (Nat.eqb (g_maxtry g) 0) && Nat.leb (g_maxtry g) (S (t_tries (c_thr s t)))); inv_some Hs;
        thr_only Hg I Epc Rt; exact Logic.I.
  - (* R0 *)
    destruct (t_todo (c_thr s t)); [inv_some Hs; thr_only Hg I Epc Rt; exact Logic.I|].
    destruct (g_rm g) eqn:Erm; inv_some Hs; thr_only Hg I Epc Rt; try exact Logic.I;
      unfold know; simpl; apply rnext_R; assumption.
  - (* RChk *)
    assert (t = 0%nat) by (unfold role_ok in Rt; simpl in Rt; exact Rt). subst t.
    destruct Kt as [K1 K2].
    destruct (Z.eqb_spec (t_w (c_thr s 0%nat)) (t_r (c_thr s 0%nat))) as [Ef|Ef].
    + destruct (g_rm g); inv_some Hs; thr_only Hg I Epc Rt; unfold know; simpl; exact K1.
    + destruct (slot_read s (t_view (c_thr s 0%nat)) (t_r (c_thr s 0%nat)) ch) as [d cov] eqn:Esr.
      inv_some Hs. apply sinv_read; try assumption; try reflexivity.
      intros C. eapply slot_read_cov; eauto.
  - (* RLoop *)
    inv_some Hs. thr_only Hg I Epc Rt. unfold know; simpl. exact Kt.
  - (* RRet *)
    inv_some Hs.
    apply sinv_thr; [exact Hg| | solve_role Rt | solve_hold Epc | solve_pend Epc Rt | exact Logic.I].
    apply sinv_uncov; [exact I|].
    destruct (match t_d (c_thr s t) with Some m' => Nat.eqb (vget (t_view (c_thr s t)) (CPay m')) (c_pver s m') | None => true end);
      [auto|discriminate].
  - (* RMChk *)
    assert (t = 0%nat) by (unfold role_ok in Rt; simpl in Rt; exact Rt). subst t.
    destruct (Z.eqb_spec (rnext g s) (c_wcur s)) as [Ef|Ef].
    + inv_some Hs. thr_only Hg I Epc Rt. exact Logic.I.
    + destruct (slot_read s (t_view (c_thr s 0%nat)) (rnext g s) ch) as [d cov] eqn:Esr.
      inv_some Hs. apply sinv_mread; try assumption; try reflexivity.
      intros C. eapply slot_read_cov; eauto.
Qed.

Lemma cop_sinv P g s t ch s' l : cfg_ok g -> SInv g s -> cop P g s t ch = Some (s', l) -> SInv g s'.
Proof.
  intros Hg I Hs. pose proof Hg as [Hc Hsg].
  pose proof (i_role _ _ I t) as Rt. pose proof (i_know _ _ I t) as Kt.
  unfold cop in Hs. unfold know in Kt.
  destruct (t_pc (c_thr s t)) eqn:Epc; try discriminate Hs.
  - (* WLockOp *)
    destruct (g_wk g) eqn:Ek; try discriminate Hs.
    + (* mutex *)
      destruct (Z.eqb_spec (c_lock s) 0) as [L0|L0]; [|discriminate Hs]. inv_some Hs.
      apply sinv_lockop; [exact Hg|exact I|right; reflexivity|solve_role Rt|solve_pend Epc Rt|exact Logic.I| |].
      * intros _. right. split; [rewrite Ek; discriminate|exact L0].
      * intros; discriminate.
    + (* sync *)
      destruct (Z.eqb_spec (c_lock s) 0) as [L0|L0].
      * destruct (Nat.eqb ch 1); inv_some Hs.
        -- thr_only Hg I Epc Rt. exact Logic.I.
        -- apply sinv_lockop; [exact Hg|exact I|right; reflexivity|solve_role Rt|solve_pend Epc Rt|exact Logic.I| |].
           ++ intros _. right. split; [rewrite Ek; discriminate|exact L0].
           ++ intros; discriminate.
      * inv_some Hs. thr_only Hg I Epc Rt. exact Logic.I.
    + (* spin *)
      inv_some Hs.
      apply sinv_lockop; [exact Hg|exact I|right; reflexivity| | | | |].
      * destruct (c_lock s =? 0); solve_role Rt.
      * destruct (c_lock s =? 0); solve_pend Epc Rt.
      * unfold know; simpl. destruct (c_lock s =? 0); exact Logic.I.
      * simpl. destruct (Z.eqb_spec (c_lock s) 0) as [L0|L0]; simpl; intros Hh; [|discriminate Hh].
        right. split; [rewrite Ek; discriminate|exact L0].
      * intros; discriminate.
  - inv_some Hs. thr_only Hg I Epc Rt. exact Logic.I.
  - (* WFwait *)
    destruct (c_lock s =? 1); [destruct (Nat.eqb ch 2); [|destruct (Nat.eqb ch 3)]|]; inv_some Hs; thr_only Hg I Epc Rt; exact Logic.I.
  - (* WLoadR *)
    inv_some Hs. thr_only Hg I Epc Rt.
    destruct (i_RW _ _ I) as [RW1 RW2].
    unfold know; simpl. unfold nacc, Wz, Rz in *. repeat split; try lia.
    + exact (i_rcur _ _ I).
    + exact Kt.
  - (* WPub *)
    destruct Kt as (K1 & K2 & K3 & K4).
    inv_some Hs.
    match goal with |- SInv g (put_thr t ?x (w_wcur ?w (w_acc ?a (w_live ?li ?s0)))) =>
      apply (sinv_publish g s0 t x w (t, t_seq (c_thr s t)) Hg) end.
    + frame_from I.
    + simpl. rewrite Epc. reflexivity.
    + reflexivity.
    + solve_role Rt.
    + intros s0. exact Logic.I.
    + exact K1.
    + exact K2.
    + exact K3.
    + exact K4.
  - (* WRmLock *)
    destruct (c_rmx s =? 0); [|discriminate Hs]. inv_some Hs.
    thr_only Hg I Epc Rt. unfold know; simpl. exact Kt.
  - (* WRmUnlock *)
    inv_some Hs. thr_only Hg I Epc Rt. exact Logic.I.
  - (* WUnlockOp *)
    destruct (g_wk g) eqn:Ek; try discriminate Hs; inv_some Hs;
      (apply sinv_lockop; [exact Hg|exact I|left; reflexivity|solve_role Rt|solve_pend Epc Rt|exact Logic.I
                          |simpl; intros; discriminate
                          |intros _; split; [reflexivity|left; rewrite Epc; reflexivity]]).
  - (* WSyncWake *)
    destruct (first_blocked (c_thr s) (S (g_nw g))) as [u|] eqn:Ef.
    + pose proof (first_blocked_spec _ _ _ Ef) as Hu. inv_some Hs.
      assert (Hne : t <> u) by (intros E; subst u; rewrite Epc in Hu; discriminate Hu).
      assert (I1 : SInv g (put_thr u (set_pc (c_thr s u) WRelock) s)).
      { pose proof (i_role _ _ I u) as Ru. rewrite Hu in Ru.
        apply sinv_thr; [exact Hg|exact I|solve_role Ru|simpl; intros; discriminate
                        |intros _; simpl; rewrite Hu; split; intro; discriminate|exact Logic.I]. }
      rewrite upd_other by exact Hne.
      apply sinv_thr; [exact Hg|exact I1|solve_role Rt|simpl; intros; discriminate| |exact Logic.I].
      intros E0. simpl. rewrite upd_other by exact Hne. rewrite Epc. split; intro; discriminate.
    + inv_some Hs. thr_only Hg I Epc Rt. exact Logic.I.
  - (* WWake *)
    assert (Hne : t <> 0%nat).
    { unfold role_ok in Rt; simpl in Rt. destruct Rt as [Rt|Rt]; [discriminate Rt|lia]. }
    destruct (t_pc (c_thr s 0%nat)) eqn:E0; inv_some Hs; try (thr_only Hg I Epc Rt; exact Logic.I).
    assert (I1 : SInv g (put_thr 0%nat (set_pc (c_thr s 0%nat) RLoop) s)).
    { pose proof (i_know _ _ I 0%nat) as K0. unfold know in K0. rewrite E0 in K0.
      apply sinv_thr; [exact Hg|exact I|reflexivity|simpl; intros; discriminate
                      |intros _; simpl; rewrite E0; split; intro; discriminate|unfold know; simpl; exact K0]. }
    rewrite upd_other by exact Hne.
    apply sinv_thr; [exact Hg|exact I1|solve_role Rt|simpl; intros; discriminate| |exact Logic.I].
    intros E1. contradiction.
  - (* WCvSig *)
    assert (Hne : t <> 0%nat).
    { unfold role_ok in Rt; simpl in Rt. destruct Rt as [Rt|Rt]; [discriminate Rt|lia]. }
    destruct (t_pc (c_thr s 0%nat)) eqn:E0; inv_some Hs; try (thr_only Hg I Epc Rt; exact Logic.I).
    assert (I1 : SInv g (put_thr 0%nat (set_pc (c_thr s 0%nat) RCvWoken) s)).
    { apply sinv_thr; [exact Hg|exact I|reflexivity|simpl; intros; discriminate
                      |intros _; simpl; rewrite E0; split; intro; discriminate|exact Logic.I]. }
    rewrite upd_other by exact Hne.
    apply sinv_thr; [exact Hg|exact I1|solve_role Rt|simpl; intros; discriminate| |exact Logic.I].
    intros E1. contradiction.
  - inv_some Hs. thr_only Hg I Epc Rt. exact Logic.I.
  - inv_some Hs. thr_only Hg I Epc Rt. exact Logic.I.
  - (* RLoadW *)
    inv_some Hs. thr_only Hg I Epc Rt.
    unfold know; simpl. split; [exact Kt|]. intros Hne.
    destruct (i_RW _ _ I) as [RW1 RW2].
    destruct (Z.eq_dec (Rz s) (Wz s)) as [E|E]; [|lia].
    exfalso. apply Hne. rewrite Kt, (i_wcur _ _ I), E. reflexivity.
  - (* RStoreR *)
    assert (t = 0%nat) by (unfold role_ok in Rt; simpl in Rt; exact Rt). subst t.
    inv_some Hs.
    match goal with |- SInv g (put_thr 0%nat ?x (w_rcur ?r (w_R ?n ?s0))) =>
      apply (sinv_commit g s0 (c_thr s 0%nat) Hg) end.
    + frame_from I.
    + reflexivity.
    + exact Epc.
  - (* RWait *)
    destruct (c_wcur s =? t_w (c_thr s t)); [destruct (Nat.eqb ch 2); [|destruct (Nat.eqb ch 3)]|]; inv_some Hs; thr_only Hg I Epc Rt; unfold know; simpl; exact Kt.
  - (* RMLock *)
    destruct (c_rmx s =? 0); [|discriminate Hs]. inv_some Hs. thr_only Hg I Epc Rt. exact Logic.I.
  - inv_some Hs. thr_only Hg I Epc Rt. exact Logic.I.
  - inv_some Hs. thr_only Hg I Epc Rt. exact Logic.I.
  - (* RCvBlocked *)
    destruct (Nat.eqb ch 1); [|discriminate Hs]. inv_some Hs. thr_only Hg I Epc Rt. exact Logic.I.
  - (* RCvWoken *)
    destruct (c_rmx s =? 0); [|discriminate Hs]. inv_some Hs. thr_only Hg I Epc Rt. exact Logic.I.
  - inv_some Hs. thr_only Hg I Epc Rt. exact Logic.I.
Qed.

(* ---------------- trace-level steps and executions ---------------- *)
Lemma crun_sinv g fuel : cfg_ok g -> forall s t ch acc s' ns,
  SInv g s -> crun fuel g s t ch acc = (s', ns) -> SInv g s'.
Proof.
  intros Hg. induction fuel as [|f IH]; intros s t ch acc s' ns I H; simpl in H.
  - inv_some H. exact I.
  - destruct (is_plain (t_pc (c_thr s t))).
    + destruct (cmicro g s t ch) as [[s1 ns1]|] eqn:E.
      * eapply IH; [|exact H]. eapply cmicro_sinv; eauto.
      * inv_some H. exact I.
    + inv_some H. exact I.
Qed.

Lemma cstep_sinv P g s t ch s' l : cfg_ok g -> SInv g s -> cstep P g s t ch = Some (s', l) -> SInv g s'.
Proof.
  intros Hg I H. unfold cstep in H.
  destruct (is_plain (t_pc (c_thr s t))).
  - destruct (cmicro g s t ch) as [[s1 ns1]|] eqn:E; [|discriminate H].
    destruct (crun 16 g s1 t ch ns1) as [s2 ns2] eqn:E2. inv_some H.
    eapply crun_sinv; [exact Hg| |exact E2]. eapply cmicro_sinv; eauto.
  - eapply cop_sinv; eauto.
Qed.

(* every reachable state of every schedule, any number of writers, any positive capacity, all modes *)
Theorem chan_sc_invariant P g nread ks sched : cfg_ok g ->
  SInv g (exec csys (cstep P g) (cinit g nread ks) sched).
Proof.
  intros Hg. apply inv_exec; [|now apply cinit_inv].
  intros s t c s' l I H. eapply cstep_sinv; eauto.
Qed.

(* the configurations produced by muggle_channel_init *)
Lemma mk_cfg_ok wk rm req nw mt : (wk = WSingle -> (nw <= 1)%nat) -> cfg_ok (mk_cfg wk rm req nw mt).
Proof.
  intros H. split; simpl; [|exact H]. unfold round_cap.
  apply Z.pow_pos_nonneg; [lia|apply Z.log2_up_nonneg].
Qed.

Lemma map_some_prefix {A} (l : list A) n : exists r, map Some l = map Some (firstn n l) ++ r.
Proof. exists (map Some (skipn n l)). rewrite <- map_app. now rewrite firstn_skipn. Qed.

(* ---------------- the statements of the property, SC part ---------------- *)
Definition reach (P : params) (g : cfg) (nread : nat) (ks : nat -> nat) (sched : list (nat * nat)) : csys :=
  exec csys (cstep P g) (cinit g nread ks) sched.

(* reads return exactly the accepted messages, once each, in the order their writes took effect
   (as long as every plain read was covered by the reader's view: ProofsView.v shows it always is) *)
Theorem chan_prefix_sc P g nread ks sched : cfg_ok g ->
  let s := reach P g nread ks sched in
  c_uncov s = 0%nat ->
  c_del s = map Some (firstn (length (c_del s)) (c_acc s)) /\ (length (c_del s) <= length (c_acc s))%nat.
Proof.
  intros Hg s Hu. pose proof (chan_sc_invariant P g nread ks sched Hg) as I. fold (reach P g nread ks sched) in I. fold s in I.
  split; [exact (i_del _ _ I Hu)|].
  rewrite (i_dlen _ _ I). unfold pend. pose proof (i_know _ _ I 0%nat) as K. unfold know in K.
  destruct (i_RW _ _ I) as [A B]. unfold Wz, Rz in *.
  destruct (t_pc (c_thr s 0%nat)); try lia.
Qed.

Corollary chan_drained_sc P g nread ks sched : cfg_ok g ->
  let s := reach P g nread ks sched in
  c_uncov s = 0%nat -> length (c_del s) = length (c_acc s) -> c_del s = map Some (c_acc s).
Proof.
  intros Hg s Hu Hl. destruct (chan_prefix_sc P g nread ks sched Hg Hu) as [A _]. fold s in A.
  rewrite A. rewrite Hl. now rewrite firstn_all.
Qed.

(* a write is refused only if, at the instant the writer read the cursors, the ring held its
   usable capacity (capacity - 2; 0 for capacities 1 and 2): the ghost check never fails *)
Theorem chan_full_only_if_full_all P g nread ks sched : cfg_ok g ->
  c_badfull (reach P g nread ks sched) = 0%nat.
Proof. intros Hg. exact (i_badfull _ _ (chan_sc_invariant P g nread ks sched Hg)). Qed.

(* a slot store never targets a slot that holds an accepted, not yet delivered message *)
Theorem chan_no_overwrite_all P g nread ks sched : cfg_ok g ->
  c_overw (reach P g nread ks sched) = 0%nat.
Proof. intros Hg. exact (i_overw _ _ (chan_sc_invariant P g nread ks sched Hg)). Qed.

(* at most usable capacity unread; at most one writer inside the serialised region *)
Theorem chan_bounds_all P g nread ks sched t u : cfg_ok g ->
  let s := reach P g nread ks sched in
  (Z.of_nat (length (c_acc s)) - Z.of_nat (c_R s) <= usable (g_cap g)) /\
  (hold (t_pc (c_thr s t)) = true -> hold (t_pc (c_thr s u)) = true -> t = u).
Proof.
  intros Hg s. pose proof (chan_sc_invariant P g nread ks sched Hg) as I. fold (reach P g nread ks sched) in I. fold s in I.
  split; [exact (proj2 (i_RW _ _ I))|exact (i_excl _ _ I t u)].
Qed.

(* ---------------- non-vacuity ---------------- *)
Definition sc_params : params :=
  {| mo_ws_load := Rlx; mo_ws_store := Rel; mo_wb_load := Rlx; mo_wb_store1 := Rel; mo_wb_store2 := Rel;
     mo_rs_load := Acq; mo_rs_store := Rel; mo_rb_load := Acq; mo_rb_store := Rel;
     mo_spin_tas := Acq; mo_spin_clear := Rel; mo_sync_cas := Acq; mo_sync_store := Rel |}.

(* one writer (spinlock), futex reader, requested capacity 3 (rounded to 4, two usable slots):
   the writer runs alone: two messages are accepted, the third is refused as FULL (the ghost
   check is exercised); then the reader delivers the two in order *)
Example chan_nonvacuous :
  let g := mk_cfg WSpin RSync 3 1 0 in
  let s := reach sc_params g 2 (fun _ => 3%nat) (repeat (1, 0)%nat 30 ++ repeat (0, 0)%nat 20) in
  c_acc s = [(1, 0); (1, 1)]%nat /\ c_del s = [Some (1, 0); Some (1, 1)]%nat /\
  t_tries (c_thr s 1%nat) = 1%nat /\ c_badfull s = 0%nat /\ c_uncov s = 0%nat /\ g_cap g = 4.
Proof. vm_compute. repeat split; reflexivity. Qed.
