(* C01 — channel, visibility part: with release on every publication of write_cursor, acquire on
   the reader's load and acquire/release writer locks, every plain read the reader performs (the
   message slot, then the harness payload) is covered by its view: the hand-over is a
   happens-before edge.  Sync (futex) and busy reader modes; all four writer-lock kinds. *)
From MV Require Import C01.Model C01.ProofsArith C01.ProofsSC.
Local Open Scope Z_scope.

(* ---------------- view tables ---------------- *)
Lemma msg_eqb_spec a b : reflect (a = b) (msg_eqb a b).
Proof.
  unfold msg_eqb. destruct a as [a1 a2], b as [b1 b2]; simpl.
  destruct (Nat.eqb_spec a1 b1), (Nat.eqb_spec a2 b2); simpl; constructor; congruence.
Qed.
Lemma pcell_eqb_spec a b : reflect (a = b) (pcell_eqb a b).
Proof.
  destruct a as [i|m], b as [j|n]; simpl; try (constructor; discriminate).
  - destruct (Z.eqb_spec i j); constructor; congruence.
  - destruct (msg_eqb_spec m n); constructor; congruence.
Qed.
Lemma pcell_eqb_refl a : pcell_eqb a a = true.
Proof. destruct (pcell_eqb_spec a a); congruence. Qed.

Lemma vget_vins c n l d : vget (vins c n l) d = if pcell_eqb d c then Nat.max n (vget l d) else vget l d.
Proof.
  induction l as [|[e k] r IH]; simpl.
  - destruct (pcell_eqb d c); simpl; lia.
  - destruct (pcell_eqb_spec e c) as [E|E]; simpl.
    + subst e. destruct (pcell_eqb_spec d c) as [E2|E2]; lia.
    + rewrite IH. destruct (pcell_eqb_spec d e) as [E2|E2]; destruct (pcell_eqb_spec d c) as [E3|E3]; try lia.
Qed.
Lemma vget_vjoin a b c : vget (vjoin a b) c = Nat.max (vget a c) (vget b c).
Proof.
  unfold vjoin. induction a as [|[e k] r IH]; simpl; [reflexivity|].
  rewrite vget_vins, IH. destruct (pcell_eqb_spec c e) as [E|E]; lia.
Qed.
Lemma vget_vupd v c n d : vget (vupd v c n) d = if pcell_eqb d c then Nat.max n (vget v d) else vget v d.
Proof. apply vget_vins. Qed.
Lemma vget_acq mo a b c : vget (acq_join mo a b) c = if is_acq mo then Nat.max (vget a c) (vget b c) else vget a c.
Proof. unfold acq_join. destruct (is_acq mo); [apply vget_vjoin|reflexivity]. Qed.
Lemma vget_rel mo a c : vget (rel_stamp mo a) c = if is_rel mo then vget a c else 0%nat.
Proof. unfold rel_stamp. destruct (is_rel mo); reflexivity. Qed.
Lemma vget_rmw mo a b c : vget (rmw_stamp mo a b) c = if is_rel mo then Nat.max (vget b c) (vget a c) else vget b c.
Proof. unfold rmw_stamp. destruct (is_rel mo); [apply vget_vjoin|reflexivity]. Qed.

(* ---------------- the visibility invariant ---------------- *)
Definition le_ver (s : csys) (v : view) : Prop := forall c, (vget v c <= ver s c)%nat.
(* the cells written under the writer lock: every slot, and the payload of every accepted message *)
Definition wcell (s : csys) (c : pcell) : Prop := match c with CSlot _ => True | CPay m => In m (c_acc s) end.
Definition cov_all (s : csys) (v : view) : Prop := forall c, wcell s c -> vget v c = ver s c.
Definition cov_but (s : csys) (v : view) (i : Z) : Prop := forall c, wcell s c -> c <> CSlot i -> vget v c = ver s c.

Definition serial (g : cfg) (s : csys) (t : nat) : Prop :=
  hold (t_pc (c_thr s t)) = true \/ (g_wk g = WSingle /\ (1 <= t <= g_nw g)%nat).

(* writer program points at which the current message's payload has been written *)
Definition own_pc (p : pc) : bool :=
  match p with
  | WCall | WSpinF | WSyncF | WRelock | WBody | WChk | WRmChk | WUnlock _ | WSyncRel _ | WAfterUnlock _ | WRet _
  | WLockOp | WYield | WFwait | WBlocked | WLoadR | WPub _ | WRmLock | WRmUnlock _ | WUnlockOp _ | WSyncWake _
  | WWake | WCvSig | WRetry => true
  | _ => false
  end.
(* ... and at which it has been published but the sequence number not yet advanced *)
Definition after_pub (p : pc) : bool :=
  match p with
  | WUnlock true | WUnlockOp true | WSyncRel true | WSyncWake true | WAfterUnlock true
  | WWake | WCvSig | WRet true | WRmUnlock true => true
  | _ => false
  end.
Definition mutex_pc (p : pc) : bool :=
  match p with
  | WRmLock | WRmChk | WRmUnlock _ | WCvSig | RMLock | RMChk | RMUnlock | RCvWait | RCvBlocked | RCvWoken => true
  | _ => false
  end.

Definition rknow (s : csys) (x : cthread) : Prop :=
  match t_pc x with
  | RChk => t_w x <> t_r x ->
            vget (t_view x) (CSlot (t_r x)) = c_sver s (t_r x) /\
            vget (t_view x) (CPay (nth (c_R s) (c_acc s) dmsg)) = c_pver s (nth (c_R s) (c_acc s) dmsg)
  | RStoreR | RRet =>
    match t_d x with Some m => In m (c_acc s) /\ vget (t_view x) (CPay m) = c_pver s m | None => True end
  | _ => True
  end.

Record VInv (g : cfg) (s : csys) : Prop := {
  v_le_thr : forall t, le_ver s (t_view (c_thr s t));
  v_le_wst : le_ver s (c_wst s);
  v_le_rst : le_ver s (c_rst s);
  v_le_lst : le_ver s (c_lst s);
  v_le_rmst : le_ver s (c_rmst s);
  v_serial : forall t, serial g s t -> cov_all s (t_view (c_thr s t));
  v_lst : g_wk g <> WSingle -> c_lock s = 0 -> cov_all s (c_lst s);
  v_wst : cov_but s (c_wst s) (c_wcur s);
  v_own : forall t, own_pc (t_pc (c_thr s t)) = true ->
          vget (t_view (c_thr s t)) (CPay (t, t_seq (c_thr s t))) = c_pver s (t, t_seq (c_thr s t));
  v_fresh : forall m, In m (c_acc s) ->
            (snd m < t_seq (c_thr s (fst m)))%nat \/
            (snd m = t_seq (c_thr s (fst m)) /\ after_pub (t_pc (c_thr s (fst m))) = true);
  v_mode : forall t, mutex_pc (t_pc (c_thr s t)) = true -> g_rm g = RMutex;
  v_rknow : rknow s (c_thr s 0%nat);
  v_uncov : c_uncov s = 0%nat;
}.

Ltac vunf := unfold le_ver, cov_all, cov_but, wcell, serial, rknow, ver in *.
Ltac vframe V := let J := fresh "J" in pose proof V as J; destruct J; constructor; vunf; simpl in *; assumption.

Lemma cinit_vinv g nread ks : VInv g (cinit g nread ks).
Proof.
  constructor; vunf; simpl; try (intros; lia); try reflexivity.
  - intros t c. destruct (Nat.eqb t 0); [simpl; lia|]. destruct (Nat.leb t (g_nw g)); simpl; lia.
  - intros t _ c _. destruct (Nat.eqb t 0); [destruct c; reflexivity|]. destruct (Nat.leb t (g_nw g)); destruct c; reflexivity.
  - intros _ _ c _. destruct c; reflexivity.
  - intros c _ _. destruct c; reflexivity.
  - intros t. destruct (Nat.eqb t 0); [simpl; discriminate|]. destruct (Nat.leb t (g_nw g)); simpl; discriminate.
  - intros t. destruct (Nat.eqb t 0); [simpl; discriminate|]. destruct (Nat.leb t (g_nw g)); simpl; discriminate.
Qed.

(* a step that changes only the stepping thread's record *)
Lemma vinv_thr g s t x' : VInv g s ->
  le_ver s (t_view x') ->
  ((hold (t_pc x') = true \/ (g_wk g = WSingle /\ (1 <= t <= g_nw g)%nat)) -> cov_all s (t_view x')) ->
  (own_pc (t_pc x') = true -> vget (t_view x') (CPay (t, t_seq x')) = c_pver s (t, t_seq x')) ->
  (forall m, In m (c_acc s) -> fst m = t ->
     (snd m < t_seq x')%nat \/ (snd m = t_seq x' /\ after_pub (t_pc x') = true)) ->
  (mutex_pc (t_pc x') = true -> g_rm g = RMutex) ->
  (t = 0%nat -> rknow s x') ->
  VInv g (put_thr t x' s).
Proof.
  intros V Hle Hser Hown Hfr Hmode Hrk.
  destruct V as [Vt Vw Vr Vl Vm Vs Vls Vws Vo Vf Vmo Vrk Vu].
  constructor; vunf; simpl; try assumption.
  - intros a. unfold upd. destruct (Nat.eqb_spec a t); [exact Hle|apply Vt].
  - intros a Ha. unfold upd in *. destruct (Nat.eqb_spec a t); [subst a; apply Hser; exact Ha|apply Vs; exact Ha].
  - intros a Ha. unfold upd in *. destruct (Nat.eqb_spec a t); [subst a; apply Hown; exact Ha|apply Vo; exact Ha].
  - intros m Hm. unfold upd. destruct (Nat.eqb_spec (fst m) t) as [E|E]; [apply Hfr; [exact Hm|exact E]|apply Vf; exact Hm].
  - intros a Ha. unfold upd in *. destruct (Nat.eqb_spec a t); [apply Hmode; exact Ha|eapply Vmo; exact Ha].
  - unfold upd. destruct (Nat.eqb_spec 0%nat t) as [E|E]; [apply Hrk; symmetry; exact E|exact Vrk].
Qed.

(* ... and only its program counter *)
Lemma vinv_setpc g s t p' : VInv g s ->
  (hold p' = true -> serial g s t) ->
  (own_pc p' = true -> own_pc (t_pc (c_thr s t)) = true) ->
  (after_pub (t_pc (c_thr s t)) = true -> after_pub p' = true) ->
  (mutex_pc p' = true -> mutex_pc (t_pc (c_thr s t)) = true \/ g_rm g = RMutex) ->
  (t = 0%nat -> rknow s (set_pc (c_thr s t) p')) ->
  VInv g (put_thr t (set_pc (c_thr s t) p') s).
Proof.
  intros V Hh Ho Ha Hm Hr. pose proof V as V0.
  destruct V as [Vt Vw Vr Vl Vm Vs Vls Vws Vo Vf Vmo Vrk Vu].
  apply vinv_thr; simpl; try assumption.
  - apply Vt.
  - intros [H|H]; apply Vs; [apply Hh; exact H|right; exact H].
  - intros H. apply Vo. apply Ho. exact H.
  - intros m Hm0 E. subst t. destruct (Vf m Hm0) as [A|[A B]]; [left; exact A|right; split; [exact A|apply Ha; exact B]].
  - intros H. destruct (Hm H) as [A|A]; [eapply Vmo; exact A|exact A].
Qed.

Lemma vinv_thr_mono g s t x' : VInv g s ->
  (forall c, (vget (t_view (c_thr s t)) c <= vget (t_view x') c <= ver s c)%nat) ->
  t_seq x' = t_seq (c_thr s t) ->
  (hold (t_pc x') = true -> serial g s t) ->
  (own_pc (t_pc x') = true -> own_pc (t_pc (c_thr s t)) = true) ->
  (after_pub (t_pc (c_thr s t)) = true -> after_pub (t_pc x') = true) ->
  (mutex_pc (t_pc x') = true -> mutex_pc (t_pc (c_thr s t)) = true \/ g_rm g = RMutex) ->
  (t = 0%nat -> rknow s x') ->
  VInv g (put_thr t x' s).
Proof.
  intros V Hv Hseq Hh Ho Ha Hm Hr. pose proof V as V0.
  destruct V as [Vt Vw Vr Vl Vm Vs Vls Vws Vo Vf Vmo Vrk Vu].
  apply vinv_thr; try assumption.
  - intros c. apply Hv.
  - intros H c Hc. assert (E : vget (t_view (c_thr s t)) c = ver s c).
    { apply Vs; [|exact Hc]. destruct H as [H|H]; [apply Hh; exact H|right; exact H]. }
    pose proof (Hv c). lia.
  - intros H. rewrite Hseq. pose proof (Vo t (Ho H)) as E. pose proof (Hv (CPay (t, t_seq (c_thr s t)))) as B.
    simpl in B. lia.
  - intros m Hm0 E. subst t. rewrite Hseq.
    destruct (Vf m Hm0) as [A|[A B]]; [left; exact A|right; split; [exact A|apply Ha; exact B]].
  - intros H. destruct (Hm H) as [A|A]; [eapply Vmo; exact A|exact A].
Qed.

Lemma far_slot g s : cfg_ok g -> SInv g s ->
  forall i : nat, (c_R s <= i < length (c_acc s))%nat -> Z.of_nat i mod g_cap g <> c_wcur s.
Proof.
  intros [Hc _] I i Hi E. rewrite (i_wcur _ _ I) in E. destruct (i_RW _ _ I) as [A B].
  pose proof (usable_lt _ Hc). unfold Wz, Rz in *. symmetry in E.
  apply mod_neq_window in E; [assumption|assumption|lia].
Qed.

Lemma serial_unique g s t a : cfg_ok g -> SInv g s ->
  hold (t_pc (c_thr s t)) = true -> serial g s a -> a = t.
Proof.
  intros [Hc Hsg] I Ht [Ha|[Hk Ha]].
  - apply (i_excl _ _ I); assumption.
  - pose proof (hold_tid g s t I Ht). specialize (Hsg Hk). lia.
Qed.

(* K1: the producer writes the payload of a fresh message *)
Lemma vinv_payload g s t : cfg_ok g -> SInv g s -> VInv g s ->
  t_pc (c_thr s t) = W0 ->
  let x := c_thr s t in
  let m := (t, t_seq x) in
  let n := S (c_pver s m) in
  VInv g (put_thr t (set_pc (set_view x (vupd (t_view x) (CPay m) n)) WCall)
            (w_pay (mupd (c_pay s) m (tag m + 1000)) (w_pver (mupd (c_pver s) m n) s))).
Proof.
  intros Hg I V Epc x m n. pose proof V as V0.
  destruct V as [Vt Vw Vr Vl Vm Vs Vls Vws Vo Vf Vmo Vrk Vu].
  assert (Hfresh : ~ In m (c_acc s)).
  { intros Hm. destruct (Vf m Hm) as [A|[A B]]; unfold m, x in *; simpl in *; [lia|]. rewrite Epc in B. discriminate. }
  assert (Ht : (1 <= t)%nat).
  { pose proof (i_role _ _ I t) as R. rewrite Epc in R. unfold role_ok in R; simpl in R. destruct R as [R|R]; [discriminate R|lia]. }
  assert (Hver : forall c, c <> CPay m -> ver (w_pay (mupd (c_pay s) m (tag m + 1000)) (w_pver (mupd (c_pver s) m n) s)) c = ver s c).
  { intros c Hc. destruct c as [i|m']; simpl; [reflexivity|]. unfold mupd.
    destruct (msg_eqb_spec m' m); [subst; contradiction|reflexivity]. }
  assert (Hverm : ver (w_pay (mupd (c_pay s) m (tag m + 1000)) (w_pver (mupd (c_pver s) m n) s)) (CPay m) = n).
  { simpl. unfold mupd. destruct (msg_eqb_spec m m); [reflexivity|contradiction]. }
  assert (Hle : forall v, le_ver s v -> le_ver (w_pay (mupd (c_pay s) m (tag m + 1000)) (w_pver (mupd (c_pver s) m n) s)) v).
  { intros v Hv c. destruct (pcell_eqb_spec c (CPay m)) as [E|E].
    - subst c. rewrite Hverm. specialize (Hv (CPay m)). simpl in Hv. unfold n. lia.
    - rewrite Hver by exact E. apply Hv. }
  assert (Hcov : forall v, cov_all s v -> cov_all (w_pay (mupd (c_pay s) m (tag m + 1000)) (w_pver (mupd (c_pver s) m n) s)) v).
  { intros v Hv c Hc. assert (c <> CPay m) by (intros E; subst c; simpl in Hc; contradiction).
    rewrite Hver by assumption. apply Hv. exact Hc. }
  assert (Hupd : forall c, c <> CPay m -> vget (vupd (t_view x) (CPay m) n) c = vget (t_view x) c).
  { intros c Hc. rewrite vget_vupd. destruct (pcell_eqb_spec c (CPay m)); [contradiction|reflexivity]. }
  assert (Hupdm : vget (vupd (t_view x) (CPay m) n) (CPay m) = n).
  { rewrite vget_vupd, pcell_eqb_refl. pose proof (Vt t (CPay m)) as B. simpl in B. fold x in B. unfold n. lia. }
  assert (Hlet : le_ver (w_pay (mupd (c_pay s) m (tag m + 1000)) (w_pver (mupd (c_pver s) m n) s)) (vupd (t_view x) (CPay m) n)).
  { intros c. destruct (pcell_eqb_spec c (CPay m)) as [E|E].
    - subst c. rewrite Hupdm. rewrite Hverm. lia.
    - rewrite Hupd by exact E. rewrite Hver by exact E. apply Vt. }
  assert (Hcovt : cov_all s (t_view x) -> cov_all (w_pay (mupd (c_pay s) m (tag m + 1000)) (w_pver (mupd (c_pver s) m n) s)) (vupd (t_view x) (CPay m) n)).
  { intros Hv c Hc. assert (c <> CPay m) by (intros E; subst c; simpl in Hc; contradiction).
    rewrite Hupd by assumption. rewrite Hver by assumption. apply Hv. exact Hc. }
  assert (Hcb : forall v i, cov_but s v i -> cov_but (w_pay (mupd (c_pay s) m (tag m + 1000)) (w_pver (mupd (c_pver s) m n) s)) v i).
  { intros v i Hv c Hc Hne. assert (c <> CPay m) by (intros E; subst c; simpl in Hc; contradiction).
    rewrite Hver by assumption. apply Hv; assumption. }
  constructor.
  - intros a. simpl. unfold upd. destruct (Nat.eqb_spec a t); [exact Hlet|apply Hle; apply Vt].
  - apply Hle; exact Vw.
  - apply Hle; exact Vr.
  - apply Hle; exact Vl.
  - apply Hle; exact Vm.
  - intros a Ha. unfold serial in Ha. simpl in Ha |- *. unfold upd in *. destruct (Nat.eqb_spec a t).
    + subst a. simpl in *. apply Hcovt. apply (Vs t). destruct Ha as [Ha|Ha]; [discriminate Ha|right; exact Ha].
    + apply Hcov. apply Vs. exact Ha.
  - intros Hk Hl. apply Hcov. apply Vls; assumption.
  - apply Hcb. exact Vws.
  - intros a Ha. simpl in *. unfold upd in *. destruct (Nat.eqb_spec a t).
    + subst a. simpl. fold x. fold m. rewrite Hupdm. unfold mupd. destruct (msg_eqb_spec m m); [reflexivity|contradiction].
    + unfold mupd. destruct (msg_eqb_spec (a, t_seq (c_thr s a)) m) as [E|E]; [inversion E; contradiction|].
      apply Vo. exact Ha.
  - intros m' Hm'. simpl in *. unfold upd. destruct (Nat.eqb_spec (fst m') t) as [E|E]; [|apply Vf; exact Hm'].
    simpl. left. destruct (Vf m' Hm') as [A|[A B]]; rewrite E in *; [exact A|]. fold x in B. unfold x in B. rewrite Epc in B. discriminate.
  - intros a Ha. simpl in Ha. unfold upd in Ha. destruct (Nat.eqb_spec a t); [simpl in Ha; discriminate|eapply Vmo; exact Ha].
  - simpl. unfold upd. destruct (Nat.eqb_spec 0%nat t) as [E|E]; [lia|].
    unfold rknow in *. simpl.
    assert (Hd : forall m', (In m' (c_acc s) \/ m' = dmsg) -> mupd (c_pver s) m n m' = c_pver s m').
    { intros m' Hm'. unfold mupd. destruct (msg_eqb_spec m' m) as [E2|E2]; [|reflexivity].
      subst m'. destruct Hm' as [Hm'|Hm']; [contradiction|]. unfold m, dmsg in Hm'. inversion Hm'. lia. }
    destruct (t_pc (c_thr s 0%nat)); try exact Logic.I.
    + intros Hne. destruct (Vrk Hne) as [A B]. split; [exact A|].
      rewrite Hd; [exact B|]. destruct (nth_in_or_default (c_R s) (c_acc s) dmsg); [left|right]; assumption.
    + destruct (t_d (c_thr s 0%nat)) as [m'|]; [|exact Logic.I]. destruct Vrk as [A B]. split; [exact A|].
      rewrite Hd; [exact B|left; exact A].
    + destruct (t_d (c_thr s 0%nat)) as [m'|]; [|exact Logic.I]. destruct Vrk as [A B]. split; [exact A|].
      rewrite Hd; [exact B|left; exact A].
  - exact Vu.
Qed.

(* K2: the lock holder stores a message pointer into the slot at write_cursor *)
Lemma vinv_slot_write g s t m : cfg_ok g -> SInv g s -> VInv g s ->
  hold (t_pc (c_thr s t)) = true -> VInv g (slot_write t m s).
Proof.
  intros Hg I V Hh. pose proof V as V0.
  destruct V as [Vt Vw Vr Vl Vm Vs Vls Vws Vo Vf Vmo Vrk Vu].
  set (i := c_wcur s). set (n := S (c_sver s i)). set (x := c_thr s t).
  set (s1 := w_overw (if c_live s i then S (c_overw s) else c_overw s)
             (w_prev (zupd (c_prev s) i (c_slot s i)) (w_slot (zupd (c_slot s) i (Some m)) (w_sver (zupd (c_sver s) i n) s)))).
  assert (Hver : forall c, c <> CSlot i -> ver s1 c = ver s c).
  { intros c Hc. destruct c as [j|m']; simpl; [|reflexivity]. unfold zupd.
    destruct (Z.eqb_spec j i); [subst; contradiction|reflexivity]. }
  assert (Hveri : ver s1 (CSlot i) = n).
  { simpl. unfold zupd. now rewrite Z.eqb_refl. }
  assert (Hle : forall v, le_ver s v -> le_ver s1 v).
  { intros v Hv c. destruct (pcell_eqb_spec c (CSlot i)) as [E|E].
    - subst c. rewrite Hveri. specialize (Hv (CSlot i)). simpl in Hv. unfold n. lia.
    - rewrite Hver by exact E. apply Hv. }
  assert (Hupd : forall c, c <> CSlot i -> vget (vupd (t_view x) (CSlot i) n) c = vget (t_view x) c).
  { intros c Hc. rewrite vget_vupd. destruct (pcell_eqb_spec c (CSlot i)); [contradiction|reflexivity]. }
  assert (Hupdi : vget (vupd (t_view x) (CSlot i) n) (CSlot i) = n).
  { rewrite vget_vupd, pcell_eqb_refl. pose proof (Vt t (CSlot i)) as B. simpl in B. fold x in B. unfold n. lia. }
  assert (Hlet : le_ver s1 (vupd (t_view x) (CSlot i) n)).
  { intros c. destruct (pcell_eqb_spec c (CSlot i)) as [E|E].
    - subst c. rewrite Hupdi, Hveri. lia.
    - rewrite Hupd by exact E. rewrite Hver by exact E. apply Vt. }
  assert (Hcovt : cov_all s1 (vupd (t_view x) (CSlot i) n)).
  { intros c Hc. destruct (pcell_eqb_spec c (CSlot i)) as [E|E].
    - subst c. rewrite Hupdi, Hveri. reflexivity.
    - rewrite Hupd by exact E. rewrite Hver by exact E. apply (Vs t); [left; exact Hh|exact Hc]. }
  assert (Hnl : g_wk g <> WSingle -> c_lock s <> 0).
  { intros Hk Hl. rewrite (i_free _ _ I Hk Hl t) in Hh. discriminate. }
  unfold slot_write. fold i. fold n. fold x.
  constructor.
  - intros a. simpl. unfold upd. destruct (Nat.eqb_spec a t); [exact Hlet|apply Hle; apply Vt].
  - apply Hle; exact Vw.
  - apply Hle; exact Vr.
  - apply Hle; exact Vl.
  - apply Hle; exact Vm.
  - intros a Ha. unfold serial in Ha. simpl in Ha |- *. unfold upd in *. destruct (Nat.eqb_spec a t).
    + exact Hcovt.
    + exfalso. apply n0. apply (serial_unique g s t a Hg I Hh). exact Ha.
  - intros Hk Hl. exfalso. apply (Hnl Hk). exact Hl.
  - intros c Hc Hne. simpl in Hne. fold i in Hne. change (vget (c_wst s) c = ver s1 c).
    rewrite Hver by exact Hne. apply Vws; assumption.
  - intros a Ha. simpl in *. unfold upd in *. destruct (Nat.eqb_spec a t).
    + subst a. simpl. fold x. rewrite Hupd by discriminate. apply Vo. exact Ha.
    + apply Vo. exact Ha.
  - intros m' Hm'. simpl in *. unfold upd. destruct (Nat.eqb_spec (fst m') t) as [E|E]; [|apply Vf; exact Hm'].
    simpl. specialize (Vf m' Hm'). rewrite E in Vf. exact Vf.
  - intros a Ha. simpl in Ha. unfold upd in Ha. destruct (Nat.eqb_spec a t); [subst a; simpl in Ha|]; eapply Vmo; exact Ha.
  - simpl. unfold upd. destruct (Nat.eqb_spec 0%nat t) as [E|E].
    + exfalso. pose proof (hold_tid g s t I Hh). lia.
    + unfold rknow in *. simpl.
      destruct (t_pc (c_thr s 0%nat)) eqn:E0; try exact Logic.I; try exact Vrk.
      intros Hne. destruct (Vrk Hne) as [A B]. split; [|exact B].
      pose proof (i_know _ _ I 0%nat) as K. unfold know in K. rewrite E0 in K. destruct K as [K1 K2]. specialize (K2 Hne).
      unfold zupd. destruct (Z.eqb_spec (t_r (c_thr s 0%nat)) i) as [E2|E2]; [|exact A].
      exfalso. apply (far_slot g s Hg I (c_R s)); [unfold Wz, Rz in K2; lia|]. fold (Rz s). rewrite <- K1. exact E2.
  - exact Vu.
Qed.

(* K3: publication with a release store: the stamp of write_cursor becomes the holder's view *)
Lemma vinv_publish g s t a : cfg_ok g -> SInv g s -> VInv g s ->
  t_pc (c_thr s t) = WPub a ->
  let x := c_thr s t in
  let m := (t, t_seq x) in
  VInv g (put_thr t (set_pc x (WUnlock true))
            (w_wcur (t_w x) (w_acc (c_acc s ++ [m]) (w_live (zupd (c_live s) (c_wcur s) true) (w_wst (t_view x) s))))).
Proof.
  intros Hg I V Epc x m. pose proof V as V0.
  destruct V as [Vt Vw Vr Vl Vm Vs Vls Vws Vo Vf Vmo Vrk Vu].
  assert (Hh : hold (t_pc (c_thr s t)) = true) by (rewrite Epc; reflexivity).
  assert (Hnl : g_wk g <> WSingle -> c_lock s <> 0).
  { intros Hk Hl. rewrite (i_free _ _ I Hk Hl t) in Hh. discriminate. }
  assert (Hcovt : forall c, (wcell s c \/ c = CPay m) -> vget (t_view x) c = ver s c).
  { intros c [Hc|Hc]; [apply (Vs t); [left; exact Hh|exact Hc]|]. subst c. simpl. apply Vo. rewrite Epc. reflexivity. }
  assert (Hw' : forall c, match c with CSlot _ => True | CPay m' => In m' (c_acc s ++ [m]) end -> wcell s c \/ c = CPay m).
  { intros c. destruct c as [j|m']; simpl; [auto|]. intros Hin. apply in_app_or in Hin.
    destruct Hin as [Hin|[Hin|[]]]; [left; exact Hin|right; congruence]. }
  constructor; vunf; simpl.
  - intros b. unfold upd. destruct (Nat.eqb_spec b t); [apply Vt|apply Vt].
  - apply Vt.
  - exact Vr.
  - exact Vl.
  - exact Vm.
  - intros b Hb c Hc. unfold upd in *. destruct (Nat.eqb_spec b t).
    + simpl. apply Hcovt. apply Hw'. exact Hc.
    + exfalso. apply n. apply (serial_unique g s t b Hg I Hh). exact Hb.
  - intros Hk Hl. exfalso. apply (Hnl Hk). exact Hl.
  - intros c Hc _. apply Hcovt. apply Hw'. exact Hc.
  - intros b Hb. unfold upd in *. destruct (Nat.eqb_spec b t); [subst b; simpl in *; apply Vo; rewrite Epc; reflexivity|apply Vo; exact Hb].
  - intros m' Hm'. apply in_app_or in Hm'. unfold upd.
    destruct Hm' as [Hm'|[Hm'|[]]].
    + destruct (Nat.eqb_spec (fst m') t) as [E|E]; [|apply Vf; exact Hm'].
      simpl. left. destruct (Vf m' Hm') as [A|[A B]]; rewrite E in *; [exact A|]. rewrite Epc in B. discriminate.
    + subst m'. simpl. rewrite Nat.eqb_refl. simpl. right. split; reflexivity.
  - intros b Hb. unfold upd in Hb. destruct (Nat.eqb_spec b t); [simpl in Hb; discriminate|eapply Vmo; exact Hb].
  - unfold upd. destruct (Nat.eqb_spec 0%nat t) as [E|E].
    + exfalso. pose proof (hold_tid g s t I Hh). lia.
    + destruct (t_pc (c_thr s 0%nat)) eqn:E0; try exact Logic.I.
      * intros Hne. destruct (Vrk Hne) as [A B]. split; [exact A|].
        pose proof (i_know _ _ I 0%nat) as K. unfold know in K. rewrite E0 in K. destruct K as [K1 K2]. specialize (K2 Hne).
        unfold Wz, Rz in K2. rewrite app_nth1 by lia. exact B.
      * destruct (t_d (c_thr s 0%nat)) as [m'|]; [|exact Logic.I]. destruct Vrk as [A B]. split; [apply in_or_app; left; exact A|exact B].
      * destruct (t_d (c_thr s 0%nat)) as [m'|]; [|exact Logic.I]. destruct Vrk as [A B]. split; [apply in_or_app; left; exact A|exact B].
  - exact Vu.
Qed.

(* K4 / failed attempts: a lock operation that leaves the lock word at 1 *)
Lemma vinv_lock1 g s t mo p' st' : cfg_ok g -> SInv g s -> VInv g s ->
  le_ver s st' ->
  (hold p' = true -> c_lock s = 0 /\ g_wk g <> WSingle /\ is_acq mo = true) ->
  hold (t_pc (c_thr s t)) = false ->
  own_pc p' = true -> own_pc (t_pc (c_thr s t)) = true ->
  after_pub p' = false -> after_pub (t_pc (c_thr s t)) = false -> mutex_pc p' = false ->
  is_reader_pc p' = false ->
  g_wk g <> WSingle ->
  let x := c_thr s t in
  VInv g (put_thr t (set_pc (set_view x (acq_join mo (t_view x) (c_lst s))) p') (w_lock 1 (w_lst st' s))).
Proof.
  intros Hg I V Hst Hacq Hnh Ho' Ho Ha' Ha Hm' Hrd Hk x. pose proof V as V0.
  destruct V as [Vt Vw Vr Vl Vm Vs Vls Vws Vo Vf Vmo Vrk Vu].
  assert (Hmono : forall c, (vget (t_view x) c <= vget (acq_join mo (t_view x) (c_lst s)) c <= ver s c)%nat).
  { intros c. rewrite vget_acq. pose proof (Vt t c). pose proof (Vl c). fold x in H. destruct (is_acq mo); lia. }
  constructor; vunf; simpl.
  - intros b. unfold upd. destruct (Nat.eqb_spec b t); [intros c; apply Hmono|apply Vt].
  - exact Vw.
  - exact Vr.
  - exact Hst.
  - exact Vm.
  - intros b Hb c Hc. unfold upd in *. destruct (Nat.eqb_spec b t).
    + simpl in *. destruct Hb as [Hb|[Hb _]]; [|contradiction].
      destruct (Hacq Hb) as (L0 & _ & Hq). rewrite vget_acq, Hq.
      pose proof (Vls Hk L0 c Hc). pose proof (Vt t c). fold x in H0. lia.
    + apply Vs; assumption.
  - intros _ Hl. discriminate Hl.
  - exact Vws.
  - intros b Hb. unfold upd in *. destruct (Nat.eqb_spec b t); [|apply Vo; exact Hb].
    subst b. simpl. pose proof (Vo t Ho) as E. fold x in E.
    pose proof (Hmono (CPay (t, t_seq x))) as B. simpl in B. lia.
  - intros m' Hin. unfold upd. destruct (Nat.eqb_spec (fst m') t) as [E|E]; [|apply Vf; exact Hin].
    simpl. left. destruct (Vf m' Hin) as [A|[A B]]; rewrite E in *; [exact A|]. rewrite Ha in B. discriminate.
  - intros b Hb. unfold upd in Hb. destruct (Nat.eqb_spec b t); [simpl in Hb; congruence|eapply Vmo; exact Hb].
  - unfold upd. destruct (Nat.eqb_spec 0%nat t) as [E|E]; [|exact Vrk].
    simpl. destruct p'; simpl in Hrd; try discriminate; exact Logic.I.
  - exact Vu.
Qed.

(* K5: release of the writer lock: the lock stamp becomes the holder's view *)
Lemma vinv_unlock g s t p' st' : cfg_ok g -> SInv g s -> VInv g s ->
  hold (t_pc (c_thr s t)) = true -> hold p' = false ->
  (forall c, vget st' c = vget (t_view (c_thr s t)) c) ->
  own_pc p' = true -> own_pc (t_pc (c_thr s t)) = true ->
  (after_pub (t_pc (c_thr s t)) = true -> after_pub p' = true) -> mutex_pc p' = false ->
  g_wk g <> WSingle ->
  VInv g (put_thr t (set_pc (c_thr s t) p') (w_lock 0 (w_lst st' s))).
Proof.
  intros Hg I V Hh Hh' Hst Ho' Ho Ha Hm' Hk. pose proof V as V0.
  destruct V as [Vt Vw Vr Vl Vm Vs Vls Vws Vo Vf Vmo Vrk Vu].
  constructor; vunf; simpl.
  - intros b. unfold upd. destruct (Nat.eqb_spec b t); apply Vt.
  - exact Vw.
  - exact Vr.
  - intros c. rewrite Hst. apply Vt.
  - exact Vm.
  - intros b Hb c Hc. unfold upd in *. destruct (Nat.eqb_spec b t).
    + simpl in *. destruct Hb as [Hb|[Hb _]]; [congruence|contradiction].
    + apply Vs; assumption.
  - intros _ _ c Hc. rewrite Hst. apply (Vs t); [left; exact Hh|exact Hc].
  - exact Vws.
  - intros b Hb. unfold upd in *. destruct (Nat.eqb_spec b t); [subst b; simpl; apply Vo; exact Ho|apply Vo; exact Hb].
  - intros m' Hin. unfold upd. destruct (Nat.eqb_spec (fst m') t) as [E|E]; [|apply Vf; exact Hin].
    simpl. destruct (Vf m' Hin) as [A|[A B]]; rewrite E in *; [left; exact A|right; split; [exact A|apply Ha; exact B]].
  - intros b Hb. unfold upd in Hb. destruct (Nat.eqb_spec b t); [simpl in Hb; congruence|eapply Vmo; exact Hb].
  - unfold upd. destruct (Nat.eqb_spec 0%nat t) as [E|E]; [|exact Vrk].
    exfalso. pose proof (hold_tid g s t I Hh). lia.
  - exact Vu.
Qed.

(* ---------------- every small step preserves the visibility invariant ---------------- *)
Ltac v_hold Epc := unfold serial; rewrite ?Epc; simpl; intros; first [discriminate | left; rewrite ?Epc; reflexivity | (right; split; assumption)].
Ltac v_bool Epc := rewrite ?Epc; simpl; intros; first [reflexivity | discriminate | assumption].
Ltac v_mode Epc := rewrite ?Epc; simpl; intros; first [discriminate | left; reflexivity].
Ltac v_rk := intros ?; unfold rknow; simpl; try exact Logic.I.
(* only the program counter changes *)
Ltac vsetpc V Epc := apply vinv_setpc; [exact V | v_hold Epc | v_bool Epc | v_bool Epc | v_mode Epc | v_rk].
(* registers change, view and sequence number do not *)
Ltac vmono V Epc t :=
  apply vinv_thr_mono; [exact V | intros c0; simpl; split; [lia|apply (v_le_thr _ _ V t c0)] | reflexivity
                       | simpl; v_hold Epc | simpl; v_bool Epc | simpl; v_bool Epc | simpl; v_mode Epc | v_rk].

Lemma role_writer_tid g s t : SInv g s -> is_reader_pc (t_pc (c_thr s t)) = false -> t_pc (c_thr s t) <> WDone ->
  (1 <= t <= g_nw g)%nat.
Proof. intros I A B. exact (role_not0 g t _ (i_role _ _ I t) A B). Qed.

Lemma cmicro_vinv g s t ch s' ns : cfg_ok g -> g_rm g <> RMutex -> SInv g s -> VInv g s ->
  cmicro g s t ch = Some (s', ns) -> VInv g s'.
Proof.
  intros Hg Hnm I V Hs. pose proof Hg as [Hc Hsg].
  unfold cmicro in Hs.
  destruct (t_pc (c_thr s t)) eqn:Epc; try discriminate Hs;
    try (exfalso; apply Hnm; apply (v_mode _ _ V t); rewrite Epc; reflexivity).
  - (* W0 *)
    destruct (t_todo (c_thr s t)); inv_some Hs.
    + vsetpc V Epc.
    + apply vinv_payload; assumption.
  - (* WCall *)
    assert (Ht : (1 <= t <= g_nw g)%nat) by (apply (role_writer_tid g s t I); rewrite Epc; [reflexivity|discriminate]).
    inv_some Hs. destruct (g_wk g) eqn:Ek; vsetpc V Epc.
  - inv_some Hs. vsetpc V Epc.
  - inv_some Hs. vsetpc V Epc.
  - inv_some Hs. vsetpc V Epc.
  - (* WBody *)
    destruct (g_rm g) eqn:Erm; [| exfalso; apply Hnm; reflexivity |].
    + inv_some Hs. vsetpc V Epc.
    + destruct (Z.eqb_spec (wnext g s) (c_cached s)) as [Ef|Ef]; inv_some Hs.
      * vmono V Epc t.
      * assert (V1 : VInv g (slot_write t (t, t_seq (c_thr s t)) s)).
        { apply vinv_slot_write; try assumption. rewrite Epc; reflexivity. }
        set (s1 := slot_write t (t, t_seq (c_thr s t)) s) in *.
        assert (Et : c_thr s1 t = set_view (c_thr s t) (vupd (t_view (c_thr s t)) (CSlot (c_wcur s)) (S (c_sver s (c_wcur s))))).
        { unfold s1, slot_write, put_thr; simpl. apply upd_same. }
        rewrite upd_same.
        apply vinv_thr_mono; [exact V1 | rewrite Et; intros c0; simpl; split; [lia|] | rewrite Et; reflexivity
                             | unfold serial; rewrite Et; simpl; v_hold Epc | rewrite Et; simpl; v_bool Epc | rewrite Et; simpl; v_bool Epc
                             | simpl; v_mode Epc | v_rk].
        pose proof (v_le_thr _ _ V1 t c0) as B. rewrite Et in B. exact B.
  - (* WChk *)
    destruct (g_rm g) eqn:Erm; [| discriminate Hs |].
    + destruct (Z.eqb_spec (wnext g s) (t_r (c_thr s t))) as [Ef|Ef]; inv_some Hs.
      * apply vinv_thr_mono; [unfold full_check; vframe V | intros c0; simpl; split; [lia|apply (v_le_thr _ _ V t c0)] | reflexivity
                             | simpl; v_hold Epc | simpl; v_bool Epc | simpl; v_bool Epc | simpl; v_mode Epc | v_rk].
      * assert (V1 : VInv g (slot_write t (t, t_seq (c_thr s t)) s)).
        { apply vinv_slot_write; try assumption. rewrite Epc; reflexivity. }
        set (s1 := slot_write t (t, t_seq (c_thr s t)) s) in *.
        assert (Et : c_thr s1 t = set_view (c_thr s t) (vupd (t_view (c_thr s t)) (CSlot (c_wcur s)) (S (c_sver s (c_wcur s))))).
        { unfold s1, slot_write, put_thr; simpl. apply upd_same. }
        rewrite upd_same.
        apply vinv_thr_mono; [exact V1 | rewrite Et; intros c0; simpl; split; [lia|] | rewrite Et; reflexivity
                             | unfold serial; rewrite Et; simpl; v_hold Epc | rewrite Et; simpl; v_bool Epc | rewrite Et; simpl; v_bool Epc
                             | simpl; v_mode Epc | v_rk].
        pose proof (v_le_thr _ _ V1 t c0) as B. rewrite Et in B. exact B.
    + assert (V0 : VInv g (w_cached (t_r (c_thr s t)) (w_cR (t_gR (c_thr s t)) s))) by vframe V.
      assert (I0 : SInv g (w_cached (t_r (c_thr s t)) (w_cR (t_gR (c_thr s t)) s))).
      { pose proof (i_know _ _ I t) as Kt. unfold know in Kt. rewrite Epc in Kt. destruct Kt as (K1 & K2 & K3 & K4 & K5).
        apply (sinv_cached g s t); [exact I|exact Epc|exact K3|exact K2|exact K4]. }
      destruct (Z.eqb_spec (t_w (c_thr s t)) (t_r (c_thr s t))) as [Ef|Ef]; inv_some Hs.
      * apply vinv_thr_mono; [unfold full_check; vframe V0 | intros c0; simpl; split; [lia|apply (v_le_thr _ _ V t c0)] | reflexivity
                             | simpl; v_hold Epc | simpl; v_bool Epc | simpl; v_bool Epc | simpl; v_mode Epc | v_rk].
      * set (s0 := w_cached (t_r (c_thr s t)) (w_cR (t_gR (c_thr s t)) s)) in *.
        assert (V1 : VInv g (slot_write t (t, t_seq (c_thr s t)) s0)).
        { apply vinv_slot_write; try assumption. simpl. rewrite Epc; reflexivity. }
        set (s1 := slot_write t (t, t_seq (c_thr s t)) s0) in *.
        assert (Et : c_thr s1 t = set_view (c_thr s t) (vupd (t_view (c_thr s t)) (CSlot (c_wcur s)) (S (c_sver s (c_wcur s))))).
        { unfold s1, slot_write, put_thr; simpl. apply upd_same. }
        rewrite upd_same.
        apply vinv_thr_mono; [exact V1 | rewrite Et; intros c0; simpl; split; [lia|] | rewrite Et; reflexivity
                             | unfold serial; rewrite Et; simpl; v_hold Epc | rewrite Et; simpl; v_bool Epc | rewrite Et; simpl; v_bool Epc
                             | simpl; v_mode Epc | v_rk].
        pose proof (v_le_thr _ _ V1 t c0) as B. rewrite Et in B. exact B.
  - (* WUnlock *)
    inv_some Hs. destruct (g_wk g) eqn:Ek; vsetpc V Epc.
  - inv_some Hs. vsetpc V Epc.
  - (* WAfterUnlock *)
    inv_some Hs. destruct ok; [destruct (g_rm g) eqn:Erm; [|exfalso; apply Hnm; reflexivity|]|]; vsetpc V Epc.
  - (* WRet *)
    assert (Hfr : forall m, In m (c_acc s) -> fst m = t -> (snd m < S (t_seq (c_thr s t)))%nat).
    { intros m Hm E. destruct (v_fresh _ _ V m Hm) as [A|[A B]]; rewrite E in *; lia. }
    assert (Hser : forall p', hold p' = false ->
              (hold p' = true \/ g_wk g = WSingle /\ (1 <= t <= g_nw g)%nat) -> cov_all s (t_view (c_thr s t))).
    { intros p' Hp [H|H]; [congruence|]. apply (v_serial _ _ V t). right; exact H. }
    destruct ok.
    + inv_some Hs. apply vinv_thr; [exact V|apply (v_le_thr _ _ V t)|simpl; apply (Hser W0); reflexivity
                                   |simpl; intros; discriminate|simpl; intros m Hm E; left; apply Hfr; assumption
                                   |simpl; intros; discriminate|v_rk].
    + destruct (negb (Nat.eqb (g_maxtry g) 0) && Nat.leb (g_maxtry g) (S (t_tries (c_thr s t)))); inv_some Hs.
      * apply vinv_thr; [exact V|apply (v_le_thr _ _ V t)|simpl; apply (Hser W0); reflexivity
                        |simpl; intros; discriminate|simpl; intros m Hm E; left; apply Hfr; assumption
                        |simpl; intros; discriminate|v_rk].
      * apply vinv_thr; [exact V|apply (v_le_thr _ _ V t)|simpl; apply (Hser WRetry); reflexivity
                        |simpl; intros _; apply (v_own _ _ V t); rewrite Epc; reflexivity
                        | |simpl; intros; discriminate|v_rk].
        simpl. intros m Hm E. left. destruct (v_fresh _ _ V m Hm) as [A|[A B]]; rewrite E in *; [exact A|].
        rewrite Epc in B. discriminate.
  - (* R0 *)
    destruct (t_todo (c_thr s t)); [inv_some Hs; vsetpc V Epc|].
    destruct (g_rm g) eqn:Erm; [| exfalso; apply Hnm; reflexivity |]; inv_some Hs; vmono V Epc t.
  - (* RChk *)
    assert (t = 0%nat).
    { pose proof (i_role _ _ I t) as Rt. rewrite Epc in Rt. exact Rt. } subst t.
    destruct (Z.eqb_spec (t_w (c_thr s 0%nat)) (t_r (c_thr s 0%nat))) as [Ef|Ef].
    + destruct (g_rm g) eqn:Erm; [| discriminate Hs |]; inv_some Hs; vsetpc V Epc.
    + pose proof (v_rknow _ _ V) as K. unfold rknow in K. rewrite Epc in K. destruct (K Ef) as [K1 K2].
      pose proof (i_know _ _ I 0%nat) as KS. unfold know in KS. rewrite Epc in KS. destruct KS as [S1 S2]. specialize (S2 Ef).
      unfold slot_read in Hs. rewrite K1, Nat.eqb_refl in Hs. inv_some Hs.
      assert (V1 : VInv g (w_del (c_del s ++ [c_slot s (t_r (c_thr s 0%nat))])
                (w_live (zupd (c_live s) (t_r (c_thr s 0%nat)) false) (w_uncov (c_uncov s) s)))) by vframe V.
      apply vinv_thr; [exact V1|apply (v_le_thr _ _ V 0%nat)| | | | |].
      * simpl. intros [H|[_ H]]; [discriminate H|lia].
      * simpl. intros; discriminate.
      * simpl. intros m Hm E. specialize (v_fresh _ _ V m Hm). rewrite E, Epc. simpl. intros [A|[A B]]; [left; exact A|discriminate B].
      * simpl. intros; discriminate.
      * intros _. unfold rknow; simpl.
        unfold Wz, Rz in *. rewrite S1. rewrite (i_slots _ _ I (c_R s)) by lia.
        split; [apply nth_In; lia|exact K2].
  - (* RLoop *)
    inv_some Hs. vsetpc V Epc.
  - (* RRet *)
    assert (t = 0%nat).
    { pose proof (i_role _ _ I t) as Rt. rewrite Epc in Rt. exact Rt. } subst t.
    pose proof (v_rknow _ _ V) as K. unfold rknow in K. rewrite Epc in K.
    inv_some Hs.
    assert (Hcov : (match t_d (c_thr s 0%nat) with
                    | Some m' => Nat.eqb (vget (t_view (c_thr s 0%nat)) (CPay m')) (c_pver s m') | None => true end) = true).
    { destruct (t_d (c_thr s 0%nat)); [|reflexivity]. destruct K as [_ K]. rewrite K. apply Nat.eqb_refl. }
    rewrite Hcov.
    assert (V1 : VInv g (w_uncov (c_uncov s) s)) by vframe V.
    apply vinv_thr; [exact V1|apply (v_le_thr _ _ V 0%nat)| | | | |v_rk].
    + simpl. intros [H|[_ H]]; [discriminate H|lia].
    + simpl. intros; discriminate.
    + simpl. intros m Hm E. specialize (v_fresh _ _ V m Hm). rewrite E, Epc. simpl. intros [A|[A B]]; [left; lia|discriminate B].
    + simpl. intros; discriminate.
Qed.

Lemma rel_stamp_rel mo v : is_rel mo = true -> rel_stamp mo v = v.
Proof. unfold rel_stamp. now intros ->. Qed.

Lemma cop_vinv P g s t ch s' l : cfg_ok g -> g_rm g <> RMutex ->
  chan_mo_ok P (g_rm g) = true -> lock_mo_ok P (g_wk g) = true ->
  SInv g s -> VInv g s -> cop P g s t ch = Some (s', l) -> VInv g s'.
Proof.
  intros Hg Hnm Hcm Hlm I V Hs. pose proof Hg as [Hc Hsg].
  unfold cop in Hs.
  destruct (t_pc (c_thr s t)) eqn:Epc; try discriminate Hs;
    try (exfalso; apply Hnm; apply (v_mode _ _ V t); rewrite Epc; reflexivity).
  - (* WLockOp *)
    assert (Hnh : hold (t_pc (c_thr s t)) = false) by (rewrite Epc; reflexivity).
    assert (Ho : own_pc (t_pc (c_thr s t)) = true) by (rewrite Epc; reflexivity).
    assert (Ha : after_pub (t_pc (c_thr s t)) = false) by (rewrite Epc; reflexivity).
    destruct (g_wk g) eqn:Ek; try discriminate Hs.
    + (* mutex *)
      destruct (Z.eqb_spec (c_lock s) 0) as [L0|L0]; [|discriminate Hs]. inv_some Hs.
      apply (vinv_lock1 g s t SeqCst WBody (c_lst s)); try assumption; try reflexivity.
      * apply (v_le_lst _ _ V).
      * intros _. repeat split; [exact L0|rewrite Ek; discriminate].
      * rewrite Ek; discriminate.
    + (* sync *)
      unfold lock_mo_ok in Hlm. rewrite ?Ek in Hlm. apply andb_prop in Hlm as [Hq Hr].
      destruct (Z.eqb_spec (c_lock s) 0) as [L0|L0].
      * destruct (Nat.eqb ch 1); inv_some Hs.
        -- vsetpc V Epc.
        -- apply (vinv_lock1 g s t (mo_sync_cas P) WBody); try assumption; try reflexivity.
           ++ intros c. rewrite vget_rmw. pose proof (v_le_lst _ _ V c). pose proof (v_le_thr _ _ V t c).
              destruct (is_rel (mo_sync_cas P)); lia.
           ++ intros _. repeat split; [exact L0|rewrite Ek; discriminate|exact Hq].
           ++ rewrite Ek; discriminate.
      * inv_some Hs. vsetpc V Epc.
    + (* spin *)
      unfold lock_mo_ok in Hlm. rewrite ?Ek in Hlm. apply andb_prop in Hlm as [Hq Hr].
      inv_some Hs.
      assert (Hst : le_ver s (rmw_stamp (mo_spin_tas P) (t_view (c_thr s t)) (c_lst s))).
      { intros c. rewrite vget_rmw. pose proof (v_le_lst _ _ V c). pose proof (v_le_thr _ _ V t c).
        destruct (is_rel (mo_spin_tas P)); lia. }
      destruct (Z.eqb_spec (c_lock s) 0) as [L0|L0].
      * apply (vinv_lock1 g s t (mo_spin_tas P) WBody); try assumption; try reflexivity.
        -- intros _. repeat split; [exact L0|rewrite Ek; discriminate|exact Hq].
        -- rewrite Ek; discriminate.
      * apply (vinv_lock1 g s t (mo_spin_tas P) WSpinF); try assumption; try reflexivity.
        -- simpl. intros; discriminate.
        -- rewrite Ek; discriminate.
  - inv_some Hs. vsetpc V Epc.
  - (* WFwait *)
    destruct (c_lock s =? 1); [destruct (Nat.eqb ch 2); [|destruct (Nat.eqb ch 3)]|]; inv_some Hs; vsetpc V Epc.
  - (* WLoadR *)
    inv_some Hs.
    apply vinv_thr_mono; [exact V | | reflexivity | simpl; v_hold Epc | simpl; v_bool Epc | simpl; v_bool Epc | simpl; v_mode Epc | v_rk].
    intros c0. simpl. rewrite vget_acq. pose proof (v_le_thr _ _ V t c0). pose proof (v_le_rst _ _ V c0).
    destruct (is_acq _); lia.
  - (* WPub *)
    assert (Hrel : is_rel (match g_rm g with RSync => mo_ws_store P | _ => if after_load then mo_wb_store2 P else mo_wb_store1 P end) = true).
    { unfold chan_mo_ok in Hcm. destruct (g_rm g); [apply andb_prop in Hcm as [A _]; exact A|exfalso; apply Hnm; reflexivity|].
      apply andb_prop in Hcm as [A _]. apply andb_prop in A as [A1 A2]. destruct after_load; assumption. }
    inv_some Hs. rewrite (rel_stamp_rel _ _ Hrel).
    apply (vinv_publish g s t after_load); assumption.
  - (* WUnlockOp *)
    assert (Hh : hold (t_pc (c_thr s t)) = true) by (rewrite Epc; reflexivity).
    assert (Ho : own_pc (t_pc (c_thr s t)) = true) by (rewrite Epc; reflexivity).
    destruct (g_wk g) eqn:Ek; try discriminate Hs; inv_some Hs.
    + apply vinv_unlock; try assumption; try reflexivity.
      * rewrite Epc. destruct ok; simpl; intros; [reflexivity|discriminate].
      * rewrite Ek; discriminate.
    + unfold lock_mo_ok in Hlm. rewrite ?Ek in Hlm. apply andb_prop in Hlm as [Hq Hr].
      apply vinv_unlock; try assumption; try reflexivity.
      * intros c. rewrite vget_rel, Hr. reflexivity.
      * rewrite Epc. destruct ok; simpl; intros; [reflexivity|discriminate].
      * rewrite Ek; discriminate.
    + unfold lock_mo_ok in Hlm. rewrite ?Ek in Hlm. apply andb_prop in Hlm as [Hq Hr].
      apply vinv_unlock; try assumption; try reflexivity.
      * intros c. rewrite vget_rel, Hr. reflexivity.
      * rewrite Epc. destruct ok; simpl; intros; [reflexivity|discriminate].
      * rewrite Ek; discriminate.
  - (* WSyncWake *)
    destruct (first_blocked (c_thr s) (S (g_nw g))) as [u|] eqn:Ef.
    + pose proof (first_blocked_spec _ _ _ Ef) as Hu. inv_some Hs.
      assert (Hne : t <> u) by (intros E; subst u; rewrite Epc in Hu; discriminate Hu).
      assert (V1 : VInv g (put_thr u (set_pc (c_thr s u) WRelock) s)) by vsetpc V Hu.
      rewrite upd_other by exact Hne.
      assert (E1 : c_thr (put_thr u (set_pc (c_thr s u) WRelock) s) t = c_thr s t).
      { simpl. apply upd_other. exact Hne. }
      rewrite <- E1. apply vinv_setpc; [exact V1|unfold serial; rewrite E1; v_hold Epc|rewrite E1; v_bool Epc|rewrite E1; v_bool Epc|rewrite E1; v_mode Epc|].
      intros ->. unfold rknow; simpl. exact Logic.I.
    + inv_some Hs. vsetpc V Epc.
  - (* WWake *)
    assert (Hne : t <> 0%nat).
    { pose proof (i_role _ _ I t) as Rt. rewrite Epc in Rt. unfold role_ok in Rt; simpl in Rt. destruct Rt as [Rt|Rt]; [discriminate Rt|lia]. }
    destruct (t_pc (c_thr s 0%nat)) eqn:E0; inv_some Hs; try (vsetpc V Epc).
    assert (V1 : VInv g (put_thr 0%nat (set_pc (c_thr s 0%nat) RLoop) s)) by vsetpc V E0.
    rewrite upd_other by exact Hne.
    assert (E1 : c_thr (put_thr 0%nat (set_pc (c_thr s 0%nat) RLoop) s) t = c_thr s t).
    { simpl. apply upd_other. exact Hne. }
    rewrite <- E1. apply vinv_setpc; [exact V1|unfold serial; rewrite E1; v_hold Epc|rewrite E1; v_bool Epc|rewrite E1; v_bool Epc|rewrite E1; v_mode Epc|].
    intros E2. contradiction.
  - inv_some Hs. vsetpc V Epc.
  - inv_some Hs. vsetpc V Epc.
  - (* RLoadW *)
    assert (t = 0%nat).
    { pose proof (i_role _ _ I t) as Rt. rewrite Epc in Rt. exact Rt. } subst t.
    assert (Hq : is_acq (match g_rm g with RSync => mo_rs_load P | _ => mo_rb_load P end) = true).
    { unfold chan_mo_ok in Hcm. destruct (g_rm g); [apply andb_prop in Hcm as [_ A]; exact A|exfalso; apply Hnm; reflexivity|].
      apply andb_prop in Hcm as [_ A]. exact A. }
    inv_some Hs.
    apply vinv_thr_mono; [exact V | | reflexivity | simpl; v_hold Epc | simpl; v_bool Epc | simpl; v_bool Epc | simpl; v_mode Epc | ].
    + intros c0. simpl. rewrite vget_acq. pose proof (v_le_thr _ _ V 0%nat c0). pose proof (v_le_wst _ _ V c0).
      destruct (is_acq _); lia.
    + intros _. unfold rknow; simpl. intros Hne.
      pose proof (i_know _ _ I 0%nat) as K. unfold know in K. rewrite Epc in K.
      destruct (i_RW _ _ I) as [RW1 RW2].
      assert (HRW : Rz s < Wz s).
      { destruct (Z.eq_dec (Rz s) (Wz s)) as [E|E]; [|lia]. exfalso. apply Hne. rewrite K, (i_wcur _ _ I), E. reflexivity. }
      rewrite !vget_acq, Hq.
      assert (A1 : vget (c_wst s) (CSlot (t_r (c_thr s 0%nat))) = c_sver s (t_r (c_thr s 0%nat))).
      { apply (v_wst _ _ V (CSlot (t_r (c_thr s 0%nat)))); [exact Logic.I|]. intros E. inversion E. congruence. }
      assert (A2 : vget (c_wst s) (CPay (nth (c_R s) (c_acc s) dmsg)) = c_pver s (nth (c_R s) (c_acc s) dmsg)).
      { apply (v_wst _ _ V (CPay (nth (c_R s) (c_acc s) dmsg))); [|discriminate]. simpl. apply nth_In. unfold Wz, Rz in HRW. lia. }
      pose proof (v_le_thr _ _ V 0%nat (CSlot (t_r (c_thr s 0%nat)))) as B1.
      pose proof (v_le_thr _ _ V 0%nat (CPay (nth (c_R s) (c_acc s) dmsg))) as B2. simpl in B1, B2.
      split; lia.
  - (* RStoreR *)
    assert (t = 0%nat).
    { pose proof (i_role _ _ I t) as Rt. rewrite Epc in Rt. exact Rt. } subst t.
    inv_some Hs. pose proof V as V0.
    destruct V as [Vt Vw Vr Vl Vm Vs Vls Vws Vo Vf Vmo Vrk Vu].
    constructor; vunf; simpl; try assumption.
    + intros b. unfold upd. destruct (Nat.eqb_spec b 0%nat); apply Vt.
    + intros c. rewrite vget_rel. pose proof (Vt 0%nat c). destruct (is_rel _); [assumption|lia].
    + intros b Hb. unfold upd in *. destruct (Nat.eqb_spec b 0%nat).
      * subst b. simpl in *. destruct Hb as [Hb|[_ Hb]]; [discriminate Hb|lia].
      * apply Vs. exact Hb.
    + intros b Hb. unfold upd in *. destruct (Nat.eqb_spec b 0%nat); [subst b; simpl in Hb; discriminate Hb|apply Vo; exact Hb].
    + intros m Hm. unfold upd. destruct (Nat.eqb_spec (fst m) 0%nat) as [E|E]; [|apply Vf; exact Hm].
      simpl. specialize (Vf m Hm). rewrite E, Epc in Vf. simpl in Vf. destruct Vf as [A|[A B]]; [left; exact A|discriminate B].
    + intros b Hb. unfold upd in Hb. destruct (Nat.eqb_spec b 0%nat); [simpl in Hb; discriminate Hb|eapply Vmo; exact Hb].
    + rewrite Epc in Vrk. exact Vrk.
  - (* RWait *)
    destruct (c_wcur s =? t_w (c_thr s t)); [destruct (Nat.eqb ch 2); [|destruct (Nat.eqb ch 3)]|]; inv_some Hs; vsetpc V Epc.
  - inv_some Hs. vsetpc V Epc.
Qed.

(* ---------------- executions ---------------- *)
Definition CInv (g : cfg) (s : csys) : Prop := SInv g s /\ VInv g s.

Lemma crun_cinv g fuel : cfg_ok g -> g_rm g <> RMutex -> forall s t ch acc s' ns,
  CInv g s -> crun fuel g s t ch acc = (s', ns) -> CInv g s'.
Proof.
  intros Hg Hnm. induction fuel as [|f IH]; intros s t ch acc s' ns [I V] H; simpl in H.
  - inv_some H. split; assumption.
  - destruct (is_plain (t_pc (c_thr s t))).
    + destruct (cmicro g s t ch) as [[s1 ns1]|] eqn:E.
      * eapply IH; [|exact H]. split; [eapply cmicro_sinv; eauto|eapply cmicro_vinv; eauto].
      * inv_some H. split; assumption.
    + inv_some H. split; assumption.
Qed.

Lemma cstep_cinv P g s t ch s' l : cfg_ok g -> g_rm g <> RMutex ->
  chan_mo_ok P (g_rm g) = true -> lock_mo_ok P (g_wk g) = true ->
  CInv g s -> cstep P g s t ch = Some (s', l) -> CInv g s'.
Proof.
  intros Hg Hnm Hcm Hlm [I V] H. unfold cstep in H.
  destruct (is_plain (t_pc (c_thr s t))).
  - destruct (cmicro g s t ch) as [[s1 ns1]|] eqn:E; [|discriminate H].
    destruct (crun 16 g s1 t ch ns1) as [s2 ns2] eqn:E2. inv_some H.
    eapply crun_cinv; [exact Hg|exact Hnm| |exact E2]. split; [eapply cmicro_sinv; eauto|eapply cmicro_vinv; eauto].
  - split; [eapply cop_sinv; eauto|eapply cop_vinv; eauto].
Qed.

Theorem chan_full_invariant P g nread ks sched : cfg_ok g -> g_rm g <> RMutex ->
  chan_mo_ok P (g_rm g) = true -> lock_mo_ok P (g_wk g) = true ->
  CInv g (reach P g nread ks sched).
Proof.
  intros Hg Hnm Hcm Hlm. unfold reach. apply inv_exec.
  - intros s t c s' l Ci H. eapply cstep_cinv; eauto.
  - split; [now apply cinit_inv|apply cinit_vinv].
Qed.

(* every plain read of the reader (slot, then payload) is covered by its view *)
Theorem chan_reads_covered P g nread ks sched : cfg_ok g -> g_rm g <> RMutex ->
  chan_mo_ok P (g_rm g) = true -> lock_mo_ok P (g_wk g) = true ->
  c_uncov (reach P g nread ks sched) = 0%nat.
Proof. intros Hg Hnm Hcm Hlm. exact (v_uncov _ _ (proj2 (chan_full_invariant P g nread ks sched Hg Hnm Hcm Hlm))). Qed.

(* the message the reader is about to hand to its caller: accepted, and its payload write visible *)
Theorem chan_payload_visible_at_delivery P g nread ks sched m : cfg_ok g -> g_rm g <> RMutex ->
  chan_mo_ok P (g_rm g) = true -> lock_mo_ok P (g_wk g) = true ->
  let s := reach P g nread ks sched in
  (t_pc (c_thr s 0%nat) = RStoreR \/ t_pc (c_thr s 0%nat) = RRet) -> t_d (c_thr s 0%nat) = Some m ->
  In m (c_acc s) /\ vget (t_view (c_thr s 0%nat)) (CPay m) = c_pver s m.
Proof.
  intros Hg Hnm Hcm Hlm s Hpc Hd.
  pose proof (v_rknow _ _ (proj2 (chan_full_invariant P g nread ks sched Hg Hnm Hcm Hlm))) as K.
  fold s in K. unfold rknow in K. destruct Hpc as [E|E]; rewrite E, Hd in K; exact K.
Qed.

(* exactly once, in order: unconditional for the sync and busy reader modes *)
Theorem chan_exactly_once P g nread ks sched : cfg_ok g -> g_rm g <> RMutex ->
  chan_mo_ok P (g_rm g) = true -> lock_mo_ok P (g_wk g) = true ->
  let s := reach P g nread ks sched in
  c_del s = map Some (firstn (length (c_del s)) (c_acc s)) /\ (length (c_del s) <= length (c_acc s))%nat /\
  (length (c_del s) = length (c_acc s) -> c_del s = map Some (c_acc s)).
Proof.
  intros Hg Hnm Hcm Hlm s.
  pose proof (chan_reads_covered P g nread ks sched Hg Hnm Hcm Hlm) as Hu.
  destruct (chan_prefix_sc P g nread ks sched Hg Hu) as [A B]. fold s in A, B.
  repeat split; [exact A|exact B|]. intros Hl. exact (chan_drained_sc P g nread ks sched Hg Hu Hl).
Qed.

(* ---------------- the memory orders are necessary (documentation of the parameter tie) ---------------- *)
(* with the store of write_cursor relaxed the reader's acquire load brings no view: in the model the
   reader may copy the slot's previous content (NULL) -- a stale delivery *)
Definition relaxed_store_params : params :=
  {| mo_ws_load := Rlx; mo_ws_store := Rlx; mo_wb_load := Rlx; mo_wb_store1 := Rel; mo_wb_store2 := Rel;
     mo_rs_load := Acq; mo_rs_store := Rel; mo_rb_load := Acq; mo_rb_store := Rel;
     mo_spin_tas := Acq; mo_spin_clear := Rel; mo_sync_cas := Acq; mo_sync_store := Rel |}.
Example chan_mo_necessary :
  let g := mk_cfg WSingle RSync 4 1 0 in
  let sched := (repeat (1, 0) 6 ++ repeat (0, 1) 6)%nat in
  c_acc (reach relaxed_store_params g 1 (fun _ => 1%nat) sched) = [(1, 0)%nat] /\
  c_del (reach relaxed_store_params g 1 (fun _ => 1%nat) sched) = [None] /\
  c_uncov (reach relaxed_store_params g 1 (fun _ => 1%nat) sched) = 1%nat /\
  (* the same schedule with the code's orders delivers the message *)
  c_del (reach sc_params g 1 (fun _ => 1%nat) sched) = [Some (1, 0)%nat].
Proof. vm_compute. repeat split; reflexivity. Qed.
