From MV Require Import Lib.ExtractBase C01.Model C01.ModelQ C01.Dispatch C01.ModelRC.
From Coq Require Import ExtrOcamlBasic.
Extraction Language OCaml.
Extraction "c01_model" force_types usable mk_cfg mk_cfg_val with_val mk_cfg_flags cinit cstep cstep1 tag
  c_wcur c_rcur c_acc c_del c_overw c_badfull c_uncov c_thr t_pc
  qinit qstep dinit dstep
  xinit xstep x_s x_r r_unc r_ep.
