(* C01 — ring-cursor arithmetic used by the channel invariants (no power-of-two assumption is
   needed: the ring works for every positive modulus). *)
From MV Require Import C01.Model.
Local Open Scope Z_scope.

Lemma mod_eq_divides a b c : 0 < c -> a mod c = b mod c -> exists k, a - b = k * c.
Proof.
  intros Hc H. exists (a / c - b / c).
  pose proof (Z.div_mod a c ltac:(lia)). pose proof (Z.div_mod b c ltac:(lia)). nia.
Qed.

Lemma mod_inj_window a b c : 0 < c -> 0 <= a - b < c -> a mod c = b mod c -> a = b.
Proof.
  intros Hc Hw H. destruct (mod_eq_divides a b c Hc H) as [k Hk].
  assert (k = 0) by nia. subst. lia.
Qed.

Lemma mod_neq_window a b c : 0 < c -> 0 < a - b < c -> a mod c <> b mod c.
Proof. intros Hc Hw H. pose proof (mod_inj_window a b c Hc ltac:(lia) H). lia. Qed.

Lemma usable_lt cap : 0 < cap -> usable cap < cap.
Proof. unfold usable. lia. Qed.
Lemma usable_nonneg cap : 0 <= usable cap.
Proof. unfold usable. lia. Qed.

(* the ring is not full by the code's test => one more message still fits *)
Lemma not_full_room cap w r : 0 < cap -> 0 <= w - r <= usable cap ->
  (w mod cap + 1) mod cap <> (r - 1) mod cap -> w + 1 - r <= usable cap.
Proof.
  intros Hc Hw Hne. rewrite Zplus_mod_idemp_l in Hne.
  destruct (Z_le_gt_dec (w + 1 - r) (usable cap)) as [|Hgt]; [assumption|exfalso].
  apply Hne. unfold usable in *.
  destruct (Z_le_gt_dec cap 1).
  - assert (cap = 1) by lia. subst. now rewrite !Z.mod_1_r.
  - assert (w + 1 = (r - 1) + 1 * cap) as -> by lia. now rewrite Z_mod_plus_full.
Qed.

(* the code's test says full => the ring holds exactly its usable capacity *)
Lemma full_is_full cap w r : 0 < cap -> 0 <= w - r <= usable cap ->
  (w mod cap + 1) mod cap = (r - 1) mod cap -> w - r = usable cap.
Proof.
  intros Hc Hw He. rewrite Zplus_mod_idemp_l in He.
  destruct (mod_eq_divides _ _ _ Hc He) as [k Hk]. unfold usable in *.
  destruct (Z_le_gt_dec cap 1).
  - lia.
  - assert (k = 1) by nia. subst. lia.
Qed.

Lemma firstn_S_nth {A} (l : list A) n d : (n < length l)%nat -> firstn (S n) l = firstn n l ++ [nth n l d].
Proof.
  revert n. induction l as [|a l IH]; intros n Hn; simpl in *; [lia|].
  destruct n; simpl; [reflexivity|]. rewrite (IH n) by lia. reflexivity.
Qed.
