(* C01 — array blocking queue and double buffer: FIFO / batches in lock order, for every schedule,
   any number of producers and consumers, any capacity, spurious condvar wake-ups included. *)
From MV Require Import C01.Model C01.ModelQ C01.ProofsArith.
Local Open Scope Z_scope.

Ltac inv_some H := inversion H; subst; clear H.

Lemma ring_next_mod n c : 0 < c -> 0 <= n -> ring_next (n mod c) c = (n + 1) mod c.
Proof.
  intros Hc Hn. unfold ring_next.
  pose proof (Z.mod_pos_bound n c Hc) as B. pose proof (Z.div_mod n c ltac:(lia)) as D.
  destruct (Z.eqb_spec (n mod c + 1) c) as [E|E].
  - apply (Z.mod_unique (n + 1) c (n / c + 1) 0); lia.
  - apply (Z.mod_unique (n + 1) c (n / c) (n mod c + 1)); lia.
Qed.

(* ------------------------------------------------------------------ *)
(* 1. array blocking queue *)
Definition dmsg : msg := (0%nat, 0%nat).
Definition Pn (s : qsys) : Z := Z.of_nat (length (q_putl s)).
Definition Tn (s : qsys) : Z := Z.of_nat (length (q_taken s)).

Record QInv (s : qsys) : Prop := {
  qi_cap : 0 < q_cap s;
  qi_cnt : q_cnt s = Pn s - Tn s /\ 0 <= q_cnt s <= q_cap s;
  qi_put : q_put s = Pn s mod q_cap s;
  qi_take : q_take s = Tn s mod q_cap s;
  qi_datas : forall i : nat, (length (q_taken s) <= i < length (q_putl s))%nat ->
             q_datas s (Z.of_nat i mod q_cap s) = Some (nth i (q_putl s) dmsg);
  qi_fifo : q_taken s = map Some (firstn (length (q_taken s)) (q_putl s));
  qi_badwait : q_badwait s = 0%nat;
}.

Lemma qinit_inv cap np n ks : 0 < cap -> QInv (qinit cap np n ks).
Proof.
  intros Hc. constructor; unfold Pn, Tn; simpl; try lia; try reflexivity; try (rewrite Z.mod_0_l by lia; reflexivity).
  all: intros; lia.
Qed.

Lemma qmicro_inv s t s' ns : QInv s -> qmicro s t = Some (s', ns) -> QInv s'.
Proof.
  intros I H. pose proof I as I0. destruct I as [Ic [Icn Icb] Ip It Id If Ib].
  unfold qmicro in H. destruct (q_pc (q_thr s t)); try discriminate H.
  - (* Q0 *)
    destruct (q_todo (q_thr s t)); [inv_some H; constructor; unfold Pn, Tn in *; simpl; auto|].
    destruct (q_is_prod s t); inv_some H; constructor; unfold Pn, Tn in *; simpl; auto.
  - (* QChk *)
    destruct (q_is_prod s t).
    + destruct (Z.eqb_spec (q_cnt s) (q_cap s)) as [E|E]; inv_some H.
      * (* sleeps only when the queue is full *)
        unfold qbad, in_flight. fold (Pn s). fold (Tn s). rewrite <- Icn, E, Z.eqb_refl.
        constructor; unfold Pn, Tn in *; simpl; auto; try lia; try (split; lia).
      * (* enqueue *)
        assert (HP : Z.of_nat (length (q_putl s ++ [(S t, q_seq (q_thr s t))])) = Pn s + 1).
        { rewrite app_length. simpl. unfold Pn. lia. }
        constructor; unfold Pn, Tn in *; simpl; rewrite ?app_length; simpl length; auto.
        -- split; lia.
        -- rewrite Ip. rewrite ring_next_mod by lia. f_equal. lia.
        -- intros i Hi. rewrite ?app_length in Hi. simpl in Hi. unfold zupd.
           destruct (Nat.eq_dec i (length (q_putl s))) as [Ei|Ei].
           ++ subst i. rewrite Ip, Z.eqb_refl. rewrite app_nth2 by lia. now rewrite Nat.sub_diag.
           ++ destruct (Z.eqb_spec (Z.of_nat i mod q_cap s) (q_put s)) as [E2|E2].
              ** exfalso. rewrite Ip in E2. symmetry in E2. apply mod_neq_window in E2; [assumption|assumption|lia].
              ** rewrite app_nth1 by lia. apply Id. lia.
        -- rewrite firstn_app. replace (length (q_taken s) - length (q_putl s))%nat with 0%nat by lia.
           simpl. rewrite app_nil_r. exact If.
    + destruct (Z.eqb_spec (q_cnt s) 0) as [E|E]; inv_some H.
      * unfold qbad, in_flight. fold (Pn s). fold (Tn s). rewrite <- Icn, E. simpl.
        constructor; unfold Pn, Tn in *; simpl; auto; try lia; try (split; lia).
      * (* dequeue *)
        assert (HT : Z.of_nat (length (q_taken s ++ [q_datas s (q_take s)])) = Tn s + 1).
        { rewrite app_length. simpl. unfold Tn. lia. }
        constructor; unfold Pn, Tn in *; simpl; rewrite ?app_length; simpl length; auto.
        -- split; lia.
        -- rewrite It. rewrite ring_next_mod by lia. f_equal. lia.
        -- intros i Hi. rewrite ?app_length in Hi. simpl in Hi. apply Id. lia.
        -- rewrite ?app_length. simpl. replace (length (q_taken s) + 1)%nat with (S (length (q_taken s))) by lia.
           rewrite (firstn_S_nth _ _ dmsg) by lia. rewrite map_app. simpl. rewrite <- If. f_equal.
           rewrite It. rewrite Id by lia. reflexivity.
  - inv_some H; constructor; unfold Pn, Tn in *; simpl; auto.
  - destruct (q_is_prod s t); inv_some H; constructor; unfold Pn, Tn in *; simpl; auto.
Qed.

Lemma qop_inv n s t ch s' l : QInv s -> qop n s t ch = Some (s', l) -> QInv s'.
Proof.
  intros I H. destruct I as [Ic [Icn Icb] Ip It Id If Ib].
  unfold qop in H. destruct (q_pc (q_thr s t)); try discriminate H;
    repeat match type of H with
    | (if ?c then _ else _) = _ => destruct c; try discriminate H
    | match ?c with Some _ => _ | None => _ end = _ => destruct c
    end; inv_some H; constructor; unfold Pn, Tn in *; simpl; auto.
Qed.

Lemma qrun_inv fuel : forall s t acc s' ns, QInv s -> qrun fuel s t acc = (s', ns) -> QInv s'.
Proof.
  induction fuel as [|f IH]; intros s t acc s' ns I H; simpl in H; [inv_some H; exact I|].
  destruct (q_is_plain (q_pc (q_thr s t))); [|inv_some H; exact I].
  destruct (qmicro s t) as [[s1 ns1]|] eqn:E; [|inv_some H; exact I].
  eapply IH; [|exact H]. eapply qmicro_inv; eauto.
Qed.

Lemma qstep_inv n s t ch s' l : QInv s -> qstep n s t ch = Some (s', l) -> QInv s'.
Proof.
  intros I H. unfold qstep in H. destruct (q_is_plain (q_pc (q_thr s t))).
  - destruct (qmicro s t) as [[s1 ns1]|] eqn:E; [|discriminate H].
    destruct (qrun 8 s1 t ns1) as [s2 ns2] eqn:E2. inv_some H.
    eapply qrun_inv; [|exact E2]. eapply qmicro_inv; eauto.
  - eapply qop_inv; eauto.
Qed.

Definition qreach (cap : Z) (np n : nat) (ks : nat -> nat) (sched : list (nat * nat)) : qsys :=
  exec qsys (qstep n) (qinit cap np n ks) sched.

(* taken is a prefix of put in lock order; the ring indices and the count agree with the two
   histories; a producer sleeps only when cnt = capacity, a consumer only when cnt = 0 *)
Theorem abq_fifo_all cap np n ks sched : 0 < cap ->
  let s := qreach cap np n ks sched in
  q_taken s = map Some (firstn (length (q_taken s)) (q_putl s)) /\
  (length (q_taken s) <= length (q_putl s))%nat /\
  Z.of_nat (length (q_putl s)) - Z.of_nat (length (q_taken s)) <= cap /\
  q_badwait s = 0%nat.
Proof.
  intros Hc s.
  assert (I : QInv s).
  { unfold s, qreach. apply inv_exec; [|now apply qinit_inv]. intros; eapply qstep_inv; eauto. }
  assert (Hcap : q_cap s = cap).
  { unfold s, qreach. apply (inv_exec qsys (qstep n) (fun s => q_cap s = cap)); [|reflexivity].
    intros s0 t c s1 l E H. rewrite <- E. clear E.
    assert (Hm : forall a b ns, qmicro a b = Some (s1, ns) -> q_cap s1 = q_cap a).
    { intros a b ns Hq. unfold qmicro in Hq. destruct (q_pc (q_thr a b)); try discriminate Hq;
        repeat match type of Hq with
        | (if ?c then _ else _) = _ => destruct c
        | match ?c with O => _ | S _ => _ end = _ => destruct c
        end; inv_some Hq; reflexivity. }
    unfold qstep in H. destruct (q_is_plain (q_pc (q_thr s0 t))).
    - destruct (qmicro s0 t) as [[s2 ns2]|] eqn:E; [|discriminate H].
      destruct (qrun 8 s2 t ns2) as [s3 ns3] eqn:E2. inv_some H.
      assert (Hr : forall f a acc b ns, qrun f a t acc = (b, ns) -> q_cap b = q_cap a).
      { induction f as [|f IH]; intros a acc b ns Hq; simpl in Hq; [inv_some Hq; reflexivity|].
        destruct (q_is_plain (q_pc (q_thr a t))); [|inv_some Hq; reflexivity].
        destruct (qmicro a t) as [[a1 n1]|] eqn:E3; [|inv_some Hq; reflexivity].
        rewrite (IH _ _ _ _ Hq).
        unfold qmicro in E3. destruct (q_pc (q_thr a t)); try discriminate E3;
          repeat match type of E3 with
          | (if ?c then _ else _) = _ => destruct c
          | match ?c with O => _ | S _ => _ end = _ => destruct c
          end; inv_some E3; reflexivity. }
      rewrite (Hr _ _ _ _ _ E2).
      unfold qmicro in E. destruct (q_pc (q_thr s0 t)); try discriminate E;
        repeat match type of E with
        | (if ?c then _ else _) = _ => destruct c
        | match ?c with O => _ | S _ => _ end = _ => destruct c
        end; inv_some E; reflexivity.
    - unfold qop in H. destruct (q_pc (q_thr s0 t)); try discriminate H;
        repeat match type of H with
        | (if ?c then _ else _) = _ => destruct c; try discriminate H
        | match ?c with Some _ => _ | None => _ end = _ => destruct c
        end; inv_some H; reflexivity. }
  destruct I as [Ic [Icn Icb] Ip It Id If Ib]. unfold Pn, Tn in *. rewrite Hcap in *.
  repeat split; [exact If|lia|lia|exact Ib].
Qed.

Example abq_nonvacuous :
  (* capacity 1, one producer with two items, one consumer: the second put sleeps on not_full *)
  let s := qreach 1 1 2 (fun _ => 2%nat) (repeat (0, 0) 12 ++ repeat (1, 0) 12 ++ repeat (0, 0) 12 ++ repeat (1, 0) 12)%nat in
  q_putl s = [(1, 0); (1, 1)]%nat /\ q_taken s = [Some (1, 0); Some (1, 1)]%nat /\ q_badwait s = 0%nat.
Proof. vm_compute. repeat split; reflexivity. Qed.

(* ------------------------------------------------------------------ *)
(* 2. double buffer *)
Lemma batch_zupd f n i x : (n <= Z.to_nat i)%nat -> 0 <= i -> batch (zupd f i x) n = batch f n.
Proof.
  intros Hn Hi. induction n as [|k IH]; simpl; [reflexivity|].
  rewrite IH by lia. f_equal. f_equal. unfold zupd. destruct (Z.eqb_spec (Z.of_nat k) i); [lia|reflexivity].
Qed.

Record DInv (s : dsys) : Prop := {
  di_cnt : 0 <= d_cnt s (negb (d_front s));
  di_hist : map Some (d_written s) =
            d_read s ++ batch (d_datas s (negb (d_front s))) (Z.to_nat (d_cnt s (negb (d_front s))));
  di_bad : d_badwait s = 0%nat;
}.

Lemma dinit_inv cap nb mt nw total ks : DInv (dinit cap nb mt nw total ks).
Proof. constructor; simpl; [lia|reflexivity|reflexivity]. Qed.

Lemma batch_length f n : length (batch f n) = n.
Proof. induction n as [|k IH]; simpl; [reflexivity|]. rewrite app_length, IH. simpl. lia. Qed.

(* the back buffer's count is the number of accepted items not yet handed to the reader *)
Lemma dinv_pending s : DInv s -> d_pending s = d_cnt s (negb (d_front s)).
Proof.
  intros [Ic Ih _]. unfold d_pending. apply (f_equal (@length _)) in Ih.
  rewrite map_length, app_length, batch_length in Ih. lia.
Qed.

Lemma dmicro_inv s t s' ns : DInv s -> dmicro s t = Some (s', ns) -> DInv s'.
Proof.
  intros I0 H. pose proof (dinv_pending s I0) as Hpend. destruct I0 as [Ic Ih Ib]. unfold dmicro in H.
  destruct (d_pc (d_thr s t)); try discriminate H.
  - destruct (d_todo (d_thr s t)); inv_some H; constructor; simpl; assumption.
  - inv_some H; constructor; simpl; assumption.
  - (* DChk *)
    destruct (Z.eqb_spec (d_cnt s (negb (d_front s))) (d_cap s)) as [E|E].
    + unfold dbad in H. rewrite Hpend, E, Z.eqb_refl in H.
      destruct (d_nonblock s); inv_some H; constructor; simpl; assumption.
    + inv_some H. constructor; simpl; try assumption.
      * unfold bupd. rewrite Bool.eqb_reflx. lia.
      * unfold bupd. rewrite Bool.eqb_reflx.
        replace (Z.to_nat (d_cnt s (negb (d_front s)) + 1)) with (S (Z.to_nat (d_cnt s (negb (d_front s))))) by lia.
        simpl. rewrite batch_zupd by lia. rewrite Z2Nat.id by lia. unfold zupd. rewrite Z.eqb_refl.
        rewrite map_app. simpl. rewrite Ih. now rewrite app_assoc.
  - inv_some H; constructor; simpl; assumption.
  - destruct ok; [inv_some H; constructor; simpl; assumption|].
    destruct (negb (Nat.eqb (d_maxtry s) 0) && Nat.leb (d_maxtry s) (S (d_tries (d_thr s t)))); inv_some H;
      constructor; simpl; assumption.
  - destruct (Nat.ltb (d_got s) (d_todo (d_thr s t))); inv_some H; constructor; simpl; assumption.
  - (* EChk: swap *)
    destruct (Z.eqb_spec (d_cnt s (negb (d_front s))) 0) as [E|E].
    { unfold dbad in H. rewrite Hpend, E in H. simpl in H. inv_some H. constructor; simpl; assumption. }
    inv_some H.
    + constructor; simpl; try assumption.
      * rewrite Bool.negb_involutive. unfold bupd. rewrite Bool.eqb_reflx. lia.
      * rewrite Bool.negb_involutive. unfold bupd. rewrite Bool.eqb_reflx. simpl. rewrite app_nil_r. exact Ih.
  - inv_some H; constructor; simpl; assumption.
  - inv_some H; constructor; simpl; assumption.
Qed.

Lemma dop_inv s t ch s' l : DInv s -> dop s t ch = Some (s', l) -> DInv s'.
Proof.
  intros [Ic Ih Ib] H. unfold dop in H. destruct (d_pc (d_thr s t)); try discriminate H;
    repeat match type of H with
    | (if ?c then _ else _) = _ => destruct c; try discriminate H
    | match ?c with Some _ => _ | None => _ end = _ => destruct c
    | match d_pc ?c with _ => _ end = _ => destruct (d_pc c)
    end; inv_some H; constructor; simpl; assumption.
Qed.

Lemma drun_inv fuel : forall s t acc s' ns, DInv s -> drun fuel s t acc = (s', ns) -> DInv s'.
Proof.
  induction fuel as [|f IH]; intros s t acc s' ns I H; simpl in H; [inv_some H; exact I|].
  destruct (d_is_plain (d_pc (d_thr s t))); [|inv_some H; exact I].
  destruct (dmicro s t) as [[s1 ns1]|] eqn:E; [|inv_some H; exact I].
  eapply IH; [|exact H]. eapply dmicro_inv; eauto.
Qed.

Lemma dstep_inv s t ch s' l : DInv s -> dstep s t ch = Some (s', l) -> DInv s'.
Proof.
  intros I H. unfold dstep in H. destruct (d_is_plain (d_pc (d_thr s t))).
  - destruct (dmicro s t) as [[s1 ns1]|] eqn:E; [|discriminate H].
    destruct (drun 8 s1 t ns1) as [s2 ns2] eqn:E2. inv_some H.
    eapply drun_inv; [|exact E2]. eapply dmicro_inv; eauto.
  - eapply dop_inv; eauto.
Qed.

Definition dreach cap nb mt nw total ks (sched : list (nat * nat)) : dsys :=
  exec dsys dstep (dinit cap nb mt nw total ks) sched.

(* the batches handed to the reader, concatenated, are a prefix of the accepted items in lock
   order; the remainder is exactly the content of the back buffer *)
Theorem dbuf_batches_in_order_all cap nb mt nw total ks sched :
  let s := dreach cap nb mt nw total ks sched in
  map Some (d_written s) =
  d_read s ++ batch (d_datas s (negb (d_front s))) (Z.to_nat (d_cnt s (negb (d_front s)))).
Proof.
  intros s. assert (I : DInv s).
  { unfold s, dreach. apply inv_exec; [|apply dinit_inv]. intros; eapply dstep_inv; eauto. }
  exact (di_hist _ I).
Qed.

Example dbuf_nonvacuous :
  (* capacity 2, blocking, two writers with two items each: the reader receives two batches *)
  let s := dreach 2 false 0 2 4 (fun _ => 2%nat)
             (repeat (1, 0) 14 ++ repeat (0, 0) 12 ++ repeat (2, 0) 14 ++ repeat (0, 0) 12)%nat in
  d_written s = [(1, 0); (1, 1); (2, 0); (2, 1)]%nat /\
  d_read s = [Some (1, 0); Some (1, 1); Some (2, 0); Some (2, 1)]%nat /\ d_got s = 4%nat.
Proof. vm_compute. repeat split; reflexivity. Qed.
