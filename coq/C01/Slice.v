(* C01 — second tie (DESIGN.md 4.4), definitions: reference functions for the bodies of the
   channel's write / wake / read function variants and the public wrappers, in plain integer
   arithmetic.  lib/props/c01_slice.py slices the same functions out of the clang AST of the C text
   of this run (synchronisation operations become entries of an event word ev, ev' = ev * 1024 +
   code with code = (op * 8 + cell) * 8 + memory order; the message slots become a word array; a
   message is an opaque 64-bit value; a loop is cut after one iteration: again = 1) and
   lib/leaftrans.py translates them to Gallina (gen_chan_* in gen/Params_C01.v).
   ProofsGen.v proves generated = reference on the whole domain; ProofsSlice.v proves that the
   model's steps (Model.v) compute the same reference. *)
From MV Require Export Lib.Leaf C01.Model C01.ModelQ.
Local Open Scope Z_scope.

(* numbering shared with lib/props/c01_slice.py *)
Definition mo_code (m : memorder) : Z :=
  match m with Rlx => 0 | Con => 1 | Acq => 2 | Rel => 3 | AcqRel => 4 | SeqCst => 5 | MoNone => 7 end.
Definition evc (op cell mo : Z) : Z := (op * 8 + cell) * 8 + mo.
Definition push (ev c : Z) : Z := ev * 1024 + c.
Definition OP_load := 1. Definition OP_store := 2. Definition OP_wake := 3. Definition OP_wait := 4.
Definition OP_mlock := 5. Definition OP_munlock := 6. Definition OP_cvwait := 7. Definition OP_cvsig := 8.
Definition OP_call := 9.
Definition CE_rcur := 1. Definition CE_wcur := 2. Definition CE_rmx := 3. Definition CE_rcv := 4.
Definition FN_lock := 1. Definition FN_write := 2. Definition FN_unlock := 3. Definition FN_wake := 4. Definition FN_read := 5.
Definition ERR_FULL := 11.

(* the successor of a ring position, for 0 <= w < cap *)
Definition rnext1 (cap w : Z) : Z := if w + 1 <? cap then w + 1 else w + 1 - cap.

(* muggle_channel_write_sync: (return value, ev, slots, write_cursor) *)
Definition ref_write_sync (P : params) (cap ev rcur : Z) (slot : list Z) (wcur data : Z) : Z * Z * list Z * Z :=
  let ev1 := push ev (evc OP_load CE_rcur (mo_code (mo_ws_load P))) in
  if rnext1 cap wcur =? rcur then (ERR_FULL, ev1, slot, wcur)
  else (0, push ev1 (evc OP_store CE_wcur (mo_code (mo_ws_store P))), lset slot wcur data, rnext1 cap wcur).

(* muggle_channel_write_busy: (return value, cached_r_cur, ev, slots, write_cursor) *)
Definition ref_write_busy (P : params) (cached cap ev rcur : Z) (slot : list Z) (wcur data : Z)
  : Z * Z * Z * list Z * Z :=
  let wpos := rnext1 cap wcur in
  if negb (wpos =? cached)
  then (0, cached, push ev (evc OP_store CE_wcur (mo_code (mo_wb_store1 P))), lset slot wcur data, wpos)
  else
    let ev1 := push ev (evc OP_load CE_rcur (mo_code (mo_wb_load P))) in
    if negb (wpos =? rcur)
    then (0, rcur, push ev1 (evc OP_store CE_wcur (mo_code (mo_wb_store2 P))), lset slot wcur data, wpos)
    else (ERR_FULL, rcur, ev1, slot, wcur).

(* muggle_channel_write_mutex: (return value, ev, slots, write_cursor) *)
Definition ref_write_mutex (cap ev rcur : Z) (slot : list Z) (wcur data : Z) : Z * Z * list Z * Z :=
  let ev1 := push ev (evc OP_mlock CE_rmx 0) in
  if rnext1 cap wcur =? rcur then (ERR_FULL, push ev1 (evc OP_munlock CE_rmx 0), slot, wcur)
  else (0, push ev1 (evc OP_munlock CE_rmx 0), lset slot wcur data, rnext1 cap wcur).

(* one iteration of the readers.  On the "not ready" path the function asks to be called again
   (again = 1); the event word is cleared there (how often the cursor is re-loaded before the cut depends
   on the shape of the loop), WHICH wait was entered (waited) and the futex's expected value (waitv) stay *)
(* muggle_channel_read_sync: (data, again, ev, read_cursor, waited, waitv) *)
Definition ref_read_sync (P : params) (again cap ev rcur : Z) (slot : list Z) (waited waitv wcur : Z)
  : Z * Z * Z * Z * Z * Z :=
  let rpos := rnext1 cap rcur in
  let ev1 := push ev (evc OP_load CE_wcur (mo_code (mo_rs_load P))) in
  if negb (wcur =? rpos)
  then (lget slot rpos, again, push ev1 (evc OP_store CE_rcur (mo_code (mo_rs_store P))), rpos, waited, waitv)
  else (0, 1, 0, rcur, evc OP_wait CE_wcur 0, wcur).

(* muggle_channel_read_busy: (data, again, ev, read_cursor) *)
Definition ref_read_busy (P : params) (again cap ev rcur : Z) (slot : list Z) (wcur : Z) : Z * Z * Z * Z :=
  let rpos := rnext1 cap rcur in
  let ev1 := push ev (evc OP_load CE_wcur (mo_code (mo_rb_load P))) in
  if negb (wcur =? rpos)
  then (lget slot rpos, again, push ev1 (evc OP_store CE_rcur (mo_code (mo_rb_store P))), rpos)
  else (0, 1, 0, rcur).

(* muggle_channel_read_mutex: (data, again, ev, read_cursor, waited) *)
Definition ref_read_mutex (again cap ev rcur : Z) (slot : list Z) (waited wcur : Z) : Z * Z * Z * Z * Z :=
  let ev1 := push ev (evc OP_mlock CE_rmx 0) in
  let rpos := rnext1 cap rcur in
  if negb (rpos =? wcur)
  then (lget slot rpos, again, push ev1 (evc OP_munlock CE_rmx 0), rpos, waited)
  else (0, 1, 0, rcur, evc OP_cvwait CE_rcv 0).

Definition ref_wake_sync (ev : Z) : Z := push ev (evc OP_wake CE_wcur 0).
Definition ref_wake_mutex (ev : Z) : Z := push ev (evc OP_cvsig CE_rcv 0).

(* muggle_channel_write: fn_lock, fn_write, fn_unlock, and fn_wake exactly when fn_write returned 0 *)
Definition ref_chan_write (ev ret : Z) : Z * Z :=
  let ev3 := push (push (push ev (evc OP_call FN_lock 0)) (evc OP_call FN_write 0)) (evc OP_call FN_unlock 0) in
  if ret =? 0 then (ret, push ev3 (evc OP_call FN_wake 0)) else (ret, ev3).
Definition ref_chan_read (ev v : Z) : Z * Z := (v, push ev (evc OP_call FN_read 0)).

(* the domain: capacity a power of two up to 2^31 (muggle_channel_init), cursors inside the ring *)
Definition cdom (cap w r : Z) : Prop :=
  (exists k, 0 <= k <= 31 /\ cap = 2 ^ k) /\ 0 <= w < cap /\ 0 <= r < cap.
Definition evdom (ev : Z) : Prop := 0 <= ev < 1048576.

(* ---- array blocking queue (array_blocking_queue.c): put / take up to the end of the first loop
   iteration, file-local helpers inlined (whether enqueue / dequeue / an index helper exist as
   functions is a matter of shape).  Cells: mutex 3, cv_not_empty 4, cv_not_full 5.  ring_next is
   the model's (ModelQ.v) *)
Definition CQ_mx := 3. Definition CQ_cvne := 4. Definition CQ_cvnf := 5.
(* put: (return value, again, cnt, datas, ev, put_idx, waited) *)
Definition ref_abq_put (again cap cnt : Z) (datas : list Z) (ev put waited data : Z)
  : Z * Z * Z * list Z * Z * Z * Z :=
  if cnt =? cap then (0, 1, cnt, datas, 0, put, evc OP_cvwait CQ_cvnf 0)
  else (0, again, cnt + 1, lset datas put data,
        push (push (push ev (evc OP_mlock CQ_mx 0)) (evc OP_cvsig CQ_cvne 0)) (evc OP_munlock CQ_mx 0),
        ring_next put cap, waited).
(* take: (data, again, cnt, ev, take_idx, waited) *)
Definition ref_abq_take (again cap cnt : Z) (datas : list Z) (ev take waited : Z) : Z * Z * Z * Z * Z * Z :=
  if cnt =? 0 then (0, 1, cnt, 0, take, evc OP_cvwait CQ_cvne 0)
  else (lget datas take, again, cnt - 1,
        push (push (push ev (evc OP_mlock CQ_mx 0)) (evc OP_cvsig CQ_cvnf 0)) (evc OP_munlock CQ_mx 0),
        ring_next take cap, waited).
