(* C01 — channel: each writer's messages keep that writer's order.  The accepted history grows
   only by the publishing writer's current message (t, seq), whose sequence number exceeds every
   earlier accepted message of that writer; with "delivered is a prefix of accepted" the
   messages of one writer are delivered in the order that writer sent them. *)
From MV Require Import C01.Model C01.ProofsArith C01.ProofsSC C01.ProofsView C01.ProofsViewM.
Local Open Scope Z_scope.

Fixpoint wsorted (l : list msg) : Prop :=
  match l with
  | [] => True
  | m :: r => (forall m', In m' r -> fst m' = fst m -> (snd m < snd m')%nat) /\ wsorted r
  end.

Lemma wsorted_app l m : wsorted l ->
  (forall m', In m' l -> fst m' = fst m -> (snd m' < snd m)%nat) -> wsorted (l ++ [m]).
Proof.
  induction l as [|a r IH]; simpl; intros H Hm.
  - split; [intros m' []|exact I].
  - destruct H as [H1 H2]. split.
    + intros m' Hin E. apply in_app_or in Hin. destruct Hin as [Hin|[Hin|[]]].
      * apply H1; assumption.
      * subst m'. apply Hm; [left; reflexivity|symmetry; exact E].
    + apply IH; [exact H2|]. intros m' Hin. apply Hm. right; exact Hin.
Qed.

Lemma in_firstn {A} (x : A) n l : In x (firstn n l) -> In x l.
Proof.
  revert n. induction l as [|a r IH]; intros n H; destruct n; simpl in *; try contradiction.
  destruct H as [H|H]; [left; exact H|right; eapply IH; exact H].
Qed.

Lemma wsorted_firstn n l : wsorted l -> wsorted (firstn n l).
Proof.
  revert n. induction l as [|a r IH]; intros n H; destruct n; simpl; try exact I.
  destruct H as [H1 H2]. split; [|apply IH; exact H2].
  intros m' Hin. apply H1. eapply in_firstn; exact Hin.
Qed.

Definition acc_step (s s' : csys) (t : nat) : Prop :=
  c_acc s' = c_acc s \/
  (c_acc s' = c_acc s ++ [(t, t_seq (c_thr s t))] /\ after_pub (t_pc (c_thr s t)) = false).

Ltac crush H :=
  repeat match type of H with
  | context [if ?c then _ else _] => destruct c
  | context [match ?c with _ => _ end] => destruct c
  end.

Lemma cmicro_acc g s t ch s' ns : cmicro g s t ch = Some (s', ns) -> acc_step s s' t.
Proof.
  intros H. unfold cmicro in H. unfold acc_step.
  destruct (t_pc (c_thr s t)) eqn:Epc; try discriminate H;
    try (crush H; try discriminate H; inv_some H; simpl; left; reflexivity).
  (* WRmChk *)
  destruct (Z.eqb (wnext g s) (c_rcur s)); inv_some H; simpl; [left; reflexivity|].
  right. split; reflexivity.
Qed.

Lemma cop_acc P g s t ch s' l : cop P g s t ch = Some (s', l) -> acc_step s s' t.
Proof.
  intros H. unfold cop in H. unfold acc_step.
  destruct (t_pc (c_thr s t)) eqn:Epc; try discriminate H;
    try (crush H; try discriminate H; inv_some H; simpl; left; reflexivity).
  (* WPub *)
  inv_some H. simpl. right. split; reflexivity.
Qed.

Definition fresh_ok (s : csys) : Prop :=
  forall m, In m (c_acc s) ->
    (snd m < t_seq (c_thr s (fst m)))%nat \/
    (snd m = t_seq (c_thr s (fst m)) /\ after_pub (t_pc (c_thr s (fst m))) = true).

Lemma acc_step_sorted s s' t : fresh_ok s -> acc_step s s' t -> wsorted (c_acc s) -> wsorted (c_acc s').
Proof.
  intros Hf [E|[E Ha]] Hs; rewrite E; [exact Hs|].
  apply wsorted_app; [exact Hs|]. intros m' Hin Efst. simpl in Efst |- *.
  destruct (Hf m' Hin) as [A|[A B]]; rewrite Efst in *; [exact A|]. rewrite Ha in B. discriminate.
Qed.

Section Lift.
  Variable P : params.
  Variable g : cfg.
  Variable J : csys -> Prop.
  Hypothesis J_fresh : forall s, J s -> fresh_ok s.
  Hypothesis J_micro : forall s t ch s' ns, J s -> cmicro g s t ch = Some (s', ns) -> J s'.
  Hypothesis J_op : forall s t ch s' l, J s -> cop P g s t ch = Some (s', l) -> J s'.

  Definition JS (s : csys) : Prop := J s /\ wsorted (c_acc s).

  Lemma crun_js fuel : forall s t ch acc s' ns, JS s -> crun fuel g s t ch acc = (s', ns) -> JS s'.
  Proof.
    induction fuel as [|f IH]; intros s t ch acc s' ns [Hj Hs] H; simpl in H.
    - inv_some H. split; assumption.
    - destruct (is_plain (t_pc (c_thr s t))).
      + destruct (cmicro g s t ch) as [[s1 ns1]|] eqn:E.
        * eapply IH; [|exact H]. split; [eapply J_micro; eauto|].
          eapply acc_step_sorted; [apply J_fresh; exact Hj|eapply cmicro_acc; exact E|exact Hs].
        * inv_some H. split; assumption.
      + inv_some H. split; assumption.
  Qed.

  Lemma cstep_js s t ch s' l : JS s -> cstep P g s t ch = Some (s', l) -> JS s'.
  Proof.
    intros [Hj Hs] H. unfold cstep in H.
    destruct (is_plain (t_pc (c_thr s t))).
    - destruct (cmicro g s t ch) as [[s1 ns1]|] eqn:E; [|discriminate H].
      destruct (crun 16 g s1 t ch ns1) as [s2 ns2] eqn:E2. inv_some H.
      eapply crun_js; [|exact E2]. split; [eapply J_micro; eauto|].
      eapply acc_step_sorted; [apply J_fresh; exact Hj|eapply cmicro_acc; exact E|exact Hs].
    - split; [eapply J_op; eauto|].
      eapply acc_step_sorted; [apply J_fresh; exact Hj|eapply cop_acc; exact H|exact Hs].
  Qed.

  Lemma reach_js nread ks sched : J (cinit g nread ks) -> JS (reach P g nread ks sched).
  Proof.
    intros H0. unfold reach. apply inv_exec.
    - intros s t c s' l Hjs H. eapply cstep_js; eauto.
    - split; [exact H0|exact I].
  Qed.
End Lift.

Theorem chan_writer_order_all P g nread ks sched : cfg_ok g ->
  chan_mo_ok P (g_rm g) = true -> lock_mo_ok P (g_wk g) = true ->
  let s := reach P g nread ks sched in
  wsorted (c_acc s) /\
  exists l, c_del s = map Some l /\ l = firstn (length (c_del s)) (c_acc s) /\ wsorted l.
Proof.
  intros Hg Hcm Hlm s.
  assert (Hs : wsorted (c_acc s)).
  { destruct (g_rm g) eqn:Erm.
    - assert (Hnm : g_rm g <> RMutex) by (rewrite Erm; discriminate).
      assert (Hcm' : chan_mo_ok P (g_rm g) = true) by (rewrite Erm; exact Hcm).
      refine (proj2 (reach_js P g (CInv g) _ _ _ nread ks sched _)).
      + intros s0 [_ V]. exact (v_fresh _ _ V).
      + intros s0 t ch s1 ns [I V] H. split; [eapply cmicro_sinv; eauto|eapply cmicro_vinv; eauto].
      + intros s0 t ch s1 l [I V] H. split; [eapply cop_sinv; eauto|eapply cop_vinv; eauto].
      + split; [now apply cinit_inv|apply cinit_vinv].
    - refine (proj2 (reach_js P g (CMInv g) _ _ _ nread ks sched _)).
      + intros s0 [_ M]. exact (m_fresh _ M).
      + intros s0 t ch s1 ns [I M] H. split; [eapply cmicro_sinv; eauto|eapply cmicro_minv; eauto].
      + intros s0 t ch s1 l [I M] H. split; [eapply cop_sinv; eauto|eapply cop_minv; eauto].
      + split; [now apply cinit_inv|apply cinit_minv].
    - assert (Hnm : g_rm g <> RMutex) by (rewrite Erm; discriminate).
      assert (Hcm' : chan_mo_ok P (g_rm g) = true) by (rewrite Erm; exact Hcm).
      refine (proj2 (reach_js P g (CInv g) _ _ _ nread ks sched _)).
      + intros s0 [_ V]. exact (v_fresh _ _ V).
      + intros s0 t ch s1 ns [I V] H. split; [eapply cmicro_sinv; eauto|eapply cmicro_vinv; eauto].
      + intros s0 t ch s1 l [I V] H. split; [eapply cop_sinv; eauto|eapply cop_vinv; eauto].
      + split; [now apply cinit_inv|apply cinit_vinv]. }
  split; [exact Hs|].
  destruct (chan_exactly_once_all P g nread ks sched Hg Hcm Hlm) as (A & _ & _). fold s in A.
  exists (firstn (length (c_del s)) (c_acc s)). split; [exact A|]. split; [reflexivity|].
  apply wsorted_firstn. exact Hs.
Qed.
