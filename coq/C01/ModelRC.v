(* C01 — READ-BEFORE-OVERWRITE: the consumer side of the hand-over.
   The views of Model.v order a write before a later read (is the reader's slot read covered by
   the writer's store?).  The opposite direction -- when a writer stores into a slot again, has the
   reader's read of the previous message in that slot completed, in happens-before order? -- is what
   the reader's RELEASE store of read_cursor is for: with a relaxed store the slot load may be
   satisfied after the cursor store, the writer sees the slot free and overwrites a message that
   has not been read yet.  This file adds that direction as an OBSERVER of the channel model (a
   product: the channel state is stepped by cmicro / cop of Model.v unchanged; a ghost record is
   updated alongside):
     - every plain slot read of the reader gets an epoch (1, 2, ...); r_last i = epoch of the
       latest read of slot i;
     - a store with memory order >= release publishes the storer's knowledge ("reads complete up
       to epoch n") on the atomic cell (read_cursor, the writer lock word), a weaker store
       publishes nothing; mutex unlock / condition wait publish on the mutex;
     - an acquiring operation (lock, compare-exchange / test-and-set with >= acquire, mutex lock)
       joins the cell's stamp into the thread's knowledge r_seen t.  The writer's load of
       read_cursor is taken as acquiring WHATEVER its memory order (the library loads it relaxed;
       that the slot store is only control-dependent on this load is recorded as an observation
       in the evidence, as before);
     - a writer's slot store is read-covered iff r_last slot <= r_seen writer; r_unc counts the
       stores that are not.
   Definitions only; proofs in ProofsRC.v. *)
From MV Require Export C01.Model.
Local Open Scope Z_scope.

Record rghost := {
  r_ep : nat;            (* slot reads done by the reader so far *)
  r_last : Z -> nat;     (* slot -> epoch of its latest read (0: never read) *)
  r_seen : nat -> nat;   (* thread -> reads it knows to be complete *)
  r_rst : nat;           (* published on read_cursor *)
  r_lst : nat;           (* published on the writer lock word / write mutex *)
  r_rmst : nat;          (* published on read_mutex *)
  r_unc : nat;           (* slot stores not ordered after an earlier read of the same slot *)
}.

Definition rg_seen (r : rghost) (t n : nat) : rghost :=
  {| r_ep := r_ep r; r_last := r_last r; r_seen := upd (r_seen r) t n; r_rst := r_rst r; r_lst := r_lst r;
     r_rmst := r_rmst r; r_unc := r_unc r |}.
Definition rg_rst (r : rghost) (n : nat) : rghost :=
  {| r_ep := r_ep r; r_last := r_last r; r_seen := r_seen r; r_rst := n; r_lst := r_lst r;
     r_rmst := r_rmst r; r_unc := r_unc r |}.
Definition rg_lst (r : rghost) (n : nat) : rghost :=
  {| r_ep := r_ep r; r_last := r_last r; r_seen := r_seen r; r_rst := r_rst r; r_lst := n;
     r_rmst := r_rmst r; r_unc := r_unc r |}.
Definition rg_rmst (r : rghost) (n : nat) : rghost :=
  {| r_ep := r_ep r; r_last := r_last r; r_seen := r_seen r; r_rst := r_rst r; r_lst := r_lst r;
     r_rmst := n; r_unc := r_unc r |}.
(* the reader reads slot i *)
Definition rg_read (r : rghost) (t : nat) (i : Z) : rghost :=
  let e := S (r_ep r) in
  {| r_ep := e; r_last := zupd (r_last r) i e; r_seen := upd (r_seen r) t e; r_rst := r_rst r; r_lst := r_lst r;
     r_rmst := r_rmst r; r_unc := r_unc r |}.
(* thread t stores into slot i *)
Definition rg_write (r : rghost) (t : nat) (i : Z) : rghost :=
  {| r_ep := r_ep r; r_last := r_last r; r_seen := r_seen r; r_rst := r_rst r; r_lst := r_lst r;
     r_rmst := r_rmst r; r_unc := if Nat.leb (r_last r i) (r_seen r t) then r_unc r else S (r_unc r) |}.

Definition njoin (mo : memorder) (seen stamp : nat) : nat := if is_acq mo then Nat.max seen stamp else seen.
Definition nrel (mo : memorder) (seen : nat) : nat := if is_rel mo then seen else 0%nat.
Definition nrmw (mo : memorder) (seen stamp : nat) : nat := if is_rel mo then Nat.max stamp seen else stamp.

(* what a plain micro-step did, read off the channel state before / after: a slot store bumps the
   version of the slot at the (old) write cursor, a slot read extends the delivered history *)
Definition wrote (s s' : csys) : bool := negb (Nat.eqb (c_sver s' (c_wcur s)) (c_sver s (c_wcur s))).
Definition didread (s s' : csys) : bool := negb (Nat.eqb (length (c_del s')) (length (c_del s))).

Definition gmicro (g : cfg) (s : csys) (t : nat) (s' : csys) (r : rghost) : rghost :=
  let r1 := if wrote s s' then rg_write r t (c_wcur s) else r in
  if didread s s'
  then rg_read r1 t (match g_rm g with RMutex => c_rcur s' | _ => t_r (c_thr s t) end)
  else r1.

(* operations: the same case split as cop of Model.v, for the steps that acquire or publish *)
Definition gop (P : params) (g : cfg) (s : csys) (t ch : nat) (r : rghost) : rghost :=
  let me := r_seen r t in
  match t_pc (c_thr s t) with
  | WLockOp =>
    match g_wk g with
    | WSpin => let mo := mo_spin_tas P in rg_lst (rg_seen r t (njoin mo me (r_lst r))) (nrmw mo me (r_lst r))
    | WSync =>
      if Z.eqb (c_lock s) 0 && negb (Nat.eqb ch 1)
      then let mo := mo_sync_cas P in rg_lst (rg_seen r t (njoin mo me (r_lst r))) (nrmw mo me (r_lst r))
      else r
    | WMutex => if Z.eqb (c_lock s) 0 then rg_seen r t (Nat.max me (r_lst r)) else r
    | WSingle => r
    end
  | WLoadR => rg_seen r t (Nat.max me (r_rst r))
  | WUnlockOp _ =>
    match g_wk g with
    | WSpin => rg_lst r (nrel (mo_spin_clear P) me)
    | WSync => rg_lst r (nrel (mo_sync_store P) me)
    | WMutex => rg_lst r me
    | WSingle => r
    end
  | WRmLock | RMLock | RCvWoken => if Z.eqb (c_rmx s) 0 then rg_seen r t (Nat.max me (r_rmst r)) else r
  | WRmUnlock _ | RMUnlock | RCvWait => rg_rmst r me
  | RStoreR => rg_rst r (nrel (match g_rm g with RSync => mo_rs_store P | _ => mo_rb_store P end) me)
  | _ => r
  end.

Record xsys := { x_s : csys; x_r : rghost }.

Definition xmicro (g : cfg) (xs : xsys) (t ch : nat) : option (xsys * list (nat * Z)) :=
  match cmicro g (x_s xs) t ch with
  | Some (s', ns) => Some ({| x_s := s'; x_r := gmicro g (x_s xs) t s' (x_r xs) |}, ns)
  | None => None
  end.
Definition xop (P : params) (g : cfg) (xs : xsys) (t ch : nat) : option (xsys * label) :=
  match cop P g (x_s xs) t ch with
  | Some (s', l) => Some ({| x_s := s'; x_r := gop P g (x_s xs) t ch (x_r xs) |}, l)
  | None => None
  end.
Fixpoint xrun (fuel : nat) (g : cfg) (xs : xsys) (t ch : nat) (acc : list (nat * Z)) : xsys * list (nat * Z) :=
  match fuel with
  | O => (xs, acc)
  | S f =>
    if is_plain (t_pc (c_thr (x_s xs) t)) then
      match xmicro g xs t ch with
      | Some (xs', ns) => xrun f g xs' t ch (acc ++ ns)
      | None => (xs, acc)
      end
    else (xs, acc)
  end.
Definition xstep (P : params) (g : cfg) (xs : xsys) (t ch : nat) : option (xsys * label) :=
  if is_plain (t_pc (c_thr (x_s xs) t)) then
    match xmicro g xs t ch with
    | Some (xs', ns) => let (xs'', ns') := xrun 16 g xs' t ch ns in Some (xs'', LPlain ns')
    | None => None
    end
  else xop P g xs t ch.

Definition rinit : rghost :=
  {| r_ep := 0; r_last := fun _ => 0%nat; r_seen := fun _ => 0%nat; r_rst := 0; r_lst := 0; r_rmst := 0; r_unc := 0 |}.
Definition xinit (g : cfg) (nread : nat) (ks : nat -> nat) : xsys := {| x_s := cinit g nread ks; x_r := rinit |}.

