(* C01 — capacity rounding of the model: round_cap is the least power of two >= the request. *)
From MV Require Import C01.Model C01.Dispatch.
Local Open Scope Z_scope.

Lemma round_cap_spec req : 1 <= req ->
  exists k, 0 <= k /\ round_cap req = 2 ^ k /\ req <= round_cap req /\ (1 < req -> round_cap req < 2 * req).
Proof.
  intros H. unfold round_cap. exists (Z.log2_up req). split; [apply Z.log2_up_nonneg|]. split; [reflexivity|].
  destruct (Z.eq_dec req 1) as [E|E].
  - subst. simpl. split; lia.
  - destruct (Z.log2_up_spec req ltac:(lia)) as [A B]. split; [exact B|]. intros _.
    assert (0 < Z.log2_up req) by (apply Z.log2_up_pos; lia).
    replace (Z.log2_up req) with (Z.succ (Z.pred (Z.log2_up req))) at 1 by lia.
    rewrite Z.pow_succ_r by lia. lia.
Qed.

(* in the range the channel accepts, the rounding fits muggle_sync_t and init_cap is round_cap *)
Lemma init_cap_round req : 1 <= req <= 2 ^ 31 -> init_cap req = Some (round_cap req).
Proof.
  intros H. unfold init_cap. destruct (Z.leb_spec req 0); [lia|].
  destruct (round_cap_spec req ltac:(lia)) as (k & Hk & E & Hle & Hlt).
  assert (Hb : 0 < round_cap req <= 2 ^ 31).
  { split; [lia|]. destruct (Z.eq_dec req 1) as [E1|E1]; [subst; vm_compute; discriminate|].
    (* round_cap req = 2^k < 2 * req <= 2^32, so k <= 31 *)
    specialize (Hlt ltac:(lia)). rewrite E in *.
    destruct (Z_le_gt_dec k 31) as [L|G]; [apply Z.pow_le_mono_r; lia|].
    assert (2 ^ 32 <= 2 ^ k) by (apply Z.pow_le_mono_r; lia). lia. }
  rewrite Z.mod_small by lia. destruct (Z.leb_spec (round_cap req) 0); [lia|reflexivity].
Qed.
