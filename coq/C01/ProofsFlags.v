(* C01 — the channel theorems quantified over the FLAGS argument of muggle_channel_init instead of
   over (writer-lock kind, reader mode): for EVERY integer flags value (valid, invalid and
   out-of-range selectors in either nibble, any higher bits) the configuration the mode table
   selects (mk_cfg_flags = flag_wk / flag_rm of Dispatch.v, proved equal to the code's dispatch by
   chan_dispatch_matches_model) satisfies the property; the only flags values with a usage
   hypothesis on the number of writers are those whose writer selector is exactly
   MUGGLE_CHANNEL_FLAG_WRITE_SINGLE (flags & 15 = 3).  Every other selector -- 0, 1, 2 and the
   "invalid" 4..15 that fall back to the mutex -- gives a real lock: at most one writer is inside
   the serialised region whatever the number of writers.  The mode table only looks at the low
   byte, so the 256 flag bytes the generator sweeps are exhaustive for the model. *)
From Coq Require Import ZArith List Lia Bool.
From MV Require Import C01.Model C01.ProofsArith C01.ProofsSC C01.ProofsView C01.ProofsViewM C01.ProofsOrder C01.Dispatch.
Import ListNotations.
Local Open Scope Z_scope.

(* ---------------- the mode table ---------------- *)
Lemma flag_wk_single_iff f : flag_wk f = WSingle <-> Z.land f 15 = 3.
Proof.
  unfold flag_wk. split.
  - destruct (Z.land f 15) as [|[[q|q|]|[q|q|]|]|q]; intros E; cbn in E; try discriminate E; reflexivity.
  - intros E. rewrite E. reflexivity.
Qed.

Lemma flag_wk_locked f : Z.land f 15 <> 3 -> flag_wk f <> WSingle.
Proof. intros H E. apply H. apply flag_wk_single_iff. exact E. Qed.

(* out-of-range writer selectors fall back to the mutex, out-of-range reader selectors too *)
Lemma flag_wk_out_of_range f : 3 < Z.land f 15 -> flag_wk f = WMutex.
Proof.
  unfold flag_wk. destruct (Z.land f 15) as [|[[q|q|]|[q|q|]|]|q]; intros H; try reflexivity; lia.
Qed.
Lemma flag_rm_out_of_range f : Z.land f 240 <> 0 -> Z.land f 240 <> 32 -> flag_rm f = RMutex.
Proof.
  unfold flag_rm. destruct (Z.land f 240) as [|p|p]; intros H0 H32; [lia| |reflexivity].
  do 6 (try (destruct p as [p|p|]; try reflexivity)). exfalso. apply H32. reflexivity.
Qed.

(* only the low byte matters *)
Lemma land_low_byte f m : 0 <= m < 256 -> Z.land m 255 = m -> Z.land (f mod 256) m = Z.land f m.
Proof.
  intros _ Hm. change 256 with (2 ^ 8). rewrite <- Z.land_ones by lia.
  rewrite <- Z.land_assoc. change (Z.ones 8) with 255. rewrite (Z.land_comm 255 m), Hm. reflexivity.
Qed.
Lemma flag_wk_byte f : flag_wk (f mod 256) = flag_wk f.
Proof. unfold flag_wk. rewrite land_low_byte; [reflexivity|lia|reflexivity]. Qed.
Lemma flag_rm_byte f : flag_rm (f mod 256) = flag_rm f.
Proof. unfold flag_rm. rewrite land_low_byte; [reflexivity|lia|reflexivity]. Qed.

Lemma mk_cfg_flags_byte f reqcap nw maxtry :
  mk_cfg_flags (f mod 256) reqcap nw maxtry = mk_cfg_flags f reqcap nw maxtry /\ 0 <= f mod 256 < 256.
Proof.
  unfold mk_cfg_flags. rewrite flag_wk_byte, flag_rm_byte. split; [reflexivity|apply Z.mod_pos_bound; lia].
Qed.

Lemma mk_cfg_flags_ok f reqcap nw maxtry :
  (Z.land f 15 = 3 -> (nw <= 1)%nat) -> cfg_ok (mk_cfg_flags f reqcap nw maxtry).
Proof.
  intros H. unfold mk_cfg_flags. apply mk_cfg_ok. intros E. apply H. apply flag_wk_single_iff. exact E.
Qed.

(* ---------------- the property, for every flags value ---------------- *)
Section Flags.
  Variable P : params.
  Hypothesis Hcm : forall rm, chan_mo_ok P rm = true.
  Hypothesis Hlm : forall wk, lock_mo_ok P wk = true.

  (* exactly once, in order, per-writer order, FULL only if full, no overwrite, covered reads *)
  Theorem chan_flags_delivery_all f reqcap nw maxtry nread ks sched :
    (Z.land f 15 = 3 -> (nw <= 1)%nat) ->
    let s := reach P (mk_cfg_flags f reqcap nw maxtry) nread ks sched in
    (c_del s = map Some (firstn (length (c_del s)) (c_acc s)) /\ (length (c_del s) <= length (c_acc s))%nat /\
     (length (c_del s) = length (c_acc s) -> c_del s = map Some (c_acc s))) /\
    (wsorted (c_acc s) /\
     exists l, c_del s = map Some l /\ l = firstn (length (c_del s)) (c_acc s) /\ wsorted l) /\
    c_badfull s = 0%nat /\ c_overw s = 0%nat /\ c_uncov s = 0%nat.
  Proof.
    intros H s. pose proof (mk_cfg_flags_ok f reqcap nw maxtry H) as Hg.
    split; [exact (chan_exactly_once_all P _ nread ks sched Hg (Hcm _) (Hlm _))|].
    split; [exact (chan_writer_order_all P _ nread ks sched Hg (Hcm _) (Hlm _))|].
    split; [exact (chan_full_only_if_full_all P _ nread ks sched Hg)|].
    split; [exact (chan_no_overwrite_all P _ nread ks sched Hg)|].
    exact (chan_reads_covered_all P _ nread ks sched Hg (Hcm _) (Hlm _)).
  Qed.

  (* the message about to be returned is an accepted one and its payload write is visible *)
  Theorem chan_flags_payload_visible_all f reqcap nw maxtry nread ks sched m :
    (Z.land f 15 = 3 -> (nw <= 1)%nat) ->
    let s := reach P (mk_cfg_flags f reqcap nw maxtry) nread ks sched in
    (t_pc (c_thr s 0%nat) = RStoreR \/ t_pc (c_thr s 0%nat) = RMUnlock \/ t_pc (c_thr s 0%nat) = RRet) ->
    t_d (c_thr s 0%nat) = Some m ->
    In m (c_acc s) /\ vget (t_view (c_thr s 0%nat)) (CPay m) = c_pver s m.
  Proof.
    intros H. exact (chan_payload_visible_all P _ nread ks sched m (mk_cfg_flags_ok f reqcap nw maxtry H) (Hcm _) (Hlm _)).
  Qed.
End Flags.

(* a writer selector other than WRITE_SINGLE is a lock, for ANY number of writers: the selected
   kind is not the no-op lock, at most one writer is inside the region between fn_lock and
   fn_unlock, nobody is inside while the lock word is free, and at most capacity - 2 accepted
   messages are unread (SC invariant; no hypothesis on the memory orders) *)
Theorem chan_flags_writers_excluded_all P f reqcap nw maxtry nread ks sched :
  Z.land f 15 <> 3 ->
  let g := mk_cfg_flags f reqcap nw maxtry in
  let s := reach P g nread ks sched in
  g_wk g <> WSingle /\
  (forall t u, hold (t_pc (c_thr s t)) = true -> hold (t_pc (c_thr s u)) = true -> t = u) /\
  (c_lock s = 0 -> forall t, hold (t_pc (c_thr s t)) = false) /\
  Z.of_nat (length (c_acc s)) - Z.of_nat (c_R s) <= usable (g_cap g).
Proof.
  intros H g s.
  assert (Hg : cfg_ok g) by (apply mk_cfg_flags_ok; intros E; contradiction).
  pose proof (chan_sc_invariant P g nread ks sched Hg) as I. fold (reach P g nread ks sched) in I. fold s in I.
  assert (Hk : g_wk g <> WSingle) by (unfold g, mk_cfg_flags; simpl; apply flag_wk_locked; exact H).
  split; [exact Hk|]. split; [exact (i_excl _ _ I)|]. split; [exact (i_free _ _ I Hk)|].
  exact (proj2 (i_RW _ _ I)).
Qed.

(* ---------------- non-vacuity ---------------- *)
(* flags 0x07: writer selector 7 is not a defined one (mutex fallback), futex reader; two writers,
   requested capacity 4.  Writer 1 takes the mutex and is pre-empted inside the serialised region
   (after its load of read_cursor); writer 2 then stops at the mutex (its steps are not enabled,
   the lock word is 1) and nothing has been accepted yet; continued round-robin with the reader,
   all four messages of the two writers are accepted and delivered once, in acceptance order. *)
Example chan_flags_nonvacuous :
  let g := mk_cfg_flags 7 4 2 0 in
  let s1 := reach sc_params g 4 (fun _ => 2%nat) (repeat (1, 0)%nat 4 ++ repeat (2, 0)%nat 10) in
  let s := reach sc_params g 4 (fun _ => 2%nat)
             (repeat (1, 0)%nat 4 ++ repeat (2, 0)%nat 10 ++ concat (repeat [(1, 0); (2, 0); (0, 0)]%nat 150)) in
  Z.land 7 15 <> 3 /\ g_wk g = WMutex /\ g_rm g = RSync /\ g_cap g = 4 /\
  t_pc (c_thr s1 1%nat) = WChk /\ hold (t_pc (c_thr s1 1%nat)) = true /\
  t_pc (c_thr s1 2%nat) = WLockOp /\ hold (t_pc (c_thr s1 2%nat)) = false /\ c_lock s1 = 1 /\ c_acc s1 = [] /\
  c_acc s = [(1, 0); (2, 0); (1, 1); (2, 1)]%nat /\ c_del s = map Some (c_acc s) /\
  t_pc (c_thr s 0%nat) = RDone /\ t_pc (c_thr s 1%nat) = WDone /\ t_pc (c_thr s 2%nat) = WDone /\
  c_badfull s = 0%nat /\ c_overw s = 0%nat /\ c_uncov s = 0%nat.
Proof. vm_compute. repeat split; try reflexivity. discriminate. Qed.

(* flags 0x2f = 47: writer selector 15 (mutex fallback), busy reader; three writers interleaved
   round-robin with the reader: six messages accepted, all delivered in acceptance order *)
Example chan_flags_nonvacuous_busy :
  let g := mk_cfg_flags 47 8 3 0 in
  let s := reach sc_params g 6 (fun _ => 2%nat)
             (concat (repeat [(1, 0); (2, 0); (3, 0); (0, 0)]%nat 120)) in
  g_wk g = WMutex /\ g_rm g = RBusy /\ length (c_acc s) = 6%nat /\ c_del s = map Some (c_acc s) /\
  c_badfull s = 0%nat /\ c_overw s = 0%nat /\ c_uncov s = 0%nat.
Proof. vm_compute. repeat split; reflexivity. Qed.
