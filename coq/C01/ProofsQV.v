(* C01 — array blocking queue: the payload hand-over is a happens-before edge.  Every access to the
   array and the indices happens under the one mutex; with the pthread semantics (unlock / condvar
   wait = release, lock / wake-up = acquire) the consumer's read of the array slot and, after the
   take, of the payload the producer wrote before the put are covered by the consumer's view.
   Any number of producers and consumers, any capacity, spurious wake-ups included. *)
From MV Require Import C01.Model C01.ModelQ C01.ProofsArith C01.ProofsView C01.ProofsQ.
Local Open Scope Z_scope.

Definition qver (s : qsys) (c : pcell) : nat := match c with CSlot i => q_sver s i | CPay m => q_pver s m end.
Definition qle (s : qsys) (v : view) : Prop := forall c, (vget v c <= qver s c)%nat.
Definition qcell (s : qsys) (c : pcell) : Prop := match c with CSlot _ => True | CPay m => In m (q_putl s) end.
Definition qcov (s : qsys) (v : view) : Prop := forall c, qcell s c -> vget v c = qver s c.
Definition qhold (p : qpc) : bool := match p with QChk | QSig | QAfterSig | QUnlock | QWait => true | _ => false end.
Definition qown (p : qpc) : bool := match p with Q0 | QFin | QDone => false | _ => true end.
Definition qafter (p : qpc) : bool := match p with QSig | QAfterSig | QUnlock | QRet => true | _ => false end.

Definition qkn (s : qsys) (t : nat) (x : qthread) : Prop :=
  q_is_prod s t = false -> qafter (q_pc x) = true ->
  match q_d x with Some m => In m (q_putl s) /\ vget (q_view x) (CPay m) = q_pver s m | None => True end.

Record QVInv (s : qsys) : Prop := {
  qv_le : forall t, qle s (q_view (q_thr s t));
  qv_le_mst : qle s (q_mst s);
  qv_mx01 : q_mx s = 0 \/ q_mx s = 1;
  qv_hold : forall t, qhold (q_pc (q_thr s t)) = true -> qcov s (q_view (q_thr s t));
  qv_free : q_mx s = 0 -> qcov s (q_mst s) /\ forall t, qhold (q_pc (q_thr s t)) = false;
  qv_excl : forall t u, qhold (q_pc (q_thr s t)) = true -> qhold (q_pc (q_thr s u)) = true -> t = u;
  qv_own : forall t, q_is_prod s t = true -> qown (q_pc (q_thr s t)) = true ->
           vget (q_view (q_thr s t)) (CPay (S t, q_seq (q_thr s t))) = q_pver s (S t, q_seq (q_thr s t));
  qv_fresh : forall m, In m (q_putl s) -> exists u, fst m = S u /\ q_is_prod s u = true /\
             ((snd m < q_seq (q_thr s u))%nat \/ (snd m = q_seq (q_thr s u) /\ qafter (q_pc (q_thr s u)) = true));
  qv_kn : forall t, qkn s t (q_thr s t);
  qv_uncov : q_uncov s = 0%nat;
}.

Ltac qunf := unfold qle, qcov, qcell, qkn, qver, q_is_prod in *.

Ltac ltb_cases :=
  repeat match goal with
  | |- context [if Nat.ltb ?a ?b then _ else _] => destruct (Nat.ltb a b)
  | H : context [if Nat.ltb ?a ?b then _ else _] |- _ => destruct (Nat.ltb a b)
  end.

Lemma qinit_vinv cap np n ks : QVInv (qinit cap np n ks).
Proof.
  constructor; qunf; simpl; intros; try (split; intros); ltb_cases; simpl in *;
    try discriminate; try lia; try contradiction; try reflexivity; auto.
  all: try (match goal with c : pcell |- _ => destruct c; reflexivity end).
Qed.

(* a step that changes only the stepping thread's record and keeps its hold on the mutex *)
Lemma qv_thr s t x' : QVInv s ->
  qle s (q_view x') ->
  qhold (q_pc x') = qhold (q_pc (q_thr s t)) ->
  (qhold (q_pc x') = true -> qcov s (q_view x')) ->
  (q_is_prod s t = true -> qown (q_pc x') = true ->
     vget (q_view x') (CPay (S t, q_seq x')) = q_pver s (S t, q_seq x')) ->
  (forall m, In m (q_putl s) -> fst m = S t ->
     (snd m < q_seq x')%nat \/ (snd m = q_seq x' /\ qafter (q_pc x') = true)) ->
  qkn s t x' ->
  QVInv (qset s t x').
Proof.
  intros V Hle Hh Hcov Hown Hfr Hk.
  destruct V as [Vl Vm V01 Vh Vf Vx Vo Vfr Vk Vu].
  constructor; qunf; simpl; try assumption.
  - intros a. unfold upd. destruct (Nat.eqb_spec a t); [exact Hle|apply Vl].
  - intros a Ha. unfold upd in *. destruct (Nat.eqb_spec a t); [apply Hcov; exact Ha|apply Vh; exact Ha].
  - intros H0. destruct (Vf H0) as [A B]. split; [exact A|].
    intros a. unfold upd. destruct (Nat.eqb_spec a t); [rewrite Hh; apply B|apply B].
  - intros a b Ha Hb. unfold upd in *.
    destruct (Nat.eqb_spec a t), (Nat.eqb_spec b t); subst; try reflexivity.
    + rewrite Hh in Ha. apply Vx; assumption.
    + rewrite Hh in Hb. apply Vx; assumption.
    + apply Vx; assumption.
  - intros a Hp Ha. unfold upd in *. destruct (Nat.eqb_spec a t); [subst a; apply Hown; assumption|apply Vo; assumption].
  - intros m Hm. destruct (Vfr m Hm) as (u & E1 & E2 & E3). exists u. split; [exact E1|]. split; [exact E2|].
    unfold upd. destruct (Nat.eqb_spec u t) as [E|E]; [|exact E3]. subst u. apply Hfr; assumption.
  - intros a. unfold upd. destruct (Nat.eqb_spec a t); [subst a; exact Hk|apply Vk].
Qed.

(* the view may grow by a join; everything else of the thread but the program counter stays *)
Lemma qv_thr_mono s t x' : QVInv s ->
  (forall c, (vget (q_view (q_thr s t)) c <= vget (q_view x') c <= qver s c)%nat) ->
  q_seq x' = q_seq (q_thr s t) -> q_d x' = q_d (q_thr s t) ->
  qhold (q_pc x') = qhold (q_pc (q_thr s t)) ->
  (qown (q_pc x') = true -> qown (q_pc (q_thr s t)) = true) ->
  (qafter (q_pc (q_thr s t)) = true -> qafter (q_pc x') = true) ->
  (qafter (q_pc x') = true -> qafter (q_pc (q_thr s t)) = true) ->
  QVInv (qset s t x').
Proof.
  intros V Hv Hseq Hd Hh Ho Ha Ha'. pose proof V as V0.
  destruct V as [Vl Vm V01 Vh Vf Vx Vo Vfr Vk Vu].
  apply qv_thr; try assumption.
  - intros c. apply Hv.
  - intros H c Hc. rewrite Hh in H. pose proof (Vh t H c Hc) as E. pose proof (Hv c). unfold qcov, qver in *. lia.
  - intros Hp H. rewrite Hseq. pose proof (Vo t Hp (Ho H)) as E.
    pose proof (Hv (CPay (S t, q_seq (q_thr s t)))) as B. simpl in B. lia.
  - intros m Hm0 E. rewrite Hseq. destruct (Vfr m Hm0) as (u & E1 & E2 & E3).
    assert (u = t) by congruence. subst u.
    destruct E3 as [A|[A B]]; [left; exact A|right; split; [exact A|apply Ha; exact B]].
  - unfold qkn. intros Hp Hq. rewrite Hd. pose proof (Vk t Hp (Ha' Hq)) as K.
    destruct (q_d (q_thr s t)) as [m|]; [|exact I]. destruct K as [K1 K2]. split; [exact K1|].
    pose proof (Hv (CPay m)) as B. simpl in B. pose proof (Vl t (CPay m)) as B2. unfold qle, qver in B2. lia.
Qed.

Lemma qv_setpc s t p' : QVInv s ->
  qhold p' = qhold (q_pc (q_thr s t)) ->
  (qown p' = true -> qown (q_pc (q_thr s t)) = true) ->
  (qafter (q_pc (q_thr s t)) = true -> qafter p' = true) ->
  (qafter p' = true -> qafter (q_pc (q_thr s t)) = true) ->
  QVInv (qset s t (qpc_set (q_thr s t) p')).
Proof.
  intros V H1 H2 H3 H4. apply qv_thr_mono; simpl; try assumption; try reflexivity.
  intros c. split; [lia|apply (qv_le _ V t c)].
Qed.

Ltac inv_some H := inversion H; subst; clear H.

(* the producer writes the payload of a fresh item *)
Lemma qv_payload s t : QVInv s -> q_is_prod s t = true -> q_pc (q_thr s t) = Q0 ->
  let x := q_thr s t in
  let m := (S t, q_seq x) in
  let n := S (q_pver s m) in
  QVInv (qset (qw_pay (mupd (q_pay s) m (tag m + 1000)) (qw_pver (mupd (q_pver s) m n) s)) t
           (qpc_set (qview_set x (vupd (q_view x) (CPay m) n)) QLock)).
Proof.
  intros V Hp Epc x m n. pose proof V as V0.
  destruct V as [Vl Vm V01 Vh Vf Vx Vo Vfr Vk Vu].
  set (s1 := qw_pay (mupd (q_pay s) m (tag m + 1000)) (qw_pver (mupd (q_pver s) m n) s)).
  assert (Hfresh : ~ In m (q_putl s)).
  { intros Hm. destruct (Vfr m Hm) as (u & E1 & _ & E3). unfold m in E1. simpl in E1. inversion E1. subst u.
    destruct E3 as [A|[A B]]; unfold m, x in *; simpl in *; [lia|]. rewrite Epc in B. discriminate. }
  assert (Hver : forall c, c <> CPay m -> qver s1 c = qver s c).
  { intros c Hc. destruct c as [i|m']; simpl; [reflexivity|]. unfold mupd.
    destruct (msg_eqb_spec m' m); [subst; contradiction|reflexivity]. }
  assert (Hverm : qver s1 (CPay m) = n).
  { simpl. unfold mupd. destruct (msg_eqb_spec m m); [reflexivity|contradiction]. }
  assert (Hle : forall v, qle s v -> qle s1 v).
  { intros v Hv c. destruct (pcell_eqb_spec c (CPay m)) as [E|E].
    - subst c. rewrite Hverm. specialize (Hv (CPay m)). simpl in Hv. unfold n. lia.
    - rewrite Hver by exact E. apply Hv. }
  assert (Hcov : forall v, qcov s v -> qcov s1 v).
  { intros v Hv c Hc. assert (c <> CPay m) by (intros E; subst c; simpl in Hc; contradiction).
    rewrite Hver by assumption. apply Hv. exact Hc. }
  assert (Hupd : forall c, c <> CPay m -> vget (vupd (q_view x) (CPay m) n) c = vget (q_view x) c).
  { intros c Hc. rewrite vget_vupd. destruct (pcell_eqb_spec c (CPay m)); [contradiction|reflexivity]. }
  assert (Hupdm : vget (vupd (q_view x) (CPay m) n) (CPay m) = n).
  { rewrite vget_vupd, pcell_eqb_refl. pose proof (Vl t (CPay m)) as B. simpl in B. fold x in B. unfold n. lia. }
  assert (Hlet : qle s1 (vupd (q_view x) (CPay m) n)).
  { intros c. destruct (pcell_eqb_spec c (CPay m)) as [E|E].
    - subst c. rewrite Hupdm. rewrite Hverm. lia.
    - rewrite Hupd by exact E. rewrite Hver by exact E. apply Vl. }
  constructor.
  - intros a. simpl. unfold upd. destruct (Nat.eqb_spec a t); [exact Hlet|apply Hle; apply Vl].
  - apply Hle; exact Vm.
  - exact V01.
  - intros a Ha. simpl in Ha |- *. unfold upd in *. destruct (Nat.eqb_spec a t); [simpl in Ha; discriminate Ha|].
    apply Hcov. apply Vh. exact Ha.
  - intros H0. destruct (Vf H0) as [A B]. split; [apply Hcov; exact A|].
    intros a. simpl. unfold upd. destruct (Nat.eqb_spec a t); [reflexivity|apply B].
  - intros a b Ha Hb. simpl in *. unfold upd in *.
    destruct (Nat.eqb_spec a t); [simpl in Ha; discriminate Ha|]. destruct (Nat.eqb_spec b t); [simpl in Hb; discriminate Hb|].
    apply Vx; assumption.
  - intros a Hpa Ha. simpl in *. unfold upd in *. destruct (Nat.eqb_spec a t).
    + subst a. simpl. fold x. fold m. rewrite Hupdm. unfold mupd. destruct (msg_eqb_spec m m); [reflexivity|contradiction].
    + unfold mupd. destruct (msg_eqb_spec (S a, q_seq (q_thr s a)) m) as [E|E]; [inversion E; contradiction|].
      apply Vo; assumption.
  - intros m' Hm'. simpl in *. destruct (Vfr m' Hm') as (u & E1 & E2 & E3). exists u. split; [exact E1|]. split; [exact E2|].
    unfold upd. destruct (Nat.eqb_spec u t) as [E|E]; [|exact E3]. subst u. simpl. left.
    destruct E3 as [A|[A B]]; [exact A|]. fold x in B. unfold x in B. rewrite Epc in B. discriminate.
  - intros a. simpl. unfold upd. destruct (Nat.eqb_spec a t).
    + subst a. unfold qkn. simpl. intros _ Hq. discriminate Hq.
    + pose proof (Vk a) as K. unfold qkn in *. simpl. intros Hpa Hq. specialize (K Hpa Hq).
      destruct (q_d (q_thr s a)) as [m'|]; [|exact I]. destruct K as [K1 K2]. split; [exact K1|].
      unfold mupd. destruct (msg_eqb_spec m' m) as [E2|E2]; [subst m'; contradiction|exact K2].
  - exact Vu.
Qed.

(* enqueue under the mutex: datas[put_idx] = data; the history grows by the producer's item *)
Lemma qv_enqueue s t : QVInv s -> q_is_prod s t = true -> q_pc (q_thr s t) = QChk ->
  let x := q_thr s t in
  let m := (S t, q_seq x) in
  let i := q_put s in
  let n := S (q_sver s i) in
  QVInv (qset (qw_datas (zupd (q_datas s) i (Some m)) (qw_sver (zupd (q_sver s) i n)
              (qw_put (ring_next i (q_cap s)) (qw_cnt (q_cnt s + 1) (qw_putl (q_putl s ++ [m]) s))))) t
           (qpc_set (qview_set x (vupd (q_view x) (CSlot i) n)) QSig)).
Proof.
  intros V Hp Epc x m i n. pose proof V as V0.
  destruct V as [Vl Vm V01 Vh Vf Vx Vo Vfr Vk Vu].
  assert (Hh : qhold (q_pc (q_thr s t)) = true) by (rewrite Epc; reflexivity).
  assert (Hnm : q_mx s <> 0).
  { intros E. destruct (Vf E) as [_ B]. rewrite (B t) in Hh. discriminate. }
  set (s1 := qw_datas (zupd (q_datas s) i (Some m)) (qw_sver (zupd (q_sver s) i n)
              (qw_put (ring_next i (q_cap s)) (qw_cnt (q_cnt s + 1) (qw_putl (q_putl s ++ [m]) s))))).
  assert (Hver : forall c, c <> CSlot i -> qver s1 c = qver s c).
  { intros c Hc. destruct c as [j|m']; simpl; [|reflexivity]. unfold zupd.
    destruct (Z.eqb_spec j i); [subst; contradiction|reflexivity]. }
  assert (Hveri : qver s1 (CSlot i) = n).
  { simpl. unfold zupd. now rewrite Z.eqb_refl. }
  assert (Hle : forall v, qle s v -> qle s1 v).
  { intros v Hv c. destruct (pcell_eqb_spec c (CSlot i)) as [E|E].
    - subst c. rewrite Hveri. specialize (Hv (CSlot i)). simpl in Hv. unfold n. lia.
    - rewrite Hver by exact E. apply Hv. }
  assert (Hupd : forall c, c <> CSlot i -> vget (vupd (q_view x) (CSlot i) n) c = vget (q_view x) c).
  { intros c Hc. rewrite vget_vupd. destruct (pcell_eqb_spec c (CSlot i)); [contradiction|reflexivity]. }
  assert (Hupdi : vget (vupd (q_view x) (CSlot i) n) (CSlot i) = n).
  { rewrite vget_vupd, pcell_eqb_refl. pose proof (Vl t (CSlot i)) as B. simpl in B. fold x in B. unfold n. lia. }
  assert (Hlet : qle s1 (vupd (q_view x) (CSlot i) n)).
  { intros c. destruct (pcell_eqb_spec c (CSlot i)) as [E|E].
    - subst c. rewrite Hupdi, Hveri. lia.
    - rewrite Hupd by exact E. rewrite Hver by exact E. apply Vl. }
  assert (Hown : vget (q_view x) (CPay m) = q_pver s m).
  { apply (Vo t Hp). rewrite Epc. reflexivity. }
  assert (Hcovt : qcov s1 (vupd (q_view x) (CSlot i) n)).
  { intros c Hc. destruct (pcell_eqb_spec c (CSlot i)) as [E|E].
    - subst c. rewrite Hupdi, Hveri. reflexivity.
    - rewrite Hupd by exact E. rewrite Hver by exact E.
      destruct c as [j|m']; [apply (Vh t Hh); exact I|].
      simpl in Hc. apply in_app_or in Hc. destruct Hc as [Hc|[Hc|[]]].
      + apply (Vh t Hh). exact Hc.
      + subst m'. exact Hown. }
  constructor.
  - intros a. simpl. unfold upd. destruct (Nat.eqb_spec a t); [exact Hlet|apply Hle; apply Vl].
  - apply Hle; exact Vm.
  - exact V01.
  - intros a Ha. simpl in Ha |- *. unfold upd in *. destruct (Nat.eqb_spec a t); [exact Hcovt|].
    exfalso. apply n0. apply Vx; assumption.
  - intros E. exfalso. apply Hnm. exact E.
  - intros a b Ha Hb. simpl in *. unfold upd in *.
    destruct (Nat.eqb_spec a t), (Nat.eqb_spec b t); subst; try reflexivity; simpl in *;
      first [apply Vx; [assumption|exact Hh] | symmetry; apply Vx; [assumption|exact Hh] | apply Vx; assumption].
  - intros a Hpa Ha. simpl in *. unfold upd in *. destruct (Nat.eqb_spec a t).
    + subst a. simpl. fold x. rewrite Hupd by discriminate. exact Hown.
    + apply Vo; assumption.
  - intros m' Hm'. simpl in Hm'. apply in_app_or in Hm'. destruct Hm' as [Hm'|[Hm'|[]]].
    + destruct (Vfr m' Hm') as (u & E1 & E2 & E3). exists u. split; [exact E1|]. split; [exact E2|].
      simpl. unfold upd. destruct (Nat.eqb_spec u t) as [E|E]; [|exact E3]. subst u. simpl. left.
      destruct E3 as [A|[A B]]; [exact A|]. rewrite Epc in B. discriminate.
    + subst m'. exists t. split; [reflexivity|]. split; [exact Hp|]. simpl. unfold upd. rewrite Nat.eqb_refl. simpl.
      right. split; reflexivity.
  - intros a. simpl. unfold upd. destruct (Nat.eqb_spec a t).
    + subst a. unfold qkn. simpl. unfold q_is_prod in *. simpl. intros Hq. rewrite Hp in Hq. discriminate.
    + pose proof (Vk a) as K. unfold qkn in *. simpl. intros Hpa Hq. specialize (K Hpa Hq).
      destruct (q_d (q_thr s a)) as [m'|]; [|exact I]. destruct K as [K1 K2]. split; [apply in_or_app; left; exact K1|exact K2].
  - exact Vu.
Qed.

(* pthread_mutex_lock / wake-up from a condition variable: acquire *)
Lemma qv_acquire s t : QVInv s -> q_mx s = 0 ->
  qhold (q_pc (q_thr s t)) = false -> qafter (q_pc (q_thr s t)) = false ->
  qown (q_pc (q_thr s t)) = true ->
  let x := q_thr s t in
  QVInv (qset (qmx_set s 1) t (qpc_set (qview_set x (vjoin (q_view x) (q_mst s))) QChk)).
Proof.
  intros V H0 Hnh Hna Ho x. pose proof V as V0.
  destruct V as [Vl Vm V01 Vh Vf Vx Vo Vfr Vk Vu].
  destruct (Vf H0) as [Fc Fn].
  assert (Hmono : forall c, (vget (q_view x) c <= vget (vjoin (q_view x) (q_mst s)) c <= qver s c)%nat).
  { intros c. rewrite vget_vjoin. pose proof (Vl t c). pose proof (Vm c). fold x in H. unfold qle in *. lia. }
  constructor; qunf; simpl; try assumption.
  - intros a. unfold upd. destruct (Nat.eqb_spec a t); [intros c; apply Hmono|apply Vl].
  - right; reflexivity.
  - intros a Ha c Hc. unfold upd in *. destruct (Nat.eqb_spec a t).
    + simpl. rewrite vget_vjoin. pose proof (Fc c Hc). pose proof (Vl t c). fold x in H1. unfold qle, qver in *. lia.
    + rewrite (Fn a) in Ha. discriminate.
  - intros E. discriminate E.
  - intros a b Ha Hb. unfold upd in *.
    destruct (Nat.eqb_spec a t), (Nat.eqb_spec b t); subst; try reflexivity.
    + rewrite (Fn b) in Hb. discriminate.
    + rewrite (Fn a) in Ha. discriminate.
    + rewrite (Fn a) in Ha. discriminate.
  - intros a Hp Hq. unfold upd in *. destruct (Nat.eqb_spec a t); [|apply Vo; assumption].
    subst a. simpl in *. pose proof (Vo t Hp Ho) as E. fold x in E.
    pose proof (Hmono (CPay (S t, q_seq x))) as B. simpl in B. lia.
  - intros m Hin. destruct (Vfr m Hin) as (u & E1 & E2 & E3). exists u. split; [exact E1|]. split; [exact E2|].
    unfold upd. destruct (Nat.eqb_spec u t) as [E|E]; [|exact E3]. subst u. simpl. left.
    destruct E3 as [A|[A B]]; [exact A|]. rewrite Hna in B. discriminate.
  - intros a. unfold upd. destruct (Nat.eqb_spec a t); [|apply Vk].
    subst a. simpl. intros _ Hq. discriminate Hq.
Qed.

(* pthread_mutex_unlock / condition-variable wait: release *)
Lemma qv_release s t p' : QVInv s ->
  qhold (q_pc (q_thr s t)) = true -> qhold p' = false -> qown p' = true ->
  qown (q_pc (q_thr s t)) = true ->
  (qafter (q_pc (q_thr s t)) = true -> qafter p' = true) ->
  (qafter p' = true -> qafter (q_pc (q_thr s t)) = true) ->
  QVInv (qset (qw_mst (q_view (q_thr s t)) (qmx_set s 0)) t (qpc_set (q_thr s t) p')).
Proof.
  intros V Hh Hh' Ho' Ho Ha Ha'. pose proof V as V0.
  destruct V as [Vl Vm V01 Vh Vf Vx Vo Vfr Vk Vu].
  constructor; qunf; simpl; try assumption.
  - intros a. unfold upd. destruct (Nat.eqb_spec a t); apply Vl.
  - apply Vl.
  - left; reflexivity.
  - intros a Hq. unfold upd in *. destruct (Nat.eqb_spec a t); [simpl in Hq; congruence|apply Vh; exact Hq].
  - intros _. split; [apply Vh; exact Hh|].
    intros a. unfold upd. destruct (Nat.eqb_spec a t); [exact Hh'|].
    destruct (qhold (q_pc (q_thr s a))) eqn:E; [|reflexivity]. exfalso. apply n. apply Vx; assumption.
  - intros a b Hq Hb. unfold upd in *.
    destruct (Nat.eqb_spec a t), (Nat.eqb_spec b t); subst; try reflexivity; simpl in *; try congruence.
    apply Vx; assumption.
  - intros a Hp Hq. unfold upd in *. destruct (Nat.eqb_spec a t); [subst a; simpl; apply Vo; assumption|apply Vo; assumption].
  - intros m Hin. destruct (Vfr m Hin) as (u & E1 & E2 & E3). exists u. split; [exact E1|]. split; [exact E2|].
    unfold upd. destruct (Nat.eqb_spec u t) as [E|E]; [|exact E3]. subst u. simpl.
    destruct E3 as [A|[A B]]; [left; exact A|right; split; [exact A|apply Ha; exact B]].
  - intros a. unfold upd. destruct (Nat.eqb_spec a t); [|apply Vk].
    subst a. simpl. intros Hp Hq. apply (Vk t Hp). apply Ha'. exact Hq.
Qed.

Lemma qmicro_vinv s t s' ns : QInv s -> QVInv s -> qmicro s t = Some (s', ns) -> QVInv s'.
Proof.
  intros I V H. unfold qmicro in H.
  destruct (q_pc (q_thr s t)) eqn:Epc; try discriminate H.
  - (* Q0 *)
    destruct (q_todo (q_thr s t)).
    + inv_some H. apply qv_setpc; rewrite ?Epc; try reflexivity; try exact V; simpl; intros; discriminate.
    + destruct (q_is_prod s t) eqn:Ep; inv_some H.
      * apply qv_payload; assumption.
      * apply qv_thr; simpl; rewrite ?Epc; try reflexivity; try exact V.
        -- apply (qv_le _ V t).
        -- intros; discriminate.
        -- intros Hp. rewrite Hp in Ep. discriminate Ep.
        -- intros m Hm E. destruct (qv_fresh _ V m Hm) as (u & E1 & E2 & E3).
           assert (u = t) by congruence. subst u. rewrite E2 in Ep. discriminate.
        -- unfold qkn. simpl. intros _ Hq. discriminate Hq.
  - (* QChk *)
    destruct (q_is_prod s t) eqn:Ep.
    + destruct (Z.eqb (q_cnt s) (q_cap s)); inv_some H.
      * assert (V1 : QVInv (qbad s (Z.eqb (in_flight s) (q_cap s)))).
        { destruct V. unfold qbad. constructor; qunf; simpl in *; assumption. }
        apply (qv_setpc _ t QWait V1); simpl; rewrite ?Epc; try reflexivity; simpl; intros; discriminate.
      * apply qv_enqueue; assumption.
    + destruct (Z.eqb_spec (q_cnt s) 0) as [E|E]; inv_some H.
      * assert (V1 : QVInv (qbad s (Z.eqb (in_flight s) 0))).
        { destruct V. unfold qbad. constructor; qunf; simpl in *; assumption. }
        apply (qv_setpc _ t QWait V1); simpl; rewrite ?Epc; try reflexivity; simpl; intros; discriminate.
      * (* dequeue *)
        assert (Hh : qhold (q_pc (q_thr s t)) = true) by (rewrite Epc; reflexivity).
        pose proof (qv_hold _ V t Hh) as Cov.
        pose proof (Cov (CSlot (q_take s)) Logic.I) as C1. simpl in C1.
        rewrite C1, Nat.eqb_refl. unfold qunc.
        destruct I as [Ic [Icn Icb] Ip It Id If Ib]. unfold Pn, Tn in *.
        assert (Hsl : q_datas s (q_take s) = Some (nth (length (q_taken s)) (q_putl s) dmsg)).
        { rewrite It. apply Id. lia. }
        assert (Hin : In (nth (length (q_taken s)) (q_putl s) dmsg) (q_putl s)) by (apply nth_In; lia).
        assert (V1 : QVInv (qw_uncov (q_uncov s) (qw_take (ring_next (q_take s) (q_cap s)) (qw_cnt (q_cnt s - 1)
                       (qw_taken (q_taken s ++ [q_datas s (q_take s)]) s))))).
        { destruct V. constructor; qunf; simpl in *; assumption. }
        apply qv_thr; simpl; rewrite ?Epc; try reflexivity; try exact V1.
        -- apply (qv_le _ V t).
        -- intros _. exact Cov.
        -- unfold q_is_prod in *. simpl. intros Hp. rewrite Hp in Ep. discriminate Ep.
        -- intros m Hm E0. destruct (qv_fresh _ V m Hm) as (u & E1 & E2 & E3).
           assert (u = t) by congruence. subst u. rewrite E2 in Ep. discriminate.
        -- unfold qkn. simpl. intros _ _. rewrite Hsl. split; [exact Hin|]. apply (Cov (CPay _)). exact Hin.
  - (* QAfterSig *)
    inv_some H. apply qv_setpc; rewrite ?Epc; try reflexivity; try exact V; simpl; intros; reflexivity.
  - (* QRet *)
    assert (Hfr : forall m, In m (q_putl s) -> fst m = S t -> (snd m < S (q_seq (q_thr s t)))%nat).
    { intros m Hm E. destruct (qv_fresh _ V m Hm) as (u & E1 & E2 & E3). assert (u = t) by congruence. subst u.
      destruct E3 as [A|[A B]]; lia. }
    destruct (q_is_prod s t) eqn:Ep; inv_some H.
    + apply qv_thr; simpl; rewrite ?Epc; try reflexivity; try exact V.
      * apply (qv_le _ V t).
      * intros; discriminate.
      * intros; discriminate.
      * intros m Hm E. left. apply Hfr; assumption.
      * unfold qkn. simpl. intros _ Hq. discriminate Hq.
    + pose proof (qv_kn _ V t Ep) as K. rewrite Epc in K. specialize (K eq_refl).
      assert (Hcov : (match q_d (q_thr s t) with
                      | Some m' => Nat.eqb (vget (q_view (q_thr s t)) (CPay m')) (q_pver s m') | None => true end) = true).
      { destruct (q_d (q_thr s t)); [|reflexivity]. destruct K as [_ K]. rewrite K. apply Nat.eqb_refl. }
      rewrite Hcov. unfold qunc.
      assert (V1 : QVInv (qw_uncov (q_uncov s) s)).
      { destruct V. constructor; qunf; simpl in *; assumption. }
      apply qv_thr; simpl; rewrite ?Epc; try reflexivity; try exact V1.
      * apply (qv_le _ V t).
      * intros; discriminate.
      * intros; discriminate.
      * intros m Hm E. left. apply Hfr; assumption.
      * unfold qkn. simpl. intros _ Hq. discriminate Hq.
Qed.

Lemma q_first_spec s nf n u : q_first s nf n = Some u -> q_pc (q_thr s u) = QBlocked.
Proof.
  induction n as [|m IH]; simpl; [discriminate|].
  destruct (q_first s nf m) as [v|] eqn:E.
  - intros H; inversion H; subst. now apply IH.
  - destruct (q_pc (q_thr s m)) eqn:Ep; try discriminate.
    destruct (Bool.eqb (q_waits_nf s m) nf); [|discriminate]. intros H; inversion H; subst. exact Ep.
Qed.
Lemma q_pick_spec s nf n ch u : q_pick s nf n ch = Some u -> q_pc (q_thr s u) = QBlocked.
Proof.
  unfold q_pick. destruct (q_pc (q_thr s ch)) eqn:E; try apply q_first_spec.
  destruct (Bool.eqb (q_waits_nf s ch) nf && Nat.ltb ch n); [|apply q_first_spec].
  intros H; inversion H; subst. exact E.
Qed.

Lemma qop_vinv n s t ch s' l : QVInv s -> qop n s t ch = Some (s', l) -> QVInv s'.
Proof.
  intros V H. unfold qop in H.
  destruct (q_pc (q_thr s t)) eqn:Epc; try discriminate H.
  - (* QLock *)
    destruct (Z.eqb_spec (q_mx s) 0) as [E|E]; [|discriminate H]. inv_some H.
    apply qv_acquire; rewrite ?Epc; try reflexivity; assumption.
  - (* QWait *)
    inv_some H. apply qv_release; rewrite ?Epc; try reflexivity; try exact V; simpl; intros; discriminate.
  - (* QBlocked *)
    destruct (Nat.eqb ch 1); [|discriminate H]. inv_some H.
    apply qv_setpc; rewrite ?Epc; try reflexivity; try exact V; simpl; intros; discriminate.
  - (* QWoken *)
    destruct (Z.eqb_spec (q_mx s) 0) as [E|E]; [|discriminate H]. inv_some H.
    apply qv_acquire; rewrite ?Epc; try reflexivity; assumption.
  - (* QSig *)
    destruct (q_pick s (negb (q_is_prod s t)) n ch) as [u|] eqn:Ef.
    + pose proof (q_pick_spec _ _ _ _ _ Ef) as Hu. inv_some H.
      assert (Hne : t <> u) by (intros E; subst u; rewrite Epc in Hu; discriminate Hu).
      assert (V1 : QVInv (qset s u (qpc_set (q_thr s u) QWoken))).
      { apply qv_setpc; rewrite ?Hu; try reflexivity; try exact V; simpl; intros; discriminate. }
      assert (E1 : q_thr (qset s u (qpc_set (q_thr s u) QWoken)) t = q_thr s t).
      { simpl. apply upd_other. exact Hne. }
      rewrite upd_other by exact Hne. rewrite <- E1.
      apply qv_setpc; rewrite ?E1, ?Epc; try reflexivity; try exact V1; simpl; intros; reflexivity.
    + inv_some H. apply qv_setpc; rewrite ?Epc; try reflexivity; try exact V; simpl; intros; reflexivity.
  - (* QUnlock *)
    inv_some H. apply qv_release; rewrite ?Epc; try reflexivity; try exact V; simpl; intros; reflexivity.
  - (* QFin *)
    inv_some H. apply qv_setpc; rewrite ?Epc; try reflexivity; try exact V; simpl; intros; discriminate.
Qed.

(* ---------------- executions ---------------- *)
Definition QC (s : qsys) : Prop := QInv s /\ QVInv s.

Lemma qrun_qc fuel : forall s t acc s' ns, QC s -> qrun fuel s t acc = (s', ns) -> QC s'.
Proof.
  induction fuel as [|f IH]; intros s t acc s' ns [I V] H; simpl in H; [inv_some H; split; assumption|].
  destruct (q_is_plain (q_pc (q_thr s t))); [|inv_some H; split; assumption].
  destruct (qmicro s t) as [[s1 ns1]|] eqn:E; [|inv_some H; split; assumption].
  eapply IH; [|exact H]. split; [eapply qmicro_inv; eauto|eapply qmicro_vinv; eauto].
Qed.

Lemma qstep_qc n s t ch s' l : QC s -> qstep n s t ch = Some (s', l) -> QC s'.
Proof.
  intros [I V] H. unfold qstep in H. destruct (q_is_plain (q_pc (q_thr s t))).
  - destruct (qmicro s t) as [[s1 ns1]|] eqn:E; [|discriminate H].
    destruct (qrun 8 s1 t ns1) as [s2 ns2] eqn:E2. inv_some H.
    eapply qrun_qc; [|exact E2]. split; [eapply qmicro_inv; eauto|eapply qmicro_vinv; eauto].
  - split; [eapply qop_inv; eauto|eapply qop_vinv; eauto].
Qed.

(* every plain read of a consumer (array slot under the mutex, payload after the take) is covered
   by its view; the item a consumer is about to return was put, and the payload its producer
   wrote before the put is visible to the consumer *)
Theorem abq_payload_visible_all cap np n ks sched t m : 0 < cap ->
  let s := qreach cap np n ks sched in
  q_uncov s = 0%nat /\
  (q_is_prod s t = false -> qafter (q_pc (q_thr s t)) = true -> q_d (q_thr s t) = Some m ->
   In m (q_putl s) /\ vget (q_view (q_thr s t)) (CPay m) = q_pver s m).
Proof.
  intros Hc s.
  assert (C : QC s).
  { unfold s, qreach. apply inv_exec; [|split; [now apply qinit_inv|apply qinit_vinv]].
    intros; eapply qstep_qc; eauto. }
  destruct C as [_ V]. split; [exact (qv_uncov _ V)|].
  intros Hp Hq Hd. pose proof (qv_kn _ V t Hp Hq) as K. rewrite Hd in K. exact K.
Qed.

Example abq_visible_nonvacuous :
  let s := qreach 1 1 2 (fun _ => 2%nat) (repeat (0, 0) 12 ++ repeat (1, 0) 6)%nat in
  q_is_prod s 1%nat = false /\ q_pc (q_thr s 1%nat) = QRet /\ q_d (q_thr s 1%nat) = Some (1, 0)%nat /\
  vget (q_view (q_thr s 1%nat)) (CPay (1, 0)%nat) = 1%nat /\ q_pver s (1, 0)%nat = 1%nat /\ q_uncov s = 0%nat.
Proof. vm_compute. repeat split; reflexivity. Qed.
