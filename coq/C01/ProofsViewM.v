(* C01 — channel, visibility in the MUTEX reader mode: every access to the cursors, the slots and
   the hand-over of the payloads goes through read_mutex; with the pthread mutex semantics
   (unlock = release, lock = acquire, condvar wait = unlock ... lock) every plain read of the
   reader is covered by its view.  All four writer-lock kinds; their memory orders are irrelevant
   here. *)
From MV Require Import C01.Model C01.ProofsArith C01.ProofsSC C01.ProofsView.
Local Open Scope Z_scope.

(* program points at which a thread holds read_mutex *)
Definition rhold (p : pc) : bool :=
  match p with WRmChk | WRmUnlock _ | RMChk | RMUnlock | RCvWait => true | _ => false end.
(* program points that exist only in the sync / busy modes *)
Definition nonmutex_pc (p : pc) : bool :=
  match p with
  | WLoadR | WChk | WPub _ | WWake | RLoadW | RChk | RStoreR | RWait | RBlocked | RLoop => true
  | _ => false
  end.

Definition mknow (s : csys) (x : cthread) : Prop :=
  match t_pc x with
  | RMUnlock | RRet =>
    match t_d x with Some m => In m (c_acc s) /\ vget (t_view x) (CPay m) = c_pver s m | None => True end
  | _ => True
  end.

Record MInv (s : csys) : Prop := {
  m_le_thr : forall t, le_ver s (t_view (c_thr s t));
  m_le_lst : le_ver s (c_lst s);
  m_le_rmst : le_ver s (c_rmst s);
  m_rmx01 : c_rmx s = 0 \/ c_rmx s = 1;
  m_rhold : forall t, rhold (t_pc (c_thr s t)) = true -> cov_all s (t_view (c_thr s t));
  m_rfree : c_rmx s = 0 -> cov_all s (c_rmst s) /\ forall t, rhold (t_pc (c_thr s t)) = false;
  m_rexcl : forall t u, rhold (t_pc (c_thr s t)) = true -> rhold (t_pc (c_thr s u)) = true -> t = u;
  m_own : forall t, own_pc (t_pc (c_thr s t)) = true ->
          vget (t_view (c_thr s t)) (CPay (t, t_seq (c_thr s t))) = c_pver s (t, t_seq (c_thr s t));
  m_fresh : forall m, In m (c_acc s) ->
            (snd m < t_seq (c_thr s (fst m)))%nat \/
            (snd m = t_seq (c_thr s (fst m)) /\ after_pub (t_pc (c_thr s (fst m))) = true);
  m_mode : forall t, nonmutex_pc (t_pc (c_thr s t)) = false;
  m_know : mknow s (c_thr s 0%nat);
  m_uncov : c_uncov s = 0%nat;
}.

Ltac munf := unfold le_ver, cov_all, wcell, mknow, ver in *.
Ltac mframe M := let J := fresh "J" in pose proof M as J; destruct J; constructor; munf; simpl in *; assumption.

Lemma cinit_minv g nread ks : MInv (cinit g nread ks).
Proof.
  constructor; munf; simpl; try (intros; lia); try reflexivity; auto.
  - intros t c. destruct (Nat.eqb t 0); [simpl; lia|]. destruct (Nat.leb t (g_nw g)); simpl; lia.
  - intros t. destruct (Nat.eqb t 0); [simpl; discriminate|]. destruct (Nat.leb t (g_nw g)); simpl; discriminate.
  - intros _. split; [intros c _; destruct c; reflexivity|].
    intros t. destruct (Nat.eqb t 0); [reflexivity|]. destruct (Nat.leb t (g_nw g)); reflexivity.
  - intros t u. destruct (Nat.eqb t 0); [simpl; discriminate|]. destruct (Nat.leb t (g_nw g)); simpl; discriminate.
  - intros t. destruct (Nat.eqb t 0); [simpl; discriminate|]. destruct (Nat.leb t (g_nw g)); simpl; discriminate.
  - intros t. destruct (Nat.eqb t 0); [reflexivity|]. destruct (Nat.leb t (g_nw g)); reflexivity.
Qed.

(* a step that changes only the stepping thread's record, keeping its hold on read_mutex *)
Lemma minv_thr s t x' : MInv s ->
  le_ver s (t_view x') ->
  rhold (t_pc x') = rhold (t_pc (c_thr s t)) ->
  (rhold (t_pc x') = true -> cov_all s (t_view x')) ->
  (own_pc (t_pc x') = true -> vget (t_view x') (CPay (t, t_seq x')) = c_pver s (t, t_seq x')) ->
  (forall m, In m (c_acc s) -> fst m = t ->
     (snd m < t_seq x')%nat \/ (snd m = t_seq x' /\ after_pub (t_pc x') = true)) ->
  nonmutex_pc (t_pc x') = false ->
  (t = 0%nat -> mknow s x') ->
  MInv (put_thr t x' s).
Proof.
  intros M Hle Hrh Hcov Hown Hfr Hmode Hk.
  destruct M as [Mt Ml Mm M01 Mh Mf Mx Mo Mfr Mmo Mk Mu].
  constructor; munf; simpl; try assumption.
  - intros a. unfold upd. destruct (Nat.eqb_spec a t); [exact Hle|apply Mt].
  - intros a Ha. unfold upd in *. destruct (Nat.eqb_spec a t); [apply Hcov; exact Ha|apply Mh; exact Ha].
  - intros H0. destruct (Mf H0) as [A B]. split; [exact A|].
    intros a. unfold upd. destruct (Nat.eqb_spec a t); [rewrite Hrh; apply B|apply B].
  - intros a b Ha Hb. unfold upd in *.
    destruct (Nat.eqb_spec a t), (Nat.eqb_spec b t); subst; try reflexivity.
    + rewrite Hrh in Ha. apply Mx; assumption.
    + rewrite Hrh in Hb. apply Mx; assumption.
    + apply Mx; assumption.
  - intros a Ha. unfold upd in *. destruct (Nat.eqb_spec a t); [subst a; apply Hown; exact Ha|apply Mo; exact Ha].
  - intros m Hm. unfold upd. destruct (Nat.eqb_spec (fst m) t) as [E|E]; [apply Hfr; [exact Hm|exact E]|apply Mfr; exact Hm].
  - intros a. unfold upd. destruct (Nat.eqb_spec a t); [exact Hmode|apply Mmo].
  - unfold upd. destruct (Nat.eqb_spec 0%nat t) as [E|E]; [apply Hk; symmetry; exact E|exact Mk].
Qed.

(* the view may grow (joins), the sequence number stays *)
Lemma minv_thr_mono s t x' : MInv s ->
  (forall c, (vget (t_view (c_thr s t)) c <= vget (t_view x') c <= ver s c)%nat) ->
  t_seq x' = t_seq (c_thr s t) ->
  rhold (t_pc x') = rhold (t_pc (c_thr s t)) ->
  (own_pc (t_pc x') = true -> own_pc (t_pc (c_thr s t)) = true) ->
  (after_pub (t_pc (c_thr s t)) = true -> after_pub (t_pc x') = true) ->
  nonmutex_pc (t_pc x') = false ->
  (t = 0%nat -> mknow s x') ->
  MInv (put_thr t x' s).
Proof.
  intros M Hv Hseq Hrh Ho Ha Hmode Hk. pose proof M as M0.
  destruct M as [Mt Ml Mm M01 Mh Mf Mx Mo Mfr Mmo Mk Mu].
  apply minv_thr; try assumption.
  - intros c. apply Hv.
  - intros H c Hc. rewrite Hrh in H. pose proof (Mh t H c Hc) as E. pose proof (Hv c). lia.
  - intros H. rewrite Hseq. pose proof (Mo t (Ho H)) as E. pose proof (Hv (CPay (t, t_seq (c_thr s t)))) as B.
    simpl in B. lia.
  - intros m Hm0 E. subst t. rewrite Hseq.
    destruct (Mfr m Hm0) as [A|[A B]]; [left; exact A|right; split; [exact A|apply Ha; exact B]].
Qed.

Lemma minv_setpc s t p' : MInv s ->
  rhold p' = rhold (t_pc (c_thr s t)) ->
  (own_pc p' = true -> own_pc (t_pc (c_thr s t)) = true) ->
  (after_pub (t_pc (c_thr s t)) = true -> after_pub p' = true) ->
  nonmutex_pc p' = false ->
  (t = 0%nat -> mknow s (set_pc (c_thr s t) p')) ->
  MInv (put_thr t (set_pc (c_thr s t) p') s).
Proof.
  intros M Hrh Ho Ha Hm Hk.
  apply minv_thr_mono; simpl; try assumption; try reflexivity.
  intros c. split; [lia|apply (m_le_thr _ M t c)].
Qed.

(* the producer writes the payload of a fresh message *)
Lemma minv_payload g s t : SInv g s -> MInv s ->
  t_pc (c_thr s t) = W0 ->
  let x := c_thr s t in
  let m := (t, t_seq x) in
  let n := S (c_pver s m) in
  MInv (put_thr t (set_pc (set_view x (vupd (t_view x) (CPay m) n)) WCall)
          (w_pay (mupd (c_pay s) m (tag m + 1000)) (w_pver (mupd (c_pver s) m n) s))).
Proof.
  intros I M Epc x m n. pose proof M as M0.
  destruct M as [Mt Ml Mm M01 Mh Mf Mx Mo Mfr Mmo Mk Mu].
  set (s1 := w_pay (mupd (c_pay s) m (tag m + 1000)) (w_pver (mupd (c_pver s) m n) s)).
  assert (Hfresh : ~ In m (c_acc s)).
  { intros Hm. destruct (Mfr m Hm) as [A|[A B]]; unfold m, x in *; simpl in *; [lia|]. rewrite Epc in B. discriminate. }
  assert (Ht : (1 <= t)%nat).
  { pose proof (i_role _ _ I t) as R. rewrite Epc in R. unfold role_ok in R; simpl in R. destruct R as [R|R]; [discriminate R|lia]. }
  assert (Hver : forall c, c <> CPay m -> ver s1 c = ver s c).
  { intros c Hc. destruct c as [i|m']; simpl; [reflexivity|]. unfold mupd.
    destruct (msg_eqb_spec m' m); [subst; contradiction|reflexivity]. }
  assert (Hverm : ver s1 (CPay m) = n).
  { simpl. unfold mupd. destruct (msg_eqb_spec m m); [reflexivity|contradiction]. }
  assert (Hle : forall v, le_ver s v -> le_ver s1 v).
  { intros v Hv c. destruct (pcell_eqb_spec c (CPay m)) as [E|E].
    - subst c. rewrite Hverm. specialize (Hv (CPay m)). simpl in Hv. unfold n. lia.
    - rewrite Hver by exact E. apply Hv. }
  assert (Hcov : forall v, cov_all s v -> cov_all s1 v).
  { intros v Hv c Hc. assert (c <> CPay m) by (intros E; subst c; simpl in Hc; contradiction).
    rewrite Hver by assumption. apply Hv. exact Hc. }
  assert (Hupd : forall c, c <> CPay m -> vget (vupd (t_view x) (CPay m) n) c = vget (t_view x) c).
  { intros c Hc. rewrite vget_vupd. destruct (pcell_eqb_spec c (CPay m)); [contradiction|reflexivity]. }
  assert (Hupdm : vget (vupd (t_view x) (CPay m) n) (CPay m) = n).
  { rewrite vget_vupd, pcell_eqb_refl. pose proof (Mt t (CPay m)) as B. simpl in B. fold x in B. unfold n. lia. }
  assert (Hlet : le_ver s1 (vupd (t_view x) (CPay m) n)).
  { intros c. destruct (pcell_eqb_spec c (CPay m)) as [E|E].
    - subst c. rewrite Hupdm. rewrite Hverm. lia.
    - rewrite Hupd by exact E. rewrite Hver by exact E. apply Mt. }
  constructor.
  - intros a. simpl. unfold upd. destruct (Nat.eqb_spec a t); [exact Hlet|apply Hle; apply Mt].
  - apply Hle; exact Ml.
  - apply Hle; exact Mm.
  - exact M01.
  - intros a Ha. simpl in Ha |- *. unfold upd in *. destruct (Nat.eqb_spec a t); [simpl in Ha; discriminate Ha|].
    apply Hcov. apply Mh. exact Ha.
  - intros H0. destruct (Mf H0) as [A B]. split; [apply Hcov; exact A|].
    intros a. simpl. unfold upd. destruct (Nat.eqb_spec a t); [reflexivity|apply B].
  - intros a b Ha Hb. simpl in *. unfold upd in *.
    destruct (Nat.eqb_spec a t); [simpl in Ha; discriminate Ha|]. destruct (Nat.eqb_spec b t); [simpl in Hb; discriminate Hb|].
    apply Mx; assumption.
  - intros a Ha. simpl in *. unfold upd in *. destruct (Nat.eqb_spec a t).
    + subst a. simpl. fold x. fold m. rewrite Hupdm. unfold mupd. destruct (msg_eqb_spec m m); [reflexivity|contradiction].
    + unfold mupd. destruct (msg_eqb_spec (a, t_seq (c_thr s a)) m) as [E|E]; [inversion E; contradiction|].
      apply Mo. exact Ha.
  - intros m' Hm'. simpl in *. unfold upd. destruct (Nat.eqb_spec (fst m') t) as [E|E]; [|apply Mfr; exact Hm'].
    simpl. left. destruct (Mfr m' Hm') as [A|[A B]]; rewrite E in *; [exact A|]. fold x in B. unfold x in B. rewrite Epc in B. discriminate.
  - intros a. simpl. unfold upd. destruct (Nat.eqb_spec a t); [reflexivity|apply Mmo].
  - simpl. unfold upd. destruct (Nat.eqb_spec 0%nat t) as [E|E]; [lia|].
    unfold mknow in *. simpl.
    destruct (t_pc (c_thr s 0%nat)); try exact Logic.I;
      (destruct (t_d (c_thr s 0%nat)) as [m'|]; [|exact Logic.I]; destruct Mk as [A B]; split; [exact A|];
       unfold mupd; destruct (msg_eqb_spec m' m) as [E2|E2]; [subst m'; contradiction|exact B]).
  - exact Mu.
Qed.

(* pthread_mutex_lock(read_mutex) / wake-up from the condition variable: acquire *)
Lemma minv_rlock s t p' : MInv s -> c_rmx s = 0 ->
  rhold p' = true -> rhold (t_pc (c_thr s t)) = false ->
  (own_pc p' = true -> own_pc (t_pc (c_thr s t)) = true) ->
  after_pub (t_pc (c_thr s t)) = false -> nonmutex_pc p' = false ->
  (t = 0%nat -> p' = RMChk) ->
  let x := c_thr s t in
  MInv (put_thr t (set_pc (set_view x (vjoin (t_view x) (c_rmst s))) p') (w_rmx 1 s)).
Proof.
  intros M H0 Hp' Hp Ho Hap Hm Hk x. pose proof M as M0.
  destruct M as [Mt Ml Mm M01 Mh Mf Mx Mo Mfr Mmo Mk Mu].
  destruct (Mf H0) as [Fc Fn].
  assert (Hmono : forall c, (vget (t_view x) c <= vget (vjoin (t_view x) (c_rmst s)) c <= ver s c)%nat).
  { intros c. rewrite vget_vjoin. pose proof (Mt t c). pose proof (Mm c). fold x in H. lia. }
  constructor; munf; simpl; try assumption.
  - intros a. unfold upd. destruct (Nat.eqb_spec a t); [intros c; apply Hmono|apply Mt].
  - right; reflexivity.
  - intros a Ha c Hc. unfold upd in *. destruct (Nat.eqb_spec a t).
    + simpl. rewrite vget_vjoin. pose proof (Fc c Hc). pose proof (Mt t c). fold x in H1. lia.
    + rewrite (Fn a) in Ha. discriminate.
  - intros E. discriminate E.
  - intros a b Ha Hb. unfold upd in *.
    destruct (Nat.eqb_spec a t), (Nat.eqb_spec b t); subst; try reflexivity.
    + rewrite (Fn b) in Hb. discriminate.
    + rewrite (Fn a) in Ha. discriminate.
    + rewrite (Fn a) in Ha. discriminate.
  - intros a Hq. unfold upd in *. destruct (Nat.eqb_spec a t); [|apply Mo; exact Hq].
    subst a. simpl in *. pose proof (Mo t (Ho Hq)) as E. fold x in E.
    pose proof (Hmono (CPay (t, t_seq x))) as B. simpl in B. lia.
  - intros m Hin. unfold upd. destruct (Nat.eqb_spec (fst m) t) as [E|E]; [|apply Mfr; exact Hin].
    simpl. left. destruct (Mfr m Hin) as [A|[A B]]; rewrite E in *; [exact A|]. rewrite Hap in B. discriminate.
  - intros a. unfold upd. destruct (Nat.eqb_spec a t); [exact Hm|apply Mmo].
  - unfold upd. destruct (Nat.eqb_spec 0%nat t) as [E|E]; [|exact Mk].
    simpl. rewrite (Hk (eq_sym E)). exact Logic.I.
Qed.

(* pthread_mutex_unlock(read_mutex) / condition-variable wait: release *)
Lemma minv_runlock s t p' : MInv s ->
  rhold (t_pc (c_thr s t)) = true -> rhold p' = false ->
  (own_pc p' = true -> own_pc (t_pc (c_thr s t)) = true) ->
  (after_pub (t_pc (c_thr s t)) = true -> after_pub p' = true) -> nonmutex_pc p' = false ->
  (t = 0%nat -> mknow s (set_pc (c_thr s t) p')) ->
  MInv (put_thr t (set_pc (c_thr s t) p') (w_rmx 0 (w_rmst (t_view (c_thr s t)) s))).
Proof.
  intros M Hp Hp' Ho Hap Hm Hk. pose proof M as M0.
  destruct M as [Mt Ml Mm M01 Mh Mf Mx Mo Mfr Mmo Mk Mu].
  constructor; munf; simpl; try assumption.
  - intros a. unfold upd. destruct (Nat.eqb_spec a t); apply Mt.
  - apply Mt.
  - left; reflexivity.
  - intros a Hq. unfold upd in *. destruct (Nat.eqb_spec a t); [simpl in Hq; congruence|apply Mh; exact Hq].
  - intros _. split; [apply Mh; exact Hp|].
    intros a. unfold upd. destruct (Nat.eqb_spec a t); [exact Hp'|].
    destruct (rhold (t_pc (c_thr s a))) eqn:E; [|reflexivity]. exfalso. apply n. apply Mx; assumption.
  - intros a b Hq Hb. unfold upd in *.
    destruct (Nat.eqb_spec a t), (Nat.eqb_spec b t); subst; try reflexivity; simpl in *; try congruence.
    apply Mx; assumption.
  - intros a Hq. unfold upd in *. destruct (Nat.eqb_spec a t); [subst a; simpl; apply Mo; apply Ho; exact Hq|apply Mo; exact Hq].
  - intros m Hin. unfold upd. destruct (Nat.eqb_spec (fst m) t) as [E|E]; [|apply Mfr; exact Hin].
    simpl. destruct (Mfr m Hin) as [A|[A B]]; rewrite E in *; [left; exact A|right; split; [exact A|apply Hap; exact B]].
  - intros a. unfold upd. destruct (Nat.eqb_spec a t); [exact Hm|apply Mmo].
  - unfold upd. destruct (Nat.eqb_spec 0%nat t) as [E|E]; [|exact Mk]. apply Hk. symmetry; exact E.
Qed.

(* the slot store under read_mutex *)
Lemma minv_slot_write g s t m : SInv g s -> MInv s ->
  rhold (t_pc (c_thr s t)) = true -> (1 <= t)%nat -> MInv (slot_write t m s).
Proof.
  intros I M Hh Ht. pose proof M as M0.
  destruct M as [Mt Ml Mm M01 Mh Mf Mx Mo Mfr Mmo Mk Mu].
  set (i := c_wcur s). set (n := S (c_sver s i)). set (x := c_thr s t).
  set (s1 := w_overw (if c_live s i then S (c_overw s) else c_overw s)
             (w_prev (zupd (c_prev s) i (c_slot s i)) (w_slot (zupd (c_slot s) i (Some m)) (w_sver (zupd (c_sver s) i n) s)))).
  assert (Hver : forall c, c <> CSlot i -> ver s1 c = ver s c).
  { intros c Hc. destruct c as [j|m']; simpl; [|reflexivity]. unfold zupd.
    destruct (Z.eqb_spec j i); [subst; contradiction|reflexivity]. }
  assert (Hveri : ver s1 (CSlot i) = n).
  { simpl. unfold zupd. now rewrite Z.eqb_refl. }
  assert (Hle : forall v, le_ver s v -> le_ver s1 v).
  { intros v Hv c. destruct (pcell_eqb_spec c (CSlot i)) as [E|E].
    - subst c. rewrite Hveri. specialize (Hv (CSlot i)). simpl in Hv. unfold n. lia.
    - rewrite Hver by exact E. apply Hv. }
  assert (Hupd : forall c, c <> CSlot i -> vget (vupd (t_view x) (CSlot i) n) c = vget (t_view x) c).
  { intros c Hc. rewrite vget_vupd. destruct (pcell_eqb_spec c (CSlot i)); [contradiction|reflexivity]. }
  assert (Hupdi : vget (vupd (t_view x) (CSlot i) n) (CSlot i) = n).
  { rewrite vget_vupd, pcell_eqb_refl. pose proof (Mt t (CSlot i)) as B. simpl in B. fold x in B. unfold n. lia. }
  assert (Hlet : le_ver s1 (vupd (t_view x) (CSlot i) n)).
  { intros c. destruct (pcell_eqb_spec c (CSlot i)) as [E|E].
    - subst c. rewrite Hupdi, Hveri. lia.
    - rewrite Hupd by exact E. rewrite Hver by exact E. apply Mt. }
  assert (Hcovt : cov_all s1 (vupd (t_view x) (CSlot i) n)).
  { intros c Hc. destruct (pcell_eqb_spec c (CSlot i)) as [E|E].
    - subst c. rewrite Hupdi, Hveri. reflexivity.
    - rewrite Hupd by exact E. rewrite Hver by exact E. apply (Mh t); [exact Hh|exact Hc]. }
  assert (Hnr : c_rmx s <> 0).
  { intros E. destruct (Mf E) as [_ B]. rewrite (B t) in Hh. discriminate. }
  unfold slot_write. fold i. fold n. fold x.
  constructor.
  - intros a. simpl. unfold upd. destruct (Nat.eqb_spec a t); [exact Hlet|apply Hle; apply Mt].
  - apply Hle; exact Ml.
  - apply Hle; exact Mm.
  - exact M01.
  - intros a Ha. simpl in Ha |- *. unfold upd in *. destruct (Nat.eqb_spec a t); [exact Hcovt|].
    exfalso. apply n0. apply Mx; assumption.
  - intros E. exfalso. apply Hnr. exact E.
  - intros a b Ha Hb. simpl in *. unfold upd in *.
    destruct (Nat.eqb_spec a t), (Nat.eqb_spec b t); subst; try reflexivity; simpl in *;
      first [apply Mx; assumption | symmetry; apply Mx; assumption].
  - intros a Ha. simpl in *. unfold upd in *. destruct (Nat.eqb_spec a t).
    + subst a. simpl. fold x. rewrite Hupd by discriminate. apply Mo. exact Ha.
    + apply Mo. exact Ha.
  - intros m' Hm'. simpl in *. unfold upd. destruct (Nat.eqb_spec (fst m') t) as [E|E]; [|apply Mfr; exact Hm'].
    simpl. specialize (Mfr m' Hm'). rewrite E in Mfr. exact Mfr.
  - intros a. simpl. unfold upd. destruct (Nat.eqb_spec a t); [subst a; simpl|]; apply Mmo.
  - simpl. unfold upd. destruct (Nat.eqb_spec 0%nat t) as [E|E]; [lia|exact Mk].
  - exact Mu.
Qed.

(* chan->write_cursor = wpos under read_mutex *)
Lemma minv_mpublish s t wpos live' : MInv s ->
  t_pc (c_thr s t) = WRmChk -> (1 <= t)%nat ->
  let x := c_thr s t in
  let m := (t, t_seq x) in
  MInv (put_thr t (set_pc x (WRmUnlock true)) (w_wcur wpos (w_acc (c_acc s ++ [m]) (w_live live' s)))).
Proof.
  intros M Epc Ht x m. pose proof M as M0.
  destruct M as [Mt Ml Mm M01 Mh Mf Mx Mo Mfr Mmo Mk Mu].
  assert (Hh : rhold (t_pc (c_thr s t)) = true) by (rewrite Epc; reflexivity).
  assert (Hnr : c_rmx s <> 0).
  { intros E. destruct (Mf E) as [_ B]. rewrite (B t) in Hh. discriminate. }
  assert (Hcovt : forall c, (wcell s c \/ c = CPay m) -> vget (t_view x) c = ver s c).
  { intros c [Hc|Hc]; [apply (Mh t); [exact Hh|exact Hc]|]. subst c. simpl. apply Mo. rewrite Epc. reflexivity. }
  assert (Hw' : forall c, match c with CSlot _ => True | CPay m' => In m' (c_acc s ++ [m]) end -> wcell s c \/ c = CPay m).
  { intros c. destruct c as [j|m']; simpl; [auto|]. intros Hin. apply in_app_or in Hin.
    destruct Hin as [Hin|[Hin|[]]]; [left; exact Hin|right; congruence]. }
  constructor; munf; simpl; try assumption.
  - intros b. unfold upd. destruct (Nat.eqb_spec b t); apply Mt.
  - intros b Hb c Hc. unfold upd in *. destruct (Nat.eqb_spec b t).
    + simpl. apply Hcovt. apply Hw'. exact Hc.
    + exfalso. apply n. apply Mx; assumption.
  - intros E. exfalso. apply Hnr. exact E.
  - intros a b Ha Hb. unfold upd in *.
    destruct (Nat.eqb_spec a t), (Nat.eqb_spec b t); subst; try reflexivity; simpl in *;
      first [apply Mx; assumption | symmetry; apply Mx; assumption].
  - intros b Hb. unfold upd in *. destruct (Nat.eqb_spec b t); [subst b; simpl in *; apply Mo; rewrite Epc; reflexivity|apply Mo; exact Hb].
  - intros m' Hm'. apply in_app_or in Hm'. unfold upd.
    destruct Hm' as [Hm'|[Hm'|[]]].
    + destruct (Nat.eqb_spec (fst m') t) as [E|E]; [|apply Mfr; exact Hm'].
      simpl. left. destruct (Mfr m' Hm') as [A|[A B]]; rewrite E in *; [exact A|]. rewrite Epc in B. discriminate.
    + subst m'. simpl. rewrite Nat.eqb_refl. simpl. right. split; reflexivity.
  - intros a. unfold upd. destruct (Nat.eqb_spec a t); [reflexivity|apply Mmo].
  - unfold upd. destruct (Nat.eqb_spec 0%nat t) as [E|E]; [lia|].
    destruct (t_pc (c_thr s 0%nat)); try exact Logic.I;
      (destruct (t_d (c_thr s 0%nat)) as [m'|]; [|exact Logic.I]; destruct Mk as [A B]; split; [apply in_or_app; left; exact A|exact B]).
Qed.

Lemma minv_lockframe s v st : MInv s -> le_ver s st -> MInv (w_lock v (w_lst st s)).
Proof. intros M H. destruct M. constructor; munf; simpl in *; assumption. Qed.

Ltac m_nomode M Epc t := let X := fresh "X" in pose proof (m_mode _ M t) as X; rewrite Epc in X; discriminate X.
Ltac m_rk := intros ?; unfold mknow; simpl; try exact Logic.I.
Ltac m_setpc M Epc := apply minv_setpc; [exact M | rewrite ?Epc; reflexivity | v_bool Epc | v_bool Epc | reflexivity | m_rk].

Lemma cmicro_minv g s t ch s' ns : cfg_ok g -> g_rm g = RMutex -> SInv g s -> MInv s ->
  cmicro g s t ch = Some (s', ns) -> MInv s'.
Proof.
  intros Hg Hrm I M Hs. pose proof Hg as [Hc Hsg].
  unfold cmicro in Hs.
  destruct (t_pc (c_thr s t)) eqn:Epc; try discriminate Hs; try (m_nomode M Epc t).
  - (* W0 *)
    destruct (t_todo (c_thr s t)); inv_some Hs.
    + m_setpc M Epc.
    + apply (minv_payload g); assumption.
  - inv_some Hs. destruct (g_wk g); m_setpc M Epc.
  - inv_some Hs. m_setpc M Epc.
  - inv_some Hs. m_setpc M Epc.
  - inv_some Hs. m_setpc M Epc.
  - (* WBody *)
    rewrite Hrm in Hs. inv_some Hs. m_setpc M Epc.
  - (* WRmChk *)
    assert (Ht : (1 <= t)%nat).
    { pose proof (i_role _ _ I t) as R. rewrite Epc in R. unfold role_ok in R; simpl in R. destruct R as [R|R]; [discriminate R|lia]. }
    destruct (Z.eqb_spec (wnext g s) (c_rcur s)) as [Ef|Ef]; inv_some Hs.
    + apply minv_thr_mono; [unfold full_check; mframe M | intros c0; simpl; split; [lia|apply (m_le_thr _ M t c0)] | reflexivity
                           | simpl; rewrite Epc; reflexivity | simpl; v_bool Epc | simpl; v_bool Epc | reflexivity | m_rk].
    + assert (M1 : MInv (slot_write t (t, t_seq (c_thr s t)) s)).
      { apply (minv_slot_write g); try assumption. rewrite Epc; reflexivity. }
      set (s1 := slot_write t (t, t_seq (c_thr s t)) s) in *.
      assert (Et : c_thr s1 t = set_view (c_thr s t) (vupd (t_view (c_thr s t)) (CSlot (c_wcur s)) (S (c_sver s (c_wcur s))))).
      { unfold s1, slot_write, put_thr; simpl. apply upd_same. }
      rewrite upd_same.
      pose proof (minv_mpublish s1 t (wnext g s) (zupd (c_live s) (c_wcur s) true) M1) as P1.
      rewrite Et in P1. simpl in P1. apply P1; [exact Epc|exact Ht].
  - inv_some Hs. destruct (g_wk g); m_setpc M Epc.
  - inv_some Hs. m_setpc M Epc.
  - (* WAfterUnlock *)
    inv_some Hs. destruct ok; [rewrite Hrm|]; m_setpc M Epc.
  - (* WRet *)
    assert (Hfr : forall m, In m (c_acc s) -> fst m = t -> (snd m < S (t_seq (c_thr s t)))%nat).
    { intros m Hm E. destruct (m_fresh _ M m Hm) as [A|[A B]]; rewrite E in *; lia. }
    destruct ok.
    + inv_some Hs. apply minv_thr; [exact M|apply (m_le_thr _ M t)|simpl; rewrite Epc; reflexivity|simpl; intros; discriminate
                                   |simpl; intros; discriminate|simpl; intros m Hm E; left; apply Hfr; assumption|reflexivity|m_rk].
    + destruct (negb (Nat.eqb (g_maxtry g) 0) && Nat.leb (g_maxtry g) (S (t_tries (c_thr s t)))); inv_some Hs.
      * apply minv_thr; [exact M|apply (m_le_thr _ M t)|simpl; rewrite Epc; reflexivity|simpl; intros; discriminate
                        |simpl; intros; discriminate|simpl; intros m Hm E; left; apply Hfr; assumption|reflexivity|m_rk].
      * apply minv_thr; [exact M|apply (m_le_thr _ M t)|simpl; rewrite Epc; reflexivity|simpl; intros; discriminate
                        |simpl; intros _; apply (m_own _ M t); rewrite Epc; reflexivity| |reflexivity|m_rk].
        simpl. intros m Hm E. left. destruct (m_fresh _ M m Hm) as [A|[A B]]; rewrite E in *; [exact A|].
        rewrite Epc in B. discriminate.
  - (* R0 *)
    destruct (t_todo (c_thr s t)); [inv_some Hs; m_setpc M Epc|].
    rewrite Hrm in Hs. inv_some Hs. m_setpc M Epc.
  - (* RRet *)
    assert (t = 0%nat).
    { pose proof (i_role _ _ I t) as Rt. rewrite Epc in Rt. exact Rt. } subst t.
    pose proof (m_know _ M) as K. unfold mknow in K. rewrite Epc in K.
    inv_some Hs.
    assert (Hcov : (match t_d (c_thr s 0%nat) with
                    | Some m' => Nat.eqb (vget (t_view (c_thr s 0%nat)) (CPay m')) (c_pver s m') | None => true end) = true).
    { destruct (t_d (c_thr s 0%nat)); [|reflexivity]. destruct K as [_ K]. rewrite K. apply Nat.eqb_refl. }
    rewrite Hcov.
    assert (M1 : MInv (w_uncov (c_uncov s) s)) by mframe M.
    apply minv_thr; [exact M1|apply (m_le_thr _ M 0%nat)|simpl; rewrite Epc; reflexivity|simpl; intros; discriminate
                    |simpl; intros; discriminate| |reflexivity|m_rk].
    simpl. intros m Hm E. specialize (m_fresh _ M m Hm). rewrite E, Epc. simpl. intros [A|[A B]]; [left; lia|discriminate B].
  - (* RMChk *)
    assert (t = 0%nat).
    { pose proof (i_role _ _ I t) as Rt. rewrite Epc in Rt. exact Rt. } subst t.
    destruct (Z.eqb_spec (rnext g s) (c_wcur s)) as [Ef|Ef].
    + inv_some Hs. m_setpc M Epc.
    + assert (Hh : rhold (t_pc (c_thr s 0%nat)) = true) by (rewrite Epc; reflexivity).
      pose proof (m_rhold _ M 0%nat Hh) as Cov.
      pose proof (Cov (CSlot (rnext g s)) Logic.I) as C1. simpl in C1.
      unfold slot_read in Hs. rewrite C1, Nat.eqb_refl in Hs. inv_some Hs.
      pose proof (rnext_R g s Hg I) as HrR.
      destruct (i_RW _ _ I) as [RW1 RW2].
      assert (HRW : Rz s < Wz s).
      { destruct (Z.eq_dec (Rz s) (Wz s)) as [E|E]; [|lia]. exfalso. apply Ef. rewrite HrR, (i_wcur _ _ I), E. reflexivity. }
      unfold Wz, Rz in *.
      assert (Hsl : c_slot s (rnext g s) = Some (nth (c_R s) (c_acc s) dmsg)).
      { rewrite HrR. apply (i_slots _ _ I). lia. }
      assert (M1 : MInv (w_rcur (rnext g s) (w_R (S (c_R s)) (w_del (c_del s ++ [c_slot s (rnext g s)])
                   (w_live (zupd (c_live s) (rnext g s) false) (w_uncov (c_uncov s) s)))))) by mframe M.
      apply minv_thr; [exact M1|apply (m_le_thr _ M 0%nat)|simpl; rewrite Epc; reflexivity
                      |simpl; intros _; exact Cov|simpl; intros; discriminate| |reflexivity|].
      * simpl. intros m Hm E. specialize (m_fresh _ M m Hm). rewrite E, Epc. simpl. intros [A|[A B]]; [left; exact A|discriminate B].
      * intros _. unfold mknow; simpl. rewrite Hsl.
        assert (Hin : In (nth (c_R s) (c_acc s) dmsg) (c_acc s)) by (apply nth_In; lia).
        split; [exact Hin|]. apply (Cov (CPay (nth (c_R s) (c_acc s) dmsg))). exact Hin.
Qed.

Lemma cop_minv P g s t ch s' l : cfg_ok g -> g_rm g = RMutex -> SInv g s -> MInv s ->
  cop P g s t ch = Some (s', l) -> MInv s'.
Proof.
  intros Hg Hrm I M Hs. pose proof Hg as [Hc Hsg].
  unfold cop in Hs.
  destruct (t_pc (c_thr s t)) eqn:Epc; try discriminate Hs; try (m_nomode M Epc t).
  - (* WLockOp *)
    assert (Hjoin : forall mo c, (vget (t_view (c_thr s t)) c <= vget (acq_join mo (t_view (c_thr s t)) (c_lst s)) c <= ver s c)%nat).
    { intros mo c. rewrite vget_acq. pose proof (m_le_thr _ M t c). pose proof (m_le_lst _ M c). destruct (is_acq mo); lia. }
    assert (Hrmw : forall mo, le_ver s (rmw_stamp mo (t_view (c_thr s t)) (c_lst s))).
    { intros mo c. rewrite vget_rmw. pose proof (m_le_thr _ M t c). pose proof (m_le_lst _ M c). destruct (is_rel mo); lia. }
    destruct (g_wk g) eqn:Ek; try discriminate Hs.
    + destruct (Z.eqb_spec (c_lock s) 0) as [L0|L0]; [|discriminate Hs]. inv_some Hs.
      apply minv_thr_mono; [apply minv_lockframe; [exact M|apply (m_le_lst _ M)] | apply (Hjoin SeqCst) | reflexivity
                           | simpl; rewrite Epc; reflexivity | simpl; v_bool Epc | simpl; v_bool Epc | reflexivity | m_rk].
    + destruct (Z.eqb_spec (c_lock s) 0) as [L0|L0].
      * destruct (Nat.eqb ch 1); inv_some Hs; [m_setpc M Epc|].
        apply minv_thr_mono; [apply minv_lockframe; [exact M|apply Hrmw] | apply Hjoin | reflexivity
                             | simpl; rewrite Epc; reflexivity | simpl; v_bool Epc | simpl; v_bool Epc | reflexivity | m_rk].
      * inv_some Hs. m_setpc M Epc.
    + inv_some Hs.
      apply minv_thr_mono; [apply minv_lockframe; [exact M|apply Hrmw] | apply Hjoin | reflexivity
                           | simpl; rewrite Epc; destruct (c_lock s =? 0); reflexivity
                           | simpl; intros _; rewrite Epc; reflexivity | simpl; rewrite Epc; simpl; intros; discriminate
                           | destruct (c_lock s =? 0); reflexivity | intros ?; unfold mknow; simpl; destruct (c_lock s =? 0); exact Logic.I].
  - inv_some Hs. m_setpc M Epc.
  - destruct (c_lock s =? 1); [destruct (Nat.eqb ch 2); [|destruct (Nat.eqb ch 3)]|]; inv_some Hs; m_setpc M Epc.
  - (* WRmLock *)
    destruct (Z.eqb_spec (c_rmx s) 0) as [R0|R0]; [|discriminate Hs]. inv_some Hs.
    apply minv_rlock; try assumption; try reflexivity; rewrite ?Epc; try reflexivity; try (simpl; intros; discriminate).
    intros E0. exfalso. subst t. pose proof (i_role _ _ I 0%nat) as R. rewrite Epc in R. unfold role_ok in R; simpl in R.
    destruct R as [R|R]; [discriminate R|lia].
  - (* WRmUnlock *)
    inv_some Hs. apply minv_runlock; try assumption; try reflexivity; rewrite ?Epc; try reflexivity;
      try (destruct ok; simpl; intros; first [reflexivity|discriminate]); try m_rk.
  - (* WUnlockOp *)
    destruct (g_wk g) eqn:Ek; try discriminate Hs; inv_some Hs;
      (apply minv_thr_mono; [apply minv_lockframe; [exact M|] | intros c0; simpl; split; [lia|apply (m_le_thr _ M t c0)] | reflexivity
                            | simpl; rewrite Epc; reflexivity | simpl; v_bool Epc
                            | simpl; rewrite Epc; destruct ok; simpl; intros; [reflexivity|discriminate] | reflexivity | m_rk]).
    + apply (m_le_thr _ M t).
    + intros c. rewrite vget_rel. pose proof (m_le_thr _ M t c). destruct (is_rel _); [assumption|lia].
    + intros c. rewrite vget_rel. pose proof (m_le_thr _ M t c). destruct (is_rel _); [assumption|lia].
  - (* WSyncWake *)
    destruct (first_blocked (c_thr s) (S (g_nw g))) as [u|] eqn:Ef.
    + pose proof (first_blocked_spec _ _ _ Ef) as Hu. inv_some Hs.
      assert (Hne : t <> u) by (intros E; subst u; rewrite Epc in Hu; discriminate Hu).
      assert (M1 : MInv (put_thr u (set_pc (c_thr s u) WRelock) s)) by m_setpc M Hu.
      rewrite upd_other by exact Hne.
      assert (E1 : c_thr (put_thr u (set_pc (c_thr s u) WRelock) s) t = c_thr s t).
      { simpl. apply upd_other. exact Hne. }
      rewrite <- E1. apply minv_setpc; [exact M1|rewrite E1, Epc; reflexivity|rewrite E1; v_bool Epc|rewrite E1; v_bool Epc|reflexivity|m_rk].
    + inv_some Hs. m_setpc M Epc.
  - (* WCvSig *)
    assert (Hne : t <> 0%nat).
    { pose proof (i_role _ _ I t) as Rt. rewrite Epc in Rt. unfold role_ok in Rt; simpl in Rt. destruct Rt as [Rt|Rt]; [discriminate Rt|lia]. }
    destruct (t_pc (c_thr s 0%nat)) eqn:E0; inv_some Hs; try (m_setpc M Epc).
    assert (M1 : MInv (put_thr 0%nat (set_pc (c_thr s 0%nat) RCvWoken) s)) by m_setpc M E0.
    rewrite upd_other by exact Hne.
    assert (E1 : c_thr (put_thr 0%nat (set_pc (c_thr s 0%nat) RCvWoken) s) t = c_thr s t).
    { simpl. apply upd_other. exact Hne. }
    rewrite <- E1. apply minv_setpc; [exact M1|rewrite E1, Epc; reflexivity|rewrite E1; v_bool Epc|rewrite E1; v_bool Epc|reflexivity|].
    intros E2. contradiction.
  - inv_some Hs. m_setpc M Epc.
  - inv_some Hs. m_setpc M Epc.
  - (* RMLock *)
    destruct (Z.eqb_spec (c_rmx s) 0) as [R0|R0]; [|discriminate Hs]. inv_some Hs.
    apply minv_rlock; try assumption; try reflexivity; rewrite ?Epc; try reflexivity; try (simpl; intros; discriminate).
  - (* RMUnlock *)
    assert (t = 0%nat).
    { pose proof (i_role _ _ I t) as Rt. rewrite Epc in Rt. exact Rt. } subst t.
    pose proof (m_know _ M) as K. unfold mknow in K. rewrite Epc in K.
    inv_some Hs. apply minv_runlock; try assumption; try reflexivity; rewrite ?Epc; try reflexivity;
      try (simpl; intros; discriminate).
    intros _. unfold mknow; simpl. exact K.
  - (* RCvWait *)
    inv_some Hs. apply minv_runlock; try assumption; try reflexivity; rewrite ?Epc; try reflexivity;
      try (simpl; intros; discriminate); try m_rk.
  - (* RCvBlocked *)
    destruct (Nat.eqb ch 1); [|discriminate Hs]. inv_some Hs. m_setpc M Epc.
  - (* RCvWoken *)
    destruct (Z.eqb_spec (c_rmx s) 0) as [R0|R0]; [|discriminate Hs]. inv_some Hs.
    apply minv_rlock; try assumption; try reflexivity; rewrite ?Epc; try reflexivity; try (simpl; intros; discriminate).
  - inv_some Hs. m_setpc M Epc.
Qed.

(* ---------------- executions ---------------- *)
Definition CMInv (g : cfg) (s : csys) : Prop := SInv g s /\ MInv s.

Lemma crun_cminv g fuel : cfg_ok g -> g_rm g = RMutex -> forall s t ch acc s' ns,
  CMInv g s -> crun fuel g s t ch acc = (s', ns) -> CMInv g s'.
Proof.
  intros Hg Hrm. induction fuel as [|f IH]; intros s t ch acc s' ns [I M] H; simpl in H.
  - inv_some H. split; assumption.
  - destruct (is_plain (t_pc (c_thr s t))).
    + destruct (cmicro g s t ch) as [[s1 ns1]|] eqn:E.
      * eapply IH; [|exact H]. split; [eapply cmicro_sinv; eauto|eapply cmicro_minv; eauto].
      * inv_some H. split; assumption.
    + inv_some H. split; assumption.
Qed.

Lemma cstep_cminv P g s t ch s' l : cfg_ok g -> g_rm g = RMutex ->
  CMInv g s -> cstep P g s t ch = Some (s', l) -> CMInv g s'.
Proof.
  intros Hg Hrm [I M] H. unfold cstep in H.
  destruct (is_plain (t_pc (c_thr s t))).
  - destruct (cmicro g s t ch) as [[s1 ns1]|] eqn:E; [|discriminate H].
    destruct (crun 16 g s1 t ch ns1) as [s2 ns2] eqn:E2. inv_some H.
    eapply crun_cminv; [exact Hg|exact Hrm| |exact E2]. split; [eapply cmicro_sinv; eauto|eapply cmicro_minv; eauto].
  - split; [eapply cop_sinv; eauto|eapply cop_minv; eauto].
Qed.

Theorem chan_mutex_invariant P g nread ks sched : cfg_ok g -> g_rm g = RMutex ->
  CMInv g (reach P g nread ks sched).
Proof.
  intros Hg Hrm. unfold reach. apply inv_exec.
  - intros s t c s' l Ci H. eapply cstep_cminv; eauto.
  - split; [now apply cinit_inv|apply cinit_minv].
Qed.

(* ---------------- all three reader modes together ---------------- *)
Theorem chan_reads_covered_all P g nread ks sched : cfg_ok g ->
  chan_mo_ok P (g_rm g) = true -> lock_mo_ok P (g_wk g) = true ->
  c_uncov (reach P g nread ks sched) = 0%nat.
Proof.
  intros Hg Hcm Hlm. destruct (g_rm g) eqn:Erm.
  - apply chan_reads_covered; try assumption; rewrite ?Erm; try assumption; discriminate.
  - exact (m_uncov _ (proj2 (chan_mutex_invariant P g nread ks sched Hg Erm))).
  - apply chan_reads_covered; try assumption; rewrite ?Erm; try assumption; discriminate.
Qed.

Theorem chan_exactly_once_all P g nread ks sched : cfg_ok g ->
  chan_mo_ok P (g_rm g) = true -> lock_mo_ok P (g_wk g) = true ->
  let s := reach P g nread ks sched in
  c_del s = map Some (firstn (length (c_del s)) (c_acc s)) /\ (length (c_del s) <= length (c_acc s))%nat /\
  (length (c_del s) = length (c_acc s) -> c_del s = map Some (c_acc s)).
Proof.
  intros Hg Hcm Hlm s.
  pose proof (chan_reads_covered_all P g nread ks sched Hg Hcm Hlm) as Hu.
  destruct (chan_prefix_sc P g nread ks sched Hg Hu) as [A B]. fold s in A, B.
  repeat split; [exact A|exact B|]. intros Hl. exact (chan_drained_sc P g nread ks sched Hg Hu Hl).
Qed.

(* the message about to be returned by muggle_channel_read: accepted, payload write visible *)
Theorem chan_payload_visible_all P g nread ks sched m : cfg_ok g ->
  chan_mo_ok P (g_rm g) = true -> lock_mo_ok P (g_wk g) = true ->
  let s := reach P g nread ks sched in
  (t_pc (c_thr s 0%nat) = RStoreR \/ t_pc (c_thr s 0%nat) = RMUnlock \/ t_pc (c_thr s 0%nat) = RRet) ->
  t_d (c_thr s 0%nat) = Some m ->
  In m (c_acc s) /\ vget (t_view (c_thr s 0%nat)) (CPay m) = c_pver s m.
Proof.
  intros Hg Hcm Hlm s Hpc Hd. destruct (g_rm g) eqn:Erm.
  - assert (Hnm : g_rm g <> RMutex) by (rewrite Erm; discriminate).
    assert (Hcm' : chan_mo_ok P (g_rm g) = true) by (rewrite Erm; exact Hcm).
    destruct (chan_full_invariant P g nread ks sched Hg Hnm Hcm' Hlm) as [_ V]. fold s in V.
    pose proof (v_rknow _ _ V) as K. unfold rknow in K.
    destruct Hpc as [E|[E|E]]; rewrite E in K; try (rewrite Hd in K; exact K).
    exfalso. pose proof (v_mode _ _ V 0%nat) as X. rewrite E in X. specialize (X eq_refl). congruence.
  - destruct (chan_mutex_invariant P g nread ks sched Hg Erm) as [_ M]. fold s in M.
    pose proof (m_know _ M) as K. unfold mknow in K.
    destruct Hpc as [E|[E|E]]; rewrite E in K; try (rewrite Hd in K; exact K).
    exfalso. pose proof (m_mode _ M 0%nat) as X. rewrite E in X. discriminate X.
  - assert (Hnm : g_rm g <> RMutex) by (rewrite Erm; discriminate).
    assert (Hcm' : chan_mo_ok P (g_rm g) = true) by (rewrite Erm; exact Hcm).
    destruct (chan_full_invariant P g nread ks sched Hg Hnm Hcm' Hlm) as [_ V]. fold s in V.
    pose proof (v_rknow _ _ V) as K. unfold rknow in K.
    destruct Hpc as [E|[E|E]]; rewrite E in K; try (rewrite Hd in K; exact K).
    exfalso. pose proof (v_mode _ _ V 0%nat) as X. rewrite E in X. specialize (X eq_refl). congruence.
Qed.

Example chan_mutex_nonvacuous :
  (* mutex writer lock, mutex reader: the writer fills the ring (2 of 4 slots), one FULL, the reader drains *)
  let g := mk_cfg WMutex RMutex 4 1 0 in
  let s := reach sc_params g 2 (fun _ => 3%nat) (repeat (1, 0) 36 ++ repeat (0, 0) 20)%nat in
  c_acc s = [(1, 0); (1, 1)]%nat /\ c_del s = [Some (1, 0); Some (1, 1)]%nat /\ c_uncov s = 0%nat /\ c_badfull s = 0%nat.
Proof. vm_compute. repeat split; reflexivity. Qed.
