(* C01 — executable model of muggle/c/sync/channel.c (muggle_channel_write / muggle_channel_read
   and the 4 x 3 function-pointer combinations set up by muggle_channel_init) at the granularity
   of harness/vsched: every atomic / futex / mutex / condvar / yield operation is one step and
   every plain segment between two of them is one step.  The writer lock is modelled concretely
   (spinlock.c / synclock.c / pthread mutex, the same sub-automaton as coq/C04/Model.v, so the
   trace events of the lock need no translation).  Plain data (message slots and the
   harness-owned payloads) follows the view discipline of Lib/Conc.v; memory orders are
   parameters re-extracted from the code on every run (coq/gen/Params_C01.v).
   Definitions only; proofs are in ProofsSC.v / ProofsView.v. *)
From MV Require Export Lib.Conc.
Local Open Scope Z_scope.

(* ------------------------------------------------------------------ *)
(* memory-order parameters, one per atomic site of channel.c and of the two hand-written locks *)
Record params := {
  mo_ws_load : memorder;     (* muggle_channel_write_sync: load read_cursor *)
  mo_ws_store : memorder;    (* muggle_channel_write_sync: store write_cursor *)
  mo_wb_load : memorder;     (* muggle_channel_write_busy: load read_cursor (cache refresh) *)
  mo_wb_store1 : memorder;   (* muggle_channel_write_busy: store write_cursor, cached cursor sufficed *)
  mo_wb_store2 : memorder;   (* muggle_channel_write_busy: store write_cursor, after the refresh *)
  mo_rs_load : memorder;     (* muggle_channel_read_sync: load write_cursor *)
  mo_rs_store : memorder;    (* muggle_channel_read_sync: store read_cursor *)
  mo_rb_load : memorder;     (* muggle_channel_read_busy: load write_cursor *)
  mo_rb_store : memorder;    (* muggle_channel_read_busy: store read_cursor *)
  mo_spin_tas : memorder;    (* muggle_spinlock_lock *)
  mo_spin_clear : memorder;  (* muggle_spinlock_unlock *)
  mo_sync_cas : memorder;    (* muggle_synclock_lock *)
  mo_sync_store : memorder;  (* muggle_synclock_unlock *)
}.

Inductive wkind := WMutex | WSync | WSpin | WSingle.
Inductive rmode := RSync | RMutex | RBusy.

(* configuration fixed by muggle_channel_init and by the scenario *)
Record cfg := {
  g_wk : wkind;
  g_rm : rmode;
  g_cap : Z;         (* capacity after rounding (muggle_next_pow_of_2) *)
  g_nw : nat;        (* writers are threads 1..g_nw, the reader is thread 0 *)
  g_maxtry : nat;    (* harness: a writer gives a message up after so many FULL results (0: never) *)
  g_val : (nat * nat) -> Z;
                     (* the POINTER VALUE message (writer, seq) carries, as a canonical code: a message is an
                        opaque void* for the channel.  tag m = the address of the message's own harness payload
                        (the default), -1 = NULL, -3 = (void* )-1, -10-n = the small integer n, >= 9000 = the address
                        of a harness object shared by several messages (repeated value).  The model moves the
                        identities and never inspects the values: g_val occurs in the reader's "got" / "fld"
                        notes only *)
}.

(* rounding of the requested capacity *)
Definition round_cap (req : Z) : Z := 2 ^ Z.log2_up req.
(* messages the ring can hold: next(write_cursor) == read_cursor is "full" *)
Definition usable (cap : Z) : Z := Z.max 0 (cap - 2).

(* ------------------------------------------------------------------ *)
(* plain cells and views *)
Definition msg := (nat * nat)%type.            (* (writer thread, sequence number) *)
Definition tag (m : msg) : Z := Z.of_nat (fst m) * 100 + Z.of_nat (snd m).
Definition tagopt (d : option msg) : Z := match d with Some m => tag m | None => -1 end.
Definition msg_eqb (a b : msg) : bool := Nat.eqb (fst a) (fst b) && Nat.eqb (snd a) (snd b).

Inductive pcell := CSlot (i : Z) | CPay (m : msg).
Definition pcell_eqb (a b : pcell) : bool :=
  match a, b with
  | CSlot i, CSlot j => Z.eqb i j
  | CPay m, CPay n => msg_eqb m n
  | _, _ => false
  end.
(* a view is a finite table cell -> version (absent = 0); join is the pointwise maximum.  Tables
   are kept free of duplicate keys by [vins] so that they stay small along an execution. *)
Definition view := list (pcell * nat).
Definition vbot : view := [].
Fixpoint vget (l : view) (c : pcell) : nat :=
  match l with
  | [] => 0%nat
  | (d, k) :: r => if pcell_eqb c d then Nat.max k (vget r c) else vget r c
  end.
Fixpoint vins (c : pcell) (n : nat) (l : view) : view :=
  match l with
  | [] => [(c, n)]
  | (d, k) :: r => if pcell_eqb d c then (d, Nat.max k n) :: r else (d, k) :: vins c n r
  end.
Definition vjoin (a b : view) : view := fold_right (fun cn acc => vins (fst cn) (snd cn) acc) b a.
Definition vupd (v : view) (c : pcell) (n : nat) : view := vins c n v.
Definition acq_join (mo : memorder) (seen stamp : view) : view := if is_acq mo then vjoin seen stamp else seen.
Definition rel_stamp (mo : memorder) (seen : view) : view := if is_rel mo then seen else vbot.
Definition rmw_stamp (mo : memorder) (seen stamp : view) : view := if is_rel mo then vjoin stamp seen else stamp.

Definition zupd {A} (f : Z -> A) (i : Z) (x : A) : Z -> A := fun j => if Z.eqb j i then x else f j.
Definition mupd {A} (f : msg -> A) (m : msg) (x : A) : msg -> A := fun n => if msg_eqb n m then x else f n.

(* ------------------------------------------------------------------ *)
(* program points.  "plain" points are segments of non-atomic code; the others are operations *)
Inductive pc :=
  (* writer (harness loop around muggle_channel_write) : plain *)
  | W0                       (* next message: write the payload, note "put" *)
  | WCall                    (* muggle_channel_write: fn_lock *)
  | WSpinF | WSyncF | WRelock
  | WBody                    (* fn_write entered *)
  | WChk                     (* after the load of read_cursor *)
  | WRmChk                   (* write_mutex: under read_mutex *)
  | WUnlock (ok : bool)      (* fn_write returned *)
  | WSyncRel (ok : bool)     (* synclock_unlock between store and wake *)
  | WAfterUnlock (ok : bool) (* if (ret == 0) fn_wake *)
  | WRet (ok : bool)         (* back in the harness: note ok / full, retry policy *)
  (* writer : operations *)
  | WLockOp | WYield | WFwait | WBlocked
  | WLoadR | WPub (after_load : bool)
  | WRmLock | WRmUnlock (ok : bool)
  | WUnlockOp (ok : bool) | WSyncWake (ok : bool)
  | WWake | WCvSig | WRetry | WFin | WDone
  (* reader : plain *)
  | R0 | RChk | RLoop | RRet | RMChk
  (* reader : operations *)
  | RLoadW | RStoreR | RWait | RBlocked
  | RMLock | RMUnlock | RCvWait | RCvBlocked | RCvWoken | RFin | RDone.

Definition is_plain (p : pc) : bool :=
  match p with
  | W0 | WCall | WSpinF | WSyncF | WRelock | WBody | WChk | WRmChk | WUnlock _ | WSyncRel _
  | WAfterUnlock _ | WRet _ | R0 | RChk | RLoop | RRet | RMChk => true
  | _ => false
  end.

Record cthread := {
  t_pc : pc;
  t_seq : nat;        (* writer: index of the current message; reader: completed reads *)
  t_todo : nat;       (* messages still to send / to read *)
  t_tries : nat;      (* FULL results for the current message *)
  t_r : Z;            (* register: rpos *)
  t_w : Z;            (* register: wpos *)
  t_d : option msg;   (* reader: pointer taken from the slot *)
  t_gR : nat;         (* ghost: number of committed reads at the instant of the writer's load *)
  t_gW : nat;         (* ghost: number of accepted messages at that instant *)
  t_view : view;
}.

Record csys := {
  c_wcur : Z;
  c_wst : view;
  c_rcur : Z;
  c_rst : view;
  c_cached : Z;
  c_lock : Z;
  c_lst : view;
  c_rmx : Z;
  c_rmst : view;
  c_slot : Z -> option msg;
  c_prev : Z -> option msg;
  c_sver : Z -> nat;
  c_pay : msg -> Z;
  c_pver : msg -> nat;
  c_acc : list msg;
  c_del : list (option msg);
  c_R : nat;
  c_cR : nat;
  c_live : Z -> bool;
  c_overw : nat;
  c_badfull : nat;
  c_uncov : nat;
  c_thr : nat -> cthread;
}.

Definition w_wcur (v : Z) (s : csys) : csys :=
  {| c_wcur := v; c_wst := c_wst s; c_rcur := c_rcur s; c_rst := c_rst s; c_cached := c_cached s; c_lock := c_lock s; c_lst := c_lst s; c_rmx := c_rmx s; c_rmst := c_rmst s; c_slot := c_slot s; c_prev := c_prev s; c_sver := c_sver s; c_pay := c_pay s; c_pver := c_pver s; c_acc := c_acc s; c_del := c_del s; c_R := c_R s; c_cR := c_cR s; c_live := c_live s; c_overw := c_overw s; c_badfull := c_badfull s; c_uncov := c_uncov s; c_thr := c_thr s |}.
Definition w_wst (v : view) (s : csys) : csys :=
  {| c_wcur := c_wcur s; c_wst := v; c_rcur := c_rcur s; c_rst := c_rst s; c_cached := c_cached s; c_lock := c_lock s; c_lst := c_lst s; c_rmx := c_rmx s; c_rmst := c_rmst s; c_slot := c_slot s; c_prev := c_prev s; c_sver := c_sver s; c_pay := c_pay s; c_pver := c_pver s; c_acc := c_acc s; c_del := c_del s; c_R := c_R s; c_cR := c_cR s; c_live := c_live s; c_overw := c_overw s; c_badfull := c_badfull s; c_uncov := c_uncov s; c_thr := c_thr s |}.
Definition w_rcur (v : Z) (s : csys) : csys :=
  {| c_wcur := c_wcur s; c_wst := c_wst s; c_rcur := v; c_rst := c_rst s; c_cached := c_cached s; c_lock := c_lock s; c_lst := c_lst s; c_rmx := c_rmx s; c_rmst := c_rmst s; c_slot := c_slot s; c_prev := c_prev s; c_sver := c_sver s; c_pay := c_pay s; c_pver := c_pver s; c_acc := c_acc s; c_del := c_del s; c_R := c_R s; c_cR := c_cR s; c_live := c_live s; c_overw := c_overw s; c_badfull := c_badfull s; c_uncov := c_uncov s; c_thr := c_thr s |}.
Definition w_rst (v : view) (s : csys) : csys :=
  {| c_wcur := c_wcur s; c_wst := c_wst s; c_rcur := c_rcur s; c_rst := v; c_cached := c_cached s; c_lock := c_lock s; c_lst := c_lst s; c_rmx := c_rmx s; c_rmst := c_rmst s; c_slot := c_slot s; c_prev := c_prev s; c_sver := c_sver s; c_pay := c_pay s; c_pver := c_pver s; c_acc := c_acc s; c_del := c_del s; c_R := c_R s; c_cR := c_cR s; c_live := c_live s; c_overw := c_overw s; c_badfull := c_badfull s; c_uncov := c_uncov s; c_thr := c_thr s |}.
Definition w_cached (v : Z) (s : csys) : csys :=
  {| c_wcur := c_wcur s; c_wst := c_wst s; c_rcur := c_rcur s; c_rst := c_rst s; c_cached := v; c_lock := c_lock s; c_lst := c_lst s; c_rmx := c_rmx s; c_rmst := c_rmst s; c_slot := c_slot s; c_prev := c_prev s; c_sver := c_sver s; c_pay := c_pay s; c_pver := c_pver s; c_acc := c_acc s; c_del := c_del s; c_R := c_R s; c_cR := c_cR s; c_live := c_live s; c_overw := c_overw s; c_badfull := c_badfull s; c_uncov := c_uncov s; c_thr := c_thr s |}.
Definition w_lock (v : Z) (s : csys) : csys :=
  {| c_wcur := c_wcur s; c_wst := c_wst s; c_rcur := c_rcur s; c_rst := c_rst s; c_cached := c_cached s; c_lock := v; c_lst := c_lst s; c_rmx := c_rmx s; c_rmst := c_rmst s; c_slot := c_slot s; c_prev := c_prev s; c_sver := c_sver s; c_pay := c_pay s; c_pver := c_pver s; c_acc := c_acc s; c_del := c_del s; c_R := c_R s; c_cR := c_cR s; c_live := c_live s; c_overw := c_overw s; c_badfull := c_badfull s; c_uncov := c_uncov s; c_thr := c_thr s |}.
Definition w_lst (v : view) (s : csys) : csys :=
  {| c_wcur := c_wcur s; c_wst := c_wst s; c_rcur := c_rcur s; c_rst := c_rst s; c_cached := c_cached s; c_lock := c_lock s; c_lst := v; c_rmx := c_rmx s; c_rmst := c_rmst s; c_slot := c_slot s; c_prev := c_prev s; c_sver := c_sver s; c_pay := c_pay s; c_pver := c_pver s; c_acc := c_acc s; c_del := c_del s; c_R := c_R s; c_cR := c_cR s; c_live := c_live s; c_overw := c_overw s; c_badfull := c_badfull s; c_uncov := c_uncov s; c_thr := c_thr s |}.
Definition w_rmx (v : Z) (s : csys) : csys :=
  {| c_wcur := c_wcur s; c_wst := c_wst s; c_rcur := c_rcur s; c_rst := c_rst s; c_cached := c_cached s; c_lock := c_lock s; c_lst := c_lst s; c_rmx := v; c_rmst := c_rmst s; c_slot := c_slot s; c_prev := c_prev s; c_sver := c_sver s; c_pay := c_pay s; c_pver := c_pver s; c_acc := c_acc s; c_del := c_del s; c_R := c_R s; c_cR := c_cR s; c_live := c_live s; c_overw := c_overw s; c_badfull := c_badfull s; c_uncov := c_uncov s; c_thr := c_thr s |}.
Definition w_rmst (v : view) (s : csys) : csys :=
  {| c_wcur := c_wcur s; c_wst := c_wst s; c_rcur := c_rcur s; c_rst := c_rst s; c_cached := c_cached s; c_lock := c_lock s; c_lst := c_lst s; c_rmx := c_rmx s; c_rmst := v; c_slot := c_slot s; c_prev := c_prev s; c_sver := c_sver s; c_pay := c_pay s; c_pver := c_pver s; c_acc := c_acc s; c_del := c_del s; c_R := c_R s; c_cR := c_cR s; c_live := c_live s; c_overw := c_overw s; c_badfull := c_badfull s; c_uncov := c_uncov s; c_thr := c_thr s |}.
Definition w_slot (v : Z -> option msg) (s : csys) : csys :=
  {| c_wcur := c_wcur s; c_wst := c_wst s; c_rcur := c_rcur s; c_rst := c_rst s; c_cached := c_cached s; c_lock := c_lock s; c_lst := c_lst s; c_rmx := c_rmx s; c_rmst := c_rmst s; c_slot := v; c_prev := c_prev s; c_sver := c_sver s; c_pay := c_pay s; c_pver := c_pver s; c_acc := c_acc s; c_del := c_del s; c_R := c_R s; c_cR := c_cR s; c_live := c_live s; c_overw := c_overw s; c_badfull := c_badfull s; c_uncov := c_uncov s; c_thr := c_thr s |}.
Definition w_prev (v : Z -> option msg) (s : csys) : csys :=
  {| c_wcur := c_wcur s; c_wst := c_wst s; c_rcur := c_rcur s; c_rst := c_rst s; c_cached := c_cached s; c_lock := c_lock s; c_lst := c_lst s; c_rmx := c_rmx s; c_rmst := c_rmst s; c_slot := c_slot s; c_prev := v; c_sver := c_sver s; c_pay := c_pay s; c_pver := c_pver s; c_acc := c_acc s; c_del := c_del s; c_R := c_R s; c_cR := c_cR s; c_live := c_live s; c_overw := c_overw s; c_badfull := c_badfull s; c_uncov := c_uncov s; c_thr := c_thr s |}.
Definition w_sver (v : Z -> nat) (s : csys) : csys :=
  {| c_wcur := c_wcur s; c_wst := c_wst s; c_rcur := c_rcur s; c_rst := c_rst s; c_cached := c_cached s; c_lock := c_lock s; c_lst := c_lst s; c_rmx := c_rmx s; c_rmst := c_rmst s; c_slot := c_slot s; c_prev := c_prev s; c_sver := v; c_pay := c_pay s; c_pver := c_pver s; c_acc := c_acc s; c_del := c_del s; c_R := c_R s; c_cR := c_cR s; c_live := c_live s; c_overw := c_overw s; c_badfull := c_badfull s; c_uncov := c_uncov s; c_thr := c_thr s |}.
Definition w_pay (v : msg -> Z) (s : csys) : csys :=
  {| c_wcur := c_wcur s; c_wst := c_wst s; c_rcur := c_rcur s; c_rst := c_rst s; c_cached := c_cached s; c_lock := c_lock s; c_lst := c_lst s; c_rmx := c_rmx s; c_rmst := c_rmst s; c_slot := c_slot s; c_prev := c_prev s; c_sver := c_sver s; c_pay := v; c_pver := c_pver s; c_acc := c_acc s; c_del := c_del s; c_R := c_R s; c_cR := c_cR s; c_live := c_live s; c_overw := c_overw s; c_badfull := c_badfull s; c_uncov := c_uncov s; c_thr := c_thr s |}.
Definition w_pver (v : msg -> nat) (s : csys) : csys :=
  {| c_wcur := c_wcur s; c_wst := c_wst s; c_rcur := c_rcur s; c_rst := c_rst s; c_cached := c_cached s; c_lock := c_lock s; c_lst := c_lst s; c_rmx := c_rmx s; c_rmst := c_rmst s; c_slot := c_slot s; c_prev := c_prev s; c_sver := c_sver s; c_pay := c_pay s; c_pver := v; c_acc := c_acc s; c_del := c_del s; c_R := c_R s; c_cR := c_cR s; c_live := c_live s; c_overw := c_overw s; c_badfull := c_badfull s; c_uncov := c_uncov s; c_thr := c_thr s |}.
Definition w_acc (v : list msg) (s : csys) : csys :=
  {| c_wcur := c_wcur s; c_wst := c_wst s; c_rcur := c_rcur s; c_rst := c_rst s; c_cached := c_cached s; c_lock := c_lock s; c_lst := c_lst s; c_rmx := c_rmx s; c_rmst := c_rmst s; c_slot := c_slot s; c_prev := c_prev s; c_sver := c_sver s; c_pay := c_pay s; c_pver := c_pver s; c_acc := v; c_del := c_del s; c_R := c_R s; c_cR := c_cR s; c_live := c_live s; c_overw := c_overw s; c_badfull := c_badfull s; c_uncov := c_uncov s; c_thr := c_thr s |}.
Definition w_del (v : list (option msg)) (s : csys) : csys :=
  {| c_wcur := c_wcur s; c_wst := c_wst s; c_rcur := c_rcur s; c_rst := c_rst s; c_cached := c_cached s; c_lock := c_lock s; c_lst := c_lst s; c_rmx := c_rmx s; c_rmst := c_rmst s; c_slot := c_slot s; c_prev := c_prev s; c_sver := c_sver s; c_pay := c_pay s; c_pver := c_pver s; c_acc := c_acc s; c_del := v; c_R := c_R s; c_cR := c_cR s; c_live := c_live s; c_overw := c_overw s; c_badfull := c_badfull s; c_uncov := c_uncov s; c_thr := c_thr s |}.
Definition w_R (v : nat) (s : csys) : csys :=
  {| c_wcur := c_wcur s; c_wst := c_wst s; c_rcur := c_rcur s; c_rst := c_rst s; c_cached := c_cached s; c_lock := c_lock s; c_lst := c_lst s; c_rmx := c_rmx s; c_rmst := c_rmst s; c_slot := c_slot s; c_prev := c_prev s; c_sver := c_sver s; c_pay := c_pay s; c_pver := c_pver s; c_acc := c_acc s; c_del := c_del s; c_R := v; c_cR := c_cR s; c_live := c_live s; c_overw := c_overw s; c_badfull := c_badfull s; c_uncov := c_uncov s; c_thr := c_thr s |}.
Definition w_cR (v : nat) (s : csys) : csys :=
  {| c_wcur := c_wcur s; c_wst := c_wst s; c_rcur := c_rcur s; c_rst := c_rst s; c_cached := c_cached s; c_lock := c_lock s; c_lst := c_lst s; c_rmx := c_rmx s; c_rmst := c_rmst s; c_slot := c_slot s; c_prev := c_prev s; c_sver := c_sver s; c_pay := c_pay s; c_pver := c_pver s; c_acc := c_acc s; c_del := c_del s; c_R := c_R s; c_cR := v; c_live := c_live s; c_overw := c_overw s; c_badfull := c_badfull s; c_uncov := c_uncov s; c_thr := c_thr s |}.
Definition w_live (v : Z -> bool) (s : csys) : csys :=
  {| c_wcur := c_wcur s; c_wst := c_wst s; c_rcur := c_rcur s; c_rst := c_rst s; c_cached := c_cached s; c_lock := c_lock s; c_lst := c_lst s; c_rmx := c_rmx s; c_rmst := c_rmst s; c_slot := c_slot s; c_prev := c_prev s; c_sver := c_sver s; c_pay := c_pay s; c_pver := c_pver s; c_acc := c_acc s; c_del := c_del s; c_R := c_R s; c_cR := c_cR s; c_live := v; c_overw := c_overw s; c_badfull := c_badfull s; c_uncov := c_uncov s; c_thr := c_thr s |}.
Definition w_overw (v : nat) (s : csys) : csys :=
  {| c_wcur := c_wcur s; c_wst := c_wst s; c_rcur := c_rcur s; c_rst := c_rst s; c_cached := c_cached s; c_lock := c_lock s; c_lst := c_lst s; c_rmx := c_rmx s; c_rmst := c_rmst s; c_slot := c_slot s; c_prev := c_prev s; c_sver := c_sver s; c_pay := c_pay s; c_pver := c_pver s; c_acc := c_acc s; c_del := c_del s; c_R := c_R s; c_cR := c_cR s; c_live := c_live s; c_overw := v; c_badfull := c_badfull s; c_uncov := c_uncov s; c_thr := c_thr s |}.
Definition w_badfull (v : nat) (s : csys) : csys :=
  {| c_wcur := c_wcur s; c_wst := c_wst s; c_rcur := c_rcur s; c_rst := c_rst s; c_cached := c_cached s; c_lock := c_lock s; c_lst := c_lst s; c_rmx := c_rmx s; c_rmst := c_rmst s; c_slot := c_slot s; c_prev := c_prev s; c_sver := c_sver s; c_pay := c_pay s; c_pver := c_pver s; c_acc := c_acc s; c_del := c_del s; c_R := c_R s; c_cR := c_cR s; c_live := c_live s; c_overw := c_overw s; c_badfull := v; c_uncov := c_uncov s; c_thr := c_thr s |}.
Definition w_uncov (v : nat) (s : csys) : csys :=
  {| c_wcur := c_wcur s; c_wst := c_wst s; c_rcur := c_rcur s; c_rst := c_rst s; c_cached := c_cached s; c_lock := c_lock s; c_lst := c_lst s; c_rmx := c_rmx s; c_rmst := c_rmst s; c_slot := c_slot s; c_prev := c_prev s; c_sver := c_sver s; c_pay := c_pay s; c_pver := c_pver s; c_acc := c_acc s; c_del := c_del s; c_R := c_R s; c_cR := c_cR s; c_live := c_live s; c_overw := c_overw s; c_badfull := c_badfull s; c_uncov := v; c_thr := c_thr s |}.
Definition w_thr (v : nat -> cthread) (s : csys) : csys :=
  {| c_wcur := c_wcur s; c_wst := c_wst s; c_rcur := c_rcur s; c_rst := c_rst s; c_cached := c_cached s; c_lock := c_lock s; c_lst := c_lst s; c_rmx := c_rmx s; c_rmst := c_rmst s; c_slot := c_slot s; c_prev := c_prev s; c_sver := c_sver s; c_pay := c_pay s; c_pver := c_pver s; c_acc := c_acc s; c_del := c_del s; c_R := c_R s; c_cR := c_cR s; c_live := c_live s; c_overw := c_overw s; c_badfull := c_badfull s; c_uncov := c_uncov s; c_thr := v |}.

Definition ver (s : csys) (c : pcell) : nat :=
  match c with CSlot i => c_sver s i | CPay m => c_pver s m end.

Definition set_pc (x : cthread) (p : pc) : cthread :=
  {| t_pc := p; t_seq := t_seq x; t_todo := t_todo x; t_tries := t_tries x; t_r := t_r x; t_w := t_w x;
     t_d := t_d x; t_gR := t_gR x; t_gW := t_gW x; t_view := t_view x |}.
Definition set_view (x : cthread) (v : view) : cthread :=
  {| t_pc := t_pc x; t_seq := t_seq x; t_todo := t_todo x; t_tries := t_tries x; t_r := t_r x; t_w := t_w x;
     t_d := t_d x; t_gR := t_gR x; t_gW := t_gW x; t_view := v |}.
Definition set_r (x : cthread) (v : Z) : cthread :=
  {| t_pc := t_pc x; t_seq := t_seq x; t_todo := t_todo x; t_tries := t_tries x; t_r := v; t_w := t_w x;
     t_d := t_d x; t_gR := t_gR x; t_gW := t_gW x; t_view := t_view x |}.
Definition set_w (x : cthread) (v : Z) : cthread :=
  {| t_pc := t_pc x; t_seq := t_seq x; t_todo := t_todo x; t_tries := t_tries x; t_r := t_r x; t_w := v;
     t_d := t_d x; t_gR := t_gR x; t_gW := t_gW x; t_view := t_view x |}.
Definition set_d (x : cthread) (v : option msg) : cthread :=
  {| t_pc := t_pc x; t_seq := t_seq x; t_todo := t_todo x; t_tries := t_tries x; t_r := t_r x; t_w := t_w x;
     t_d := v; t_gR := t_gR x; t_gW := t_gW x; t_view := t_view x |}.
Definition set_ghost (x : cthread) (r w : nat) : cthread :=
  {| t_pc := t_pc x; t_seq := t_seq x; t_todo := t_todo x; t_tries := t_tries x; t_r := t_r x; t_w := t_w x;
     t_d := t_d x; t_gR := r; t_gW := w; t_view := t_view x |}.
Definition set_cnt (x : cthread) (sq td tr : nat) : cthread :=
  {| t_pc := t_pc x; t_seq := sq; t_todo := td; t_tries := tr; t_r := t_r x; t_w := t_w x;
     t_d := t_d x; t_gR := t_gR x; t_gW := t_gW x; t_view := t_view x |}.

Definition put_thr (t : nat) (x : cthread) (s : csys) : csys := w_thr (upd (c_thr s) t x) s.

(* cells of the trace *)
Definition cell_wcur : nat := 0%nat.
Definition cell_rcur : nat := 1%nat.
Definition cell_wlock : nat := 2%nat.
Definition cell_rmx : nat := 3%nat.
Definition cell_rcv : nat := 4%nat.
Definition cell_retry : nat := 5%nat.
(* notes *)
Definition n_put : nat := 1%nat.
Definition n_ok : nat := 2%nat.
Definition n_full : nat := 3%nat.
Definition n_giveup : nat := 4%nat.
Definition n_got : nat := 5%nat.
Definition n_fld : nat := 6%nat.

(* lowest thread id < n asleep on the write synclock *)
Fixpoint first_blocked (thr : nat -> cthread) (n : nat) : option nat :=
  match n with
  | O => None
  | S m => match first_blocked thr m with
           | Some u => Some u
           | None => match t_pc (thr m) with WBlocked => Some m | _ => None end
           end
  end.

Definition nacc (s : csys) : nat := length (c_acc s).
Definition wnext (g : cfg) (s : csys) : Z := (c_wcur s + 1) mod g_cap g.
Definition rnext (g : cfg) (s : csys) : Z := (c_rcur s + 1) mod g_cap g.

(* the pointer value the reader received (NULL when the slot was never written) *)
Definition valopt (g : cfg) (d : option msg) : Z := match d with Some m => g_val g m | None => -1 end.

(* chan->blocks[chan->write_cursor].data = data   (ghost: was the slot still unread?) *)
Definition slot_write (t : nat) (m : msg) (s : csys) : csys :=
  let i := c_wcur s in
  let x := c_thr s t in
  let n := S (c_sver s i) in
  put_thr t (set_view x (vupd (t_view x) (CSlot i) n))
    (w_overw (if c_live s i then S (c_overw s) else c_overw s)
    (w_prev (zupd (c_prev s) i (c_slot s i))
    (w_slot (zupd (c_slot s) i (Some m))
    (w_sver (zupd (c_sver s) i n) s)))).

(* the write is refused: ghost check that the ring really was at capacity at the instant given
   by the ghost registers (accepted - committed reads) *)
Definition full_check (g : cfg) (nw nr : nat) (s : csys) : csys :=
  w_badfull (if Z.eqb (Z.of_nat nw - Z.of_nat nr) (usable (g_cap g)) then c_badfull s else S (c_badfull s)) s.

(* void *data = chan->blocks[rpos].data   with the view discipline: a read that is not covered by
   the reader's view may (choice 1) return the previous content of the slot *)
Definition slot_read (s : csys) (v : view) (i : Z) (ch : nat) : option msg * bool :=
  let cov := Nat.eqb (vget v (CSlot i)) (c_sver s i) in
  (if cov then c_slot s i else if Nat.eqb ch 1 then c_prev s i else c_slot s i, cov).

(* ------------------------------------------------------------------ *)
(* plain segments, one micro-step per program point *)
Definition cmicro (g : cfg) (s : csys) (t : nat) (ch : nat) : option (csys * list (nat * Z)) :=
  let x := c_thr s t in
  let go p := put_thr t (set_pc x p) s in
  let m : msg := (t, t_seq x) in
  match t_pc x with
  | W0 =>
    match t_todo x with
    | O => Some (go WFin, [])
    | S _ =>
      let n := S (c_pver s m) in
      let x' := set_pc (set_view x (vupd (t_view x) (CPay m) n)) WCall in
      Some (put_thr t x' (w_pay (mupd (c_pay s) m (tag m + 1000)) (w_pver (mupd (c_pver s) m n) s)),
            [(n_put, tag m)])
    end
  | WCall => Some (go (match g_wk g with WSingle => WBody | _ => WLockOp end), [])
  | WSpinF => Some (go WYield, [])
  | WSyncF => Some (go WFwait, [])
  | WRelock => Some (go WLockOp, [])
  | WBody =>
    match g_rm g with
    | RSync => Some (go WLoadR, [])
    | RMutex => Some (go WRmLock, [])
    | RBusy =>
      let wpos := wnext g s in
      if Z.eqb wpos (c_cached s) then Some (put_thr t (set_pc (set_w x wpos) WLoadR) s, [])
      else let s1 := slot_write t m s in
           Some (put_thr t (set_pc (set_w (c_thr s1 t) wpos) (WPub false)) s1, [])
    end
  | WChk =>
    match g_rm g with
    | RSync =>
      let wpos := wnext g s in
      if Z.eqb wpos (t_r x) then Some (put_thr t (set_pc (set_w x wpos) (WUnlock false)) (full_check g (t_gW x) (t_gR x) s), [])
      else let s1 := slot_write t m s in
           Some (put_thr t (set_pc (set_w (c_thr s1 t) wpos) (WPub false)) s1, [])
    | RBusy =>
      let s0 := w_cached (t_r x) (w_cR (t_gR x) s) in
      if Z.eqb (t_w x) (t_r x) then Some (put_thr t (set_pc x (WUnlock false)) (full_check g (t_gW x) (t_gR x) s0), [])
      else let s1 := slot_write t m s0 in
           Some (put_thr t (set_pc (c_thr s1 t) (WPub true)) s1, [])
    | RMutex => None
    end
  | WRmChk =>
    let wpos := wnext g s in
    if Z.eqb wpos (c_rcur s) then Some (put_thr t (set_pc x (WRmUnlock false)) (full_check g (nacc s) (c_R s) s), [])
    else let i := c_wcur s in
         let s1 := slot_write t m s in
         Some (put_thr t (set_pc (c_thr s1 t) (WRmUnlock true))
                 (w_wcur wpos (w_acc (c_acc s ++ [m]) (w_live (zupd (c_live s) i true) s1))), [])
  | WUnlock ok => Some (go (match g_wk g with WSingle => WAfterUnlock ok | _ => WUnlockOp ok end), [])
  | WSyncRel ok => Some (go (WSyncWake ok), [])
  | WAfterUnlock ok =>
    Some (go (if ok then match g_rm g with RSync => WWake | RMutex => WCvSig | RBusy => WRet true end
              else WRet false), [])
  | WRet true =>
    Some (put_thr t (set_pc (set_cnt x (S (t_seq x)) (pred (t_todo x)) 0) W0) s, [(n_ok, tag m)])
  | WRet false =>
    let tr := S (t_tries x) in
    if negb (Nat.eqb (g_maxtry g) 0) && Nat.leb (g_maxtry g) tr
    then Some (put_thr t (set_pc (set_cnt x (S (t_seq x)) (pred (t_todo x)) 0) W0) s, [(n_full, tag m); (n_giveup, tag m)])
    else Some (put_thr t (set_pc (set_cnt x (t_seq x) (t_todo x) tr) WRetry) s, [(n_full, tag m)])
  | R0 =>
    match t_todo x with
    | O => Some (go RFin, [])
    | S _ =>
      match g_rm g with
      | RMutex => Some (go RMLock, [])
      | _ => Some (put_thr t (set_pc (set_r x (rnext g s)) RLoadW) s, [])
      end
    end
  | RChk =>
    if Z.eqb (t_w x) (t_r x) then
      match g_rm g with
      | RSync => Some (go RWait, [])
      | RBusy => Some (go RLoadW, [])
      | RMutex => None
      end
    else
      let (d, cov) := slot_read s (t_view x) (t_r x) ch in
      Some (put_thr t (set_pc (set_d x d) RStoreR)
              (w_del (c_del s ++ [d]) (w_live (zupd (c_live s) (t_r x) false)
              (w_uncov (if cov then c_uncov s else S (c_uncov s)) s))), [])
  | RLoop => Some (go RLoadW, [])
  | RRet =>
    let d := t_d x in
    let cov := match d with Some m' => Nat.eqb (vget (t_view x) (CPay m')) (c_pver s m') | None => true end in
    (* the harness dereferences the received pointer only when it is the address of a harness object: the
       message's own payload (written by its producer just before the hand-over: view discipline) or a shared
       object (field set before the threads start); NULL, (void* )-1 and small integers are only reported *)
    let fld := match d with
               | Some m' =>
                 if Z.eqb (g_val g m') (tag m')
                 then (if cov then c_pay s m' else if Nat.eqb ch 1 then 0 else c_pay s m')
                 else if Z.leb 9000 (g_val g m') then g_val g m' + 1000 else -1
               | None => -1 end in
    Some (put_thr t (set_pc (set_cnt x (S (t_seq x)) (pred (t_todo x)) 0) R0)
            (w_uncov (if cov then c_uncov s else S (c_uncov s)) s), [(n_got, valopt g d); (n_fld, fld)])
  | RMChk =>
    let rpos := rnext g s in
    if Z.eqb rpos (c_wcur s) then Some (go RCvWait, [])
    else
      let (d, cov) := slot_read s (t_view x) rpos ch in
      Some (put_thr t (set_pc (set_d x d) RMUnlock)
              (w_rcur rpos (w_R (S (c_R s)) (w_del (c_del s ++ [d]) (w_live (zupd (c_live s) rpos false)
              (w_uncov (if cov then c_uncov s else S (c_uncov s)) s))))), [])
  | _ => None
  end.

(* ------------------------------------------------------------------ *)
(* operations: one event each *)
Definition cop (P : params) (g : cfg) (s : csys) (t : nat) (ch : nat) : option (csys * label) :=
  let x := c_thr s t in
  let go p := put_thr t (set_pc x p) s in
  let m : msg := (t, t_seq x) in
  match t_pc x with
  | WLockOp =>
    match g_wk g with
    | WSpin =>
      let mo := mo_spin_tas P in
      let prev := c_lock s in
      let x' := set_pc (set_view x (acq_join mo (t_view x) (c_lst s))) (if Z.eqb prev 0 then WBody else WSpinF) in
      Some (put_thr t x' (w_lock 1 (w_lst (rmw_stamp mo (t_view x) (c_lst s)) s)),
            LEv (Ev OTas cell_wlock mo prev 0 0))
    | WSync =>
      let mo := mo_sync_cas P in
      if Z.eqb (c_lock s) 0 then
        if Nat.eqb ch 1 then Some (go WRelock, LEv (Ev OCasW cell_wlock mo 0 1 2))
        else
          let x' := set_pc (set_view x (acq_join mo (t_view x) (c_lst s))) WBody in
          Some (put_thr t x' (w_lock 1 (w_lst (rmw_stamp mo (t_view x) (c_lst s)) s)),
                LEv (Ev OCasW cell_wlock mo 0 1 1))
      else Some (go WSyncF, LEv (Ev OCasW cell_wlock mo (c_lock s) 1 0))
    | WMutex =>
      if Z.eqb (c_lock s) 0 then
        let x' := set_pc (set_view x (vjoin (t_view x) (c_lst s))) WBody in
        Some (put_thr t x' (w_lock 1 (w_lst (c_lst s) s)), LEv (Ev OMlock cell_wlock MoNone 0 0 0))
      else None
    | WSingle => None
    end
  | WYield => Some (go WRelock, LEv (Ev OYield 0%nat MoNone 0 0 0))
  | WFwait =>
    (* muggle_sync_wait(synclock, LOCK): the value still matches: the wait may be interrupted
       (choice 2: returns -1 / EINTR) or end by a spurious wake-up (choice 3: returns 0) instead of
       sleeping; muggle_synclock_lock ignores the result and retries the compare-exchange *)
    if Z.eqb (c_lock s) 1 then
      if Nat.eqb ch 2 then Some (go WRelock, LEv (Ev OFwait cell_wlock MoNone 1 1 2))
      else if Nat.eqb ch 3 then Some (go WRelock, LEv (Ev OFwait cell_wlock MoNone 1 1 3))
      else Some (go WBlocked, LEv (Ev OFwait cell_wlock MoNone 1 1 1))
    else Some (go WRelock, LEv (Ev OFwait cell_wlock MoNone 1 (c_lock s) 0))
  | WLoadR =>
    let mo := match g_rm g with RSync => mo_ws_load P | _ => mo_wb_load P end in
    let x' := set_pc (set_ghost (set_r (set_view x (acq_join mo (t_view x) (c_rst s))) (c_rcur s)) (c_R s) (nacc s)) WChk in
    Some (put_thr t x' s, LEv (Ev OLoad cell_rcur mo (c_rcur s) 0 0))
  | WPub after =>
    let mo := match g_rm g with RSync => mo_ws_store P | _ => if after then mo_wb_store2 P else mo_wb_store1 P end in
    Some (put_thr t (set_pc x (WUnlock true))
            (w_wcur (t_w x) (w_acc (c_acc s ++ [m])
            (w_live (zupd (c_live s) (c_wcur s) true) (w_wst (rel_stamp mo (t_view x)) s)))),
          LEv (Ev OStore cell_wcur mo (t_w x) 0 0))
  | WRmLock =>
    if Z.eqb (c_rmx s) 0 then
      Some (put_thr t (set_pc (set_view x (vjoin (t_view x) (c_rmst s))) WRmChk) (w_rmx 1 s),
            LEv (Ev OMlock cell_rmx MoNone 0 0 0))
    else None
  | WRmUnlock ok =>
    Some (put_thr t (set_pc x (WUnlock ok)) (w_rmx 0 (w_rmst (t_view x) s)), LEv (Ev OMunlock cell_rmx MoNone 0 0 0))
  | WUnlockOp ok =>
    match g_wk g with
    | WSpin =>
      let mo := mo_spin_clear P in
      Some (put_thr t (set_pc x (WAfterUnlock ok)) (w_lock 0 (w_lst (rel_stamp mo (t_view x)) s)),
            LEv (Ev OClear cell_wlock mo 0 0 0))
    | WSync =>
      let mo := mo_sync_store P in
      Some (put_thr t (set_pc x (WSyncRel ok)) (w_lock 0 (w_lst (rel_stamp mo (t_view x)) s)),
            LEv (Ev OStore cell_wlock mo 0 0 0))
    | WMutex =>
      Some (put_thr t (set_pc x (WAfterUnlock ok)) (w_lock 0 (w_lst (t_view x) s)),
            LEv (Ev OMunlock cell_wlock MoNone 0 0 0))
    | WSingle => None
    end
  | WSyncWake ok =>
    match first_blocked (c_thr s) (S (g_nw g)) with
    | Some u =>
      let s1 := put_thr u (set_pc (c_thr s u) WRelock) s in
      Some (put_thr t (set_pc (c_thr s1 t) (WAfterUnlock ok)) s1, LEv (Ev OFwake cell_wlock MoNone 1 1 0))
    | None => Some (go (WAfterUnlock ok), LEv (Ev OFwake cell_wlock MoNone 1 0 0))
    end
  | WWake =>
    match t_pc (c_thr s 0%nat) with
    | RBlocked =>
      let s1 := put_thr 0%nat (set_pc (c_thr s 0%nat) RLoop) s in
      Some (put_thr t (set_pc (c_thr s1 t) (WRet true)) s1, LEv (Ev OFwake cell_wcur MoNone 1 1 0))
    | _ => Some (go (WRet true), LEv (Ev OFwake cell_wcur MoNone 1 0 0))
    end
  | WCvSig =>
    match t_pc (c_thr s 0%nat) with
    | RCvBlocked =>
      let s1 := put_thr 0%nat (set_pc (c_thr s 0%nat) RCvWoken) s in
      Some (put_thr t (set_pc (c_thr s1 t) (WRet true)) s1, LEv (Ev OCvsig cell_rcv MoNone 1 0 0))
    | _ => Some (go (WRet true), LEv (Ev OCvsig cell_rcv MoNone 0 (-1) 0))
    end
  | WRetry => Some (go WCall, LEv (Ev OPlain cell_retry MoNone 0 0 0))
  | WFin => Some (go WDone, LExit)
  | RLoadW =>
    let mo := match g_rm g with RSync => mo_rs_load P | _ => mo_rb_load P end in
    let x' := set_pc (set_w (set_view x (acq_join mo (t_view x) (c_wst s))) (c_wcur s)) RChk in
    Some (put_thr t x' s, LEv (Ev OLoad cell_wcur mo (c_wcur s) 0 0))
  | RStoreR =>
    let mo := match g_rm g with RSync => mo_rs_store P | _ => mo_rb_store P end in
    Some (put_thr t (set_pc x RRet) (w_rcur (t_r x) (w_R (S (c_R s)) (w_rst (rel_stamp mo (t_view x)) s))),
          LEv (Ev OStore cell_rcur mo (t_r x) 0 0))
  | RWait =>
    (* muggle_sync_wait(&write_cursor, wpos): interrupted (choice 2) or spuriously woken (choice 3)
       instead of sleeping; muggle_channel_read_sync ignores the result and loads the cursor again *)
    if Z.eqb (c_wcur s) (t_w x) then
      if Nat.eqb ch 2 then Some (go RLoop, LEv (Ev OFwait cell_wcur MoNone (t_w x) (c_wcur s) 2))
      else if Nat.eqb ch 3 then Some (go RLoop, LEv (Ev OFwait cell_wcur MoNone (t_w x) (c_wcur s) 3))
      else Some (go RBlocked, LEv (Ev OFwait cell_wcur MoNone (t_w x) (c_wcur s) 1))
    else Some (go RLoop, LEv (Ev OFwait cell_wcur MoNone (t_w x) (c_wcur s) 0))
  | RMLock =>
    if Z.eqb (c_rmx s) 0 then
      Some (put_thr t (set_pc (set_view x (vjoin (t_view x) (c_rmst s))) RMChk) (w_rmx 1 s),
            LEv (Ev OMlock cell_rmx MoNone 0 0 0))
    else None
  | RMUnlock =>
    Some (put_thr t (set_pc x RRet) (w_rmx 0 (w_rmst (t_view x) s)), LEv (Ev OMunlock cell_rmx MoNone 0 0 0))
  | RCvWait =>
    Some (put_thr t (set_pc x RCvBlocked) (w_rmx 0 (w_rmst (t_view x) s)), LEv (Ev OCvwait cell_rcv MoNone 0 0 0))
  | RCvBlocked =>
    (* Mesa condition variable: a waiter may be woken spuriously (choice 1; the scheduler's
       "W <tid> cvspur" line): it then competes for the mutex like a signalled waiter *)
    if Nat.eqb ch 1 then Some (go RCvWoken, LEv (Ev OCvwoke cell_rcv MoNone 1 0 0)) else None
  | RCvWoken =>
    if Z.eqb (c_rmx s) 0 then
      Some (put_thr t (set_pc (set_view x (vjoin (t_view x) (c_rmst s))) RMChk) (w_rmx 1 s),
            LEv (Ev OCvwoke cell_rcv MoNone 0 0 0))
    else None
  | RFin => Some (go RDone, LExit)
  | _ => None
  end.

(* small-step semantics: one micro-step or one operation *)
Definition cstep1 (P : params) (g : cfg) (s : csys) (t : nat) (ch : nat) : option (csys * label) :=
  if is_plain (t_pc (c_thr s t)) then
    match cmicro g s t ch with Some (s', ns) => Some (s', LPlain ns) | None => None end
  else cop P g s t ch.

(* a plain segment of the trace: micro-steps up to the next operation *)
Fixpoint crun (fuel : nat) (g : cfg) (s : csys) (t ch : nat) (acc : list (nat * Z)) : csys * list (nat * Z) :=
  match fuel with
  | O => (s, acc)
  | S f =>
    if is_plain (t_pc (c_thr s t)) then
      match cmicro g s t ch with
      | Some (s', ns) => crun f g s' t ch (acc ++ ns)
      | None => (s, acc)
      end
    else (s, acc)
  end.

(* the step of the trace-level transition system (harness granularity) *)
Definition cstep (P : params) (g : cfg) (s : csys) (t : nat) (ch : nat) : option (csys * label) :=
  if is_plain (t_pc (c_thr s t)) then
    match cmicro g s t ch with
    | Some (s', ns) => let (s'', ns') := crun 16 g s' t ch ns in Some (s'', LPlain ns')
    | None => None
    end
  else cop P g s t ch.

Definition thread0 (p : pc) (todo : nat) : cthread :=
  {| t_pc := p; t_seq := 0; t_todo := todo; t_tries := 0; t_r := 0; t_w := 0; t_d := None;
     t_gR := 0; t_gW := 0; t_view := vbot |}.

(* state after muggle_channel_init; [ks t] = number of messages of writer t *)
Definition cinit (g : cfg) (nread : nat) (ks : nat -> nat) : csys :=
  {| c_wcur := 0; c_wst := vbot; c_rcur := g_cap g - 1; c_rst := vbot; c_cached := g_cap g - 1;
     c_lock := 0; c_lst := vbot; c_rmx := 0; c_rmst := vbot;
     c_slot := fun _ => None; c_prev := fun _ => None; c_sver := fun _ => 0%nat;
     c_pay := fun _ => 0; c_pver := fun _ => 0%nat;
     c_acc := []; c_del := []; c_R := 0; c_cR := 0; c_live := fun _ => false;
     c_overw := 0; c_badfull := 0; c_uncov := 0;
     c_thr := fun t => if Nat.eqb t 0 then thread0 R0 nread
                       else if Nat.leb t (g_nw g) then thread0 W0 (ks t) else thread0 WDone 0 |}.

Definition mk_cfg_val (wk : wkind) (rm : rmode) (reqcap : Z) (nw maxtry : nat) (val : msg -> Z) : cfg :=
  {| g_wk := wk; g_rm := rm; g_cap := round_cap reqcap; g_nw := nw; g_maxtry := maxtry; g_val := val |}.
(* every message carries the address of its own payload object *)
Definition mk_cfg (wk : wkind) (rm : rmode) (reqcap : Z) (nw maxtry : nat) : cfg :=
  mk_cfg_val wk rm reqcap nw maxtry tag.
Definition with_val (g : cfg) (val : msg -> Z) : cfg :=
  {| g_wk := g_wk g; g_rm := g_rm g; g_cap := g_cap g; g_nw := g_nw g; g_maxtry := g_maxtry g; g_val := val |}.

(* memory orders that make the hand-over sound: release on every publication of write_cursor,
   acquire on the reader's load (sync / busy modes; the mutex mode hands over through
   read_mutex), acquire/release on the hand-written writer locks *)
Definition chan_mo_ok (P : params) (rm : rmode) : bool :=
  match rm with
  | RSync => is_rel (mo_ws_store P) && is_acq (mo_rs_load P)
  | RBusy => is_rel (mo_wb_store1 P) && is_rel (mo_wb_store2 P) && is_acq (mo_rb_load P)
  | RMutex => true
  end.
Definition lock_mo_ok (P : params) (wk : wkind) : bool :=
  match wk with
  | WSpin => is_acq (mo_spin_tas P) && is_rel (mo_spin_clear P)
  | WSync => is_acq (mo_sync_cas P) && is_rel (mo_sync_store P)
  | WMutex | WSingle => true
  end.
(* the consumer side (ModelRC.v): the reader's store of read_cursor must be a release store, so that
   its slot read is ordered before the writer's next store into that slot (sync / busy modes; the
   mutex mode orders them through read_mutex) *)
Definition chan_rd_mo_ok (P : params) (rm : rmode) : bool :=
  match rm with
  | RSync => is_rel (mo_rs_store P)
  | RBusy => is_rel (mo_rb_store P)
  | RMutex => true
  end.
Definition mo_sufficient (P : params) : bool :=
  chan_mo_ok P RSync && chan_mo_ok P RBusy && lock_mo_ok P WSpin && lock_mo_ok P WSync &&
  chan_rd_mo_ok P RSync && chan_rd_mo_ok P RBusy.
