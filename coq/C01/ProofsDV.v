(* C01 — double buffer: the payload hand-over is a happens-before edge.  Writers append to the back
   buffer under the mutex; the reader swaps under the mutex and then walks the batch (entries and
   payloads) outside it, while writers touch only the other buffer.  With the pthread semantics
   every plain read of the reader is covered by its view.  Any number of writers, any capacity,
   blocking and non-blocking, spurious wake-ups included. *)
From MV Require Import C01.Model C01.ModelQ C01.ProofsArith C01.ProofsView C01.ProofsQ.
Local Open Scope Z_scope.

Ltac inv_some H := inversion H; subst; clear H.

Definition dver (s : dsys) (c : pcell) : nat := match c with CSlot j => d_sver s j | CPay m => d_pver s m end.
Definition dle (s : dsys) (v : view) : Prop := forall c, (vget v c <= dver s c)%nat.
Definition dcellp (s : dsys) (c : pcell) : Prop := match c with CSlot _ => True | CPay m => In m (d_written s) end.
Definition dcov (s : dsys) (v : view) : Prop := forall c, dcellp s c -> vget v c = dver s c.
Definition dhold (p : dpc) : bool :=
  match p with
  | DChk | DSig | DAfterSig | DUnlock _ | DWait | EChk | ESig | EAfterSig | EUnlock | EWait => true
  | _ => false
  end.
Definition down (p : dpc) : bool :=
  match p with
  | DCall | DChk | DAfterSig | DRet _ | DLock | DWait | DBlocked | DWoken | DSig | DUnlock _ | DRetry => true
  | _ => false
  end.
Definition dafter (p : dpc) : bool :=
  match p with DSig | DAfterSig | DUnlock true | DRet true => true | _ => false end.
Definition dbatch_pc (p : dpc) : bool := match p with ESig | EAfterSig | EUnlock | ERet => true | _ => false end.
Definition depc (p : dpc) : bool :=
  match p with
  | E0 | EChk | EAfterSig | ERet | ELock | EWait | EBlocked | EWoken | ESig | EUnlock | EFin | EDone => true
  | _ => false
  end.

(* what the reader knows about the batch it has just swapped to the front *)
Definition drk (s : dsys) (x : dthread) : Prop :=
  dbatch_pc (d_pc x) = true ->
  forall k : nat, Z.of_nat k < d_cnt s (d_front s) ->
    vget (d_view x) (dcell (d_front s) (Z.of_nat k)) = d_sver s (dcode (d_front s) (Z.of_nat k)) /\
    match d_datas s (d_front s) (Z.of_nat k) with
    | Some m => In m (d_written s) /\ vget (d_view x) (CPay m) = d_pver s m
    | None => True
    end.

Record DVInv (s : dsys) : Prop := {
  dv_le : forall t, dle s (d_view (d_thr s t));
  dv_le_mst : dle s (d_mst s);
  dv_mx01 : d_mx s = 0 \/ d_mx s = 1;
  dv_hold : forall t, dhold (d_pc (d_thr s t)) = true -> dcov s (d_view (d_thr s t));
  dv_free : d_mx s = 0 -> dcov s (d_mst s) /\ forall t, dhold (d_pc (d_thr s t)) = false;
  dv_excl : forall t u, dhold (d_pc (d_thr s t)) = true -> dhold (d_pc (d_thr s u)) = true -> t = u;
  dv_own : forall t, down (d_pc (d_thr s t)) = true ->
           vget (d_view (d_thr s t)) (CPay (t, d_seq (d_thr s t))) = d_pver s (t, d_seq (d_thr s t));
  dv_fresh : forall m, In m (d_written s) ->
             (snd m < d_seq (d_thr s (fst m)))%nat \/
             (snd m = d_seq (d_thr s (fst m)) /\ dafter (d_pc (d_thr s (fst m))) = true);
  dv_rd : forall t, depc (d_pc (d_thr s t)) = true -> t = 0%nat;
  dv_rk : drk s (d_thr s 0%nat);
  dv_uncov : d_uncov s = 0%nat;
}.

Ltac dunf := unfold dle, dcov, dcellp, drk, dver in *.

Ltac eqb_cases :=
  repeat match goal with
  | |- context [if Nat.eqb ?a ?b then _ else _] => destruct (Nat.eqb_spec a b)
  | |- context [if Nat.leb ?a ?b then _ else _] => destruct (Nat.leb a b)
  | H : context [if Nat.eqb ?a ?b then _ else _] |- _ => destruct (Nat.eqb_spec a b)
  | H : context [if Nat.leb ?a ?b then _ else _] |- _ => destruct (Nat.leb a b)
  end.

Lemma dinit_vinv cap nb mt nw total ks : DVInv (dinit cap nb mt nw total ks).
Proof.
  constructor; dunf; simpl; intros; try (split; intros); eqb_cases; simpl in *;
    try discriminate; try lia; try contradiction; try reflexivity; auto.
  all: try (match goal with c : pcell |- _ => destruct c; reflexivity end).
Qed.

Lemma dv_thr s t x' : DVInv s ->
  dle s (d_view x') ->
  dhold (d_pc x') = dhold (d_pc (d_thr s t)) ->
  (dhold (d_pc x') = true -> dcov s (d_view x')) ->
  (down (d_pc x') = true -> vget (d_view x') (CPay (t, d_seq x')) = d_pver s (t, d_seq x')) ->
  (forall m, In m (d_written s) -> fst m = t ->
     (snd m < d_seq x')%nat \/ (snd m = d_seq x' /\ dafter (d_pc x') = true)) ->
  (depc (d_pc x') = true -> t = 0%nat) ->
  (t = 0%nat -> drk s x') ->
  DVInv (dset s t x').
Proof.
  intros V Hle Hh Hcov Hown Hfr Hrd Hk.
  destruct V as [Vl Vm V01 Vh Vf Vx Vo Vfr Vrd Vk Vu].
  constructor; dunf; simpl; try assumption.
  - intros a. unfold upd. destruct (Nat.eqb_spec a t); [exact Hle|apply Vl].
  - intros a Ha. unfold upd in *. destruct (Nat.eqb_spec a t); [apply Hcov; exact Ha|apply Vh; exact Ha].
  - intros H0. destruct (Vf H0) as [A B]. split; [exact A|].
    intros a. unfold upd. destruct (Nat.eqb_spec a t); [rewrite Hh; apply B|apply B].
  - intros a b Ha Hb. unfold upd in *.
    destruct (Nat.eqb_spec a t), (Nat.eqb_spec b t); subst; try reflexivity.
    + rewrite Hh in Ha. apply Vx; assumption.
    + rewrite Hh in Hb. apply Vx; assumption.
    + apply Vx; assumption.
  - intros a Ha. unfold upd in *. destruct (Nat.eqb_spec a t); [subst a; apply Hown; exact Ha|apply Vo; exact Ha].
  - intros m Hm. unfold upd. destruct (Nat.eqb_spec (fst m) t) as [E|E]; [apply Hfr; assumption|apply Vfr; exact Hm].
  - intros a Ha. unfold upd in Ha. destruct (Nat.eqb_spec a t); [subst a; apply Hrd; exact Ha|apply Vrd; exact Ha].
  - unfold upd. destruct (Nat.eqb_spec 0%nat t) as [E|E]; [apply Hk; symmetry; exact E|exact Vk].
Qed.

Lemma dv_thr_mono s t x' : DVInv s ->
  (forall c, (vget (d_view (d_thr s t)) c <= vget (d_view x') c <= dver s c)%nat) ->
  d_seq x' = d_seq (d_thr s t) ->
  dhold (d_pc x') = dhold (d_pc (d_thr s t)) ->
  (down (d_pc x') = true -> down (d_pc (d_thr s t)) = true) ->
  (dafter (d_pc (d_thr s t)) = true -> dafter (d_pc x') = true) ->
  (dbatch_pc (d_pc x') = true -> dbatch_pc (d_pc (d_thr s t)) = true) ->
  (depc (d_pc x') = true -> depc (d_pc (d_thr s t)) = true) ->
  DVInv (dset s t x').
Proof.
  intros V Hv Hseq Hh Ho Ha Hb He. pose proof V as V0.
  destruct V as [Vl Vm V01 Vh Vf Vx Vo Vfr Vrd Vk Vu].
  apply dv_thr; try assumption.
  - intros c. apply Hv.
  - intros H c Hc. rewrite Hh in H. pose proof (Vh t H c Hc) as E. pose proof (Hv c). unfold dcov, dver in *. lia.
  - intros H. rewrite Hseq. pose proof (Vo t (Ho H)) as E.
    pose proof (Hv (CPay (t, d_seq (d_thr s t)))) as B. simpl in B. lia.
  - intros m Hm0 E. subst t. rewrite Hseq.
    destruct (Vfr m Hm0) as [A|[A B]]; [left; exact A|right; split; [exact A|apply Ha; exact B]].
  - intros H. apply Vrd. apply He. exact H.
  - intros E0. subst t. unfold drk in *. intros Hq k Hk. destruct (Vk (Hb Hq) k Hk) as [K1 K2].
    pose proof (Vl 0%nat) as L. unfold dle, dver in L. split.
    + pose proof (Hv (dcell (d_front s) (Z.of_nat k))) as B. pose proof (L (dcell (d_front s) (Z.of_nat k))) as B2.
      unfold dcell in *. simpl in B, B2. lia.
    + destruct (d_datas s (d_front s) (Z.of_nat k)) as [m|]; [|exact I]. destruct K2 as [K2 K3]. split; [exact K2|].
      pose proof (Hv (CPay m)) as B. pose proof (L (CPay m)) as B2. simpl in B, B2. lia.
Qed.

Lemma dv_setpc s t p' : DVInv s ->
  dhold p' = dhold (d_pc (d_thr s t)) ->
  (down p' = true -> down (d_pc (d_thr s t)) = true) ->
  (dafter (d_pc (d_thr s t)) = true -> dafter p' = true) ->
  (dbatch_pc p' = true -> dbatch_pc (d_pc (d_thr s t)) = true) ->
  (depc p' = true -> depc (d_pc (d_thr s t)) = true) ->
  DVInv (dset s t (dpc_set (d_thr s t) p')).
Proof.
  intros V H1 H2 H3 H4 H5. apply dv_thr_mono; simpl; try assumption; try reflexivity.
  intros c. split; [lia|apply (dv_le _ V t c)].
Qed.

Lemma dcode_neq b i k : dcode (negb b) i <> dcode b k.
Proof. unfold dcode. destruct b; unfold negb; lia. Qed.

(* the producer writes the payload of a fresh item *)
Lemma dv_payload s t : DVInv s -> d_pc (d_thr s t) = D0 ->
  let x := d_thr s t in
  let m := (t, d_seq x) in
  let n := S (d_pver s m) in
  DVInv (dset (dw_pay (mupd (d_pay s) m (tag m + 1000)) (dw_pver (mupd (d_pver s) m n) s)) t
           (dpc_set (dview_set x (vupd (d_view x) (CPay m) n)) DCall)).
Proof.
  intros V Epc x m n. pose proof V as V0.
  destruct V as [Vl Vm V01 Vh Vf Vx Vo Vfr Vrd Vk Vu].
  set (s1 := dw_pay (mupd (d_pay s) m (tag m + 1000)) (dw_pver (mupd (d_pver s) m n) s)).
  assert (Hfresh : ~ In m (d_written s)).
  { intros Hm. destruct (Vfr m Hm) as [A|[A B]]; unfold m, x in *; simpl in *; [lia|]. rewrite Epc in B. discriminate. }
  assert (Hver : forall c, c <> CPay m -> dver s1 c = dver s c).
  { intros c Hc. destruct c as [i|m']; simpl; [reflexivity|]. unfold mupd.
    destruct (msg_eqb_spec m' m); [subst; contradiction|reflexivity]. }
  assert (Hverm : dver s1 (CPay m) = n).
  { simpl. unfold mupd. destruct (msg_eqb_spec m m); [reflexivity|contradiction]. }
  assert (Hle : forall v, dle s v -> dle s1 v).
  { intros v Hv c. destruct (pcell_eqb_spec c (CPay m)) as [E|E].
    - subst c. rewrite Hverm. specialize (Hv (CPay m)). simpl in Hv. unfold n. lia.
    - rewrite Hver by exact E. apply Hv. }
  assert (Hcov : forall v, dcov s v -> dcov s1 v).
  { intros v Hv c Hc. assert (c <> CPay m) by (intros E; subst c; simpl in Hc; contradiction).
    rewrite Hver by assumption. apply Hv. exact Hc. }
  assert (Hupd : forall c, c <> CPay m -> vget (vupd (d_view x) (CPay m) n) c = vget (d_view x) c).
  { intros c Hc. rewrite vget_vupd. destruct (pcell_eqb_spec c (CPay m)); [contradiction|reflexivity]. }
  assert (Hupdm : vget (vupd (d_view x) (CPay m) n) (CPay m) = n).
  { rewrite vget_vupd, pcell_eqb_refl. pose proof (Vl t (CPay m)) as B. simpl in B. fold x in B. unfold n. lia. }
  assert (Hlet : dle s1 (vupd (d_view x) (CPay m) n)).
  { intros c. destruct (pcell_eqb_spec c (CPay m)) as [E|E].
    - subst c. rewrite Hupdm. rewrite Hverm. lia.
    - rewrite Hupd by exact E. rewrite Hver by exact E. apply Vl. }
  constructor.
  - intros a. simpl. unfold upd. destruct (Nat.eqb_spec a t); [exact Hlet|apply Hle; apply Vl].
  - apply Hle; exact Vm.
  - exact V01.
  - intros a Ha. simpl in Ha |- *. unfold upd in *. destruct (Nat.eqb_spec a t); [simpl in Ha; discriminate Ha|].
    apply Hcov. apply Vh. exact Ha.
  - intros H0. destruct (Vf H0) as [A B]. split; [apply Hcov; exact A|].
    intros a. simpl. unfold upd. destruct (Nat.eqb_spec a t); [reflexivity|apply B].
  - intros a b Ha Hb. simpl in *. unfold upd in *.
    destruct (Nat.eqb_spec a t); [simpl in Ha; discriminate Ha|]. destruct (Nat.eqb_spec b t); [simpl in Hb; discriminate Hb|].
    apply Vx; assumption.
  - intros a Ha. simpl in *. unfold upd in *. destruct (Nat.eqb_spec a t).
    + subst a. simpl. fold x. fold m. rewrite Hupdm. unfold mupd. destruct (msg_eqb_spec m m); [reflexivity|contradiction].
    + unfold mupd. destruct (msg_eqb_spec (a, d_seq (d_thr s a)) m) as [E|E]; [inversion E; contradiction|].
      apply Vo. exact Ha.
  - intros m' Hm'. simpl in *. unfold upd. destruct (Nat.eqb_spec (fst m') t) as [E|E]; [|apply Vfr; exact Hm'].
    simpl. left. destruct (Vfr m' Hm') as [A|[A B]]; rewrite E in *; [exact A|]. fold x in B. unfold x in B. rewrite Epc in B. discriminate.
  - intros a Ha. simpl in Ha. unfold upd in Ha. destruct (Nat.eqb_spec a t); [simpl in Ha; discriminate Ha|apply Vrd; exact Ha].
  - simpl. unfold upd. destruct (Nat.eqb_spec 0%nat t) as [E|E].
    + unfold drk. simpl. intros Hq. discriminate Hq.
    + unfold drk in *. simpl. intros Hq k Hk. destruct (Vk Hq k Hk) as [K1 K2]. split; [exact K1|].
      destruct (d_datas s (d_front s) (Z.of_nat k)) as [m'|]; [|exact I]. destruct K2 as [K2 K3]. split; [exact K2|].
      unfold mupd. destruct (msg_eqb_spec m' m) as [E2|E2]; [subst m'; contradiction|exact K3].
  - exact Vu.
Qed.

(* append under the mutex: p_back->datas[p_back->cnt++] = data *)
Lemma dv_append s t : DVInv s -> d_pc (d_thr s t) = DChk ->
  let x := d_thr s t in
  let m := (t, d_seq x) in
  let back := negb (d_front s) in
  let i := d_cnt s back in
  let n := S (d_sver s (dcode back i)) in
  DVInv (dset (dw_datas (bupd (d_datas s) back (zupd (d_datas s back) i (Some m)))
              (dw_sver (zupd (d_sver s) (dcode back i) n)
              (dw_cnt (bupd (d_cnt s) back (i + 1)) (dw_written (d_written s ++ [m]) s)))) t
           (dpc_set (dview_set x (vupd (d_view x) (dcell back i) n)) DSig)).
Proof.
  intros V Epc x m back i n. pose proof V as V0.
  destruct V as [Vl Vm V01 Vh Vf Vx Vo Vfr Vrd Vk Vu].
  assert (Hh : dhold (d_pc (d_thr s t)) = true) by (rewrite Epc; reflexivity).
  assert (Hnm : d_mx s <> 0).
  { intros E. destruct (Vf E) as [_ B]. rewrite (B t) in Hh. discriminate. }
  set (s1 := dw_datas (bupd (d_datas s) back (zupd (d_datas s back) i (Some m)))
              (dw_sver (zupd (d_sver s) (dcode back i) n)
              (dw_cnt (bupd (d_cnt s) back (i + 1)) (dw_written (d_written s ++ [m]) s)))).
  assert (Hver : forall c, c <> dcell back i -> dver s1 c = dver s c).
  { intros c Hc. destruct c as [j|m']; simpl; [|reflexivity]. unfold zupd.
    destruct (Z.eqb_spec j (dcode back i)); [subst; exfalso; apply Hc; reflexivity|reflexivity]. }
  assert (Hveri : dver s1 (dcell back i) = n).
  { simpl. unfold zupd. now rewrite Z.eqb_refl. }
  assert (Hle : forall v, dle s v -> dle s1 v).
  { intros v Hv c. destruct (pcell_eqb_spec c (dcell back i)) as [E|E].
    - subst c. rewrite Hveri. specialize (Hv (dcell back i)). simpl in Hv. unfold n. lia.
    - rewrite Hver by exact E. apply Hv. }
  assert (Hupd : forall c, c <> dcell back i -> vget (vupd (d_view x) (dcell back i) n) c = vget (d_view x) c).
  { intros c Hc. rewrite vget_vupd. destruct (pcell_eqb_spec c (dcell back i)); [contradiction|reflexivity]. }
  assert (Hupdi : vget (vupd (d_view x) (dcell back i) n) (dcell back i) = n).
  { rewrite vget_vupd, pcell_eqb_refl. pose proof (Vl t (dcell back i)) as B. simpl in B. fold x in B. unfold n. lia. }
  assert (Hlet : dle s1 (vupd (d_view x) (dcell back i) n)).
  { intros c. destruct (pcell_eqb_spec c (dcell back i)) as [E|E].
    - subst c. rewrite Hupdi, Hveri. lia.
    - rewrite Hupd by exact E. rewrite Hver by exact E. apply Vl. }
  assert (Hown : vget (d_view x) (CPay m) = d_pver s m).
  { apply (Vo t). rewrite Epc. reflexivity. }
  assert (Hcovt : dcov s1 (vupd (d_view x) (dcell back i) n)).
  { intros c Hc. destruct (pcell_eqb_spec c (dcell back i)) as [E|E].
    - subst c. rewrite Hupdi, Hveri. reflexivity.
    - rewrite Hupd by exact E. rewrite Hver by exact E.
      destruct c as [j|m']; [apply (Vh t Hh); exact I|].
      simpl in Hc. apply in_app_or in Hc. destruct Hc as [Hc|[Hc|[]]].
      + apply (Vh t Hh). exact Hc.
      + subst m'. exact Hown. }
  constructor.
  - intros a. simpl. unfold upd. destruct (Nat.eqb_spec a t); [exact Hlet|apply Hle; apply Vl].
  - apply Hle; exact Vm.
  - exact V01.
  - intros a Ha. simpl in Ha |- *. unfold upd in *. destruct (Nat.eqb_spec a t); [exact Hcovt|].
    exfalso. apply n0. apply Vx; assumption.
  - intros E. exfalso. apply Hnm. exact E.
  - intros a b Ha Hb. simpl in *. unfold upd in *.
    destruct (Nat.eqb_spec a t), (Nat.eqb_spec b t); subst; try reflexivity; simpl in *;
      first [apply Vx; [assumption|exact Hh] | symmetry; apply Vx; [assumption|exact Hh] | apply Vx; assumption].
  - intros a Ha. simpl in *. unfold upd in *. destruct (Nat.eqb_spec a t).
    + subst a. simpl. fold x. rewrite Hupd by (unfold dcell; discriminate). exact Hown.
    + apply Vo; assumption.
  - intros m' Hm'. simpl in Hm'. apply in_app_or in Hm'. simpl. unfold upd. destruct Hm' as [Hm'|[Hm'|[]]].
    + destruct (Nat.eqb_spec (fst m') t) as [E|E]; [|apply Vfr; exact Hm'].
      simpl. left. destruct (Vfr m' Hm') as [A|[A B]]; rewrite E in *; [exact A|]. rewrite Epc in B. discriminate.
    + subst m'. simpl. rewrite Nat.eqb_refl. simpl. right. split; reflexivity.
  - intros a Ha. simpl in Ha. unfold upd in Ha. destruct (Nat.eqb_spec a t); [simpl in Ha; discriminate Ha|apply Vrd; exact Ha].
  - simpl. unfold upd. destruct (Nat.eqb_spec 0%nat t) as [E|E].
    + unfold drk. simpl. intros Hq. discriminate Hq.
    + unfold drk in *. simpl. intros Hq k Hk.
      assert (Hfb : Bool.eqb (d_front s) back = false) by (unfold back; destruct (d_front s); reflexivity).
      unfold bupd in *. rewrite Hfb in *. destruct (Vk Hq k Hk) as [K1 K2]. split.
      * unfold zupd. destruct (Z.eqb_spec (dcode (d_front s) (Z.of_nat k)) (dcode back i)) as [E2|E2]; [|exact K1].
        exfalso. symmetry in E2. unfold back in E2. exact (dcode_neq _ _ _ E2).
      * destruct (d_datas s (d_front s) (Z.of_nat k)) as [m'|]; [|exact I]. destruct K2 as [K2 K3].
        split; [apply in_or_app; left; exact K2|exact K3].
  - exact Vu.
Qed.

Lemma batch_in f n k : (k < n)%nat -> In (f (Z.of_nat k)) (batch f n).
Proof.
  induction n as [|j IH]; intros H; [lia|]. simpl. apply in_or_app.
  destruct (Nat.eq_dec k j) as [E|E]; [subst; right; left; reflexivity|left; apply IH; lia].
Qed.

(* the reader swaps the buffers under the mutex: it knows the whole batch *)
Lemma dv_swap s : DInv s -> DVInv s -> d_pc (d_thr s 0%nat) = EChk ->
  let x := d_thr s 0%nat in
  let back := negb (d_front s) in
  DVInv (dset (dw_cnt (bupd (d_cnt s) (d_front s) 0) (dw_front back
              (dw_read (d_read s ++ batch (d_datas s back) (Z.to_nat (d_cnt s back))) s))) 0%nat (dpc_set x ESig)).
Proof.
  intros I V Epc x back. pose proof V as V0.
  destruct V as [Vl Vm V01 Vh Vf Vx Vo Vfr Vrd Vk Vu].
  assert (Hh : dhold (d_pc (d_thr s 0%nat)) = true) by (rewrite Epc; reflexivity).
  pose proof (Vh 0%nat Hh) as Cov.
  constructor; dunf; simpl; try assumption.
  - intros a. unfold upd. destruct (Nat.eqb_spec a 0%nat); apply Vl.
  - intros a Ha. unfold upd in *. destruct (Nat.eqb_spec a 0%nat); [exact Cov|apply Vh; exact Ha].
  - intros H0. destruct (Vf H0) as [_ B]. rewrite (B 0%nat) in Hh. discriminate.
  - intros a b Ha Hb. unfold upd in *.
    destruct (Nat.eqb_spec a 0%nat), (Nat.eqb_spec b 0%nat); subst; try reflexivity; simpl in *;
      first [apply Vx; [assumption|exact Hh] | symmetry; apply Vx; [assumption|exact Hh] | apply Vx; assumption].
  - intros a Ha. unfold upd in *. destruct (Nat.eqb_spec a 0%nat); [subst a; simpl in Ha; discriminate Ha|apply Vo; exact Ha].
  - intros m Hm. unfold upd. destruct (Nat.eqb_spec (fst m) 0%nat) as [E|E]; [|apply Vfr; exact Hm].
    simpl. specialize (Vfr m Hm). rewrite E, Epc in Vfr. simpl in Vfr. destruct Vfr as [A|[A B]]; [left; exact A|discriminate B].
  - intros a Ha. unfold upd in Ha. destruct (Nat.eqb_spec a 0%nat); [assumption|apply Vrd; exact Ha].
  - unfold upd. simpl. intros _ k Hk.
    assert (Hfb : Bool.eqb back (d_front s) = false) by (unfold back; destruct (d_front s); reflexivity).
    unfold bupd in Hk. rewrite Hfb in Hk. split.
    + apply (Cov (dcell back (Z.of_nat k))). exact Logic.I.
    + destruct (d_datas s back (Z.of_nat k)) as [m|] eqn:Ed; [|exact Logic.I].
      assert (Hin : In m (d_written s)).
      { destruct I as [Ic Ih _]. fold back in Ih.
        assert (Hb : In (Some m) (map Some (d_written s))).
        { rewrite Ih. apply in_or_app. right. rewrite <- Ed. apply batch_in. lia. }
        apply in_map_iff in Hb. destruct Hb as (m' & E1 & E2). inversion E1. subst. exact E2. }
      split; [exact Hin|]. apply (Cov (CPay m)). exact Hin.
Qed.

Lemma dv_acquire s t p' : DVInv s -> d_mx s = 0 ->
  dhold p' = true -> dhold (d_pc (d_thr s t)) = false -> dafter (d_pc (d_thr s t)) = false -> dafter p' = false ->
  (down p' = true -> down (d_pc (d_thr s t)) = true) ->
  dbatch_pc p' = false -> (depc p' = true -> depc (d_pc (d_thr s t)) = true) ->
  let x := d_thr s t in
  DVInv (dset (dmx_set s 1) t (dpc_set (dview_set x (vjoin (d_view x) (d_mst s))) p')).
Proof.
  intros V H0 Hp' Hnh Hna Hna' Ho Hb He x. pose proof V as V0.
  destruct V as [Vl Vm V01 Vh Vf Vx Vo Vfr Vrd Vk Vu].
  destruct (Vf H0) as [Fc Fn].
  assert (Hmono : forall c, (vget (d_view x) c <= vget (vjoin (d_view x) (d_mst s)) c <= dver s c)%nat).
  { intros c. rewrite vget_vjoin. pose proof (Vl t c). pose proof (Vm c). fold x in H. unfold dle in *. lia. }
  constructor; dunf; simpl; try assumption.
  - intros a. unfold upd. destruct (Nat.eqb_spec a t); [intros c; apply Hmono|apply Vl].
  - right; reflexivity.
  - intros a Ha c Hc. unfold upd in *. destruct (Nat.eqb_spec a t).
    + simpl. rewrite vget_vjoin. pose proof (Fc c Hc). pose proof (Vl t c). fold x in H1. unfold dle, dver in *. lia.
    + rewrite (Fn a) in Ha. discriminate.
  - intros E. discriminate E.
  - intros a b Ha Hq. unfold upd in *.
    destruct (Nat.eqb_spec a t), (Nat.eqb_spec b t); subst; try reflexivity.
    + rewrite (Fn b) in Hq. discriminate.
    + rewrite (Fn a) in Ha. discriminate.
    + rewrite (Fn a) in Ha. discriminate.
  - intros a Hq. unfold upd in *. destruct (Nat.eqb_spec a t); [|apply Vo; assumption].
    subst a. simpl in *. pose proof (Vo t (Ho Hq)) as E. fold x in E.
    pose proof (Hmono (CPay (t, d_seq x))) as B. simpl in B. lia.
  - intros m Hin. unfold upd. destruct (Nat.eqb_spec (fst m) t) as [E|E]; [|apply Vfr; exact Hin].
    simpl. left. destruct (Vfr m Hin) as [A|[A B]]; rewrite E in *; [exact A|]. rewrite Hna in B. discriminate.
  - intros a Ha. unfold upd in Ha. destruct (Nat.eqb_spec a t); [subst a; simpl in Ha; apply Vrd; apply He; exact Ha|apply Vrd; exact Ha].
  - unfold upd. destruct (Nat.eqb_spec 0%nat t) as [E|E]; [|exact Vk].
    simpl. intros Hq. rewrite Hb in Hq. discriminate.
Qed.

Lemma dv_release s t p' : DVInv s ->
  dhold (d_pc (d_thr s t)) = true -> dhold p' = false ->
  (down p' = true -> down (d_pc (d_thr s t)) = true) ->
  (dafter (d_pc (d_thr s t)) = true -> dafter p' = true) ->
  (dbatch_pc p' = true -> dbatch_pc (d_pc (d_thr s t)) = true) ->
  (depc p' = true -> depc (d_pc (d_thr s t)) = true) ->
  DVInv (dset (dw_mst (d_view (d_thr s t)) (dmx_set s 0)) t (dpc_set (d_thr s t) p')).
Proof.
  intros V Hh Hh' Ho Ha Hb He. pose proof V as V0.
  destruct V as [Vl Vm V01 Vh Vf Vx Vo Vfr Vrd Vk Vu].
  constructor; dunf; simpl; try assumption.
  - intros a. unfold upd. destruct (Nat.eqb_spec a t); apply Vl.
  - apply Vl.
  - left; reflexivity.
  - intros a Hq. unfold upd in *. destruct (Nat.eqb_spec a t); [simpl in Hq; congruence|apply Vh; exact Hq].
  - intros _. split; [apply Vh; exact Hh|].
    intros a. unfold upd. destruct (Nat.eqb_spec a t); [exact Hh'|].
    destruct (dhold (d_pc (d_thr s a))) eqn:E; [|reflexivity]. exfalso. apply n. apply Vx; assumption.
  - intros a b Hq Hr. unfold upd in *.
    destruct (Nat.eqb_spec a t), (Nat.eqb_spec b t); subst; try reflexivity; simpl in *; try congruence.
    apply Vx; assumption.
  - intros a Hq. unfold upd in *. destruct (Nat.eqb_spec a t); [subst a; simpl; apply Vo; apply Ho; exact Hq|apply Vo; exact Hq].
  - intros m Hin. unfold upd. destruct (Nat.eqb_spec (fst m) t) as [E|E]; [|apply Vfr; exact Hin].
    simpl. destruct (Vfr m Hin) as [A|[A B]]; rewrite E in *; [left; exact A|right; split; [exact A|apply Ha; exact B]].
  - intros a Hq. unfold upd in Hq. destruct (Nat.eqb_spec a t); [subst a; simpl in Hq; apply Vrd; apply He; exact Hq|apply Vrd; exact Hq].
  - unfold upd. destruct (Nat.eqb_spec 0%nat t) as [E|E]; [|exact Vk].
    subst t. simpl. intros Hq. apply Vk. apply Hb. exact Hq.
Qed.

Lemma batch_cov_true s v b n :
  (forall k : nat, (k < n)%nat ->
     vget v (dcell b (Z.of_nat k)) = d_sver s (dcode b (Z.of_nat k)) /\
     match d_datas s b (Z.of_nat k) with Some m => In m (d_written s) /\ vget v (CPay m) = d_pver s m | None => True end) ->
  batch_cov s v b n = true.
Proof.
  induction n as [|j IH]; intros H; simpl; [reflexivity|].
  rewrite IH by (intros k Hk; apply H; lia). destruct (H j ltac:(lia)) as [A B]. rewrite A, Nat.eqb_refl. simpl.
  destruct (d_datas s b (Z.of_nat j)); [|reflexivity]. destruct B as [_ B]. rewrite B. apply Nat.eqb_refl.
Qed.

Ltac d_setpc V Epc :=
  apply dv_setpc; rewrite ?Epc; try reflexivity; try exact V; simpl; intros; first [reflexivity | discriminate | assumption].

Lemma dframe_bad s ok : DVInv s -> DVInv (dbad s ok).
Proof. intros V. destruct V. unfold dbad. constructor; dunf; simpl in *; assumption. Qed.

Lemma dmicro_vinv s t s' ns : DInv s -> DVInv s -> dmicro s t = Some (s', ns) -> DVInv s'.
Proof.
  intros I V H. unfold dmicro in H.
  destruct (d_pc (d_thr s t)) eqn:Epc; try discriminate H.
  - (* D0 *)
    destruct (d_todo (d_thr s t)); inv_some H; [d_setpc V Epc|apply dv_payload; assumption].
  - inv_some H. d_setpc V Epc.
  - (* DChk *)
    destruct (Z.eqb (d_cnt s (negb (d_front s))) (d_cap s)).
    + pose proof (dframe_bad s (Z.eqb (d_pending s) (d_cap s)) V) as V1.
      destruct (d_nonblock s); inv_some H.
      * apply (dv_setpc _ t (DUnlock false) V1); simpl; rewrite ?Epc; try reflexivity; simpl; intros; first [reflexivity|discriminate].
      * apply (dv_setpc _ t DWait V1); simpl; rewrite ?Epc; try reflexivity; simpl; intros; first [reflexivity|discriminate].
    + inv_some H. apply dv_append; assumption.
  - inv_some H. d_setpc V Epc.
  - (* DRet *)
    assert (Hfr : forall m, In m (d_written s) -> fst m = t -> (snd m < S (d_seq (d_thr s t)))%nat).
    { intros m Hm E. destruct (dv_fresh _ V m Hm) as [A|[A B]]; rewrite E in *; lia. }
    destruct ok.
    + inv_some H. apply dv_thr; simpl; rewrite ?Epc; try reflexivity; try exact V.
      * apply (dv_le _ V t).
      * intros; discriminate.
      * intros; discriminate.
      * intros m Hm E. left. apply Hfr; assumption.
      * intros; discriminate.
      * intros _. unfold drk. simpl. intros Hq. discriminate Hq.
    + destruct (negb (Nat.eqb (d_maxtry s) 0) && Nat.leb (d_maxtry s) (S (d_tries (d_thr s t)))); inv_some H.
      * apply dv_thr; simpl; rewrite ?Epc; try reflexivity; try exact V.
        -- apply (dv_le _ V t).
        -- intros; discriminate.
        -- intros; discriminate.
        -- intros m Hm E. left. apply Hfr; assumption.
        -- intros; discriminate.
        -- intros _. unfold drk. simpl. intros Hq. discriminate Hq.
      * apply dv_thr; simpl; rewrite ?Epc; try reflexivity; try exact V.
        -- apply (dv_le _ V t).
        -- intros; discriminate.
        -- intros _. apply (dv_own _ V t). rewrite Epc. reflexivity.
        -- intros m Hm E. left. destruct (dv_fresh _ V m Hm) as [A|[A B]]; rewrite E in *; [exact A|].
           rewrite Epc in B. discriminate.
        -- intros; discriminate.
        -- intros _. unfold drk. simpl. intros Hq. discriminate Hq.
  - (* E0 *)
    destruct (Nat.ltb (d_got s) (d_todo (d_thr s t))); inv_some H; d_setpc V Epc.
  - (* EChk *)
    assert (t = 0%nat) by (apply (dv_rd _ V t); rewrite Epc; reflexivity). subst t.
    destruct (Z.eqb (d_cnt s (negb (d_front s))) 0).
    + inv_some H. pose proof (dframe_bad s (Z.eqb (d_pending s) 0) V) as V1.
      apply (dv_setpc _ 0%nat EWait V1); simpl; rewrite ?Epc; try reflexivity; simpl; intros; first [reflexivity|discriminate].
    + inv_some H. apply dv_swap; assumption.
  - inv_some H. d_setpc V Epc.
  - (* ERet *)
    assert (t = 0%nat) by (apply (dv_rd _ V t); rewrite Epc; reflexivity). subst t.
    pose proof (dv_rk _ V) as K. unfold drk in K. rewrite Epc in K. specialize (K eq_refl).
    assert (Hcov : batch_cov s (d_view (d_thr s 0%nat)) (d_front s) (Z.to_nat (d_cnt s (d_front s))) = true).
    { apply batch_cov_true. intros k Hk. apply K. lia. }
    rewrite Hcov in H. inv_some H.
    assert (V1 : DVInv (dw_got (d_got s + length (batch (d_datas s (d_front s)) (Z.to_nat (d_cnt s (d_front s)))))%nat
                   (dw_uncov (d_uncov s) s))).
    { destruct V. constructor; dunf; simpl in *; assumption. }
    apply (dv_setpc _ 0%nat E0 V1); simpl; rewrite ?Epc; try reflexivity; simpl; intros; first [reflexivity|discriminate].
Qed.

Lemma d_first_spec s n u : d_first s n = Some u -> d_pc (d_thr s u) = DBlocked.
Proof.
  induction n as [|m IH]; simpl; [discriminate|].
  destruct (d_first s m) as [v|] eqn:E.
  - intros H; inversion H; subst. now apply IH.
  - destruct (d_pc (d_thr s m)) eqn:Ep; try discriminate. intros H; inversion H; subst. exact Ep.
Qed.
Lemma d_pick_spec s ch u : d_pick s ch = Some u -> d_pc (d_thr s u) = DBlocked.
Proof.
  unfold d_pick. destruct (d_pc (d_thr s ch)) eqn:E; try apply d_first_spec.
  destruct (Nat.leb ch (d_nw s)); [|apply d_first_spec]. intros H; inversion H; subst. exact E.
Qed.

Lemma dop_vinv s t ch s' l : DVInv s -> dop s t ch = Some (s', l) -> DVInv s'.
Proof.
  intros V H. unfold dop in H.
  destruct (d_pc (d_thr s t)) eqn:Epc; try discriminate H.
  - (* DLock *)
    destruct (Z.eqb_spec (d_mx s) 0) as [E|E]; [|discriminate H]. inv_some H.
    apply dv_acquire; rewrite ?Epc; try reflexivity; try assumption; simpl; intros; first [reflexivity|discriminate].
  - (* DWait *)
    inv_some H. apply dv_release; rewrite ?Epc; try reflexivity; try exact V; simpl; intros; first [reflexivity|discriminate].
  - (* DBlocked *)
    destruct (Nat.eqb ch 1); [|discriminate H]. inv_some H. d_setpc V Epc.
  - (* DWoken *)
    destruct (Z.eqb_spec (d_mx s) 0) as [E|E]; [|discriminate H]. inv_some H.
    apply dv_acquire; rewrite ?Epc; try reflexivity; try assumption; simpl; intros; first [reflexivity|discriminate].
  - (* DSig *)
    destruct (d_pc (d_thr s 0%nat)) eqn:E0; inv_some H; try (d_setpc V Epc).
    assert (Hne : t <> 0%nat) by (intros E; subst t; rewrite Epc in E0; discriminate E0).
    assert (V1 : DVInv (dset s 0%nat (dpc_set (d_thr s 0%nat) EWoken))) by (d_setpc V E0).
    assert (E1 : d_thr (dset s 0%nat (dpc_set (d_thr s 0%nat) EWoken)) t = d_thr s t).
    { simpl. apply upd_other. exact Hne. }
    rewrite upd_other by exact Hne. rewrite <- E1.
    apply dv_setpc; rewrite ?E1, ?Epc; try reflexivity; try exact V1; simpl; intros; first [reflexivity|discriminate].
  - (* DUnlock *)
    inv_some H. apply dv_release; rewrite ?Epc; try reflexivity; try exact V; simpl; intros;
      first [reflexivity|discriminate|assumption].
  - inv_some H. d_setpc V Epc.
  - inv_some H. d_setpc V Epc.
  - (* ELock *)
    destruct (Z.eqb_spec (d_mx s) 0) as [E|E]; [|discriminate H]. inv_some H.
    apply dv_acquire; rewrite ?Epc; try reflexivity; try assumption; simpl; intros; first [reflexivity|discriminate].
  - (* EWait *)
    inv_some H. apply dv_release; rewrite ?Epc; try reflexivity; try exact V; simpl; intros; first [reflexivity|discriminate].
  - destruct (Nat.eqb ch 1); [|discriminate H]. inv_some H. d_setpc V Epc.
  - (* EWoken *)
    destruct (Z.eqb_spec (d_mx s) 0) as [E|E]; [|discriminate H]. inv_some H.
    apply dv_acquire; rewrite ?Epc; try reflexivity; try assumption; simpl; intros; first [reflexivity|discriminate].
  - (* ESig *)
    destruct (d_pick s ch) as [u|] eqn:Ef.
    + pose proof (d_pick_spec _ _ _ Ef) as Hu. inv_some H.
      assert (Hne : t <> u) by (intros E; subst u; rewrite Epc in Hu; discriminate Hu).
      assert (V1 : DVInv (dset s u (dpc_set (d_thr s u) DWoken))) by (d_setpc V Hu).
      assert (E1 : d_thr (dset s u (dpc_set (d_thr s u) DWoken)) t = d_thr s t).
      { simpl. apply upd_other. exact Hne. }
      rewrite upd_other by exact Hne. rewrite <- E1.
      apply dv_setpc; rewrite ?E1, ?Epc; try reflexivity; try exact V1; simpl; intros; first [reflexivity|discriminate].
    + inv_some H. d_setpc V Epc.
  - (* EUnlock *)
    inv_some H. apply dv_release; rewrite ?Epc; try reflexivity; try exact V; simpl; intros; first [reflexivity|discriminate].
  - inv_some H. d_setpc V Epc.
Qed.

(* ---------------- executions ---------------- *)
Definition DC (s : dsys) : Prop := DInv s /\ DVInv s.

Lemma drun_dc fuel : forall s t acc s' ns, DC s -> drun fuel s t acc = (s', ns) -> DC s'.
Proof.
  induction fuel as [|f IH]; intros s t acc s' ns [I V] H; simpl in H; [inv_some H; split; assumption|].
  destruct (d_is_plain (d_pc (d_thr s t))); [|inv_some H; split; assumption].
  destruct (dmicro s t) as [[s1 ns1]|] eqn:E; [|inv_some H; split; assumption].
  eapply IH; [|exact H]. split; [eapply dmicro_inv; eauto|eapply dmicro_vinv; eauto].
Qed.

Lemma dstep_dc s t ch s' l : DC s -> dstep s t ch = Some (s', l) -> DC s'.
Proof.
  intros [I V] H. unfold dstep in H. destruct (d_is_plain (d_pc (d_thr s t))).
  - destruct (dmicro s t) as [[s1 ns1]|] eqn:E; [|discriminate H].
    destruct (drun 8 s1 t ns1) as [s2 ns2] eqn:E2. inv_some H.
    eapply drun_dc; [|exact E2]. split; [eapply dmicro_inv; eauto|eapply dmicro_vinv; eauto].
  - split; [eapply dop_inv; eauto|eapply dop_vinv; eauto].
Qed.

(* every plain read of the reader (batch entries and the payloads they point to, outside the
   mutex) is covered by its view; every entry of the batch the reader holds was written, and the
   payload its producer stored before the write is visible to the reader *)
Theorem dbuf_payload_visible_all cap nb mt nw total ks sched k m :
  let s := dreach cap nb mt nw total ks sched in
  d_uncov s = 0%nat /\
  (dbatch_pc (d_pc (d_thr s 0%nat)) = true -> Z.of_nat k < d_cnt s (d_front s) ->
   d_datas s (d_front s) (Z.of_nat k) = Some m ->
   In m (d_written s) /\ vget (d_view (d_thr s 0%nat)) (CPay m) = d_pver s m).
Proof.
  intros s.
  assert (C : DC s).
  { unfold s, dreach. apply inv_exec; [|split; [apply dinit_inv|apply dinit_vinv]].
    intros; eapply dstep_dc; eauto. }
  destruct C as [_ V]. split; [exact (dv_uncov _ V)|].
  intros Hq Hk Hd. destruct (dv_rk _ V Hq k Hk) as [_ K]. rewrite Hd in K. exact K.
Qed.

(* a write is refused (non-blocking) or put to sleep (blocking) only when the back buffer really
   holds capacity items, and the reader sleeps only when it is really empty: the ghost check
   (accepted minus handed-over, computed from the histories) never fails *)
Theorem dbuf_full_only_if_full_all cap nb mt nw total ks sched :
  let s := dreach cap nb mt nw total ks sched in
  d_badwait s = 0%nat /\ d_cnt s (negb (d_front s)) = d_pending s.
Proof.
  intros s. assert (I : DInv s).
  { unfold s, dreach. apply inv_exec; [|apply dinit_inv]. intros; eapply dstep_inv; eauto. }
  split; [exact (di_bad _ I)|symmetry; apply dinv_pending; exact I].
Qed.

Example dbuf_visible_nonvacuous :
  (* capacity 2, non-blocking, one writer with three items: two accepted, one FULL (ghost check
     exercised), the reader swaps and holds the batch *)
  let s := dreach 2 true 0 1 2 (fun _ => 3%nat) (repeat (1, 0) 19 ++ repeat (0, 0) 6)%nat in
  d_written s = [(1, 0); (1, 1)]%nat /\ d_pc (d_thr s 0%nat) = ERet /\ d_cnt s (d_front s) = 2 /\
  d_datas s (d_front s) 1 = Some (1, 1)%nat /\ vget (d_view (d_thr s 0%nat)) (CPay (1, 1)%nat) = 1%nat /\
  d_tries (d_thr s 1%nat) = 1%nat /\ d_badwait s = 0%nat /\ d_uncov s = 0%nat.
Proof. vm_compute. repeat split; reflexivity. Qed.
