(* C01 — second tie (DESIGN.md 4.4): the bodies of muggle_channel_write_sync / _busy / _mutex,
   muggle_channel_read_sync / _busy / _mutex (one loop iteration), the wake functions and the
   public wrappers muggle_channel_write / muggle_channel_read, sliced out of the C text of this run
   and translated to Gallina (gen_chan_* of gen/Params_C01.v), equal the reference functions of
   Slice.v instantiated with the memory orders of code_params, on the whole domain: capacity any
   power of two up to 2^31, cursors inside the ring, any slot contents, any 64-bit message value.
   The proofs do not look at the SHAPE of the generated terms: everything is unfolded to integer
   arithmetic, the 32 / 64-bit wraps are discharged from the domain, `x & (capacity - 1)` and
   `x % capacity` are turned into the piecewise-linear ring successor, every `if` is split and the
   branches are decided by time-limited lia -- a behaviour-preserving rewrite of the C text keeps
   the obligations, a changed value, condition, memory order or synchronisation step on ANY path
   breaks them (also on paths no scenario reaches). *)
From Coq Require Import ZArith List Lia Bool ZifyBool.
From MV Require Import Lib.Leaf C01.Model C01.Slice gen.Params_C01.
Import ListNotations.
Local Open Scope Z_scope.

Lemma land_cap x cap k : 0 <= k -> cap = 2 ^ k -> 0 <= x -> Z.land x (cap - 1) = x mod cap.
Proof.
  intros Hk E Hx. subst cap. replace (2 ^ k - 1) with (Z.ones k) by (rewrite Z.ones_equiv; lia).
  apply Z.land_ones. exact Hk.
Qed.
Lemma mod_lt2 x cap : 0 < cap -> 0 <= x < 2 * cap -> x mod cap = if x <? cap then x else x - cap.
Proof.
  intros Hc Hx. destruct (Z.ltb_spec x cap); [apply Z.mod_small; lia|].
  replace x with ((x - cap) + 1 * cap) at 1 by lia. rewrite Z.mod_add by lia. apply Z.mod_small. lia.
Qed.
Lemma rem_mod x y : 0 <= x -> 0 < y -> Z.rem x y = x mod y.
Proof. intros. apply Z.rem_mod_nonneg; lia. Qed.
Lemma pow2_pos k : 0 <= k -> 0 < 2 ^ k.
Proof. intros. apply Z.pow_pos_nonneg; lia. Qed.
Lemma pow2_le31 k : 0 <= k <= 31 -> 2 ^ k <= 2147483648.
Proof. intros. change 2147483648 with (2 ^ 31). apply Z.pow_le_mono_r; lia. Qed.

Ltac nocond c := lazymatch c with context [if _ then _ else _] => fail | _ => idtac end.
Ltac closed_term c := tryif (match c with context [?x] => is_var x end) then fail else idtac.
Ltac leaf_arith := first [ reflexivity | timeout 30 lia ].
Ltac split_eq :=
  repeat match goal with
  | |- ?x = ?x => reflexivity
  | |- (_, _) = (_, _) => apply f_equal2
  | |- lset _ _ _ = lset _ _ _ => apply (f_equal3 lset)
  | |- lget _ _ = lget _ _ => apply (f_equal2 lget)
  end.
Ltac leaf_branch := first [ solve [exfalso; timeout 20 lia] | solve [split_eq; leaf_arith] ].

(* [chan_decide k cap]: cap = 2 ^ k is in the context.  Normalise (wraps discharged from the domain,
   masks and remainders by the capacity turned into the piecewise-linear form), split the innermost
   conditional, normalise again (an index computed from a piecewise term), ... *)
Ltac chan_norm k cap :=
  repeat first
  [ match goal with |- context [?a mod ?m] =>
      lazymatch m with cap => fail | _ => rewrite (Z.mod_small a m) by (timeout 20 lia) end end
  | match goal with |- context [Z.land ?a (cap - 1)] =>
      rewrite (land_cap a cap k) by (first [assumption | timeout 20 lia]) end
  | match goal with |- context [Z.rem ?a ?b] => rewrite (rem_mod a b) by (timeout 20 lia) end
  | match goal with |- context [?a mod cap] => rewrite (mod_lt2 a cap) by (timeout 20 lia) end ].
Ltac chan_split :=
  match goal with
  | |- context [if ?c then _ else _] =>
    nocond c;
    first [ closed_term c;
            let v := eval vm_compute in c in
            lazymatch v with
            | true => change c with true; cbv iota
            | false => change c with false; cbv iota
            end
          | destruct c eqn:? ]
  end.
Ltac chan_decide k cap :=
  cbv zeta;
  unfold push, evc, rnext1, ring_next, CQ_mx, CQ_cvne, CQ_cvnf, ERR_FULL, OP_load, OP_store, OP_wake, OP_wait, OP_mlock, OP_munlock, OP_cvwait, OP_cvsig,
         OP_call, CE_rcur, CE_wcur, CE_rmx, CE_rcv, FN_lock, FN_write, FN_unlock, FN_wake, FN_read in *;
  cbn [mo_code code_params mo_ws_load mo_ws_store mo_wb_load mo_wb_store1 mo_wb_store2 mo_rs_load mo_rs_store
       mo_rb_load mo_rb_store];
  unfold wrapu, Leaf.crem, cdiv, b2z, z2b in *;
  change (2 ^ 32) with 4294967296 in *; change (2 ^ 64) with 18446744073709551616 in *;
  chan_norm k cap;
  repeat (chan_split; chan_norm k cap);
  leaf_branch.

Ltac dom_intro :=
  let k := fresh "k" in let Hk := fresh "Hk" in let Ek := fresh "Ek" in
  intros ((k & Hk & Ek) & Hw & Hr);
  pose proof (pow2_pos k ltac:(lia)); pose proof (pow2_le31 k Hk).

Lemma gen_write_sync_ref cap ev rcur slot wcur data : cdom cap wcur rcur -> evdom ev ->
  gen_chan_write_sync cap ev rcur slot wcur data = ref_write_sync code_params cap ev rcur slot wcur data.
Proof.
  intros ((k & Hk & Ek) & Hw & Hr) He. unfold evdom in He.
  pose proof (pow2_pos k ltac:(lia)). pose proof (pow2_le31 k Hk). rewrite <- Ek in *.
  unfold gen_chan_write_sync, ref_write_sync. chan_decide k cap.
Qed.

Ltac dom_start :=
  let k := fresh "k" in let Hk := fresh "Hk" in let Ek := fresh "Ek" in
  intros ((k & Hk & Ek) & Hw & Hr) He; unfold evdom in He;
  pose proof (pow2_pos k ltac:(lia)); pose proof (pow2_le31 k Hk); rewrite <- Ek in *.

Lemma gen_write_busy_ref cached cap ev rcur slot wcur data : cdom cap wcur rcur -> evdom ev -> 0 <= cached < cap ->
  gen_chan_write_busy cached cap ev rcur slot wcur data = ref_write_busy code_params cached cap ev rcur slot wcur data.
Proof.
  intros ((k & Hk & Ek) & Hw & Hr) He Hc. unfold evdom in He.
  pose proof (pow2_pos k ltac:(lia)). pose proof (pow2_le31 k Hk). rewrite <- Ek in *.
  unfold gen_chan_write_busy, ref_write_busy. chan_decide k cap.
Qed.

Lemma gen_write_mutex_ref cap ev rcur slot wcur data : cdom cap wcur rcur -> evdom ev ->
  gen_chan_write_mutex cap ev rcur slot wcur data = ref_write_mutex cap ev rcur slot wcur data.
Proof.
  intros ((k & Hk & Ek) & Hw & Hr) He. unfold evdom in He.
  pose proof (pow2_pos k ltac:(lia)). pose proof (pow2_le31 k Hk). rewrite <- Ek in *.
  unfold gen_chan_write_mutex, ref_write_mutex. chan_decide k cap.
Qed.

Lemma gen_read_sync_ref again cap ev rcur slot waited waitv wcur : cdom cap wcur rcur -> evdom ev ->
  gen_chan_read_sync again cap ev rcur slot waited waitv wcur = ref_read_sync code_params again cap ev rcur slot waited waitv wcur.
Proof.
  intros ((k & Hk & Ek) & Hw & Hr) He. unfold evdom in He.
  pose proof (pow2_pos k ltac:(lia)). pose proof (pow2_le31 k Hk). rewrite <- Ek in *.
  unfold gen_chan_read_sync, ref_read_sync. chan_decide k cap.
Qed.

Lemma gen_read_busy_ref again cap ev rcur slot wcur : cdom cap wcur rcur -> evdom ev ->
  gen_chan_read_busy again cap ev rcur slot wcur = ref_read_busy code_params again cap ev rcur slot wcur.
Proof.
  intros ((k & Hk & Ek) & Hw & Hr) He. unfold evdom in He.
  pose proof (pow2_pos k ltac:(lia)). pose proof (pow2_le31 k Hk). rewrite <- Ek in *.
  unfold gen_chan_read_busy, ref_read_busy. chan_decide k cap.
Qed.

Lemma gen_read_mutex_ref again cap ev rcur slot waited wcur : cdom cap wcur rcur -> evdom ev ->
  gen_chan_read_mutex again cap ev rcur slot waited wcur = ref_read_mutex again cap ev rcur slot waited wcur.
Proof.
  intros ((k & Hk & Ek) & Hw & Hr) He. unfold evdom in He.
  pose proof (pow2_pos k ltac:(lia)). pose proof (pow2_le31 k Hk). rewrite <- Ek in *.
  unfold gen_chan_read_mutex, ref_read_mutex. chan_decide k cap.
Qed.

Lemma gen_wakes_ref ev : evdom ev ->
  gen_chan_wake_sync ev = ref_wake_sync ev /\ gen_chan_wake_mutex ev = ref_wake_mutex ev /\ gen_chan_wake_busy = tt.
Proof.
  intros He. unfold evdom in He. assert (Hc : (1:Z) = 2 ^ 0) by reflexivity.
  repeat split; unfold gen_chan_wake_sync, gen_chan_wake_mutex, ref_wake_sync, ref_wake_mutex; chan_decide 0 1.
Qed.

Lemma gen_wrappers_ref ev ret v data : evdom ev ->
  gen_chan_write ev ret data = ref_chan_write ev ret /\ gen_chan_read ev v = ref_chan_read ev v.
Proof.
  intros He. unfold evdom in He.
  split; unfold gen_chan_write, gen_chan_read, ref_chan_write, ref_chan_read; chan_decide 0 1.
Qed.

(* ---- array blocking queue ---- *)
Lemma gen_abq_put_ref again cap cnt datas ev put waited data : evdom ev ->
  1 <= cap < 2147483648 -> 0 <= put < cap -> 0 <= cnt <= cap ->
  gen_abq_put again cap cnt datas ev put waited data = ref_abq_put again cap cnt datas ev put waited data.
Proof.
  intros He Hc Hi Hn. unfold evdom in He. unfold gen_abq_put, ref_abq_put. chan_decide 0 cap.
Qed.

Lemma gen_abq_take_ref again cap cnt datas ev take waited : evdom ev ->
  1 <= cap < 2147483648 -> 0 <= take < cap -> 0 <= cnt <= cap ->
  gen_abq_take again cap cnt datas ev take waited = ref_abq_take again cap cnt datas ev take waited.
Proof.
  intros He Hc Hi Hn. unfold evdom in He. unfold gen_abq_take, ref_abq_take. chan_decide 0 cap.
Qed.
