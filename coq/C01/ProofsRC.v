(* C01 — read-before-overwrite (ModelRC.v): proofs.
   1. the product system projects onto the channel model (the observer changes nothing);
   2. sync / busy reader modes: with a release store of read_cursor (chan_rd_mo_ok) and
      acquire / release on the hand-written writer locks (lock_mo_ok) every slot store of a writer
      is ordered after every earlier read of that slot, for every schedule, any number of writers,
      any capacity;
   3. mutex reader mode: the same through read_mutex, unconditionally;
   4. with a relaxed store of read_cursor there is a schedule with an uncovered overwrite. *)
From Coq Require Import ZArith List Lia Bool.
From MV Require Import C01.Model C01.ModelRC C01.ProofsArith C01.ProofsSC C01.ProofsView C01.ProofsViewM.
Import ListNotations.
Local Open Scope Z_scope.

(* ------------------------------------------------------------------ *)
(* 1. projection *)
Section Proj.
  Variable P : params.
  Variable g : cfg.

  Lemma xrun_proj fuel : forall xs t ch acc,
    crun fuel g (x_s xs) t ch acc = (x_s (fst (xrun fuel g xs t ch acc)), snd (xrun fuel g xs t ch acc)).
  Proof.
    induction fuel as [|f IH]; intros xs t ch acc; cbn [xrun crun]; [reflexivity|].
    destruct (is_plain (t_pc (c_thr (x_s xs) t))); [|reflexivity].
    unfold xmicro. destruct (cmicro g (x_s xs) t ch) as [[s' ns]|]; [|reflexivity].
    rewrite <- IH. reflexivity.
  Qed.

  Lemma xstep_proj xs t ch :
    option_map (fun r => (x_s (fst r), snd r)) (xstep P g xs t ch) = cstep P g (x_s xs) t ch.
  Proof.
    unfold xstep, cstep. generalize 16%nat. intros F.
    destruct (is_plain (t_pc (c_thr (x_s xs) t))).
    - unfold xmicro. destruct (cmicro g (x_s xs) t ch) as [[s' ns]|]; [|reflexivity].
      pose proof (xrun_proj F {| x_s := s'; x_r := gmicro g (x_s xs) t s' (x_r xs) |} t ch ns) as E.
      cbn [x_s] in E. rewrite E.
      destruct (xrun F g {| x_s := s'; x_r := gmicro g (x_s xs) t s' (x_r xs) |} t ch ns) as [xa na].
      reflexivity.
    - unfold xop. destruct (cop P g (x_s xs) t ch) as [[s' l]|]; reflexivity.
  Qed.
End Proj.

Definition xreach (P : params) (g : cfg) (nread : nat) (ks : nat -> nat) (sched : list (nat * nat)) : xsys :=
  exec xsys (xstep P g) (xinit g nread ks) sched.

Lemma xexec_proj P g sched : forall xs,
  x_s (exec xsys (xstep P g) xs sched) = exec csys (cstep P g) (x_s xs) sched.
Proof.
  induction sched as [|[t c] r IH]; intros xs; [reflexivity|].
  unfold exec. cbn [fold_left]. unfold exec1. cbn [fst snd].
  pose proof (xstep_proj P g xs t c) as E.
  destruct (xstep P g xs t c) as [[xs1 l1]|]; destruct (cstep P g (x_s xs) t c) as [[s2 l2]|];
    cbn [option_map fst snd] in E; try discriminate E.
  - injection E as E1 E2. subst s2. apply IH.
  - apply IH.
Qed.

(* the channel state of the product is the state of the channel model *)
Theorem xreach_proj P g nread ks sched : x_s (xreach P g nread ks sched) = reach P g nread ks sched.
Proof. unfold xreach, reach. rewrite xexec_proj. reflexivity. Qed.

(* ------------------------------------------------------------------ *)
(* arithmetic: a slot is reused a whole lap later *)
Lemma reuse_bound cap W k : 0 < cap -> 0 <= k < W -> k mod cap = W mod cap -> k + cap <= W.
Proof.
  intros Hc Hk E.
  assert (D : (W - k) mod cap = 0) by (rewrite Zminus_mod, E, Z.sub_diag; apply Z.mod_0_l; lia).
  apply Z.mod_divide in D; [|lia]. destruct D as [q Hq].
  assert (0 < q) by nia. nia.
Qed.

Ltac inv_s H := inversion H; subst; clear H.

Lemma gmicro_id g s t s' r : c_sver s' = c_sver s -> c_del s' = c_del s -> gmicro g s t s' r = r.
Proof.
  intros A B. unfold gmicro, wrote, didread. rewrite A, B, !Nat.eqb_refl. reflexivity.
Qed.

(* ------------------------------------------------------------------ *)
(* 2. sync / busy reader modes *)
Section NonMutex.
  Variable P : params.
  Variable g : cfg.
  Hypothesis Hg : cfg_ok g.
  Hypothesis Hnm : g_rm g <> RMutex.
  Hypothesis Hrd : chan_rd_mo_ok P (g_rm g) = true.
  Hypothesis Hlk : lock_mo_ok P (g_wk g) = true.

  Record AInv (s : csys) (r : rghost) : Prop := {
    a_mode : forall t, mutex_pc (t_pc (c_thr s t)) = false;
    a_ep : r_ep r = length (c_del s);
    a_last : forall i k, r_last r i = S k -> Z.of_nat k mod g_cap g = i /\ (k < r_ep r)%nat;
    a_seen0 : (r_ep r <= r_seen r 0)%nat;
    a_rst : (c_R s <= r_rst r)%nat;
    a_chk : forall t, t_pc (c_thr s t) = WChk -> (t_gR (c_thr s t) <= r_seen r t)%nat;
    a_hold : g_rm g = RBusy -> forall t, hold (t_pc (c_thr s t)) = true -> (c_cR s <= r_seen r t)%nat;
    a_lst : g_rm g = RBusy -> g_wk g <> WSingle -> c_lock s = 0 -> (c_cR s <= r_lst r)%nat;
    a_single : g_rm g = RBusy -> g_wk g = WSingle -> forall t, (1 <= t <= g_nw g)%nat -> (c_cR s <= r_seen r t)%nat;
    a_unc : r_unc r = 0%nat;
  }.

  (* a step that leaves the ghost alone (up to the uncovered counter, which must stay 0) and does
     not touch what the invariant looks at; a thread may newly be inside the serialised region if
     its knowledge covers the cached cursor *)
  Lemma ainv_frame s r s' r' : AInv s r ->
    r_ep r' = r_ep r -> r_last r' = r_last r -> r_seen r' = r_seen r -> r_rst r' = r_rst r -> r_lst r' = r_lst r ->
    r_unc r' = 0%nat ->
    length (c_del s') = length (c_del s) -> c_R s' = c_R s -> c_cR s' = c_cR s ->
    (c_lock s' = 0 -> c_lock s = 0) ->
    (forall t, mutex_pc (t_pc (c_thr s' t)) = false) ->
    (forall t, t_pc (c_thr s' t) = WChk -> t_pc (c_thr s t) = WChk /\ t_gR (c_thr s' t) = t_gR (c_thr s t)) ->
    (forall t, hold (t_pc (c_thr s' t)) = true ->
               hold (t_pc (c_thr s t)) = true \/ (g_rm g = RBusy -> (c_cR s <= r_seen r t)%nat)) ->
    AInv s' r'.
  Proof.
    intros A E1 E2 E3 E4 E5 E6 Hd HR HcR Hl Hm Hc Hh. destruct A as [Am Ae Al A0 Ar Ac Ah Als Asg Au].
    constructor; rewrite ?E1, ?E2, ?E3, ?E4, ?E5; try assumption.
    - rewrite Hd. exact Ae.
    - rewrite HR. exact Ar.
    - intros t Et. destruct (Hc t Et) as [X1 X2]. rewrite X2. apply Ac. exact X1.
    - intros Hb t Ht. rewrite HcR. destruct (Hh t Ht) as [X|X]; [apply Ah; assumption|apply X; exact Hb].
    - intros Hb Hk H0. rewrite HcR. apply Als; auto.
    - intros Hb Hk t Ht. rewrite HcR. apply Asg; auto.
  Qed.

  (* the writer's knowledge [bound] of completed reads covers every earlier read of the slot at
     the write cursor as soon as at most usable messages lie between bound and the write cursor *)
  Lemma write_covered s r t (bound : nat) : SInv g s -> AInv s r ->
    (bound <= r_seen r t)%nat -> Wz s - Z.of_nat bound <= usable (g_cap g) ->
    (r_last r (c_wcur s) <= r_seen r t)%nat.
  Proof.
    intros I A Hb Hu. destruct (r_last r (c_wcur s)) as [|k] eqn:E; [lia|].
    destruct (a_last _ _ A _ _ E) as [Em Hk].
    destruct Hg as [Hc _].
    assert (Hep : Z.of_nat (r_ep r) <= Wz s).
    { rewrite (a_ep _ _ A), (i_dlen _ _ I). pose proof (i_RW _ _ I) as [R1 _]. unfold Rz, Wz in *.
      unfold pend. destruct (t_pc (c_thr s 0%nat)) eqn:Ep; try lia.
      pose proof (i_know _ _ I 0%nat) as K. unfold know in K. rewrite Ep in K. unfold Rz, Wz in K. lia. }
    assert (Hre : Z.of_nat k + g_cap g <= Wz s).
    { apply reuse_bound; [exact Hc|lia|]. rewrite Em. exact (i_wcur _ _ I). }
    unfold usable in Hu. lia.
  Qed.

  Ltac side A Epc :=
    let u := fresh "u" in let X := fresh "X" in
    intros u; simpl; unfold upd;
    repeat match goal with |- context [Nat.eqb u ?a] => destruct (Nat.eqb_spec u a); [subst u|] end;
    rewrite ?Epc; simpl; try reflexivity;
    try (intros X; try discriminate X; try (split; [exact X|reflexivity]); try exact X); auto;
    try apply (a_mode _ _ A).
  Ltac sideh A Epc :=
    let u := fresh "u" in let X := fresh "X" in
    intros u; simpl; unfold upd;
    repeat match goal with |- context [Nat.eqb u ?a] => destruct (Nat.eqb_spec u a); [subst u|] end;
    rewrite ?Epc; simpl; intros X; try discriminate X; left; try reflexivity; exact X.
  Ltac framed A Epc :=
    apply (ainv_frame _ _ _ _ A); [reflexivity|reflexivity|reflexivity|reflexivity|reflexivity|exact (a_unc _ _ A)
                                  |reflexivity|reflexivity|reflexivity|simpl; auto|side A Epc|side A Epc|sideh A Epc].
  Ltac boring A Epc := rewrite gmicro_id by reflexivity; framed A Epc.

  Lemma gmicro_write s t s' r :
    c_sver s' (c_wcur s) = S (c_sver s (c_wcur s)) -> c_del s' = c_del s ->
    gmicro g s t s' r = rg_write r t (c_wcur s).
  Proof.
    intros A B. unfold gmicro, wrote, didread. rewrite A, B, Nat.eqb_refl.
    replace (Nat.eqb (S (c_sver s (c_wcur s))) (c_sver s (c_wcur s))) with false; [reflexivity|].
    symmetry. apply Nat.eqb_neq. lia.
  Qed.

  Lemma zupd_same {A} (f : Z -> A) i x : zupd f i x i = x.
  Proof. unfold zupd. rewrite Z.eqb_refl. reflexivity. Qed.

  Lemma writer_tid s t : SInv g s -> hold (t_pc (c_thr s t)) = true -> (1 <= t <= g_nw g)%nat.
  Proof. intros I H. eapply hold_tid; eauto. Qed.

  (* the stepping thread is the only one inside the serialised region *)
  Lemma sole_holder s t u : SInv g s -> hold (t_pc (c_thr s t)) = true -> hold (t_pc (c_thr s u)) = true -> u = t.
  Proof. intros I A B. exact (i_excl _ _ I u t B A). Qed.

  (* the slot store at the write cursor by the lock holder t, after a step s -> s' that keeps the
     ghost's observables: the store is read-covered *)
  Lemma ainv_write s r s' t (bound : nat) : SInv g s -> AInv s r -> AInv s' r ->
    (bound <= r_seen r t)%nat -> Wz s - Z.of_nat bound <= usable (g_cap g) ->
    AInv s' (rg_write r t (c_wcur s)).
  Proof.
    intros I A A' Hb Hu. pose proof (write_covered s r t bound I A Hb Hu) as Hc.
    destruct A' as [Am Ae Al A0 Ar Ac Ah Als Asg Au].
    constructor; simpl; try assumption.
    apply Nat.leb_le in Hc. rewrite Hc. exact Au.
  Qed.

  Lemma cmicro_ainv s r t ch s' ns : SInv g s -> AInv s r -> cmicro g s t ch = Some (s', ns) ->
    AInv s' (gmicro g s t s' r).
  Proof.
    intros I A H.
    pose proof (a_mode _ _ A t) as Hm.
    unfold cmicro in H. destruct (t_pc (c_thr s t)) eqn:Epc; try discriminate H;
      simpl in Hm; try discriminate Hm.
    - (* W0 *) destruct (t_todo (c_thr s t)); inv_s H; boring A Epc.
    - (* WCall *)
      inv_s H. destruct (g_wk g) eqn:Ek; try boring A Epc.
      (* single writer: enters the region without a lock operation *)
      rewrite gmicro_id by reflexivity.
      apply (ainv_frame _ _ _ _ A); [reflexivity|reflexivity|reflexivity|reflexivity|reflexivity|exact (a_unc _ _ A)
                                    |reflexivity|reflexivity|reflexivity|simpl; auto|side A Epc|side A Epc|].
      intros u. simpl. unfold upd. destruct (Nat.eqb_spec u t); [subst u|intros X; left; exact X].
      intros _. right. intros Hb. apply (a_single _ _ A Hb Ek).
      pose proof (i_role _ _ I t) as R. unfold role_ok in R. rewrite Epc in R. simpl in R.
      destruct R as [R|R]; [discriminate R|exact R].
    - (* WSpinF *) inv_s H; boring A Epc.
    - (* WSyncF *) inv_s H; boring A Epc.
    - (* WRelock *) inv_s H; boring A Epc.
    - (* WBody *)
      assert (Hh : hold (t_pc (c_thr s t)) = true) by (rewrite Epc; reflexivity).
      destruct (g_rm g) eqn:Erm; [inv_s H; boring A Epc|congruence|].
      destruct (Z.eqb (wnext g s) (c_cached s)); inv_s H; [boring A Epc|].
      (* the cached cursor sufficed: slot store *)
      rewrite gmicro_write; [|simpl; apply zupd_same|reflexivity].
      destruct (i_cached _ _ I Erm) as (_ & _ & Hc).
      apply (ainv_write s r _ t (c_cR s) I A); [framed A Epc| |exact Hc].
      apply (a_hold _ _ A Erm). exact Hh.
    - (* WChk *)
      assert (Hh : hold (t_pc (c_thr s t)) = true) by (rewrite Epc; reflexivity).
      pose proof (i_know _ _ I t) as K. unfold know in K. rewrite Epc in K.
      destruct K as (K1 & K2 & K3 & K4 & K5).
      pose proof (a_chk _ _ A t Epc) as Hs.
      destruct (g_rm g) eqn:Erm; [|discriminate H|].
      + (* sync *)
        destruct (Z.eqb (wnext g s) (t_r (c_thr s t))); inv_s H; [boring A Epc|].
        rewrite gmicro_write; [|simpl; apply zupd_same|reflexivity].
        apply (ainv_write s r _ t (t_gR (c_thr s t)) I A); [framed A Epc|exact Hs|exact K4].
      + (* busy: the cached cursor is refreshed to the value loaded: c_cR := t_gR *)
        assert (Aref : forall s1, length (c_del s1) = length (c_del s) -> c_R s1 = c_R s -> c_cR s1 = t_gR (c_thr s t) ->
                  c_lock s1 = c_lock s ->
                  (forall u, u <> t -> c_thr s1 u = c_thr s u) -> hold (t_pc (c_thr s1 t)) = true ->
                  mutex_pc (t_pc (c_thr s1 t)) = false -> t_pc (c_thr s1 t) <> WChk -> AInv s1 r).
        { intros s1 Hd HR HcR Hl Ho Hh1 Hm1 Hn1. destruct A as [Am Ae Al A0 Ar Ac Ah Als Asg Au].
          constructor; try assumption.
          - intros u. destruct (Nat.eq_dec u t) as [->|Hne]; [exact Hm1|rewrite (Ho u Hne); apply Am].
          - rewrite Hd. exact Ae.
          - rewrite HR. exact Ar.
          - intros u Eu. destruct (Nat.eq_dec u t) as [->|Hne]; [contradiction|].
            rewrite (Ho u Hne) in *. apply Ac. exact Eu.
          - intros _ u Hu. rewrite HcR. destruct (Nat.eq_dec u t) as [->|Hne]; [exact Hs|].
            rewrite (Ho u Hne) in Hu. exfalso. apply Hne. exact (sole_holder s t u I Hh Hu).
          - intros _ Hk H0. exfalso. rewrite Hl in H0. pose proof (i_free _ _ I Hk H0 t) as F. congruence.
          - intros _ Hk u Hu. rewrite HcR. destruct Hg as [_ Hn]. specialize (Hn Hk).
            pose proof (writer_tid s t I Hh). assert (u = t) by lia. subst u. exact Hs. }
        destruct (Z.eqb (t_w (c_thr s t)) (t_r (c_thr s t))); inv_s H.
        * rewrite gmicro_id by reflexivity.
          apply Aref; try reflexivity; simpl.
          -- intros u Hne. unfold upd. destruct (Nat.eqb_spec u t); [contradiction|reflexivity].
          -- rewrite upd_same. reflexivity.
          -- rewrite upd_same. reflexivity.
          -- rewrite upd_same. discriminate.
        * set (s0 := w_cached (t_r (c_thr s t)) (w_cR (t_gR (c_thr s t)) s)).
          rewrite gmicro_write; [|simpl; apply zupd_same|reflexivity].
          assert (A1 : AInv (put_thr t (set_pc (c_thr (slot_write t (t, t_seq (c_thr s t)) s0) t) (WPub true))
                              (slot_write t (t, t_seq (c_thr s t)) s0)) r).
          { apply Aref; try reflexivity; simpl.
            - intros u Hne. unfold upd. destruct (Nat.eqb_spec u t); [contradiction|].
              destruct (Nat.eqb_spec u t); [contradiction|reflexivity].
            - rewrite upd_same. reflexivity.
            - rewrite upd_same. reflexivity.
            - rewrite upd_same. discriminate. }
          apply (ainv_write s r _ t (t_gR (c_thr s t)) I A); [exact A1|exact Hs|exact K4].
    - (* WUnlock *) inv_s H. destruct (g_wk g); boring A Epc.
    - (* WSyncRel *) inv_s H; boring A Epc.
    - (* WAfterUnlock *) inv_s H. destruct ok; [destruct (g_rm g) eqn:Erm|]; try boring A Epc. congruence.
    - (* WRet *) destruct ok.
      + inv_s H; boring A Epc.
      + destruct (negb (Nat.eqb (g_maxtry g) 0) && Nat.leb (g_maxtry g) (S (t_tries (c_thr s t)))); inv_s H; boring A Epc.
    - (* R0 *) destruct (t_todo (c_thr s t)); [inv_s H; boring A Epc|].
      destruct (g_rm g) eqn:Erm; inv_s H; try boring A Epc. congruence.
    - (* RChk *)
      destruct (Z.eqb (t_w (c_thr s t)) (t_r (c_thr s t))).
      { destruct (g_rm g) eqn:Erm; inv_s H; try boring A Epc. }
      (* the slot read: a new epoch *)
      assert (Ht : t = 0%nat).
      { pose proof (i_role _ _ I t) as R. unfold role_ok in R. rewrite Epc in R. exact R. }
      subst t.
      pose proof (i_know _ _ I 0%nat) as K. unfold know in K. rewrite Epc in K. destruct K as [K1 _].
      pose proof (i_dlen _ _ I) as Hd. unfold pend in Hd. rewrite Epc in Hd.
      destruct (slot_read s (t_view (c_thr s 0%nat)) (t_r (c_thr s 0%nat)) ch) as [d cov]. inv_s H.
      assert (Eg : gmicro g s 0%nat
                     (put_thr 0%nat (set_pc (set_d (c_thr s 0%nat) d) RStoreR)
                        (w_del (c_del s ++ [d]) (w_live (zupd (c_live s) (t_r (c_thr s 0%nat)) false)
                           (w_uncov (if cov then c_uncov s else S (c_uncov s)) s)))) r
                   = rg_read r 0%nat (t_r (c_thr s 0%nat))).
      { unfold gmicro, wrote, didread. simpl. rewrite Nat.eqb_refl. simpl.
        rewrite app_length. simpl.
        replace (Nat.eqb (length (c_del s) + 1) (length (c_del s))) with false by (symmetry; apply Nat.eqb_neq; lia).
        simpl. destruct (g_rm g); try reflexivity. congruence. }
      rewrite Eg. clear Eg.
      destruct A as [Am Ae Al A0 Ar Ac Ah Als Asg Au].
      constructor; simpl.
      + intros u. unfold upd. destruct (Nat.eqb_spec u 0); [reflexivity|apply Am].
      + rewrite app_length. simpl. lia.
      + intros i k. unfold zupd. destruct (Z.eqb_spec i (t_r (c_thr s 0%nat))) as [->|Hne].
        * intros E. injection E as E. subst k. split; [|lia].
          rewrite K1, Ae, Hd. unfold Rz. f_equal. lia.
        * intros E. destruct (Al i k E) as [X Y]. split; [exact X|lia].
      + rewrite upd_same. lia.
      + exact Ar.
      + intros u. unfold upd. destruct (Nat.eqb_spec u 0); [simpl; discriminate|]. apply Ac.
      + intros Hb u. unfold upd. destruct (Nat.eqb_spec u 0); [simpl; discriminate|]. apply Ah. exact Hb.
      + exact Als.
      + intros Hb Hk u Hu. unfold upd. destruct (Nat.eqb_spec u 0); [lia|]. apply Asg; assumption.
      + exact Au.
    - (* RLoop *) inv_s H; boring A Epc.
    - (* RRet *) inv_s H; boring A Epc.
  Qed.
  Ltac gop_id Epc := unfold gop; rewrite Epc; try reflexivity.
  Ltac oboring A Epc := unfold gop; rewrite Epc; cbv iota beta zeta; framed A Epc.

  (* the stepping thread's knowledge grows to n and / or the lock stamp becomes l *)
  Lemma ainv_acquire s r s' r' t n l : SInv g s -> AInv s r -> (r_seen r t <= n)%nat ->
    (forall u, r_seen r' u = upd (r_seen r) t n u) -> r_lst r' = l ->
    r_ep r' = r_ep r -> r_last r' = r_last r -> r_rst r' = r_rst r -> r_unc r' = r_unc r ->
    length (c_del s') = length (c_del s) -> c_R s' = c_R s -> c_cR s' = c_cR s ->
    (forall u, u <> t -> c_thr s' u = c_thr s u) ->
    mutex_pc (t_pc (c_thr s' t)) = false ->
    (t_pc (c_thr s' t) = WChk -> (t_gR (c_thr s' t) <= n)%nat) ->
    (g_rm g = RBusy -> hold (t_pc (c_thr s' t)) = true -> (c_cR s <= n)%nat) ->
    (g_rm g = RBusy -> g_wk g <> WSingle -> c_lock s' = 0 -> (c_cR s <= l)%nat) ->
    AInv s' r'.
  Proof.
    intros I A Hn Es El E1 E2 E3 E4 Hd HR HcR Ho Hm Hc Hh Hl. destruct A as [Am Ae Al A0 Ar Ac Ah Als Asg Au].
    constructor; rewrite ?E1, ?E2, ?E3, ?E4, ?El; try assumption.
    - intros u. destruct (Nat.eq_dec u t) as [->|Hne]; [exact Hm|rewrite (Ho u Hne); apply Am].
    - rewrite Hd. exact Ae.
    - rewrite Es. unfold upd. destruct (Nat.eqb_spec 0 t); [subst t; lia|exact A0].
    - rewrite HR. exact Ar.
    - intros u Eu. rewrite Es. unfold upd. destruct (Nat.eqb_spec u t) as [->|Hne]; [apply Hc; exact Eu|].
      rewrite (Ho u Hne) in *. apply Ac. exact Eu.
    - intros Hb u Hu. rewrite HcR, Es. unfold upd. destruct (Nat.eqb_spec u t) as [->|Hne]; [apply Hh; assumption|].
      rewrite (Ho u Hne) in Hu. apply Ah; assumption.
    - intros Hb Hk H0. rewrite HcR. apply Hl; assumption.
    - intros Hb Hk u Hu. rewrite HcR, Es. unfold upd. destruct (Nat.eqb_spec u t) as [->|Hne]; [|apply Asg; assumption].
      pose proof (Asg Hb Hk t Hu). lia.
  Qed.

  Lemma upd_self (f : nat -> nat) t u : f u = upd f t (f t) u.
  Proof. unfold upd. destruct (Nat.eqb_spec u t); [subst; reflexivity|reflexivity]. Qed.

  Lemma other_thr s t x u : u <> t -> c_thr (put_thr t x s) u = c_thr s u.
  Proof. intros H. simpl. unfold upd. destruct (Nat.eqb_spec u t); [contradiction|reflexivity]. Qed.

  Lemma cop_ainv s r t ch s' l : SInv g s -> AInv s r -> cop P g s t ch = Some (s', l) ->
    AInv s' (gop P g s t ch r).
  Proof.
    intros I A H.
    pose proof (a_mode _ _ A t) as Hm.
    unfold cop in H. destruct (t_pc (c_thr s t)) eqn:Epc; try discriminate H;
      simpl in Hm; try discriminate Hm.
    - (* WLockOp *)
      assert (Hacq : forall mo s1, is_acq mo = true ->
                length (c_del s1) = length (c_del s) -> c_R s1 = c_R s -> c_cR s1 = c_cR s -> c_lock s1 = 1 ->
                (forall u, u <> t -> c_thr s1 u = c_thr s u) -> mutex_pc (t_pc (c_thr s1 t)) = false ->
                t_pc (c_thr s1 t) <> WChk -> (hold (t_pc (c_thr s1 t)) = true -> c_lock s = 0) -> g_wk g <> WSingle ->
                AInv s1 (rg_lst (rg_seen r t (njoin mo (r_seen r t) (r_lst r))) (nrmw mo (r_seen r t) (r_lst r)))).
      { intros mo s1 Hmo Hd HR HcR Hl1 Ho Hm1 Hn1 Hh1 Hk.
        apply (ainv_acquire s r s1 _ t (njoin mo (r_seen r t) (r_lst r)) (nrmw mo (r_seen r t) (r_lst r)) I A);
          try reflexivity; try assumption.
        - unfold njoin. rewrite Hmo. lia.
        - intros X. contradiction.
        - intros Hb Hh2. unfold njoin. rewrite Hmo. pose proof (a_lst _ _ A Hb Hk (Hh1 Hh2)). lia.
        - intros _ _ H0. rewrite Hl1 in H0. discriminate H0. }
      destruct (g_wk g) eqn:Ek; try discriminate H.
      + (* mutex *)
        destruct (Z.eqb_spec (c_lock s) 0) as [E0|E0]; [|discriminate H]. inv_s H.
        unfold gop. rewrite Epc, Ek. cbv iota beta zeta. rewrite E0. simpl Z.eqb. cbv iota.
        apply (ainv_acquire s r _ _ t (Nat.max (r_seen r t) (r_lst r)) (r_lst r) I A); try reflexivity; simpl.
        * lia.
        * intros u Hne. unfold upd. destruct (Nat.eqb_spec u t); [contradiction|reflexivity].
        * rewrite upd_same. reflexivity.
        * rewrite upd_same. simpl. discriminate.
        * intros Hb _. assert (Hk : WMutex <> WSingle) by discriminate. rewrite <- Ek in Hk.
          pose proof (a_lst _ _ A Hb Hk E0). lia.
        * intros _ _ X. discriminate X.
      + (* sync *)
        assert (Hmo : is_acq (mo_sync_cas P) = true).
        { pose proof Hlk as Hlk2. unfold lock_mo_ok in Hlk2. rewrite ?Ek in Hlk2. apply andb_prop in Hlk2. tauto. }
        destruct (Z.eqb_spec (c_lock s) 0) as [E0|E0].
        * destruct (Nat.eqb ch 1) eqn:Ech; inv_s H.
          -- unfold gop. rewrite Epc, Ek. cbv iota beta zeta. rewrite E0, Ech. simpl. framed A Epc.
          -- unfold gop. rewrite Epc, Ek. cbv iota beta zeta. rewrite E0, Ech. simpl andb. cbv iota.
             apply Hacq; try reflexivity; simpl; try exact Hmo.
             ++ intros u Hne. unfold upd. destruct (Nat.eqb_spec u t); [contradiction|reflexivity].
             ++ rewrite upd_same. reflexivity.
             ++ rewrite upd_same. simpl. discriminate.
             ++ intros _. exact E0.
             ++ rewrite ?Ek; discriminate.
        * inv_s H. unfold gop. rewrite Epc, Ek. cbv iota beta zeta.
          replace (Z.eqb (c_lock s) 0) with false by (symmetry; apply Z.eqb_neq; exact E0). simpl. framed A Epc.
      + (* spin *)
        assert (Hmo : is_acq (mo_spin_tas P) = true).
        { pose proof Hlk as Hlk2. unfold lock_mo_ok in Hlk2. rewrite ?Ek in Hlk2. apply andb_prop in Hlk2. tauto. }
        inv_s H. unfold gop. rewrite Epc, Ek. cbv iota beta zeta.
        apply Hacq; try reflexivity; simpl; try exact Hmo.
        * intros u Hne. unfold upd. destruct (Nat.eqb_spec u t); [contradiction|reflexivity].
        * rewrite upd_same. simpl. destruct (Z.eqb (c_lock s) 0); reflexivity.
        * rewrite upd_same. simpl. destruct (Z.eqb (c_lock s) 0); discriminate.
        * rewrite upd_same. simpl. destruct (Z.eqb_spec (c_lock s) 0); [auto|simpl; discriminate].
        * rewrite ?Ek; discriminate.
    - (* WYield *) inv_s H. oboring A Epc.
    - (* WFwait *)
      destruct (Z.eqb (c_lock s) 1); [destruct (Nat.eqb ch 2); [|destruct (Nat.eqb ch 3)]|]; inv_s H; oboring A Epc.
    - (* WLoadR: the load of read_cursor is the acquiring side, whatever its memory order *)
      inv_s H. unfold gop. rewrite Epc. cbv iota beta zeta.
      apply (ainv_acquire s r _ _ t (Nat.max (r_seen r t) (r_rst r)) (r_lst r) I A); try reflexivity; simpl.
      + lia.
      + intros u Hne. unfold upd. destruct (Nat.eqb_spec u t); [contradiction|reflexivity].
      + rewrite upd_same. reflexivity.
      + rewrite upd_same. simpl. intros _. pose proof (a_rst _ _ A). lia.
      + intros Hb _. assert (Hh : hold (t_pc (c_thr s t)) = true) by (rewrite Epc; reflexivity).
        pose proof (a_hold _ _ A Hb t Hh). lia.
      + intros Hb Hk H0. apply (a_lst _ _ A Hb Hk H0).
    - (* WPub *) inv_s H. oboring A Epc.
    - (* WUnlockOp: the lock holder publishes its knowledge on the lock word *)
      assert (Hh : hold (t_pc (c_thr s t)) = true) by (rewrite Epc; reflexivity).
      assert (Hrel : forall s1 lv, (g_rm g = RBusy -> (c_cR s <= lv)%nat) ->
                length (c_del s1) = length (c_del s) -> c_R s1 = c_R s -> c_cR s1 = c_cR s ->
                (forall u, u <> t -> c_thr s1 u = c_thr s u) -> mutex_pc (t_pc (c_thr s1 t)) = false ->
                t_pc (c_thr s1 t) <> WChk -> hold (t_pc (c_thr s1 t)) = false ->
                AInv s1 (rg_lst r lv)).
      { intros s1 lv Hlv Hd HR HcR Ho Hm1 Hn1 Hh1.
        apply (ainv_acquire s r s1 _ t (r_seen r t) lv I A); try reflexivity; try assumption.
        - intros u. simpl. apply upd_self.
        - intros X. contradiction.
        - intros _ X. congruence.
        - intros Hb _ _. apply Hlv. exact Hb. }
      destruct (g_wk g) eqn:Ek; try discriminate H; inv_s H; unfold gop; rewrite Epc, Ek; cbv iota beta zeta.
      + apply Hrel; try reflexivity; simpl.
        * intros Hb. apply (a_hold _ _ A Hb t Hh).
        * intros u Hne. unfold upd. destruct (Nat.eqb_spec u t); [contradiction|reflexivity].
        * rewrite upd_same. reflexivity.
        * rewrite upd_same. simpl. discriminate.
        * rewrite upd_same. reflexivity.
      + assert (Hmo : is_rel (mo_sync_store P) = true).
        { pose proof Hlk as Hlk2. unfold lock_mo_ok in Hlk2. rewrite ?Ek in Hlk2. apply andb_prop in Hlk2. tauto. }
        apply Hrel; try reflexivity; simpl.
        * intros Hb. unfold nrel. rewrite Hmo. apply (a_hold _ _ A Hb t Hh).
        * intros u Hne. unfold upd. destruct (Nat.eqb_spec u t); [contradiction|reflexivity].
        * rewrite upd_same. reflexivity.
        * rewrite upd_same. simpl. discriminate.
        * rewrite upd_same. reflexivity.
      + assert (Hmo : is_rel (mo_spin_clear P) = true).
        { pose proof Hlk as Hlk2. unfold lock_mo_ok in Hlk2. rewrite ?Ek in Hlk2. apply andb_prop in Hlk2. tauto. }
        apply Hrel; try reflexivity; simpl.
        * intros Hb. unfold nrel. rewrite Hmo. apply (a_hold _ _ A Hb t Hh).
        * intros u Hne. unfold upd. destruct (Nat.eqb_spec u t); [contradiction|reflexivity].
        * rewrite upd_same. reflexivity.
        * rewrite upd_same. simpl. discriminate.
        * rewrite upd_same. reflexivity.
    - (* WSyncWake *)
      destruct (first_blocked (c_thr s) (S (g_nw g))) eqn:Ef; inv_s H; oboring A Epc.
    - (* WWake *)
      destruct (t_pc (c_thr s 0%nat)) eqn:E0; inv_s H; oboring A Epc.
    - (* WRetry *) inv_s H. oboring A Epc.
    - (* WFin *) inv_s H. oboring A Epc.
    - (* RLoadW *) inv_s H. oboring A Epc.
    - (* RStoreR: the release store of read_cursor publishes the reader's reads *)
      assert (Ht : t = 0%nat).
      { pose proof (i_role _ _ I t) as R. unfold role_ok in R. rewrite Epc in R. exact R. }
      subst t. inv_s H. unfold gop. rewrite Epc. cbv iota beta zeta.
      assert (Hmo : is_rel (match g_rm g with RSync => mo_rs_store P | _ => mo_rb_store P end) = true).
      { unfold chan_rd_mo_ok in Hrd. destruct (g_rm g); try exact Hrd. congruence. }
      pose proof (i_dlen _ _ I) as Hd. unfold pend in Hd. rewrite Epc in Hd.
      destruct A as [Am Ae Al A0 Ar Ac Ah Als Asg Au].
      constructor; simpl; try assumption.
      + intros u. unfold upd. destruct (Nat.eqb_spec u 0); [reflexivity|apply Am].
      + unfold nrel. rewrite Hmo. lia.
      + intros u. unfold upd. destruct (Nat.eqb_spec u 0); [simpl; discriminate|apply Ac].
      + intros Hb u. unfold upd. destruct (Nat.eqb_spec u 0); [simpl; discriminate|apply Ah; exact Hb].
    - (* RWait *)
      destruct (Z.eqb (c_wcur s) (t_w (c_thr s t))); [destruct (Nat.eqb ch 2); [|destruct (Nat.eqb ch 3)]|]; inv_s H; oboring A Epc.
    - (* RFin *) inv_s H. oboring A Epc.
  Qed.
  Definition XInv (xs : xsys) : Prop := SInv g (x_s xs) /\ AInv (x_s xs) (x_r xs).

  Lemma xinit_inv nread ks : XInv (xinit g nread ks).
  Proof.
    split; [apply cinit_inv; exact Hg|]. simpl.
    constructor; simpl; try lia; try reflexivity.
    - intros t. destruct (Nat.eqb t 0); [reflexivity|]. destruct (Nat.leb t (g_nw g)); reflexivity.
    - intros t. destruct (Nat.eqb t 0); [simpl; discriminate|]. destruct (Nat.leb t (g_nw g)); simpl; discriminate.
  Qed.

  Lemma xmicro_inv xs t ch xs' ns : XInv xs -> xmicro g xs t ch = Some (xs', ns) -> XInv xs'.
  Proof.
    intros [I A] H. unfold xmicro in H. destruct (cmicro g (x_s xs) t ch) as [[s' ns']|] eqn:E; [|discriminate H].
    inv_s H. split; simpl; [eapply cmicro_sinv; eauto|eapply cmicro_ainv; eauto].
  Qed.

  Lemma xop_inv xs t ch xs' l : XInv xs -> xop P g xs t ch = Some (xs', l) -> XInv xs'.
  Proof.
    intros [I A] H. unfold xop in H. destruct (cop P g (x_s xs) t ch) as [[s' l']|] eqn:E; [|discriminate H].
    inv_s H. split; simpl; [eapply cop_sinv; eauto|eapply cop_ainv; eauto].
  Qed.

  Lemma xrun_inv fuel : forall xs t ch acc xs' ns, XInv xs -> xrun fuel g xs t ch acc = (xs', ns) -> XInv xs'.
  Proof.
    induction fuel as [|f IH]; intros xs t ch acc xs' ns Hx H; cbn [xrun] in H.
    - inv_s H. exact Hx.
    - destruct (is_plain (t_pc (c_thr (x_s xs) t))); [|inv_s H; exact Hx].
      destruct (xmicro g xs t ch) as [[xs1 ns1]|] eqn:E; [|inv_s H; exact Hx].
      eapply IH; [|exact H]. eapply xmicro_inv; eauto.
  Qed.

  Lemma xstep_inv xs t ch xs' l : XInv xs -> xstep P g xs t ch = Some (xs', l) -> XInv xs'.
  Proof.
    intros Hx H. unfold xstep in H. revert H. generalize 16%nat. intros F H.
    destruct (is_plain (t_pc (c_thr (x_s xs) t))); [|eapply xop_inv; eauto].
    destruct (xmicro g xs t ch) as [[xs1 ns1]|] eqn:E; [|discriminate H].
    destruct (xrun F g xs1 t ch ns1) as [xs2 ns2] eqn:E2. inv_s H.
    eapply xrun_inv; [|exact E2]. eapply xmicro_inv; eauto.
  Qed.

  Theorem chan_read_covered_nonmutex nread ks sched : r_unc (x_r (xreach P g nread ks sched)) = 0%nat.
  Proof.
    assert (X : XInv (xreach P g nread ks sched)).
    { unfold xreach. apply inv_exec; [|apply xinit_inv]. intros xs t c xs' l Hx H. eapply xstep_inv; eauto. }
    exact (a_unc _ _ (proj2 X)).
  Qed.
End NonMutex.

(* ------------------------------------------------------------------ *)
(* 3. mutex reader mode: reads and slot stores both happen under read_mutex *)
Section MutexMode.
  Variable P : params.
  Variable g : cfg.
  Hypothesis Hg : cfg_ok g.
  Hypothesis Hrm : g_rm g = RMutex.

  Record BInv (s : csys) (r : rghost) : Prop := {
    b_ep : r_ep r = length (c_del s);
    b_last : forall i, (r_last r i <= r_ep r)%nat;
    b_free : c_rmx s = 0 -> (r_ep r <= r_rmst r)%nat;
    b_hold : forall t, rhold (t_pc (c_thr s t)) = true -> (r_ep r <= r_seen r t)%nat;
    b_unc : r_unc r = 0%nat;
  }.

  Lemma binv_frame s r s' r' : BInv s r ->
    r_ep r' = r_ep r -> r_last r' = r_last r -> r_rmst r' = r_rmst r -> r_unc r' = 0%nat ->
    (forall u, (r_seen r u <= r_seen r' u)%nat) ->
    length (c_del s') = length (c_del s) -> (c_rmx s' = 0 -> c_rmx s = 0) ->
    (forall t, rhold (t_pc (c_thr s' t)) = true -> rhold (t_pc (c_thr s t)) = true) ->
    BInv s' r'.
  Proof.
    intros B E1 E2 E3 E4 Hs Hd Hx Hh. destruct B as [Be Bl Bf Bh Bu].
    constructor; rewrite ?E1, ?E2, ?E3; try assumption.
    - rewrite Hd. exact Be.
    - intros H0. apply Bf. apply Hx. exact H0.
    - intros t Ht. pose proof (Bh t (Hh t Ht)). pose proof (Hs t). lia.
  Qed.

  Ltac sider Epc :=
    let u := fresh "u" in let X := fresh "X" in
    intros u; simpl; unfold upd;
    repeat match goal with |- context [Nat.eqb u ?a] => destruct (Nat.eqb_spec u a); [subst u|] end;
    rewrite ?Epc; simpl; intros X; try discriminate X; try reflexivity; exact X.
  Ltac bframed B Epc :=
    apply (binv_frame _ _ _ _ B); [reflexivity|reflexivity|reflexivity|exact (b_unc _ _ B)|intros ?; apply Nat.le_refl
                                  |reflexivity|simpl; auto|sider Epc].
  Ltac bboring B Epc := rewrite gmicro_id by reflexivity; bframed B Epc.

  Lemma gmicro_write_m s t s' r :
    c_sver s' (c_wcur s) = S (c_sver s (c_wcur s)) -> c_del s' = c_del s ->
    gmicro g s t s' r = rg_write r t (c_wcur s).
  Proof.
    intros A B. unfold gmicro, wrote, didread. rewrite A, B, Nat.eqb_refl.
    replace (Nat.eqb (S (c_sver s (c_wcur s))) (c_sver s (c_wcur s))) with false; [reflexivity|].
    symmetry. apply Nat.eqb_neq. lia.
  Qed.

  Lemma cmicro_binv s r t ch s' ns : SInv g s -> MInv s -> BInv s r -> cmicro g s t ch = Some (s', ns) ->
    BInv s' (gmicro g s t s' r).
  Proof.
    intros I M B H.
    pose proof (m_mode _ M t) as Hm.
    unfold cmicro in H. destruct (t_pc (c_thr s t)) eqn:Epc; try discriminate H;
      simpl in Hm; try discriminate Hm.
    - (* W0 *) destruct (t_todo (c_thr s t)); inv_s H; bboring B Epc.
    - (* WCall *) inv_s H. destruct (g_wk g); bboring B Epc.
    - inv_s H; bboring B Epc.
    - inv_s H; bboring B Epc.
    - inv_s H; bboring B Epc.
    - (* WBody *) rewrite Hrm in H. inv_s H; bboring B Epc.
    - (* WRmChk *)
      assert (Hh : rhold (t_pc (c_thr s t)) = true) by (rewrite Epc; reflexivity).
      destruct (Z.eqb (wnext g s) (c_rcur s)); inv_s H; [bboring B Epc|].
      rewrite gmicro_write_m; [|simpl; apply zupd_same|reflexivity].
      assert (B1 : BInv (put_thr t (set_pc (c_thr (slot_write t (t, t_seq (c_thr s t)) s) t) (WRmUnlock true))
                          (w_wcur (wnext g s) (w_acc (c_acc s ++ [(t, t_seq (c_thr s t))])
                             (w_live (zupd (c_live s) (c_wcur s) true) (slot_write t (t, t_seq (c_thr s t)) s))))) r)
        by bframed B Epc.
      destruct B1 as [Be Bl Bf Bh Bu]. constructor; simpl; try assumption.
      pose proof (b_last _ _ B (c_wcur s)). pose proof (b_hold _ _ B t Hh).
      replace (Nat.leb (r_last r (c_wcur s)) (r_seen r t)) with true by (symmetry; apply Nat.leb_le; lia).
      exact Bu.
    - (* WUnlock *) inv_s H. destruct (g_wk g); bboring B Epc.
    - inv_s H; bboring B Epc.
    - (* WAfterUnlock *) inv_s H. destruct ok; [rewrite Hrm|]; bboring B Epc.
    - (* WRet *) destruct ok.
      + inv_s H; bboring B Epc.
      + destruct (negb (Nat.eqb (g_maxtry g) 0) && Nat.leb (g_maxtry g) (S (t_tries (c_thr s t)))); inv_s H; bboring B Epc.
    - (* R0 *) destruct (t_todo (c_thr s t)); [inv_s H; bboring B Epc|]. rewrite Hrm in H. inv_s H; bboring B Epc.
    - (* RRet *) inv_s H; bboring B Epc.
    - (* RMChk *)
      assert (Hh : rhold (t_pc (c_thr s t)) = true) by (rewrite Epc; reflexivity).
      destruct (Z.eqb (rnext g s) (c_wcur s)); [inv_s H; bboring B Epc|].
      assert (Ht : t = 0%nat).
      { pose proof (i_role _ _ I t) as R. unfold role_ok in R. rewrite Epc in R. exact R. }
      subst t.
      destruct (slot_read s (t_view (c_thr s 0%nat)) (rnext g s) ch) as [d cov]. inv_s H.
      match goal with |- BInv ?s1 _ =>
        assert (Eg : gmicro g s 0%nat s1 r = rg_read r 0%nat (rnext g s)) end.
      { unfold gmicro, wrote, didread. simpl. rewrite Nat.eqb_refl. simpl.
        rewrite app_length. simpl.
        replace (Nat.eqb (length (c_del s) + 1) (length (c_del s))) with false by (symmetry; apply Nat.eqb_neq; lia).
        simpl. rewrite Hrm. reflexivity. }
      rewrite Eg. clear Eg.
      destruct B as [Be Bl Bf Bh Bu].
      constructor; simpl.
      + rewrite app_length. simpl. lia.
      + intros i. unfold zupd. destruct (Z.eqb i (rnext g s)); [lia|]. pose proof (Bl i). lia.
      + intros H0. exfalso. destruct (m_rfree _ M H0) as [_ F]. specialize (F 0%nat). congruence.
      + intros u. unfold upd. destruct (Nat.eqb_spec u 0); [intros _; lia|].
        intros Hu. exfalso. apply n. exact (m_rexcl _ M u 0%nat Hu Hh).
      + exact Bu.
  Qed.
  (* acquiring read_mutex: the new holder learns every read published on it *)
  Lemma binv_lock s r s' t : SInv g s -> MInv s -> BInv s r -> c_rmx s = 0 ->
    length (c_del s') = length (c_del s) -> (forall u, u <> t -> c_thr s' u = c_thr s u) ->
    BInv s' (rg_seen r t (Nat.max (r_seen r t) (r_rmst r))).
  Proof.
    intros I M B H0 Hd Ho. destruct B as [Be Bl Bf Bh Bu]. constructor; simpl; try assumption.
    - rewrite Hd. exact Be.
    - intros _. apply Bf. exact H0.
    - intros u. unfold upd. destruct (Nat.eqb_spec u t) as [->|Hne].
      + intros _. pose proof (Bf H0). lia.
      + rewrite (Ho u Hne). apply Bh.
  Qed.

  (* releasing it: the holder publishes what it knows *)
  Lemma binv_unlock s r s' t : BInv s r -> rhold (t_pc (c_thr s t)) = true ->
    length (c_del s') = length (c_del s) ->
    (forall u, rhold (t_pc (c_thr s' u)) = true -> rhold (t_pc (c_thr s u)) = true) ->
    BInv s' (rg_rmst r (r_seen r t)).
  Proof.
    intros B Hh Hd Ho. destruct B as [Be Bl Bf Bh Bu]. constructor; simpl; try assumption.
    - rewrite Hd. exact Be.
    - intros _. apply Bh. exact Hh.
    - intros u Hu. apply Bh. apply Ho. exact Hu.
  Qed.

  Ltac mono_seen := let u := fresh "u" in intros u; simpl; unfold upd;
    try (match goal with |- context [Nat.eqb u ?a] => destruct (Nat.eqb_spec u a); [subst|] end);
    unfold njoin; try destruct (is_acq _); lia.
  Ltac gframed B Epc :=
    apply (binv_frame _ _ _ _ B); [reflexivity|reflexivity|reflexivity|exact (b_unc _ _ B)|try (intros ?; apply Nat.le_refl); try mono_seen
                                  |reflexivity|simpl; auto|sider Epc].
  Ltac obboring B Epc := unfold gop; rewrite Epc; cbv iota beta zeta; gframed B Epc.

  Lemma cop_binv s r t ch s' l : SInv g s -> MInv s -> BInv s r -> cop P g s t ch = Some (s', l) ->
    BInv s' (gop P g s t ch r).
  Proof.
    intros I M B H.
    pose proof (m_mode _ M t) as Hm.
    unfold cop in H. destruct (t_pc (c_thr s t)) eqn:Epc; try discriminate H;
      simpl in Hm; try discriminate Hm.
    - (* WLockOp *)
      destruct (g_wk g) eqn:Ek; try discriminate H.
      + destruct (Z.eqb (c_lock s) 0) eqn:E0; [|discriminate H]. inv_s H.
        unfold gop. rewrite Epc, Ek. cbv iota beta zeta. rewrite E0. gframed B Epc.
      + destruct (Z.eqb (c_lock s) 0) eqn:E0; [destruct (Nat.eqb ch 1) eqn:Ech|]; inv_s H;
          unfold gop; rewrite Epc, Ek; cbv iota beta zeta; rewrite E0, ?Ech; simpl andb; cbv iota; gframed B Epc.
      + inv_s H. unfold gop. rewrite Epc, Ek. cbv iota beta zeta. destruct (Z.eqb (c_lock s) 0); gframed B Epc.
    - (* WYield *) inv_s H. obboring B Epc.
    - (* WFwait *)
      destruct (Z.eqb (c_lock s) 1); [destruct (Nat.eqb ch 2); [|destruct (Nat.eqb ch 3)]|]; inv_s H; obboring B Epc.
    - (* WRmLock *)
      destruct (Z.eqb_spec (c_rmx s) 0) as [E0|E0]; [|discriminate H]. inv_s H.
      unfold gop. rewrite Epc. cbv iota beta zeta. rewrite E0. simpl Z.eqb. cbv iota.
      apply (binv_lock s r _ t I M B E0); [reflexivity|].
      intros u Hne. simpl. unfold upd. destruct (Nat.eqb_spec u t); [contradiction|reflexivity].
    - (* WRmUnlock *)
      inv_s H. unfold gop. rewrite Epc. cbv iota beta zeta.
      apply (binv_unlock s r _ t B); [rewrite Epc; reflexivity|reflexivity|sider Epc].
    - (* WUnlockOp *)
      destruct (g_wk g) eqn:Ek; try discriminate H; inv_s H; unfold gop; rewrite Epc, Ek; cbv iota beta zeta; gframed B Epc.
    - (* WSyncWake *)
      destruct (first_blocked (c_thr s) (S (g_nw g))) eqn:Ef; inv_s H; obboring B Epc.
    - (* WCvSig *)
      destruct (t_pc (c_thr s 0%nat)) eqn:E0; inv_s H; obboring B Epc.
    - (* WRetry *) inv_s H. obboring B Epc.
    - (* WFin *) inv_s H. obboring B Epc.
    - (* RMLock *)
      destruct (Z.eqb_spec (c_rmx s) 0) as [E0|E0]; [|discriminate H]. inv_s H.
      unfold gop. rewrite Epc. cbv iota beta zeta. rewrite E0. simpl Z.eqb. cbv iota.
      apply (binv_lock s r _ t I M B E0); [reflexivity|].
      intros u Hne. simpl. unfold upd. destruct (Nat.eqb_spec u t); [contradiction|reflexivity].
    - (* RMUnlock *)
      inv_s H. unfold gop. rewrite Epc. cbv iota beta zeta.
      apply (binv_unlock s r _ t B); [rewrite Epc; reflexivity|reflexivity|sider Epc].
    - (* RCvWait *)
      inv_s H. unfold gop. rewrite Epc. cbv iota beta zeta.
      apply (binv_unlock s r _ t B); [rewrite Epc; reflexivity|reflexivity|sider Epc].
    - (* RCvBlocked *)
      destruct (Nat.eqb ch 1); [|discriminate H]. inv_s H. obboring B Epc.
    - (* RCvWoken *)
      destruct (Z.eqb_spec (c_rmx s) 0) as [E0|E0]; [|discriminate H]. inv_s H.
      unfold gop. rewrite Epc. cbv iota beta zeta. rewrite E0. simpl Z.eqb. cbv iota.
      apply (binv_lock s r _ t I M B E0); [reflexivity|].
      intros u Hne. simpl. unfold upd. destruct (Nat.eqb_spec u t); [contradiction|reflexivity].
    - (* RFin *) inv_s H. obboring B Epc.
  Qed.

  Definition XMInv (xs : xsys) : Prop := (SInv g (x_s xs) /\ MInv (x_s xs)) /\ BInv (x_s xs) (x_r xs).

  Lemma xinit_minv nread ks : XMInv (xinit g nread ks).
  Proof.
    split; [split; [apply cinit_inv; exact Hg|apply cinit_minv]|]. simpl.
    constructor; simpl; try lia; try reflexivity.
  Qed.

  Lemma xmicro_minv xs t ch xs' ns : XMInv xs -> xmicro g xs t ch = Some (xs', ns) -> XMInv xs'.
  Proof.
    intros [[I M] B] H. unfold xmicro in H. destruct (cmicro g (x_s xs) t ch) as [[s' ns']|] eqn:E; [|discriminate H].
    inv_s H. split; simpl; [split; [eapply cmicro_sinv; eauto|eapply cmicro_minv; eauto]|eapply cmicro_binv; eauto].
  Qed.

  Lemma xop_minv xs t ch xs' l : XMInv xs -> xop P g xs t ch = Some (xs', l) -> XMInv xs'.
  Proof.
    intros [[I M] B] H. unfold xop in H. destruct (cop P g (x_s xs) t ch) as [[s' l']|] eqn:E; [|discriminate H].
    inv_s H. split; simpl; [split; [eapply cop_sinv; eauto|eapply cop_minv; eauto]|eapply cop_binv; eauto].
  Qed.

  Lemma xrun_minv fuel : forall xs t ch acc xs' ns, XMInv xs -> xrun fuel g xs t ch acc = (xs', ns) -> XMInv xs'.
  Proof.
    induction fuel as [|f IH]; intros xs t ch acc xs' ns Hx H; cbn [xrun] in H.
    - inv_s H. exact Hx.
    - destruct (is_plain (t_pc (c_thr (x_s xs) t))); [|inv_s H; exact Hx].
      destruct (xmicro g xs t ch) as [[xs1 ns1]|] eqn:E; [|inv_s H; exact Hx].
      eapply IH; [|exact H]. eapply xmicro_minv; eauto.
  Qed.

  Lemma xstep_minv xs t ch xs' l : XMInv xs -> xstep P g xs t ch = Some (xs', l) -> XMInv xs'.
  Proof.
    intros Hx H. unfold xstep in H. revert H. generalize 16%nat. intros F H.
    destruct (is_plain (t_pc (c_thr (x_s xs) t))); [|eapply xop_minv; eauto].
    destruct (xmicro g xs t ch) as [[xs1 ns1]|] eqn:E; [|discriminate H].
    destruct (xrun F g xs1 t ch ns1) as [xs2 ns2] eqn:E2. inv_s H.
    eapply xrun_minv; [|exact E2]. eapply xmicro_minv; eauto.
  Qed.

  Theorem chan_read_covered_mutex nread ks sched : r_unc (x_r (xreach P g nread ks sched)) = 0%nat.
  Proof.
    assert (X : XMInv (xreach P g nread ks sched)).
    { unfold xreach. apply inv_exec; [|apply xinit_minv]. intros xs t c xs' l Hx H. eapply xstep_minv; eauto. }
    exact (b_unc _ _ (proj2 X)).
  Qed.
End MutexMode.

(* ------------------------------------------------------------------ *)
(* all reader modes *)
Theorem chan_read_covered_all P g nread ks sched : cfg_ok g ->
  chan_rd_mo_ok P (g_rm g) = true -> lock_mo_ok P (g_wk g) = true ->
  r_unc (x_r (xreach P g nread ks sched)) = 0%nat.
Proof.
  intros Hg Hrd Hlk. destruct (g_rm g) eqn:Erm.
  - apply chan_read_covered_nonmutex; try assumption; rewrite ?Erm; try assumption; discriminate.
  - apply chan_read_covered_mutex; assumption.
  - apply chan_read_covered_nonmutex; try assumption; rewrite ?Erm; try assumption; discriminate.
Qed.

(* ------------------------------------------------------------------ *)
(* 4. the release store of read_cursor is NECESSARY: with a relaxed store (futex reader, single
   writer, ring of 4 slots) the fifth message is stored into slot 0 while the read of the first
   message from that slot is not ordered before the store; with the code's orders the same
   schedule has no uncovered store.  The channel state itself is the same in both runs (on a
   sequentially consistent interleaving nothing wrong is visible: the point of the ghost) *)
Definition rlx_rd_params : params :=
  {| mo_ws_load := Rlx; mo_ws_store := Rel; mo_wb_load := Rlx; mo_wb_store1 := Rel; mo_wb_store2 := Rel;
     mo_rs_load := Acq; mo_rs_store := Rlx; mo_rb_load := Acq; mo_rb_store := Rlx;
     mo_spin_tas := Acq; mo_spin_clear := Rel; mo_sync_cas := Acq; mo_sync_store := Rel |}.
Example chan_read_release_necessary :
  let g := mk_cfg WSingle RSync 4 1 0 in
  let sched := concat (repeat [(1, 0); (0, 0)]%nat 150) in
  let bad := xreach rlx_rd_params g 6 (fun _ => 6%nat) sched in
  let good := xreach sc_params g 6 (fun _ => 6%nat) sched in
  chan_rd_mo_ok rlx_rd_params RSync = false /\ chan_rd_mo_ok sc_params RSync = true /\
  (0 < r_unc (x_r bad))%nat /\ r_unc (x_r good) = 0%nat /\
  c_del (x_s bad) = map Some (c_acc (x_s bad)) /\ length (c_acc (x_s bad)) = 6%nat /\
  c_del (x_s good) = c_del (x_s bad) /\ r_ep (x_r good) = 6%nat.
Proof. vm_compute. repeat split; try reflexivity; lia. Qed.
