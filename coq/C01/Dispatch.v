(* C01 — the model's view of muggle_channel_init: which writer-lock kind and reader mode a flags
   value selects (valid, invalid and out-of-range bit patterns), which functions end up in
   fn_lock / fn_unlock / fn_write / fn_wake / fn_read, which mutexes / condition variable are
   created, the normalised chan->flags, init_flags, and the capacity rounding with its refusals.
   coq/gen/Params_C01.v holds the same tables re-extracted from the code on every run (by running
   muggle_channel_init for every flags value, harness/drivers/c01_dispatch.c); Properties_C01.v
   proves them equal.  Definitions only. *)
From MV Require Export C01.Model.
Local Open Scope Z_scope.

Inductive fnid :=
  | FLock (k : wkind) | FUnlock (k : wkind)
  | FWrite (m : rmode) | FWake (m : rmode) | FRead (m : rmode)
  | FUnknown.

(* flags & MUGGLE_CHANNEL_FLAG_MASK_W: 0 mutex, 1 sync, 2 spin, 3 single; anything else falls back to mutex *)
Definition flag_wk (f : Z) : wkind :=
  match Z.land f 15 with 1 => WSync | 2 => WSpin | 3 => WSingle | _ => WMutex end.
(* flags & MUGGLE_CHANNEL_FLAG_MASK_R: 0 sync, 0x10 mutex, 0x20 busy; anything else falls back to mutex *)
Definition flag_rm (f : Z) : rmode :=
  match Z.land f 240 with 0 => RSync | 32 => RBusy | _ => RMutex end.
Definition w_keeps (f : Z) : bool := let w := Z.land f 15 in Z.eqb w 1 || Z.eqb w 2 || Z.eqb w 3.
Definition r_keeps (f : Z) : bool := let r := Z.land f 240 in Z.eqb r 0 || Z.eqb r 32.
(* chan->flags after init: untouched when both switches hit a non-mutex case; the mutex (and
   default) arms rewrite it from the masked parts *)
Definition norm_flags (f : Z) : Z :=
  if r_keeps f then (if w_keeps f then f else Z.land f 240)
  else Z.lor (if w_keeps f then Z.land f 15 else 0) 16.

Definition is_wmutex (k : wkind) : bool := match k with WMutex => true | _ => false end.
Definition is_rmutex (m : rmode) : bool := match m with RMutex => true | _ => false end.

Definition dispatch_row : Type :=
  (Z * Z * Z * Z * (bool * bool * bool) * (fnid * fnid * fnid * fnid * fnid) * Z)%type.
(* (flags, return value, chan->flags, init_flags, (write_mutex, read_mutex, read_cv created),
    (fn_lock, fn_unlock, fn_write, fn_wake, fn_read), capacity for a requested capacity of 4) *)
Definition model_dispatch (f : Z) : dispatch_row :=
  let wk := flag_wk f in
  let rm := flag_rm f in
  (f, 0, norm_flags f,
   (if is_wmutex wk then 1 else 0) + (if is_rmutex rm then 6 else 0),
   (is_wmutex wk, is_rmutex rm, is_rmutex rm),
   (FLock wk, FUnlock wk, FWrite rm, FWake rm, FRead rm),
   round_cap 4).
Definition flag_domain (n : nat) : list Z := map Z.of_nat (seq 0 n).

(* the configuration the model runs for a flags value *)
Definition mk_cfg_flags (f reqcap : Z) (nw maxtry : nat) : cfg := mk_cfg (flag_wk f) (flag_rm f) reqcap nw maxtry.

(* the link between the re-extracted table and the quantifier of the flags theorems
   (ProofsFlags.v): for the flags value of a row, the functions the CODE installed are those of the
   configuration mk_cfg_flags selects -- the lock sub-automaton g_wk, the writer / wake / reader
   program points g_rm, the rounded capacity -- the write mutex / read mutex / condition variable
   exist exactly when that configuration uses them, and a writer selector other than
   MUGGLE_CHANNEL_FLAG_WRITE_SINGLE never installs the no-op lock *)
Definition wkind_eqb (a b : wkind) : bool :=
  match a, b with WMutex, WMutex | WSync, WSync | WSpin, WSpin | WSingle, WSingle => true | _, _ => false end.
Definition rmode_eqb (a b : rmode) : bool :=
  match a, b with RSync, RSync | RMutex, RMutex | RBusy, RBusy => true | _, _ => false end.
Definition fnid_eqb (a b : fnid) : bool :=
  match a, b with
  | FLock k, FLock l | FUnlock k, FUnlock l => wkind_eqb k l
  | FWrite m, FWrite n | FWake m, FWake n | FRead m, FRead n => rmode_eqb m n
  | _, _ => false
  end.
Definition row_selects_cfg (row : dispatch_row) : bool :=
  match row with
  | (f, rc, _, _, (wm, rmx, rcv), (fl, fu, fw, fk, fr), cap) =>
    let g := mk_cfg_flags f 4 0 0 in
    Z.eqb rc 0 &&
    fnid_eqb fl (FLock (g_wk g)) && fnid_eqb fu (FUnlock (g_wk g)) &&
    fnid_eqb fw (FWrite (g_rm g)) && fnid_eqb fk (FWake (g_rm g)) && fnid_eqb fr (FRead (g_rm g)) &&
    Z.eqb cap (g_cap g) &&
    Bool.eqb wm (is_wmutex (g_wk g)) && Bool.eqb rmx (is_rmutex (g_rm g)) && Bool.eqb rcv (is_rmutex (g_rm g)) &&
    (Z.eqb (Z.land f 15) 3 || negb (fnid_eqb fl (FLock WSingle)) && negb (fnid_eqb fu (FUnlock WSingle)))
  end.
Definition row_flags (row : dispatch_row) : Z :=
  match row with (f, _, _, _, _, _, _) => f end.

(* capacity: refused when <= 0 or when the rounding does not fit muggle_sync_t (uint32_t) *)
Definition init_cap (req : Z) : option Z :=
  if Z.leb req 0 then None
  else let c := round_cap req mod 2 ^ 32 in if Z.leb c 0 then None else Some c.

(* one row of the re-extracted capacity table: (requested, return value, capacity, write_cursor,
   read_cursor, cached_r_cur) agrees with the model's initial state *)
Definition cap_row_ok (row : Z * Z * Z * Z * Z * Z) : bool :=
  match row with
  | (req, rc, cap, wc, rc0, cached) =>
    match init_cap req with
    | None => negb (Z.eqb rc 0)
    | Some c =>
      let s := cinit (mk_cfg WSingle RBusy req 1 0) 0 (fun _ => 0%nat) in
      Z.eqb rc 0 && Z.eqb cap c && Z.eqb cap (g_cap (mk_cfg WSingle RBusy req 1 0)) &&
      Z.eqb wc (c_wcur s) && Z.eqb rc0 (c_rcur s) && Z.eqb cached (c_cached s)
    end
  end.
Definition pow2_row_ok (row : Z * Z) : bool := Z.eqb (snd row) (round_cap (fst row) mod 2 ^ 32).

(* field widths the model relies on (ids as printed by harness/drivers/c01_dispatch.c):
   muggle_channel_t: capacity (0), write_cursor (1), read_cursor (2), cached_r_cur (3) and the write
   synclock word (4) are muggle_sync_t = unsigned 32-bit (the futex word; the model's cursors range
   over [0, capacity) with capacity <= 2^31, every arithmetic step is reduced mod capacity, so a
   narrower field would truncate a cursor the model keeps exact, and the cached read cursor is
   compared for EQUALITY with a write position);
   array blocking queue: capacity (10), take_idx (11), put_idx (12), cnt (13) are int;
   double buffer: capacity (20), single buffer cnt (21), non_blocking (22) are int;
   slot elements (30, 31, 32) hold a pointer *)
Definition model_field_widths : list (nat * Z * bool * bool) :=
  [(0%nat, 4, false, true); (1%nat, 4, false, true); (2%nat, 4, false, true); (3%nat, 4, false, true);
   (4%nat, 4, false, true);
   (10%nat, 4, true, true); (11%nat, 4, true, true); (12%nat, 4, true, true); (13%nat, 4, true, true);
   (20%nat, 4, true, true); (21%nat, 4, true, true); (22%nat, 4, true, true);
   (30%nat, 8, false, false); (31%nat, 8, false, false); (32%nat, 8, false, false)].
