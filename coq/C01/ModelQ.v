(* C01 — executable models of muggle/c/sync/array_blocking_queue.c and double_buffer.c at the
   granularity of harness/vsched (every mutex / condvar operation is one step, every plain
   segment between two of them is one step).  Both structures are protected by one pthread
   mutex with two Mesa condition variables (spurious wake-ups allowed); every access to the
   shared fields happens in a plain segment executed while the mutex is held, and the
   hand-over of the payloads goes through the mutex: plain cells (array slots, harness payloads)
   carry versions, threads carry views, the mutex carries a stamp (unlock / condvar wait = release,
   lock / wake-up = acquire), ghost counters record uncovered reads.  Definitions only. *)
From MV Require Export C01.Model.
Local Open Scope Z_scope.

Definition cell_mx : nat := 0%nat.
Definition cell_cvne : nat := 1%nat.
Definition cell_cvnf : nat := 2%nat.
Definition n_batch : nat := 7%nat.

(* ------------------------------------------------------------------ *)
(* 1. array blocking queue: producers are threads 0..np-1 (messages (t+1, i)), the others consume *)

Inductive qpc :=
  (* plain *)
  | Q0           (* producer: next item (payload write, note put) / consumer: next take *)
  | QChk         (* under the mutex: while (cnt == capacity) wait / while (cnt == 0) wait; enqueue / dequeue *)
  | QAfterSig    (* between notify_one and unlock *)
  | QRet         (* after unlock: notes *)
  (* operations *)
  | QLock | QWait | QBlocked | QWoken | QSig | QUnlock | QFin | QDone.

Definition q_is_plain (p : qpc) : bool := match p with Q0 | QChk | QAfterSig | QRet => true | _ => false end.

Record qthread := { q_pc : qpc; q_seq : nat; q_todo : nat; q_d : option msg; q_view : view }.
Record qsys := {
  q_cap : Z;
  q_np : nat;
  q_datas : Z -> option msg;
  q_take : Z;
  q_put : Z;
  q_cnt : Z;
  q_mx : Z;
  q_mst : view;
  q_sver : Z -> nat;
  q_pay : msg -> Z;
  q_pver : msg -> nat;
  q_putl : list msg;
  q_taken : list (option msg);
  q_badwait : nat;
  q_uncov : nat;
  q_thr : nat -> qthread;
}.
Definition qw_cap (v : Z) (s : qsys) : qsys :=
  {| q_cap := v; q_np := q_np s; q_datas := q_datas s; q_take := q_take s; q_put := q_put s; q_cnt := q_cnt s; q_mx := q_mx s; q_mst := q_mst s; q_sver := q_sver s; q_pay := q_pay s; q_pver := q_pver s; q_putl := q_putl s; q_taken := q_taken s; q_badwait := q_badwait s; q_uncov := q_uncov s; q_thr := q_thr s |}.
Definition qw_np (v : nat) (s : qsys) : qsys :=
  {| q_cap := q_cap s; q_np := v; q_datas := q_datas s; q_take := q_take s; q_put := q_put s; q_cnt := q_cnt s; q_mx := q_mx s; q_mst := q_mst s; q_sver := q_sver s; q_pay := q_pay s; q_pver := q_pver s; q_putl := q_putl s; q_taken := q_taken s; q_badwait := q_badwait s; q_uncov := q_uncov s; q_thr := q_thr s |}.
Definition qw_datas (v : Z -> option msg) (s : qsys) : qsys :=
  {| q_cap := q_cap s; q_np := q_np s; q_datas := v; q_take := q_take s; q_put := q_put s; q_cnt := q_cnt s; q_mx := q_mx s; q_mst := q_mst s; q_sver := q_sver s; q_pay := q_pay s; q_pver := q_pver s; q_putl := q_putl s; q_taken := q_taken s; q_badwait := q_badwait s; q_uncov := q_uncov s; q_thr := q_thr s |}.
Definition qw_take (v : Z) (s : qsys) : qsys :=
  {| q_cap := q_cap s; q_np := q_np s; q_datas := q_datas s; q_take := v; q_put := q_put s; q_cnt := q_cnt s; q_mx := q_mx s; q_mst := q_mst s; q_sver := q_sver s; q_pay := q_pay s; q_pver := q_pver s; q_putl := q_putl s; q_taken := q_taken s; q_badwait := q_badwait s; q_uncov := q_uncov s; q_thr := q_thr s |}.
Definition qw_put (v : Z) (s : qsys) : qsys :=
  {| q_cap := q_cap s; q_np := q_np s; q_datas := q_datas s; q_take := q_take s; q_put := v; q_cnt := q_cnt s; q_mx := q_mx s; q_mst := q_mst s; q_sver := q_sver s; q_pay := q_pay s; q_pver := q_pver s; q_putl := q_putl s; q_taken := q_taken s; q_badwait := q_badwait s; q_uncov := q_uncov s; q_thr := q_thr s |}.
Definition qw_cnt (v : Z) (s : qsys) : qsys :=
  {| q_cap := q_cap s; q_np := q_np s; q_datas := q_datas s; q_take := q_take s; q_put := q_put s; q_cnt := v; q_mx := q_mx s; q_mst := q_mst s; q_sver := q_sver s; q_pay := q_pay s; q_pver := q_pver s; q_putl := q_putl s; q_taken := q_taken s; q_badwait := q_badwait s; q_uncov := q_uncov s; q_thr := q_thr s |}.
Definition qw_mx (v : Z) (s : qsys) : qsys :=
  {| q_cap := q_cap s; q_np := q_np s; q_datas := q_datas s; q_take := q_take s; q_put := q_put s; q_cnt := q_cnt s; q_mx := v; q_mst := q_mst s; q_sver := q_sver s; q_pay := q_pay s; q_pver := q_pver s; q_putl := q_putl s; q_taken := q_taken s; q_badwait := q_badwait s; q_uncov := q_uncov s; q_thr := q_thr s |}.
Definition qw_mst (v : view) (s : qsys) : qsys :=
  {| q_cap := q_cap s; q_np := q_np s; q_datas := q_datas s; q_take := q_take s; q_put := q_put s; q_cnt := q_cnt s; q_mx := q_mx s; q_mst := v; q_sver := q_sver s; q_pay := q_pay s; q_pver := q_pver s; q_putl := q_putl s; q_taken := q_taken s; q_badwait := q_badwait s; q_uncov := q_uncov s; q_thr := q_thr s |}.
Definition qw_sver (v : Z -> nat) (s : qsys) : qsys :=
  {| q_cap := q_cap s; q_np := q_np s; q_datas := q_datas s; q_take := q_take s; q_put := q_put s; q_cnt := q_cnt s; q_mx := q_mx s; q_mst := q_mst s; q_sver := v; q_pay := q_pay s; q_pver := q_pver s; q_putl := q_putl s; q_taken := q_taken s; q_badwait := q_badwait s; q_uncov := q_uncov s; q_thr := q_thr s |}.
Definition qw_pay (v : msg -> Z) (s : qsys) : qsys :=
  {| q_cap := q_cap s; q_np := q_np s; q_datas := q_datas s; q_take := q_take s; q_put := q_put s; q_cnt := q_cnt s; q_mx := q_mx s; q_mst := q_mst s; q_sver := q_sver s; q_pay := v; q_pver := q_pver s; q_putl := q_putl s; q_taken := q_taken s; q_badwait := q_badwait s; q_uncov := q_uncov s; q_thr := q_thr s |}.
Definition qw_pver (v : msg -> nat) (s : qsys) : qsys :=
  {| q_cap := q_cap s; q_np := q_np s; q_datas := q_datas s; q_take := q_take s; q_put := q_put s; q_cnt := q_cnt s; q_mx := q_mx s; q_mst := q_mst s; q_sver := q_sver s; q_pay := q_pay s; q_pver := v; q_putl := q_putl s; q_taken := q_taken s; q_badwait := q_badwait s; q_uncov := q_uncov s; q_thr := q_thr s |}.
Definition qw_putl (v : list msg) (s : qsys) : qsys :=
  {| q_cap := q_cap s; q_np := q_np s; q_datas := q_datas s; q_take := q_take s; q_put := q_put s; q_cnt := q_cnt s; q_mx := q_mx s; q_mst := q_mst s; q_sver := q_sver s; q_pay := q_pay s; q_pver := q_pver s; q_putl := v; q_taken := q_taken s; q_badwait := q_badwait s; q_uncov := q_uncov s; q_thr := q_thr s |}.
Definition qw_taken (v : list (option msg)) (s : qsys) : qsys :=
  {| q_cap := q_cap s; q_np := q_np s; q_datas := q_datas s; q_take := q_take s; q_put := q_put s; q_cnt := q_cnt s; q_mx := q_mx s; q_mst := q_mst s; q_sver := q_sver s; q_pay := q_pay s; q_pver := q_pver s; q_putl := q_putl s; q_taken := v; q_badwait := q_badwait s; q_uncov := q_uncov s; q_thr := q_thr s |}.
Definition qw_badwait (v : nat) (s : qsys) : qsys :=
  {| q_cap := q_cap s; q_np := q_np s; q_datas := q_datas s; q_take := q_take s; q_put := q_put s; q_cnt := q_cnt s; q_mx := q_mx s; q_mst := q_mst s; q_sver := q_sver s; q_pay := q_pay s; q_pver := q_pver s; q_putl := q_putl s; q_taken := q_taken s; q_badwait := v; q_uncov := q_uncov s; q_thr := q_thr s |}.
Definition qw_uncov (v : nat) (s : qsys) : qsys :=
  {| q_cap := q_cap s; q_np := q_np s; q_datas := q_datas s; q_take := q_take s; q_put := q_put s; q_cnt := q_cnt s; q_mx := q_mx s; q_mst := q_mst s; q_sver := q_sver s; q_pay := q_pay s; q_pver := q_pver s; q_putl := q_putl s; q_taken := q_taken s; q_badwait := q_badwait s; q_uncov := v; q_thr := q_thr s |}.
Definition qw_thr (v : nat -> qthread) (s : qsys) : qsys :=
  {| q_cap := q_cap s; q_np := q_np s; q_datas := q_datas s; q_take := q_take s; q_put := q_put s; q_cnt := q_cnt s; q_mx := q_mx s; q_mst := q_mst s; q_sver := q_sver s; q_pay := q_pay s; q_pver := q_pver s; q_putl := q_putl s; q_taken := q_taken s; q_badwait := q_badwait s; q_uncov := q_uncov s; q_thr := v |}.

Definition q_is_prod (s : qsys) (t : nat) : bool := Nat.ltb t (q_np s).
Definition qset (s : qsys) (t : nat) (x : qthread) : qsys := qw_thr (upd (q_thr s) t x) s.
Definition qpc_set (x : qthread) (p : qpc) : qthread :=
  {| q_pc := p; q_seq := q_seq x; q_todo := q_todo x; q_d := q_d x; q_view := q_view x |}.
Definition qview_set (x : qthread) (v : view) : qthread :=
  {| q_pc := q_pc x; q_seq := q_seq x; q_todo := q_todo x; q_d := q_d x; q_view := v |}.
Definition qmx_set (s : qsys) (v : Z) : qsys := qw_mx v s.
Definition qbad (s : qsys) (ok : bool) : qsys := qw_badwait (if ok then q_badwait s else S (q_badwait s)) s.
Definition qunc (s : qsys) (ok : bool) : qsys := qw_uncov (if ok then q_uncov s else S (q_uncov s)) s.

Definition ring_next (i cap : Z) : Z := if Z.eqb (i + 1) cap then 0 else i + 1.
Definition in_flight (s : qsys) : Z := Z.of_nat (length (q_putl s)) - Z.of_nat (length (q_taken s)).

(* the condition variable a thread at QWait/QBlocked sleeps on: producers on not_full, consumers on not_empty *)
Definition q_waits_nf (s : qsys) (t : nat) : bool := q_is_prod s t.

(* which sleeper a notify_one wakes: the thread named by the choice if it sleeps on that condition
   variable, else the lowest such thread (the scheduler's list mode), else nobody *)
Fixpoint q_first (s : qsys) (nf : bool) (n : nat) : option nat :=
  match n with
  | O => None
  | S m => match q_first s nf m with
           | Some u => Some u
           | None => match q_pc (q_thr s m) with
                     | QBlocked => if Bool.eqb (q_waits_nf s m) nf then Some m else None
                     | _ => None end
           end
  end.
Definition q_pick (s : qsys) (nf : bool) (nthreads ch : nat) : option nat :=
  match q_pc (q_thr s ch) with
  | QBlocked => if Bool.eqb (q_waits_nf s ch) nf && Nat.ltb ch nthreads then Some ch else q_first s nf nthreads
  | _ => q_first s nf nthreads
  end.

Definition qmicro (s : qsys) (t : nat) : option (qsys * list (nat * Z)) :=
  let x := q_thr s t in
  let go p := qset s t (qpc_set x p) in
  let m : msg := (S t, q_seq x) in
  match q_pc x with
  | Q0 =>
    match q_todo x with
    | O => Some (go QFin, [])
    | S _ =>
      if q_is_prod s t then
        (* harness: the producer writes the payload just before put *)
        let n := S (q_pver s m) in
        Some (qset (qw_pay (mupd (q_pay s) m (tag m + 1000)) (qw_pver (mupd (q_pver s) m n) s)) t
                (qpc_set (qview_set x (vupd (q_view x) (CPay m) n)) QLock), [(n_put, tag m)])
      else Some (go QLock, [])
    end
  | QChk =>
    if q_is_prod s t then
      if Z.eqb (q_cnt s) (q_cap s) then Some (qset (qbad s (Z.eqb (in_flight s) (q_cap s))) t (qpc_set x QWait), [])
      else
        (* enqueue: datas[put_idx] = data *)
        let i := q_put s in
        let n := S (q_sver s i) in
        Some (qset (qw_datas (zupd (q_datas s) i (Some m)) (qw_sver (zupd (q_sver s) i n)
                   (qw_put (ring_next i (q_cap s)) (qw_cnt (q_cnt s + 1) (qw_putl (q_putl s ++ [m]) s))))) t
                (qpc_set (qview_set x (vupd (q_view x) (CSlot i) n)) QSig), [])
    else
      if Z.eqb (q_cnt s) 0 then Some (qset (qbad s (Z.eqb (in_flight s) 0)) t (qpc_set x QWait), [])
      else
        (* dequeue: data = datas[take_idx] *)
        let i := q_take s in
        let d := q_datas s i in
        let cov := Nat.eqb (vget (q_view x) (CSlot i)) (q_sver s i) in
        Some (qset (qunc (qw_take (ring_next i (q_cap s)) (qw_cnt (q_cnt s - 1) (qw_taken (q_taken s ++ [d]) s))) cov) t
                {| q_pc := QSig; q_seq := q_seq x; q_todo := q_todo x; q_d := d; q_view := q_view x |}, [])
  | QAfterSig => Some (go QUnlock, [])
  | QRet =>
    let x' := {| q_pc := Q0; q_seq := S (q_seq x); q_todo := pred (q_todo x); q_d := q_d x; q_view := q_view x |} in
    if q_is_prod s t then Some (qset s t x', [(n_ok, tag m)])
    else
      (* harness: the consumer reads the payload of the item it took *)
      let cov := match q_d x with Some m' => Nat.eqb (vget (q_view x) (CPay m')) (q_pver s m') | None => true end in
      Some (qset (qunc s cov) t x',
            [(n_got, tagopt (q_d x)); (n_fld, match q_d x with Some m' => q_pay s m' | None => -1 end)])
  | _ => None
  end.

Definition qop (nthreads : nat) (s : qsys) (t : nat) (ch : nat) : option (qsys * label) :=
  let x := q_thr s t in
  let go p := qset s t (qpc_set x p) in
  let mycv := if q_waits_nf s t then cell_cvnf else cell_cvne in
  let acq p := qset (qmx_set s 1) t (qpc_set (qview_set x (vjoin (q_view x) (q_mst s))) p) in
  let rel p := qset (qw_mst (q_view x) (qmx_set s 0)) t (qpc_set x p) in
  match q_pc x with
  | QLock => if Z.eqb (q_mx s) 0 then Some (acq QChk, LEv (Ev OMlock cell_mx MoNone 0 0 0)) else None
  | QWait => Some (rel QBlocked, LEv (Ev OCvwait mycv MoNone 0 0 0))
  | QBlocked => if Nat.eqb ch 1 then Some (go QWoken, LEv (Ev OCvwoke mycv MoNone 1 0 0)) else None
  | QWoken => if Z.eqb (q_mx s) 0 then Some (acq QChk, LEv (Ev OCvwoke mycv MoNone 0 0 0)) else None
  | QSig =>
    (* a producer notifies not_empty (consumers sleep there), a consumer notifies not_full *)
    let nf := negb (q_is_prod s t) in
    let cv := if nf then cell_cvnf else cell_cvne in
    match q_pick s nf nthreads ch with
    | Some u =>
      let s1 := qset s u (qpc_set (q_thr s u) QWoken) in
      Some (qset s1 t (qpc_set (q_thr s1 t) QAfterSig), LEv (Ev OCvsig cv MoNone 1 (Z.of_nat u) 0))
    | None => Some (go QAfterSig, LEv (Ev OCvsig cv MoNone 0 (-1) 0))
    end
  | QUnlock => Some (rel QRet, LEv (Ev OMunlock cell_mx MoNone 0 0 0))
  | QFin => Some (go QDone, LExit)
  | _ => None
  end.

Definition qstep1 (nthreads : nat) (s : qsys) (t ch : nat) : option (qsys * label) :=
  if q_is_plain (q_pc (q_thr s t)) then
    match qmicro s t with Some (s', ns) => Some (s', LPlain ns) | None => None end
  else qop nthreads s t ch.

Fixpoint qrun (fuel : nat) (s : qsys) (t : nat) (acc : list (nat * Z)) : qsys * list (nat * Z) :=
  match fuel with
  | O => (s, acc)
  | S f => if q_is_plain (q_pc (q_thr s t)) then
             match qmicro s t with Some (s', ns) => qrun f s' t (acc ++ ns) | None => (s, acc) end
           else (s, acc)
  end.
Definition qstep (nthreads : nat) (s : qsys) (t ch : nat) : option (qsys * label) :=
  if q_is_plain (q_pc (q_thr s t)) then
    match qmicro s t with
    | Some (s', ns) => let (s'', ns') := qrun 8 s' t ns in Some (s'', LPlain ns')
    | None => None
    end
  else qop nthreads s t ch.

Definition qinit (cap : Z) (np nthreads : nat) (ks : nat -> nat) : qsys :=
  {| q_cap := cap; q_np := np; q_datas := fun _ => None; q_take := 0; q_put := 0; q_cnt := 0; q_mx := 0;
     q_mst := vbot; q_sver := fun _ => 0%nat; q_pay := fun _ => 0; q_pver := fun _ => 0%nat;
     q_putl := []; q_taken := []; q_badwait := 0; q_uncov := 0;
     q_thr := fun t => if Nat.ltb t nthreads then {| q_pc := Q0; q_seq := 0; q_todo := ks t; q_d := None; q_view := vbot |}
                       else {| q_pc := QDone; q_seq := 0; q_todo := 0; q_d := None; q_view := vbot |} |}.

(* ------------------------------------------------------------------ *)
(* 2. double buffer: reader is thread 0, writers are threads 1..nw *)

Inductive dpc :=
  (* writer plain *)
  | D0 | DCall | DChk | DAfterSig | DRet (ok : bool)
  (* writer ops *)
  | DLock | DWait | DBlocked | DWoken | DSig | DUnlock (ok : bool) | DRetry | DFin | DDone
  (* reader plain *)
  | E0 | EChk | EAfterSig | ERet
  (* reader ops *)
  | ELock | EWait | EBlocked | EWoken | ESig | EUnlock | EFin | EDone.

Definition d_is_plain (p : dpc) : bool :=
  match p with D0 | DCall | DChk | DAfterSig | DRet _ | E0 | EChk | EAfterSig | ERet => true | _ => false end.

Record dthread := { d_pc : dpc; d_seq : nat; d_todo : nat; d_tries : nat; d_view : view }.
Record dsys := {
  d_cap : Z;
  d_nonblock : bool;
  d_maxtry : nat;
  d_nw : nat;
  d_datas : bool -> Z -> option msg;
  d_cnt : bool -> Z;
  d_front : bool;
  d_mx : Z;
  d_mst : view;
  d_sver : Z -> nat;
  d_pay : msg -> Z;
  d_pver : msg -> nat;
  d_written : list msg;
  d_read : list (option msg);
  d_got : nat;
  d_badwait : nat;
  d_uncov : nat;
  d_thr : nat -> dthread;
}.
Definition dw_cap (v : Z) (s : dsys) : dsys :=
  {| d_cap := v; d_nonblock := d_nonblock s; d_maxtry := d_maxtry s; d_nw := d_nw s; d_datas := d_datas s; d_cnt := d_cnt s; d_front := d_front s; d_mx := d_mx s; d_mst := d_mst s; d_sver := d_sver s; d_pay := d_pay s; d_pver := d_pver s; d_written := d_written s; d_read := d_read s; d_got := d_got s; d_badwait := d_badwait s; d_uncov := d_uncov s; d_thr := d_thr s |}.
Definition dw_nonblock (v : bool) (s : dsys) : dsys :=
  {| d_cap := d_cap s; d_nonblock := v; d_maxtry := d_maxtry s; d_nw := d_nw s; d_datas := d_datas s; d_cnt := d_cnt s; d_front := d_front s; d_mx := d_mx s; d_mst := d_mst s; d_sver := d_sver s; d_pay := d_pay s; d_pver := d_pver s; d_written := d_written s; d_read := d_read s; d_got := d_got s; d_badwait := d_badwait s; d_uncov := d_uncov s; d_thr := d_thr s |}.
Definition dw_maxtry (v : nat) (s : dsys) : dsys :=
  {| d_cap := d_cap s; d_nonblock := d_nonblock s; d_maxtry := v; d_nw := d_nw s; d_datas := d_datas s; d_cnt := d_cnt s; d_front := d_front s; d_mx := d_mx s; d_mst := d_mst s; d_sver := d_sver s; d_pay := d_pay s; d_pver := d_pver s; d_written := d_written s; d_read := d_read s; d_got := d_got s; d_badwait := d_badwait s; d_uncov := d_uncov s; d_thr := d_thr s |}.
Definition dw_nw (v : nat) (s : dsys) : dsys :=
  {| d_cap := d_cap s; d_nonblock := d_nonblock s; d_maxtry := d_maxtry s; d_nw := v; d_datas := d_datas s; d_cnt := d_cnt s; d_front := d_front s; d_mx := d_mx s; d_mst := d_mst s; d_sver := d_sver s; d_pay := d_pay s; d_pver := d_pver s; d_written := d_written s; d_read := d_read s; d_got := d_got s; d_badwait := d_badwait s; d_uncov := d_uncov s; d_thr := d_thr s |}.
Definition dw_datas (v : bool -> Z -> option msg) (s : dsys) : dsys :=
  {| d_cap := d_cap s; d_nonblock := d_nonblock s; d_maxtry := d_maxtry s; d_nw := d_nw s; d_datas := v; d_cnt := d_cnt s; d_front := d_front s; d_mx := d_mx s; d_mst := d_mst s; d_sver := d_sver s; d_pay := d_pay s; d_pver := d_pver s; d_written := d_written s; d_read := d_read s; d_got := d_got s; d_badwait := d_badwait s; d_uncov := d_uncov s; d_thr := d_thr s |}.
Definition dw_cnt (v : bool -> Z) (s : dsys) : dsys :=
  {| d_cap := d_cap s; d_nonblock := d_nonblock s; d_maxtry := d_maxtry s; d_nw := d_nw s; d_datas := d_datas s; d_cnt := v; d_front := d_front s; d_mx := d_mx s; d_mst := d_mst s; d_sver := d_sver s; d_pay := d_pay s; d_pver := d_pver s; d_written := d_written s; d_read := d_read s; d_got := d_got s; d_badwait := d_badwait s; d_uncov := d_uncov s; d_thr := d_thr s |}.
Definition dw_front (v : bool) (s : dsys) : dsys :=
  {| d_cap := d_cap s; d_nonblock := d_nonblock s; d_maxtry := d_maxtry s; d_nw := d_nw s; d_datas := d_datas s; d_cnt := d_cnt s; d_front := v; d_mx := d_mx s; d_mst := d_mst s; d_sver := d_sver s; d_pay := d_pay s; d_pver := d_pver s; d_written := d_written s; d_read := d_read s; d_got := d_got s; d_badwait := d_badwait s; d_uncov := d_uncov s; d_thr := d_thr s |}.
Definition dw_mx (v : Z) (s : dsys) : dsys :=
  {| d_cap := d_cap s; d_nonblock := d_nonblock s; d_maxtry := d_maxtry s; d_nw := d_nw s; d_datas := d_datas s; d_cnt := d_cnt s; d_front := d_front s; d_mx := v; d_mst := d_mst s; d_sver := d_sver s; d_pay := d_pay s; d_pver := d_pver s; d_written := d_written s; d_read := d_read s; d_got := d_got s; d_badwait := d_badwait s; d_uncov := d_uncov s; d_thr := d_thr s |}.
Definition dw_mst (v : view) (s : dsys) : dsys :=
  {| d_cap := d_cap s; d_nonblock := d_nonblock s; d_maxtry := d_maxtry s; d_nw := d_nw s; d_datas := d_datas s; d_cnt := d_cnt s; d_front := d_front s; d_mx := d_mx s; d_mst := v; d_sver := d_sver s; d_pay := d_pay s; d_pver := d_pver s; d_written := d_written s; d_read := d_read s; d_got := d_got s; d_badwait := d_badwait s; d_uncov := d_uncov s; d_thr := d_thr s |}.
Definition dw_sver (v : Z -> nat) (s : dsys) : dsys :=
  {| d_cap := d_cap s; d_nonblock := d_nonblock s; d_maxtry := d_maxtry s; d_nw := d_nw s; d_datas := d_datas s; d_cnt := d_cnt s; d_front := d_front s; d_mx := d_mx s; d_mst := d_mst s; d_sver := v; d_pay := d_pay s; d_pver := d_pver s; d_written := d_written s; d_read := d_read s; d_got := d_got s; d_badwait := d_badwait s; d_uncov := d_uncov s; d_thr := d_thr s |}.
Definition dw_pay (v : msg -> Z) (s : dsys) : dsys :=
  {| d_cap := d_cap s; d_nonblock := d_nonblock s; d_maxtry := d_maxtry s; d_nw := d_nw s; d_datas := d_datas s; d_cnt := d_cnt s; d_front := d_front s; d_mx := d_mx s; d_mst := d_mst s; d_sver := d_sver s; d_pay := v; d_pver := d_pver s; d_written := d_written s; d_read := d_read s; d_got := d_got s; d_badwait := d_badwait s; d_uncov := d_uncov s; d_thr := d_thr s |}.
Definition dw_pver (v : msg -> nat) (s : dsys) : dsys :=
  {| d_cap := d_cap s; d_nonblock := d_nonblock s; d_maxtry := d_maxtry s; d_nw := d_nw s; d_datas := d_datas s; d_cnt := d_cnt s; d_front := d_front s; d_mx := d_mx s; d_mst := d_mst s; d_sver := d_sver s; d_pay := d_pay s; d_pver := v; d_written := d_written s; d_read := d_read s; d_got := d_got s; d_badwait := d_badwait s; d_uncov := d_uncov s; d_thr := d_thr s |}.
Definition dw_written (v : list msg) (s : dsys) : dsys :=
  {| d_cap := d_cap s; d_nonblock := d_nonblock s; d_maxtry := d_maxtry s; d_nw := d_nw s; d_datas := d_datas s; d_cnt := d_cnt s; d_front := d_front s; d_mx := d_mx s; d_mst := d_mst s; d_sver := d_sver s; d_pay := d_pay s; d_pver := d_pver s; d_written := v; d_read := d_read s; d_got := d_got s; d_badwait := d_badwait s; d_uncov := d_uncov s; d_thr := d_thr s |}.
Definition dw_read (v : list (option msg)) (s : dsys) : dsys :=
  {| d_cap := d_cap s; d_nonblock := d_nonblock s; d_maxtry := d_maxtry s; d_nw := d_nw s; d_datas := d_datas s; d_cnt := d_cnt s; d_front := d_front s; d_mx := d_mx s; d_mst := d_mst s; d_sver := d_sver s; d_pay := d_pay s; d_pver := d_pver s; d_written := d_written s; d_read := v; d_got := d_got s; d_badwait := d_badwait s; d_uncov := d_uncov s; d_thr := d_thr s |}.
Definition dw_got (v : nat) (s : dsys) : dsys :=
  {| d_cap := d_cap s; d_nonblock := d_nonblock s; d_maxtry := d_maxtry s; d_nw := d_nw s; d_datas := d_datas s; d_cnt := d_cnt s; d_front := d_front s; d_mx := d_mx s; d_mst := d_mst s; d_sver := d_sver s; d_pay := d_pay s; d_pver := d_pver s; d_written := d_written s; d_read := d_read s; d_got := v; d_badwait := d_badwait s; d_uncov := d_uncov s; d_thr := d_thr s |}.
Definition dw_badwait (v : nat) (s : dsys) : dsys :=
  {| d_cap := d_cap s; d_nonblock := d_nonblock s; d_maxtry := d_maxtry s; d_nw := d_nw s; d_datas := d_datas s; d_cnt := d_cnt s; d_front := d_front s; d_mx := d_mx s; d_mst := d_mst s; d_sver := d_sver s; d_pay := d_pay s; d_pver := d_pver s; d_written := d_written s; d_read := d_read s; d_got := d_got s; d_badwait := v; d_uncov := d_uncov s; d_thr := d_thr s |}.
Definition dw_uncov (v : nat) (s : dsys) : dsys :=
  {| d_cap := d_cap s; d_nonblock := d_nonblock s; d_maxtry := d_maxtry s; d_nw := d_nw s; d_datas := d_datas s; d_cnt := d_cnt s; d_front := d_front s; d_mx := d_mx s; d_mst := d_mst s; d_sver := d_sver s; d_pay := d_pay s; d_pver := d_pver s; d_written := d_written s; d_read := d_read s; d_got := d_got s; d_badwait := d_badwait s; d_uncov := v; d_thr := d_thr s |}.
Definition dw_thr (v : nat -> dthread) (s : dsys) : dsys :=
  {| d_cap := d_cap s; d_nonblock := d_nonblock s; d_maxtry := d_maxtry s; d_nw := d_nw s; d_datas := d_datas s; d_cnt := d_cnt s; d_front := d_front s; d_mx := d_mx s; d_mst := d_mst s; d_sver := d_sver s; d_pay := d_pay s; d_pver := d_pver s; d_written := d_written s; d_read := d_read s; d_got := d_got s; d_badwait := d_badwait s; d_uncov := d_uncov s; d_thr := v |}.

Definition dset (s : dsys) (t : nat) (x : dthread) : dsys := dw_thr (upd (d_thr s) t x) s.
Definition dpc_set (x : dthread) (p : dpc) : dthread :=
  {| d_pc := p; d_seq := d_seq x; d_todo := d_todo x; d_tries := d_tries x; d_view := d_view x |}.
Definition dview_set (x : dthread) (v : view) : dthread :=
  {| d_pc := d_pc x; d_seq := d_seq x; d_todo := d_todo x; d_tries := d_tries x; d_view := v |}.
Definition dmx_set (s : dsys) (v : Z) : dsys := dw_mx v s.
Definition dbad (s : dsys) (ok : bool) : dsys := dw_badwait (if ok then d_badwait s else S (d_badwait s)) s.
Definition bupd {A} (f : bool -> A) (b : bool) (x : A) : bool -> A := fun c => if Bool.eqb c b then x else f c.
(* the plain cell of entry i of buffer b *)
Definition dcode (b : bool) (i : Z) : Z := 2 * i + (if b then 1 else 0).
Definition dcell (b : bool) (i : Z) : pcell := CSlot (dcode b i).
(* accepted items not yet handed to the reader (ghost: from the two histories, not from cnt) *)
Definition d_pending (s : dsys) : Z := Z.of_nat (length (d_written s)) - Z.of_nat (length (d_read s)).

(* the first n entries of a buffer *)
Fixpoint batch (f : Z -> option msg) (n : nat) : list (option msg) :=
  match n with O => [] | S k => batch f k ++ [f (Z.of_nat k)] end.
Fixpoint batch_notes (pay : msg -> Z) (l : list (option msg)) : list (nat * Z) :=
  match l with
  | [] => []
  | d :: r => (n_got, tagopt d) :: (n_fld, match d with Some m' => pay m' | None => -1 end) :: batch_notes pay r
  end.
(* are the first n entries of buffer b, and the payloads they point to, covered by the view v? *)
Fixpoint batch_cov (s : dsys) (v : view) (b : bool) (n : nat) : bool :=
  match n with
  | O => true
  | S k =>
    batch_cov s v b k && Nat.eqb (vget v (dcell b (Z.of_nat k))) (d_sver s (dcode b (Z.of_nat k))) &&
    match d_datas s b (Z.of_nat k) with Some m' => Nat.eqb (vget v (CPay m')) (d_pver s m') | None => true end
  end.

Definition dmicro (s : dsys) (t : nat) : option (dsys * list (nat * Z)) :=
  let x := d_thr s t in
  let go p := dset s t (dpc_set x p) in
  let m : msg := (t, d_seq x) in
  let back := negb (d_front s) in
  match d_pc x with
  | D0 =>
    match d_todo x with
    | O => Some (go DFin, [])
    | S _ =>
      let n := S (d_pver s m) in
      Some (dset (dw_pay (mupd (d_pay s) m (tag m + 1000)) (dw_pver (mupd (d_pver s) m n) s)) t
              (dpc_set (dview_set x (vupd (d_view x) (CPay m) n)) DCall), [(n_put, tag m)])
    end
  | DCall => Some (go DLock, [])
  | DChk =>
    if Z.eqb (d_cnt s back) (d_cap s) then
      (* refused (non-blocking) or put to sleep: ghost check that the back buffer really is full *)
      let s1 := dbad s (Z.eqb (d_pending s) (d_cap s)) in
      if d_nonblock s then Some (dset s1 t (dpc_set x (DUnlock false)), []) else Some (dset s1 t (dpc_set x DWait), [])
    else
      let i := d_cnt s back in
      let n := S (d_sver s (dcode back i)) in
      Some (dset (dw_datas (bupd (d_datas s) back (zupd (d_datas s back) i (Some m)))
                 (dw_sver (zupd (d_sver s) (dcode back i) n)
                 (dw_cnt (bupd (d_cnt s) back (i + 1)) (dw_written (d_written s ++ [m]) s)))) t
              (dpc_set (dview_set x (vupd (d_view x) (dcell back i) n)) DSig), [])
  | DAfterSig => Some (go (DUnlock true), [])
  | DRet true =>
    Some (dset s t {| d_pc := D0; d_seq := S (d_seq x); d_todo := pred (d_todo x); d_tries := 0; d_view := d_view x |}, [(n_ok, tag m)])
  | DRet false =>
    let tr := S (d_tries x) in
    if negb (Nat.eqb (d_maxtry s) 0) && Nat.leb (d_maxtry s) tr
    then Some (dset s t {| d_pc := D0; d_seq := S (d_seq x); d_todo := pred (d_todo x); d_tries := 0; d_view := d_view x |},
               [(n_full, tag m); (n_giveup, tag m)])
    else Some (dset s t {| d_pc := DRetry; d_seq := d_seq x; d_todo := d_todo x; d_tries := tr; d_view := d_view x |}, [(n_full, tag m)])
  | E0 =>
    (* while (got < total) *)
    if Nat.ltb (d_got s) (d_todo x) then Some (go ELock, []) else Some (go EFin, [])
  | EChk =>
    if Z.eqb (d_cnt s back) 0 then Some (dset (dbad s (Z.eqb (d_pending s) 0)) t (dpc_set x EWait), [])
    else
      (* buf->front->cnt = 0; swap front and back *)
      Some (dset (dw_cnt (bupd (d_cnt s) (d_front s) 0) (dw_front back
                 (dw_read (d_read s ++ batch (d_datas s back) (Z.to_nat (d_cnt s back))) s))) t (dpc_set x ESig), [])
  | EAfterSig => Some (go EUnlock, [])
  | ERet =>
    (* harness: the reader walks the batch (entries and payloads) outside the lock *)
    let n := Z.to_nat (d_cnt s (d_front s)) in
    let b := batch (d_datas s (d_front s)) n in
    let cov := batch_cov s (d_view x) (d_front s) n in
    Some (dset (dw_got (d_got s + length b)%nat (dw_uncov (if cov then d_uncov s else S (d_uncov s)) s)) t (dpc_set x E0),
          (n_batch, d_cnt s (d_front s)) :: batch_notes (d_pay s) b)
  | _ => None
  end.

Fixpoint d_first (s : dsys) (n : nat) : option nat :=
  match n with
  | O => None
  | S m => match d_first s m with
           | Some u => Some u
           | None => match d_pc (d_thr s m) with DBlocked => Some m | _ => None end
           end
  end.
Definition d_pick (s : dsys) (ch : nat) : option nat :=
  match d_pc (d_thr s ch) with
  | DBlocked => if Nat.leb ch (d_nw s) then Some ch else d_first s (S (d_nw s))
  | _ => d_first s (S (d_nw s))
  end.

Definition dop (s : dsys) (t : nat) (ch : nat) : option (dsys * label) :=
  let x := d_thr s t in
  let go p := dset s t (dpc_set x p) in
  let acq p := dset (dmx_set s 1) t (dpc_set (dview_set x (vjoin (d_view x) (d_mst s))) p) in
  let rel p := dset (dw_mst (d_view x) (dmx_set s 0)) t (dpc_set x p) in
  match d_pc x with
  | DLock => if Z.eqb (d_mx s) 0 then Some (acq DChk, LEv (Ev OMlock cell_mx MoNone 0 0 0)) else None
  | DWait => Some (rel DBlocked, LEv (Ev OCvwait cell_cvnf MoNone 0 0 0))
  | DBlocked => if Nat.eqb ch 1 then Some (go DWoken, LEv (Ev OCvwoke cell_cvnf MoNone 1 0 0)) else None
  | DWoken => if Z.eqb (d_mx s) 0 then Some (acq DChk, LEv (Ev OCvwoke cell_cvnf MoNone 0 0 0)) else None
  | DSig =>
    match d_pc (d_thr s 0%nat) with
    | EBlocked =>
      let s1 := dset s 0%nat (dpc_set (d_thr s 0%nat) EWoken) in
      Some (dset s1 t (dpc_set (d_thr s1 t) DAfterSig), LEv (Ev OCvsig cell_cvne MoNone 1 0 0))
    | _ => Some (go DAfterSig, LEv (Ev OCvsig cell_cvne MoNone 0 (-1) 0))
    end
  | DUnlock ok => Some (rel (DRet ok), LEv (Ev OMunlock cell_mx MoNone 0 0 0))
  | DRetry => Some (go DCall, LEv (Ev OPlain cell_retry MoNone 0 0 0))
  | DFin => Some (go DDone, LExit)
  | ELock => if Z.eqb (d_mx s) 0 then Some (acq EChk, LEv (Ev OMlock cell_mx MoNone 0 0 0)) else None
  | EWait => Some (rel EBlocked, LEv (Ev OCvwait cell_cvne MoNone 0 0 0))
  | EBlocked => if Nat.eqb ch 1 then Some (go EWoken, LEv (Ev OCvwoke cell_cvne MoNone 1 0 0)) else None
  | EWoken => if Z.eqb (d_mx s) 0 then Some (acq EChk, LEv (Ev OCvwoke cell_cvne MoNone 0 0 0)) else None
  | ESig =>
    match d_pick s ch with
    | Some u =>
      let s1 := dset s u (dpc_set (d_thr s u) DWoken) in
      Some (dset s1 t (dpc_set (d_thr s1 t) EAfterSig), LEv (Ev OCvsig cell_cvnf MoNone 1 (Z.of_nat u) 0))
    | None => Some (go EAfterSig, LEv (Ev OCvsig cell_cvnf MoNone 0 (-1) 0))
    end
  | EUnlock => Some (rel ERet, LEv (Ev OMunlock cell_mx MoNone 0 0 0))
  | EFin => Some (go EDone, LExit)
  | _ => None
  end.

Definition dstep1 (s : dsys) (t ch : nat) : option (dsys * label) :=
  if d_is_plain (d_pc (d_thr s t)) then
    match dmicro s t with Some (s', ns) => Some (s', LPlain ns) | None => None end
  else dop s t ch.
Fixpoint drun (fuel : nat) (s : dsys) (t : nat) (acc : list (nat * Z)) : dsys * list (nat * Z) :=
  match fuel with
  | O => (s, acc)
  | S f => if d_is_plain (d_pc (d_thr s t)) then
             match dmicro s t with Some (s', ns) => drun f s' t (acc ++ ns) | None => (s, acc) end
           else (s, acc)
  end.
Definition dstep (s : dsys) (t ch : nat) : option (dsys * label) :=
  if d_is_plain (d_pc (d_thr s t)) then
    match dmicro s t with
    | Some (s', ns) => let (s'', ns') := drun 8 s' t ns in Some (s'', LPlain ns')
    | None => None
    end
  else dop s t ch.

Definition dinit (cap : Z) (nonblock : bool) (maxtry nw total : nat) (ks : nat -> nat) : dsys :=
  {| d_cap := cap; d_nonblock := nonblock; d_maxtry := maxtry; d_nw := nw;
     d_datas := fun _ _ => None; d_cnt := fun _ => 0; d_front := false; d_mx := 0; d_mst := vbot;
     d_sver := fun _ => 0%nat; d_pay := fun _ => 0; d_pver := fun _ => 0%nat;
     d_written := []; d_read := []; d_got := 0; d_badwait := 0; d_uncov := 0;
     d_thr := fun t => if Nat.eqb t 0 then {| d_pc := E0; d_seq := 0; d_todo := total; d_tries := 0; d_view := vbot |}
                       else if Nat.leb t nw then {| d_pc := D0; d_seq := 0; d_todo := ks t; d_tries := 0; d_view := vbot |}
                       else {| d_pc := DDone; d_seq := 0; d_todo := 0; d_tries := 0; d_view := vbot |} |}.
