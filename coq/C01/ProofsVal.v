(* C01 — MESSAGE VALUES.  A message is an opaque void* for the channel.  In the model a scenario
   assigns to the message (writer, seq) the pointer value g_val (writer, seq) (any function: the
   address of its own payload, NULL, (void* )-1, small integers, one address shared by several
   messages, ...); the model moves identities and never inspects the values: g_val occurs only
   in the reader's "got" / "fld" harness notes.  Hence
     - every theorem proved for all configurations holds for every value assignment;
     - parametricity: the same schedule under ANY other value assignment reaches the SAME state
       (program points, cursors, slots, accepted / delivered identities, ghost counters) and
       produces the same operations in the same order, the labels differing only in the values
       of the "got" / "fld" notes;
     - the value returned by the k-th read is the value carried by the k-th accepted message. *)
From Coq Require Import ZArith List Lia Bool.
From MV Require Import C01.Model C01.ProofsArith C01.ProofsSC C01.ProofsView C01.ProofsViewM C01.ProofsOrder.
Import ListNotations.
Local Open Scope Z_scope.

(* notes with the values of the reader's "got" / "fld" notes erased *)
Definition erase_note (kv : nat * Z) : nat * Z :=
  if Nat.eqb (fst kv) n_got || Nat.eqb (fst kv) n_fld then (fst kv, 0) else kv.
Definition erase (ns : list (nat * Z)) : list (nat * Z) := map erase_note ns.
Definition shape (l : label) : label := match l with LPlain ns => LPlain (erase ns) | _ => l end.
Definition eproj {A} (r : A * list (nat * Z)) : A * list (nat * Z) := (fst r, erase (snd r)).
Definition lproj {A} (r : A * label) : A * label := (fst r, shape (snd r)).

Lemma erase_app a b : erase (a ++ b) = erase a ++ erase b.
Proof. apply map_app. Qed.

Section Val.
  Variable P : params.
  Variable g : cfg.
  Variable v : msg -> Z.
  Let g' := with_val g v.

  Lemma cmicro_val s t ch : option_map eproj (cmicro g' s t ch) = option_map eproj (cmicro g s t ch).
  Proof. unfold cmicro. destruct (t_pc (c_thr s t)); reflexivity. Qed.

  Lemma cop_val s t ch : cop P g' s t ch = cop P g s t ch.
  Proof. reflexivity. Qed.

  Lemma crun_val fuel : forall s t ch acc acc', erase acc = erase acc' ->
    eproj (crun fuel g' s t ch acc) = eproj (crun fuel g s t ch acc').
  Proof.
    induction fuel as [|f IH]; intros s t ch acc acc' He; simpl.
    - unfold eproj. simpl. rewrite He. reflexivity.
    - destruct (is_plain (t_pc (c_thr s t))); [|unfold eproj; simpl; rewrite He; reflexivity].
      pose proof (cmicro_val s t ch) as Hm.
      destruct (cmicro g' s t ch) as [[s1 n1]|]; destruct (cmicro g s t ch) as [[s2 n2]|];
        cbn [option_map] in Hm; try discriminate Hm.
      + unfold eproj in Hm. cbn [fst snd] in Hm. injection Hm as Hs Hn. subst s2.
        apply IH. rewrite !erase_app, He, Hn. reflexivity.
      + unfold eproj. simpl. rewrite He. reflexivity.
  Qed.

  Lemma cstep_val s t ch : option_map lproj (cstep P g' s t ch) = option_map lproj (cstep P g s t ch).
  Proof.
    unfold cstep. generalize 16%nat. intros F.
    destruct (is_plain (t_pc (c_thr s t))); [|rewrite cop_val; reflexivity].
    pose proof (cmicro_val s t ch) as Hm.
    destruct (cmicro g' s t ch) as [[s1 n1]|]; destruct (cmicro g s t ch) as [[s2 n2]|];
      cbn [option_map] in Hm; try discriminate Hm; [|reflexivity].
    unfold eproj in Hm. cbn [fst snd] in Hm. injection Hm as Hs Hn. subst s2.
    pose proof (crun_val F s1 t ch n1 n2 Hn) as Hr.
    destruct (crun F g' s1 t ch n1) as [sa na]. destruct (crun F g s1 t ch n2) as [sb nb].
    unfold eproj in Hr. cbn [fst snd] in Hr. injection Hr as Hs Hn'. subst sb.
    cbn [option_map]. unfold lproj. cbn [fst snd shape]. rewrite Hn'. reflexivity.
  Qed.

  Lemma exec_val sched : forall s,
    exec csys (cstep P g') s sched = exec csys (cstep P g) s sched /\
    map (fun tl => (fst tl, shape (snd tl))) (trace csys (cstep P g') s sched) =
    map (fun tl => (fst tl, shape (snd tl))) (trace csys (cstep P g) s sched).
  Proof.
    induction sched as [|[t c] r IH]; intros s; [unfold exec; cbn [fold_left trace map]; split; reflexivity|].
    pose proof (cstep_val s t c) as Hs.
    unfold exec. cbn [fold_left trace]. unfold exec1. cbn [fst snd].
    destruct (cstep P g' s t c) as [[s1 l1]|]; destruct (cstep P g s t c) as [[s2 l2]|];
      cbn [option_map] in Hs; try discriminate Hs.
    - unfold lproj in Hs. cbn [fst snd] in Hs. injection Hs as E1 E2. subst s2.
      destruct (IH s1) as [A B]. split; [exact A|]. cbn [map fst snd]. rewrite E2, B. reflexivity.
    - apply IH.
  Qed.

  (* the same schedule under another value assignment: the same state ... *)
  Theorem chan_state_value_independent_all nread ks sched :
    reach P g' nread ks sched = reach P g nread ks sched.
  Proof. unfold reach. exact (proj1 (exec_val sched (cinit g nread ks))). Qed.

  (* ... and the same operations in the same order, up to the values in the got / fld notes *)
  Theorem chan_trace_value_independent_all nread ks sched :
    map (fun tl => (fst tl, shape (snd tl))) (trace csys (cstep P g') (cinit g' nread ks) sched) =
    map (fun tl => (fst tl, shape (snd tl))) (trace csys (cstep P g) (cinit g nread ks) sched).
  Proof. exact (proj2 (exec_val sched (cinit g nread ks))). Qed.
End Val.

Lemma mk_cfg_val_ok wk rm req nw mt v : (wk = WSingle -> (nw <= 1)%nat) -> cfg_ok (mk_cfg_val wk rm req nw mt v).
Proof. intros H. exact (mk_cfg_ok wk rm req nw mt H). Qed.

(* delivered VALUES: the k-th read returns the value carried by the k-th accepted message (and
   nothing else: a read never returns the NULL of an unwritten slot as data) *)
Theorem chan_delivered_values_all P g nread ks sched : cfg_ok g ->
  chan_mo_ok P (g_rm g) = true -> lock_mo_ok P (g_wk g) = true ->
  let s := reach P g nread ks sched in
  map (valopt g) (c_del s) = map (g_val g) (firstn (length (c_del s)) (c_acc s)) /\
  (length (c_del s) <= length (c_acc s))%nat.
Proof.
  intros Hg Hcm Hlm s. destruct (chan_exactly_once_all P g nread ks sched Hg Hcm Hlm) as (A & B & _).
  fold s in A, B. split; [|exact B]. rewrite A at 1. rewrite map_map. reflexivity.
Qed.

(* non-vacuity: NULL, (void* )-1, the small integer 1 and one shared object sent twice travel
   through a futex-reader channel like any other value; under the default assignment the same
   schedule gives the same state *)
Definition adv_val (m : msg) : Z :=
  match snd m with 0%nat => -1 | 1%nat => -3 | 2%nat => -11 | _ => 9000 end.
Example chan_values_nonvacuous :
  let g := mk_cfg_val WSpin RSync 8 1 0 adv_val in
  let sched := concat (repeat [(1, 0); (0, 0)]%nat 120) in
  let s := reach sc_params g 5 (fun _ => 5%nat) sched in
  map (valopt g) (c_del s) = [-1; -3; -11; 9000; 9000] /\ c_del s = map Some (c_acc s) /\
  c_uncov s = 0%nat /\
  let s0 := reach sc_params (mk_cfg WSpin RSync 8 1 0) 5 (fun _ => 5%nat) sched in
  c_acc s = c_acc s0 /\ c_del s = c_del s0 /\ c_wcur s = c_wcur s0 /\ c_rcur s = c_rcur s0 /\
  t_pc (c_thr s 0%nat) = RDone /\ t_pc (c_thr s0 0%nat) = RDone.
Proof. vm_compute. repeat split; reflexivity. Qed.
