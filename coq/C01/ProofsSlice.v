(* C01 — second tie (DESIGN.md 4.4), model side: the steps the MODEL (Model.v cmicro / cop) takes
   through one call of a write / read function variant compute the reference functions of
   Slice.v: the same result, the same cursor update, the same slot index written or read, and the
   same sequence of synchronisation operations with the same memory orders (the event word the
   slicer accumulates in program order on every path of the C text).  Together with ProofsGen.v
   (generated = reference): the integer content and the synchronisation skeleton of every path of
   these functions, as they stand in the C text of this run, are those of the model -- also on
   paths no scenario reaches. *)
From Coq Require Import ZArith List Lia Bool.
From MV Require Import Lib.Leaf C01.Model C01.Slice C01.ProofsArith C01.ProofsSC.
Import ListNotations.
Local Open Scope Z_scope.

(* event code of a label of the model: operation, cell, memory order (values not included) *)
Definition op_code (o : opk) : Z :=
  match o with
  | OLoad => OP_load | OStore => OP_store | OFwake => OP_wake | OFwait => OP_wait
  | OMlock => OP_mlock | OMunlock => OP_munlock | OCvwait => OP_cvwait | OCvsig => OP_cvsig
  | _ => 0
  end.
Definition cell_code (c : nat) : Z :=
  if Nat.eqb c cell_rcur then CE_rcur else if Nat.eqb c cell_wcur then CE_wcur
  else if Nat.eqb c cell_rmx then CE_rmx else if Nat.eqb c cell_rcv then CE_rcv else 0.
Definition lab_push (ev : Z) (l : label) : Z :=
  match l with
  | LEv e => push ev (evc (op_code (e_op e)) (cell_code (e_cell e))
                           (match e_op e with OLoad | OStore => mo_code (e_mo e) | _ => 0 end))
  | _ => ev
  end.

(* small steps of one thread, collecting the event word; stops where the thread is not enabled *)
Fixpoint run (n : nat) (P : params) (g : cfg) (s : csys) (t ch : nat) (ev : Z) : csys * Z :=
  match n with
  | O => (s, ev)
  | S m => match cstep1 P g s t ch with
           | Some (s', l) => run m P g s' t ch (lab_push ev l)
           | None => (s, ev)
           end
  end.

Lemma rnext1_mod cap w : 0 < cap -> 0 <= w < cap -> rnext1 cap w = (w + 1) mod cap.
Proof.
  intros Hc Hw. unfold rnext1. destruct (Z.ltb_spec (w + 1) cap); [symmetry; apply Z.mod_small; lia|].
  assert (w + 1 = cap) by lia. rewrite H0. rewrite Z.sub_diag. symmetry. apply Z.mod_same. lia.
Qed.

Section Model.
  Variable P : params.
  Variable g : cfg.
  Hypothesis Hc : 0 < g_cap g.

  Ltac crunch := unfold run, cstep1, cmicro, cop, wnext, rnext, slot_write, full_check, slot_read;
    repeat (first [ progress simpl | rewrite upd_same
                  | match goal with H : g_rm g = _ |- _ => rewrite H end
                  | match goal with H : g_wk g = _ |- _ => rewrite H end
                  | match goal with H : t_pc (c_thr _ _) = _ |- _ => rewrite H end
                  | match goal with H : Z.eqb _ _ = _ |- _ => rewrite H end ]).

  (* muggle_channel_write_sync: from fn_write entered (WBody) to fn_write returned (WUnlock ok) *)
  Lemma model_write_sync s t ch ev (slot : list Z) (data : Z) :
    g_rm g = RSync -> t_pc (c_thr s t) = WBody -> 0 <= c_wcur s < g_cap g ->
    let '(ret, ev', _, wc') := ref_write_sync P (g_cap g) ev (c_rcur s) slot (c_wcur s) data in
    let '(s', evm) := run (if ret =? 0 then 4 else 3) P g s t ch ev in
    evm = ev' /\ t_pc (c_thr s' t) = WUnlock (ret =? 0) /\ c_wcur s' = wc' /\ c_rcur s' = c_rcur s /\
    c_slot s' = (if ret =? 0 then zupd (c_slot s) (c_wcur s) (Some (t, t_seq (c_thr s t))) else c_slot s).
  Proof.
    intros Erm Epc Hw. unfold ref_write_sync. rewrite (rnext1_mod _ _ Hc Hw).
    destruct (Z.eqb ((c_wcur s + 1) mod g_cap g) (c_rcur s)) eqn:E;
      [change (ERR_FULL =? 0) with false|change (0 =? 0) with true]; cbv iota; crunch; repeat split; reflexivity.
  Qed.

  (* muggle_channel_write_busy *)
  Lemma model_write_busy s t ch ev (slot : list Z) (data : Z) :
    g_rm g = RBusy -> t_pc (c_thr s t) = WBody -> 0 <= c_wcur s < g_cap g ->
    let '(ret, cached', ev', _, wc') := ref_write_busy P (c_cached s) (g_cap g) ev (c_rcur s) slot (c_wcur s) data in
    let hit := negb (rnext1 (g_cap g) (c_wcur s) =? c_cached s) in
    let '(s', evm) := run (if hit then 2 else if ret =? 0 then 4 else 3) P g s t ch ev in
    evm = ev' /\ t_pc (c_thr s' t) = WUnlock (ret =? 0) /\ c_wcur s' = wc' /\ c_cached s' = cached' /\
    c_slot s' = (if ret =? 0 then zupd (c_slot s) (c_wcur s) (Some (t, t_seq (c_thr s t))) else c_slot s).
  Proof.
    intros Erm Epc Hw. unfold ref_write_busy. rewrite (rnext1_mod _ _ Hc Hw).
    destruct (Z.eqb ((c_wcur s + 1) mod g_cap g) (c_cached s)) eqn:E1; simpl negb; cbv iota.
    - destruct (Z.eqb ((c_wcur s + 1) mod g_cap g) (c_rcur s)) eqn:E2; simpl negb; cbv iota;
        [change (ERR_FULL =? 0) with false|change (0 =? 0) with true]; cbv iota; crunch; repeat split; reflexivity.
    - change (0 =? 0) with true. cbv iota. crunch. repeat split; reflexivity.
  Qed.

  (* muggle_channel_write_mutex *)
  Lemma model_write_mutex s t ch ev (slot : list Z) (data : Z) :
    g_rm g = RMutex -> t_pc (c_thr s t) = WBody -> 0 <= c_wcur s < g_cap g -> c_rmx s = 0 ->
    let '(ret, ev', _, wc') := ref_write_mutex (g_cap g) ev (c_rcur s) slot (c_wcur s) data in
    let '(s', evm) := run 4 P g s t ch ev in
    evm = ev' /\ t_pc (c_thr s' t) = WUnlock (ret =? 0) /\ c_wcur s' = wc' /\ c_rmx s' = 0 /\
    c_slot s' = (if ret =? 0 then zupd (c_slot s) (c_wcur s) (Some (t, t_seq (c_thr s t))) else c_slot s).
  Proof.
    intros Erm Epc Hw Hx. unfold ref_write_mutex. rewrite (rnext1_mod _ _ Hc Hw).
    assert (Ex : Z.eqb (c_rmx s) 0 = true) by (apply Z.eqb_eq; exact Hx).
    destruct (Z.eqb ((c_wcur s + 1) mod g_cap g) (c_rcur s)) eqn:E;
      [change (ERR_FULL =? 0) with false|change (0 =? 0) with true]; cbv iota; crunch; repeat split; reflexivity.
  Qed.

  (* one iteration of muggle_channel_read_sync: from the entry of the function (R0 with a read to
     do) to the return (RRet, the slot at the new read position has been read) or to the futex wait *)
  Lemma model_read_sync s ch ev again (slot : list Z) waited waitv n :
    g_rm g = RSync -> t_pc (c_thr s 0%nat) = R0 -> t_todo (c_thr s 0%nat) = S n -> 0 <= c_rcur s < g_cap g ->
    let '(_, again', ev', rc', waited', waitv') := ref_read_sync P again (g_cap g) ev (c_rcur s) slot waited waitv (c_wcur s) in
    let got := negb (c_wcur s =? rnext1 (g_cap g) (c_rcur s)) in
    let '(s', evm) := run 4 P g s 0%nat ch ev in
    c_rcur s' = rc' /\ c_wcur s' = c_wcur s /\
    (if got then evm = ev' /\ t_pc (c_thr s' 0%nat) = RRet /\ t_d (c_thr s' 0%nat) = fst (slot_read s (t_view (c_thr s' 0%nat)) rc' ch) /\ again' = again
     else (t_pc (c_thr s' 0%nat) = RBlocked \/ t_pc (c_thr s' 0%nat) = RLoop) /\ again' = 1 /\ waitv' = c_wcur s /\
          waited' = evc OP_wait CE_wcur 0 /\ evm = push (push ev (evc OP_load CE_wcur (mo_code (mo_rs_load P)))) waited').
  Proof.
    intros Erm Epc Etd Hr. unfold ref_read_sync. rewrite (rnext1_mod _ _ Hc Hr).
    assert (Eself : Z.eqb (c_wcur s) (c_wcur s) = true) by apply Z.eqb_refl.
    destruct (Z.eqb (c_wcur s) ((c_rcur s + 1) mod g_cap g)) eqn:E; simpl negb; cbv iota.
    - unfold run, cstep1. rewrite Epc. simpl is_plain. cbv iota. unfold cmicro at 1. rewrite Epc, Etd, Erm. cbv iota beta zeta.
      crunch.
      destruct (Nat.eqb ch 2); [|destruct (Nat.eqb ch 3)]; crunch; repeat split; try reflexivity; auto.
    - unfold run, cstep1. rewrite Epc. simpl is_plain. cbv iota. unfold cmicro at 1. rewrite Epc, Etd, Erm. cbv iota beta zeta.
      crunch.
      repeat match goal with |- context [if ?c then _ else _] => destruct c end; crunch; repeat split; reflexivity.
  Qed.
  Ltac split_ifs := repeat match goal with |- context [if ?c then _ else _] => destruct c end.

  (* one iteration of muggle_channel_read_busy: to the return or to the next poll (no wait) *)
  Lemma model_read_busy s ch ev again (slot : list Z) n :
    g_rm g = RBusy -> t_pc (c_thr s 0%nat) = R0 -> t_todo (c_thr s 0%nat) = S n -> 0 <= c_rcur s < g_cap g ->
    let '(_, again', ev', rc') := ref_read_busy P again (g_cap g) ev (c_rcur s) slot (c_wcur s) in
    let got := negb (c_wcur s =? rnext1 (g_cap g) (c_rcur s)) in
    let '(s', evm) := run (if got then 4 else 3) P g s 0%nat ch ev in
    c_rcur s' = rc' /\ c_wcur s' = c_wcur s /\
    (if got then evm = ev' /\ t_pc (c_thr s' 0%nat) = RRet /\ t_d (c_thr s' 0%nat) = fst (slot_read s (t_view (c_thr s' 0%nat)) rc' ch) /\ again' = again
     else t_pc (c_thr s' 0%nat) = RLoadW /\ again' = 1).
  Proof.
    intros Erm Epc Etd Hr. unfold ref_read_busy. rewrite (rnext1_mod _ _ Hc Hr).
    destruct (Z.eqb (c_wcur s) ((c_rcur s + 1) mod g_cap g)) eqn:E; simpl negb; cbv iota.
    - unfold run, cstep1. rewrite Epc. simpl is_plain. cbv iota. unfold cmicro at 1. rewrite Epc, Etd, Erm. cbv iota beta zeta.
      crunch. repeat split; reflexivity.
    - unfold run, cstep1. rewrite Epc. simpl is_plain. cbv iota. unfold cmicro at 1. rewrite Epc, Etd, Erm. cbv iota beta zeta.
      crunch. split_ifs; crunch; repeat split; reflexivity.
  Qed.

  (* muggle_channel_read_mutex up to the end of the first iteration: return, or condition wait *)
  Lemma model_read_mutex s ch ev again (slot : list Z) waited n :
    g_rm g = RMutex -> t_pc (c_thr s 0%nat) = R0 -> t_todo (c_thr s 0%nat) = S n -> 0 <= c_rcur s < g_cap g ->
    c_rmx s = 0 ->
    let '(_, again', ev', rc', waited') := ref_read_mutex again (g_cap g) ev (c_rcur s) slot waited (c_wcur s) in
    let got := negb (rnext1 (g_cap g) (c_rcur s) =? c_wcur s) in
    let '(s', evm) := run 4 P g s 0%nat ch ev in
    c_rcur s' = rc' /\ c_wcur s' = c_wcur s /\ c_rmx s' = 0 /\
    (if got then evm = ev' /\ t_pc (c_thr s' 0%nat) = RRet /\ t_d (c_thr s' 0%nat) = fst (slot_read s (t_view (c_thr s' 0%nat)) rc' ch) /\ again' = again
     else t_pc (c_thr s' 0%nat) = RCvBlocked /\ again' = 1 /\ waited' = evc OP_cvwait CE_rcv 0 /\
          evm = push (push ev (evc OP_mlock CE_rmx 0)) waited').
  Proof.
    intros Erm Epc Etd Hr Hx. unfold ref_read_mutex. rewrite (rnext1_mod _ _ Hc Hr).
    assert (Ex : Z.eqb (c_rmx s) 0 = true) by (apply Z.eqb_eq; exact Hx).
    destruct (Z.eqb ((c_rcur s + 1) mod g_cap g) (c_wcur s)) eqn:E; simpl negb; cbv iota.
    - unfold run, cstep1. rewrite Epc. simpl is_plain. cbv iota. unfold cmicro at 1. rewrite Epc, Etd, Erm. cbv iota beta zeta.
      crunch. repeat split; reflexivity.
    - unfold run, cstep1. rewrite Epc. simpl is_plain. cbv iota. unfold cmicro at 1. rewrite Epc, Etd, Erm. cbv iota beta zeta.
      crunch. split_ifs; crunch; repeat split; reflexivity.
  Qed.

  (* the wake functions: one operation each (fn_wake of the busy mode does nothing: the model goes
     from WAfterUnlock straight to WRet) *)
  Lemma model_wakes s t ch ev :
    (t_pc (c_thr s t) = WWake -> snd (run 1 P g s t ch ev) = ref_wake_sync ev) /\
    (t_pc (c_thr s t) = WCvSig -> snd (run 1 P g s t ch ev) = ref_wake_mutex ev) /\
    (g_rm g = RBusy -> t_pc (c_thr s t) = WAfterUnlock true -> snd (run 1 P g s t ch ev) = ev).
  Proof.
    repeat split; intros; unfold ref_wake_sync, ref_wake_mutex.
    - unfold run, cstep1, cop. rewrite H. simpl is_plain. cbv iota.
      destruct (t_pc (c_thr s 0%nat)); reflexivity.
    - unfold run, cstep1, cop. rewrite H. simpl is_plain. cbv iota.
      destruct (t_pc (c_thr s 0%nat)); reflexivity.
    - unfold run, cstep1, cmicro. rewrite H0, H. reflexivity.
  Qed.

  (* muggle_channel_write: fn_lock, fn_write, fn_unlock, then fn_wake exactly when fn_write
     returned 0 -- the model's pc graph: WUnlock ok -> (unlock) -> WAfterUnlock ok -> wake point iff ok *)
  Lemma model_wrapper s t ch ok :
    t_pc (c_thr s t) = WAfterUnlock ok ->
    match cmicro g s t ch with
    | Some (s', _) =>
      t_pc (c_thr s' t) = (if ok then match g_rm g with RSync => WWake | RMutex => WCvSig | RBusy => WRet true end
                           else WRet false)
    | None => False
    end.
  Proof. intros H. unfold cmicro. rewrite H. simpl. rewrite upd_same. reflexivity. Qed.
End Model.

(* ---- array blocking queue: the model's plain step under the mutex (ModelQ.v qmicro at QChk) is
   the helper the C text calls: same index, same successor, same count; and the model's operations
   carry the labels the slicer sees around it *)
Definition qcell_code (c : nat) : Z :=
  if Nat.eqb c cell_mx then CQ_mx else if Nat.eqb c cell_cvne then CQ_cvne else if Nat.eqb c cell_cvnf then CQ_cvnf else 0.
Definition qlab_code (l : label) : Z :=
  match l with LEv e => evc (op_code (e_op e)) (qcell_code (e_cell e)) 0 | _ => 0 end.

Lemma model_abq_put s t again (datas : list Z) ev waited data :
  q_pc (q_thr s t) = QChk -> q_is_prod s t = true ->
  let '(_, again', cnt', _, _, put', waited') := ref_abq_put again (q_cap s) (q_cnt s) datas ev (q_put s) waited data in
  match qmicro s t with
  | Some (s', _) =>
    q_cnt s' = cnt' /\ q_put s' = put' /\ q_take s' = q_take s /\
    (if q_cnt s =? q_cap s then q_pc (q_thr s' t) = QWait /\ again' = 1 /\ waited' = evc OP_cvwait CQ_cvnf 0 /\ q_datas s' = q_datas s
     else q_pc (q_thr s' t) = QSig /\ again' = again /\
          q_datas s' = zupd (q_datas s) (q_put s) (Some (S t, q_seq (q_thr s t))))
  | None => False
  end.
Proof.
  intros Epc Hp. unfold ref_abq_put, qmicro. rewrite Epc, Hp.
  destruct (q_cnt s =? q_cap s); simpl; rewrite ?upd_same; repeat split; reflexivity.
Qed.

Lemma model_abq_take s t again (datas : list Z) ev waited :
  q_pc (q_thr s t) = QChk -> q_is_prod s t = false ->
  let '(_, again', cnt', _, take', waited') := ref_abq_take again (q_cap s) (q_cnt s) datas ev (q_take s) waited in
  match qmicro s t with
  | Some (s', _) =>
    q_cnt s' = cnt' /\ q_take s' = take' /\ q_put s' = q_put s /\ q_datas s' = q_datas s /\
    (if q_cnt s =? 0 then q_pc (q_thr s' t) = QWait /\ again' = 1 /\ waited' = evc OP_cvwait CQ_cvne 0
     else q_pc (q_thr s' t) = QSig /\ again' = again /\ q_d (q_thr s' t) = q_datas s (q_take s))
  | None => False
  end.
Proof.
  intros Epc Hp. unfold ref_abq_take, qmicro. rewrite Epc, Hp.
  destruct (q_cnt s =? 0); simpl; rewrite ?upd_same; repeat split; reflexivity.
Qed.

(* the labels of the model's operations around the plain step: lock, wait on the own condition
   variable (producers: not_full, consumers: not_empty), notify the other one, unlock *)
Lemma model_abq_labels n s t ch s' l : qop n s t ch = Some (s', l) ->
  match q_pc (q_thr s t) with
  | QLock => qlab_code l = evc OP_mlock CQ_mx 0
  | QWait => qlab_code l = evc OP_cvwait (if q_is_prod s t then CQ_cvnf else CQ_cvne) 0
  | QSig => qlab_code l = evc OP_cvsig (if q_is_prod s t then CQ_cvne else CQ_cvnf) 0
  | QUnlock => qlab_code l = evc OP_munlock CQ_mx 0
  | _ => True
  end.
Proof.
  unfold qop, q_waits_nf. intros H. destruct (q_pc (q_thr s t)); try exact I.
  - destruct (q_mx s =? 0); inversion H; reflexivity.
  - inversion H. destruct (q_is_prod s t); reflexivity.
  - destruct (q_is_prod s t); simpl in H; destruct (q_pick s _ n ch); inversion H; reflexivity.
  - inversion H. reflexivity.
Qed.

(* the statements of the model-side lemmas, for Properties_C01.v *)
Definition write_sync_model_stmt (P : params) : Prop := ltac:(let T := type of (model_write_sync P) in exact T).
Definition write_busy_model_stmt (P : params) : Prop := ltac:(let T := type of (model_write_busy P) in exact T).
Definition write_mutex_model_stmt (P : params) : Prop := ltac:(let T := type of (model_write_mutex P) in exact T).
Definition read_sync_model_stmt (P : params) : Prop := ltac:(let T := type of (model_read_sync P) in exact T).
Definition read_busy_model_stmt (P : params) : Prop := ltac:(let T := type of (model_read_busy P) in exact T).
Definition read_mutex_model_stmt (P : params) : Prop := ltac:(let T := type of (model_read_mutex P) in exact T).
Definition wakes_model_stmt (P : params) : Prop := ltac:(let T := type of (model_wakes P) in exact T).
Definition wrapper_model_stmt : Prop := ltac:(let T := type of model_wrapper in exact T).
Definition abq_put_model_stmt : Prop := ltac:(let T := type of model_abq_put in exact T).
Definition abq_take_model_stmt : Prop := ltac:(let T := type of model_abq_take in exact T).
Definition abq_labels_model_stmt : Prop := ltac:(let T := type of model_abq_labels in exact T).
