(* C11 — muggle_array_list_get_index as re-translated from the C text on this
   run (gen/Params_C11.v, lib/leaftrans.py) equals the model's al_get_index on
   every representable list state and every int index other than INT_MIN.
   (The translator renders the final cast to int as value-preserving; the
   model writes it as to_int; under the invariant the value is in range.) *)
From MV Require Import Lib.Leaf C11.Model C11.ProofsLib C11.ProofsAL gen.Params_C11.
From Coq Require Import ZifyBool.
Local Open Scope Z_scope.

Lemma wrapu64_small : forall z, 0 <= z < two64 -> wrapu 64 z = z.
Proof. intros. unfold wrapu. change (2 ^ 64) with two64. now apply Z.mod_small. Qed.

Lemma gen_get_index_matches_model : forall s index, al_inv s -> int_ok index ->
  gen_muggle_array_list_get_index (asize s) index = al_get_index s index.
Proof.
  intros s index (H1 & H2 & H3) Hi. unfold int_ok in Hi.
  unfold gen_muggle_array_list_get_index, al_get_index. cbv zeta.
  assert (Hu : forall z, 0 <= z < two31 -> u64 z = z) by (intros; apply u64_small; unfold two31, two64 in *; lia).
  assert (Hw : forall z, 0 <= z < two31 -> wrapu 64 z = z) by (intros; apply wrapu64_small; unfold two31, two64 in *; lia).
  destruct (index >=? 0) eqn:E.
  - rewrite (Hw index), (Hu index) by lia. reflexivity.
  - rewrite (Hw (- index)), (Hu (- index)) by lia.
    destruct (- index >? asize s) eqn:E2; [reflexivity|].
    rewrite Hw by lia. rewrite to_int_small by lia. reflexivity.
Qed.
