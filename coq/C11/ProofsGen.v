(* C11 — muggle_array_list_get_index as re-translated from the C text on this
   run (gen/Params_C11.v, lib/leaftrans.py) equals the model's al_get_index on
   every representable list state and every int index other than INT_MIN.

   The proof does not depend on the shape of the generated term: both sides
   are unfolded down to comparisons, mod 2^k and linear arithmetic, every
   conditional is split (in the goal and in the hypotheses the splitting
   creates), and each leaf is closed by lia over the euclidean-division
   equations.  Structure-only rewrites of the C function (guard clauses,
   ternaries, hoisted locals, swapped branches with negated conditions) keep
   proving; a change of the selected value or of an accepted range does not.
   (The translator renders the final cast to int as value-preserving; the
   model writes it as to_int; under the invariant the value is in range.) *)
From MV Require Import Lib.Leaf C11.Model C11.ProofsLib C11.ProofsAL gen.Params_C11.
From Coq Require Import ZifyBool.
Local Open Scope Z_scope.

Ltac leaf_pow2_consts :=
  repeat match goal with
         | |- context [2 ^ ?n] => let v := eval vm_compute in (2 ^ n) in change (2 ^ n) with v
         end.

Ltac leaf_split_ifs :=
  repeat match goal with
         | |- context [if ?c then _ else _] => destruct c eqn:?
         | H : context [if ?c then _ else _] |- _ => destruct c eqn:?
         end.

Ltac leaf_close :=
  try reflexivity;
  try lia;
  try (Z.div_mod_to_equations; lia);
  try (Z.quot_rem_to_equations; Z.div_mod_to_equations; lia).

Ltac leaf_decide :=
  cbv zeta;
  unfold wrapu, b2z, z2b, cdiv, crem, u64, u32, to_int, two31, two32, two64 in *;
  cbv zeta;
  leaf_pow2_consts;
  leaf_split_ifs;
  leaf_close.

Lemma gen_get_index_matches_model : forall s index, al_inv s -> int_ok index ->
  gen_muggle_array_list_get_index (asize s) index = al_get_index s index.
Proof.
  intros s index (H1 & H2 & _) Hi. unfold int_ok in Hi.
  unfold gen_muggle_array_list_get_index, al_get_index.
  generalize dependent (asize s). generalize dependent (acap s). intros cap Hcap sz Hsz.
  leaf_decide.
Qed.
