(* C11 — HEAP-level executable models of the linked structures: linked list,
   queue and the live list of the pointer slot (definitions only, no proofs).

   Nodes are integer ids; the head / tail sentinel structs embedded in
   muggle_linked_list_t / muggle_queue_t / muggle_pointer_slot_t are the ids
   HEAD and TAIL; NULL is NULLP.  The heap is three explicit maps
   (node -> next pointer, node -> prev pointer, node -> data pointer); every
   pointer assignment of linked_list.c / queue.c / pointer_slot.c is one
   [set_next] / [set_prev] / [set_data], in the order of the C text, each
   reading the heap as left by the previous assignment.  C11/ProofsHeap.v
   proves that these models refine the functional sequence models of
   C11/Model.v. *)
From MV Require Export C11.Model.
Local Open Scope Z_scope.

Definition HEAD : Z := -1.
Definition TAIL : Z := -2.
Definition NULLP : Z := -3.

Record dheap := { hnext : Z -> Z; hprev : Z -> Z; hdata : Z -> Z }.

Definition upd (f : Z -> Z) (k v : Z) : Z -> Z := fun x => if x =? k then v else f x.

(* x->next = v;   x->prev = v;   x->data = v *)
Definition set_next (h : dheap) (x v : Z) : dheap :=
  {| hnext := upd (hnext h) x v; hprev := hprev h; hdata := hdata h |}.
Definition set_prev (h : dheap) (x v : Z) : dheap :=
  {| hnext := hnext h; hprev := upd (hprev h) x v; hdata := hdata h |}.
Definition set_data (h : dheap) (x v : Z) : dheap :=
  {| hnext := hnext h; hprev := hprev h; hdata := upd (hdata h) x v |}.

(* memset 0, then head.next = &tail; tail.prev = &head *)
Definition heap0 : dheap := {| hnext := fun _ => NULLP; hprev := fun _ => NULLP; hdata := fun _ => 0 |}.
Definition heap_init : dheap := set_prev (set_next heap0 HEAD TAIL) TAIL HEAD.

(* bounded walks used by iteration, by the drivers' dumps and by the theorems *)
Fixpoint h_walk_fw (fuel : nat) (h : dheap) (x : Z) : list Z :=
  match fuel with
  | O => []
  | S f => if x =? TAIL then [] else x :: h_walk_fw f h (hnext h x)
  end.
Fixpoint h_walk_bw (fuel : nat) (h : dheap) (x : Z) : list Z :=
  match fuel with
  | O => []
  | S f => if x =? HEAD then [] else x :: h_walk_bw f h (hprev h x)
  end.

(* ====================================================================== *)
(* linked list (muggle_linked_list_t: head, tail, pool, size)               *)

Record hlist := { hh : dheap; hnextid : Z; hpool : option Z; hsize : Z }.

Definition hl_init (capacity : Z) (alloc_ok : bool) : option hlist :=
  match pool_init capacity alloc_ok with
  | None => None
  | Some p => Some {| hh := heap_init; hnextid := 1; hpool := p; hsize := 0 |}
  end.

(* muggle_linked_list_first / _last / _next / _prev / _is_empty; None = NULL *)
Definition hl_first (s : hlist) : option Z :=
  let node := hnext (hh s) HEAD in if node =? TAIL then None else Some node.
Definition hl_last (s : hlist) : option Z :=
  let node := hprev (hh s) TAIL in if node =? HEAD then None else Some node.
Definition hl_next (s : hlist) (node : Z) : option Z :=
  let n := hnext (hh s) node in if n =? TAIL then None else Some n.
Definition hl_prev (s : hlist) (node : Z) : option Z :=
  let n := hprev (hh s) node in if n =? HEAD then None else Some n.
Definition hl_is_empty (s : hlist) : bool := hnext (hh s) HEAD =? TAIL.

(* the drivers' way of naming a node: first, then k times next *)
Fixpoint hl_at_from (k : nat) (s : hlist) (node : option Z) : option Z :=
  match k with
  | O => node
  | S k' => match node with None => None | Some n => hl_at_from k' s (hl_next s n) end
  end.
Definition hl_at (s : hlist) (k : Z) : option Z :=
  if k <? 0 then None else hl_at_from (Z.to_nat k) s (hl_first s).

(* muggle_linked_list_insert(list, node, data): new node before [node], NULL = before head.next *)
Definition hl_insert (s : hlist) (node : option Z) (data : Z) (alloc_ok : bool) : hlist * option Z :=
  match node_alloc (hpool s) (hsize s) alloc_ok with
  | None => (s, None)
  | Some p' =>
    let nw := hnextid s in
    let h := set_data (hh s) nw data in                       (* new_node->data = data          *)
    let node := match node with None => hnext h HEAD | Some n => n end in
    let h := set_next h (hprev h node) nw in                  (* node->prev->next = new_node    *)
    let h := set_prev h nw (hprev h node) in                  (* new_node->prev = node->prev    *)
    let h := set_next h nw node in                            (* new_node->next = node          *)
    let h := set_prev h node nw in                            (* node->prev = new_node          *)
    ({| hh := h; hnextid := nw + 1; hpool := p'; hsize := hsize s + 1 |}, Some nw)
  end.

(* muggle_linked_list_append(list, node, data): new node after [node], NULL = after tail.prev *)
Definition hl_append (s : hlist) (node : option Z) (data : Z) (alloc_ok : bool) : hlist * option Z :=
  match node_alloc (hpool s) (hsize s) alloc_ok with
  | None => (s, None)
  | Some p' =>
    let nw := hnextid s in
    let h := set_data (hh s) nw data in                       (* new_node->data = data          *)
    let node := match node with None => hprev h TAIL | Some n => n end in
    let h := set_prev h (hnext h node) nw in                  (* node->next->prev = new_node    *)
    let h := set_next h nw (hnext h node) in                  (* new_node->next = node->next    *)
    let h := set_prev h nw node in                            (* new_node->prev = node          *)
    let h := set_next h node nw in                            (* node->next = new_node          *)
    ({| hh := h; hnextid := nw + 1; hpool := p'; hsize := hsize s + 1 |}, Some nw)
  end.

(* muggle_linked_list_free_data / muggle_queue_free_data: a non-NULL datum is handed to the callback when one
   is supplied ([cb]); the data pointer is cleared in both cases *)
Definition h_free_data (h : dheap) (node : Z) (cb : bool) : dheap * list Z :=
  let d := hdata h node in
  if d =? 0 then (h, []) else (set_data h node 0, if cb then [d] else []).    (* node->data = NULL *)

(* the unlinking part of muggle_linked_list_free_node / muggle_queue_free_node *)
Definition h_unlink (h : dheap) (node : Z) : dheap :=
  let h := set_next h (hprev h node) (hnext h node) in          (* node->prev->next = node->next *)
  set_prev h (hnext h node) (hprev h node).                     (* node->next->prev = node->prev *)

(* muggle_linked_list_remove: the next node (None = NULL) and the data freed *)
Definition hl_remove (s : hlist) (node : Z) (cb : bool) : hlist * option Z * list Z :=
  let next_node := hl_next s node in
  let (h1, f) := h_free_data (hh s) node cb in
  let h2 := h_unlink h1 node in
  ({| hh := h2; hnextid := hnextid s; hpool := hpool s; hsize := hsize s - 1 |}, next_node, f).

(* while (node != &tail) { next = node->next; free_data; free_node; node = next; }
   fuel = number of iterations allowed; returns the node the loop stopped at *)
Fixpoint h_clear_loop (fuel : nat) (cb : bool) (h : dheap) (node : Z) : dheap * list Z * Z :=
  match fuel with
  | O => (h, [], node)
  | S f =>
    if node =? TAIL then (h, [], node)
    else
      let nx := hnext h node in
      let (h1, fr) := h_free_data h node cb in
      let h2 := h_unlink h1 node in
      let '(h3, fr', stop) := h_clear_loop f cb h2 nx in
      (h3, fr ++ fr', stop)
  end.

(* muggle_linked_list_clear / muggle_queue_clear; None = the loop did not
   terminate within [size] iterations (proved impossible) *)
Definition hl_clear (s : hlist) (cb : bool) : option (hlist * list Z) :=
  let '(h, fr, stop) := h_clear_loop (Z.to_nat (hsize s)) cb (hh s) (hnext (hh s) HEAD) in
  if stop =? TAIL
  then Some ({| hh := h; hnextid := hnextid s; hpool := hpool s; hsize := 0 |}, fr)
  else None.

Fixpoint h_find_loop (fuel : nat) (cmp : Z -> Z -> bool) (h : dheap) (node data : Z) : option Z :=
  match fuel with
  | O => None
  | S f =>
    if node =? TAIL then None
    else if cmp (hdata h node) data then Some node
    else h_find_loop f cmp h (hnext h node) data
  end.

(* muggle_linked_list_find from [node] (NULL = head.next) *)
Definition hl_find (cmp : Z -> Z -> bool) (s : hlist) (node : option Z) (data : Z) : option Z :=
  let start := match node with None => hnext (hh s) HEAD | Some n => n end in
  h_find_loop (S (Z.to_nat (hsize s))) cmp (hh s) start data.

(* what the drivers print: forward walk with data, backward walk *)
Definition hl_forward (s : hlist) : list (Z * Z) :=
  map (fun n => (n, hdata (hh s) n)) (h_walk_fw (S (Z.to_nat (hsize s))) (hh s) (hnext (hh s) HEAD)).
Definition hl_backward (s : hlist) : list Z :=
  h_walk_bw (S (Z.to_nat (hsize s))) (hh s) (hprev (hh s) TAIL).

(* ====================================================================== *)
(* queue (muggle_queue_t has the same four fields)                          *)

Definition hq_init := hl_init.

(* muggle_queue_enqueue *)
Definition hq_enqueue (s : hlist) (data : Z) (alloc_ok : bool) : hlist * option Z :=
  match node_alloc (hpool s) (hsize s) alloc_ok with
  | None => (s, None)
  | Some p' =>
    let nw := hnextid s in
    let h := set_data (hh s) nw data in                       (* new_node->data = data          *)
    let node := hprev h TAIL in                               (* node = tail.prev               *)
    let h := set_prev h (hnext h node) nw in                  (* node->next->prev = new_node    *)
    let h := set_next h nw (hnext h node) in                  (* new_node->next = node->next    *)
    let h := set_prev h nw node in                            (* new_node->prev = node          *)
    let h := set_next h node nw in                            (* node->next = new_node          *)
    ({| hh := h; hnextid := nw + 1; hpool := p'; hsize := hsize s + 1 |}, Some nw)
  end.

(* muggle_queue_dequeue *)
Definition hq_dequeue (s : hlist) (cb : bool) : hlist * list Z :=
  if hl_is_empty s then (s, [])
  else
    let node := hnext (hh s) HEAD in
    let (h1, f) := h_free_data (hh s) node cb in
    let h2 := h_unlink h1 node in
    ({| hh := h2; hnextid := hnextid s; hpool := hpool s; hsize := hsize s - 1 |}, f).

(* muggle_queue_front: node and its data *)
Definition hq_front (s : hlist) : option (Z * Z) :=
  if hl_is_empty s then None else let n := hnext (hh s) HEAD in Some (n, hdata (hh s) n).

Definition hq_clear := hl_clear.

(* ====================================================================== *)
(* pointer slot: the cursor / slot-array part is Model.pslot (whose [live]
   field is then a ghost of the head..tail list), the prev/next fields of
   head, tail and slots[] are the maps below; slot k is node k *)

Record hpslot := { hcore : pslot; hlinks : dheap }.

Definition hps_init (requested : Z) (alloc_ok : bool) : option hpslot :=
  match ps_init requested alloc_ok with
  | None => None
  | Some c => Some {| hcore := c; hlinks := heap_init |}
  end.

Definition hps_preset (s : hpslot) (a : Z) : hpslot :=
  {| hcore := ps_preset (hcore s) a; hlinks := hlinks s |}.

(* muggle_pointer_slot_insert *)
Definition hps_insert (s : hpslot) (data : Z) : option (hpslot * (pres * Z)) :=
  match ps_insert (hcore s) data with
  | None => None
  | Some (c', (POk, sid)) =>
    let h := hlinks s in
    let h := set_prev h sid (hprev h TAIL) in                 (* p_slot->prev = tail.prev       *)
    let h := set_next h sid TAIL in                           (* p_slot->next = &tail           *)
    let h := set_next h (hprev h TAIL) sid in                 (* tail.prev->next = p_slot       *)
    let h := set_prev h TAIL sid in                           (* tail.prev = p_slot             *)
    Some ({| hcore := c'; hlinks := h |}, (POk, sid))
  | Some (c', r) => Some ({| hcore := c'; hlinks := hlinks s |}, r)
  end.

(* muggle_pointer_slot_remove *)
Definition hps_remove (s : hpslot) (idx : Z) : option (hpslot * pres) :=
  match ps_remove (hcore s) idx with
  | None => None
  | Some (c', POk) =>
    let h := hlinks s in
    let h := set_next h (hprev h idx) (hnext h idx) in        (* p_slot->prev->next = p_slot->next *)
    let h := set_prev h (hnext h idx) (hprev h idx) in        (* p_slot->next->prev = p_slot->prev *)
    let h := set_prev h idx NULLP in                          (* p_slot->prev = NULL            *)
    let h := set_next h idx NULLP in                          (* p_slot->next = NULL            *)
    Some ({| hcore := c'; hlinks := h |}, POk)
  | Some (c', r) => Some ({| hcore := c'; hlinks := hlinks s |}, r)
  end.

Definition hps_get (s : hpslot) (idx : Z) : option Z := ps_get (hcore s) idx.

(* for (it = iter_begin; it != iter_end; it = it->next): (slot_idx, iter_data) *)
Definition hps_iter (s : hpslot) : list (Z * Z) :=
  map (fun sid => (sid, match zget (slots (hcore s)) sid with Some sl => sdata sl | None => 0 end))
      (h_walk_fw (S (Z.to_nat (pcap (hcore s)))) (hlinks s) (hnext (hlinks s) HEAD)).
Definition hps_backward (s : hpslot) : list Z :=
  h_walk_bw (S (Z.to_nat (pcap (hcore s)))) (hlinks s) (hprev (hlinks s) TAIL).

(* ====================================================================== *)
(* histories at heap level (operations named as in Model.v; a linked-list
   node argument is found as the drivers do: first, then k times next)      *)

Definition is_some {A} (o : option A) : bool := match o with Some _ => true | None => false end.

(* Some None = NULL, Some (Some n) = node n, None = no such position *)
Definition hl_node_of (s : hlist) (pos : option Z) : option (option Z) :=
  match pos with
  | None => Some None
  | Some k => match hl_at s k with Some n => Some (Some n) | None => None end
  end.

Definition hl_pstep (s : hlist) (o : ll_op) : option (hlist * (bool * list Z)) :=
  match o with
  | LIns pos d ok =>
    match hl_node_of s pos with
    | None => None
    | Some node => let (s', r) := hl_insert s node d ok in Some (s', (is_some r, []))
    end
  | LApp pos d ok =>
    match hl_node_of s pos with
    | None => None
    | Some node => let (s', r) := hl_append s node d ok in Some (s', (is_some r, []))
    end
  | LRem k cb =>
    match hl_at s k with
    | None => None
    | Some n => let '(s', _, f) := hl_remove s n cb in Some (s', (true, f))
    end
  | LClear cb => match hl_clear s cb with Some (s', f) => Some (s', (true, f)) | None => None end
  end.

Fixpoint hl_prun (s : hlist) (ops : list ll_op) : option (hlist * list (bool * list Z)) :=
  match ops with
  | [] => Some (s, [])
  | o :: r =>
    match hl_pstep s o with
    | None => None
    | Some (s1, x) => match hl_prun s1 r with None => None | Some (s2, xs) => Some (s2, x :: xs) end
    end
  end.

Definition hq_step (s : hlist) (o : qu_op) : option (hlist * (bool * list Z)) :=
  match o with
  | QEnq d ok => let (s', r) := hq_enqueue s d ok in Some (s', (is_some r, []))
  | QDeq cb => let (s', f) := hq_dequeue s cb in Some (s', (true, f))
  | QClear cb => match hq_clear s cb with Some (s', f) => Some (s', (true, f)) | None => None end
  end.

Fixpoint hq_run (s : hlist) (ops : list qu_op) : option (hlist * list (bool * list Z)) :=
  match ops with
  | [] => Some (s, [])
  | o :: r =>
    match hq_step s o with
    | None => None
    | Some (s1, x) => match hq_run s1 r with None => None | Some (s2, xs) => Some (s2, x :: xs) end
    end
  end.

Definition hps_step (s : hpslot) (o : ps_op) : option (hpslot * ps_res) :=
  match o with
  | PIns d => match hps_insert s d with Some (s', (r, i)) => Some (s', RIns r i) | None => None end
  | PRem i => match hps_remove s i with Some (s', r) => Some (s', RRem r) | None => None end
  | PGet i => match hps_get s i with Some d => Some (s, RGet d) | None => None end
  end.

Fixpoint hps_run (s : hpslot) (ops : list ps_op) : option (hpslot * list ps_res) :=
  match ops with
  | [] => Some (s, [])
  | o :: r =>
    match hps_step s o with
    | None => None
    | Some (s1, x) => match hps_run s1 r with None => None | Some (s2, xs) => Some (s2, x :: xs) end
    end
  end.
